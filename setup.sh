#!/bin/bash
# Build the Coq development from files on disk only (offline).
set -e
cd "$(dirname "$0")/coq"
mkdir -p Generated
coq_makefile -f _CoqProject -o Makefile
timeout 3000 make -j"$(nproc)"
