#!/usr/bin/env python3
"""Fail-closed translator: /repo/dask_array/**/*.py  ->  coq/Generated/ImportGraph.v

For every module of the package it emits (a) the dask_array modules it imports at IMPORT
TIME (module-level `import` / `from ... import`, including those nested in module-level
if/try/with blocks, and in class bodies — everything that runs when the module is imported;
function bodies do not run), and (b) whether its import-time code CALLS one of the
registration entry points (`_ensure_registered`, `register`, `list_chunkmanagers`, or
assigns into a chunk-manager table).  Dynamic imports at module level (`importlib.import_module`,
`__import__`) make the translator refuse, as does a syntax error.  tests/ are not part of
the importable package surface users import and are skipped."""
from __future__ import annotations

import ast
import os
import sys

REG_NAMES = {"_ensure_registered", "list_chunkmanagers", "load_chunkmanagers", "xarray.register", "<bare>.register"}


class Refuse(Exception):
    pass


def module_name(root, path):
    rel = os.path.relpath(path, os.path.dirname(root))[:-3].replace(os.sep, ".")
    if rel.endswith(".__init__"):
        rel = rel[: -len(".__init__")]
    return rel


def import_time_nodes(tree):
    """statements executed at import: module body, recursively through if/try/with/for/while and class bodies; not def bodies"""
    stack = list(tree.body)
    while stack:
        n = stack.pop()
        yield n
        if isinstance(n, (ast.FunctionDef, ast.AsyncFunctionDef, ast.Lambda)):
            continue
        for field in ("body", "orelse", "finalbody", "handlers"):
            for c in getattr(n, field, []) or []:
                if isinstance(c, ast.ExceptHandler):
                    stack.extend(c.body)
                elif isinstance(c, ast.stmt):
                    stack.append(c)


def calls_in(stmt):
    """call targets inside a statement, not descending into function definitions"""
    out = []
    stack = [stmt]
    while stack:
        n = stack.pop()
        if isinstance(n, (ast.FunctionDef, ast.AsyncFunctionDef, ast.Lambda)) and n is not stmt:
            continue
        if isinstance(n, (ast.FunctionDef, ast.AsyncFunctionDef)):
            # decorators and defaults run at import, the body does not
            stack.extend(n.decorator_list)
            stack.extend(n.args.defaults)
            continue
        if isinstance(n, ast.Call):
            f = n.func
            if isinstance(f, ast.Name):
                out.append("<bare>.register" if f.id == "register" else f.id)
            elif isinstance(f, ast.Attribute):
                q = f.value
                qual = q.id if isinstance(q, ast.Name) else q.attr if isinstance(q, ast.Attribute) else ""
                # `something.register(...)` is a dispatch decorator unless the receiver is the xarray control module
                out.append("xarray.register" if (f.attr == "register" and qual.endswith("xarray")) else
                           ("other.register" if f.attr == "register" else f.attr))
        stack.extend(ast.iter_child_nodes(n))
    return out


def analyse(root):
    mods = {}
    for dirpath, dirnames, files in os.walk(root):
        dirnames[:] = [d for d in dirnames if d not in ("tests", "__pycache__")]
        for f in files:
            if f.endswith(".py"):
                p = os.path.join(dirpath, f)
                mods[module_name(root, p)] = p
    pkg = os.path.basename(root)
    info = {}
    for name, path in sorted(mods.items()):
        try:
            tree = ast.parse(open(path).read(), filename=path)
        except SyntaxError as e:
            raise Refuse(f"{path}: {e}")
        is_pkg = path.endswith("__init__.py")
        imports, registers = set(), False
        for st in import_time_nodes(tree):
            if isinstance(st, ast.Import):
                for a in st.names:
                    imports.add(a.name)
            elif isinstance(st, ast.ImportFrom):
                base = st.module or ""
                if st.level:
                    parts = name.split(".")
                    up = parts if is_pkg else parts[:-1]
                    up = up[: len(up) - (st.level - 1)]
                    base = ".".join(up + ([st.module] if st.module else []))
                imports.add(base)
                for a in st.names:
                    imports.add(base + "." + a.name)      # may be a submodule
            if isinstance(st, (ast.FunctionDef, ast.AsyncFunctionDef, ast.ClassDef)) is False or isinstance(st, ast.ClassDef):
                pass
            for c in calls_in(st):
                if c in ("import_module", "__import__"):
                    raise Refuse(f"{path}: dynamic import at import time")
                if c in REG_NAMES:
                    registers = True
        # importing a.b.c imports a and a.b first
        closure = set()
        for i in imports:
            parts = i.split(".")
            for k in range(1, len(parts) + 1):
                cand = ".".join(parts[:k])
                if cand in mods:
                    closure.add(cand)
        # a submodule import also runs its parent packages' __init__
        parts = name.split(".")
        for k in range(1, len(parts)):
            closure.add(".".join(parts[:k]))
        closure.discard(name)
        info[name] = (sorted(closure), registers, "xarray" in {i.split(".")[0] for i in imports})
    return pkg, info


def emit(pkg, info, out):
    names = sorted(info)
    ids = {n: i for i, n in enumerate(names)}
    lines = ["(* GENERATED by translator/importgraph.py from /repo/dask_array — do not edit. *)",
             "From Coq Require Import List NArith.", "Import ListNotations.", "Open Scope N_scope.", "",
             "(* (module id, ids of the dask_array modules its import-time code imports) *)",
             "Definition import_edges : list (N * list N) :=", "  ["]
    body = []
    for n in names:
        body.append(f"   ({ids[n]}, [{'; '.join(str(ids[m]) for m in info[n][0])}])  (* {n} *)")
    lines.append(";\n".join(body))
    lines += ["  ].", "",
              "(* modules whose import-time code calls a registration entry point *)",
              "Definition registering_at_import : list N := [" + "; ".join(f"{ids[n]}" for n in names if info[n][1]) + "].", "",
              "(* modules whose import-time code imports xarray itself *)",
              "Definition imports_xarray_at_import : list N := [" + "; ".join(f"{ids[n]}" for n in names if info[n][2]) + "].", "",
              f"Definition mod_xarray_impl : N := {ids[pkg + '._xarray']}.   (* {pkg}._xarray: defines the manager and _ensure_registered *)",
              f"Definition mod_xarray_public : N := {ids[pkg + '.xarray']}.   (* {pkg}.xarray: register() / isactive() *)",
              f"Definition n_modules : nat := {len(names)}%nat.",
              "Definition all_modules : list N := [" + "; ".join(str(i) for i in range(len(names))) + "].", ""]
    with open(out, "w") as f:
        f.write("\n".join(lines))
    return ids


def main():
    repo = sys.argv[1] if len(sys.argv) > 1 else "/repo"
    out = sys.argv[2]
    try:
        pkg, info = analyse(os.path.join(repo, "dask_array"))
        emit(pkg, info, out)
    except Refuse as e:
        print("REFUSED:", e)
        sys.exit(2)
    print(f"modules={len(info)} registering={sum(1 for v in info.values() if v[1])}")


if __name__ == "__main__":
    main()
