(* L3 — the ADVERTISED-CHUNKS RULE of the public array API, for the program language of ProgSem.v.
   Definitions only; proofs are in ProgChunksFacts.v, statements in Properties/C03.v.

   [pchunks orc p] is what dask_array advertises as `.chunks` for the RESULT of program p, as a function
   of the chunks of the operands — the composition of the `.chunks` properties of the expression classes
   the API functions build (named above each rule).  A layout is one list of block sizes per axis.

   ORACLES.  [orc : list nat -> layout] is indexed by the PATH of a node (child numbers from the root of
   the program; [] is the root).  It supplies
   * for a LEAF (from_array / ones / arange): the chunks the user asked for (ProgSem's leaves do not carry
     them) — FromArray.chunks / Ones.chunks / Arange.chunks return the normalised request;
   * for a node that UNIFIES differently chunked operands (Elemwise / where / diff's subtraction; the
     non-concatenated axes of concatenate, roll, repeat; stack): the layout unify_chunks_expr decided
     (coq/theories/UnifyDecide.v models that decision; it needs names, byte sizes, the policy and float
     cost comparisons, so here it is an oracle).  The oracle value is the layout ADVERTISED FOR THAT NODE;
     it is consulted only on the axes where the operands disagree: where all array operands carry the same
     layout the rule is deterministic (that layout), which the harness checks against the implementation.
   Theorems quantify over all oracles that return a layout of the node's advertised shape.

   NOT MODELLED (pchunks = None, counted by the harness): take (the shuffle grouping, TakeModel of C12),
   reshape, rechunk with a non-explicit specification (ints, -1, dicts: NormChunks.v), repeat with
   repeats > 3 (np.linspace(..).round() in floating point). *)
From DA Require Export ProgSem.
Open Scope Z_scope.

Definition layout := list (list Z).
Definition oracle := list nat -> layout.
(* the oracle seen from child number i *)
Definition sub (orc : oracle) (i : nat) : oracle := fun pth => orc (i :: pth).

(* the shape a layout lays out *)
Definition cshape (cs : layout) : list Z := map zsum cs.

Definition is_nil {A} (l : list A) : bool := match l with [] => true | _ => false end.

(* specification side: cs is a layout of shape s — sizes sum to the axis lengths, no negative block,
   at least one block per axis *)
Definition axis_okb (c : list Z) : bool := all_nonneg c && negb (is_nil c).
Definition layout_okb (cs : layout) (s : list Z) : bool := zlist_eqb (cshape cs) s && forallb axis_okb cs.

Definition lset_nth (k : nat) (v : list Z) (l : layout) : layout := firstn k l ++ match skipn k l with [] => [] | _ :: t => v :: t end.

(* ---------------------------------------------------------------------- *)
(* Array.__getitem__ for a basic index  [_collection.py, slicing/_basic.py]:
     index2 = normalize_index(index, shape)        -- normalize_slice per sliced axis, trailing full slices
     slice_with_newaxes: SliceSlicesIntegers(x, index2 without None).chunks
         = [new_blockdim(d, db, i) for d, i, db in zip(shape, index, chunks) if not isinstance(i, Integral)]
       wrapped in ExpandDims(., where_none).chunks:  chunks.insert(ax, (1,))  at the positions of the Nones
   (all-full-slice indices return x itself: new_blockdim of a full slice is the layout unchanged).
   The per-axis pieces are modelled and proved separately (Slicing.new_blockdim, C13; Indexing.v, C12). *)
Fixpoint slice_chunks (ix : list pidx) (cs : layout) : layout :=
  match ix with
  | [] => cs
  | INone :: ix' => [1] :: slice_chunks ix' cs
  | IInt _ :: ix' => slice_chunks ix' (tl cs)
  | ISlice s :: ix' =>
      let db := hd [] cs in
      let d := zsum db in
      new_blockdim d db (normalize_slice s d) :: slice_chunks ix' (tl cs)
  end.

(* x[:, ..., :, s]  with s on axis ax *)
Definition ax_index (ax : nat) (s : pslice) : list pidx := repeat (ISlice colon) ax ++ [ISlice s].

(* ---------------------------------------------------------------------- *)
(* concatenate(seq, axis)   [stacking/_concatenate.py]
     seq2 = [a for a in seq if a.size] or seq            -- empty arrays are dropped
     n == 1: return seq2[0]
     unify_chunks_expr over the other axes (one shared label per axis, a private label on `axis`)
     Concatenate.chunks = bds[0][:axis] + (sum((bd[axis] for bd in bds), ()),) + bds[0][axis+1:] *)
Definition lsize (cs : layout) : Z := prodZ (cshape cs).

Fixpoint concat_axes (i : nat) (n : nat) (ax : nat) (ov : layout) (p : layout) (rest : list layout) : layout :=
  match n with
  | O => []
  | S n' =>
      (if Nat.eqb i ax then concat (map (fun q => nth ax q []) (p :: rest))
       else if forallb (fun q => zlist_eqb (nth i q []) (nth i p [])) rest then nth i p []
       else nth i ov [])
      :: concat_axes (S i) n' ax ov p rest
  end.

Definition concat_chunks (ax : nat) (ov : layout) (parts : list layout) : option layout :=
  let nonempty := filter (fun q => negb (lsize q =? 0)) parts in
  match (match nonempty with [] => parts | _ => nonempty end) with
  | [] => None                                            (* ValueError: Need array(s) to concatenate *)
  | [p] => Some p
  | p :: rest => Some (concat_axes 0 (length p) ax ov p rest)
  end.

(* ---------------------------------------------------------------------- *)
(* repeat(a, repeats, axis)   [creation/_repeat.py]
     repeats == 0: a[.., :0, ..];  repeats == 1: a
     for every chunk [c_start, c_stop]: ls = np.linspace(c_start, c_stop, repeats).round(0); the non-empty
     consecutive pieces of ls are slabs; each slab (one block along axis) is repeated blockwise, chunk = len*repeats;
     concatenate(slabs, axis).
   repeats = 2: ls = [c_start, c_stop]; repeats = 3: the midpoint (c_start + c_stop)/2 is exact in binary floating
   point and np.round rounds halves to even. *)
Definition round_half_even2 (two : Z) : Z :=        (* round(two / 2) *)
  if two mod 2 =? 0 then two / 2
  else if (two / 2) mod 2 =? 0 then two / 2 else two / 2 + 1.

Fixpoint repeat_slabs (k : Z) (start : Z) (cs : list Z) : list Z :=
  match cs with
  | [] => []
  | c :: t =>
      (if k =? 2 then [c]
       else let mid := round_half_even2 (2 * start + c) in [mid - start; start + c - mid])
      ++ repeat_slabs k (start + c) t
  end.

Definition repeat_chunks (k : Z) (ax : nat) (ov : layout) (cs : layout) : option layout :=
  if k =? 1 then Some cs
  else if k =? 0 then Some (slice_chunks (ax_index ax (mkslice None (Some 0) None)) cs)
  else if (k =? 2) || (k =? 3) then
    match filter (fun x => negb (x =? 0)) (repeat_slabs k 0 (nth ax cs [])) with
    | [] => None                                          (* concatenate([]) raises (finding F19) *)
    | slabs => concat_chunks ax ov (map (fun sl => lset_nth ax [sl * k] cs) slabs)
    end
  else None.

(* ---------------------------------------------------------------------- *)
(* reductions  [reductions/_reduction.py]: after the tree every reduced axis is one block of size 1
   (keepdims) or is dropped *)
Fixpoint red_kchunks (pos : nat) (axes : list nat) (cs : layout) : layout :=
  match cs with
  | [] => []
  | c :: t => (if memn pos axes then [1] else c) :: red_kchunks (S pos) axes t
  end.
Fixpoint red_dchunks (pos : nat) (axes : list nat) (cs : layout) : layout :=
  match cs with
  | [] => []
  | c :: t => if memn pos axes then red_dchunks (S pos) axes t else c :: red_dchunks (S pos) axes t
  end.

(* broadcast_to(x, shape)   [_broadcast_to.py]
     x.shape == shape: return x
     chunks = tuple((s,) for s in shape[:ndim_new])
              + tuple(bd if old > 1 else (new,) for bd, old, new in zip(x.chunks, x.shape, shape[ndim_new:])) *)
Definition bcast_chunks (shp : list Z) (cs : layout) : layout :=
  if zlist_eqb (cshape cs) shp then cs
  else
    let k := (length shp - length cs)%nat in
    map (fun n => [n]) (firstn k shp)
    ++ map3 (fun bd old new => if 1 <? old then bd else [new]) cs (cshape cs) (skipn k shp).

(* Elemwise.chunks = the unified layout  [_blockwise.py, _expr.unify_chunks_expr]; operands of rank 0 (Python
   scalars, 0-d arrays) have no axis labels and do not take part *)
Definition elem_chunks (ov : layout) (css : list layout) : layout :=
  match filter (fun c => negb (is_nil c)) css with
  | [] => []
  | c0 :: rest => if forallb (zlist2_eqb c0) rest then c0 else ov
  end.

(* ---------------------------------------------------------------------- *)
(* one unary operation: ov = the oracle's value at this node, cs = the operand's chunks *)
Definition un_chunks (o : unop) (ov : layout) (cs : layout) : option layout :=
  let s := cshape cs in
  match o with
  | OT axes => Some (pickn [] cs axes)                        (* Transpose.chunks: chunks[axes[i]] *)
  | OSlice ix => Some (slice_chunks ix cs)
  | OExpand ax => Some (insert_at ax [1] cs)                  (* ExpandDims.chunks *)
  | OSqueeze ax => Some (remove_at ax cs)                     (* Squeeze.chunks *)
  | OBroadcast shp => Some (bcast_chunks shp cs)
  | OFlip ax => Some (slice_chunks (flip_index ax) cs)        (* flip: m[.., ::-1, ..] *)
  | ORoll shift ax =>
      (* roll [manipulation/_roll.py]: s = 0 if n == 0 else -shift % n;
         concatenate([x[.., s:, ..], x[.., :s, ..]], axis) *)
      let n := nth ax s 0 in
      let sft := if n =? 0 then 0 else (- shift) mod n in
      concat_chunks ax ov [slice_chunks (ax_index ax (mkslice (Some sft) None None)) cs;
                           slice_chunks (ax_index ax (mkslice None (Some sft) None)) cs]
  | OTake _ _ => None
  | ORepeat k ax => repeat_chunks k ax ov cs
  | ODiff ax =>
      (* diff [routines/_diff.py]: a[.., 1:, ..] - a[.., :-1, ..] *)
      Some (elem_chunks ov [slice_chunks (ax_index ax (mkslice (Some 1) None None)) cs;
                            slice_chunks (ax_index ax (mkslice None (Some (-1)) None)) cs])
  | OReshape _ => None
  | OReduce f axes kd =>
      let l := red_axes axes s in
      Some (if kd then red_kchunks 0 l cs else red_dchunks 0 l cs)
  | OCum _ _ => Some cs                                       (* CumReduction(.Blelloch).chunks = array.chunks *)
  | ORechunk spec =>
      (* x.rechunk(tuple of tuples): normalize_chunks keeps an explicit specification, raises when it does not
         lay out the shape *)
      if layout_okb spec s then Some spec else None
  end.

(* one n-ary operation: css = the operands' chunks *)
Definition n_chunks (o : naryop) (ov : layout) (css : list layout) : option layout :=
  match o with
  | NElem _ => Some (elem_chunks ov css)
  | NConcat ax => concat_chunks ax ov css
  | NStack ax =>
      (* stack [stacking/_stack.py]: unify over all axes; Stack.chunks = chunks[:axis] + ((1,)*n,) + chunks[axis:] *)
      match css with
      | [] => None
      | c0 :: rest =>
          let u := if forallb (zlist2_eqb c0) rest then c0 else remove_at ax ov in
          Some (insert_at ax (repeat 1 (length css)) u)
      end
  end.

(* ---------------------------------------------------------------------- *)
(* the advertised-chunks rule *)
Fixpoint pchunks (orc : oracle) (p : prog) {struct p} : option layout :=
  match p with
  | PSrc _ _ | POnes _ | PArange _ => Some (orc [])
  | PConst _ => Some []
  | PUn o q => match pchunks (sub orc 0) q with Some cs => un_chunks o (orc []) cs | None => None end
  | PN o ps =>
      match sequence ((fix go (i : nat) (l : list prog) {struct l} : list (option layout) :=
                         match l with
                         | [] => []
                         | q :: t => pchunks (sub orc i) q :: go (S i) t
                         end) 0%nat ps) with
      | Some css => n_chunks o (orc []) css
      | None => None
      end
  end.

(* the same list, as a top-level function (ProgChunksFacts.pchunks_PN) *)
Fixpoint pchunks_from (orc : oracle) (i : nat) (l : list prog) : list (option layout) :=
  match l with
  | [] => []
  | q :: t => pchunks (sub orc i) q :: pchunks_from orc (S i) t
  end.

(* ---------------------------------------------------------------------- *)
(* specification side: the sub-program at a path, and the oracle's well-formedness: at every node it
   returns a layout of that node's advertised shape *)
Fixpoint subprog_at (p : prog) (pth : list nat) : option prog :=
  match pth with
  | [] => Some p
  | i :: rest =>
      match p with
      | PUn _ q => match i with O => subprog_at q rest | _ => None end
      | PN _ ps => match nth_error ps i with Some q => subprog_at q rest | None => None end
      | _ => None
      end
  end.

Definition orc_wf (orc : oracle) (p : prog) : Prop :=
  forall pth q s, subprog_at p pth = Some q -> pshape q = Some s -> layout_okb (orc pth) s = true.

(* a layout of shape s *)
Definition lay_ok (cs : layout) (s : list Z) : Prop :=
  cshape cs = s /\ Forall (fun c => Forall (fun x => 0 <= x) c /\ c <> []) cs.

(* operations whose rule is modelled (pchunks may still be None where the implementation raises) *)
Definition un_modelled (o : unop) : bool :=
  match o with OTake _ _ | OReshape _ => false | _ => true end.

(* ---------------------------------------------------------------------- *)
(* what the correspondence harness evaluates: the oracle as a finite table path -> layout *)
Definition path_eqb (a b : list nat) : bool := list_eqb Nat.eqb a b.
Fixpoint table_get (tbl : list (list nat * layout)) (pth : list nat) : layout :=
  match tbl with
  | [] => []
  | (k, v) :: t => if path_eqb k pth then v else table_get t pth
  end.
Definition orc_of (tbl : list (list nat * layout)) : oracle := table_get tbl.

Definition pchunks_is (tbl : list (list nat * layout)) (p : prog) (adv : layout) : bool :=
  match pchunks (orc_of tbl) p with Some cs => zlist2_eqb cs adv | None => false end.
Definition pchunks_none (tbl : list (list nat * layout)) (p : prog) : bool :=
  match pchunks (orc_of tbl) p with Some _ => false | None => true end.

(* every node of the program at once: tbl gives the chunks dask_array advertises for EVERY node (it is the
   oracle: consulted at leaves and where operands disagree); an entry (path, modelled) asks that the rule
   applied to the sub-program at that path gives exactly the advertised chunks of that node (modelled = true)
   or is None (modelled = false: the sub-program contains an operation the rule does not model) *)
Definition orc_at (orc : oracle) (pth : list nat) : oracle := fun r => orc (pth ++ r).
Definition node_ok (tbl : list (list nat * layout)) (p : prog) (e : list nat * bool) : bool :=
  let '(pth, modelled) := e in
  match subprog_at p pth with
  | None => false
  | Some q =>
      match pchunks (orc_at (orc_of tbl) pth) q with
      | Some cs => modelled && zlist2_eqb cs (table_get tbl pth)
      | None => negb modelled
      end
  end.
Definition nodes_ok (tbl : list (list nat * layout)) (p : prog) (es : list (list nat * bool)) : bool :=
  forallb (node_ok tbl p) es.

(* boolean form of orc_wf (ProgChunksFacts.orc_wf_b_sound): the oracle's value at every node of p is a layout of
   the node's advertised shape *)
Fixpoint orc_wf_b (orc : oracle) (p : prog) {struct p} : bool :=
  (match pshape p with Some s => layout_okb (orc []) s | None => true end) &&
  match p with
  | PUn _ q => orc_wf_b (sub orc 0) q
  | PN _ ps =>
      (fix go (i : nat) (l : list prog) {struct l} : bool :=
         match l with
         | [] => true
         | q :: t => orc_wf_b (sub orc i) q && go (S i) t
         end) 0%nat ps
  | _ => true
  end.
Fixpoint orc_wf_from (orc : oracle) (i : nat) (l : list prog) : bool :=
  match l with
  | [] => true
  | q :: t => orc_wf_b (sub orc i) q && orc_wf_from orc (S i) t
  end.
