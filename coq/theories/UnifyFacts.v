(* Proofs about the chunk-unification helpers modelled in Unify.v:
   common_blockdim, coarse_blockdim, moved_fraction and the spec checker
   refines_b. *)
From DA Require Import PyBase PyBaseFacts Unify.
From Coq Require Import ZifyBool.
Open Scope Z_scope.
Ltac Zify.zify_post_hook ::= Z.to_euclidean_division_equations.

Definition pos_layout (d : list Z) : Prop := Forall (fun c => 0 < c) d.
Definition nonneg_layout (d : list Z) : Prop := Forall (fun c => 0 <= c) d.
Definition zmax_list (l : list Z) : Z := fold_right Z.max 0 l.

Lemma pos_nonneg d : pos_layout d -> nonneg_layout d.
Proof. apply Forall_impl. intros a Ha. lia. Qed.

(* ---------------------------------------------------------------------- *)
(* list equality tests *)
Lemma zlist_eqb_eq a b : zlist_eqb a b = true <-> a = b.
Proof.
  unfold zlist_eqb. revert b. induction a as [|x a IH]; intros [|y b]; cbn [list_eqb]; split; intros H;
    try discriminate; try reflexivity.
  - apply andb_true_iff in H. destruct H as [H1 H2]. apply Z.eqb_eq in H1. apply IH in H2. congruence.
  - injection H as -> ->. apply andb_true_iff. split; [apply Z.eqb_refl | apply IH; reflexivity].
Qed.

Lemma zlist_eqb_refl a : zlist_eqb a a = true.
Proof. apply zlist_eqb_eq. reflexivity. Qed.

(* ---------------------------------------------------------------------- *)
(* subset_b / refines_b as propositions *)
Lemma subset_b_incl a b : subset_b a b = true <-> incl a b.
Proof.
  unfold subset_b, incl. rewrite forallb_forall. split; intros H x Hx.
  - specialize (H x Hx). apply existsb_exists in H. destruct H as [y [Hy Hxy]].
    apply Z.eqb_eq in Hxy. subst y. exact Hy.
  - apply existsb_exists. exists x. split; [apply H; exact Hx | apply Z.eqb_refl].
Qed.

Lemma refines_b_spec fine coarse :
  refines_b fine coarse = true <->
  zsum fine = zsum coarse /\ incl (inner_bounds coarse) (inner_bounds fine).
Proof.
  unfold refines_b. rewrite andb_true_iff, Z.eqb_eq, subset_b_incl. reflexivity.
Qed.

(* T3a *)
Theorem refines_b_refl d : refines_b d d = true.
Proof. apply refines_b_spec. split; [reflexivity | apply incl_refl]. Qed.

(* T3b *)
Theorem refines_b_trans a b c :
  refines_b a b = true -> refines_b b c = true -> refines_b a c = true.
Proof.
  rewrite !refines_b_spec. intros [Hab1 Hab2] [Hbc1 Hbc2].
  split; [congruence | eapply incl_tran; eassumption].
Qed.

(* ---------------------------------------------------------------------- *)
(* cumulative sums and boundaries with an explicit offset *)
Definition bounds_from (acc : Z) (l : list Z) : list Z := cumsum_from acc (removelast l).

Lemma inner_bounds_from l : inner_bounds l = bounds_from 0 l.
Proof. reflexivity. Qed.

Lemma bounds_from_nil acc : bounds_from acc [] = [].
Proof. reflexivity. Qed.

Lemma bounds_from_single acc x : bounds_from acc [x] = [].
Proof. reflexivity. Qed.

Lemma bounds_from_cons acc x l :
  l <> [] -> bounds_from acc (x :: l) = (acc + x) :: bounds_from (acc + x) l.
Proof. intros Hl. destruct l as [|y l]; [congruence|]. reflexivity. Qed.

(* splitting x off the head block y leaves the same later boundaries *)
Lemma bounds_from_split acc x y l :
  bounds_from (acc + x) ((y - x) :: l) = bounds_from acc (y :: l).
Proof.
  destruct l as [|z l]; [reflexivity|].
  rewrite !bounds_from_cons by discriminate.
  replace (acc + x + (y - x)) with (acc + y) by lia. reflexivity.
Qed.

Lemma removelast_Forall (P : Z -> Prop) l : Forall P l -> Forall P (removelast l).
Proof.
  induction 1 as [|x l Hx Hl IH]; [constructor|].
  destruct l as [|y l]; [constructor|]. cbn [removelast] in *. constructor; assumption.
Qed.

Lemma cumsum_from_ge acc l z :
  nonneg_layout l -> In z (cumsum_from acc l) -> acc <= z.
Proof.
  intros Hl. revert acc. induction Hl as [|x l Hx Hl IH]; intros acc Hz; cbn [cumsum_from In] in Hz.
  - contradiction.
  - destruct Hz as [Hz|Hz]; [lia|]. apply IH in Hz. lia.
Qed.

Lemma bounds_from_ge acc l z : nonneg_layout l -> In z (bounds_from acc l) -> acc <= z.
Proof. intros Hl. apply cumsum_from_ge. apply removelast_Forall. exact Hl. Qed.

Lemma zsum_pos l : pos_layout l -> l <> [] -> 0 < zsum l.
Proof.
  intros Hl Hne. destruct Hl as [|x l Hx Hl]; [congruence|].
  cbn [zsum]. pose proof (zsum_nonneg l (pos_nonneg l Hl)). lia.
Qed.

Lemma zsum_pos_nil l : pos_layout l -> zsum l <= 0 -> l = [].
Proof.
  intros Hl Hs. destruct l as [|x l]; [reflexivity|].
  pose proof (zsum_pos (x :: l) Hl ltac:(discriminate)). lia.
Qed.

Lemma zmax_list_nonneg l : 0 <= zmax_list l.
Proof. induction l as [|x l IH]; cbn [zmax_list fold_right]; [lia|]. fold (zmax_list l). lia. Qed.

Lemma zmax_list_cons x l : zmax_list (x :: l) = Z.max x (zmax_list l).
Proof. reflexivity. Qed.

Lemma zmax_list_le_zsum l : nonneg_layout l -> zmax_list l <= zsum l.
Proof.
  induction 1 as [|x l Hx Hl IH]; [cbn; lia|].
  rewrite zmax_list_cons. cbn [zsum]. pose proof (zsum_nonneg l Hl). lia.
Qed.

(* ---------------------------------------------------------------------- *)
(* T3c: a refinement never has a larger block.  Proved directly for layouts
   with zero-size chunks allowed, through a weaker offset invariant: every
   boundary of [coarse] strictly after the offset is a boundary of [fine]. *)
Definition weak_ref (acc : Z) (fine coarse : list Z) : Prop :=
  zsum fine = zsum coarse /\
  forall z, acc < z -> In z (bounds_from acc coarse) -> In z (bounds_from acc fine).

Lemma weak_ref_zmax (k : nat) : forall fine coarse acc,
  (length fine + length coarse <= k)%nat ->
  nonneg_layout fine -> nonneg_layout coarse -> weak_ref acc fine coarse ->
  zmax_list fine <= zmax_list coarse.
Proof.
  induction k as [|k IH]; intros fine coarse acc Hk Hf Hc [Hs Hb].
  - destruct fine; [|cbn in Hk; lia]. apply zmax_list_nonneg.
  - destruct fine as [|x f]; [apply zmax_list_nonneg|].
    destruct coarse as [|y c].
    + pose proof (zmax_list_le_zsum _ Hf) as Hle. rewrite Hs in Hle. exact Hle.
    + inversion Hf as [|x' f' Hx Hf']; subst x' f'.
      inversion Hc as [|y' c' Hy Hc']; subst y' c'.
      cbn [length] in Hk. cbn [zsum] in Hs.
      pose proof (zsum_nonneg f Hf') as Hsf. pose proof (zsum_nonneg c Hc') as Hsc.
      destruct (Z.eq_dec x 0) as [Hx0|Hx0].
      { (* drop a leading empty block of fine *)
        subst x. rewrite zmax_list_cons.
        pose proof (zmax_list_nonneg f) as Hmf.
        enough (zmax_list f <= zmax_list (y :: c)) by lia.
        apply (IH f (y :: c) acc); [cbn [length]; lia | exact Hf' | exact Hc |].
        split; [cbn [zsum]; lia|].
        intros z Hz Hin. specialize (Hb z Hz Hin).
        destruct f as [|x1 f1]; [cbn in Hb; contradiction|].
        rewrite bounds_from_cons in Hb by discriminate.
        destruct Hb as [Hb|Hb]; [lia|]. replace (acc + 0) with acc in Hb by lia. exact Hb. }
      destruct (Z.eq_dec y 0) as [Hy0|Hy0].
      { (* drop a leading empty block of coarse *)
        subst y. destruct c as [|y1 c1]; [cbn [zsum] in Hs; lia|].
        rewrite (zmax_list_cons 0).
        pose proof (zmax_list_nonneg (y1 :: c1)) as Hmc.
        enough (zmax_list (x :: f) <= zmax_list (y1 :: c1)) by lia.
        apply (IH (x :: f) (y1 :: c1) acc); [cbn [length] in *; lia | exact Hf | exact Hc' |].
        split; [cbn [zsum] in *; lia|].
        intros z Hz Hin. apply Hb; [exact Hz|].
        rewrite bounds_from_cons by discriminate. right.
        replace (acc + 0) with acc by lia. exact Hin. }
      destruct (Z.lt_trichotomy x y) as [Hlt|[Heq|Hgt]].
      * (* x < y : split the head block of coarse *)
        assert (zmax_list f <= zmax_list ((y - x) :: c)) as Hrec.
        { apply (IH f ((y - x) :: c) (acc + x)); [cbn [length]; lia | exact Hf' | constructor; [lia|exact Hc'] |].
          split; [cbn [zsum]; lia|].
          intros z Hz Hin. rewrite bounds_from_split in Hin.
          assert (acc < z) as Hz' by lia. specialize (Hb z Hz' Hin).
          destruct f as [|x1 f1]; [cbn in Hb; contradiction|].
          rewrite bounds_from_cons in Hb by discriminate.
          destruct Hb as [Hb|Hb]; [lia|exact Hb]. }
        rewrite !zmax_list_cons in *. lia.
      * (* equal head blocks *)
        subst y.
        assert (zmax_list f <= zmax_list c) as Hrec.
        { apply (IH f c (acc + x)); [lia | exact Hf' | exact Hc' |].
          split; [lia|].
          intros z Hz Hin.
          destruct c as [|y1 c1]; [cbn in Hin; contradiction|].
          assert (acc < z) as Hz' by lia.
          specialize (Hb z Hz').
          rewrite (bounds_from_cons acc x (y1 :: c1)) in Hb by discriminate.
          specialize (Hb (or_intror Hin)).
          destruct f as [|x1 f1]; [cbn in Hb; contradiction|].
          rewrite bounds_from_cons in Hb by discriminate.
          destruct Hb as [Hb|Hb]; [lia|exact Hb]. }
        rewrite !zmax_list_cons. lia.
      * (* x > y : impossible, acc + y would be a boundary inside fine's head *)
        exfalso.
        destruct c as [|y1 c1]; [cbn [zsum] in Hs; lia|].
        assert (In (acc + y) (bounds_from acc (x :: f))) as Hin.
        { apply Hb; [lia|]. rewrite bounds_from_cons by discriminate. left. reflexivity. }
        destruct f as [|x1 f1]; [cbn in Hin; contradiction|].
        rewrite bounds_from_cons in Hin by discriminate.
        destruct Hin as [Hin|Hin]; [lia|].
        apply bounds_from_ge in Hin; [lia|exact Hf'].
Qed.

Theorem refines_b_zmax fine coarse :
  nonneg_layout fine -> nonneg_layout coarse ->
  refines_b fine coarse = true -> zmax_list fine <= zmax_list coarse.
Proof.
  intros Hf Hc H. apply refines_b_spec in H. destruct H as [Hs Hb].
  apply (weak_ref_zmax (length fine + length coarse) fine coarse 0 (le_n _) Hf Hc).
  split; [exact Hs|]. intros z _ Hin. apply Hb. exact Hin.
Qed.

Corollary refines_b_zmax_pos fine coarse :
  pos_layout fine -> pos_layout coarse ->
  refines_b fine coarse = true -> zmax_list fine <= zmax_list coarse.
Proof. intros Hf Hc. apply refines_b_zmax; apply pos_nonneg; assumption. Qed.

(* ---------------------------------------------------------------------- *)
(* Structural refinement: [coarse] is obtained from [fine] by merging runs of
   consecutive blocks.  Read left to right: either both layouts start with the
   same block, or fine's first block x is a strict initial part of coarse's
   first block y, and the rest of fine refines (y - x) :: rest of coarse. *)
Inductive splits : list Z -> list Z -> Prop :=
| splits_nil : splits [] []
| splits_eq x f c : splits f c -> splits (x :: f) (x :: c)
| splits_lt x y f c : x < y -> splits f ((y - x) :: c) -> splits (x :: f) (y :: c).

Lemma splits_zsum fine coarse : splits fine coarse -> zsum fine = zsum coarse.
Proof. induction 1 as [|x f c H IH|x y f c Hxy H IH]; cbn [zsum] in *; lia. Qed.

Lemma splits_nonempty fine coarse : splits fine coarse -> coarse <> [] -> fine <> [].
Proof. intros H. destruct H; intros Hc; congruence. Qed.

Lemma splits_bounds fine coarse :
  splits fine coarse -> forall acc, incl (bounds_from acc coarse) (bounds_from acc fine).
Proof.
  induction 1 as [|x f c H IH|x y f c Hxy H IH]; intros acc.
  - apply incl_refl.
  - destruct c as [|y1 c1]; [intros z Hz; cbn in Hz; contradiction|].
    pose proof (splits_nonempty _ _ H ltac:(discriminate)) as Hf.
    rewrite (bounds_from_cons acc x f) by exact Hf.
    rewrite (bounds_from_cons acc x (y1 :: c1)) by discriminate.
    intros z Hz. cbn [In] in Hz |- *. destruct Hz as [Hz|Hz]; [left; exact Hz | right; apply IH; exact Hz].
  - pose proof (splits_nonempty _ _ H ltac:(discriminate)) as Hf.
    rewrite (bounds_from_cons acc x f) by exact Hf.
    rewrite <- (bounds_from_split acc x y c).
    intros z Hz. right. apply IH. exact Hz.
Qed.

Lemma splits_refines_b fine coarse : splits fine coarse -> refines_b fine coarse = true.
Proof.
  intros H. apply refines_b_spec. split; [apply splits_zsum; exact H|].
  rewrite !inner_bounds_from. apply splits_bounds. exact H.
Qed.

Lemma splits_refl d : splits d d.
Proof. induction d as [|x d IH]; constructor; exact IH. Qed.

(* conversely, for strictly positive layouts refines_b is exactly [splits] *)
Definition ref_from (acc : Z) (fine coarse : list Z) : Prop :=
  zsum fine = zsum coarse /\ incl (bounds_from acc coarse) (bounds_from acc fine).

Lemma cumsum_from_gt acc l z : pos_layout l -> In z (cumsum_from acc l) -> acc < z.
Proof.
  intros Hl. revert acc. induction Hl as [|x l Hx Hl IH]; intros acc Hz; cbn [cumsum_from In] in Hz.
  - contradiction.
  - destruct Hz as [Hz|Hz]; [lia|]. apply IH in Hz. lia.
Qed.

Lemma bounds_from_gt acc l z : pos_layout l -> In z (bounds_from acc l) -> acc < z.
Proof. intros Hl. apply cumsum_from_gt. apply removelast_Forall. exact Hl. Qed.

Lemma ref_from_splits fine : forall coarse acc,
  pos_layout fine -> pos_layout coarse -> ref_from acc fine coarse -> splits fine coarse.
Proof.
  induction fine as [|x f IH]; intros coarse acc Hf Hc [Hs Hb].
  - cbn [zsum] in Hs. rewrite (zsum_pos_nil coarse Hc ltac:(lia)). constructor.
  - inversion Hf as [|x' f' Hx Hf']; subst x' f'.
    pose proof (zsum_nonneg f (pos_nonneg f Hf')) as Hsf.
    destruct coarse as [|y c]; [cbn [zsum] in Hs; lia|].
    inversion Hc as [|y' c' Hy Hc']; subst y' c'.
    pose proof (zsum_nonneg c (pos_nonneg c Hc')) as Hsc.
    cbn [zsum] in Hs.
    destruct (Z.lt_trichotomy x y) as [Hlt|[Heq|Hgt]].
    + apply splits_lt; [exact Hlt|].
      apply (IH ((y - x) :: c) (acc + x)); [exact Hf' | constructor; [lia|exact Hc'] |].
      split; [cbn [zsum]; lia|].
      rewrite bounds_from_split. intros z Hz.
      pose proof (bounds_from_gt acc (y :: c) z Hc Hz) as Hgt.
      assert (acc + y <= z) as Hge.
      { destruct c as [|y1 c1]; [cbn in Hz; contradiction|].
        rewrite bounds_from_cons in Hz by discriminate. destruct Hz as [Hz|Hz]; [lia|].
        apply bounds_from_gt in Hz; [lia|exact Hc']. }
      apply Hb in Hz.
      destruct f as [|x1 f1]; [cbn in Hz; contradiction|].
      rewrite bounds_from_cons in Hz by discriminate. destruct Hz as [Hz|Hz]; [lia|exact Hz].
    + subst y. apply splits_eq.
      apply (IH c (acc + x)); [exact Hf' | exact Hc' |].
      split; [lia|]. intros z Hz.
      pose proof (bounds_from_gt (acc + x) c z Hc' Hz) as Hgt.
      destruct c as [|y1 c1]; [cbn in Hz; contradiction|].
      assert (In z (bounds_from acc (x :: y1 :: c1))) as Hz'.
      { rewrite bounds_from_cons by discriminate. right. exact Hz. }
      apply Hb in Hz'.
      destruct f as [|x1 f1]; [cbn in Hz'; contradiction|].
      rewrite bounds_from_cons in Hz' by discriminate. destruct Hz' as [Hz'|Hz']; [lia|exact Hz'].
    + exfalso.
      destruct c as [|y1 c1]; [cbn [zsum] in Hs; lia|].
      assert (In (acc + y) (bounds_from acc (x :: f))) as Hin.
      { apply Hb. rewrite bounds_from_cons by discriminate. left. reflexivity. }
      destruct f as [|x1 f1]; [cbn in Hin; contradiction|].
      rewrite bounds_from_cons in Hin by discriminate.
      destruct Hin as [Hin|Hin]; [lia|].
      apply bounds_from_gt in Hin; [lia|exact Hf'].
Qed.

Theorem refines_b_splits fine coarse :
  pos_layout fine -> pos_layout coarse ->
  (refines_b fine coarse = true <-> splits fine coarse).
Proof.
  intros Hf Hc. split; [|apply splits_refines_b].
  intros H. apply refines_b_spec in H. destruct H as [Hs Hb].
  apply (ref_from_splits fine coarse 0 Hf Hc). split; assumption.
Qed.

(* the structural version also gives the block-size bound *)
Lemma splits_zmax fine coarse :
  nonneg_layout fine -> splits fine coarse -> zmax_list fine <= zmax_list coarse.
Proof.
  intros Hf H. induction H as [|x f c H IH|x y f c Hxy H IH].
  - lia.
  - inversion Hf; subst. rewrite !zmax_list_cons. specialize (IH ltac:(assumption)). lia.
  - inversion Hf; subst. rewrite !zmax_list_cons in *. specialize (IH ltac:(assumption)). lia.
Qed.

(* ---------------------------------------------------------------------- *)
(* the walk-down loop *)
Lemma fold_min_le h t : fold_right Z.min h t <= h /\ forall x, In x t -> fold_right Z.min h t <= x.
Proof.
  induction t as [|y t [IH1 IH2]]; cbn [fold_right].
  - split; [lia|]. intros x [].
  - split; [lia|]. intros x [Hx|Hx]; [lia|]. specialize (IH2 x Hx). lia.
Qed.

Lemma fold_min_in h t : In (fold_right Z.min h t) (h :: t).
Proof.
  induction t as [|y t IH]; cbn [fold_right].
  - left. reflexivity.
  - destruct (Z.min_spec y (fold_right Z.min h t)) as [[_ ->]|[_ ->]].
    + right. left. reflexivity.
    + destruct IH as [IH|IH]; [left; exact IH | right; right; exact IH].
Qed.

Lemma heads_min_le rs r : In r rs -> heads_min rs <= hd 0 r.
Proof.
  intros Hr. unfold heads_min. apply (in_map (fun r => hd 0 r)) in Hr.
  destruct (map (fun r => hd 0 r) rs) as [|h t]; [contradiction|].
  pose proof (fold_min_le h t) as [H1 H2].
  destruct Hr as [Hr|Hr]; [lia | apply H2; exact Hr].
Qed.

Lemma heads_min_in rs : rs <> [] -> exists r, In r rs /\ heads_min rs = hd 0 r.
Proof.
  intros Hne. unfold heads_min.
  destruct (map (fun r => hd 0 r) rs) as [|h t] eqn:E.
  - destruct rs; [congruence|discriminate].
  - pose proof (fold_min_in h t) as Hin. rewrite <- E in Hin.
    apply in_map_iff in Hin. destruct Hin as [r [Hr1 Hr2]]. exists r. split; [exact Hr2|].
    symmetry. exact Hr1.
Qed.

Lemma no_empty_spec (rs : list (list Z)) :
  existsb (fun r => match r with [] => true | _ => false end) rs = false ->
  forall r, In r rs -> r <> [].
Proof.
  intros H r Hr Hnil. subst r.
  assert (existsb (fun r : list Z => match r with [] => true | _ => false end) rs = true) as Ht.
  { apply existsb_exists. exists []. split; [exact Hr|reflexivity]. }
  congruence.
Qed.

Lemma walk_down_inv fuel rs i total out :
  walk_down fuel rs i total = Some out ->
  (total <= i /\ out = []) \/
  (i < total /\ exists f out', fuel = S f /\ (forall r, In r rs -> r <> []) /\
     out = heads_min rs :: out' /\
     walk_down f (map (sub_head (heads_min rs)) rs) (i + heads_min rs) total = Some out').
Proof.
  intros H. destruct fuel as [|f]; cbn [walk_down] in H.
  - destruct (i >=? total) eqn:E; [|discriminate]. left. split; [lia|congruence].
  - destruct (i >=? total) eqn:E; [left; split; [lia|congruence]|].
    right. split; [lia|].
    destruct (existsb _ rs) eqn:Ee; [discriminate|].
    destruct (walk_down f _ _ total) as [out'|] eqn:Ew; [|discriminate].
    cbn [option_map] in H. exists f, out'.
    split; [reflexivity|]. split; [apply no_empty_spec; exact Ee|].
    split; [congruence|exact Ew].
Qed.

Lemma sub_head_inv m r :
  pos_layout r -> r <> [] -> m <= hd 0 r ->
  pos_layout (sub_head m r) /\ zsum (sub_head m r) = zsum r - m.
Proof.
  intros Hr Hne Hm. destruct r as [|c t]; [congruence|].
  inversion Hr as [|c' t' Hc Ht]; subst c' t'. cbn [hd] in Hm. cbn [sub_head zsum].
  destruct (c - m =? 0) eqn:E.
  - split; [exact Ht|lia].
  - split; [constructor; [lia|exact Ht] | cbn [zsum]; lia].
Qed.

Lemma sub_head_splits m out r :
  r <> [] -> m <= hd 0 r -> splits out (sub_head m r) -> splits (m :: out) r.
Proof.
  intros Hne Hm H. destruct r as [|c t]; [congruence|]. cbn [hd] in Hm. cbn [sub_head] in H.
  destruct (c - m =? 0) eqn:E.
  - replace c with m by lia. apply splits_eq. exact H.
  - apply splits_lt; [lia|exact H].
Qed.

(* state invariant of the loop: strictly positive remaining chunks that all
   sum to the remaining length *)
Definition walk_inv (rs : list (list Z)) (i total : Z) : Prop :=
  Forall pos_layout rs /\ forall r, In r rs -> zsum r = total - i.

Lemma walk_inv_step rs i total :
  walk_inv rs i total -> (forall r, In r rs -> r <> []) ->
  walk_inv (map (sub_head (heads_min rs)) rs) (i + heads_min rs) total.
Proof.
  intros [Hp Hs] Hne. rewrite Forall_forall in Hp. split.
  - apply Forall_forall. intros r' Hr'. apply in_map_iff in Hr'. destruct Hr' as [r [<- Hr]].
    apply (sub_head_inv _ r (Hp r Hr) (Hne r Hr) (heads_min_le rs r Hr)).
  - intros r' Hr'. apply in_map_iff in Hr'. destruct Hr' as [r [<- Hr]].
    destruct (sub_head_inv _ r (Hp r Hr) (Hne r Hr) (heads_min_le rs r Hr)) as [_ ->].
    rewrite (Hs r Hr). lia.
Qed.

Lemma walk_down_splits fuel : forall rs i total out,
  walk_inv rs i total -> walk_down fuel rs i total = Some out ->
  forall r, In r rs -> splits out r.
Proof.
  induction fuel as [|f IH]; intros rs i total out Hinv Hw r Hr;
    apply walk_down_inv in Hw;
    destruct Hw as [[Hi ->]|[Hi [f' [out' [Hf [Hne [-> Hw]]]]]]]; try discriminate.
  - destruct Hinv as [Hp Hs]. rewrite Forall_forall in Hp.
    rewrite (zsum_pos_nil r (Hp r Hr)) by (rewrite (Hs r Hr); lia). constructor.
  - destruct Hinv as [Hp Hs]. rewrite Forall_forall in Hp.
    rewrite (zsum_pos_nil r (Hp r Hr)) by (rewrite (Hs r Hr); lia). constructor.
  - injection Hf as <-.
    apply sub_head_splits; [apply Hne; exact Hr | apply heads_min_le; exact Hr |].
    apply (IH _ _ _ _ (walk_inv_step rs i total Hinv Hne) Hw).
    apply in_map. exact Hr.
Qed.

(* ---------------------------------------------------------------------- *)
(* dedup / filter / max-by-head *)
Lemma existsb_zlist_eqb x t : existsb (zlist_eqb x) t = true <-> In x t.
Proof.
  rewrite existsb_exists. split.
  - intros [y [Hy Hxy]]. apply zlist_eqb_eq in Hxy. subst y. exact Hy.
  - intros Hx. exists x. split; [exact Hx|apply zlist_eqb_refl].
Qed.

Lemma dedup_In d l : In d (dedup l) <-> In d l.
Proof.
  induction l as [|x t IH]; cbn [dedup]; [reflexivity|].
  destruct (existsb (zlist_eqb x) t) eqn:E; cbn [In]; rewrite IH.
  - apply existsb_zlist_eqb in E. split; [intros H; right; exact H|].
    intros [H|H]; [subst d; exact E|exact H].
  - reflexivity.
Qed.

Lemma nontrivial_spec d : nontrivial d = true <-> (1 < length d)%nat.
Proof. unfold nontrivial. apply Nat.ltb_lt. Qed.

Lemma nt_In d ds :
  In d (filter nontrivial (dedup ds)) <-> In d ds /\ (1 < length d)%nat.
Proof. rewrite filter_In, dedup_In, nontrivial_spec. reflexivity. Qed.

Lemma fold_best_In (f : list Z -> list Z -> bool) t : forall d,
  In (fold_left (fun best x => if f best x then x else best) t d) (d :: t).
Proof.
  induction t as [|y t IH]; intros d; cbn [fold_left].
  - left. reflexivity.
  - specialize (IH (if f d y then y else d)). destruct (f d y).
    + right. exact IH.
    + destruct IH as [IH|IH]; [left; exact IH | right; right; exact IH].
Qed.

Lemma first_by_max_head_In ds : ds <> [] -> In (first_by_max_head ds) ds.
Proof.
  destruct ds as [|d t]; [congruence|]. intros _. unfold first_by_max_head.
  apply (fold_best_In (fun best x => hd 0 best <? hd 0 x)).
Qed.

Lemma any_nonempty_false (ds : list (list Z)) :
  existsb (fun d => match d with [] => false | _ => true end) ds = false ->
  forall d, In d ds -> d = [].
Proof.
  intros H d Hd. destruct d as [|x d']; [reflexivity|].
  assert (existsb (fun d : list Z => match d with [] => false | _ => true end) ds = true) as Ht.
  { apply existsb_exists. exists (x :: d'). split; [exact Hd|reflexivity]. }
  congruence.
Qed.

(* the four ways common_blockdim can succeed *)
Lemma common_blockdim_cases ds r :
  common_blockdim ds = UOk r ->
  (r = [] /\ forall d, In d ds -> d = []) \/
  (filter nontrivial (dedup ds) = [] /\ In r ds) \/
  (filter nontrivial (dedup ds) = [r]) \/
  (exists d0 d1 l, filter nontrivial (dedup ds) = d0 :: d1 :: l /\
     (forall x, In x (d0 :: d1 :: l) -> zsum x = zsum d0) /\
     walk_down (length (concat (d0 :: d1 :: l)) + 1) (d0 :: d1 :: l) 0 (zsum d0) = Some r).
Proof.
  unfold common_blockdim.
  destruct (existsb (fun d => match d with [] => false | _ => true end) (dedup ds)) eqn:Eany;
    cbn [negb].
  2:{ intros H. left. split; [congruence|].
      intros d Hd. apply (any_nonempty_false _ Eany). apply dedup_In. exact Hd. }
  destruct (filter nontrivial (dedup ds)) as [|d0 [|d1 l]] eqn:Ent.
  - intros H. right. left. split; [reflexivity|]. injection H as <-.
    apply dedup_In. apply first_by_max_head_In.
    intros Hnil. rewrite Hnil in Eany. discriminate.
  - intros H. right. right. left. congruence.
  - destruct (forallb (fun x => zsum x =? zsum d0) (d0 :: d1 :: l)) eqn:Eall; cbn [negb];
      [|discriminate].
    destruct (walk_down _ (d0 :: d1 :: l) 0 (zsum d0)) as [out|] eqn:Ew; [|discriminate].
    intros H. right. right. right. exists d0, d1, l. split; [reflexivity|].
    split; [|congruence].
    intros x Hx. rewrite forallb_forall in Eall. specialize (Eall x Hx). lia.
Qed.

Lemma refines_b_trivial r d :
  (length d <= 1)%nat -> zsum r = zsum d -> refines_b r d = true.
Proof.
  intros Hl Hs. apply refines_b_spec. split; [exact Hs|].
  destruct d as [|x [|y d']]; [intros z [] | intros z [] | cbn [length] in Hl; lia].
Qed.

Lemma walk_inv_init ds n nt :
  Forall pos_layout ds -> (forall d, In d ds -> zsum d = n) ->
  (forall d, In d nt -> In d ds) -> walk_inv nt 0 n.
Proof.
  intros Hp Hs Hsub. rewrite Forall_forall in Hp. split.
  - apply Forall_forall. intros d Hd. apply Hp, Hsub, Hd.
  - intros d Hd. rewrite (Hs d (Hsub d Hd)). lia.
Qed.

Lemma common_blockdim_zsum ds n r :
  Forall pos_layout ds -> (forall d, In d ds -> zsum d = n) ->
  common_blockdim ds = UOk r -> ds <> [] -> zsum r = n.
Proof.
  intros Hp Hs H Hne.
  destruct (common_blockdim_cases ds r H) as [[-> Hnil]|[[_ Hr]|[Hr|[d0 [d1 [l [Ent [Hall Hw]]]]]]]].
  - destruct ds as [|d t]; [congruence|]. rewrite <- (Hs d (or_introl eq_refl)).
    rewrite (Hnil d (or_introl eq_refl)). reflexivity.
  - apply Hs. exact Hr.
  - apply Hs. apply (nt_In r ds). rewrite Hr. left. reflexivity.
  - assert (forall d, In d (d0 :: d1 :: l) -> In d ds) as Hsub.
    { intros d Hd. rewrite <- Ent in Hd. apply nt_In in Hd. apply Hd. }
    assert (zsum d0 = n) as Hn by (apply Hs, Hsub; left; reflexivity).
    rewrite Hn in Hw.
    pose proof (walk_down_splits _ _ _ _ _ (walk_inv_init ds n _ Hp Hs Hsub) Hw d0 (or_introl eq_refl)) as Hsp.
    apply splits_zsum in Hsp. lia.
Qed.

(* T1: the common block layout only SPLITS every operand layout *)
Theorem common_blockdim_refines ds n r :
  Forall pos_layout ds -> (forall d, In d ds -> zsum d = n) ->
  common_blockdim ds = UOk r ->
  forall d, In d ds -> refines_b r d = true.
Proof.
  intros Hp Hs H d Hd.
  assert (zsum r = zsum d) as Hsum.
  { rewrite (Hs d Hd). apply (common_blockdim_zsum ds n r Hp Hs H).
    intros Hnil. rewrite Hnil in Hd. contradiction. }
  destruct (le_lt_dec (length d) 1) as [Htriv|Hnt]; [apply refines_b_trivial; assumption|].
  assert (In d (filter nontrivial (dedup ds))) as Hdnt by (apply nt_In; split; assumption).
  destruct (common_blockdim_cases ds r H) as [[-> Hnil]|[[Ent _]|[Ent|[d0 [d1 [l [Ent [Hall Hw]]]]]]]].
  - rewrite (Hnil d Hd) in Hnt. cbn [length] in Hnt. lia.
  - rewrite Ent in Hdnt. contradiction.
  - rewrite Ent in Hdnt. destruct Hdnt as [<-|[]]. apply refines_b_refl.
  - assert (forall d, In d (d0 :: d1 :: l) -> In d ds) as Hsub.
    { intros x Hx. rewrite <- Ent in Hx. apply nt_In in Hx. apply Hx. }
    assert (zsum d0 = n) as Hn by (apply Hs, Hsub; left; reflexivity).
    rewrite Hn in Hw. rewrite Ent in Hdnt.
    apply splits_refines_b.
    apply (walk_down_splits _ _ _ _ _ (walk_inv_init ds n _ Hp Hs Hsub) Hw d Hdnt).
Qed.

(* ---------------------------------------------------------------------- *)
(* moved_fraction *)
Lemma mf_inner_best fuel : forall src ss ds de best src' ss' best',
  mf_inner fuel src ss ds de best = (src', ss', best') ->
  0 <= best <= de - ds -> 0 <= best' <= de - ds.
Proof.
  induction fuel as [|f IH]; intros src ss ds de best src' ss' best' H Hb.
  - cbn [mf_inner] in H. injection H as _ _ <-. exact Hb.
  - destruct src as [|c t]; cbn [mf_inner] in H; [injection H as _ _ <-; exact Hb|].
    set (ov := Z.min (ss + c) de - Z.max ss ds) in H.
    assert (0 <= (if ov >? best then ov else best) <= de - ds) as Hb'.
    { destruct (ov >? best) eqn:E; [|exact Hb]. unfold ov in *. lia. }
    destruct t as [|c1 t1]; [injection H as _ _ <-; exact Hb'|].
    destruct (ss + c <=? de); [|injection H as _ _ <-; exact Hb'].
    apply (IH _ _ _ _ _ _ _ _ H Hb').
Qed.

Lemma mf_outer_range dst : forall src ss ds moved,
  nonneg_layout dst ->
  moved <= mf_outer src ss ds dst moved <= moved + zsum dst.
Proof.
  induction dst as [|target dst' IH]; intros src ss ds moved Hd; cbn [mf_outer zsum]; [lia|].
  inversion Hd as [|t' d' Ht Hd']; subst t' d'.
  destruct (mf_inner (S (length src)) src ss ds (ds + target) 0) as [[src' ss'] best] eqn:E.
  pose proof (mf_inner_best _ _ _ _ _ _ _ _ _ E ltac:(lia)) as Hb.
  specialize (IH src' ss' (ds + target) (moved + (target - best)) Hd'). lia.
Qed.

(* T4a: the fraction lies in [0, 1] *)
Theorem moved_fraction_range src dst n m :
  nonneg_layout dst -> moved_fraction src dst = (n, m) ->
  0 <= n /\ n <= m /\ (0 < m \/ (n = 0 /\ m = 1)).
Proof.
  intros Hd. unfold moved_fraction.
  destruct ((zsum src =? 0) || zlist_eqb src dst) eqn:E1; [intros H; injection H as <- <-; lia|].
  destruct (negb (zsum dst =? zsum src)) eqn:E2; [intros H; injection H as <- <-; lia|].
  intros H. injection H as <- <-.
  pose proof (mf_outer_range dst src 0 0 0 Hd) as Hr.
  apply orb_false_iff in E1. destruct E1 as [E1 _]. lia.
Qed.

(* T4b *)
Theorem moved_fraction_same s : moved_fraction s s = (0, 1).
Proof. unfold moved_fraction. rewrite zlist_eqb_refl, orb_true_r. reflexivity. Qed.

(* ---------------------------------------------------------------------- *)
(* T2: coarse_blockdim, for every tie-break oracle [pick].  No hypothesis on
   the layouts is needed (the model itself checks the sums). *)
Theorem coarse_blockdim_spec_gen pick ds r :
  coarse_blockdim pick ds = UOk r ->
  common_blockdim ds = UOk r \/
  (In r ds /\ (1 < length r)%nat /\
   forall d, In d ds -> (1 < length d)%nat -> refines_b d r = true).
Proof.
  unfold coarse_blockdim.
  destruct (existsb (fun d => match d with [] => false | _ => true end) (dedup ds)) eqn:Eany;
    cbn [negb].
  2:{ intros H. left. unfold common_blockdim. rewrite Eany. exact H. }
  destruct (filter nontrivial (dedup ds)) as [|d0 [|d1 l]] eqn:Ent.
  - intros H. left. unfold common_blockdim. rewrite Eany, Ent. exact H.
  - intros H. left. unfold common_blockdim. rewrite Eany, Ent. exact H.
  - destruct (forallb (fun x => zsum x =? zsum d0) (d0 :: d1 :: l)) eqn:Eall; cbn [negb];
      [|discriminate].
    set (cands := filter (fun x => Nat.eqb (length x) (min_len (d0 :: d1 :: l))) (d0 :: d1 :: l)).
    set (coarsest := nth pick cands d0).
    destruct (forallb (fun x => subset_b (inner_bounds coarsest) (inner_bounds x)) (d0 :: d1 :: l))
      eqn:Esub; [|intros H; left; exact H].
    intros H. injection H as <-. right.
    assert (In coarsest (d0 :: d1 :: l)) as Hin.
    { unfold coarsest. destruct (nth_in_or_default pick cands d0) as [Hc|Hc].
      - unfold cands in Hc. apply filter_In in Hc. apply Hc.
      - rewrite Hc. left. reflexivity. }
    rewrite forallb_forall in Eall, Esub.
    assert (forall x, In x (d0 :: d1 :: l) -> In x ds /\ (1 < length x)%nat) as Hnt.
    { intros x Hx. rewrite <- Ent in Hx. apply nt_In in Hx. exact Hx. }
    split; [apply Hnt; exact Hin|]. split; [apply Hnt; exact Hin|].
    intros d Hd Hlen.
    assert (In d (d0 :: d1 :: l)) as Hd' by (rewrite <- Ent; apply nt_In; split; assumption).
    unfold refines_b. rewrite (Esub d Hd'), andb_true_r.
    pose proof (Eall d Hd'). pose proof (Eall coarsest Hin). lia.
Qed.

Corollary coarse_blockdim_spec pick ds n r :
  Forall pos_layout ds -> (forall d, In d ds -> zsum d = n) ->
  coarse_blockdim pick ds = UOk r ->
  common_blockdim ds = UOk r \/
  (In r ds /\ forall d, In d ds -> (1 < length d)%nat -> refines_b d r = true).
Proof.
  intros _ _ H. destruct (coarse_blockdim_spec_gen pick ds r H) as [Hc|[Hr [_ Hall]]];
    [left; exact Hc | right; split; assumption].
Qed.

(* ---------------------------------------------------------------------- *)
(* T4c: pure splits move nothing *)
Lemma mf_inner_stay f c t ss ds target :
  ss <= ds -> 0 < target -> ds + target < ss + c ->
  mf_inner (S f) (c :: t) ss ds (ds + target) 0 = (c :: t, ss, target).
Proof.
  intros H1 H2 H3. cbn [mf_inner].
  replace (Z.min (ss + c) (ds + target) - Z.max ss ds) with target by lia.
  destruct (target >? 0) eqn:E; [|lia].
  destruct t as [|c1 t1]; [reflexivity|].
  destruct (ss + c <=? ds + target) eqn:E2; [lia|reflexivity].
Qed.

Lemma mf_inner_last f c ss ds target :
  ss <= ds -> 0 < target -> ds + target = ss + c ->
  mf_inner (S f) [c] ss ds (ds + target) 0 = ([c], ss, target).
Proof.
  intros H1 H2 H3. cbn [mf_inner].
  replace (Z.min (ss + c) (ds + target) - Z.max ss ds) with target by lia.
  destruct (target >? 0) eqn:E; [reflexivity|lia].
Qed.

Lemma mf_inner_advance f c c1 t1 ss ds target :
  ss <= ds -> 0 < target -> 0 < c1 -> ds + target = ss + c ->
  mf_inner (S (S f)) (c :: c1 :: t1) ss ds (ds + target) 0 = (c1 :: t1, ss + c, target).
Proof.
  intros H1 H2 H3 H4. cbn [mf_inner].
  replace (Z.min (ss + c) (ds + target) - Z.max ss ds) with target by lia.
  destruct (target >? 0) eqn:E; [|lia].
  destruct (ss + c <=? ds + target) eqn:E2; [|lia].
  replace (Z.min (ss + c + c1) (ds + target) - Z.max (ss + c) ds) with 0 by lia.
  destruct (0 >? target) eqn:E3; [lia|].
  destruct t1 as [|c2 t2]; [reflexivity|].
  destruct (ss + c + c1 <=? ds + target) eqn:E4; [lia|reflexivity].
Qed.

(* loop invariant: the current source block [ss, ss + c) contains the current
   destination offset ds, and the remaining destination blocks split the
   remaining part of the source *)
Lemma mf_outer_splits dst : forall c t ss ds moved,
  pos_layout (c :: t) -> pos_layout dst -> ss <= ds ->
  splits dst ((ss + c - ds) :: t) ->
  mf_outer (c :: t) ss ds dst moved = moved.
Proof.
  induction dst as [|target dst' IH]; intros c t ss ds moved Hsrc Hdst Hle Hsp; [reflexivity|].
  inversion Hdst as [|x' d' Htarget Hdst']; subst x' d'.
  inversion Hsrc as [|x' d' Hc Ht]; subst x' d'.
  cbn [mf_outer].
  inversion Hsp as [|x f c' Hrest|x y f c' Hlt Hrest]; subst.
  - (* target ends exactly at the end of the current source block *)
    destruct t as [|c1 t1].
    + inversion Hrest; subst. cbn [length].
      rewrite mf_inner_last by lia. cbn [mf_outer]. lia.
    + inversion Ht as [|x' d' Hc1 Ht1]; subst x' d'. cbn [length].
      rewrite mf_inner_advance by lia.
      rewrite (IH c1 t1 (ss + c) (ds + (ss + c - ds)) _ Ht Hdst' ltac:(lia)); [lia|].
      replace (ss + c + c1 - (ds + (ss + c - ds))) with c1 by lia. exact Hrest.
  - (* target ends strictly inside the current source block *)
    rewrite mf_inner_stay by lia.
    rewrite (IH c t ss (ds + target) _ Hsrc Hdst' ltac:(lia)); [lia|].
    replace (ss + c - (ds + target)) with (ss + c - ds - target) by lia. exact Hrest.
Qed.

Theorem moved_fraction_split_free src dst :
  pos_layout src -> pos_layout dst -> refines_b dst src = true ->
  fst (moved_fraction src dst) = 0.
Proof.
  intros Hsrc Hdst H. apply (refines_b_splits dst src Hdst Hsrc) in H.
  unfold moved_fraction.
  destruct ((zsum src =? 0) || zlist_eqb src dst) eqn:E1; [reflexivity|].
  destruct (negb (zsum dst =? zsum src)) eqn:E2; [reflexivity|].
  cbn [fst]. destruct src as [|c t].
  - inversion H; subst. reflexivity.
  - apply mf_outer_splits; [exact Hsrc | exact Hdst | lia |].
    replace (0 + c - 0) with c by lia. exact H.
Qed.

(* T4c also holds with zero-size chunks allowed.  The scan pointer may then
   have to skip empty source blocks, so the invariant is the weak one of T3c:
   every source boundary strictly after the destination offset is a
   destination boundary. *)
Lemma mf_inner_stay0 f c t ss ds :
  ss <= ds -> ds < ss + c ->
  mf_inner (S f) (c :: t) ss ds (ds + 0) 0 = (c :: t, ss, 0).
Proof.
  intros H1 H2. cbn [mf_inner].
  replace (Z.min (ss + c) (ds + 0) - Z.max ss ds) with 0 by lia.
  destruct (0 >? 0) eqn:E; [lia|].
  destruct t as [|c1 t1]; [reflexivity|].
  destruct (ss + c <=? ds + 0) eqn:E2; [lia|reflexivity].
Qed.

(* skipping empty source blocks once the destination block is exhausted *)
Lemma mf_inner_skip f : forall src ss ds best,
  (length src <= f)%nat -> src <> [] -> nonneg_layout src -> ds <= ss -> 0 <= best ->
  exists src',
    mf_inner f src ss ds ss best = (src', ss, best) /\
    src' <> [] /\ nonneg_layout src' /\ zsum src' = zsum src /\
    (0 < hd 0 src' \/ zsum src' = 0) /\
    (forall z, In z (bounds_from ss src') -> In z (bounds_from ss src)).
Proof.
  induction f as [|f IH]; intros src ss ds best Hlen Hne Hnn Hds Hbest.
  - destruct src; [congruence|cbn [length] in Hlen; lia].
  - destruct src as [|c t]; [congruence|].
    inversion Hnn as [|c' t' Hc Ht]; subst c' t'. cbn [mf_inner].
    replace (Z.min (ss + c) ss - Z.max ss ds) with 0 by lia.
    destruct (0 >? best) eqn:E; [lia|].
    destruct t as [|c1 t1].
    + exists [c]. split; [reflexivity|]. split; [discriminate|]. split; [exact Hnn|].
      split; [reflexivity|]. split; [cbn [hd zsum]; lia|]. intros z Hz. exact Hz.
    + destruct (ss + c <=? ss) eqn:E2.
      * assert (c = 0) as -> by lia. replace (ss + 0) with ss by lia.
        destruct (IH (c1 :: t1) ss ds best ltac:(cbn [length] in *; lia) ltac:(discriminate) Ht Hds Hbest)
          as [src' [H1 [H2 [H3 [H4 [H5 H6]]]]]].
        exists src'. split; [exact H1|]. split; [exact H2|]. split; [exact H3|].
        split; [cbn [zsum] in *; lia|]. split; [exact H5|].
        intros z Hz. rewrite bounds_from_cons by discriminate. right.
        replace (ss + 0) with ss by lia. apply H6. exact Hz.
      * exists (c :: c1 :: t1). split; [reflexivity|]. split; [discriminate|]. split; [exact Hnn|].
        split; [reflexivity|]. split; [cbn [hd]; lia|]. intros z Hz. exact Hz.
Qed.

Lemma mf_inner_advance_skip f c c1 t1 ss ds target :
  (length (c1 :: t1) <= f)%nat -> nonneg_layout (c1 :: t1) ->
  ss <= ds -> 0 < target -> ds + target = ss + c ->
  exists src',
    mf_inner (S f) (c :: c1 :: t1) ss ds (ds + target) 0 = (src', ss + c, target) /\
    src' <> [] /\ nonneg_layout src' /\ zsum src' = zsum (c1 :: t1) /\
    (0 < hd 0 src' \/ zsum src' = 0) /\
    (forall z, In z (bounds_from (ss + c) src') -> In z (bounds_from (ss + c) (c1 :: t1))).
Proof.
  intros Hlen Hnn H1 H2 H3. cbn [mf_inner].
  replace (Z.min (ss + c) (ds + target) - Z.max ss ds) with target by lia.
  destruct (target >? 0) eqn:E; [|lia].
  destruct (ss + c <=? ds + target) eqn:E2; [|lia].
  rewrite H3.
  apply (mf_inner_skip f (c1 :: t1) (ss + c) ds target Hlen ltac:(discriminate) Hnn); lia.
Qed.

Lemma mf_outer_weak dst : forall c t ss ds moved,
  nonneg_layout (c :: t) -> nonneg_layout dst -> ss <= ds ->
  (ds < ss + c \/ zsum dst = 0) ->
  ss + zsum (c :: t) = ds + zsum dst ->
  (forall z, ds < z -> In z (bounds_from ss (c :: t)) -> In z (bounds_from ds dst)) ->
  mf_outer (c :: t) ss ds dst moved = moved.
Proof.
  induction dst as [|target dst' IH]; intros c t ss ds moved Hsrc Hdst Hle Hcur Hsum Hb;
    [reflexivity|].
  destruct (Z.eq_dec (zsum (target :: dst')) 0) as [Hz|Hz].
  { pose proof (mf_outer_range (target :: dst') (c :: t) ss ds moved Hdst). lia. }
  destruct Hcur as [Hcur|Hcur]; [|contradiction].
  inversion Hdst as [|x' d' Htarget Hdst']; subst x' d'.
  inversion Hsrc as [|x' d' Hc Ht]; subst x' d'.
  pose proof (zsum_nonneg dst' Hdst') as Hsd. pose proof (zsum_nonneg t Ht) as Hst.
  cbn [zsum] in Hsum, Hz.
  (* boundaries of dst' seen from the next offset *)
  assert (forall z, ds + target < z -> In z (bounds_from ds (target :: dst')) ->
                    In z (bounds_from (ds + target) dst')) as Htail.
  { intros z Hzgt Hin. destruct dst' as [|x1 d1]; [cbn in Hin; contradiction|].
    rewrite bounds_from_cons in Hin by discriminate. destruct Hin as [Hin|Hin]; [lia|exact Hin]. }
  cbn [mf_outer].
  destruct (Z.eq_dec target 0) as [Ht0|Ht0].
  - subst target. rewrite mf_inner_stay0 by lia.
    rewrite (IH c t ss (ds + 0) _ Hsrc Hdst' ltac:(lia) ltac:(left; lia) ltac:(cbn [zsum]; lia));
      [lia|].
    intros z Hzgt Hin. apply Htail; [lia|]. apply Hb; [lia|exact Hin].
  - assert (ds + target <= ss + c) as Hend.
    { destruct t as [|c1 t1]; [cbn [zsum] in Hsum; lia|].
      assert (In (ss + c) (bounds_from ds (target :: dst'))) as Hin.
      { apply Hb; [lia|]. rewrite bounds_from_cons by discriminate. left. reflexivity. }
      destruct dst' as [|x1 d1]; [cbn in Hin; contradiction|].
      rewrite bounds_from_cons in Hin by discriminate. destruct Hin as [Hin|Hin]; [lia|].
      apply bounds_from_ge in Hin; [lia|exact Hdst']. }
    destruct (Z.eq_dec (ds + target) (ss + c)) as [Heq|Hneq].
    + destruct t as [|c1 t1].
      * rewrite mf_inner_last by lia.
        rewrite (IH c [] ss (ds + target) _ Hsrc Hdst' ltac:(lia)
                   ltac:(right; cbn [zsum] in Hsum; lia) ltac:(cbn [zsum] in *; lia)); [lia|].
        intros z _ Hin. cbn in Hin. contradiction.
      * destruct (mf_inner_advance_skip (length (c :: c1 :: t1)) c c1 t1 ss ds target
                    ltac:(cbn [length]; lia) Ht Hle ltac:(lia) Heq)
          as [src' [H1 [H2 [H3 [H4 [H5 H6]]]]]].
        rewrite H1. destruct src' as [|c2 t2]; [congruence|].
        rewrite (IH c2 t2 (ss + c) (ds + target) _ H3 Hdst' ltac:(lia)); [lia| | |].
        -- destruct H5 as [H5|H5]; [left; cbn [hd] in H5; lia|right; cbn [zsum] in *; lia].
        -- cbn [zsum] in *. lia.
        -- intros z Hzgt Hin. apply Htail; [exact Hzgt|]. apply Hb; [lia|].
           rewrite bounds_from_cons by discriminate. right. apply H6. exact Hin.
    + rewrite mf_inner_stay by lia.
      rewrite (IH c t ss (ds + target) _ Hsrc Hdst' ltac:(lia) ltac:(left; lia)
                 ltac:(cbn [zsum]; lia)); [lia|].
      intros z Hzgt Hin. apply Htail; [exact Hzgt|]. apply Hb; [lia|exact Hin].
Qed.

(* leading empty source blocks are irrelevant *)
Lemma mf_outer_drop_zero c1 t1 ss ds dst moved :
  ss <= ds -> nonneg_layout dst ->
  mf_outer (0 :: c1 :: t1) ss ds dst moved = mf_outer (c1 :: t1) ss ds dst moved.
Proof.
  intros Hle Hdst. destruct dst as [|target dst']; [reflexivity|].
  inversion Hdst as [|x' d' Htarget Hdst']; subst x' d'.
  cbn [mf_outer]. cbn [length].
  assert (mf_inner (S (S (S (length t1)))) (0 :: c1 :: t1) ss ds (ds + target) 0 =
          mf_inner (S (S (length t1))) (c1 :: t1) ss ds (ds + target) 0) as ->; [|reflexivity].
  cbn [mf_inner].
  destruct (Z.min (ss + 0) (ds + target) - Z.max ss ds >? 0) eqn:E; [lia|].
  destruct (ss + 0 <=? ds + target) eqn:E2; [|lia].
  replace (ss + 0) with ss by lia. reflexivity.
Qed.

Lemma mf_outer_weak0 src : forall dst,
  nonneg_layout src -> nonneg_layout dst -> zsum src = zsum dst ->
  (forall z, 0 < z -> In z (bounds_from 0 src) -> In z (bounds_from 0 dst)) ->
  mf_outer src 0 0 dst 0 = 0.
Proof.
  induction src as [|c t IH]; intros dst Hsrc Hdst Hsum Hb.
  - pose proof (mf_outer_range dst [] 0 0 0 Hdst). cbn [zsum] in Hsum. lia.
  - inversion Hsrc as [|x' d' Hc Ht]; subst x' d'.
    destruct (Z.eq_dec c 0) as [Hc0|Hc0].
    + subst c. destruct t as [|c1 t1].
      * pose proof (mf_outer_range dst [0] 0 0 0 Hdst). cbn [zsum] in Hsum. lia.
      * rewrite mf_outer_drop_zero by (exact Hdst || lia).
        apply IH; [exact Ht | exact Hdst | cbn [zsum] in *; lia |].
        intros z Hz Hin. apply Hb; [exact Hz|].
        rewrite bounds_from_cons by discriminate. right. exact Hin.
    + apply mf_outer_weak; [exact Hsrc | exact Hdst | lia | left; lia | lia | exact Hb].
Qed.

Theorem moved_fraction_split_free_nonneg src dst :
  nonneg_layout src -> nonneg_layout dst -> refines_b dst src = true ->
  fst (moved_fraction src dst) = 0.
Proof.
  intros Hsrc Hdst H. apply refines_b_spec in H. destruct H as [Hs Hb].
  unfold moved_fraction.
  destruct ((zsum src =? 0) || zlist_eqb src dst) eqn:E1; [reflexivity|].
  destruct (negb (zsum dst =? zsum src)) eqn:E2; [reflexivity|].
  cbn [fst]. apply mf_outer_weak0; [exact Hsrc | exact Hdst | lia |].
  intros z _ Hin. apply Hb. exact Hin.
Qed.

(* ---------------------------------------------------------------------- *)
(* T1 stretch: the result is the FINEST common refinement *)
Lemma map_nonempty {A B} (f : A -> B) l : l <> [] -> map f l <> [].
Proof. destruct l; [congruence|discriminate]. Qed.

Lemma walk_down_pos fuel : forall rs i total out,
  rs <> [] -> walk_inv rs i total -> walk_down fuel rs i total = Some out -> pos_layout out.
Proof.
  induction fuel as [|f IH]; intros rs i total out Hne Hinv Hw;
    apply walk_down_inv in Hw;
    destruct Hw as [[Hi ->]|[Hi [f' [out' [Hf [Hnn [-> Hw]]]]]]]; try discriminate;
    try (constructor; fail).
  injection Hf as <-. constructor.
  - destruct (heads_min_in rs Hne) as [r [Hr ->]].
    destruct Hinv as [Hp _]. rewrite Forall_forall in Hp. specialize (Hp r Hr).
    specialize (Hnn r Hr). destruct r as [|c t]; [congruence|].
    inversion Hp; subst. cbn [hd]. assumption.
  - apply (IH _ _ _ _ (map_nonempty _ rs Hne) (walk_inv_step rs i total Hinv Hnn) Hw).
Qed.

Lemma sub_head_bounds m r acc z :
  m <= hd 0 r -> In z (bounds_from (acc + m) (sub_head m r)) -> In z (bounds_from acc r).
Proof.
  intros Hm Hz. destruct r as [|c t]; [exact Hz|]. cbn [hd] in Hm. cbn [sub_head] in Hz.
  destruct (c - m =? 0) eqn:E.
  - destruct t as [|c1 t1]; [cbn in Hz; contradiction|].
    rewrite bounds_from_cons by discriminate. right.
    replace (acc + c) with (acc + m) by lia. exact Hz.
  - rewrite bounds_from_split in Hz. exact Hz.
Qed.

Lemma walk_down_bounds fuel : forall rs i total out acc,
  rs <> [] -> walk_inv rs i total -> walk_down fuel rs i total = Some out ->
  forall z, In z (bounds_from acc out) -> exists r, In r rs /\ In z (bounds_from acc r).
Proof.
  induction fuel as [|f IH]; intros rs i total out acc Hne Hinv Hw z Hz;
    apply walk_down_inv in Hw;
    destruct Hw as [[Hi ->]|[Hi [f' [out' [Hf [Hnn [-> Hw]]]]]]]; try discriminate;
    try (cbn in Hz; contradiction).
  injection Hf as <-.
  destruct out' as [|m1 out1]; [cbn in Hz; contradiction|].
  rewrite bounds_from_cons in Hz by discriminate. destruct Hz as [Hz|Hz].
  - (* the first boundary is the end of the head block of some operand *)
    destruct (heads_min_in rs Hne) as [r [Hr Hm]]. exists r. split; [exact Hr|].
    pose proof (walk_down_inv _ _ _ _ _ Hw) as [[_ Hnil]|[Hlt _]]; [discriminate|].
    destruct Hinv as [Hp Hs]. rewrite Forall_forall in Hp.
    specialize (Hp r Hr). specialize (Hs r Hr). specialize (Hnn r Hr).
    destruct r as [|c t]; [congruence|]. cbn [hd] in Hm. cbn [zsum] in Hs.
    destruct t as [|c1 t1]; [cbn [zsum] in Hs; lia|].
    rewrite bounds_from_cons by discriminate. left. lia.
  - destruct (IH _ _ _ _ (acc + heads_min rs) (map_nonempty _ rs Hne)
                (walk_inv_step rs i total Hinv Hnn) Hw z Hz) as [r' [Hr' Hzr']].
    apply in_map_iff in Hr'. destruct Hr' as [r [<- Hr]]. exists r. split; [exact Hr|].
    apply (sub_head_bounds (heads_min rs)); [apply heads_min_le; exact Hr|exact Hzr'].
Qed.

Theorem common_blockdim_finest ds n r :
  Forall pos_layout ds -> (forall d, In d ds -> zsum d = n) ->
  common_blockdim ds = UOk r ->
  pos_layout r /\
  (ds <> [] -> zsum r = n) /\
  (forall z, In z (inner_bounds r) <-> exists d, In d ds /\ In z (inner_bounds d)).
Proof.
  intros Hp Hs H.
  assert (forall z, (exists d, In d ds /\ In z (inner_bounds d)) -> In z (inner_bounds r)) as Hback.
  { intros z [d [Hd Hz]].
    pose proof (common_blockdim_refines ds n r Hp Hs H d Hd) as Hr.
    apply refines_b_spec in Hr. apply Hr. exact Hz. }
  split; [|split; [apply (common_blockdim_zsum ds n r Hp Hs H)|]].
  - pose proof Hp as Hp'. rewrite Forall_forall in Hp'.
    destruct (common_blockdim_cases ds r H) as [[-> Hnil]|[[_ Hr]|[Hr|[d0 [d1 [l [Ent [Hall Hw]]]]]]]].
    + constructor.
    + apply Hp'. exact Hr.
    + apply Hp'. apply (nt_In r ds). rewrite Hr. left. reflexivity.
    + assert (forall d, In d (d0 :: d1 :: l) -> In d ds) as Hsub.
      { intros d Hd. rewrite <- Ent in Hd. apply nt_In in Hd. apply Hd. }
      assert (zsum d0 = n) as Hn by (apply Hs, Hsub; left; reflexivity).
      rewrite Hn in Hw.
      apply (walk_down_pos _ (d0 :: d1 :: l) _ _ _ ltac:(discriminate) (walk_inv_init ds n _ Hp Hs Hsub) Hw).
  - intros z. split; [|apply Hback]. intros Hz.
    destruct (common_blockdim_cases ds r H) as [[-> Hnil]|[[_ Hr]|[Hr|[d0 [d1 [l [Ent [Hall Hw]]]]]]]].
    + cbn in Hz. contradiction.
    + exists r. split; assumption.
    + exists r. split; [|exact Hz]. apply (nt_In r ds). rewrite Hr. left. reflexivity.
    + assert (forall d, In d (d0 :: d1 :: l) -> In d ds) as Hsub.
      { intros d Hd. rewrite <- Ent in Hd. apply nt_In in Hd. apply Hd. }
      assert (zsum d0 = n) as Hn by (apply Hs, Hsub; left; reflexivity).
      rewrite Hn in Hw. rewrite inner_bounds_from in Hz.
      destruct (walk_down_bounds _ (d0 :: d1 :: l) _ _ _ 0 ltac:(discriminate)
                  (walk_inv_init ds n _ Hp Hs Hsub) Hw z Hz) as [d [Hd Hzd]].
      exists d. split; [apply Hsub; exact Hd|exact Hzd].
Qed.

(* ---------------------------------------------------------------------- *)
(* consequences *)

(* the single-chunk operands are (trivially) refined by whatever coarse_blockdim picks *)
Corollary coarse_blockdim_trivial pick ds n r :
  Forall pos_layout ds -> (forall d, In d ds -> zsum d = n) ->
  coarse_blockdim pick ds = UOk r ->
  forall d, In d ds -> (length d <= 1)%nat -> refines_b r d = true.
Proof.
  intros Hp Hs H d Hd Hlen.
  destruct (coarse_blockdim_spec_gen pick ds r H) as [Hc|[Hr _]].
  - apply (common_blockdim_refines ds n r Hp Hs Hc d Hd).
  - apply refines_b_trivial; [exact Hlen|]. rewrite (Hs r Hr), (Hs d Hd). reflexivity.
Qed.

(* the 'refine' policy never grows a block *)
Corollary common_blockdim_no_growth ds n r :
  Forall pos_layout ds -> (forall d, In d ds -> zsum d = n) ->
  common_blockdim ds = UOk r ->
  forall d, In d ds -> zmax_list r <= zmax_list d.
Proof.
  intros Hp Hs H d Hd.
  destruct (common_blockdim_finest ds n r Hp Hs H) as [Hr _].
  pose proof (common_blockdim_refines ds n r Hp Hs H d Hd) as Href.
  rewrite Forall_forall in Hp.
  apply refines_b_zmax_pos; [exact Hr | apply Hp; exact Hd | exact Href].
Qed.

(* ---------------------------------------------------------------------- *)
(* Examples: the hypotheses are satisfiable on non-trivial inputs *)
Example common_blockdim_refines_ex :
  common_blockdim [[5;2];[4;3];[7]] = UOk [4;1;2] /\
  forall d, In d [[5;2];[4;3];[7]] -> refines_b [4;1;2] d = true.
Proof.
  split; [vm_compute; reflexivity|].
  apply (common_blockdim_refines [[5;2];[4;3];[7]] 7).
  - repeat constructor.
  - intros d [<-|[<-|[<-|[]]]]; reflexivity.
  - vm_compute. reflexivity.
Qed.

Example common_blockdim_finest_ex :
  pos_layout [2;1;1;2] /\ ([[2;2;2];[3;3]] <> [] -> zsum [2;1;1;2] = 6) /\
  forall z, In z (inner_bounds [2;1;1;2]) <->
            exists d, In d [[2;2;2];[3;3]] /\ In z (inner_bounds d).
Proof.
  apply (common_blockdim_finest [[2;2;2];[3;3]] 6).
  - repeat constructor.
  - intros d [<-|[<-|[]]]; reflexivity.
  - vm_compute. reflexivity.
Qed.

(* T1 does NOT extend to zero-size chunks: the walk-down output [0;5] is not a
   refinement of the operand [5;0] (boundary 5 is not an inner boundary of
   [0;5]). *)
Example common_blockdim_zero_chunk_counterexample :
  Forall nonneg_layout [[0;5];[5;0]] /\
  (forall d, In d [[0;5];[5;0]] -> zsum d = 5) /\
  common_blockdim [[0;5];[5;0]] = UOk [0;5] /\
  refines_b [0;5] [5;0] = false.
Proof.
  split; [repeat constructor; lia|].
  split; [intros d [<-|[<-|[]]]; reflexivity|].
  split; vm_compute; reflexivity.
Qed.

Example coarse_blockdim_spec_ex_coarse :
  coarse_blockdim 0 [[12;12];[6;6;6;6];[24]] = UOk [12;12] /\
  (In [12;12] [[12;12];[6;6;6;6];[24]] /\
   forall d, In d [[12;12];[6;6;6;6];[24]] -> (1 < length d)%nat -> refines_b d [12;12] = true).
Proof.
  split; [vm_compute; reflexivity|].
  destruct (coarse_blockdim_spec 0 [[12;12];[6;6;6;6];[24]] 24 [12;12]) as [H|H].
  - repeat constructor.
  - intros d [<-|[<-|[<-|[]]]]; reflexivity.
  - vm_compute. reflexivity.
  - vm_compute in H. discriminate.
  - exact H.
Qed.

Example coarse_blockdim_spec_ex_fallback :
  coarse_blockdim 1 [[4;6];[6;4]] = UOk [4;2;4] /\ common_blockdim [[4;6];[6;4]] = UOk [4;2;4].
Proof. split; vm_compute; reflexivity. Qed.

Example refines_b_zmax_ex :
  refines_b [4;1;2] [5;2] = true /\ zmax_list [4;1;2] <= zmax_list [5;2].
Proof.
  split; [vm_compute; reflexivity|].
  apply refines_b_zmax; [repeat constructor; lia | repeat constructor; lia | vm_compute; reflexivity].
Qed.

Example refines_b_zmax_zero_ex :
  refines_b [0;4;0;1;2] [5;0;2] = true /\ zmax_list [0;4;0;1;2] <= zmax_list [5;0;2].
Proof.
  split; [vm_compute; reflexivity|].
  apply refines_b_zmax; [repeat constructor; lia | repeat constructor; lia | vm_compute; reflexivity].
Qed.

Example moved_fraction_range_ex :
  moved_fraction [100;100;100;100] [50;100;100;100;50] = (150, 400) /\
  0 <= 150 /\ 150 <= 400 /\ (0 < 400 \/ (150 = 0 /\ 400 = 1)).
Proof.
  split; [vm_compute; reflexivity|].
  apply (moved_fraction_range [100;100;100;100] [50;100;100;100;50]);
    [repeat constructor; lia | vm_compute; reflexivity].
Qed.

Example moved_fraction_split_free_ex :
  moved_fraction [30;30] [10;10;10;10;10;10] = (0, 60) /\
  fst (moved_fraction [30;30] [10;10;10;10;10;10]) = 0.
Proof.
  split; [vm_compute; reflexivity|].
  apply moved_fraction_split_free; [repeat constructor | repeat constructor | vm_compute; reflexivity].
Qed.

Example moved_fraction_split_free_zero_ex :
  moved_fraction [5;0;4] [2;0;3;0;4] = (0, 9) /\
  fst (moved_fraction [5;0;4] [2;0;3;0;4]) = 0.
Proof.
  split; [vm_compute; reflexivity|].
  apply moved_fraction_split_free_nonneg;
    [repeat constructor; lia | repeat constructor; lia | vm_compute; reflexivity].
Qed.

Print Assumptions common_blockdim_refines.
Print Assumptions common_blockdim_finest.
Print Assumptions common_blockdim_no_growth.
Print Assumptions coarse_blockdim_spec_gen.
Print Assumptions coarse_blockdim_spec.
Print Assumptions coarse_blockdim_trivial.
Print Assumptions refines_b_refl.
Print Assumptions refines_b_trans.
Print Assumptions refines_b_zmax.
Print Assumptions refines_b_splits.
Print Assumptions moved_fraction_range.
Print Assumptions moved_fraction_same.
Print Assumptions moved_fraction_split_free.
Print Assumptions moved_fraction_split_free_nonneg.
Print Assumptions common_blockdim_zero_chunk_counterexample.
