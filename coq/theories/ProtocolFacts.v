(* ProtocolFacts.v — proofs about the collection-protocol model (Protocol.v). *)
From Coq Require Import List Bool ZArith PArith Lia.
From DA Require Import PyBase PyBaseFacts Graph GraphFacts RechunkBase Protocol.
Import ListNotations.
Open Scope Z_scope.

(* ------------------------------------------------------------------------- *)
(** * keys and dicts *)

Lemma lkey_eqb_eq : forall a b, lkey_eqb a b = true <-> a = b.
Proof.
  intros [n i|x] [m j|y]; cbn; split; intro H; try discriminate.
  - apply andb_true_iff in H. destruct H as [H1 H2].
    apply Pos.eqb_eq in H1. apply zlist_eqb_eq in H2. subst. reflexivity.
  - inversion H; subst. apply andb_true_iff. split; [apply Pos.eqb_refl | apply zlist_eqb_eq; reflexivity].
  - apply Pos.eqb_eq in H. subst. reflexivity.
  - inversion H; subst. apply Pos.eqb_refl.
Qed.

Lemma lkey_eqb_refl : forall a, lkey_eqb a a = true.
Proof. intro a. apply lkey_eqb_eq. reflexivity. Qed.

Lemma lkey_eqb_neq : forall a b, lkey_eqb a b = false <-> a <> b.
Proof.
  intros a b. split.
  - intros H E. apply lkey_eqb_eq in E. congruence.
  - intro H. destruct (lkey_eqb a b) eqn:E; [|reflexivity]. apply lkey_eqb_eq in E. contradiction.
Qed.

Lemma lval_eqb_eq : forall a b, lval_eqb a b = true <-> a = b.
Proof.
  intros [x|x|k] [y|y|l]; cbn; split; intro H; try discriminate;
    try (apply Pos.eqb_eq in H; subst; reflexivity);
    try (inversion H; subst; apply Pos.eqb_refl).
  - apply lkey_eqb_eq in H. subst. reflexivity.
  - inversion H; subst. apply lkey_eqb_refl.
Qed.

Lemma d_get_set_same : forall k v d, d_get k (d_set k v d) = Some v.
Proof.
  intros k v d; induction d as [|[k' v'] t IH]; cbn.
  - rewrite lkey_eqb_refl. reflexivity.
  - destruct (lkey_eqb k k') eqn:E; cbn; rewrite E; [reflexivity | exact IH].
Qed.

Lemma d_get_set_other : forall k k' v d, k' <> k -> d_get k' (d_set k v d) = d_get k' d.
Proof.
  intros k k' v d Hne; induction d as [|[k0 v0] t IH]; cbn.
  - apply lkey_eqb_neq in Hne. rewrite Hne. reflexivity.
  - destruct (lkey_eqb k k0) eqn:E; cbn.
    + apply lkey_eqb_eq in E. subst k0. apply lkey_eqb_neq in Hne. rewrite Hne. reflexivity.
    + rewrite IH. reflexivity.
Qed.

Lemma d_get_del_same : forall k d, d_get k (d_del k d) = None.
Proof.
  intros k d; unfold d_del; induction d as [|[k0 v0] t IH]; cbn; [reflexivity|].
  destruct (lkey_eqb k k0) eqn:E; cbn; [exact IH|]. rewrite E. exact IH.
Qed.

Lemma d_get_del_other : forall k k' d, k' <> k -> d_get k' (d_del k d) = d_get k' d.
Proof.
  intros k k' d Hne; unfold d_del; induction d as [|[k0 v0] t IH]; cbn; [reflexivity|].
  destruct (lkey_eqb k k0) eqn:E; cbn.
  - apply lkey_eqb_eq in E. subst k0. apply lkey_eqb_neq in Hne. rewrite Hne. exact IH.
  - rewrite IH. reflexivity.
Qed.

Lemma d_mem_in : forall k d, d_mem k d = true <-> In k (map fst d).
Proof.
  intros k d. unfold d_mem. induction d as [|[k0 v0] t IH]; cbn.
  - split; [discriminate | contradiction].
  - destruct (lkey_eqb k k0) eqn:E.
    + apply lkey_eqb_eq in E. subst. split; auto.
    + rewrite IH. apply lkey_eqb_neq in E. split; [auto | intros [H|H]; [congruence | exact H]].
Qed.

Lemma d_mem_get : forall k d, d_mem k d = true -> exists v, d_get k d = Some v.
Proof. intros k d. unfold d_mem. destruct (d_get k d); [eauto | discriminate]. Qed.

(* ------------------------------------------------------------------------- *)
(** * the grid *)

Lemma map_of_nat_inj : forall a b : list nat, map Z.of_nat a = map Z.of_nat b -> a = b.
Proof.
  induction a as [|x a IH]; intros [|y b] H; cbn in H; try discriminate; [reflexivity|].
  inversion H. f_equal; [lia | apply IH; assumption].
Qed.

Lemma NoDup_map_inj : forall A B (f : A -> B) l, (forall x y, f x = f y -> x = y) -> NoDup l -> NoDup (map f l).
Proof.
  intros A B f l Hinj H; induction H as [|x t Hx Ht IH]; cbn; constructor; [|exact IH].
  intro Hin. apply in_map_iff in Hin. destruct Hin as [y [E Hy]]. apply Hinj in E. subst. contradiction.
Qed.

Theorem zgrid_NoDup : forall nb, NoDup (zgrid nb).
Proof. intro nb. unfold zgrid. apply NoDup_map_inj; [exact map_of_nat_inj | apply grid_NoDup]. Qed.

Theorem zgrid_length_idx : forall nb b, In b (zgrid nb) -> length b = length nb.
Proof.
  intros nb b H. unfold zgrid in H. apply in_map_iff in H. destruct H as [i [E Hi]]. subst b.
  rewrite map_length. apply grid_in_bounds in Hi. unfold in_bounds in Hi.
  clear - Hi. induction Hi; cbn; congruence.
Qed.

(* in bounds: block id b is in the grid iff 0 <= b_i < numblocks_i on every axis *)
Theorem zgrid_in : forall nb b, In b (zgrid nb) <-> Forall2 (fun i n => 0 <= i < Z.of_nat n) b nb.
Proof.
  intros nb b. unfold zgrid. rewrite in_map_iff. split.
  - intros [i [E Hi]]. subst b. apply grid_in_bounds in Hi. unfold in_bounds in Hi.
    induction Hi; cbn; constructor; [lia | assumption].
  - intro H. exists (map Z.to_nat b). split.
    + clear - H. induction H as [|x n b nb Hx _ IH]; cbn; [reflexivity|]. rewrite IH. f_equal. lia.
    + apply grid_in_bounds. unfold in_bounds. induction H as [|x n b nb Hx _ IH]; cbn; constructor; [lia | exact IH].
Qed.

Lemma zl_mem_in : forall x l, zl_mem x l = true <-> In x l.
Proof.
  intros x l; induction l as [|y t IH]; cbn; [split; [discriminate|contradiction]|].
  rewrite orb_true_iff, IH, zlist_eqb_eq. split; intros [H|H]; auto.
Qed.

Lemma set_eqb_spec : forall a b, set_eqb a b = true <-> (forall x, In x a <-> In x b).
Proof.
  intros a b. unfold set_eqb. rewrite andb_true_iff, !forallb_forall. split.
  - intros [H1 H2] x. split; intro H; apply zl_mem_in; auto.
  - intro H. split; intros x Hx; apply zl_mem_in; apply H; exact Hx.
Qed.

(* ------------------------------------------------------------------------- *)
(** * FromGraph._find_layer_key / _layer *)

Lemma find_layer_key_idx : forall by_bid self inf dsk b lk,
  find_layer_key by_bid self inf dsk b = Some lk -> exists n, lk = KB n b.
Proof.
  intros by_bid self inf dsk b lk. unfold find_layer_key.
  destruct (assoc_bid b by_bid) as [n|].
  - destruct (d_mem (KB n b) dsk).
    + intro H; inversion H; eauto.
    + destruct (d_mem (KB self b) dsk); [intro H; inversion H; eauto|].
      destruct inf; intro H; inversion H; eauto.
  - destruct (d_mem (KB self b) dsk); [intro H; inversion H; eauto|].
    destruct inf; intro H; inversion H; eauto.
Qed.

(* the search looks only at keys with this block id *)
Lemma find_layer_key_ext : forall by_bid self inf d1 d2 b,
  (forall n, d_get (KB n b) d1 = d_get (KB n b) d2) ->
  find_layer_key by_bid self inf d1 b = find_layer_key by_bid self inf d2 b.
Proof.
  intros by_bid self inf d1 d2 b H. unfold find_layer_key, d_mem.
  destruct (assoc_bid b by_bid) as [n|]; rewrite ?(H n), (H self); reflexivity.
Qed.

Lemma find_layer_key_mem : forall by_bid self inf dsk b n,
  (forall m, inf = Some m -> d_mem (KB m b) dsk = true) ->
  find_layer_key by_bid self inf dsk b = Some (KB n b) -> d_mem (KB n b) dsk = true.
Proof.
  intros by_bid self inf dsk b n Hinf. unfold find_layer_key.
  destruct (assoc_bid b by_bid) as [m|].
  - destruct (d_mem (KB m b) dsk) eqn:E1.
    + intro H; inversion H; subst. exact E1.
    + destruct (d_mem (KB self b) dsk) eqn:E2; [intro H; inversion H; subst; exact E2|].
      destruct inf as [m'|]; intro H; inversion H; subst. apply Hinf. reflexivity.
  - destruct (d_mem (KB self b) dsk) eqn:E2; [intro H; inversion H; subst; exact E2|].
    destruct inf as [m'|]; intro H; inversion H; subst. apply Hinf. reflexivity.
Qed.

(* what the output dict holds for block b when the source is (n, b) with value v *)
Definition bridged (self : name) (out : dict) (b : list Z) (n : name) (v : lval) : Prop :=
  if is_task v && negb (Pos.eqb n self)
  then d_get (KB self b) out = Some (AliasTo (KB n b)) /\ d_get (KB n b) out = Some v
  else d_get (KB self b) out = Some v.

Lemma KB_neq_idx : forall n m b b', b' <> b -> KB n b' <> KB m b.
Proof. intros n m b b' H E. inversion E. contradiction. Qed.

Lemma fg_loop_inv : forall by_bid self inf (L : dict) bs dsk,
  NoDup bs ->
  (forall n b, In b bs -> d_get (KB n b) dsk = d_get (KB n b) L) ->
  (forall m, inf = Some m -> forall b, In b bs -> d_mem (KB m b) L = true) ->
  match fg_loop by_bid self inf bs dsk with
  | FOk out =>
      (forall b, In b bs -> exists n v,
          find_layer_key by_bid self inf L b = Some (KB n b) /\ d_get (KB n b) L = Some v /\
          bridged self out b n v) /\
      (forall k, (forall b n, In b bs -> k <> KB n b) -> d_get k out = d_get k dsk)
  | FErrNotFound => exists b, In b bs /\ find_layer_key by_bid self inf L b = None
  | FErrDupKeys => False
  | FErrKeyError => False
  end.
Proof.
  intros by_bid self inf L bs. induction bs as [|b t IH]; intros dsk Hnd Hsame Hinf.
  - cbn. split; [intros b []| reflexivity].
  - inversion Hnd as [|? ? Hb Hnd']; subst.
    cbn [fg_loop].
    assert (Hfind : find_layer_key by_bid self inf dsk b = find_layer_key by_bid self inf L b).
    { apply find_layer_key_ext. intro n. apply Hsame. left; reflexivity. }
    rewrite Hfind.
    destruct (find_layer_key by_bid self inf L b) as [lk|] eqn:Ef.
    2:{ exists b. split; [left; reflexivity | exact Ef]. }
    destruct (find_layer_key_idx _ _ _ _ _ _ Ef) as [n ->].
    assert (Hmem : d_mem (KB n b) L = true).
    { apply (find_layer_key_mem by_bid self inf L b n); [|exact Ef].
      intros m Em. apply (Hinf m Em). left; reflexivity. }
    destruct (d_mem_get _ _ Hmem) as [v Ev].
    assert (Hsame_t : forall d', (forall n' b', b' <> b -> d_get (KB n' b') d' = d_get (KB n' b') dsk) ->
                       forall n' b', In b' t -> d_get (KB n' b') d' = d_get (KB n' b') L).
    { intros d' Hd' n' b' Hb'. rewrite Hd'; [apply Hsame; right; exact Hb'|].
      intro E; subst. contradiction. }
    assert (Hinf_t : forall m, inf = Some m -> forall b', In b' t -> d_mem (KB m b') L = true).
    { intros m Em b' Hb'. apply (Hinf m Em). right; exact Hb'. }
    (* the tail of the loop, from any dict d' that agrees with dsk off block b *)
    assert (Htail : forall d',
      (forall n' b', b' <> b -> d_get (KB n' b') d' = d_get (KB n' b') dsk) ->
      (forall k, (forall n', k <> KB n' b) -> d_get k d' = d_get k dsk) ->
      (forall out, (forall k, (forall b' n', In b' t -> k <> KB n' b') -> d_get k out = d_get k d') ->
                   bridged self out b n v) ->
      match fg_loop by_bid self inf t d' with
      | FOk out =>
          (forall b0, In b0 (b :: t) -> exists n0 v0,
              find_layer_key by_bid self inf L b0 = Some (KB n0 b0) /\ d_get (KB n0 b0) L = Some v0 /\
              bridged self out b0 n0 v0) /\
          (forall k, (forall b0 n0, In b0 (b :: t) -> k <> KB n0 b0) -> d_get k out = d_get k dsk)
      | FErrNotFound => exists b0, In b0 (b :: t) /\ find_layer_key by_bid self inf L b0 = None
      | FErrDupKeys => False
      | FErrKeyError => False
      end).
    { intros d' Hoff Hframe Hhead.
      specialize (IH d' Hnd' (Hsame_t d' Hoff) Hinf_t).
      destruct (fg_loop by_bid self inf t d') as [out| | |]; try exact IH.
      - destruct IH as [IH1 IH2]. split.
        + intros b0 [E|Hb0].
          * subst b0. exists n, v. split; [exact Ef|]. split; [exact Ev|]. apply Hhead. exact IH2.
          * apply IH1. exact Hb0.
        + intros k Hk. rewrite IH2.
          * apply Hframe. intros n' E. apply (Hk b n'); [left; reflexivity | exact E].
          * intros b' n' Hb'. apply Hk. right; exact Hb'.
      - destruct IH as [b0 [Hb0 E0]]. exists b0. split; [right; exact Hb0 | exact E0]. }
    assert (Hfresh : forall b' n', In b' t -> KB n b <> KB n' b' /\ KB self b <> KB n' b').
    { intros b' n' Hb'. split; intro E; inversion E; subst; contradiction. }
    destruct (lkey_eqb (KB self b) (KB n b)) eqn:Eself.
    + (* our own key: passthrough *)
      apply lkey_eqb_eq in Eself. inversion Eself; subst n.
      apply Htail; [reflexivity | reflexivity |].
      intros out Hout. unfold bridged. rewrite Pos.eqb_refl, andb_false_r.
      rewrite Hout; [|intros b' n' Hb'; apply Hfresh; exact Hb'].
      rewrite Hsame by (left; reflexivity). exact Ev.
    + apply lkey_eqb_neq in Eself.
      assert (Hns : Pos.eqb n self = false).
      { apply Pos.eqb_neq. intro E; subst. apply Eself. reflexivity. }
      rewrite (Hsame n b (or_introl eq_refl)), Ev.
      destruct (is_task v) eqn:Et.
      * apply Htail.
        -- intros n' b' Hne. apply d_get_set_other. apply KB_neq_idx. exact Hne.
        -- intros k Hk. apply d_get_set_other. apply Hk.
        -- intros out Hout. unfold bridged. rewrite Et, Hns. cbn. split.
           ++ rewrite Hout; [apply d_get_set_same | intros b' n' Hb'; apply Hfresh; exact Hb'].
           ++ rewrite Hout; [|intros b' n' Hb'; apply Hfresh; exact Hb'].
              rewrite d_get_set_other by (intro E; apply Eself; symmetry; exact E).
              rewrite Hsame by (left; reflexivity). exact Ev.
      * apply Htail.
        -- intros n' b' Hne. rewrite d_get_del_other by (apply KB_neq_idx; exact Hne).
           apply d_get_set_other. apply KB_neq_idx. exact Hne.
        -- intros k Hk. rewrite d_get_del_other by apply Hk. apply d_get_set_other. apply Hk.
        -- intros out Hout. unfold bridged. rewrite Et. cbn.
           rewrite Hout; [|intros b' n' Hb'; apply Hfresh; exact Hb'].
           rewrite d_get_del_other by exact Eself. apply d_get_set_same.
Qed.

(* ------------------------------------------------------------------------- *)
(** * FromGraph._inferred_layer_name *)

Fixpoint bids_of (m : list (name * list (list Z))) (n : name) : list (list Z) :=
  match m with
  | [] => []
  | (n', l) :: t => if Pos.eqb n n' then l else bids_of t n
  end.

Lemma bids_of_add : forall m n i n',
  bids_of (bids_add n i m) n' = if Pos.eqb n' n then bids_of m n' ++ [i] else bids_of m n'.
Proof.
  induction m as [|[n0 l0] t IH]; intros n i n'; cbn.
  - destruct (Pos.eqb n' n); reflexivity.
  - destruct (Pos.eqb n n0) eqn:E; cbn.
    + apply Pos.eqb_eq in E. subst n0. destruct (Pos.eqb n' n); reflexivity.
    + rewrite IH. destruct (Pos.eqb n' n0) eqn:E2; [|reflexivity].
      apply Pos.eqb_eq in E2. subst n0. rewrite Pos.eqb_sym, E. reflexivity.
Qed.

Lemma bids_add_names : forall m n i x,
  In x (map fst (bids_add n i m)) <-> x = n \/ In x (map fst m).
Proof.
  induction m as [|[n0 l0] t IH]; intros n i x; cbn.
  - split; intros [H|[]]; left; congruence.
  - destruct (Pos.eqb n n0) eqn:E; cbn.
    + apply Pos.eqb_eq in E. subst. split; [intros [H|H]; auto | intros [H|[H|H]]; subst; auto].
    + rewrite IH. split; [intros [H|[H|H]]; auto | intros [H|[H|H]]; auto].
Qed.

Lemma bids_add_nodup : forall m n i, NoDup (map fst m) -> NoDup (map fst (bids_add n i m)).
Proof.
  induction m as [|[n0 l0] t IH]; intros n i H; cbn.
  - constructor; [intros []|constructor].
  - inversion H as [|? ? Hn Ht]; subst. destruct (Pos.eqb n n0) eqn:E; cbn.
    + constructor; assumption.
    + constructor; [|apply IH; exact Ht]. rewrite bids_add_names. intros [H1|H1]; [|contradiction].
      subst. rewrite Pos.eqb_refl in E. discriminate.
Qed.

Lemma bids_of_in : forall m n l, NoDup (map fst m) -> In (n, l) m -> bids_of m n = l.
Proof.
  induction m as [|[n0 l0] t IH]; intros n l Hnd Hin; [contradiction|]. cbn.
  inversion Hnd as [|? ? Hn Ht]; subst. destruct Hin as [E|Hin].
  - inversion E; subst. rewrite Pos.eqb_refl. reflexivity.
  - destruct (Pos.eqb n n0) eqn:E; [|apply IH; assumption].
    apply Pos.eqb_eq in E. subst. exfalso. apply Hn. apply (in_map fst) in Hin. exact Hin.
Qed.

Lemma bids_of_in_conv : forall m n, In n (map fst m) -> In (n, bids_of m n) m.
Proof.
  induction m as [|[n0 l0] t IH]; intros n Hin; [contradiction|]. cbn.
  destruct (Pos.eqb n n0) eqn:E.
  - apply Pos.eqb_eq in E. subst. left; reflexivity.
  - right. apply IH. destruct Hin as [H|H]; [|exact H]. cbn in H. subst. rewrite Pos.eqb_refl in E. discriminate.
Qed.

(* the keys of the layer that count as block ids of name n *)
Definition block_key_of (ndim : nat) (layer : dict) (n : name) (i : list Z) : Prop :=
  In (KB n i) (map fst layer) /\ length i = ndim.

Lemma block_ids_fold : forall ndim layer m,
  NoDup (map fst m) ->
  let r := fold_left (block_ids_step ndim) layer m in
  NoDup (map fst r) /\
  (forall n i, In i (bids_of r n) <-> In i (bids_of m n) \/ block_key_of ndim layer n i) /\
  (forall n, In n (map fst r) <-> In n (map fst m) \/ exists i, block_key_of ndim layer n i).
Proof.
  intros ndim layer. induction layer as [|[k v] t IH]; intros m Hnd; cbn.
  - split; [exact Hnd|]. split.
    + intros n i. unfold block_key_of. cbn. tauto.
    + intros n. unfold block_key_of. cbn. split; [auto | intros [H|[i [[] _]]]; exact H].
  - unfold block_ids_step at 2 4 6. cbn [fst].
    assert (Hskip : (forall n i, k <> KB n i \/ length i <> ndim) ->
       NoDup (map fst (fold_left (block_ids_step ndim) t m)) /\
       (forall n i, In i (bids_of (fold_left (block_ids_step ndim) t m) n) <->
                    In i (bids_of m n) \/ block_key_of ndim ((k, v) :: t) n i) /\
       (forall n, In n (map fst (fold_left (block_ids_step ndim) t m)) <->
                  In n (map fst m) \/ exists i, block_key_of ndim ((k, v) :: t) n i)).
    { intro Hk. destruct (IH m Hnd) as (A & B & C). split; [exact A|].
      assert (Heq : forall n i, block_key_of ndim ((k, v) :: t) n i <-> block_key_of ndim t n i).
      { intros n i. unfold block_key_of. cbn. split; [|tauto].
        intros [[E|H] Hl]; [|tauto]. destruct (Hk n i); congruence. }
      split.
      - intros n i. rewrite B, Heq. reflexivity.
      - intros n. rewrite C. split; (intros [H|[i Hi]]; [left; exact H | right; exists i; apply Heq; exact Hi]). }
    destruct k as [n0 i0|x]; [|apply Hskip; intros n i; left; discriminate].
    destruct (Nat.eqb (length i0) ndim) eqn:El.
    2:{ apply Hskip. intros n i. apply Nat.eqb_neq in El.
        destruct (lkey_eqb (KB n0 i0) (KB n i)) eqn:E.
        - apply lkey_eqb_eq in E. inversion E; subst. right; exact El.
        - apply lkey_eqb_neq in E. left; exact E. }
    apply Nat.eqb_eq in El.
    destruct (IH (bids_add n0 i0 m) (bids_add_nodup m n0 i0 Hnd)) as (A & B & C).
    split; [exact A|]. split.
    + intros n i. rewrite B, bids_of_add. unfold block_key_of. cbn [map fst In].
      destruct (Pos.eqb n n0) eqn:E.
      * apply Pos.eqb_eq in E. subst n0. rewrite in_app_iff. cbn [In]. split.
        -- intros [[H|[H|[]]]|[H1 H2]]; [tauto | subst i; right; split; [left; reflexivity | exact El] | tauto].
        -- intros [H|[[H|H] H2]]; [tauto | inversion H; subst i; tauto | tauto].
      * apply Pos.eqb_neq in E. split.
        -- intros [H|[H1 H2]]; tauto.
        -- intros [H|[[H|H] H2]]; [tauto | inversion H; congruence | tauto].
    + intros n. rewrite C, bids_add_names. unfold block_key_of. cbn [map fst In]. split.
      * intros [[H|H]|[i [H1 H2]]]; [subst n; right; exists i0; split; [left; reflexivity | exact El] | tauto | right; exists i; tauto].
      * intros [H|[i [[H|H] H2]]]; [tauto | inversion H; tauto | right; exists i; tauto].
Qed.

Lemma block_ids_spec : forall ndim layer,
  let r := block_ids ndim layer in
  NoDup (map fst r) /\
  (forall n i, In i (bids_of r n) <-> block_key_of ndim layer n i) /\
  (forall n, In n (map fst r) <-> exists i, block_key_of ndim layer n i).
Proof.
  intros ndim layer. destruct (block_ids_fold ndim layer [] (NoDup_nil _)) as (A & B & C).
  split; [exact A|]. split.
  - intros n i. rewrite (B n i). cbn. tauto.
  - intros n. rewrite (C n). cbn. tauto.
Qed.

(* "name n's keys cover exactly the block grid" *)
Definition exact_cover (ndim : nat) (layer : dict) (grid : list (list Z)) (n : name) : Prop :=
  forall i, In i grid <-> block_key_of ndim layer n i.

Lemma candidates_spec : forall ndim layer grid n, grid <> [] ->
  (In n (candidates ndim layer grid) <-> exact_cover ndim layer grid n).
Proof.
  intros ndim layer grid n Hne. destruct (block_ids_spec ndim layer) as (A & B & C).
  unfold candidates. rewrite in_map_iff. split.
  - intros [[n' l] [E Hin]]. cbn in E. subst n'. apply filter_In in Hin. destruct Hin as [Hin Hs].
    cbn in Hs. pose proof (proj1 (set_eqb_spec _ _) Hs) as Hs2. clear Hs. rename Hs2 into Hs. rewrite <- (bids_of_in _ _ _ A Hin) in Hs.
    intro i. rewrite <- Hs. apply B.
  - intro Hc. exists (n, bids_of (block_ids ndim layer) n). split; [reflexivity|].
    apply filter_In. split.
    + apply bids_of_in_conv. apply C. destruct grid as [|b g]; [congruence|].
      exists b. apply Hc. left; reflexivity.
    + cbn. apply set_eqb_spec. intro i. rewrite B. symmetry. apply Hc.
Qed.

Lemma candidates_nodup : forall ndim layer grid, NoDup (candidates ndim layer grid).
Proof.
  intros. unfold candidates. destruct (block_ids_spec ndim layer) as (A & _).
  revert A. generalize (block_ids ndim layer). induction l as [|[n s] t IH]; cbn; intro H; [constructor|].
  inversion H as [|? ? Hn Ht]; subst. destruct (set_eqb s grid); cbn; [|apply IH; exact Ht].
  constructor; [|apply IH; exact Ht]. intro Hin. apply Hn.
  apply in_map_iff in Hin. destruct Hin as [[n' s'] [E Hin]]. cbn in E. subst.
  apply filter_In in Hin. destruct Hin as [Hin _]. apply (in_map fst) in Hin. exact Hin.
Qed.

(* the inferred name is THE unique name whose block keys cover exactly the grid *)
Theorem inferred_layer_name_spec : forall ndim layer grid n, grid <> [] ->
  (inferred_layer_name ndim layer grid = Some n <->
   exact_cover ndim layer grid n /\ forall n', exact_cover ndim layer grid n' -> n' = n).
Proof.
  intros ndim layer grid n Hne. unfold inferred_layer_name.
  pose proof (candidates_nodup ndim layer grid) as Hnd.
  pose proof (fun x => candidates_spec ndim layer grid x Hne) as Hc.
  destruct (candidates ndim layer grid) as [|c [|c' r]] eqn:E.
  - split; [discriminate|]. intros [H _]. apply Hc in H. contradiction.
  - split.
    + intro H. inversion H; subst c. split; [apply Hc; left; reflexivity|].
      intros n' Hn'. apply Hc in Hn'. destruct Hn' as [H'|[]]. congruence.
    + intros [H1 _]. apply Hc in H1. destruct H1 as [H1|[]]. congruence.
  - split; [discriminate|]. intros [_ H2]. exfalso.
    assert (E1 : c = n) by (apply H2; apply Hc; left; reflexivity).
    assert (E2 : c' = n) by (apply H2; apply Hc; right; left; reflexivity).
    subst. inversion Hnd as [|? ? Hn _]. apply Hn. left; reflexivity.
Qed.

Lemma inferred_mem : forall ndim layer grid n, grid <> [] ->
  inferred_layer_name ndim layer grid = Some n -> forall b, In b grid -> d_mem (KB n b) layer = true.
Proof.
  intros ndim layer grid n Hne H b Hb. apply inferred_layer_name_spec in H; [|exact Hne].
  destruct H as [H _]. apply d_mem_in. apply H. exact Hb.
Qed.

(* ------------------------------------------------------------------------- *)
(** * FromGraph._layer: the theorems *)

Theorem from_graph_keys : forall layer keys self nb out,
  fg_layer layer keys self nb = FOk out ->
  forall b, In b (zgrid nb) ->
  exists n v,
    source_name layer keys self nb b = Some (KB n b) /\
    d_get (KB n b) layer = Some v /\
    bridged self out b n v.
Proof.
  intros layer keys self nb out H b Hb. unfold fg_layer in H. unfold source_name.
  destruct (zgrid nb) as [|g0 gt] eqn:Eg; [contradiction|].
  destruct (keys_by_bid keys []) as [by_bid|]; [|discriminate].
  pose proof (fg_loop_inv by_bid self (inferred_layer_name (length nb) layer (g0 :: gt)) layer (g0 :: gt) layer) as Hinv.
  rewrite H in Hinv. destruct Hinv as [Hinv _].
  - rewrite <- Eg. apply zgrid_NoDup.
  - reflexivity.
  - intros m Em b' Hb'. apply (inferred_mem (length nb) layer (g0 :: gt) m); [discriminate | exact Em | exact Hb'].
  - apply Hinv. exact Hb.
Qed.

(* the only errors are the two documented ValueErrors; "cannot find output block" is raised
   exactly when some block has no source under the three rules *)
Theorem from_graph_errors : forall layer keys self nb,
  match fg_layer layer keys self nb with
  | FOk _ => True
  | FErrNotFound => exists b, In b (zgrid nb) /\ source_name layer keys self nb b = None /\
                              keys_by_bid keys [] <> None
  | FErrDupKeys => keys_by_bid keys [] = None /\ zgrid nb <> []
  | FErrKeyError => False
  end.
Proof.
  intros layer keys self nb. unfold fg_layer, source_name.
  destruct (zgrid nb) as [|g0 gt] eqn:Eg; [exact I|].
  destruct (keys_by_bid keys []) as [by_bid|]; [|split; [reflexivity|discriminate]].
  pose proof (fg_loop_inv by_bid self (inferred_layer_name (length nb) layer (g0 :: gt)) layer (g0 :: gt) layer) as Hinv.
  destruct (fg_loop by_bid self (inferred_layer_name (length nb) layer (g0 :: gt)) (g0 :: gt) layer); try exact I.
  - destruct Hinv as [b [Hb E]].
    + rewrite <- Eg. apply zgrid_NoDup.
    + reflexivity.
    + intros m Em b' Hb'. apply (inferred_mem (length nb) layer (g0 :: gt) m); [discriminate | exact Em | exact Hb'].
    + exists b. split; [exact Hb|]. split; [exact E | discriminate].
  - exfalso. apply Hinv; [rewrite <- Eg; apply zgrid_NoDup | reflexivity |].
    intros m Em b' Hb'. apply (inferred_mem (length nb) layer (g0 :: gt) m); [discriminate | exact Em | exact Hb'].
  - exfalso. apply Hinv; [rewrite <- Eg; apply zgrid_NoDup | reflexivity |].
    intros m Em b' Hb'. apply (inferred_mem (length nb) layer (g0 :: gt) m); [discriminate | exact Em | exact Hb'].
Qed.

(* keys that are nobody's block of the grid pass through untouched *)
Theorem from_graph_frame : forall layer keys self nb out,
  fg_layer layer keys self nb = FOk out ->
  forall k, (forall b n, In b (zgrid nb) -> k <> KB n b) -> d_get k out = d_get k layer.
Proof.
  intros layer keys self nb out H k Hk. unfold fg_layer in H.
  destruct (zgrid nb) as [|g0 gt] eqn:Eg; [inversion H; reflexivity|].
  destruct (keys_by_bid keys []) as [by_bid|]; [|discriminate].
  pose proof (fg_loop_inv by_bid self (inferred_layer_name (length nb) layer (g0 :: gt)) layer (g0 :: gt) layer) as Hinv.
  rewrite H in Hinv. destruct Hinv as [_ Hinv].
  - rewrite <- Eg. apply zgrid_NoDup.
  - reflexivity.
  - intros m Em b' Hb'. apply (inferred_mem (length nb) layer (g0 :: gt) m); [discriminate | exact Em | exact Hb'].
  - apply Hinv. exact Hk.
Qed.

(* the Array.persist path: keys = [] and the layer is keyed by our own keys: pure passthrough *)
Lemma fg_loop_passthrough : forall self inf bs dsk,
  (forall b, In b bs -> d_mem (KB self b) dsk = true) -> fg_loop [] self inf bs dsk = FOk dsk.
Proof.
  intros self inf bs; induction bs as [|b t IH]; intros dsk H; cbn [fg_loop]; [reflexivity|].
  unfold find_layer_key. cbn [assoc_bid]. rewrite (H b (or_introl eq_refl)). rewrite lkey_eqb_refl.
  apply IH. intros b' Hb'. apply H. right; exact Hb'.
Qed.

Theorem from_graph_passthrough : forall layer self nb,
  (forall b, In b (zgrid nb) -> d_mem (KB self b) layer = true) ->
  fg_layer layer [] self nb = FOk layer.
Proof.
  intros layer self nb H. unfold fg_layer. destruct (zgrid nb) as [|g0 gt] eqn:Eg; [reflexivity|].
  cbn [keys_by_bid]. apply fg_loop_passthrough. exact H.
Qed.

(* ------------------------------------------------------------------------- *)
(** * RootAlias and the advertised keys *)

Theorem root_alias_get : forall raw opt nb b,
  In b (zgrid nb) -> d_get (KB raw b) (root_alias_layer raw opt nb) = Some (AliasTo (KB opt b)).
Proof.
  intros raw opt nb b. unfold root_alias_layer. induction (zgrid nb) as [|x t IH]; cbn; [contradiction|].
  intros [E|H].
  - subst. rewrite Pos.eqb_refl. cbn. replace (zlist_eqb b b) with true; [reflexivity|].
    symmetry. apply zlist_eqb_eq. reflexivity.
  - destruct (Pos.eqb raw raw && zlist_eqb b x) eqn:E; [|apply IH; exact H].
    apply andb_true_iff in E. destruct E as [_ E]. apply zlist_eqb_eq in E. subst. reflexivity.
Qed.

Theorem root_alias_keys : forall raw opt nb,
  map fst (root_alias_layer raw opt nb) = dask_keys raw nb /\
  map snd (root_alias_layer raw opt nb) = map AliasTo (dask_keys opt nb).
Proof.
  intros. unfold root_alias_layer, dask_keys. rewrite !map_map. split; reflexivity.
Qed.

Theorem dask_keys_NoDup : forall nm nb, NoDup (dask_keys nm nb).
Proof.
  intros. unfold dask_keys. apply NoDup_map_inj; [|apply zgrid_NoDup].
  intros x y E. inversion E. reflexivity.
Qed.

(* ------------------------------------------------------------------------- *)
(** * the rebuild keeps name, chunks, dtype *)

Theorem rebuild_preserves : forall c layer,
  coll_of_node (rebuild c layer None) = c /\ fg_keys (rebuild c layer None) = [] /\
  fg_lay (rebuild c layer None) = layer.
Proof. intros [n ch dt] layer. cbn. auto. Qed.

Theorem rebuild_rename : forall c layer r,
  let c' := coll_of_node (rebuild c layer (Some r)) in
  c_name c' = rename_get r (c_name c) /\ c_chunks c' = c_chunks c /\ c_dtype c' = c_dtype c.
Proof. intros [n ch dt] layer r. cbn. auto. Qed.

(* ------------------------------------------------------------------------- *)
(** * the entry points, in the task-graph model *)

Section EntryPointFacts.
  Variable V : Type.
  Variable dflt : V.
  Implicit Types (g : list (task V)) (s : store V).

  Lemma map_combine_ext : forall A B C (f : A -> C) (h : B -> C) (la : list A) (lb : list B),
    length la = length lb -> (forall a b, In (a, b) (combine la lb) -> f a = h b) -> map f la = map h lb.
  Proof.
    intros A B C f h la; induction la as [|a la IH]; intros [|b lb] Hl H; cbn in *; try discriminate; [reflexivity|].
    f_equal; [apply H; left; reflexivity | apply IH; [lia | intros; apply H; right; assumption]].
  Qed.

  (* any store that satisfies (a superset of) the pinned graph shows, at each advertised key,
     the value the optimized graph computes for the corresponding root key *)
  Lemma satisfies_pinned : forall g o raws outs G s,
    NoDup (map (@t_key V) g) -> topological (dep_graph g) o ->
    (forall k, In k outs -> defined (dep_graph g) k) ->
    (forall t, In t (pinned dflt g raws outs) -> In t G) ->
    satisfies G s ->
    forall r k, In (r, k) (combine raws outs) -> s r = run g o k.
  Proof.
    intros g o raws outs G s Hnd Ht Hout Hsub Hsat r k Hin.
    assert (Hg : satisfies g s).
    { intros t Hin'. apply Hsat. apply Hsub. unfold pinned. apply in_or_app. left; exact Hin'. }
    assert (Hk : defined (dep_graph g) k) by (apply Hout; apply in_combine_r in Hin; exact Hin).
    destruct (run_no_stuck V g o Hnd Ht k Hk) as [v Ev]. unfold lookup in Ev.
    assert (Hsk : s k = Some (Val v)).
    { rewrite <- Ev. apply (satisfies_unique V g o s (run g o) Ht Hg (run_satisfies V g o Hnd Ht)).
      destruct Ht as (_ & Hkeys & _). apply Hkeys. exact Hk. }
    rewrite Ev.
    assert (Ha : In (alias_task dflt (r, k)) G).
    { apply Hsub. unfold pinned. apply in_or_app. right. apply in_map. exact Hin. }
    rewrite (Hsat _ Ha : s r = _). unfold exec. cbn. rewrite Hsk. reflexivity.
  Qed.

  Lemma map_combine3 : forall A B O C (F : A -> O -> C) (G : B -> C) (la : list A) (lb : list B) (lo : list O),
    length la = length lb -> length lo = length la ->
    (forall a b o', In (a, b) (combine la lb) -> In o' lo -> F a o' = G b) ->
    map (fun ro => F (fst ro) (snd ro)) (combine la lo) = map G lb.
  Proof.
    intros A B O C F G la; induction la as [|a la IH]; intros [|b lb] [|o' lo] H1 H2 H; cbn in *; try discriminate; [reflexivity|].
    f_equal; [apply H; left; reflexivity | apply IH; [lia | lia |]].
    intros a0 b0 o0 Hin Ho. apply H; right; assumption.
  Qed.

  Lemma all_values : forall g o ks,
    NoDup (map (@t_key V) g) -> topological (dep_graph g) o ->
    (forall k, In k ks -> defined (dep_graph g) k) ->
    exists vs, map (run g o) ks = map (fun v => Some (Val v)) vs.
  Proof.
    intros g o ks Hnd Htop. induction ks as [|k ks' IH]; intro Hks; [exists []; reflexivity|].
    destruct IH as [vs Evs]; [intros k' Hk'; apply Hks; right; exact Hk'|].
    destruct (run_no_stuck V g o Hnd Htop k (Hks k (or_introl eq_refl))) as [v Ev].
    exists (v :: vs). cbn. unfold lookup in Ev. rewrite Ev, Evs. reflexivity.
  Qed.

  Section Agree.
    Variables (g : list (task V)) (o : list key) (raws outs : list key).
    Hypothesis Hnd : NoDup (map (@t_key V) g).
    Hypothesis Htop : topological (dep_graph g) o.
    Hypothesis Houts : forall k, In k outs -> defined (dep_graph g) k.
    Hypothesis Hlen : length raws = length outs.

    Lemma values_pinned : forall G s,
      (forall t, In t (pinned dflt g raws outs) -> In t G) -> satisfies G s ->
      values s raws = values (run g o) outs.
    Proof.
      intros G s Hsub Hsat. unfold values, lookup. apply map_combine_ext; [exact Hlen|].
      intros r k Hin. apply (satisfies_pinned g o raws outs G s); assumption.
    Qed.

    Theorem ep_compute_agrees : forall o1,
      NoDup (map (@t_key V) (pinned dflt g raws outs)) ->
      topological (dep_graph (pinned dflt g raws outs)) o1 ->
      ep_compute dflt g raws outs o1 = ep_optimize g outs o.
    Proof.
      intros o1 Hnd1 Ht1. unfold ep_compute, ep_optimize.
      apply (values_pinned (pinned dflt g raws outs)); [auto|]. apply run_satisfies; assumption.
    Qed.

    Theorem ep_dask_compute_agrees : forall other o2,
      NoDup (map (@t_key V) (pinned dflt g raws outs ++ other)) ->
      topological (dep_graph (pinned dflt g raws outs ++ other)) o2 ->
      ep_dask_compute dflt g raws outs other o2 = ep_optimize g outs o.
    Proof.
      intros other o2 Hnd2 Ht2. unfold ep_dask_compute, ep_optimize.
      apply (values_pinned (pinned dflt g raws outs ++ other)).
      - intros t Hin. apply in_or_app. left; exact Hin.
      - apply run_satisfies; assumption.
    Qed.

    Theorem ep_to_delayed_agrees : forall os,
      NoDup (map (@t_key V) (pinned dflt g raws outs)) ->
      length os = length raws ->
      Forall (topological (dep_graph (pinned dflt g raws outs))) os ->
      ep_to_delayed dflt g raws outs os = ep_optimize g outs o.
    Proof.
      intros os Hnd1 Hlo Hos. unfold ep_to_delayed, ep_optimize, values.
      assert (Hall : forall r k, In (r, k) (combine raws outs) ->
                forall o', topological (dep_graph (pinned dflt g raws outs)) o' ->
                lookup (run (pinned dflt g raws outs) o') r = lookup (run g o) k).
      { intros r k Hin o' Ho'. unfold lookup.
        apply (satisfies_pinned g o raws outs (pinned dflt g raws outs)); auto.
        apply run_satisfies; assumption. }
      apply (map_combine3 _ _ _ _ (fun r o' => lookup (run (pinned dflt g raws outs) o') r) (lookup (run g o)));
        [exact Hlen | exact Hlo |].
      intros r k o' Hin Ho'. apply Hall; [exact Hin|]. rewrite Forall_forall in Hos. apply Hos. exact Ho'.
    Qed.

    (* the persisted layer is total (no advertised key is stuck) and holds the values *)
    Lemma persisted_layer_spec : forall s ks vs,
      map s ks = map (fun v => Some (Val v)) vs ->
      persisted_layer s ks = Some (combine ks vs).
    Proof.
      intros s ks; induction ks as [|k ks IH]; intros [|v vs] H; cbn in *; try discriminate; [reflexivity|].
      inversion H as [[H1 H2]]. rewrite H1, (IH vs H2). reflexivity.
    Qed.

    Lemma const_graph_run : forall (l : list (key * V)), NoDup (map fst l) ->
      forall k v, In (k, v) l -> run (map const_task l) (map fst l) k = Some (Val v).
    Proof.
      intros l Hndl k v Hin.
      assert (Hkeys : map (@t_key V) (map const_task l) = map fst l).
      { rewrite map_map. reflexivity. }
      assert (Htopc : topological (dep_graph (map const_task l)) (map fst l)).
      { split; [exact Hndl|]. split.
        - intro k'. unfold defined. rewrite dep_graph_keys, Hkeys. reflexivity.
        - intros pre k' post ds _ Hin'. unfold dep_graph in Hin'. rewrite map_map in Hin'.
          apply in_map_iff in Hin'. destruct Hin' as [kv [E _]]. inversion E; subst. intros x []. }
      assert (Hsat := run_satisfies V (map const_task l) (map fst l) ltac:(rewrite Hkeys; exact Hndl) Htopc).
      rewrite (Hsat (const_task (k, v)) (in_map _ _ _ Hin) : run _ _ k = _). reflexivity.
    Qed.

    Theorem ep_persist_agrees : forall o3,
      NoDup raws ->
      NoDup (map (@t_key V) (pinned dflt g raws outs)) ->
      topological (dep_graph (pinned dflt g raws outs)) o3 ->
      ep_persist dflt g raws outs o3 = Some (ep_optimize g outs o).
    Proof.
      intros o3 Hndr Hnd1 Ht1. unfold ep_persist.
      pose proof (ep_compute_agrees o3 Hnd1 Ht1) as Hc. unfold ep_compute, ep_optimize, values, lookup in Hc.
      (* every root key has a value in the optimized graph *)
      pose proof (all_values g o outs Hnd Htop Houts) as Hvals.
      destruct Hvals as [vs Evs].
      assert (Hc' : map (run (pinned dflt g raws outs) o3) raws = map (fun v => Some (Val v)) vs).
      { rewrite <- Evs. exact Hc. }
      rewrite (persisted_layer_spec _ raws vs Hc').
      f_equal. unfold ep_optimize, values, lookup.
      change (map (fun k => run g o k) outs) with (map (run g o) outs). rewrite Evs.
      assert (Hlv : length raws = length vs).
      { apply (f_equal (@length _)) in Evs. rewrite !map_length in Evs. lia. }
      assert (Hfst : map fst (combine raws vs) = raws).
      { clear - Hlv. revert vs Hlv. induction raws as [|r t IH]; intros [|v vs] H; cbn in *; try discriminate; [reflexivity|].
        f_equal. apply IH. lia. }
      apply map_combine_ext; [exact Hlv|].
      intros r v Hin. apply const_graph_run; [rewrite Hfst; exact Hndr | exact Hin].
    Qed.
  End Agree.

  Lemma app_split_l : forall (a b pre post : list key) k,
    a ++ b = pre ++ k :: post -> ~ In k b -> exists post', a = pre ++ k :: post'.
  Proof.
    induction a as [|x a IH]; intros b pre post k E Hn.
    - cbn in E. exfalso. apply Hn. rewrite E. apply in_or_app. right; left; reflexivity.
    - destruct pre as [|y pre]; cbn in E; inversion E; subst.
      + exists a. reflexivity.
      + destruct (IH _ _ _ _ H1 Hn) as [post' E']. exists post'. cbn. rewrite E'. reflexivity.
  Qed.

  Lemma app_split_r : forall (a b pre post : list key) k,
    a ++ b = pre ++ k :: post -> ~ In k a -> exists pre', pre = a ++ pre'.
  Proof.
    induction a as [|x a IH]; intros b pre post k E Hn.
    - exists pre. reflexivity.
    - destruct pre as [|y pre]; cbn in E; inversion E; subst.
      + exfalso. apply Hn. left; reflexivity.
      + destruct (IH _ _ _ _ H1 (fun H => Hn (or_intror H))) as [pre' E']. exists pre'. cbn. rewrite E'. reflexivity.
  Qed.

  Lemma NoDup_app_intro : forall (a b : list key),
    NoDup a -> NoDup b -> (forall x, In x a -> ~ In x b) -> NoDup (a ++ b).
  Proof.
    induction a as [|x a IH]; intros b Ha Hb Hd; cbn; [exact Hb|].
    inversion Ha; subst. constructor.
    - intro Hin. apply in_app_or in Hin. destruct Hin as [Hin|Hin]; [contradiction|].
      apply (Hd x); [left; reflexivity | exact Hin].
    - apply IH; [assumption | assumption |]. intros y Hy. apply Hd. right; exact Hy.
  Qed.

  Lemma alias_keys : forall raws outs, length raws = length outs ->
    map (@t_key V) (map (alias_task dflt) (combine raws outs)) = raws.
  Proof.
    intros raws outs. rewrite map_map. cbn. revert outs.
    induction raws as [|r t IH]; intros [|k outs] H; cbn in *; try discriminate; [reflexivity|].
    f_equal. apply IH. lia.
  Qed.

  (* such orders exist: the optimized graph's order followed by the alias keys schedules the
     pinned graph *)
  Theorem pinned_topological : forall g o raws outs,
    topological (dep_graph g) o ->
    (forall k, In k outs -> defined (dep_graph g) k) ->
    NoDup raws -> (forall r, In r raws -> ~ defined (dep_graph g) r) ->
    length raws = length outs ->
    topological (dep_graph (pinned dflt g raws outs)) (o ++ raws).
  Proof.
    intros g o raws outs (Hndo & Hkeys & Hdeps) Houts Hndr Hfresh Hlen.
    assert (Hdef : forall k, defined (dep_graph (pinned dflt g raws outs)) k <-> defined (dep_graph g) k \/ In k raws).
    { intro k. unfold defined. rewrite !dep_graph_keys. unfold pinned.
      rewrite map_app, in_app_iff, (alias_keys raws outs Hlen). reflexivity. }
    assert (Hdisj : forall x, In x o -> ~ In x raws).
    { intros x Hx Hr. apply (Hfresh x Hr). apply Hkeys. exact Hx. }
    split; [|split].
    - apply NoDup_app_intro; assumption.
    - intro k. rewrite in_app_iff, Hdef, Hkeys. reflexivity.
    - intros pre k post ds E Hin. unfold dep_graph, pinned in Hin. rewrite map_app, in_app_iff in Hin.
      destruct Hin as [Hin|Hin].
      + assert (Hk : In k o) by (apply Hkeys; apply (in_keys _ _ _ Hin)).
        destruct (app_split_l _ _ _ _ _ E (Hdisj k Hk)) as [post' E'].
        apply (Hdeps pre k post' ds E' Hin).
      + rewrite map_map in Hin. apply in_map_iff in Hin. destruct Hin as [[r k0] [E0 Hrk]].
        cbn in E0. inversion E0; subst k ds.
        assert (Hr : In r raws) by (apply in_combine_l in Hrk; exact Hrk).
        assert (Hno : ~ In r o) by (intro Ho; apply (Hdisj r Ho Hr)).
        destruct (app_split_r _ _ _ _ _ E Hno) as [pre' E'].
        intros d [Hd|[]]. subst d. rewrite E'. apply in_or_app. left.
        apply Hkeys. apply Houts. apply in_combine_r in Hrk. exact Hrk.
  Qed.

  Theorem pinned_nodup : forall g raws outs,
    NoDup (map (@t_key V) g) -> NoDup raws ->
    (forall r, In r raws -> ~ defined (dep_graph g) r) -> length raws = length outs ->
    NoDup (map (@t_key V) (pinned dflt g raws outs)).
  Proof.
    intros g raws outs Hnd Hndr Hfresh Hlen. unfold pinned. rewrite map_app, (alias_keys raws outs Hlen).
    apply NoDup_app_intro; [assumption | assumption |].
    intros x Hx Hr. apply (Hfresh x Hr). unfold defined. rewrite dep_graph_keys. exact Hx.
  Qed.
End EntryPointFacts.
