(* Mutation.v — in-place operations on collections (C11): definitions only.

   Anchors in /repo:
     dask_array/_collection.py   Array._replace_expr, __setitem__, compute_chunk_sizes, compute /
                                 _pinned / _lowered_expr / _lowered_expr_optimize_graph,
                                 _cached_dask_keys, optimize, __getitem__ (x[:] is x), astype
     dask_array/_core_utils.py   handle_out  (ufunc out=)
     dask_array/slicing/_setitem.py  SetItem

   Expressions are IMMUTABLE values (terms); a collection (Python `Array` object) is a mutable
   cell holding one expression plus the derived caches that live in its __dict__.  User-level
   variables are HANDLES: an index into the list of Python objects; two handles may denote the
   same object (the identity-returning derivations x[:], x[...], asarray(x), astype(same dtype)
   return `self`). *)
From Coq Require Import List Bool ZArith PArith Lia.
From DA Require Import PyBase.
Import ListNotations.
Open Scope Z_scope.

(* derivation kinds used by the histories *)
Inductive dkind :=
| DSliceAll      (* x[:]                 -> self *)
| DEllipsis      (* x[...]               -> self *)
| DAsarray       (* asarray(x)           -> self *)
| DAstypeSame    (* x.astype(x.dtype)    -> self *)
| DAdd1          (* x + 1 *)
| DUAdd1         (* da.add(x, 1) *)
| DNeg           (* -x *)
| DStep2.        (* x[::2] *)

Definition identity_returning (k : dkind) : bool :=
  match k with DSliceAll | DEllipsis | DAsarray | DAstypeSame => true | _ => false end.

Definition dkind_eqb (a b : dkind) : bool :=
  match a, b with
  | DSliceAll, DSliceAll | DEllipsis, DEllipsis | DAsarray, DAsarray | DAstypeSame, DAstypeSame
  | DAdd1, DAdd1 | DUAdd1, DUAdd1 | DNeg, DNeg | DStep2, DStep2 => true
  | _, _ => false
  end.

Inductive expr :=
| ESrc (id : positive)                       (* from_array(source) *)
| EDer (k : dkind) (e : expr)                (* a pure operation over e *)
| ESetItem (e : expr) (kid vid : positive)   (* SetItem(e, key, value) *)
| EWhere (e : expr) (t v : Z)                (* where(e > t, v, e): x[x > t] = v *)
| EChunks (e : expr)                         (* ChunksOverride(e, computed chunks) *)
| EOut (src dst : expr)                      (* Elemwise(add, src, 1, out=dst): `out` is an operand *)
| ELower (o : positive).                     (* _lower(e).fuse() when that renames the root; o = its
                                                (oracle) name: lowering is not modelled here *)

Fixpoint expr_eqb (a b : expr) : bool :=
  match a, b with
  | ESrc x, ESrc y => Pos.eqb x y
  | EDer k e, EDer k' e' => dkind_eqb k k' && expr_eqb e e'
  | ESetItem e k v, ESetItem e' k' v' => expr_eqb e e' && Pos.eqb k k' && Pos.eqb v v'
  | EWhere e t v, EWhere e' t' v' => expr_eqb e e' && (t =? t') && (v =? v')
  | EChunks e, EChunks e' => expr_eqb e e'
  | EOut a b, EOut a' b' => expr_eqb a a' && expr_eqb b b'
  | ELower o, ELower o' => Pos.eqb o o'
  | _, _ => false
  end.

(* `_lowered_expr` = _materialize(expr, optimize_graph=flag): the free constructor *)
Inductive lowered := Mat (e : expr) (optimize_graph : bool).

(* one Array object: its expression and what is in its __dict__ besides `_expr` *)
Record coll := {
  c_expr : expr;
  c_low : option lowered;          (* _lowered_expr *)
  c_flag : option bool;            (* _lowered_expr_optimize_graph *)
  c_keys : option expr;            (* _cached_dask_keys, built from (name, chunks) of this expr *)
  c_opt : bool }.                  (* _optimized *)

Definition fresh (e : expr) : coll :=
  {| c_expr := e; c_low := None; c_flag := None; c_keys := None; c_opt := false |}.

(* Array._replace_expr: swap the expression, pop _lowered_expr, _lowered_expr_optimize_graph,
   _cached_dask_keys (and nothing else: `_optimized` stays) *)
Definition replace_expr (c : coll) (e : expr) : coll :=
  {| c_expr := e; c_low := None; c_flag := None; c_keys := None; c_opt := c_opt c |}.

(* cached_property _lowered_expr (reads cached_property _lowered_expr_optimize_graph, which
   reads the configuration the first time) *)
Definition materialize (c : coll) (cfg : bool) : coll :=
  let flag := match c_flag c with Some f => f | None => cfg end in
  {| c_expr := c_expr c;
     c_low := match c_low c with Some l => Some l | None => Some (Mat (c_expr c) flag) end;
     c_flag := Some flag; c_keys := c_keys c; c_opt := c_opt c |}.

Definition cache_keys (c : coll) : coll :=
  {| c_expr := c_expr c; c_low := c_low c; c_flag := c_flag c;
     c_keys := match c_keys c with Some k => Some k | None => Some (c_expr c) end; c_opt := c_opt c |}.

(* Array.optimize(): a NEW collection over the optimized expression with pre-filled caches
   (or self when `_optimized` is set) *)
Definition optimized (c : coll) (o : option positive) : coll :=
  let e := match o with Some n => ELower n | None => c_expr c end in
  {| c_expr := e; c_low := Some (Mat e true); c_flag := Some true; c_keys := None; c_opt := true |}.

Record state := { handles : list nat; colls : list coll }.

Definition init (src : positive) : state :=
  {| handles := [0%nat]; colls := [fresh (ESrc src)] |}.

Inductive op :=
| Derive (h : nat) (k : dkind)               (* y = f(x) *)
| SetItem (h : nat) (kid vid : positive)     (* x[key] = value *)
| SetMask (h : nat) (t v : Z)                (* x[x > t] = v *)
| UfuncOut (src dst : nat)                   (* da.add(x, 1, out=y) *)
| ComputeChunkSizes (h : nat)                (* x.compute_chunk_sizes() *)
| Compute (h : nat) (cfg : bool)             (* x.compute() under array.optimize-graph = cfg *)
| Keys (h : nat)                             (* x.__dask_keys__() *)
| Optimize (h : nat) (o : option positive).  (* y = x.optimize(); o = None: the root kept its name *)

Definition coll_of (st : state) (h : nat) : option nat := nth_error (handles st) h.

Definition get_coll (st : state) (c : nat) : option coll := nth_error (colls st) c.

Fixpoint set_nth {A} (l : list A) (i : nat) (x : A) : list A :=
  match l, i with
  | [], _ => []
  | _ :: t, O => x :: t
  | y :: t, S j => y :: set_nth t j x
  end.

Definition update (st : state) (c : nat) (f : coll -> coll) : state :=
  match get_coll st c with
  | Some x => {| handles := handles st; colls := set_nth (colls st) c (f x) |}
  | None => st
  end.

(* a new Python object, bound to a new handle *)
Definition new_object (st : state) (x : coll) : state :=
  {| handles := handles st ++ [length (colls st)]; colls := colls st ++ [x] |}.

(* a new handle for an existing object *)
Definition new_alias (st : state) (c : nat) : state :=
  {| handles := handles st ++ [c]; colls := colls st |}.

(* the collection an op MUTATES (None: it only creates objects) *)
Definition target (st : state) (o : op) : option nat :=
  match o with
  | Derive _ _ => None
  | Optimize _ _ => None
  | SetItem h _ _ | SetMask h _ _ | ComputeChunkSizes h | Compute h _ | Keys h => coll_of st h
  | UfuncOut _ dst => coll_of st dst
  end.

Definition step (st : state) (o : op) : state :=
  match o with
  | Derive h k =>
    match coll_of st h with
    | None => st
    | Some c =>
      if identity_returning k then new_alias st c
      else match get_coll st c with
           | Some x => new_object st (fresh (EDer k (c_expr x)))     (* captures x's CURRENT expression *)
           | None => st
           end
    end
  | SetItem h kid vid =>
    match coll_of st h with
    | Some c => update st c (fun x => replace_expr x (ESetItem (c_expr x) kid vid))
    | None => st
    end
  | SetMask h t v =>
    match coll_of st h with
    | Some c => update st c (fun x => replace_expr x (EWhere (c_expr x) t v))
    | None => st
    end
  | UfuncOut src dst =>
    match coll_of st src, coll_of st dst with
    | Some cs, Some cd =>
      match get_coll st cs with
      | Some xs => update st cd (fun x => replace_expr x (EOut (c_expr xs) (c_expr x)))
      | None => st
      end
    | _, _ => st
    end
  | ComputeChunkSizes h =>
    match coll_of st h with
    | Some c => update st c (fun x => replace_expr x (EChunks (c_expr x)))
    | None => st
    end
  | Compute h cfg =>
    match coll_of st h with
    | Some c => update st c (fun x => materialize x cfg)
    | None => st
    end
  | Keys h =>
    match coll_of st h with
    | Some c => update st c cache_keys
    | None => st
    end
  | Optimize h o =>
    match coll_of st h with
    | None => st
    | Some c =>
      match get_coll st c with
      | Some x => if c_opt x then new_alias st c else new_object st (optimized x o)
      | None => st
      end
    end
  end.

Definition run (ops : list op) (st : state) : state := fold_left step ops st.

(* ---- specification side ---- *)

(* every cache present in the object's __dict__ was derived from its CURRENT expression *)
Definition coherent (c : coll) : Prop :=
  (forall e f, c_low c = Some (Mat e f) -> e = c_expr c /\ c_flag c = Some f) /\
  (forall e, c_keys c = Some e -> e = c_expr c).

Definition coherent_b (c : coll) : bool :=
  match c_low c with
  | Some (Mat e f) => expr_eqb e (c_expr c) && match c_flag c with Some f' => Bool.eqb f f' | None => false end
  | None => true
  end &&
  match c_keys c with Some e => expr_eqb e (c_expr c) | None => true end.

(* the collection whose EXPRESSION an op replaces *)
Definition expr_target (st : state) (o : op) : option nat :=
  match o with
  | SetItem h _ _ | SetMask h _ _ | ComputeChunkSizes h => coll_of st h
  | UfuncOut _ dst => coll_of st dst
  | _ => None
  end.

Definition expr_of (st : state) (c : nat) : option expr :=
  match get_coll st c with Some x => Some (c_expr x) | None => None end.

(* no op of the history replaces c's expression (through any handle bound to c) *)
Fixpoint expr_untouched (c : nat) (ops : list op) (st : state) : Prop :=
  match ops with
  | [] => True
  | o :: t => expr_target st o <> Some c /\ expr_untouched c t (step st o)
  end.

(* the `_optimized` marker means: "my expression is already optimized" *)
Definition optimized_flag_ok (c : coll) : Prop :=
  c_opt c = true -> exists l f, c_low c = Some (Mat l f) /\ l = c_expr c.

(* ---- what the correspondence check observes of a state: per handle
        (first handle bound to the same object, has _lowered_expr, has _lowered_expr_optimize_graph,
         has _cached_dask_keys, has _optimized) and the expression ---- *)
Fixpoint first_index (x : nat) (l : list nat) (i : nat) : nat :=
  match l with
  | [] => i
  | y :: t => if Nat.eqb x y then i else first_index x t (S i)
  end.

Definition is_some {A} (o : option A) : bool := match o with Some _ => true | None => false end.

Definition observe (st : state) : list (nat * (bool * bool * bool * bool) * option expr) :=
  map (fun c =>
         match get_coll st c with
         | Some x => (first_index c (handles st) 0,
                      (is_some (c_low x), is_some (c_flag x), is_some (c_keys x), c_opt x), Some (c_expr x))
         | None => (0%nat, (false, false, false, false), None)
         end) (handles st).

Fixpoint trace (ops : list op) (st : state) : list (list (nat * (bool * bool * bool * bool) * option expr)) :=
  match ops with
  | [] => []
  | o :: t => let st' := step st o in observe st' :: trace t st'
  end.

(* the observed trace: per step, per handle (object index, cache flags, id of expr._name);
   expression names must be related to the model's expressions by a bijection over the whole trace *)
Definition obs := (nat * (bool * bool * bool * bool) * Z)%type.

Definition flags_eqb (a b : bool * bool * bool * bool) : bool :=
  let '(a1, a2, a3, a4) := a in let '(b1, b2, b3, b4) := b in
  Bool.eqb a1 b1 && Bool.eqb a2 b2 && Bool.eqb a3 b3 && Bool.eqb a4 b4.

Fixpoint shape_eqb (m : list (nat * (bool * bool * bool * bool) * option expr)) (r : list obs) : bool :=
  match m, r with
  | [], [] => true
  | (i, f, Some _) :: m', (j, g, _) :: r' => Nat.eqb i j && flags_eqb f g && shape_eqb m' r'
  | _, _ => false
  end.

Fixpoint pair_up (m : list (nat * (bool * bool * bool * bool) * option expr)) (r : list obs) : list (expr * Z) :=
  match m, r with
  | (_, _, Some e) :: m', (_, _, n) :: r' => (e, n) :: pair_up m' r'
  | _, _ => []
  end.

Definition iso_b (ps : list (expr * Z)) : bool :=
  forallb (fun p => forallb (fun q => Bool.eqb (expr_eqb (fst p) (fst q)) (snd p =? snd q)) ps) ps.

Fixpoint traces_shape (m : list (list (nat * (bool * bool * bool * bool) * option expr))) (r : list (list obs)) : bool :=
  match m, r with
  | [], [] => true
  | a :: m', b :: r' => shape_eqb a b && traces_shape m' r'
  | _, _ => false
  end.

Definition trace_ok (src : positive) (ops : list op) (real : list (list obs)) : bool :=
  let m := trace ops (init src) in
  traces_shape m real && iso_b (concat (map (fun ab => pair_up (fst ab) (snd ab)) (combine m real))).

(* ---- 1-D denotation of assignment with a basic slice key (NumPy semantics) ----
   x[k] = v  with  v  a scalar (broadcast) or a sequence of the selected length *)
Fixpoint list_upd (l : list Z) (p : nat) (v : Z) : list Z :=
  match l, p with
  | [], _ => []
  | _ :: t, O => v :: t
  | y :: t, S q => y :: list_upd t q v
  end.

Inductive value := Scalar (v : Z) | Seq (vs : list Z).

Definition value_at (v : value) (i : nat) : Z :=
  match v with Scalar c => c | Seq vs => nth i vs 0 end.

Definition value_fits (v : value) (m : nat) : bool :=
  match v with Scalar _ => true | Seq vs => Nat.eqb (length vs) m end.

(* assign the i-th selected position the i-th value, left to right *)
Fixpoint assign (x : list Z) (ps : list Z) (v : value) (i : nat) : list Z :=
  match ps with
  | [] => x
  | p :: t => assign (list_upd x (Z.to_nat p) (value_at v i)) t v (S i)
  end.

Definition setitem_den (x : list Z) (k : pslice) (v : value) : list Z :=
  assign x (sel k (Z.of_nat (length x))) v 0.
