(* Facts about the metadata-inference model (MetaModel.v). *)
From DA Require Import PyBase PyBaseFacts MetaModel.
From Coq Require Import ZifyBool.
Open Scope Z_scope.

Ltac Zify.zify_post_hook ::= Z.to_euclidean_division_equations.

(* ------------------------------------------------------------------ *)
(* slice(0, 0, None) selects nothing from an axis of ANY length (no sign hypothesis) *)
Lemma slice_len_empty_slice n : slice_len empty_slice n = 0.
Proof.
  unfold slice_len, indices, empty_slice, step_of, adjust_endpoint. cbn [s_start s_stop s_step].
  change (0 <? 0) with false. change (1 <? 0) with false. cbv iota.
  destruct (0 >=? n) eqn:E; unfold range_len; change (1 >? 0) with true; cbv iota;
    rewrite Z.ltb_irrefl; reflexivity.
Qed.

Lemma zprod_cons x l : zprod (x :: l) = x * zprod l.
Proof. reflexivity. Qed.

Lemma zprod_nil : zprod [] = 1.
Proof. reflexivity. Qed.

Lemma zprod_repeat0 n : n <> 0%nat -> zprod (repeat 0 n) = 0.
Proof. intros H. destruct n as [|n]; [congruence|]. cbn [repeat]. rewrite zprod_cons. lia. Qed.

Lemma selection_shape_meta_index shape :
  selection_shape (meta_index (length shape)) shape = repeat 0 (length shape).
Proof.
  induction shape as [|n t IH]; [reflexivity|].
  unfold meta_index in *. cbn [length repeat selection_shape].
  rewrite slice_len_empty_slice, IH. reflexivity.
Qed.

Lemma selection_size_meta_index shape :
  shape <> [] -> selection_size (meta_index (length shape)) shape = 0.
Proof.
  intros H. unfold selection_size. rewrite selection_shape_meta_index.
  apply zprod_repeat0. destruct shape; [congruence|discriminate].
Qed.

Lemma selection_size_zero_dim : selection_size (meta_index (length (@nil Z))) [] = 1.
Proof. reflexivity. Qed.

Lemma zero_dim_source_refuted :
  exists shape : list Z, selection_size (meta_index (length shape)) shape = 1.
Proof. exists []. reflexivity. Qed.

(* a request for a source of dimension >= 1 is never the 0-d request and vice versa *)
Lemma meta_from_array_requests_spec xndim :
  meta_from_array_requests xndim = [meta_index xndim] /\ length (meta_index xndim) = xndim.
Proof. split; [reflexivity|]. unfold meta_index. apply repeat_length. Qed.

(* ------------------------------------------------------------------ *)
(* the shape of meta_from_array's result *)
Lemma meta_from_array_shape_gen_spec r xshape ndim :
  meta_from_array_shape_gen r xshape ndim = repeat 0 (target_ndim xshape ndim).
Proof.
  unfold meta_from_array_shape_gen, target_ndim.
  set (nd := match ndim with None => length xshape | Some n => n end).
  destruct r; [reflexivity|].
  rewrite selection_shape_meta_index. rewrite repeat_length.
  destruct (Nat.eqb (length xshape) nd) eqn:E1.
  - apply Nat.eqb_eq in E1. rewrite E1. reflexivity.
  - destruct (Nat.ltb (length xshape) nd) eqn:E2.
    + apply Nat.ltb_lt in E2.
      unfold np_add_trailing_axes.
      set (m1 := repeat 0 (length xshape) ++ repeat 1 (nd - length xshape)).
      assert (Hlen : length m1 = nd).
      { unfold m1. rewrite app_length, !repeat_length. lia. }
      rewrite selection_shape_meta_index, Hlen. reflexivity.
    + destruct (Nat.eqb nd 0) eqn:E3.
      * apply Nat.eqb_eq in E3. rewrite E3. reflexivity.
      * unfold np_reshape. destruct (zprod (repeat 0 (length xshape)) =? zprod (repeat 0 nd)); reflexivity.
Qed.

Lemma meta_from_array_shape_spec xshape ndim :
  meta_from_array_shape xshape ndim = repeat 0 (target_ndim xshape ndim).
Proof. apply meta_from_array_shape_gen_spec. Qed.

Lemma meta_shape_all r xshape ndim :
  meta_from_array_shape_gen r xshape ndim = repeat 0 (target_ndim xshape ndim) /\
  (target_ndim xshape ndim <> 0%nat -> zprod (meta_from_array_shape_gen r xshape ndim) = 0).
Proof.
  rewrite meta_from_array_shape_gen_spec. split; [reflexivity|]. apply zprod_repeat0.
Qed.

Lemma zero_dim_meta_one_element r xshape ndim :
  target_ndim xshape ndim = 0%nat ->
  meta_from_array_shape_gen r xshape ndim = [] /\ zprod (meta_from_array_shape_gen r xshape ndim) = 1.
Proof. intros H. rewrite meta_from_array_shape_gen_spec, H. split; reflexivity. Qed.

Lemma from_array_meta_spec xshape :
  from_array_meta_requests (length xshape) = [meta_index (length xshape)] /\
  from_array_meta_shape xshape = repeat 0 (length xshape).
Proof. split; [reflexivity|]. unfold from_array_meta_shape. rewrite meta_from_array_shape_spec. reflexivity. Qed.

(* ------------------------------------------------------------------ *)
(* compute_meta *)

Lemma arg_meta_spec a : arg_meta a = arg_call_shape a.
Proof.
  destruct a as [sh|sh|sh|]; cbn [arg_meta arg_call_shape]; try reflexivity;
    rewrite meta_from_array_shape_spec; reflexivity.
Qed.

Lemma sizes_of_repeat0 n :
  (repeat 0 n <> [] -> zprod (repeat 0 n) = 0) /\ (repeat 0 n = [] -> zprod (repeat 0 n) = 1).
Proof.
  split.
  - intros Hn. apply zprod_repeat0. intros ->. apply Hn. reflexivity.
  - intros ->. reflexivity.
Qed.

Lemma arg_meta_size a sh :
  (forall m, a = MExprArg m -> m <> [] -> zprod m = 0) ->
  arg_meta a = Some sh -> (sh <> [] -> zprod sh = 0) /\ (sh = [] -> zprod sh = 1).
Proof.
  intros Hm. rewrite arg_meta_spec.
  destruct a as [m|m|m|]; cbn [arg_call_shape]; intros H; try discriminate; injection H as <-.
  - split; [apply Hm; reflexivity | intros ->; reflexivity].
  - apply sizes_of_repeat0.
  - apply sizes_of_repeat0.
Qed.

Lemma compute_meta_one_call args kwargs :
  exists call, compute_meta_calls args kwargs = [call] /\
    length (fst call) = length args /\ length (snd call) = length kwargs.
Proof.
  eexists. split; [reflexivity|]. cbn [fst snd]. rewrite !map_length. split; reflexivity.
Qed.

Lemma compute_meta_call_shapes args kwargs :
  compute_meta_calls args kwargs = [(map arg_call_shape args, map arg_call_shape kwargs)].
Proof.
  unfold compute_meta_calls. f_equal. f_equal; apply map_ext; apply arg_meta_spec.
Qed.

Lemma compute_meta_calls_on_empty args kwargs call sh :
  (forall m, In (MExprArg m) (args ++ kwargs) -> m <> [] -> zprod m = 0) ->
  In call (compute_meta_calls args kwargs) ->
  In (Some sh) (fst call ++ snd call) ->
  (sh <> [] -> zprod sh = 0) /\ (sh = [] -> zprod sh = 1).
Proof.
  intros Hm Hc Hs. destruct Hc as [<-|[]]. cbn [fst snd] in Hs.
  rewrite <- map_app in Hs. apply in_map_iff in Hs. destruct Hs as [a [Ha Hin]].
  eapply arg_meta_size; [|eassumption].
  intros m ->. apply Hm. exact Hin.
Qed.

(* array-likes and collections are normalised whatever their shape: no hypothesis *)
Lemma compute_meta_arraylike_normalised args kwargs call i sh :
  In call (compute_meta_calls args kwargs) ->
  (nth_error (args ++ kwargs) i = Some (MArrayLike sh) \/ nth_error (args ++ kwargs) i = Some (MCollection sh)) ->
  nth_error (fst call ++ snd call) i = Some (Some (repeat 0 (length sh))).
Proof.
  intros Hc H. rewrite compute_meta_call_shapes in Hc. destruct Hc as [<-|[]]. cbn [fst snd].
  rewrite <- map_app, nth_error_map. destruct H as [-> | ->]; reflexivity.
Qed.

Lemma compute_meta_expr_meta_refuted :
  exists args kwargs call sh, compute_meta_calls args kwargs = [call] /\
    In (Some sh) (fst call) /\ sh <> [] /\ zprod sh = 1.
Proof.
  exists [MExprArg [1]], [], ([Some [1]], []), [1]. repeat split.
  - left. reflexivity.
  - discriminate.
Qed.

Lemma compute_meta_requests_spec args kwargs i a :
  nth_error (args ++ kwargs) i = Some a ->
  nth_error (compute_meta_requests args kwargs) i =
    Some (match a with MArrayLike sh => [meta_index (length sh)] | _ => [] end).
Proof.
  intros H. unfold compute_meta_requests. rewrite <- map_app.
  rewrite nth_error_map, H. cbn [option_map]. destruct a; reflexivity.
Qed.

Lemma compute_meta_requests_empty args kwargs reqs idx :
  In reqs (compute_meta_requests args kwargs) -> In idx reqs ->
  exists shape, In (MArrayLike shape) (args ++ kwargs) /\ idx = meta_index (length shape) /\
    (shape <> [] -> selection_size idx shape = 0) /\ (shape = [] -> selection_size idx shape = 1).
Proof.
  unfold compute_meta_requests. rewrite <- map_app. intros Hr Hi.
  apply in_map_iff in Hr. destruct Hr as [a [Ha Hin]].
  destruct a as [m|m|sh|]; cbn [arg_requests] in Ha; subst reqs; try (destruct Hi; fail).
  unfold meta_from_array_requests in Hi. destruct Hi as [<-|[]].
  exists sh. split; [exact Hin|]. split; [reflexivity|]. split.
  - apply selection_size_meta_index.
  - intros ->. reflexivity.
Qed.

Lemma compute_meta_zero_dim_arg :
  exists args kwargs call, compute_meta_calls args kwargs = [call] /\
    In (Some []) (fst call) /\ zprod [] = 1.
Proof. exists [MExprArg []], [], ([Some []], []). repeat split. left. reflexivity. Qed.

(* ------------------------------------------------------------------ *)
(* parametricity of metadata in the toy language (true by construction) *)
Lemma eval_meta_of e env : a_meta (eval e env) = meta_of e (fun i => src_meta (env i)).
Proof.
  induction e as [id|e IH|e1 IH1 e2 IH2|s e IH|e IH|c e IH]; cbn [eval meta_of a_meta];
    try rewrite IH; try rewrite IH1; try rewrite IH2; reflexivity.
Qed.

Lemma meta_of_ext e m1 m2 : (forall i, m1 i = m2 i) -> meta_of e m1 = meta_of e m2.
Proof.
  intros H. induction e as [id|e IH|e1 IH1 e2 IH2|s e IH|e IH|c e IH]; cbn [meta_of];
    try rewrite IH; try rewrite IH1; try rewrite IH2; try reflexivity. apply H.
Qed.

Lemma metadata_parametric e env1 env2 :
  (forall i, src_meta (env1 i) = src_meta (env2 i)) ->
  a_meta (eval e env1) = a_meta (eval e env2) /\
  a_meta (eval e env1) = meta_of e (fun i => src_meta (env1 i)).
Proof.
  intros H. split; [|apply eval_meta_of].
  rewrite !eval_meta_of. apply meta_of_ext. exact H.
Qed.
