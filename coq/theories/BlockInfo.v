(* L1 — model of the block_info / block_id payload construction of
   dask_array/_map_blocks.py (map_blocks), of the chunk rule of the Blockwise it
   builds (dask_array/_blockwise.py, Blockwise.chunks with align_arrays=False,
   _compute_block_id), of ChunksFreeze.lower_once / _chunks_match and of the
   grid-preservation gate (_preserve_grid_contract, _requires_grid_preservation)
   in dask_array/_expr.py.  Definitions only; proofs in BlockInfoFacts.v. *)
From DA Require Export PyBase Rechunk.
Open Scope Z_scope.

(* ------------------------------------------------------------------ *)
(* small Python containers *)

(* list(range(n)) *)
Definition zseq (n : nat) : list Z := map Z.of_nat (seq 0 n).

(* tuple(range(n))[::-1] *)
Definition rev_range (n : nat) : list Z := rev (zseq n).

(* l[i] for an index that is never negative here (block ids come from range());
   None = IndexError *)
Definition nth_errorZ {A} (l : list A) (i : Z) : option A :=
  if i <? 0 then None else nth_error l (Z.to_nat i).

(* t[i] with Python's negative-index wrap; None = IndexError *)
Definition py_index {A} (l : list A) (i : Z) : option A :=
  let n := lenZ' l in
  let i' := if i <? 0 then i + n else i in
  if (i' <? 0) || (i' >=? n) then None else nth_error l (Z.to_nat i').

(* list.insert(i, x) *)
Definition py_insert {A} (l : list A) (i : Z) (x : A) : list A :=
  let n := lenZ' l in
  let i' := if i <? 0 then Z.max 0 (i + n) else Z.min i n in
  firstn (Z.to_nat i') l ++ x :: skipn (Z.to_nat i') l.

(* sorted(l) *)
Fixpoint zinsert (x : Z) (l : list Z) : list Z :=
  match l with
  | [] => [x]
  | y :: t => if x <=? y then x :: l else y :: zinsert x t
  end.
Fixpoint zsort (l : list Z) : list Z :=
  match l with [] => [] | x :: t => zinsert x (zsort t) end.

(* max(l) of a non-empty list *)
Definition zmax_ne (l : list Z) : Z :=
  match l with [] => 0 | x :: t => fold_right Z.max x t end.

(* a dict with integer keys: association list with unique keys;
   d[k] = v replaces in place or appends; d.get(k) is the (only) match *)
Fixpoint dict_get {A} (k : Z) (d : list (Z * A)) : option A :=
  match d with
  | [] => None
  | (k', v) :: t => if k =? k' then Some v else dict_get k t
  end.
Fixpoint dict_set {A} (k : Z) (v : A) (d : list (Z * A)) : list (Z * A) :=
  match d with
  | [] => [(k, v)]
  | (k', v') :: t => if k =? k' then (k, v) :: t else (k', v') :: dict_set k v t
  end.
Definition zmem (x : Z) (l : list Z) : bool := existsb (Z.eqb x) l.
Definition is_nil {A} (l : list A) : bool := match l with [] => true | _ => false end.

(* itertools.product over the given ranges (lexicographic, last axis fastest) *)
Fixpoint product (ranges : list (list Z)) : list (list Z) :=
  match ranges with
  | [] => [[]]
  | r :: rs => flat_map (fun x => map (cons x) (product rs)) r
  end.

(* itertools.product of range(len(c)) for c in chunks *)
Definition block_ids (chunks : chunksN) : list (list Z) :=
  product (map (fun c => zseq (length c)) chunks).

(* sequence-of-options -> option-of-sequence *)
Fixpoint all_some {A} (l : list (option A)) : option (list A) :=
  match l with
  | [] => Some []
  | None :: _ => None
  | Some x :: t => option_map (cons x) (all_some t)
  end.

(* ------------------------------------------------------------------ *)
(* per axis: (starts[j], starts[j + 1]) with starts = cached_cumsum(c, initial_zero=True) *)
Definition loc_of_starts (starts : list Z) (j : Z) : option (Z * Z) :=
  match nth_errorZ starts j, nth_errorZ starts (j + 1) with
  | Some a, Some b => Some (a, b)
  | _, _ => None
  end.

Definition array_location (cs : list Z) (j : Z) : option (Z * Z) := loc_of_starts (cum0 cs) j.

(* the same, total (what the theorems talk about) *)
Definition array_location_t (cs : list Z) (j : Z) : Z * Z := (nthZ (cum0 cs) j, nthZ (cum0 cs) (j + 1)).

(* ------------------------------------------------------------------ *)
(* map_blocks: index bookkeeping *)

Inductive mberr := MBValueError | MBIndexError | MBKeyError.
Inductive mres (A : Type) := MOk (a : A) | MErr (e : mberr).
Arguments MOk {A}. Arguments MErr {A}.

Definition mbind {A B} (x : mres A) (f : A -> mres B) : mres B :=
  match x with MOk a => f a | MErr e => MErr e end.

(* an entry of the chunks= argument / a value of new_axes *)
Inductive cspec := CInt (c : Z) | CTup (cs : list Z).

(* get_argpair: an array argument of rank r gets ind = tuple(range(r))[::-1];
   any other argument gets None.  Arguments are given by their chunks. *)
Definition arg_ind (a : option chunksN) : option (list Z) :=
  option_map (fun c => rev_range (length c)) a.

(* out_ind = tuple(range(max(a.ndim for a in arrs)))[::-1]  (or () without arrays) *)
Definition max_ndim (args : list (option chunksN)) : nat :=
  fold_right Nat.max O (map (fun a => match a with Some c => length c | None => O end) args).

(* if drop_axis: range check, i % ndim_out, filter positions *)
Definition apply_drop (out_ind : list Z) (drop : list Z) : mres (list Z * list Z) :=
  match drop with
  | [] => MOk (out_ind, [])
  | _ =>
      let nd := lenZ' out_ind in
      if existsb (fun i => (i <? - nd) || (i >=? nd)) drop then MErr MBValueError
      else
        let drop' := map (fun i => i mod nd) drop in
        MOk (map snd (filter (fun p => negb (zmem (fst p) drop')) (combine (zseq (length out_ind)) out_ind)), drop')
  end.

(* for ax in sorted(new_axis): n = len(out_ind) + len(drop_axis); out_ind.insert(ax, n);
   new_axes[n] = chunks[ax] if chunks is not None else 1 *)
Fixpoint new_axis_loop (axs : list Z) (out_ind : list Z) (ndrop : Z) (chunks : option (list cspec))
         (new_axes : list (Z * cspec)) : mres (list Z * list (Z * cspec)) :=
  match axs with
  | [] => MOk (out_ind, new_axes)
  | ax :: t =>
      let n := lenZ' out_ind + ndrop in
      let out_ind' := py_insert out_ind ax n in
      match chunks with
      | Some cs =>
          match py_index cs ax with
          | Some v => new_axis_loop t out_ind' ndrop chunks (dict_set n v new_axes)
          | None => MErr MBIndexError
          end
      | None => new_axis_loop t out_ind' ndrop chunks (dict_set n (CInt 1) new_axes)
      end
  end.

Definition apply_new (out_ind : list Z) (ndrop : Z) (new_axis : option (list Z)) (chunks : option (list cspec))
  : mres (list Z * list (Z * cspec)) :=
  (* if new_axis is None and chunks is not None and len(out_ind) < len(chunks):
         new_axis = range(len(chunks) - len(out_ind)) *)
  let new_axis :=
    match new_axis, chunks with
    | None, Some cs => if lenZ' out_ind <? lenZ' cs then zseq (length cs - length out_ind)%nat else []
    | None, None => []
    | Some l, _ => l
    end in
  match new_axis with
  | [] => MOk (out_ind, [])
  | _ =>
      mbind (new_axis_loop (zsort new_axis) out_ind ndrop chunks [])
        (fun r => let '(oi, na) := r in
                  if zmax_ne new_axis >? zmax_ne oi then MErr MBValueError else MOk (oi, na))
  end.

Record mb_index := mk_mb_index {
  mbi_out_ind : list Z;
  mbi_drop : list Z;                   (* normalised drop_axis *)
  mbi_new_axes : list (Z * cspec) }.

Definition mb_indices (args : list (option chunksN)) (drop : list Z) (new_axis : option (list Z))
           (chunks : option (list cspec)) : mres mb_index :=
  let out_ind0 := rev_range (max_ndim args) in
  mbind (apply_drop out_ind0 drop) (fun r1 =>
  let '(oi1, drop') := r1 in
  mbind (apply_new oi1 (lenZ' drop') new_axis chunks) (fun r2 =>
  let '(oi2, na) := r2 in
  MOk (mk_mb_index oi2 drop' na))).

(* ------------------------------------------------------------------ *)
(* the chunks of the Blockwise that map_blocks builds *)

(* for arg, ind in arginds: for c, i in zip(arg.chunks, ind):
       if i not in chunkss or len(c) > len(chunkss[i]): chunkss[i] = c
   (the same loop computes block_chunks in map_blocks) *)
Definition chunkss_step (d : list (Z * list Z)) (ci : list Z * Z) : list (Z * list Z) :=
  let '(c, i) := ci in
  match dict_get i d with
  | None => dict_set i c d
  | Some old => if Nat.ltb (length old) (length c) then dict_set i c d else d
  end.

Definition chunkss_of_args (args : list (option chunksN)) : list (Z * list Z) :=
  fold_left (fun d a => match a with
                        | Some cs => fold_left chunkss_step (combine cs (rev_range (length cs))) d
                        | None => d
                        end) args [].

(* for k, v in new_axes.items(): chunkss[k] = v if isinstance(v, tuple) else (v,) *)
Definition spec_tuple (v : cspec) : list Z := match v with CInt c => [c] | CTup t => t end.

Definition chunkss_full (args : list (option chunksN)) (new_axes : list (Z * cspec)) : list (Z * list Z) :=
  fold_left (fun d kv => dict_set (fst kv) (spec_tuple (snd kv)) d) new_axes (chunkss_of_args args).

(* chunks = [chunkss[i] for i in out_ind] then adjust_chunks (built from chunks=):
   an int c becomes (c,) * len(block_chunks[ind]); a tuple must have as many entries as the
   dimension has blocks, else ValueError("Dimension i has n blocks, adjust_chunks ...") *)
Definition out_axis_chunks (d : list (Z * list Z)) (label : Z) (spec : option cspec) : mres (list Z) :=
  match dict_get label d with
  | None => MErr MBKeyError
  | Some base =>
      match spec with
      | None => MOk base
      | Some (CInt c) => MOk (repeat c (length base))
      | Some (CTup t) => if Nat.eqb (length t) (length base) then MOk t else MErr MBValueError
      end
  end.

Fixpoint mseq {A} (l : list (mres A)) : mres (list A) :=
  match l with
  | [] => MOk []
  | MErr e :: _ => MErr e
  | MOk a :: t => mbind (mseq t) (fun r => MOk (a :: r))
  end.

Definition mb_out_chunks (args : list (option chunksN)) (ix : mb_index) (chunks : option (list cspec)) : mres chunksN :=
  let d := chunkss_full args (mbi_new_axes ix) in
  match chunks with
  | None => mseq (map (fun l => out_axis_chunks d l None) (mbi_out_ind ix))
  | Some specs =>
      if negb (Nat.eqb (length specs) (length (mbi_out_ind ix))) then MErr MBValueError
      else mseq (map (fun p => out_axis_chunks d (fst p) (Some (snd p))) (combine (mbi_out_ind ix) specs))
  end.

(* ------------------------------------------------------------------ *)
(* the block_info payload *)

(* shape, num-chunks, array-location, chunk-location *)
Definition binfo := (list Z * list Z * list (Z * Z) * list Z)%type.
(* block_info[None] additionally has chunk-shape (dtype is not layout and is omitted) *)
Definition oinfo := (binfo * list Z)%type.
(* one value of the ArrayValuesDep: block_id -> {i: info_i ..., None: out info} *)
Definition bentry := (list Z * list (Z * binfo) * oinfo)%type.

(* starts[i] / num_chunks[i] of one array argument *)
Definition arg_starts (cs : chunksN) (dropping : bool) (out_ind : list Z) : list (list Z) :=
  if dropping then
    map (fun p => let '(c, ind) := p in if zmem ind out_ind then cum0 c else [0; zsum c])
        (combine cs (rev_range (length cs)))
  else map cum0 cs.

Definition arg_num_chunks (starts : list (list Z)) : list Z := map (fun s => lenZ' s - 1) starts.

(* info[i] for one array argument at output block `block_id` *)
Definition in_info (cs : chunksN) (dropping : bool) (out_ind : list Z) (block_id : list Z) : option binfo :=
  let starts := arg_starts cs dropping out_ind in
  let nc := arg_num_chunks starts in
  let location := combine out_ind block_id in
  (* arr_k = tuple(location.get(ind, 0) if num_chunks[i][j] > 1 else 0 for j, ind in enumerate(in_ind)) *)
  let arr_k := map (fun p => let '(n, ind) := p in
                             if n >? 1 then match dict_get ind location with Some l => l | None => 0 end else 0)
                   (combine nc (rev_range (length cs))) in
  match all_some (map (fun p => loc_of_starts (fst p) (snd p)) (combine starts arr_k)) with
  | Some al => Some (map zsum cs, nc, al, arr_k)
  | None => None
  end.

(* info[None] *)
Definition out_info (out_chunks : chunksN) (block_id : list Z) : option oinfo :=
  match all_some (map (fun p => array_location (fst p) (snd p)) (combine out_chunks block_id)),
        all_some (map (fun p => nth_errorZ (fst p) (snd p)) (combine out_chunks block_id)) with
  | Some al, Some csh => Some (map zsum out_chunks, map lenZ' out_chunks, al, block_id, csh)
  | _, _ => None
  end.

Fixpoint index_from {A} (i : Z) (l : list A) : list (Z * A) :=
  match l with [] => [] | x :: t => (i, x) :: index_from (i + 1) t end.

Definition block_entry (args : list (option chunksN)) (dropping : bool) (out_ind : list Z) (out_chunks : chunksN)
           (block_id : list Z) : option bentry :=
  let ins := map (fun ia => match snd ia with
                            | Some cs => option_map (fun b => Some (fst ia, b)) (in_info cs dropping out_ind block_id)
                            | None => Some None
                            end) (index_from 0 args) in
  match all_some ins, out_info out_chunks block_id with
  | Some l, Some o =>
      Some (block_id, flat_map (fun x => match x with Some e => [e] | None => [] end) l, o)
  | _, _ => None
  end.

(* the dict handed to ArrayValuesDep(out.chunks, block_info_dict), in insertion order;
   None = the construction raises IndexError (inconsistent block counts) *)
Definition block_info_payload (args : list (option chunksN)) (dropping : bool) (out_ind : list Z)
           (out_chunks : chunksN) : option (list bentry) :=
  all_some (map (block_entry args dropping out_ind out_chunks) (block_ids out_chunks)).

(* the whole construction *)
Definition map_blocks_info (args : list (option chunksN)) (drop : list Z) (new_axis : option (list Z))
           (chunks : option (list cspec)) : mres (list Z * chunksN * list bentry) :=
  mbind (mb_indices args drop new_axis chunks) (fun ix =>
  mbind (mb_out_chunks args ix chunks) (fun oc =>
  match block_info_payload args (negb (is_nil (mbi_drop ix))) (mbi_out_ind ix) oc with
  | Some p => MOk (mbi_out_ind ix, oc, p)
  | None => MErr MBIndexError
  end)).

(* ArrayBlockIdDep(out.chunks): block_id is the output block index itself *)
Definition block_id_payload (out_chunks : chunksN) : list (list Z * list Z) :=
  map (fun b => (b, b)) (block_ids out_chunks).

(* ------------------------------------------------------------------ *)
(* which block of an argument the Blockwise task passes to the function:
   _compute_block_id(ind, idx_to_block, numblocks) with idx_to_block = {out_ind[d]: block_id[d]}
   plus {new axis: 0}.  None = the ValueError branch (contracted dimension with several blocks,
   only reachable with concatenate=False) *)
Definition dep_block_id (cs : chunksN) (out_ind : list Z) (new_labels : list Z) (block_id : list Z) : option (list Z) :=
  let idx_to_block := fold_left (fun d k => dict_set k 0 d) new_labels (combine out_ind block_id) in
  all_some (map (fun p => let '(c, i) := p in
                          match dict_get i idx_to_block with
                          | Some b => Some (b mod lenZ' c)
                          | None => if lenZ' c =? 1 then Some 0 else None
                          end)
                (combine cs (rev_range (length cs)))).

(* ------------------------------------------------------------------ *)
(* ChunksFreeze: chunk sizes may be unknown (nan = None) *)
Definition ochunks := list (list (option Z)).

Definition onan_eqb (a b : option Z) : bool := oZ_eqb a b.

(* _chunks_match(a, b): equality treating nan as matching nan *)
Definition chunks_match (a b : ochunks) : bool :=
  Nat.eqb (length a) (length b) &&
  forallb (fun p => Nat.eqb (length (fst p)) (length (snd p)) &&
                    forallb (fun q => onan_eqb (fst q) (snd q)) (combine (fst p) (snd p)))
          (combine a b).

Definition has_nan (d : list (option Z)) : bool := existsb (fun x => match x with None => true | _ => false end) d.

(* Python sum() over a chunk tuple: nan is absorbing *)
Fixpoint osum (d : list (option Z)) : option Z :=
  match d with
  | [] => Some 0
  | None :: _ => None
  | Some x :: t => match osum t with Some s => Some (x + s) | None => None end
  end.

Definition odim_eqb (a b : list (option Z)) : bool := list_eqb oZ_eqb a b.

(* _validate_rechunk(old, new) for equal ranks: true = accepted *)
Definition validate_rechunk_b (old new : ochunks) : bool :=
  forallb (fun p => let '(o, n) := p in
                    match osum o, osum n with
                    | Some a, Some b => a =? b
                    | None, None => odim_eqb o n
                    | _, _ => false
                    end) (combine old new).

Inductive ferr := FRuntimeError | FValueError.
Inductive freeze_out :=
| FVanish                       (* lowered[name] = the settled array itself *)
| FRechunk (target : ochunks)   (* a Rechunk of the settled array to `target` *)
| FError (e : ferr).

(* ChunksFreeze.lower_once once the child has settled on `settled`:
     if _chunks_match(array.chunks, self._chunks): return array
     if any(isnan(s) ...frozen...): raise RuntimeError
     return array.rechunk(self._chunks)
   where ArrayExpr.rechunk zips the requested chunks with array.chunks (truncating), runs
   normalize_chunks on explicit tuples (rank / empty tuple / negative / sum checks), returns
   `array` itself when the resolved chunks equal array.chunks, and Rechunk.chunks runs
   _validate_rechunk. *)
Definition chunks_freeze_lower (frozen settled : ochunks) : freeze_out :=
  if chunks_match settled frozen then FVanish
  else if existsb has_nan frozen then FError FRuntimeError
  else
    let resolved := firstn (length settled) frozen in
    (* normalize_chunks: `if not chunks and shape and all(s == 0 for s in shape)` *)
    let resolved :=
      if is_nil resolved && negb (is_nil settled) &&
         forallb (fun d => match osum d with Some 0 => true | _ => false end) settled
      then repeat [Some 0] (length settled) else resolved in
    if negb (is_nil settled) && negb (Nat.eqb (length resolved) (length settled)) then FError FValueError
    else if existsb is_nil resolved then FError FValueError
    else if existsb (existsb (fun x => match x with Some v => v <? 0 | None => false end)) resolved then FError FValueError
    else if negb (forallb (fun p => match osum (fst p), osum (snd p) with
                                    | Some c, Some s => c =? s
                                    | _, _ => true
                                    end) (combine resolved settled)) then FError FValueError
    else if list_eqb odim_eqb resolved settled then FVanish
    else if negb (validate_rechunk_b settled resolved) then FError FValueError
    else FRechunk resolved.

(* the layout the consumer of the ChunksFreeze sees after lowering *)
Definition consumer_chunks (settled : ochunks) (o : freeze_out) : option ochunks :=
  match o with
  | FVanish => Some settled
  | FRechunk t => Some t          (* Rechunk(x, t).chunks = t once validated *)
  | FError _ => None
  end.

(* ------------------------------------------------------------------ *)
(* the grid-preservation gate *)

Inductive node_kind := KBlockwise | KElemwiseLike (* a Blockwise subclass *) | KMapBlocksOutput | KOther.

(* node._requires_grid_preservation(dep): Blockwise: `type(self) is Blockwise and not self.align_arrays`;
   MapBlocksOutput: True; ArrayExpr default: False *)
Definition requires_grid (k : node_kind) (align_arrays : bool) : bool :=
  match k with
  | KBlockwise => negb align_arrays
  | KMapBlocksOutput => true
  | KElemwiseLike | KOther => false
  end.

(* _has_grid_sensitive_dependent(parent, dependents) *)
Definition has_grid_sensitive (dependents : list (node_kind * bool)) : bool :=
  existsb (fun d => requires_grid (fst d) (snd d)) dependents.

(* Python `result.chunks != parent.chunks` on tuples of tuples: element comparison is
   `is` or `==`, so two nan entries compare equal exactly when they are the same object;
   that identity is not a function of the values -> oracle `nan_same`. *)
Definition py_dim_eqb (nan_same : bool) (a b : list (option Z)) : bool :=
  list_eqb (fun x y => match x, y with
                       | Some u, Some v => u =? v
                       | None, None => nan_same
                       | _, _ => false
                       end) a b.
Definition py_chunks_eqb (nan_same : bool) (a b : ochunks) : bool := list_eqb (py_dim_eqb nan_same) a b.

(* _preserve_grid_contract(self, parent, result, dependents): `result` is None or an
   expression of which only .chunks is read; self_is_blockwise = isinstance(self, Blockwise) *)
Definition preserve_grid_contract {R} (nan_same : bool) (self_is_blockwise : bool)
           (dependents_of_parent : list (node_kind * bool)) (parent_chunks : ochunks)
           (result : option (R * ochunks)) : option (R * ochunks) :=
  if negb (has_grid_sensitive dependents_of_parent) then result
  else match result with
       | None => None
       | Some (r, rc) =>
           if self_is_blockwise then None
           else if negb (py_chunks_eqb nan_same rc parent_chunks) then None
           else Some (r, rc)
       end.

(* ------------------------------------------------------------------ *)
(* specification side *)

(* intervals tile [a, b) in order *)
Fixpoint tiles_from (a : Z) (l : list (Z * Z)) (b : Z) : Prop :=
  match l with
  | [] => a = b
  | (x, y) :: t => x = a /\ x <= y /\ tiles_from y t b
  end.

Definition in_grid (cs : chunksN) (loc : list Z) : Prop :=
  Forall2 (fun l c => 0 <= l < lenZ' c) loc cs.

(* what the entries should be (total versions, used by the theorems) *)
Definition map2 {A B C} (f : A -> B -> C) (l1 : list A) (l2 : list B) : list C :=
  map (fun p => f (fst p) (snd p)) (combine l1 l2).

Definition out_info_t (oc : chunksN) (bid : list Z) : oinfo :=
  (map zsum oc, map lenZ' oc, map2 array_location_t oc bid, bid, map2 nthZ oc bid).

Definition info_t (cs : chunksN) (bid : list Z) : binfo :=
  (map zsum cs, map lenZ' cs, map2 array_location_t cs bid, bid).

Definition single_entry (cs : chunksN) (bid : list Z) : bentry :=
  (bid, [(0, info_t cs bid)], (info_t cs bid, map2 nthZ cs bid)).

Definition zpair_eqb (a b : Z * Z) : bool := (fst a =? fst b) && (snd a =? snd b).
Definition binfo_eqb (a b : binfo) : bool :=
  let '(s1, n1, al1, cl1) := a in let '(s2, n2, al2, cl2) := b in
  zlist_eqb s1 s2 && zlist_eqb n1 n2 && list_eqb zpair_eqb al1 al2 && zlist_eqb cl1 cl2.
Definition oinfo_eqb (a b : oinfo) : bool := binfo_eqb (fst a) (fst b) && zlist_eqb (snd a) (snd b).
Definition bentry_eqb (a b : bentry) : bool :=
  let '(k1, i1, o1) := a in let '(k2, i2, o2) := b in
  zlist_eqb k1 k2 && list_eqb (fun x y => (fst x =? fst y) && binfo_eqb (snd x) (snd y)) i1 i2 && oinfo_eqb o1 o2.

Definition ochunks_eqb (a b : ochunks) : bool := list_eqb odim_eqb a b.

Definition freeze_out_eqb (a b : freeze_out) : bool :=
  match a, b with
  | FVanish, FVanish => true
  | FRechunk s, FRechunk t => ochunks_eqb s t
  | FError FRuntimeError, FError FRuntimeError => true
  | FError FValueError, FError FValueError => true
  | _, _ => false
  end.
