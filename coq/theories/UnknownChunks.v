(* L1 — models of the code paths that handle UNKNOWN chunk sizes (np.nan entries in
   .chunks): the guards that must refuse an operation needing the sizes, and
   compute_chunk_sizes / ChunksOverride that resolve them.  Definitions only
   (proofs in UnknownChunksFacts.v).

   A chunk size is [option Z]: [None] is np.nan.  Assumption (recorded by the
   harness): every unknown size is THE np.nan singleton, as the library writes it,
   so that Python's identity-first tuple equality / hashing makes two layouts with
   nans in the same places equal members of a set — [None = None] structurally.
   Sizes are below 2^53 (np.array_equal compares them as float64). *)
From DA Require Export PyBase Slicing Rechunk Unify.
Open Scope Z_scope.

Definition ochunks := list (option Z).        (* one axis *)
Definition ochunksN := list ochunks.          (* .chunks *)

(* math.isnan(c) / np.isnan(c) *)
Definition is_nan (c : option Z) : bool := match c with None => true | Some _ => false end.

(* any(math.isnan(c) for c in dim) *)
Definition has_nan (d : ochunks) : bool := existsb is_nan d.

(* a + b on int-or-nan *)
Definition oadd (a b : option Z) : option Z :=
  match a, b with Some x, Some y => Some (x + y) | _, _ => None end.

(* builtin sum(dim): nan propagates (the fold direction is immaterial) *)
Fixpoint osum (d : ochunks) : option Z :=
  match d with [] => Some 0 | c :: t => oadd c (osum t) end.

(* a == b on int-or-nan: nan == anything is False *)
Definition py_eq (a b : option Z) : bool :=
  match a, b with Some x, Some y => x =? y | _, _ => false end.

(* tuple(int(c) for c in dim) when no size is nan *)
Fixpoint oknown (d : ochunks) : option (list Z) :=
  match d with
  | [] => Some []
  | Some c :: t => option_map (cons c) (oknown t)
  | None :: _ => None
  end.

Fixpoint oknown_all (ds : list ochunks) : option (list (list Z)) :=
  match ds with
  | [] => Some []
  | d :: t => match oknown d, oknown_all t with Some x, Some r => Some (x :: r) | _, _ => None end
  end.

Definition of_known (d : list Z) : ochunks := map Some d.

(* `sa == sb or (isnan(sa) and isnan(sb))` is oZ_eqb of PyBase.v;
   np.array_equal(a, b, equal_nan=True) on two tuples / equality of two chunk tuples whose
   nans are the np.nan singleton *)
Definition ochunks_eqb (a b : ochunks) : bool := list_eqb oZ_eqb a b.

(* _chunks_match(a, b)  (_expr.py) *)
Definition chunks_match (a b : ochunksN) : bool := list_eqb ochunks_eqb a b.

(* ------------------------------------------------------------------ *)
(* outcome of a guard: the exception type raised, or the value returned *)
Inductive pyerr := ValueError | AssertionError | StopIteration.
Inductive guard (A : Type) := Refuse (e : pyerr) | Proceed (a : A).
Arguments Refuse {A} e.
Arguments Proceed {A} a.

Definition pyerr_eqb (a b : pyerr) : bool :=
  match a, b with
  | ValueError, ValueError | AssertionError, AssertionError | StopIteration, StopIteration => true
  | _, _ => false
  end.

Definition guard_eqb {A} (eqb : A -> A -> bool) (a b : guard A) : bool :=
  match a, b with
  | Refuse x, Refuse y => pyerr_eqb x y
  | Proceed x, Proceed y => eqb x y
  | _, _ => false
  end.

(* ------------------------------------------------------------------ *)
(* specification side: what an advertised layout may claim about the true block sizes:
   every advertised size is either unknown or the true size of that block *)
Definition known_sound (adv : ochunks) (tr : list Z) : Prop :=
  Forall2 (fun a t => a = None \/ a = Some t) adv tr.

Fixpoint known_sound_b (adv : ochunks) (tr : list Z) : bool :=
  match adv, tr with
  | [], [] => true
  | a :: adv', t :: tr' => (match a with None => true | Some x => x =? t end) && known_sound_b adv' tr'
  | _, _ => false
  end.

Definition known_soundN (adv : ochunksN) (tr : list (list Z)) : Prop := Forall2 known_sound adv tr.

Fixpoint known_soundN_b (adv : ochunksN) (tr : list (list Z)) : bool :=
  match adv, tr with
  | [], [] => true
  | a :: adv', t :: tr' => known_sound_b a t && known_soundN_b adv' tr'
  | _, _ => false
  end.

(* ------------------------------------------------------------------ *)
(* _validate_rechunk(old_chunks, new_chunks)  (_rechunk.py)
     assert len(old_chunks) == len(new_chunks)
     for old_shape, old_dim, new_shape, new_dim in zip(sums, dims, sums, dims):
         if old_shape != new_shape:                       # nan != nan is True
             if not (isnan(old_shape) and isnan(new_shape)) or not np.array_equal(old_dim, new_dim, equal_nan=True):
                 raise ValueError *)
Definition validate_axis (old_dim new_dim : ochunks) : bool :=
  let old_shape := osum old_dim in
  let new_shape := osum new_dim in
  if py_eq old_shape new_shape then true
  else is_nan old_shape && is_nan new_shape && ochunks_eqb old_dim new_dim.

Definition validate_rechunk (old new : ochunksN) : guard unit :=
  if negb (Nat.eqb (length old) (length new)) then Refuse AssertionError
  else if forallb (fun p => validate_axis (fst p) (snd p)) (combine old new) then Proceed tt
  else Refuse ValueError.

(* ------------------------------------------------------------------ *)
(* old_to_new(old_chunks, new_chunks)  (_rechunk.py).  A piece is
   (old block index, start, stop) with stop = None for slice(0, None). *)
Definition opiece := (Z * Z * option Z)%type.

Fixpoint enumerate_from {A} (i : Z) (l : list A) : list (Z * A) :=
  match l with [] => [] | x :: t => (i, x) :: enumerate_from (i + 1) t end.

(* extra = [[(j, slice(0, size if not isnan(size) else None))] for j, size in enumerate(dim)] *)
Definition unknown_axis_crosswalk (dim : ochunks) : list (list opiece) :=
  map (fun p => [(fst p, 0, snd p)]) (enumerate_from 0 dim).

Definition lift_piece (p : Z * Z * Z) : opiece := let '(i, a, b) := p in (i, a, Some b).

(* one axis: dims_unknown looks at the OLD chunks only.  None = outside the domain that
   _validate_rechunk (always called first) establishes: a fully known old axis facing a
   new axis that contains nan *)
Definition old_to_new_axis (old_dim new_dim : ochunks) : option (list (list opiece)) :=
  if has_nan old_dim then Some (unknown_axis_crosswalk old_dim)
  else match oknown old_dim, oknown new_dim with
       | Some o, Some n => Some (map (map lift_piece) (intersect_1d o n))
       | _, _ => None
       end.

(* None also when new has fewer axes than old (the assert of _validate_rechunk) *)
Fixpoint old_to_new_u (old new : ochunksN) : option (list (list (list opiece))) :=
  match old, new with
  | [], _ => Some []
  | od :: old', nd :: new' =>
      match old_to_new_axis od nd, old_to_new_u old' new' with
      | Some a, Some r => Some (a :: r)
      | _, _ => None
      end
  | _ :: _, [] => None
  end.

(* ------------------------------------------------------------------ *)
(* plan_rechunk(old_chunks, new_chunks, ...):
     has_nans = (any(isnan(y) for y in x) for x in old_chunks)
     if not all(new_chunks) or any(has_nans): return [new_chunks]
   Some plan = the early exit is taken; None = planning goes on (Rechunk.plan_rechunk) *)
Definition is_nil {A} (l : list A) : bool := match l with [] => true | _ => false end.

Definition plan_rechunk_early_exit (old new : ochunksN) : option (list ochunksN) :=
  if existsb is_nil new || existsb has_nan old then Some [new] else None.

(* ------------------------------------------------------------------ *)
(* common_blockdim(blockdims)  (_core_utils.py), blockdims given in iteration order *)
Definition ontrivial (d : ochunks) : bool := Nat.ltb 1 (length d).

(* the set comprehension {d for d in blockdims if len(d) > 1}: distinct members *)
Fixpoint odedup (l : list ochunks) : list ochunks :=
  match l with
  | [] => []
  | x :: t => if existsb (ochunks_eqb x) t then odedup t else x :: odedup t
  end.

(* key(best) < key(x) with key = first: comparisons with nan are False *)
Definition ohead_lt (a b : ochunks) : bool :=
  match a, b with Some x :: _, Some y :: _ => x <? y | _, _ => false end.

(* max(blockdims, key=first): the first element unless a later one is strictly greater;
   first(()) raises StopIteration; max of an empty iterable raises ValueError *)
Definition omax_by_first (ds : list ochunks) : guard ochunks :=
  if existsb is_nil ds then Refuse StopIteration
  else match ds with
       | [] => Refuse ValueError
       | d :: t => Proceed (fold_left (fun best x => if ohead_lt best x then x else best) t d)
       end.

Definition of_ures (r : ures) : guard ochunks :=
  match r with UOk l => Proceed (of_known l) | UErr => Refuse ValueError end.

Definition common_blockdim_u (blockdims : list ochunks) : guard ochunks :=
  (* if not any(blockdims): return () *)
  if negb (existsb (fun d => negb (is_nil d)) blockdims) then Proceed []
  else
    let non_trivial_dims := odedup (filter ontrivial blockdims) in
    match non_trivial_dims with
    | [d] =>
        (* dim = first(non_trivial_dims)
           if np.isnan(sum(dim)) and any(d != dim for d in blockdims): raise ValueError
           (a single-chunk operand cannot be aligned with blocks of unknown size) *)
        if has_nan d && existsb (fun x => negb (ochunks_eqb x d)) blockdims then Refuse ValueError
        else Proceed d
    | [] => omax_by_first blockdims
    | _ =>
        (* if np.isnan(sum(map(sum, blockdims))): raise ValueError *)
        match oknown_all blockdims with
        | None => Refuse ValueError
        | Some ds => of_ures (common_blockdim ds)     (* the known-sizes algorithm, Unify.v *)
        end
    end.

(* coarse_blockdim(blockdims)  (_expr.py); pick = the set-iteration-order oracle of
   min(non_trivial_dims, key=len) in the known-sizes algorithm *)
Definition all_same_length (ds : list ochunks) : bool :=
  match ds with [] => true | d :: t => forallb (fun x => Nat.eqb (length x) (length d)) t end.

Definition coarse_blockdim_u (pick : nat) (blockdims : list ochunks) : guard ochunks :=
  if negb (existsb (fun d => negb (is_nil d)) blockdims) then Proceed []
  else
    (* unknown_dims = [d for d in blockdims if np.isnan(sum(d))] *)
    match filter has_nan blockdims with
    | u :: _ =>
        (* all_lengths = {len(d) for d in blockdims}; more than one -> ValueError *)
        if all_same_length blockdims then Proceed u      (* toolz.first(unknown_dims) *)
        else Refuse ValueError
    | [] =>
        match oknown_all blockdims with
        | None => Refuse ValueError                       (* unreachable: no layout has a nan *)
        | Some ds =>
            match filter nontrivial ds with
            | [] => omax_by_first blockdims               (* max(blockdims, key=toolz.first) *)
            | _ => of_ures (coarse_blockdim pick ds)      (* the known-sizes algorithm, Unify.v *)
            end
        end
    end.

(* ------------------------------------------------------------------ *)
(* the guard of slice_slices_and_integers(x, index)  (slicing/_basic.py):
     shape = tuple(cached_cumsum(dim, initial_zero=True)[-1] for dim in x.chunks)
     for dim, ind in zip(shape, index):
         if np.isnan(dim) and ind != slice(None, None, None): raise ValueError
   index elements are ints or slices ([ploc] of Slicing.v) *)
Definition slice_guard (chunks : ochunksN) (index : list ploc) : guard unit :=
  if existsb (fun p => is_nan (osum (fst p)) && negb (ploc_eqb (snd p) (LSlice colon))) (combine chunks index)
  then Refuse ValueError else Proceed tt.

(* ------------------------------------------------------------------ *)
(* Array.compute_chunk_sizes  (_collection.py).  chunk_shapes[loc + (k,)] is the size
   along axis k of the executed block at block index loc ([measure loc]).  For axis i
       s = ndim * [0] + [i]; s[i] = slice(None); c.append(tuple(chunk_shapes[tuple(s)]))
   reads the blocks (0,..,0,j,0,..,0) for j in range(numblocks[i]). *)
Definition loc_on_axis (ndim i : nat) (j : Z) : list Z :=
  map (fun k => if Nat.eqb k i then j else 0) (seq 0 ndim).

Definition compute_chunk_sizes_model (measure : list Z -> list Z) (numblocks : list Z) : list (list Z) :=
  let ndim := length numblocks in
  map (fun i => map (fun j => nth i (measure (loc_on_axis ndim i j)) 0)
                    (zrange 0 (nth i numblocks 0) 1))
      (seq 0 ndim).

(* the true shape of the block at index loc when the true sizes form a grid *)
Fixpoint true_shape (tr : list (list Z)) (loc : list Z) : list Z :=
  match tr, loc with
  | t :: tr', i :: loc' => nthZ t i :: true_shape tr' loc'
  | _, _ => []
  end.

Definition valid_loc (tr : list (list Z)) (loc : list Z) : Prop :=
  Forall2 (fun t i => 0 <= i < lenZ t) tr loc.

(* ------------------------------------------------------------------ *)
(* ChunksOverride(array, _chunks)  (_expr.py):  .chunks is the given tuple *)
Definition chunks_override_chunks (chunks : ochunksN) : ochunksN := chunks.

(* itertools.product over range(n) for n in ns — first axis slowest *)
Fixpoint grid (ns : list Z) : list (list Z) :=
  match ns with
  | [] => [[]]
  | n :: t => flat_map (fun i => map (cons i) (grid t)) (zrange 0 n 1)
  end.

(* ChunksOverride._layer(): {(name,) + idx: Alias(.., (array_name,) + idx) for idx in product(...)}
   as the list of (output block index, input block index) in insertion order *)
Definition chunks_override_layer (chunks : ochunksN) : list (list Z * list Z) :=
  map (fun idx => (idx, idx)) (grid (map (@lenZ (option Z)) chunks)).
