(* SetitemPlanFacts.v — proofs about the per-block plan of x[index] = value (model: SetitemPlan.v). *)
From DA Require Import PyBase PyBaseFacts Slicing NormalizeFacts SetitemPlan.
From Coq Require Import ZifyBool.
Import ListNotations.
Open Scope Z_scope.
Ltac Zify.zify_post_hook ::= Z.to_euclidean_division_equations.

(* ---------- arithmetic of one parsed slice (a, b, k), k > 0 ---------- *)


Lemma ceil_divmod_range s t k : 0 < k -> s < t -> ceil_divmod (t - s) k = range_len s t k.
Proof.
  intros Hk Hst. unfold ceil_divmod. rewrite range_len_pos_step by lia.
  destruct (s <? t) eqn:E; [|lia]. break_if; nia.
Qed.

Lemma ceil_divmod_mul d k : 0 < k -> 0 <= d -> d <= ceil_divmod d k * k < d + k.
Proof. intros Hk Hd. unfold ceil_divmod. break_if; nia. Qed.

Lemma cong_first a k loc0 p : 0 < k -> (p - a) mod k = 0 -> loc0 <= p -> (a - loc0) mod k <= p - loc0.
Proof.
  intros Hk Hm Hp.
  assert ((p - loc0) mod k = (a - loc0) mod k) as E.
  { replace (p - loc0) with ((a - loc0) + (p - a)) by lia.
    rewrite Zplus_mod, Hm, Z.add_0_r, Zmod_mod. reflexivity. }
  rewrite <- E. apply Z.mod_le; lia.
Qed.

Lemma cong_shift a k loc0 q s : 0 < k -> (s - (a - loc0)) mod k = 0 -> ((q - s) mod k = 0 <-> (loc0 + q - a) mod k = 0).
Proof.
  intros Hk Hs.
  replace (loc0 + q - a) with ((q - s) + (s - (a - loc0))) by lia.
  rewrite (Zplus_mod (q - s)), Hs, Z.add_0_r, Zmod_mod. tauto.
Qed.

Lemma mod_self_diff x k : 0 < k -> (x mod k - x) mod k = 0.
Proof. intros Hk. rewrite Zminus_mod_idemp_l. replace (x - x) with 0 by lia. apply Zmod_0_l. Qed.

(* slice.indices(loc0) of a slice with non-negative ints and positive step: both endpoints clipped to loc0 *)
Lemma indices_clip a b k n : 0 < k -> 0 <= a -> 0 <= n ->
  indices (mkslice (Some a) (Some b) (Some k)) n =
  (Z.min a n, (if b <? 0 then (if b + n <? 0 then 0 else b + n) else Z.min b n), k).
Proof.
  intros Hk Ha Hn. unfold indices, adjust_endpoint, step_of. cbn [s_start s_stop s_step].
  repeat break_if; f_equal; try f_equal; lia.
Qed.

(* THE PER-AXIS THEOREM for a parsed slice: block [loc0, loc1) of the axis *)
Theorem axis_block_slice_spec a b k loc0 loc1 :
  0 < k -> 0 <= a -> 0 <= loc0 < loc1 ->
  match axis_block (PSl a b k) loc0 loc1 with
  | None => forall p, loc0 <= p < loc1 -> ~ in_sl a b k p
  | Some (bi, osz, opre) =>
      exists s t sz pre,
        bi = SSlice (mkslice (Some s) (Some t) (Some k)) /\ osz = Some sz /\ opre = Some pre /\
        0 <= s < t /\ t <= loc1 - loc0 /\ sz = range_len s t k /\ 0 < sz /\ 0 <= pre /\
        pre * k = loc0 + s - a /\
        pre + sz <= range_len a b k /\
        (forall q, 0 <= q < loc1 - loc0 -> (in_sl s t k q <-> in_sl a b k (loc0 + q)))
  end.
Proof.
  intros Hk Ha Hl. unfold axis_block. cbv zeta.
  rewrite indices_clip by lia.
  set (t := if b <? loc1 then loc1 - loc0 - (loc1 - b) else loc1 - loc0).
  set (s := if a - loc0 <? 0 then (a - loc0) mod k else a - loc0).
  assert (Hs0 : 0 <= s) by (unfold s; break_if; [apply Z.mod_pos_bound|]; lia).
  assert (Hsc : (s - (a - loc0)) mod k = 0).
  { unfold s. break_if; [apply mod_self_diff; lia|]. replace (a - loc0 - (a - loc0)) with 0 by lia. apply Zmod_0_l. }
  assert (Ht : t = Z.min (loc1 - loc0) (b - loc0)) by (unfold t; break_if; lia).
  destruct (s >=? t) eqn:Est.
  - (* no overlap *)
    intros p Hp [Hr Hm].
    assert (s <= p - loc0).
    { unfold s. break_if; [apply cong_first; lia | lia]. }
    lia.
  - assert (Hst : s < t) by lia.
    assert (Hb : loc0 < b) by lia.
    exists s, t, (range_len s t k).
    exists (ceil_divmod ((if b <? 0 then (if b + loc0 <? 0 then 0 else b + loc0) else Z.min b loc0) - Z.min a loc0) k).
    destruct (b <? 0) eqn:Eb0; [lia|].
    replace (Z.min b loc0) with loc0 by lia.
    assert (Hpre : let pre := ceil_divmod (loc0 - Z.min a loc0) k in 0 <= pre /\ pre * k = loc0 + s - a).
    { cbv zeta. unfold s. destruct (a - loc0 <? 0) eqn:Ea.
      - replace (Z.min a loc0) with a by lia. unfold ceil_divmod.
        replace (a - loc0) with (- (loc0 - a)) by lia.
        pose proof (Z_div_mod_eq_full (loc0 - a) k) as Hdm.
        pose proof (Z.mod_pos_bound (loc0 - a) k Hk) as Hmb.
        assert (0 <= (loc0 - a) / k) as Hq by (apply Z.div_pos; lia).
        destruct ((loc0 - a) mod k =? 0) eqn:Em.
        + rewrite Z.mod_opp_l_z by lia.
          generalize dependent ((loc0 - a) / k). generalize dependent ((loc0 - a) mod k). intros; lia.
        + rewrite Z.mod_opp_l_nz by lia.
          generalize dependent ((loc0 - a) / k). generalize dependent ((loc0 - a) mod k). intros; lia.
      - replace (Z.min a loc0) with loc0 by lia. replace (loc0 - loc0) with 0 by lia.
        unfold ceil_divmod. rewrite Zmod_0_l, Zdiv_0_l. cbn. lia. }
    cbv zeta in Hpre. destruct Hpre as [Hp0 Hpk].
    assert (Hsz : 0 < range_len s t k).
    { rewrite range_len_pos_step by lia. destruct (s <? t) eqn:E; [|lia]. nia. }
    split; [reflexivity|]. split; [f_equal; apply ceil_divmod_range; lia|]. split; [reflexivity|].
    split; [lia|]. split; [lia|]. split; [reflexivity|]. split; [exact Hsz|]. split; [exact Hp0|]. split; [exact Hpk|].
    split.
    + (* the value slice stays inside the implied length *)
      pose proof (range_len_pos_last s t k Hk Hst) as Hlast.
      assert (a < b) by lia.
      rewrite (range_len_pos_step a b k) by lia. destruct (a <? b) eqn:E; [|lia].
      set (m := range_len s t k) in *.
      assert (k * (ceil_divmod (loc0 - Z.min a loc0) k + m - 1) <= b - a - 1) by nia.
      pose proof (Z.div_le_lower_bound (b - a - 1) k _ Hk H0). lia.
    + intros q Hq. unfold in_sl. rewrite (cong_shift a k loc0 q s Hk Hsc).
      split; intros [Hr Hm]; (split; [|exact Hm]).
      * assert (a <= loc0 + q).
        { unfold s in Hr. destruct (a - loc0 <? 0) eqn:Ea; lia. }
        lia.
      * assert (s <= q).
        { unfold s. destruct (a - loc0 <? 0) eqn:Ea; [|lia].
          replace q with ((loc0 + q) - loc0) by lia. apply cong_first; lia. }
        lia.
Qed.

(* ---------- integer entry ---------- *)
Theorem axis_block_int_spec i loc0 loc1 :
  match axis_block (PInt i) loc0 loc1 with
  | None => forall p, loc0 <= p < loc1 -> p <> i
  | Some (bi, osz, opre) => bi = SInt (i - loc0) /\ osz = None /\ opre = None /\ 0 <= i - loc0 < loc1 - loc0
  end.
Proof. unfold axis_block. break_if; [repeat split; lia | intros p Hp; lia]. Qed.

(* ---------- integer-list entry ---------- *)
Lemma last_idx_ge p l : forall i r, last_idx p l i = Some r -> i <= r.
Proof.
  induction l as [|x t IH]; intros i r H; cbn in H; [discriminate|].
  destruct (last_idx p t (i + 1)) eqn:E.
  - injection H as <-. apply IH in E. lia.
  - destruct (x =? p); [injection H as <-; lia | discriminate].
Qed.

Lemma last_idx_none p l : forall i, last_idx p l i = None <-> ~ In p l.
Proof.
  induction l as [|x t IH]; intros i; cbn; [tauto|].
  destruct (last_idx p t (i + 1)) eqn:E.
  - split; [discriminate|]. intros H. exfalso. apply H. right.
    destruct (in_dec Z.eq_dec p t) as [Hi|Hn]; [exact Hi|]. apply (IH (i + 1)) in Hn. congruence.
  - apply IH in E. destruct (x =? p) eqn:Ex; split; try discriminate; try tauto.
    + intros H. exfalso. apply H. left. lia.
    + intros _ [H|H]; [lia | tauto].
Qed.

Lemma block_list_where_length l loc0 loc1 : forall i, length (block_list l loc0 loc1) = length (where_in i l loc0 loc1).
Proof. induction l as [|x t IH]; intros i; cbn; [reflexivity|]. break_if; cbn; rewrite (IH (i + 1)); reflexivity. Qed.

Lemma block_list_bounds l loc0 loc1 : Forall (fun q => 0 <= q < loc1 - loc0) (block_list l loc0 loc1).
Proof. induction l as [|x t IH]; cbn; [constructor|]. break_if; [constructor; [lia|exact IH] | exact IH]. Qed.

Lemma where_in_bounds l loc0 loc1 : forall i, Forall (fun r => i <= r < i + lenZ l) (where_in i l loc0 loc1).
Proof.
  unfold lenZ. induction l as [|x t IH]; intros i; cbn [where_in]; [constructor|].
  assert (Forall (fun r => i <= r < i + Z.of_nat (length (x :: t))) (where_in (i + 1) t loc0 loc1)) as H.
  { eapply Forall_impl; [|apply (IH (i + 1))]. cbn [length]. intros r Hr. lia. }
  break_if; [constructor; [cbn [length]; lia | exact H] | exact H].
Qed.

(* the k-th entry of the block index is the (where_in[k])-th entry of the list, minus loc0 *)
Lemma block_list_nth l loc0 loc1 : forall i k, (k < length (block_list l loc0 loc1))%nat ->
  nth k (block_list l loc0 loc1) 0 = nth (Z.to_nat (nth k (where_in i l loc0 loc1) 0 - i)) l 0 - loc0.
Proof.
  induction l as [|x t IH]; intros i k Hk; cbn in Hk |- *; [lia|].
  destruct ((loc0 <=? x) && (x <? loc1)) eqn:E.
  - destruct k as [|k]; cbn [nth].
    + replace (i - i) with 0 by lia. reflexivity.
    + cbn in Hk. rewrite (IH (i + 1) k) by lia.
      pose proof (where_in_bounds t loc0 loc1 (i + 1)) as Hb. rewrite Forall_forall in Hb.
      assert (In (nth k (where_in (i + 1) t loc0 loc1) 0) (where_in (i + 1) t loc0 loc1)) as Hin.
      { apply nth_In. rewrite <- block_list_where_length. lia. }
      apply Hb in Hin.
      replace (Z.to_nat (nth k (where_in (i + 1) t loc0 loc1) 0 - i))
        with (S (Z.to_nat (nth k (where_in (i + 1) t loc0 loc1) 0 - (i + 1)))) by lia.
      reflexivity.
  - rewrite (IH (i + 1) k) by lia.
    pose proof (where_in_bounds t loc0 loc1 (i + 1)) as Hb. rewrite Forall_forall in Hb.
    assert (In (nth k (where_in (i + 1) t loc0 loc1) 0) (where_in (i + 1) t loc0 loc1)) as Hin.
    { apply nth_In. rewrite <- block_list_where_length. lia. }
    apply Hb in Hin.
    replace (Z.to_nat (nth k (where_in (i + 1) t loc0 loc1) 0 - i))
      with (S (Z.to_nat (nth k (where_in (i + 1) t loc0 loc1) 0 - (i + 1)))) by lia.
    reflexivity.
Qed.

(* LAST WRITE WINS, globally and in the block alike: the value coordinate NumPy writes last at position p of the
   whole axis is the image, under the value index of the block, of the one the kernel writes last at p - loc0 *)
Lemma last_idx_block l loc0 loc1 p : loc0 <= p < loc1 -> forall i j,
  last_idx p l i =
  match last_idx (p - loc0) (block_list l loc0 loc1) j with
  | Some k => Some (nth (Z.to_nat (k - j)) (where_in i l loc0 loc1) 0)
  | None => None
  end.
Proof.
  intros Hp. induction l as [|x t IH]; intros i j; cbn [last_idx block_list where_in]; [reflexivity|].
  destruct ((loc0 <=? x) && (x <? loc1)) eqn:E.
  - cbn [last_idx]. rewrite (IH (i + 1) (j + 1)).
    destruct (last_idx (p - loc0) (block_list t loc0 loc1) (j + 1)) as [k|] eqn:Ek.
    + apply last_idx_ge in Ek.
      replace (Z.to_nat (k - j)) with (S (Z.to_nat (k - (j + 1)))) by lia. reflexivity.
    + replace (x - loc0 =? p - loc0) with (x =? p) by lia.
      destruct (x =? p); [|reflexivity]. replace (j - j) with 0 by lia. reflexivity.
  - rewrite (IH (i + 1) j).
    destruct (last_idx (p - loc0) (block_list t loc0 loc1) j); [reflexivity|].
    destruct (x =? p) eqn:Ex; [lia | reflexivity].
Qed.

Theorem axis_block_list_spec l loc0 loc1 :
  match axis_block (PLst l) loc0 loc1 with
  | None => forall p, loc0 <= p < loc1 -> ~ In p l
  | Some (bi, osz, opre) =>
      let bl := block_list l loc0 loc1 in
      let w := where_in 0 l loc0 loc1 in
      bi = SList bl /\ osz = None /\ opre = None /\ bl <> [] /\ length bl = length w /\
      Forall (fun q => 0 <= q < loc1 - loc0) bl /\ Forall (fun r => 0 <= r < lenZ l) w /\
      (forall k, (k < length bl)%nat -> loc0 + nth k bl 0 = nth (Z.to_nat (nth k w 0)) l 0) /\
      (forall p, loc0 <= p < loc1 ->
         last_idx p l 0 = match last_idx (p - loc0) bl 0 with Some k => Some (nth (Z.to_nat k) w 0) | None => None end)
  end.
Proof.
  unfold axis_block. destruct (block_list l loc0 loc1) as [|q0 bl'] eqn:Eb.
  - intros p Hp. apply (last_idx_none p l 0). rewrite (last_idx_block l loc0 loc1 p Hp 0 0), Eb. reflexivity.
  - rewrite <- Eb. cbv zeta.
    split; [reflexivity|]. split; [reflexivity|]. split; [reflexivity|]. split; [rewrite Eb; discriminate|].
    split; [apply block_list_where_length|]. split; [apply block_list_bounds|].
    split; [apply (where_in_bounds l loc0 loc1 0)|]. split.
    + intros k Hk. rewrite (block_list_nth l loc0 loc1 0 k Hk). rewrite Z.sub_0_r. lia.
    + intros p Hp. rewrite (last_idx_block l loc0 loc1 p Hp 0 0).
      destruct (last_idx (p - loc0) (block_list l loc0 loc1) 0); [rewrite Z.sub_0_r|]; reflexivity.
Qed.

(* ---------- N-d FRAME: a block is passed through untouched iff some axis has no overlap ---------- *)
Lemma axis_block_none ix l0 l1 :
  wf_pidx1 ix -> 0 <= l0 < l1 -> axis_block ix l0 l1 = None ->
  forall x, l0 <= x < l1 -> ~ addressed1 ix x.
Proof.
  intros Hw Hl H x Hx. destruct ix as [i|a b k|l]; cbn [addressed1].
  - pose proof (axis_block_int_spec i l0 l1) as S. rewrite H in S. apply S. exact Hx.
  - destruct Hw as [Hk Ha]. pose proof (axis_block_slice_spec a b k l0 l1 Hk Ha Hl) as S. rewrite H in S. apply S. exact Hx.
  - pose proof (axis_block_list_spec l l0 l1) as S. rewrite H in S. apply S. exact Hx.
Qed.

Lemma block_loop_none idx : forall ls d p,
  Forall wf_pidx1 idx -> Forall wf_loc ls -> Forall2 in_block ls p ->
  block_loop d idx ls = None -> ~ Forall2 addressed1 idx p.
Proof.
  induction idx as [|ix idx IH]; intros ls d p Hw Hl Hin H Ha; [cbn in H; discriminate|].
  destruct ls as [|[l0 l1] ls]; [cbn in H; discriminate|].
  inversion Hin as [|? x ? p' Hx Hin']; subst.
  inversion Ha as [|? ? ? ? Ha1 Ha']; subst.
  inversion Hw as [|? ? Hw1 Hw']; subst. inversion Hl as [|? ? Hl1 Hl']; subst.
  cbn [block_loop] in H. unfold in_block, wf_loc in *. cbn [fst snd] in *.
  destruct (axis_block ix l0 l1) as [[[bi sz] pre]|] eqn:E.
  - match type of H with context [block_loop ?d' idx ls] =>
      destruct (block_loop d' idx ls) eqn:E2; [discriminate|];
      exact (IH ls d' p' Hw' Hl' Hin' E2 Ha')
    end.
  - exact (axis_block_none ix l0 l1 Hw1 Hl1 E x Hx Ha1).
Qed.

Lemma block_plan_untouched_iff pr vshape ls :
  block_plan pr vshape ls = BUntouched <-> block_loop 0 (p_idx pr) ls = None.
Proof.
  unfold block_plan. destruct (block_loop 0 (p_idx pr) ls); [|tauto].
  split; [|discriminate]. repeat break_if; discriminate.
Qed.

(* (a) blocks reported untouched contain no indexed position; equivalently every indexed position lies in a touched block *)
Theorem plan_frame_untouched pr vshape ls p :
  Forall wf_pidx1 (p_idx pr) -> Forall wf_loc ls -> Forall2 in_block ls p ->
  block_plan pr vshape ls = BUntouched -> ~ Forall2 addressed1 (p_idx pr) p.
Proof. intros Hw Hl Hin H. apply block_plan_untouched_iff in H. exact (block_loop_none _ ls 0 p Hw Hl Hin H). Qed.

Theorem plan_frame_touched pr vshape ls p :
  Forall wf_pidx1 (p_idx pr) -> Forall wf_loc ls -> Forall2 in_block ls p ->
  Forall2 addressed1 (p_idx pr) p -> block_plan pr vshape ls <> BUntouched.
Proof. intros Hw Hl Hin Ha H. exact (plan_frame_untouched pr vshape ls p Hw Hl Hin H Ha). Qed.

(* ... and the blocks of an axis are disjoint: a position lies in exactly one of them *)
Lemma locs_from_lower cs : Forall (fun c => 0 < c) cs -> forall off l, In l (locs_from off cs) -> off <= fst l /\ fst l < snd l.
Proof.
  induction cs as [|c t IH]; intros Hc off l H; cbn in H; [tauto|].
  inversion Hc as [|? ? Hc1 Hc']; subst.
  destruct H as [<-|H]; [cbn; lia|]. apply (IH Hc' (off + c)) in H. lia.
Qed.

Theorem locs_disjoint cs : Forall (fun c => 0 < c) cs -> forall off l l' x,
  In l (locs_from off cs) -> In l' (locs_from off cs) -> in_block l x -> in_block l' x -> l = l'.
Proof.
  induction cs as [|c t IH]; intros Hc off l l' x H H' Hx Hx'; cbn in H, H'; [tauto|].
  inversion Hc as [|? ? Hc1 Hc']; subst. unfold in_block in *.
  destruct H as [<-|H], H' as [<-|H']; [reflexivity| | |exact (IH Hc' (off + c) l l' x H H' Hx Hx')].
  - apply (locs_from_lower t Hc' (off + c)) in H'. cbn [fst snd] in *. lia.
  - apply (locs_from_lower t Hc' (off + c)) in H. cbn [fst snd] in *. lia.
Qed.

(* every in-bounds position lies in a block, and blocks are well-formed *)
Lemma find_loc_spec x cs : forall off l, find_loc x (locs_from off cs) = Some l -> In l (locs_from off cs) /\ in_block l x.
Proof.
  induction cs as [|c t IH]; intros off l H; cbn in H; [discriminate|].
  destruct ((off <=? x) && (x <? off + c)) eqn:E.
  - injection H as <-. split; [left; reflexivity | unfold in_block; cbn; lia].
  - apply IH in H. split; [right; tauto | tauto].
Qed.

Lemma find_loc_total x cs : forall off, off <= x < off + zsum cs -> find_loc x (locs_from off cs) <> None.
Proof.
  induction cs as [|c t IH]; intros off H; cbn in H |- *; [lia|].
  destruct ((off <=? x) && (x <? off + c)) eqn:E; [discriminate|]. apply IH. lia.
Qed.

(* ---------- the parser leaves well-formed entries ---------- *)
Lemma pai_slice_shape s size : exists a b k m hp rev, pai_slice s size = (PSl a b k, m, hp, rev).
Proof.
  unfold pai_slice. destruct (indices s size) as [[a b] k].
  destruct (k <? 0).
  - destruct (indices _ size) as [[a' b'] k'].
    destruct (indices _ size) as [[a2 b2] k2]. break_if; repeat eexists.
  - destruct (indices _ size) as [[a2 b2] k2]. break_if; repeat eexists.
Qed.

Lemma pai_slice_wf s size : 0 <= size -> step_of s <> 0 ->
  wf_pidx1 (fst (fst (fst (pai_slice s size)))).
Proof.
  intros Hn Hk. unfold pai_slice.
  destruct (indices s size) as [[a b] k] eqn:Hi.
  pose proof (indices_bounds s size a b k Hn Hi) as (Hstep & Hpos & Hneg).
  cbv zeta. destruct (k <? 0) eqn:Ek.
  - assert (k < 0) as Hk0 by lia. cbn [andb].
    set (ix := mkslice (Some a) (if b =? -1 then None else Some b) (Some k)).
    assert (step_of ix = k) as Eix by reflexivity. clearbody ix.
    destruct (indices ix size) as [[a' b'] k'] eqn:Hi2.
    pose proof (indices_bounds ix size a' b' k' Hn Hi2) as (Hstep2 & _ & Hneg2). rewrite Eix in Hstep2.
    subst k'. specialize (Hneg2 Hk0).
    assert (wf_pidx1 (PSl (a' - (a' - b' - 1) / (k * -1) * (k * -1)) (a' - (a' - b' - 1) / (k * -1) * (k * -1) + (a' - b' - 1) / (k * -1) * (k * -1) + 1) (k * -1))) as W.
    { cbn. split; [lia|].
      pose proof (Z_div_mod_eq_full (a' - b' - 1) (k * -1)) as Hdm.
      pose proof (Z.mod_pos_bound (a' - b' - 1) (k * -1) ltac:(lia)) as Hmb.
      generalize dependent ((a' - b' - 1) / (k * -1)). generalize dependent ((a' - b' - 1) mod (k * -1)).
      intros r Hr q Hq. nia. }
    cbv beta iota zeta. match goal with |- context [indices ?t size] => destruct (indices t size) as [[a2 b2] k2] end. cbv beta iota. break_if; cbn [fst]; exact W.
  - assert (0 < k) as Hk0 by lia. specialize (Hpos Hk0).
    cbv beta iota zeta. match goal with |- context [indices ?t size] => destruct (indices t size) as [[a2 b2] k2] end. cbv beta iota. break_if; cbn; lia.
Qed.

Lemma normalize_slice_step s d : step_of s <> 0 -> step_of (normalize_slice s d) <> 0.
Proof.
  intros Hk. unfold normalize_slice, indices. cbv zeta.
  repeat break_if; unfold step_of; cbn [s_step]; try lia; fold (step_of s); lia.
Qed.

Lemma norm_entry_ok e d e' : norm_entry e d = Some e' -> step_ok e'.
Proof.
  destruct e as [i|s|l]; unfold norm_entry; intros H.
  - destruct (check_int d i); [|discriminate]. injection H as <-. exact I.
  - destruct (step_of s =? 0) eqn:E; [discriminate|]. injection H as <-. cbn [step_ok].
    apply normalize_slice_step. lia.
  - destruct (forallb (check_int d) l); [|discriminate]. injection H as <-. exact I.
Qed.

Lemma norm_entries_ok idx : forall shape n, norm_entries idx shape = Some n -> Forall step_ok n.
Proof.
  induction idx as [|e idx IH]; intros shape.
  - induction shape as [|d shape IHs]; intros n H; cbn [norm_entries] in H.
    + injection H as <-. constructor.
    + destruct (norm_entry (SSlice colon) d) eqn:E1; [|discriminate].
      destruct (norm_entries [] shape) eqn:E2; [|discriminate]. injection H as <-.
      constructor; [exact (norm_entry_ok _ _ _ E1) | exact (IHs _ eq_refl)].
  - intros n H. destruct shape as [|d shape]; cbn [norm_entries] in H; [discriminate|].
    destruct (norm_entry e d) eqn:E1; [|discriminate].
    destruct (norm_entries idx shape) eqn:E2; [|discriminate]. injection H as <-.
    constructor; [exact (norm_entry_ok _ _ _ E1) | exact (IH _ _ E2)].
Qed.

Lemma pai_loop_wf idx : forall shape i nl r,
  Forall (fun d => 0 <= d) shape -> Forall step_ok idx -> pai_loop i nl idx shape = Some r -> Forall wf_pidx1 (pa_idx r).
Proof.
  induction idx as [|e idx IH]; intros shape i nl r Hs Hok H.
  - cbn in H. injection H as <-. constructor.
  - destruct shape as [|d shape]; [cbn in H; injection H as <-; constructor|].
    inversion Hs as [|? ? Hd Hs']; subst. inversion Hok as [|? ? He Hok']; subst.
    cbn [pai_loop] in H. destruct e as [k|s|l].
    + destruct (pai_loop (i + 1) nl idx shape) eqn:E; [|discriminate]. injection H as <-. cbn [pa_idx].
      constructor; [exact I | exact (IH _ _ _ _ Hs' Hok' E)].
    + pose proof (pai_slice_wf s d Hd He) as W.
      destruct (pai_slice s d) as [[[p m] hp] rev]. cbn [fst] in W. cbv beta iota in H.
      destruct (pai_loop (i + 1) nl idx shape) eqn:E; [|discriminate]. injection H as <-. cbn [pa_idx].
      constructor; [exact W | exact (IH _ _ _ _ Hs' Hok' E)].
    + destruct (nl + 1 >? 1); [discriminate|].
      destruct (pai_loop (i + 1) (nl + 1) idx shape) eqn:E; [|discriminate]. injection H as <-. cbn [pa_idx].
      constructor; [exact I | exact (IH _ _ _ _ Hs' Hok' E)].
Qed.

(* every accepted assignment is parsed into well-formed entries: the hypothesis of the frame theorems is discharged *)
Theorem parse_wf idx shape vshape pr :
  Forall (fun d => 0 <= d) shape -> parse idx shape vshape = Some pr -> Forall wf_pidx1 (p_idx pr).
Proof.
  intros Hs H. unfold parse, parse_assignment_indices in H.
  destruct (norm_entries idx shape) as [n|] eqn:En; [|discriminate].
  destruct (pai_loop 0 0 n shape) as [pa|] eqn:Ep; [|discriminate].
  pose proof (pai_loop_wf n shape 0 0 pa Hs (norm_entries_ok _ _ _ En) Ep) as W.
  cbv zeta in H.
  destruct (existsb (Z.eqb 0) (pa_implied pa) && negb (lenZ vshape =? 0) && (zmax_list vshape >? 1)); [discriminate|].
  destruct (lenZ (pa_implied pa) - lenZ vshape >=? 0).
  - destruct (base_loop _ _ _ _) as [[bs nb]|]; [|discriminate]. injection H as <-. exact W.
  - destruct (negb _); [discriminate|].
    destruct (base_loop _ _ _ _) as [[bs nb]|]; [|discriminate]. injection H as <-. exact W.
Qed.

(* the frame theorems stated from `parse`: no well-formedness hypothesis left *)
Theorem plan_frame_untouched_parse idx shape vshape pr ls p :
  Forall (fun d => 0 <= d) shape -> parse idx shape vshape = Some pr ->
  Forall wf_loc ls -> Forall2 in_block ls p ->
  block_plan pr vshape ls = BUntouched -> ~ Forall2 addressed1 (p_idx pr) p.
Proof. intros Hs Hp. exact (plan_frame_untouched pr vshape ls p (parse_wf idx shape vshape pr Hs Hp)). Qed.

Theorem plan_frame_touched_parse idx shape vshape pr ls p :
  Forall (fun d => 0 <= d) shape -> parse idx shape vshape = Some pr ->
  Forall wf_loc ls -> Forall2 in_block ls p ->
  Forall2 addressed1 (p_idx pr) p -> block_plan pr vshape ls <> BUntouched.
Proof. intros Hs Hp. exact (plan_frame_touched pr vshape ls p (parse_wf idx shape vshape pr Hs Hp)). Qed.

Theorem plan_denotation_untouched idx shape x chunks pr vshape v p ls :
  Forall (fun d => 0 <= d) shape -> parse idx shape vshape = Some pr ->
  Forall wf_loc ls -> Forall2 in_block ls p ->
  find_locs p chunks = Some ls -> block_plan pr vshape ls = BUntouched ->
  plan_setitem x chunks pr vshape v p = Some (x p) /\ ~ Forall2 addressed1 (p_idx pr) p.
Proof.
  intros Hs Hp Hl Hin Hf Hb. split.
  - unfold plan_setitem. rewrite Hf, Hb. reflexivity.
  - exact (plan_frame_untouched_parse idx shape vshape pr ls p Hs Hp Hl Hin Hb).
Qed.
