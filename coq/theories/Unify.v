(* L1 — models of common_blockdim (_core_utils.py), coarse_blockdim and
   moved_fraction (_expr.py) for fully known chunk sizes.  Definitions only. *)
From DA Require Export PyBase.
Open Scope Z_scope.

Definition nontrivial (d : list Z) : bool := Nat.ltb 1 (length d).

Fixpoint dedup (l : list (list Z)) : list (list Z) :=
  match l with
  | [] => []
  | x :: t => if existsb (zlist_eqb x) t then dedup t else x :: dedup t
  end.

(* the walk-down loop of common_blockdim over the (distinct) non-trivial layouts.
   Each layout is kept as the list of its remaining chunks, head = current. *)
Definition heads_min (rs : list (list Z)) : Z :=
  match map (fun r => hd 0 r) rs with
  | [] => 0
  | h :: t => fold_right Z.min h t
  end.

Definition sub_head (m : Z) (r : list Z) : list Z :=
  match r with
  | [] => []
  | c :: t => if c - m =? 0 then t else (c - m) :: t
  end.

Fixpoint walk_down (fuel : nat) (rs : list (list Z)) (i total : Z) : option (list Z) :=
  if i >=? total then Some [] else
  match fuel with
  | O => None
  | S f =>
      if existsb (fun r => match r with [] => true | _ => false end) rs then None   (* IndexError: c[-1] on an empty list *)
      else
        let m := heads_min rs in
        option_map (cons m) (walk_down f (map (sub_head m) rs) (i + m) total)
  end.

Inductive ures := UOk (l : list Z) | UErr.

Definition first_by_max_head (ds : list (list Z)) : list Z :=
  (* max(blockdims, key=first) — first maximal element *)
  match ds with
  | [] => []
  | d :: t => fold_left (fun best x => if hd 0 best <? hd 0 x then x else best) t d
  end.

(* common_blockdim(blockdims): blockdims is a set; the result does not depend
   on iteration order except in the all-trivial case, where all layouts of the
   same axis are equal anyway. *)
Definition common_blockdim (blockdims : list (list Z)) : ures :=
  let ds := dedup blockdims in
  if negb (existsb (fun d => match d with [] => false | _ => true end) ds) then UOk []
  else
    let nt := filter nontrivial ds in
    match nt with
    | [] => UOk (first_by_max_head ds)
    | [d] => UOk d
    | d :: _ =>
        if negb (forallb (fun x => zsum x =? zsum d) nt) then UErr
        else match walk_down (length (concat nt) + 1) nt 0 (zsum d) with
             | Some r => UOk r
             | None => UErr
             end
    end.

(* boundaries cumsum(chunks[:-1]) *)
Definition inner_bounds (cs : list Z) : list Z := cumsum (removelast cs).

Definition subset_b (a b : list Z) : bool := forallb (fun x => existsb (Z.eqb x) b) a.

(* min(non_trivial_dims, key=len): the model takes the candidate with the fewest
   blocks; ties are resolved by set iteration order in Python, so the tie-break
   is an oracle: [pick] chooses among the minimal-length candidates. *)
Definition min_len (nt : list (list Z)) : nat :=
  match map (@length Z) nt with [] => O | h :: t => fold_right Nat.min h t end.

Definition coarse_blockdim (pick : nat) (blockdims : list (list Z)) : ures :=
  let ds := dedup blockdims in
  if negb (existsb (fun d => match d with [] => false | _ => true end) ds) then UOk []
  else
    let nt := filter nontrivial ds in
    match nt with
    | [] => UOk (first_by_max_head ds)
    | [d] => UOk d
    | d :: _ =>
        if negb (forallb (fun x => zsum x =? zsum d) nt) then UErr
        else
          let cands := filter (fun x => Nat.eqb (length x) (min_len nt)) nt in
          let coarsest := nth pick cands d in
          if forallb (fun x => subset_b (inner_bounds coarsest) (inner_bounds x)) nt
          then UOk coarsest
          else common_blockdim blockdims
    end.

(* moved_fraction(src, dst) = moved / total as an exact rational (num, den) *)
Fixpoint mf_inner (fuel : nat) (src : list Z) (src_start dst_start dst_end best : Z)
  : (list Z * Z * Z) :=
  (* returns (remaining src with current block at head, src_start, best) *)
  match fuel, src with
  | S f, c :: t =>
      let src_end := src_start + c in
      let overlap := Z.min src_end dst_end - Z.max src_start dst_start in
      let best := if overlap >? best then overlap else best in
      match t with
      | _ :: _ => if src_end <=? dst_end then mf_inner f t src_end dst_start dst_end best
                  else (src, src_start, best)
      | [] => (src, src_start, best)
      end
  | _, _ => (src, src_start, best)
  end.

Fixpoint mf_outer (src : list Z) (src_start dst_start : Z) (dst : list Z) (moved : Z) : Z :=
  match dst with
  | [] => moved
  | target :: dst' =>
      let dst_end := dst_start + target in
      let '(src', src_start', best) := mf_inner (S (length src)) src src_start dst_start dst_end 0 in
      mf_outer src' src_start' dst_end dst' (moved + (target - best))
  end.

Definition moved_fraction (src dst : list Z) : Z * Z :=
  let total := zsum src in
  if (total =? 0) || zlist_eqb src dst then (0, 1)
  else if negb (zsum dst =? total) then (0, 1)
  else (mf_outer src 0 0 dst 0, total).

(* ------------------------------------------------------------------ *)
(* specification side *)
(* [refines fine coarse]: every boundary of coarse is a boundary of fine, and
   both lay out the same length — rechunking coarse -> fine only splits blocks *)
Definition refines_b (fine coarse : list Z) : bool :=
  (zsum fine =? zsum coarse) && subset_b (inner_bounds coarse) (inner_bounds fine).
