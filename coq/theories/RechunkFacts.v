(* Facts about the rechunk planner and crosswalk models of Rechunk.v.
   The proofs live in
     RechunkBase.v     shared lemmas (list equality, shape of bound_degree / bound_all)
     RechunkBudget.v   T1  plan_budget, plan_budget_any_rank, plan_budget_rank_le1
     RechunkValid.v    T2  plan_valid_thm (+ merge_to_number_ok, divide_to_width_ok)
     CrosswalkFacts.v  T3  crosswalk_sound (checker soundness)
     IntersectFacts.v  T4  intersect_1d_ok (the computed crosswalk passes the checker)
   This file re-exports them, derives the end-to-end corollaries and prints the
   assumptions of every main theorem. *)
From DA Require Export PyBase PyBaseFacts Rechunk RechunkBase RechunkBudget RechunkValid
                       CrosswalkFacts IntersectFacts.
Open Scope Z_scope.

(* T3 + T4: the crosswalk computed by intersect_1d, in terms of positions *)
Theorem intersect_1d_spec old new :
  nonneg old -> nonneg new -> old <> [] -> zsum old = zsum new ->
  length (intersect_1d old new) = length new /\
  forall j pieces, nth_error (intersect_1d old new) j = Some pieces ->
    pieces <> [] /\
    Forall (piece_in_bounds old) pieces /\
    concat (map (piece_positions old) pieces) = seqZ (cum new j) (cum new (S j)).
Proof.
  intros Ho Hn Hne Hs. apply crosswalk_sound. apply intersect_1d_ok_section; assumption.
Qed.

(* old_to_new on two chunkings of the same shape: every axis passes the checker *)
Theorem old_to_new_ok shape : forall old new,
  layout_ok shape old = true -> layout_ok shape new = true ->
  Forall2 (fun on cw => crosswalk_ok (fst on) (snd on) cw = true) (combine old new) (old_to_new old new).
Proof.
  intros old new Ho Hn. apply layout_ok_iff in Ho. apply layout_ok_iff in Hn.
  unfold layout, old_to_new in *. revert new Hn.
  induction Ho as [|n oc shape' old' Hoa Hof IH]; intros new Hn; inversion Hn as [|? nc ? new' Hna Hnf]; subst;
    cbn [combine map]; constructor.
  - cbn [fst snd]. destruct Hoa as (Ho1 & Ho2 & Ho3). destruct Hna as (Hn1 & Hn2 & Hn3).
    apply intersect_1d_ok_section; [assumption|assumption|assumption|congruence].
  - apply IH. exact Hnf.
Qed.

(* independent cross-check by computation: all pairs of non-empty chunkings
   with at most 5 chunks (zero-size chunks included) and equal sum <= 6 *)
Fixpoint lists_sum (len : nat) (s : nat) : list (list Z) :=
  match len with
  | O => match s with O => [[]] | _ => [] end
  | S len' => flat_map (fun k => map (cons (Z.of_nat k)) (lists_sum len' (s - k))) (seq 0 (S s))
  end.
Definition lists_upto (maxlen s : nat) : list (list Z) := flat_map (fun l => lists_sum l s) (seq 1 maxlen).
Definition check_all (maxlen maxsum : nat) : bool :=
  forallb (fun s => let ls := lists_upto maxlen s in
     forallb (fun o => forallb (fun n => crosswalk_ok o n (intersect_1d o n)) ls) ls) (seq 0 (S maxsum)).

Example intersect_1d_ok_bounded_sum6_len5 : check_all 5 6 = true.
Proof. vm_compute. reflexivity. Qed.

Print Assumptions plan_budget.
Print Assumptions plan_budget_any_rank.
Print Assumptions plan_budget_rank_le1.
Print Assumptions plan_valid_thm.
Print Assumptions merge_to_number_ok.
Print Assumptions divide_to_width_ok.
Print Assumptions crosswalk_sound.
Print Assumptions crosswalk_piece_inside.
Print Assumptions intersect_1d_ok.
Print Assumptions intersect_1d_spec.
Print Assumptions old_to_new_ok.
Print Assumptions intersect_1d_ok_bounded_sum6_len5.
