(* C19 — diff / gradient (DiffGrad.v): the library's plans compute the NumPy definitions *)
From DA Require Import PyBase PyBaseFacts Slicing Slice1dBase Scan Window WindowBase SlidingFacts OverlapFacts DiffGrad.
From Coq Require Import ZifyBool QArith.
Open Scope Z_scope.

Ltac Zify.zify_post_hook ::= Z.to_euclidean_division_equations.

(* ===================================================================================== *)
(* list helpers                                                                          *)

Lemma nth_pyslice {T} (l : list T) (dd : T) lo hi i :
  0 <= lo -> Z.of_nat i < hi - lo -> nth i (pyslice l lo hi) dd = nth (Z.to_nat lo + i) l dd.
Proof.
  intros Hlo Hi. unfold pyslice. rewrite nth_firstn_lt by lia. apply nth_skipn_add.
Qed.

Lemma pyslice_map_seq {B} (f : nat -> B) m u v :
  0 <= u -> u <= v -> v <= Z.of_nat m ->
  pyslice (map f (seq 0 m)) u v = map f (seq (Z.to_nat u) (Z.to_nat (v - u))).
Proof.
  intros Hu Huv Hv. unfold pyslice. rewrite skipn_map, firstn_map, skipn_seq, firstn_seq.
  f_equal. f_equal. lia.
Qed.

Lemma all_some_cons {A} (x : option A) t y r :
  x = Some y -> all_some t = Some r -> all_some (x :: t) = Some (y :: r).
Proof. intros -> H. cbn [all_some]. rewrite H. reflexivity. Qed.

Lemma all_some_head_none {A} (x : option A) t : x = None -> all_some (x :: t) = None.
Proof. intros ->. reflexivity. Qed.

Lemma zsum_map_zlen_concat {A} (blocks : list (list A)) : zsum (map zlen blocks) = zlen (concat blocks).
Proof. induction blocks as [|b t IH]; [reflexivity|]. cbn [map zsum concat]. rewrite zlen_app, IH. reflexivity. Qed.

Lemma Forall_zlen_nonneg {A} (blocks : list (list A)) : Forall (fun c => 0 <= c) (map zlen blocks).
Proof. apply Forall_forall. intros c Hc. apply in_map_iff in Hc as (b & <- & _). apply zlen_nonneg. Qed.

(* ===================================================================================== *)
(* the rechunk of overlap() at depth 1, boundary "none"                                  *)

Lemma zmin_list_ge (cs : list Z) m : cs <> [] -> Forall (fun c => m <= c) cs -> exists mn, zmin_list cs = Some mn /\ m <= mn.
Proof.
  intros Hne HF. destruct cs as [|x t]; [congruence|]. cbn [zmin_list]. eexists. split; [reflexivity|].
  inversion HF as [|? ? Hx Ht]; subst. clear Hne HF. revert x Hx. induction t as [|y t IH]; intros x Hx; cbn [fold_left]; [exact Hx|].
  inversion Ht; subst. apply IH; [assumption | lia].
Qed.

(* ensure_minimum_chunksize succeeds whenever the axis is at least `size` long *)
Lemma ensure_minimum_chunksize_some size cs :
  Forall (fun c => 0 <= c) cs -> cs <> [] -> size <= zsum cs -> exists out, ensure_minimum_chunksize size cs = Some out.
Proof.
  intros Hnn Hne Hsz. unfold ensure_minimum_chunksize.
  destruct (zmin_list_ge cs 0 Hne Hnn) as (mn & -> & Hmn).
  destruct (size <=? mn) eqn:E1; [eexists; reflexivity|].
  assert (Hs0 : 0 < size) by lia.
  pose proof (emc_loop_inv size Hs0 cs [] 0 Hnn ltac:(lia) ltac:(constructor)) as HI.
  destruct (emc_loop size cs [] 0) as [o n]. destruct HI as (I1 & I2 & I3). cbn [zsum] in I3.
  destruct (n >=? size) eqn:E2; [eexists; reflexivity|].
  destruct o as [|o0 o']; [cbn [zsum] in I3; lia | eexists; reflexivity].
Qed.

(* chunks that pass gradient's guard are left alone by overlap()'s rechunk *)
Lemma rechunk_id_ge2 cs : cs <> [] -> Forall (fun c => 2 <= c) cs -> overlap_rechunked_chunks cs 1 1 true = Some cs.
Proof.
  intros Hne HF. unfold overlap_rechunked_chunks, ensure_minimum_chunksize. change (Z.max 1 1) with 1.
  destruct (zmin_list_ge cs 2 Hne HF) as (mn & -> & Hmn).
  destruct (1 <=? mn) eqn:E1; [|lia].
  assert (E2 : match cs with c0 :: c1' :: rest => if c0 <=? 1 then (c0 + c1') :: rest else cs | _ => cs end = cs).
  { destruct cs as [|c0 [|c1' rest]]; try reflexivity. inversion HF; subst. destruct (c0 <=? 1) eqn:E; [lia | reflexivity]. }
  rewrite E2.
  assert (E3 : last cs 0 <=? 1 = false).
  { pose proof (removelast_last_split cs Hne) as S1. rewrite S1 in HF. apply Forall_app in HF as [_ HF]. inversion HF; subst. lia. }
  rewrite E3, andb_false_r. reflexivity.
Qed.

(* after overlap()'s rechunk at depth 1 / boundary "none": one block, or both edge blocks hold >= 2 *)
Lemma rechunk_edges cs out :
  Forall (fun c => 0 <= c) cs -> overlap_rechunked_chunks cs 1 1 true = Some out ->
  zlen out = 1 \/ (2 <= hd 0 out /\ 2 <= last out 0).
Proof.
  intros Hnn. unfold overlap_rechunked_chunks. change (Z.max 1 1) with 1.
  destruct (ensure_minimum_chunksize 1 cs) as [c1|] eqn:E; [|discriminate].
  destruct (ensure_minimum_chunksize_contract _ _ _ Hnn E) as (_ & C2 & _ & C4).
  intros H. injection H as <-.
  set (c2 := match c1 with c0 :: c1' :: rest => if c0 <=? 1 then (c0 + c1') :: rest else c1 | _ => c1 end).
  assert (H2 : Forall (fun c => 1 <= c) c2 /\ c2 <> [] /\ (zlen c2 = 1 \/ 2 <= hd 0 c2)).
  { unfold c2. destruct c1 as [|c0 [|c1' rest]]; [congruence | split; [exact C2 | split; [discriminate | left; reflexivity]] |].
    inversion C2 as [|? ? Q0 Q1]; subst. inversion Q1 as [|? ? Q2 Q3]; subst.
    destruct (c0 <=? 1) eqn:E0.
    - split; [constructor; [lia | exact Q3] | split; [discriminate | right; cbn [hd]; lia]].
    - split; [exact C2 | split; [discriminate | right; cbn [hd]; lia]]. }
  destruct H2 as (D1 & D2 & D3). clearbody c2.
  destruct ((1 <? zlen c2) && (last c2 0 <=? 1)) eqn:E3.
  - apply andb_true_iff in E3 as [E3 E4].
    destruct D3 as [D3|D3]; [lia|].
    pose proof (removelast_last_split c2 D2) as S1.
    assert (D4 : removelast c2 <> []).
    { intros Er. rewrite Er in S1. rewrite S1 in E3. unfold zlen in E3. cbn in E3. lia. }
    pose proof (removelast_last_split (removelast c2) D4) as S2.
    set (u := removelast (removelast c2)) in *. set (p := last (removelast c2) 0) in *. set (q := last c2 0) in *.
    assert (S3 : c2 = (u ++ [p]) ++ [q]) by (rewrite <- S2; exact S1).
    clear S1 S2 D4 D2 E3. clearbody u p q. subst c2.
    apply Forall_app in D1 as [D1 Dq]. apply Forall_app in D1 as [Du Dp].
    inversion Dq as [|? ? Hq _]. inversion Dp as [|? ? Hp _]. subst.
    destruct u as [|u0 u'].
    + left. reflexivity.
    + right. cbn [app hd] in D3. split; [cbn [app hd]; exact D3 | rewrite last_last; lia].
  - destruct D3 as [D3|D3]; [left; exact D3|].
    apply andb_false_iff in E3 as [E3|E3]; [left; destruct c2 as [|z0 c2']; [congruence | pose proof (zlen_nonneg c2'); rewrite zlen_cons in *; lia]|].
    right. split; [exact D3 | lia].
Qed.

(* ===================================================================================== *)
(* gradient: the generic plan                                                            *)

Section GradientFacts.
  Variables T R : Type.
  Variable d : T.
  Variable mid : T -> T -> T -> R.
  Variable lft rgt : list T -> R.
  Variable eo : Z.

  Notation grad_at := (grad_at d mid lft rgt eo).
  Notation np_g := (np_gradient_gen d mid lft rgt eo).

  (* one position: the kernel on the extended block agrees with the global definition *)
  Lemma grad_at_window (xs : list T) a c fr bk (t : nat) :
    (fr = 0 \/ fr = 1) -> (bk = 0 \/ bk = 1) ->
    (fr = 0 -> a = 0) -> (fr = 1 -> 1 <= a) ->
    (bk = 0 -> a + c = zlen xs) -> (bk = 1 -> a + c + 1 <= zlen xs) ->
    1 <= c -> 0 <= eo -> eo + 1 <= c + fr + bk -> Z.of_nat t < c ->
    grad_at (pyslice xs (a - fr) (a + c + bk)) (Z.to_nat fr + t) = grad_at xs (Z.to_nat a + t).
  Proof.
    intros Hfr Hbk Hfr0 Hfr1 Hbk0 Hbk1 Hc Heo Hlen Ht.
    set (ext := pyslice xs (a - fr) (a + c + bk)).
    assert (Hle : zlen ext = c + fr + bk).
    { unfold ext. rewrite pyslice_length by lia. lia. }
    assert (Hle' : length ext = Z.to_nat (c + fr + bk)) by (unfold zlen in Hle; lia).
    assert (Hn : zlen xs = Z.of_nat (length xs)) by reflexivity.
    unfold DiffGrad.grad_at.
    destruct (Z.to_nat fr + t =? 0)%nat eqn:E0.
    - apply Nat.eqb_eq in E0. assert (fr = 0) by lia. assert (t = 0%nat) by lia. subst fr t.
      specialize (Hfr0 eq_refl). subst a. cbn [Z.to_nat Nat.add Nat.eqb]. f_equal.
      unfold ext, pyslice. cbn [Z.to_nat skipn Z.sub]. rewrite firstn_firstn. f_equal. lia.
    - apply Nat.eqb_neq in E0.
      destruct (Z.to_nat a + t =? 0)%nat eqn:E1; [apply Nat.eqb_eq in E1; lia|].
      destruct (S (Z.to_nat fr + t) =? length ext)%nat eqn:E2.
      + apply Nat.eqb_eq in E2. assert (bk = 0) by lia. subst bk. specialize (Hbk0 eq_refl).
        destruct (S (Z.to_nat a + t) =? length xs)%nat eqn:E3; [|apply Nat.eqb_neq in E3; lia].
        f_equal. unfold ext, pyslice, lastn. rewrite firstn_all2 by (rewrite skipn_length; lia).
        rewrite skipn_length, skipn_skipn. f_equal. lia.
      + apply Nat.eqb_neq in E2.
        destruct (S (Z.to_nat a + t) =? length xs)%nat eqn:E3; [apply Nat.eqb_eq in E3; lia|].
        unfold ext. rewrite !nth_pyslice by lia. f_equal; f_equal; lia.
  Qed.

  (* one block: kernel on the extended block, then _trim = the block's part of the global gradient *)
  Lemma gradient_block (xs : list T) a c fr bk :
    (fr = 0 \/ fr = 1) -> (bk = 0 \/ bk = 1) ->
    (fr = 0 -> a = 0) -> (fr = 1 -> 1 <= a) ->
    (bk = 0 -> a + c = zlen xs) -> (bk = 1 -> a + c + 1 <= zlen xs) ->
    1 <= c -> 0 <= eo -> eo + 1 <= c + fr + bk ->
    exists g, np_g (pyslice xs (a - fr) (a + c + bk)) = Some g /\
              pyslice g fr (zlen g - bk) = pyslice (map (grad_at xs) (seq 0 (length xs))) a (a + c).
  Proof.
    intros Hfr Hbk Hfr0 Hfr1 Hbk0 Hbk1 Hc Heo Hlen.
    set (ext := pyslice xs (a - fr) (a + c + bk)).
    assert (Hle : zlen ext = c + fr + bk).
    { unfold ext. rewrite pyslice_length by lia. lia. }
    assert (Hn : zlen xs = Z.of_nat (length xs)) by reflexivity.
    unfold np_gradient_gen. fold ext. destruct (zlen ext <? eo + 1) eqn:E; [lia|].
    eexists. split; [reflexivity|].
    assert (Hlg : zlen (map (grad_at ext) (seq 0 (length ext))) = c + fr + bk).
    { unfold zlen. rewrite map_length, seq_length. exact Hle. }
    rewrite Hlg. rewrite !pyslice_map_seq by (unfold zlen in Hle; lia).
    replace (Z.to_nat (c + fr + bk - bk - fr)) with (Z.to_nat c) by lia.
    replace (Z.to_nat (a + c - a)) with (Z.to_nat c) by lia.
    rewrite (map_seq_shift _ (Z.to_nat fr)), (map_seq_shift _ (Z.to_nat a)).
    apply map_ext_in. intros t Hin. apply in_seq in Hin.
    apply grad_at_window; try assumption. lia.
  Qed.

  (* all blocks: by induction over the layout, block j starting at position a *)
  Lemma gradient_blocks (xs : list T) nb : 0 <= eo ->
    forall cs a j,
      Forall (fun c => 1 <= c) cs -> 0 <= j -> j + zlen cs = nb -> a + zsum cs = zlen xs ->
      (j = 0 -> a = 0) -> (0 < j -> 1 <= a) ->
      Forall (fun lh => eo + 1 <= snd lh - fst lh) (trim_bounds cs a j nb 1 1 true) ->
      exists gs, all_some (map np_g (map (pys xs) (trim_bounds cs a j nb 1 1 true))) = Some gs /\
                 trim_loop gs j nb 1 1 true = split_blocks cs (skipn (Z.to_nat a) (map (grad_at xs) (seq 0 (length xs)))).
  Proof.
    intros Heo. induction cs as [|c t IH]; intros a j Hpos Hj Hnb Hsum Ha0 Ha1 Hlen.
    - exists []. split; reflexivity.
    - inversion Hpos as [|c' t' Hc Ht]; subst c' t'. cbn [trim_bounds] in Hlen. inversion Hlen as [|lh lt Hl1 Hl2]; subst lh lt.
      cbn [fst snd] in Hl1. rewrite zlen_cons in Hnb. cbn [zsum] in Hsum.
      assert (Hzt : 0 <= zsum t) by (apply zsum_nonneg; eapply Forall_impl; [|exact Ht]; cbn; intros; lia).
      pose proof (zlen_nonneg t) as Hlt.
      assert (Hbk0 : bk j nb 1 true = 0 -> a + c = zlen xs).
      { unfold bk. rewrite andb_true_r. destruct (j =? nb - 1) eqn:E; [|lia]. intros _.
        destruct t as [|c2 t2]; [cbn [zsum] in Hsum; lia | rewrite zlen_cons in Hnb; pose proof (zlen_nonneg t2); lia]. }
      assert (Hbk1 : bk j nb 1 true = 1 -> a + c + 1 <= zlen xs).
      { unfold bk. rewrite andb_true_r. destruct (j =? nb - 1) eqn:E; [lia|]. intros _.
        destruct t as [|c2 t2]; [change (zlen (@nil Z)) with 0 in Hnb; lia|].
        inversion Ht as [|c2' t2' Hc2 Ht2]; subst c2' t2'. cbn [zsum] in Hsum, Hzt.
        assert (0 <= zsum t2) by (apply zsum_nonneg; eapply Forall_impl; [|exact Ht2]; cbn; intros; lia). lia. }
      assert (Hfrv : fr j 1 true = 0 \/ fr j 1 true = 1) by (unfold fr; destruct ((j =? 0) && true); lia).
      assert (Hbkv : bk j nb 1 true = 0 \/ bk j nb 1 true = 1)
        by (unfold bk; destruct ((j =? nb - 1) && true); lia).
      assert (Hfr0 : fr j 1 true = 0 -> a = 0) by (unfold fr; rewrite andb_true_r; destruct (j =? 0) eqn:E; [intros _; apply Ha0; lia | lia]).
      assert (Hfr1 : fr j 1 true = 1 -> 1 <= a) by (unfold fr; rewrite andb_true_r; destruct (j =? 0) eqn:E; [lia | intros _; apply Ha1; lia]).
      destruct (gradient_block xs a c (fr j 1 true) (bk j nb 1 true) Hfrv Hbkv Hfr0 Hfr1 Hbk0 Hbk1 Hc Heo ltac:(lia))
        as (g & Eg & Etrim).
      destruct (IH (a + c) (j + 1) Ht ltac:(lia) ltac:(lia) ltac:(lia) ltac:(lia) ltac:(lia) Hl2) as (gs & Egs & Eloop).
      exists (g :: gs). split.
      + cbn [trim_bounds map]. apply all_some_cons; [exact Eg | exact Egs].
      + cbn [trim_loop split_blocks]. f_equal.
        * unfold trim_block. fold (fr j 1 true). fold (bk j nb 1 true).
          rewrite Etrim. unfold pyslice. f_equal. lia.
        * rewrite Eloop. f_equal. rewrite skipn_skipn. f_equal. lia.
  Qed.

  (* every extended block is at least edge_order + 1 long *)
  Lemma ext_lengths cs nb : eo <= 2 -> zlen cs = nb ->
    Forall (fun c => 1 <= c) cs -> eo + 1 <= zsum cs ->
    (nb = 1 \/ (2 <= hd 0 cs /\ 2 <= last cs 0)) ->
    Forall (fun lh => eo + 1 <= snd lh - fst lh) (trim_bounds cs 0 0 nb 1 1 true).
  Proof.
    intros Heo Hnb Hpos Hsum Hedge.
    destruct cs as [|c0 t]; [constructor|].
    destruct t as [|c1 t'].
    - cbn [trim_bounds]. constructor; [|constructor]. cbn [fst snd zsum] in *. unfold fr, bk.
      change (zlen [c0]) with 1 in Hnb. subst nb. cbn. lia.
    - destruct Hedge as [Hedge|[He0 He1]]; [rewrite !zlen_cons in Hnb; pose proof (zlen_nonneg t'); lia|].
      cbn [hd] in He0. cbn [trim_bounds]. constructor.
      + cbn [fst snd]. unfold fr, bk. rewrite !zlen_cons in Hnb. pose proof (zlen_nonneg t').
        change (0 =? 0) with true. cbn [andb]. destruct (0 =? nb - 1) eqn:E; [lia|]. cbn [andb]. lia.
      + (* the remaining blocks: j >= 1, so front = 1; back = 1 except for the last whose size is >= 2 *)
        clear Hsum He0.
        assert (Hgen : forall l a j, Forall (fun c => 1 <= c) l -> l <> [] -> 2 <= last l 0 -> 0 < j -> j + zlen l = nb ->
                   Forall (fun lh => eo + 1 <= snd lh - fst lh) (trim_bounds l a j nb 1 1 true)).
        { induction l as [|x l IH]; intros a j Hp Hne Hl Hj Hjn; [congruence|].
          inversion Hp as [|x' l0 Hx Hp']; subst x' l0. rewrite zlen_cons in Hjn. pose proof (zlen_nonneg l).
          cbn [trim_bounds]. constructor.
          - cbn [fst snd]. unfold fr, bk. destruct (j =? 0) eqn:E0; [lia|]. cbn [andb].
            destruct (j =? nb - 1) eqn:E1; cbn [andb]; [|lia].
            destruct l as [|y l']; [cbn [last] in Hl; lia | rewrite zlen_cons in Hjn; pose proof (zlen_nonneg l'); lia].
          - destruct l as [|y l']; [constructor|].
            apply IH; [exact Hp' | discriminate | exact Hl | lia | lia]. }
        inversion Hpos as [|x' l0 _ Hp']; subst x' l0.
        apply (Hgen (c1 :: t') (0 + c0) (0 + 1)); [exact Hp' | discriminate | exact He1 | lia | rewrite !zlen_cons in *; lia].
  Qed.

  (* (c) WITHOUT the guard: the map_overlap pipeline alone (overlap()'s own rechunk merges edge blocks
     of one element) already computes numpy.gradient whenever numpy.gradient is defined, for every
     layout (blocks of any size >= 0), edge_order 0..2.  The result is laid out in the rechunked chunks. *)
  Theorem gradient_core_correct (blocks : list (list T)) G :
    0 <= eo <= 2 -> blocks <> [] ->
    np_g (concat blocks) = Some G ->
    exists cs, overlap_rechunked_chunks (map zlen blocks) 1 1 true = Some cs /\
               gradient_core d mid lft rgt eo blocks = Some (split_blocks cs G) /\
               concat (split_blocks cs G) = G /\ map zlen (split_blocks cs G) = cs.
  Proof.
    intros Heo Hne HG. set (xs := concat blocks) in *.
    unfold np_gradient_gen in HG. destruct (zlen xs <? eo + 1) eqn:Elen; [discriminate|]. injection HG as <-.
    pose proof (Forall_zlen_nonneg blocks) as Hnn0.
    pose proof (zsum_map_zlen_concat blocks) as Hsum0. fold xs in Hsum0.
    assert (Hne0 : map zlen blocks <> []) by (destruct blocks; [congruence | discriminate]).
    assert (Hov : exists ov, overlap blocks 1 1 BNone = Some ov).
    { unfold overlap, overlap_rechunked_chunks. change (Z.max 1 1) with 1.
      destruct (ensure_minimum_chunksize_some 1 (map zlen blocks) Hnn0 Hne0 ltac:(lia)) as (c1 & ->).
      cbn [is_none]. eexists. reflexivity. }
    destruct Hov as (ov & Eov).
    destruct (overlap_spec blocks 1 1 BNone ov ltac:(lia) ltac:(lia) ltac:(discriminate) Eov) as (cs & E1 & E2 & E3 & E4 & E5).
    cbn [is_none] in E1, E5. change (Z.max 1 1) with 1 in E3. fold xs in E2, E5.
    assert (EP : pad BNone 1 xs = xs) by (unfold pad; cbn; apply app_nil_r).
    rewrite EP in E5. unfold ov_off in E5. cbn [is_none] in E5.
    pose proof (rechunk_edges _ _ Hnn0 E1) as Hedge.
    assert (Hnn : Forall (fun c => 0 <= c) cs) by (eapply Forall_impl; [|exact E3]; cbn; intros; lia).
    assert (Hlens : Forall (fun lh => eo + 1 <= snd lh - fst lh) (trim_bounds cs 0 0 (zlen cs) 1 1 true)).
    { apply ext_lengths; [lia | reflexivity | exact E3 | lia | exact Hedge]. }
    destruct (gradient_blocks xs (zlen cs) ltac:(lia) cs 0 0 E3 ltac:(lia) ltac:(lia) ltac:(lia) ltac:(lia) ltac:(lia) Hlens)
      as (gs & Egs & Eloop).
    exists cs. split; [exact E1|].
    set (G := map (grad_at xs) (seq 0 (length xs))) in *.
    assert (HlenG : zlen G = zlen xs) by (unfold G, zlen; rewrite map_length, seq_length; reflexivity).
    split; [|split; [apply concat_split_blocks; [exact Hnn | lia] | apply map_zlen_split_blocks; [exact Hnn | lia]]].
    unfold gradient_core, gradient_ext. rewrite Eov, E5, Egs. f_equal.
    unfold trim_internal.
    assert (Hl : zlen gs = zlen cs).
    { apply (f_equal (@length _)) in Eloop. rewrite split_blocks_length in Eloop.
      assert (forall (l : list (list R)) j nb, length (trim_loop l j nb 1 1 true) = length l) as Htl
          by (induction l as [|b l IHl]; intros; cbn [trim_loop length]; [reflexivity | rewrite IHl; reflexivity]).
      rewrite Htl in Eloop. unfold zlen. lia. }
    rewrite Hl. exact Eloop.
  Qed.

  (* the pipeline fails exactly when numpy.gradient fails (array shorter than edge_order + 1) *)
  Theorem gradient_core_none (blocks : list (list T)) :
    0 <= eo -> np_g (concat blocks) = None -> gradient_core d mid lft rgt eo blocks = None.
  Proof.
    intros Heo HG. unfold np_gradient_gen in HG. destruct (zlen (concat blocks) <? eo + 1) eqn:Elen; [|discriminate].
    unfold gradient_core, gradient_ext.
    destruct (overlap blocks 1 1 BNone) as [ov|] eqn:Eov; [|reflexivity].
    destruct (overlap_spec blocks 1 1 BNone ov ltac:(lia) ltac:(lia) ltac:(discriminate) Eov) as (cs & E1 & E2 & E3 & E4 & E5).
    assert (EP : pad BNone 1 (concat blocks) = concat blocks) by (unfold pad; cbn; apply app_nil_r).
    rewrite EP in E5. unfold ov_off in E5. cbn [is_none] in E5. subst ov. destruct cs as [|c0 t]; [congruence|].
    cbn [trim_bounds map].
    assert (Hnone : np_g (pys (concat blocks) (0 - fr 0 1 true, 0 + c0 + bk 0 (zlen (c0 :: t)) 1 true)) = None).
    { unfold np_gradient_gen, pys. cbn [fst snd].
      match goal with |- (if ?b then _ else _) = _ => destruct b eqn:Eb end; [reflexivity|].
      exfalso. pose proof (zlen_nonneg (concat blocks)).
      match type of Eb with (zlen ?p <? _) = false => assert (zlen p <= zlen (concat blocks)) end; [|lia].
      unfold pyslice, zlen. rewrite firstn_length, skipn_length. lia. }
    rewrite (all_some_head_none _ _ Hnone). reflexivity.
  Qed.

  (* (a) WITH the guard as gradient() checks it (every chunk >= edge_order + 1): the chunks are kept,
     and the concatenated trimmed per-block gradients are numpy.gradient of the whole array *)
  Theorem gradient_plan_correct (blocks : list (list T)) :
    1 <= eo <= 2 -> blocks <> [] -> gradient_guard eo (map zlen blocks) = true ->
    exists G, np_g (concat blocks) = Some G /\
              gradient_plan d mid lft rgt eo blocks = Some (split_blocks (map zlen blocks) G) /\
              concat (split_blocks (map zlen blocks) G) = G /\
              map zlen (split_blocks (map zlen blocks) G) = map zlen blocks.
  Proof.
    intros Heo Hne Hg.
    assert (HF : Forall (fun c => eo + 1 <= c) (map zlen blocks)).
    { unfold gradient_guard in Hg. rewrite forallb_forall in Hg. apply Forall_forall. intros c Hc.
      specialize (Hg c Hc). lia. }
    assert (Hne0 : map zlen blocks <> []) by (destruct blocks; [congruence | discriminate]).
    assert (Hlen : eo + 1 <= zlen (concat blocks)).
    { rewrite <- zsum_map_zlen_concat. destruct (map zlen blocks) as [|c0 t]; [congruence|].
      inversion HF as [|? ? H0 Ht]; subst. cbn [zsum].
      assert (0 <= zsum t) by (apply zsum_nonneg; eapply Forall_impl; [|exact Ht]; cbn; intros; lia). lia. }
    assert (HG : exists G, np_g (concat blocks) = Some G).
    { unfold np_gradient_gen. destruct (zlen (concat blocks) <? eo + 1) eqn:E; [lia | eexists; reflexivity]. }
    destruct HG as (G & HG). exists G. split; [exact HG|].
    destruct (gradient_core_correct blocks G ltac:(lia) Hne HG) as (cs & E1 & E2 & E3 & E4).
    rewrite rechunk_id_ge2 in E1 by (assumption || (eapply Forall_impl; [|exact HF]; cbn; intros; lia)).
    injection E1 as <-.
    unfold gradient_plan. rewrite Hg. split; [exact E2 | split; [exact E3 | exact E4]].
  Qed.

  (* the guard only rejects: when it fails the routine raises, although the pipeline would have been right *)
  Theorem gradient_plan_guard_none (blocks : list (list T)) :
    gradient_guard eo (map zlen blocks) = false -> gradient_plan d mid lft rgt eo blocks = None.
  Proof. intros H. unfold gradient_plan. rewrite H. reflexivity. Qed.
End GradientFacts.

(* ===================================================================================== *)
(* gradient: the instances                                                               *)

(* twice the unit-spacing gradient *)
Theorem da_gradient2_correct eo (blocks : list (list Z)) :
  1 <= eo <= 2 -> blocks <> [] -> gradient_guard eo (map zlen blocks) = true ->
  exists G, np_gradient2 eo (concat blocks) = Some G /\
            da_gradient2 eo blocks = Some (split_blocks (map zlen blocks) G) /\
            concat (split_blocks (map zlen blocks) G) = G /\
            map zlen (split_blocks (map zlen blocks) G) = map zlen blocks.
Proof. apply gradient_plan_correct. Qed.

Theorem da_gradient2_core_correct eo (blocks : list (list Z)) G :
  0 <= eo <= 2 -> blocks <> [] -> np_gradient2 eo (concat blocks) = Some G ->
  exists cs, overlap_rechunked_chunks (map zlen blocks) 1 1 true = Some cs /\
             da_gradient2_core eo blocks = Some (split_blocks cs G) /\
             concat (split_blocks cs G) = G /\ map zlen (split_blocks cs G) = cs.
Proof. apply gradient_core_correct. Qed.

Theorem da_gradient2_core_none eo (blocks : list (list Z)) :
  0 <= eo -> np_gradient2 eo (concat blocks) = None -> da_gradient2_core eo blocks = None.
Proof. apply gradient_core_none. Qed.

(* scalar spacing h, exact rationals *)
Theorem da_gradient_correct eo (h : Q) (blocks : list (list Z)) :
  1 <= eo <= 2 -> blocks <> [] -> gradient_guard eo (map zlen blocks) = true ->
  exists G, np_gradient eo h (concat blocks) = Some G /\
            da_gradient eo h blocks = Some (split_blocks (map zlen blocks) G) /\
            concat (split_blocks (map zlen blocks) G) = G /\
            map zlen (split_blocks (map zlen blocks) G) = map zlen blocks.
Proof. apply gradient_plan_correct. Qed.

(* the scalar-spacing gradient is the twice-gradient over 2h, position by position *)
Theorem np_gradient_over2h eo (h : Q) (l : list Z) :
  np_gradient eo h l = option_map (map (over2h h)) (np_gradient2 eo l).
Proof.
  unfold np_gradient, np_gradient2, np_gradient_gen. destruct (zlen l <? eo + 1); [reflexivity|].
  cbn [option_map]. f_equal. rewrite map_map. apply map_ext. intros i. unfold grad_at.
  destruct (i =? 0)%nat; [reflexivity|]. destruct (S i =? length l)%nat; reflexivity.
Qed.

(* coordinates *)
Theorem da_gradient_x_correct eo (blocks : list (list (Z * Z))) :
  1 <= eo <= 2 -> blocks <> [] -> gradient_guard eo (map zlen blocks) = true ->
  exists G, np_gradient_x eo (concat blocks) = Some G /\
            da_gradient_x eo blocks = Some (split_blocks (map zlen blocks) G) /\
            concat (split_blocks (map zlen blocks) G) = G /\
            map zlen (split_blocks (map zlen blocks) G) = map zlen blocks.
Proof. apply gradient_plan_correct. Qed.

(* ===================================================================================== *)
(* (d) array_locs: the coordinate window of block j is the block plus its one-element halo *)

Lemma map2_cons {A B C} (f : A -> B -> C) x a y b : map2 f (x :: a) (y :: b) = f x y :: map2 f a b.
Proof. reflexivity. Qed.

(* the un-patched arrays: start0[j] = a_j - 1, stop0[j] = a_j + c_j + 1 *)
Lemma array_locs_raw cs : forall acc,
  combine (map2 (fun s c => s - c - 2) (map (fun s => s + 1) (cumsum_from acc cs)) cs) (map (fun s => s + 1) (cumsum_from acc cs))
  = map (fun lh => (fst lh - 1, snd lh + 1)) (trim_bounds cs acc 0 0 0 0 false).
Proof.
  induction cs as [|c t IH]; intros acc; [reflexivity|].
  cbn [cumsum_from map map2 combine trim_bounds]. f_equal.
  - unfold fr, bk. cbn [fst snd]. rewrite !andb_false_r. f_equal; lia.
  - rewrite IH. f_equal. apply trim_bounds_depth0.
Qed.

Lemma set_last_cons2 v (x y : Z) r : set_last v (x :: y :: r) = x :: set_last v (y :: r).
Proof. reflexivity. Qed.

Lemma last_stop0 t : forall acc, t <> [] -> last (map (fun s => s + 1) (cumsum_from acc t)) 0 - 1 = acc + zsum t.
Proof.
  induction t as [|c t IH]; intros acc Hne; [congruence|].
  destruct t as [|c' t'].
  - cbn [cumsum_from map last zsum]. lia.
  - change (cumsum_from acc (c :: c' :: t')) with ((acc + c) :: cumsum_from (acc + c) (c' :: t')).
    cbn [map]. change (cumsum_from (acc + c) (c' :: t')) with ((acc + c + c') :: cumsum_from (acc + c + c') t').
    cbn [map last].
    specialize (IH (acc + c) ltac:(discriminate)).
    change (cumsum_from (acc + c) (c' :: t')) with ((acc + c + c') :: cumsum_from (acc + c + c') t') in IH.
    cbn [map last] in IH. cbn [zsum] in *. lia.
Qed.

Lemma array_locs_tail nb : forall t acc j v,
  0 < j -> j + zlen t = nb -> t <> [] -> v = acc + zsum t ->
  combine (map2 (fun s c => s - c - 2) (map (fun s => s + 1) (cumsum_from acc t)) t)
          (set_last v (map (fun s => s + 1) (cumsum_from acc t)))
  = trim_bounds t acc j nb 1 1 true.
Proof.
  induction t as [|c t IH]; intros acc j v Hj Hnb Hne Hv; [congruence|].
  rewrite zlen_cons in Hnb. pose proof (zlen_nonneg t) as Hlt.
  destruct t as [|c' t'].
  - cbn [cumsum_from map map2 set_last removelast app combine trim_bounds zsum] in *.
    unfold fr, bk. change (zlen (@nil Z)) with 0 in Hnb.
    destruct (j =? 0) eqn:E0; [lia|]. destruct (j =? nb - 1) eqn:E1; [|lia]. cbn [andb]. f_equal. f_equal; lia.
  - change (cumsum_from acc (c :: c' :: t')) with ((acc + c) :: cumsum_from (acc + c) (c' :: t')).
    cbn [map]. change (cumsum_from (acc + c) (c' :: t')) with ((acc + c + c') :: cumsum_from (acc + c + c') t').
    cbn [map]. rewrite set_last_cons2, map2_cons. cbn [combine trim_bounds]. f_equal.
    + unfold fr, bk. rewrite zlen_cons in Hnb. pose proof (zlen_nonneg t').
      destruct (j =? 0) eqn:E0; [lia|]. destruct (j =? nb - 1) eqn:E1; [lia|]. cbn [andb]. f_equal; lia.
    + specialize (IH (acc + c) (j + 1) v ltac:(lia) ltac:(lia) ltac:(discriminate) ltac:(cbn [zsum] in *; lia)).
      change (cumsum_from (acc + c) (c' :: t')) with ((acc + c + c') :: cumsum_from (acc + c + c') t') in IH.
      cbn [map] in IH. exact IH.
Qed.

(* (d) for EVERY layout: the (start, stop) pairs of array_locs are the bounds of the overlapped blocks
   [a_j - front_j, a_j + c_j + back_j), front_0 = 0 = back_last, 1 otherwise *)
Theorem array_locs_bounds cs : cs <> [] ->
  combine (fst (array_locs cs)) (snd (array_locs cs)) = trim_bounds cs 0 0 (zlen cs) 1 1 true.
Proof.
  intros Hne. destruct cs as [|c0 t]; [congruence|]. unfold array_locs, cumsum.
  destruct t as [|c1 t'].
  - cbn [cumsum_from map map2 set_first set_last last removelast app fst snd combine trim_bounds].
    unfold fr, bk. change (zlen [c0]) with 1. cbn [Z.eqb Z.sub Z.add Z.opp Z.pos_sub andb]. f_equal. f_equal; lia.
  - change (cumsum_from 0 (c0 :: c1 :: t')) with ((0 + c0) :: cumsum_from (0 + c0) (c1 :: t')).
    cbn [map]. rewrite map2_cons. cbn [set_first fst snd].
    change (cumsum_from (0 + c0) (c1 :: t')) with ((0 + c0 + c1) :: cumsum_from (0 + c0 + c1) t').
    cbn [map]. rewrite set_last_cons2. cbn [combine trim_bounds]. f_equal.
    + unfold fr, bk. rewrite !zlen_cons. pose proof (zlen_nonneg t').
      change (0 =? 0) with true. destruct (0 =? zlen t' + 1 + 1 - 1) eqn:E1; [lia|]. cbn [andb]. f_equal; lia.
    + pose proof (array_locs_tail (zlen (c0 :: c1 :: t')) (c1 :: t') (0 + c0) (0 + 1)
                   (last ((0 + c0 + 1) :: map (fun s => s + 1) (cumsum_from (0 + c0) (c1 :: t'))) 0 - 1)
                   ltac:(lia) ltac:(rewrite !zlen_cons; lia) ltac:(discriminate)) as H.
      change (cumsum_from (0 + c0) (c1 :: t')) with ((0 + c0 + c1) :: cumsum_from (0 + c0 + c1) t') in H.
      cbn [map] in H. apply H.
      pose proof (last_stop0 (c1 :: t') (0 + c0) ltac:(discriminate)) as HL.
      change (cumsum_from (0 + c0) (c1 :: t')) with ((0 + c0 + c1) :: cumsum_from (0 + c0 + c1) t') in HL.
      cbn [map] in HL. cbn [last] in *. exact HL.
Qed.

(* the coordinate windows handed to the kernel are the overlapped blocks of the coordinate array:
   block j of gradient_ext(coord in the same chunks) = coord[array_locs[0][j] : array_locs[1][j]] *)
Theorem coord_windows_overlap {A} (cblocks : list (list A)) :
  cblocks <> [] -> Forall (fun c => 2 <= c) (map zlen cblocks) ->
  gradient_ext cblocks = Some (coord_windows (concat cblocks) (map zlen cblocks)).
Proof.
  intros Hne HF. unfold gradient_ext.
  assert (Hne0 : map zlen cblocks <> []) by (destruct cblocks; [congruence | discriminate]).
  destruct (overlap cblocks 1 1 BNone) as [ov|] eqn:Eov.
  - destruct (overlap_spec cblocks 1 1 BNone ov ltac:(lia) ltac:(lia) ltac:(discriminate) Eov) as (cs & E1 & E2 & E3 & E4 & E5).
    cbn [is_none] in E1. rewrite rechunk_id_ge2 in E1 by assumption. injection E1 as <-.
    assert (EP : pad BNone 1 (concat cblocks) = concat cblocks) by (unfold pad; cbn; apply app_nil_r).
    rewrite EP in E5. unfold ov_off in E5. cbn [is_none] in E5. rewrite E5.
    unfold coord_windows. rewrite array_locs_bounds by exact Hne0. reflexivity.
  - exfalso. unfold overlap in Eov. cbn [is_none] in Eov. rewrite rechunk_id_ge2 in Eov by assumption. discriminate.
Qed.

(* ===================================================================================== *)
(* (b) diff                                                                              *)

Lemma pyslice_tl {A} (r : list A) : pyslice r 1 (zlen r) = tl r.
Proof.
  unfold pyslice. change (Z.to_nat 1) with 1%nat. destruct r as [|x r]; [apply firstn_nil|].
  cbn [skipn tl]. apply firstn_all2. unfold zlen. cbn [length]. lia.
Qed.

Lemma pyslice_removelast {A} (r : list A) : pyslice r 0 (zlen r - 1) = removelast r.
Proof.
  unfold pyslice. cbn [Z.to_nat skipn]. rewrite removelast_firstn_len. f_equal. unfold zlen. lia.
Qed.

(* r[1:] - r[:-1] *)
Lemma diff_step_tl r : diff_step r = map2 Z.sub (tl r) (removelast r).
Proof. unfold diff_step. rewrite pyslice_tl, pyslice_removelast. reflexivity. Qed.

Lemma diff_step_cons2 x y t : diff_step (x :: y :: t) = (y - x) :: diff_step (y :: t).
Proof. rewrite !diff_step_tl. reflexivity. Qed.

Lemma np_diff1_cons2 x y t : np_diff1 (x :: y :: t) = (y - x) :: np_diff1 (y :: t).
Proof.
  unfold np_diff1. cbn [length]. rewrite !Nat.sub_succ, !Nat.sub_0_r. cbn [seq map nth]. f_equal.
  rewrite <- seq_shift, map_map. reflexivity.
Qed.

(* one step of the loop is NumPy's first difference *)
Theorem diff_step_spec l : diff_step l = np_diff1 l.
Proof.
  induction l as [|x l IH]; [reflexivity|]. destruct l as [|y t]; [reflexivity|].
  rewrite diff_step_cons2, np_diff1_cons2, IH. reflexivity.
Qed.

Lemma diff_loop_S_out n : forall r, diff_loop (S n) r = diff_step (diff_loop n r).
Proof. induction n as [|n IH]; intros r; [reflexivity|]. cbn [diff_loop] in *. rewrite <- IH. reflexivity. Qed.

(* the loop is the n-th difference *)
Theorem diff_loop_spec n l : diff_loop n l = np_diff n l.
Proof.
  induction n as [|n IH]; [reflexivity|]. rewrite diff_loop_S_out, IH, diff_step_spec. reflexivity.
Qed.

Lemma np_diff1_length l : length (np_diff1 l) = (length l - 1)%nat.
Proof. unfold np_diff1. rewrite map_length, seq_length. reflexivity. Qed.

Theorem np_diff_length n l : length (np_diff n l) = (length l - n)%nat.
Proof. induction n as [|n IH]; cbn [np_diff]; [lia|]. rewrite np_diff1_length, IH. lia. Qed.

Lemma diff_combined_length p q a :
  zlen (diff_combined p q a) = match p with None => 0 | Some x => zlen x end + zlen a + match q with None => 0 | Some y => zlen y end.
Proof. unfold diff_combined. rewrite !zlen_app. destruct p, q; change (zlen (@nil Z)) with 0; lia. Qed.

(* diff() = numpy.diff for every n (negative: both raise; 0: the array itself, prepend / append
   ignored), with len(result) = max(0, len(prepend) + len(a) + len(append) - n) *)
Theorem da_diff_correct n p q a :
  da_diff n p q a = np_diff_full n p q a /\
  (forall r, da_diff n p q a = Some r -> n <> 0 -> zlen r = Z.max 0 (zlen (diff_combined p q a) - n)).
Proof.
  unfold da_diff, np_diff_full. destruct (n =? 0) eqn:E0.
  - split; [reflexivity|]. intros r _ Hn. lia.
  - destruct (n <? 0) eqn:E1; [split; [reflexivity | discriminate]|].
    rewrite diff_loop_spec. split; [reflexivity|]. intros r Hr _. injection Hr as <-.
    unfold zlen. rewrite np_diff_length. lia.
Qed.

(* ---- the closed form -------------------------------------------------------------------- *)
Lemma zsum_seq_first (f : nat -> Z) n : zsum (map f (seq 0 (S n))) = f 0%nat + zsum (map (fun k => f (S k)) (seq 0 n)).
Proof. cbn [seq map zsum]. rewrite <- seq_shift, map_map. reflexivity. Qed.

Lemma zsum_seq_last (f : nat -> Z) n : zsum (map f (seq 0 (S n))) = zsum (map f (seq 0 n)) + f n.
Proof. rewrite seq_S, map_app, zsum_app. cbn [map zsum Nat.add]. lia. Qed.

Lemma zsum_map_sub (f g : nat -> Z) l : zsum (map (fun k => f k - g k) l) = zsum (map f l) - zsum (map g l).
Proof. induction l as [|x l IH]; cbn [map zsum]; lia. Qed.

Lemma sbinom_gt n : forall k, (n < k)%nat -> sbinom n k = 0.
Proof.
  induction n as [|n IH]; intros k Hk; destruct k as [|k]; try lia; cbn [sbinom]; [reflexivity|].
  rewrite (IH k), (IH (S k)) by lia. reflexivity.
Qed.

(* Pascal: sum_k sbinom (n+1) k a(k) = sum_k sbinom n k a(k+1) - sum_k sbinom n k a(k) *)
Lemma sbinom_sum_step (a : nat -> Z) n :
  zsum (map (fun k => sbinom (S n) k * a k) (seq 0 (S (S n)))) =
  zsum (map (fun k => sbinom n k * a (S k)) (seq 0 (S n))) - zsum (map (fun k => sbinom n k * a k) (seq 0 (S n))).
Proof.
  rewrite (zsum_seq_first (fun k => sbinom (S n) k * a k)).
  rewrite (map_ext (fun k => sbinom (S n) (S k) * a (S k)) (fun k => sbinom n k * a (S k) - sbinom n (S k) * a (S k)))
    by (intros k; cbn [sbinom]; ring).
  rewrite (zsum_map_sub (fun k => sbinom n k * a (S k)) (fun k => sbinom n (S k) * a (S k))).
  rewrite (zsum_seq_last (fun k => sbinom n (S k) * a (S k))).
  rewrite (zsum_seq_first (fun k => sbinom n k * a k)).
  rewrite (sbinom_gt n (S n)) by lia.
  destruct n; cbn [sbinom]; lia.
Qed.

Lemma nth_map_seq {B} (f : nat -> B) m i dd : (i < m)%nat -> nth i (map f (seq 0 m)) dd = f i.
Proof.
  intros Hi. rewrite (nth_indep _ dd (f 0%nat)) by (rewrite map_length, seq_length; exact Hi).
  rewrite map_nth, seq_nth by exact Hi. reflexivity.
Qed.

(* the n-th difference is the alternating binomial combination of n + 1 consecutive samples *)
Theorem np_diff_closed_form n : forall l, np_diff n l = np_diff_closed n l.
Proof.
  induction n as [|n IH]; intros l.
  - unfold np_diff_closed. cbn [np_diff seq map zsum sbinom]. rewrite Nat.sub_0_r.
    rewrite (map_ext _ (fun i => nth i l 0)) by (intros i; rewrite Nat.add_0_r; lia).
    apply list_eq_nth_error; [reflexivity|]. intros p Hp. apply nth_error_nth'. exact Hp.
  - cbn [np_diff]. rewrite IH. unfold np_diff1, np_diff_closed at 1 3.
    rewrite map_length, seq_length. replace (length l - n - 1)%nat with (length l - S n)%nat by lia.
    apply map_ext_in. intros i Hi. apply in_seq in Hi.
    unfold np_diff_closed. rewrite !nth_map_seq by lia.
    rewrite (sbinom_sum_step (fun k => nth (i + k) l 0) n).
    f_equal. apply f_equal. apply map_ext. intros k. do 2 f_equal. lia.
Qed.

(* sbinom is the signed binomial coefficient *)
Lemma binom_gt n : forall k, (n < k)%nat -> binom n k = 0.
Proof.
  induction n as [|n IH]; intros k Hk; destruct k as [|k]; try lia; cbn [binom]; [reflexivity|].
  rewrite (IH k), (IH (S k)) by lia. reflexivity.
Qed.

Theorem sbinom_binom n : forall k, (k <= n)%nat -> sbinom n k = (-1) ^ Z.of_nat (n - k) * binom n k.
Proof.
  induction n as [|n IH]; intros k Hk.
  - assert (k = 0%nat) by lia. subst k. reflexivity.
  - destruct k as [|k].
    + cbn [sbinom binom]. rewrite (IH 0%nat) by lia. rewrite !Nat.sub_0_r.
      replace (binom n 0) with 1 by (destruct n; reflexivity).
      rewrite Nat2Z.inj_succ, Z.pow_succ_r by lia. ring.
    + cbn [sbinom binom]. rewrite Nat.sub_succ. rewrite (IH k) by lia.
      destruct (Nat.eq_dec k n) as [->|Hne].
      * rewrite (sbinom_gt n (S n)), (binom_gt n (S n)) by lia. ring.
      * rewrite (IH (S k)) by lia. replace (n - k)%nat with (S (n - S k)) by lia.
        rewrite Nat2Z.inj_succ, Z.pow_succ_r by lia. ring.
Qed.

(* ---- numpy.gradient as NumPy writes it: slices ------------------------------------------- *)
Lemma map2_nth {A B C} (f : A -> B -> C) (da : A) (db : B) : forall (a : list A) (b : list B),
  map2 f a b = map (fun j => f (nth j a da) (nth j b db)) (seq 0 (Nat.min (length a) (length b))).
Proof.
  induction a as [|x a IH]; intros b; [reflexivity|]. destruct b as [|y b]; [reflexivity|].
  cbn [map2 length Nat.min seq map nth]. f_equal. rewrite <- seq_shift, map_map. apply IH.
Qed.

(* out[0] = one-sided; out[1:-1] = f[2:] - f[:-2] (over 2h); out[-1] = one-sided *)
Theorem np_gradient2_slices eo (l : list Z) :
  2 <= zlen l -> eo + 1 <= zlen l ->
  np_gradient2 eo l =
  Some ([lft2 eo (firstn (Z.to_nat (eo + 1)) l)]
        ++ map2 Z.sub (pyslice l 2 (zlen l)) (pyslice l 0 (zlen l - 2))
        ++ [rgt2 eo (lastn (eo + 1) l)]).
Proof.
  intros H2 Heo. unfold np_gradient2, np_gradient_gen. destruct (zlen l <? eo + 1) eqn:E; [lia|]. f_equal.
  assert (Hn : exists m, length l = S (S m)) by (exists (length l - 2)%nat; unfold zlen in H2; lia).
  destruct Hn as (m & Hm). rewrite Hm.
  replace (S (S m)) with (1 + (m + 1))%nat by lia. rewrite seq_app, seq_app. cbn [seq Nat.add]. rewrite !map_app. cbn [map app].
  f_equal. f_equal.
  - rewrite (map2_nth Z.sub 0 0). unfold pyslice.
    rewrite firstn_length, skipn_length, firstn_length, skipn_length. unfold zlen. rewrite Hm.
    replace (Nat.min (Nat.min (Z.to_nat (Z.of_nat (S (S m)) - 2)) (S (S m) - Z.to_nat 2))
                     (Nat.min (Z.to_nat (Z.of_nat (S (S m)) - 2 - 0)) (S (S m) - Z.to_nat 0))) with m by lia.
    rewrite (map_seq_shift _ 1). apply map_ext_in. intros j Hj. apply in_seq in Hj.
    unfold grad_at. rewrite Hm. cbn [Nat.add Nat.eqb].
    destruct (j =? m)%nat eqn:E1; [apply Nat.eqb_eq in E1; lia|].
    unfold mid2. rewrite !nth_firstn_lt by lia. rewrite !nth_skipn_add. cbn [Z.to_nat Nat.add Nat.sub].
    change (Pos.to_nat 2) with 2%nat. cbn [Nat.add]. rewrite ?Nat.sub_0_r. reflexivity.
  - unfold grad_at. rewrite Hm. replace (1 + m)%nat with (S m) by lia. cbn [Nat.eqb].
    rewrite Nat.eqb_refl. reflexivity.
Qed.
