(* L2 — N-dimensional arrays as index functions, and the array operations the
   expression optimizer rewrites (NumPy semantics as index remappings).
   Definitions only; proofs are in NdArrayFacts.v.

   An array is a shape and a total function from index lists to values; only
   in-bounds indices matter, and equality is the setoid [aeq] (no functional
   extensionality).  Axis numbers and axis permutations are [nat]; lengths,
   positions and slice fields are [Z]. *)
From DA Require Export PyBase Slicing.
Open Scope Z_scope.

(* ---------------------------------------------------------------------- *)
(* indices *)
Fixpoint in_bounds (idx shp : list Z) : Prop :=
  match idx, shp with
  | [], [] => True
  | i :: idx', n :: shp' => 0 <= i < n /\ in_bounds idx' shp'
  | _, _ => False
  end.

Fixpoint in_boundsb (idx shp : list Z) : bool :=
  match idx, shp with
  | [], [] => true
  | i :: idx', n :: shp' => (0 <=? i) && (i <? n) && in_boundsb idx' shp'
  | _, _ => false
  end.

(* every index of a shape, row-major (used by the executable examples) *)
Fixpoint all_indices (shp : list Z) : list (list Z) :=
  match shp with
  | [] => [[]]
  | n :: shp' => flat_map (fun i => map (cons i) (all_indices shp')) (zrange 0 n 1)
  end.

Section NdArray.
  Variable V : Type.

  Record arr := mkarr { shape : list Z; get : list Z -> V }.

  Definition aeq (a b : arr) : Prop :=
    shape a = shape b /\ forall idx, in_bounds idx (shape a) -> get a idx = get b idx.
End NdArray.
Arguments mkarr {V} _ _.
Arguments shape {V} _.
Arguments get {V} _ _.
Arguments aeq {V} _ _.

(* ---------------------------------------------------------------------- *)
(* basic slicing  x[ix]  with ix a list of ints, slices and newaxis; missing
   trailing entries are full slices.
   [slice_shape] is the result shape; [slice_src ix shp out] is the index of x
   that element [out] of the result is read from: along a sliced axis element j
   comes from position  nth j (sel s n)  (PyBase.sel is the specification of a
   Python slice), an integer i selects position i (i + n when negative), a
   newaxis consumes one (size-1) result axis and no axis of x. *)
Fixpoint slice_shape (ix : list pidx) (shp : list Z) : list Z :=
  match ix with
  | [] => shp
  | IInt _ :: ix' => slice_shape ix' (tl shp)
  | ISlice s :: ix' => slice_len s (hd 0 shp) :: slice_shape ix' (tl shp)
  | INone :: ix' => 1 :: slice_shape ix' shp
  end.

Fixpoint slice_src (ix : list pidx) (shp : list Z) (out : list Z) : list Z :=
  match ix with
  | [] => out
  | IInt i :: ix' => posify_int (hd 0 shp) i :: slice_src ix' (tl shp) out
  | ISlice s :: ix' => nthZ (sel s (hd 0 shp)) (hd 0 out) :: slice_src ix' (tl shp) (tl out)
  | INone :: ix' => slice_src ix' shp (tl out)
  end.

Definition aslice {V} (ix : list pidx) (a : arr V) : arr V :=
  mkarr (slice_shape ix (shape a)) (fun out => get a (slice_src ix (shape a) out)).

(* an index list is a valid basic index (no newaxis) for a shape: one entry per
   axis, integers in [-n, n), steps non-zero *)
Fixpoint idx_okb (ix : list pidx) (shp : list Z) : bool :=
  match ix, shp with
  | [], [] => true
  | IInt i :: ix', n :: shp' => check_int n i && idx_okb ix' shp'
  | ISlice s :: ix', n :: shp' => negb (step_of s =? 0) && idx_okb ix' shp'
  | _, _ => false
  end.

Definition is_int (x : pidx) : bool := match x with IInt _ => true | _ => false end.
Definition is_sliceb (x : pidx) : bool := match x with ISlice _ => true | _ => false end.
Definition nslices (ix : list pidx) : nat := length (filter is_sliceb ix).

(* ---------------------------------------------------------------------- *)
(* transpose: axes[k] is the input axis that becomes output axis k *)
Definition pickn {A} (d : A) (l : list A) (js : list nat) : list A := map (fun j => nth j l d) js.

Fixpoint index_of (d : nat) (l : list nat) : nat :=
  match l with
  | [] => O
  | x :: t => if Nat.eqb x d then O else S (index_of d t)
  end.

(* Transpose._inverse_axes: inv[axes[i]] = i *)
Definition inv_axes (axes : list nat) : list nat :=
  map (fun d => index_of d axes) (seq 0 (length axes)).

Definition transpose_shape (axes : list nat) (shp : list Z) : list Z := pickn 0 shp axes.
Definition transpose_src (axes : list nat) (out : list Z) : list Z := pickn 0 out (inv_axes axes).

Definition atranspose {V} (axes : list nat) (a : arr V) : arr V :=
  mkarr (transpose_shape axes (shape a)) (fun out => get a (transpose_src axes out)).

(* axes is a permutation of 0..n-1 *)
Definition is_permb (axes : list nat) (n : nat) : bool :=
  Nat.eqb (length axes) n && forallb (fun d => existsb (Nat.eqb d) axes) (seq 0 n).

(* ---------------------------------------------------------------------- *)
(* NumPy broadcasting: shapes are aligned at the right, size-1 axes stretch *)
Definition bdim (n m : Z) : Z := if n =? 1 then m else n.

(* on reversed shapes (last axis first) broadcasting is a zip that keeps the
   longer tail *)
Fixpoint rbshape (a b : list Z) : list Z :=
  match a, b with
  | [], _ => b
  | _, [] => a
  | x :: a', y :: b' => bdim x y :: rbshape a' b'
  end.
Definition bshape (a b : list Z) : list Z := rev (rbshape (rev a) (rev b)).
Definition bshape_all (l : list (list Z)) : list Z := fold_right bshape [] l.

(* [sa] broadcasts into [o]: at most as many axes, and every axis (right
   aligned) is 1 or the size of o's axis *)
Fixpoint rbcast_intob (ra ro : list Z) : bool :=
  match ra, ro with
  | [], _ => true
  | _ :: _, [] => false
  | n :: ra', m :: ro' => ((n =? 1) || (n =? m)) && rbcast_intob ra' ro'
  end.
Definition bcast_intob (sa o : list Z) : bool := rbcast_intob (rev sa) (rev o).

(* the index of an operand of shape [sa] that output index [out] reads: the
   last (length sa) entries of out, with 0 on the stretched (size-1) axes *)
Definition lastn {A} (k : nat) (l : list A) : list A := skipn (length l - k) l.
Fixpoint mask (shp out : list Z) : list Z :=
  match shp, out with
  | n :: shp', i :: out' => (if n =? 1 then 0 else i) :: mask shp' out'
  | _, _ => []
  end.
Definition bidx (sa out : list Z) : list Z := mask sa (lastn (length sa) out).

(* n-ary element-wise application: f receives the operands' values in order *)
Definition aelemwise {V} (f : list V -> V) (args : list (arr V)) : arr V :=
  mkarr (bshape_all (map shape args))
        (fun out => f (map (fun a => get a (bidx (shape a) out)) args)).

Definition abroadcast_to {V} (shp : list Z) (a : arr V) : arr V :=
  mkarr shp (fun out => get a (bidx (shape a) out)).

(* ---------------------------------------------------------------------- *)
(* expand_dims: [axes] are the positions of the new size-1 axes in the OUTPUT;
   the output has (length shp + length axes) axes *)
Definition memn (x : nat) (l : list nat) : bool := existsb (Nat.eqb x) l.

Fixpoint expand_shape_from (pos fuel : nat) (axes : list nat) (shp : list Z) : list Z :=
  match fuel with
  | O => []
  | S f => if memn pos axes then 1 :: expand_shape_from (S pos) f axes shp
           else hd 0 shp :: expand_shape_from (S pos) f axes (tl shp)
  end.
Definition expand_shape (axes : list nat) (shp : list Z) : list Z :=
  expand_shape_from 0 (length shp + length axes) axes shp.

Fixpoint drop_axes_from (pos : nat) (axes : list nat) (out : list Z) : list Z :=
  match out with
  | [] => []
  | i :: out' => if memn pos axes then drop_axes_from (S pos) axes out'
                 else i :: drop_axes_from (S pos) axes out'
  end.
Definition expand_src (axes : list nat) (out : list Z) : list Z := drop_axes_from 0 axes out.

Definition aexpand_dims {V} (axes : list nat) (a : arr V) : arr V :=
  mkarr (expand_shape axes (shape a)) (fun out => get a (expand_src axes out)).

(* ---------------------------------------------------------------------- *)
(* concatenate along [axis]: first array, then the rest *)
Fixpoint set_nth (k : nat) (v : Z) (l : list Z) : list Z :=
  match l, k with
  | [], _ => []
  | _ :: t, O => v :: t
  | x :: t, S k' => x :: set_nth k' v t
  end.

Fixpoint concat_get {V} (axis : nat) (a : arr V) (rest : list (arr V)) (out : list Z) : V :=
  match rest with
  | [] => get a out
  | b :: rest' =>
      let j := nth axis out 0 in
      let n := nth axis (shape a) 0 in
      if j <? n then get a out else concat_get axis b rest' (set_nth axis (j - n) out)
  end.

Definition concat_shape (axis : nat) (s : list Z) (rest : list (list Z)) : list Z :=
  set_nth axis (zsum (map (fun t => nth axis t 0) (s :: rest))) s.

Definition aconcat {V} (axis : nat) (a : arr V) (rest : list (arr V)) : arr V :=
  mkarr (concat_shape axis (shape a) (map shape rest)) (concat_get axis a rest).

(* ---------------------------------------------------------------------- *)
(* stack along a new axis [axis] (0 <= axis <= ndim): the new axis has one
   position per stacked array *)
Definition insert_at {A} (k : nat) (v : A) (l : list A) : list A := firstn k l ++ v :: skipn k l.
Definition remove_at {A} (k : nat) (l : list A) : list A := firstn k l ++ skipn (S k) l.

Definition astack {V} (axis : nat) (a : arr V) (rest : list (arr V)) : arr V :=
  mkarr (insert_at axis (Z.of_nat (S (length rest))) (shape a))
        (fun out => get (nth (Z.to_nat (nth axis out 0)) (a :: rest) a) (remove_at axis out)).

(* a constant array (ones / zeros / full) *)
Definition afull {V} (shp : list Z) (v : V) : arr V := mkarr shp (fun _ => v).

(* ---------------------------------------------------------------------- *)
(* rechunk: chunks are metadata; the denoted array is unchanged *)
Definition arechunk {V} (chunks : list (list Z)) (a : arr V) : arr V := a.

(* arange(start, .., step) with [count] elements, values injected into V *)
Definition aarange {V} (inj : Z -> V) (start step count : Z) : arr V :=
  mkarr [count] (fun out => inj (start + hd 0 out * step)).

(* materialise an array as the list of its values in row-major order *)
Definition to_list {V} (a : arr V) : list V := map (get a) (all_indices (shape a)).
