(* Proofs about the transfer-estimate models of Transfer2.v (property C27):
   OverlapInternal, Stack, CumReduction, CumReductionBlelloch, Shuffle.
   (The sliding / moving window models are in Transfer2WindowFacts.v.) *)
From DA Require Import PyBase PyBaseFacts Slicing Unify UnifyFacts Transfer TransferFacts Transfer2.
From Coq Require Import ZifyBool.
Open Scope Z_scope.
Ltac Zify.zify_post_hook ::= Z.to_euclidean_division_equations.

(* ====================================================================== *)
(* shapes, cross sections, hyperplanes *)

Definition pos_layout (l : list Z) : Prop := Forall (fun c => 0 < c) l.

Lemma pos_nonneg l : pos_layout l -> nonneg_layout l.
Proof. unfold pos_layout, nonneg_layout. apply Forall_impl. intros a Ha. lia. Qed.

Lemma shape_nonneg chunks :
  Forall nonneg_layout chunks -> Forall (fun x => 0 <= x) (shape_of chunks).
Proof.
  unfold shape_of. induction 1 as [|c t Hc _ IH]; cbn [map]; constructor; [|exact IH].
  apply zsum_nonneg. exact Hc.
Qed.

Lemma drop_nth_Forall {A} (P : A -> Prop) n : forall l, Forall P l -> Forall P (drop_nth n l).
Proof.
  induction n as [|n IH]; intros l H; destruct H as [|x t Hx Ht]; cbn [drop_nth]; try constructor; auto.
Qed.

Lemma cross_nonneg chunks axis itemsize :
  0 <= itemsize -> Forall nonneg_layout chunks -> 0 <= cross_section chunks axis itemsize.
Proof.
  intros Hi Hc. unfold cross_section.
  pose proof (zprod_nonneg _ (drop_nth_Forall _ axis _ (shape_nonneg _ Hc))). nia.
Qed.

Lemma nbytes_nonneg chunks itemsize :
  0 <= itemsize -> Forall nonneg_layout chunks -> 0 <= nbytes_of chunks itemsize.
Proof.
  intros Hi Hc. unfold nbytes_of. pose proof (zprod_nonneg _ (shape_nonneg _ Hc)). nia.
Qed.

Lemma zprod_drop_nth n : forall l, (n < length l)%nat -> zprod l = nth n l 0 * zprod (drop_nth n l).
Proof.
  induction n as [|n IH]; intros l H; destruct l as [|x t]; cbn [length] in H; try lia.
  - cbn [nth drop_nth zprod]. reflexivity.
  - cbn [nth drop_nth zprod]. rewrite (IH t) by lia. ring.
Qed.

Lemma shape_nth chunks axis : nth axis (shape_of chunks) 0 = zsum (nth axis chunks []).
Proof. unfold shape_of. change 0 with (zsum []). apply map_nth. Qed.

(* x.nbytes = n * cross: one hyperplane along the axis has `cross` bytes *)
Lemma nbytes_cross chunks axis itemsize :
  (axis < length chunks)%nat ->
  nbytes_of chunks itemsize = zsum (nth axis chunks []) * cross_section chunks axis itemsize.
Proof.
  intros H. unfold nbytes_of, cross_section.
  rewrite (zprod_drop_nth axis (shape_of chunks)) by (unfold shape_of; rewrite map_length; exact H).
  rewrite shape_nth. ring.
Qed.

(* the Python quotient x.nbytes / n is exact: it is the cross section *)
Theorem row_bytes_exact chunks axis itemsize :
  (axis < length chunks)%nat -> zsum (nth axis chunks []) <> 0 ->
  nbytes_of chunks itemsize / zsum (nth axis chunks []) = cross_section chunks axis itemsize.
Proof.
  intros H Hn. rewrite (nbytes_cross chunks axis itemsize H).
  rewrite Z.mul_comm. apply Z.div_mul. exact Hn.
Qed.

Lemma nth_nonneg_layout chunks axis : Forall nonneg_layout chunks -> nonneg_layout (nth axis chunks []).
Proof.
  intros H. destruct (nth_in_or_default axis chunks []) as [Hin|Heq].
  - rewrite Forall_forall in H. apply H. exact Hin.
  - rewrite Heq. constructor.
Qed.

Lemma row_bytes_nonneg chunks axis itemsize :
  0 <= itemsize -> Forall nonneg_layout chunks ->
  0 <= nbytes_of chunks itemsize / zsum (nth axis chunks []).
Proof.
  intros Hi Hc. pose proof (nbytes_nonneg _ _ Hi Hc) as Hb.
  pose proof (zsum_nonneg _ (nth_nonneg_layout chunks axis Hc)) as Hn.
  destruct (Z.eq_dec (zsum (nth axis chunks [])) 0) as [E|E].
  - rewrite E. rewrite Zdiv_0_r. lia.
  - apply Z.div_pos; lia.
Qed.

(* ====================================================================== *)
(* OverlapInternal *)

Definition depth_ok (d : Z * Z) : Prop := 0 <= fst d /\ 0 <= snd d.

Lemma hd_le_zsum l : nonneg_layout l -> hd 0 l <= zsum l.
Proof.
  intros H. destruct H as [|x t Hx Ht]; cbn [hd zsum]; [lia|].
  pose proof (zsum_nonneg _ Ht). lia.
Qed.

Lemma last_le_zsum l : nonneg_layout l -> last l 0 <= zsum l.
Proof.
  induction 1 as [|x t Hx Ht IH]; [cbn; lia|].
  destruct t as [|y t']; [cbn; lia|].
  change (last (x :: y :: t') 0) with (last (y :: t') 0). cbn [zsum] in *. lia.
Qed.

Lemma ov_axis_mono chunks_all itemsize axis c d ghost fetches g f :
  0 <= itemsize -> Forall nonneg_layout chunks_all -> nonneg_layout c -> depth_ok d ->
  ov_axis chunks_all itemsize axis c d ghost fetches = (g, f) ->
  ghost <= g /\ fetches <= f.
Proof.
  intros Hi Hall Hc [Hb Ha] H. destruct d as [before after]. cbn [fst snd] in Hb, Ha.
  unfold ov_axis in H.
  pose proof (cross_nonneg chunks_all axis itemsize Hi Hall) as Hx.
  pose proof (hd_le_zsum c Hc) as Hh. pose proof (last_le_zsum c Hc) as Hl.
  set (cross := cross_section chunks_all axis itemsize) in *.
  destruct ((Z.of_nat (length c) <? 2) || ((before =? 0) && (after =? 0))) eqn:E.
  - injection H as <- <-. lia.
  - apply orb_false_iff in E. destruct E as [E1 _].
    assert (2 <= Z.of_nat (length c)) as Hlen by lia.
    destruct (before =? 0) eqn:Eb; destruct (after =? 0) eqn:Ea; injection H as <- <-; split; nia.
Qed.

Lemma ov_loop_mono chunks_all itemsize : forall chunks depths axis ghost fetches g f,
  0 <= itemsize -> Forall nonneg_layout chunks_all -> Forall nonneg_layout chunks -> Forall depth_ok depths ->
  ov_loop chunks_all itemsize axis chunks depths ghost fetches = (g, f) ->
  ghost <= g /\ fetches <= f.
Proof.
  induction chunks as [|c cs IH]; intros depths axis ghost fetches g f Hi Hall Hcs Hds H.
  - cbn [ov_loop] in H. injection H as <- <-. lia.
  - destruct depths as [|d ds]; [cbn [ov_loop] in H; injection H as <- <-; lia|].
    cbn [ov_loop] in H.
    destruct (ov_axis chunks_all itemsize axis c d ghost fetches) as [g1 f1] eqn:E1.
    inversion Hcs as [|? ? Hc Hcs']; subst. inversion Hds as [|? ? Hd Hds']; subst.
    pose proof (ov_axis_mono _ _ _ _ _ _ _ _ _ Hi Hall Hc Hd E1) as [A B].
    pose proof (IH ds (S axis) g1 f1 g f Hi Hall Hcs' Hds' H) as [C D]. lia.
Qed.

Theorem overlap_wellformed chunks depths itemsize :
  0 <= itemsize -> Forall nonneg_layout chunks -> Forall depth_ok depths ->
  wellformed (overlap_transfer chunks depths itemsize).
Proof.
  intros Hi Hc Hd. unfold overlap_transfer.
  destruct (ov_loop chunks itemsize 0 chunks depths 0 0) as [g f] eqn:E.
  pose proof (ov_loop_mono _ _ _ _ _ _ _ _ _ Hi Hc Hc Hd E) as [A B].
  pose proof (nbytes_nonneg _ _ Hi Hc). unfold wellformed. cbn [fst snd]. lia.
Qed.

(* nothing is exchanged along an axis with a single block or with depth 0 *)
Definition no_exchange (cd : list Z * (Z * Z)) : Prop :=
  (length (fst cd) < 2)%nat \/ snd cd = (0, 0).

Lemma ov_loop_no_exchange chunks_all itemsize : forall chunks depths axis ghost fetches,
  Forall no_exchange (combine chunks depths) ->
  ov_loop chunks_all itemsize axis chunks depths ghost fetches = (ghost, fetches).
Proof.
  induction chunks as [|c cs IH]; intros depths axis ghost fetches H; [reflexivity|].
  destruct depths as [|d ds]; [reflexivity|].
  cbn [combine] in H. inversion H as [|? ? Hcd Hrest]; subst.
  cbn [ov_loop].
  assert (ov_axis chunks_all itemsize axis c d ghost fetches = (ghost, fetches)) as ->.
  { unfold ov_axis. destruct d as [before after]. destruct Hcd as [Hl|Hz]; cbn [fst snd] in *.
    - assert (Z.of_nat (length c) <? 2 = true) as -> by lia. reflexivity.
    - injection Hz as -> ->. rewrite orb_true_r. reflexivity. }
  apply IH. exact Hrest.
Qed.

Theorem overlap_no_exchange_zero chunks depths itemsize :
  Forall no_exchange (combine chunks depths) ->
  overlap_transfer chunks depths itemsize = (0, nbytes_of chunks itemsize).
Proof.
  intros H. unfold overlap_transfer. rewrite ov_loop_no_exchange by exact H. f_equal. lia.
Qed.

(* what min is when one axis exchanges: (before + after) hyperplanes per internal boundary *)
Theorem overlap_one_axis chunks before after itemsize :
  (2 <= length chunks)%nat -> (before, after) <> (0, 0) ->
  fst (overlap_transfer [chunks] [(before, after)] itemsize) =
  (before + after) * (Z.of_nat (length chunks) - 1) * itemsize.
Proof.
  intros Hl Hd. unfold overlap_transfer. cbn [ov_loop]. unfold ov_axis.
  assert (Z.of_nat (length chunks) <? 2 = false) as -> by lia.
  assert ((before =? 0) && (after =? 0) = false) as ->.
  { destruct (before =? 0) eqn:E1; destruct (after =? 0) eqn:E2; try reflexivity.
    exfalso. apply Hd. f_equal; lia. }
  cbn [orb]. unfold cross_section, shape_of. cbn [map drop_nth zprod].
  destruct (before =? 0); destruct (after =? 0); cbn [fst]; ring.
Qed.

(* ====================================================================== *)
(* Stack *)
Theorem stack_wellformed nbytes :
  Forall (fun b => 0 <= b) nbytes -> wellformed (stack_transfer nbytes).
Proof. intros H. unfold wellformed, stack_transfer. cbn [fst snd]. pose proof (zsum_nonneg _ H). lia. Qed.

Theorem stack_min_zero nbytes : fst (stack_transfer nbytes) = 0.
Proof. reflexivity. Qed.

(* ====================================================================== *)
(* CumReduction / CumReductionBlelloch *)

Lemma cum_carry_nonneg h chunks axis itemsize :
  0 <= h -> 0 <= itemsize -> Forall nonneg_layout chunks -> 0 <= cum_carry h chunks axis itemsize.
Proof.
  intros Hh Hi Hc. unfold cum_carry.
  destruct (zsum (nth axis chunks []) =? 0) eqn:E; [lia|].
  pose proof (row_bytes_nonneg chunks axis itemsize Hi Hc) as Hr.
  assert (1 <= Z.of_nat (length (nth axis chunks []))) as Hk.
  { destruct (nth axis chunks []) as [|x t]; cbn [zsum length] in *; lia. }
  nia.
Qed.

(* the carried state is `hyperplanes * (k - 1)` cross sections *)
Theorem cum_carry_hyperplanes h chunks axis itemsize :
  (axis < length chunks)%nat ->
  cum_carry h chunks axis itemsize =
  if zsum (nth axis chunks []) =? 0 then 0
  else h * (Z.of_nat (length (nth axis chunks [])) - 1) * cross_section chunks axis itemsize.
Proof.
  intros H. unfold cum_carry. destruct (zsum (nth axis chunks []) =? 0) eqn:E; [reflexivity|].
  rewrite row_bytes_exact by (try exact H; lia). reflexivity.
Qed.

Lemma cum_carry_single h chunks axis itemsize :
  length (nth axis chunks []) = 1%nat -> cum_carry h chunks axis itemsize = 0.
Proof. intros H. unfold cum_carry. rewrite H. destruct (_ =? 0); lia. Qed.

(* min = lo, max = hn / hd *)
Theorem cum_wellformed chunks axis itemsize lo hn hd :
  0 <= itemsize -> Forall nonneg_layout chunks ->
  cum_transfer chunks axis itemsize = Some (lo, (hn, hd)) ->
  0 < hd /\ 0 <= lo /\ lo * hd <= hn.
Proof.
  intros Hi Hc H. unfold cum_transfer in H.
  pose proof (cum_carry_nonneg 1 chunks axis itemsize ltac:(lia) Hi Hc) as Hcar.
  pose proof (nbytes_nonneg _ _ Hi Hc) as Hb.
  remember (Z.of_nat (length (nth axis chunks []))) as k eqn:Ek.
  remember (cum_carry 1 chunks axis itemsize) as c eqn:Ec.
  remember (nbytes_of chunks itemsize) as nb eqn:Enb.
  destruct (k =? 0) eqn:E; [discriminate|].
  assert (lo = c /\ hn = nb * (3 * k - 2) + 2 * c * k /\ hd = k) as (-> & -> & ->)
    by (repeat split; congruence).
  assert (1 <= k) as Hk by lia.
  assert (0 <= nb * (3 * k - 2)) by nia. assert (0 <= c * k) by nia.
  repeat split; lia.
Qed.

Theorem cum_total chunks axis itemsize :
  nth axis chunks [] <> [] -> exists r, cum_transfer chunks axis itemsize = Some r.
Proof.
  intros H. unfold cum_transfer.
  destruct (nth axis chunks []) as [|x t]; [congruence|].
  cbn [length]. destruct (Z.of_nat (S (length t)) =? 0) eqn:E; [lia|]. eexists. reflexivity.
Qed.

(* a single block along the axis carries nothing: (0, x.nbytes) *)
Theorem cum_single_block chunks axis itemsize :
  length (nth axis chunks []) = 1%nat ->
  cum_transfer chunks axis itemsize = Some (0, (nbytes_of chunks itemsize, 1)).
Proof.
  intros H. unfold cum_transfer. rewrite (cum_carry_single 1 _ _ _ H). rewrite H.
  change (Z.of_nat 1) with 1. cbn [Z.eqb].
  replace (nbytes_of chunks itemsize * (3 * 1 - 2) + 2 * 0 * 1) with (nbytes_of chunks itemsize) by lia.
  reflexivity.
Qed.

Theorem blelloch_wellformed chunks axis itemsize :
  0 <= itemsize -> Forall nonneg_layout chunks ->
  wellformed (blelloch_transfer chunks axis itemsize).
Proof.
  intros Hi Hc. unfold blelloch_transfer, wellformed. cbn [fst snd].
  pose proof (cum_carry_nonneg 3 chunks axis itemsize ltac:(lia) Hi Hc).
  pose proof (nbytes_nonneg _ _ Hi Hc). lia.
Qed.

Theorem blelloch_single_block chunks axis itemsize :
  length (nth axis chunks []) = 1%nat ->
  blelloch_transfer chunks axis itemsize = (0, 2 * nbytes_of chunks itemsize).
Proof.
  intros H. unfold blelloch_transfer. rewrite (cum_carry_single 3 _ _ _ H). f_equal. lia.
Qed.

(* ====================================================================== *)
(* Shuffle *)

Definition vals (counts : list (Z * Z)) : list Z := map snd counts.

Lemma count_add_vals b : forall counts,
  Forall (fun v => 0 <= v) (vals counts) ->
  Forall (fun v => 0 <= v) (vals (count_add b counts)) /\
  zsum (vals (count_add b counts)) = zsum (vals counts) + 1.
Proof.
  induction counts as [|[b' c] t IH]; intros H.
  - cbn. split; [repeat constructor; lia | lia].
  - cbn [count_add]. unfold vals in *. cbn [map snd] in H. inversion H as [|? ? Hc Ht]; subst.
    destruct (b =? b') eqn:E.
    + cbn [map snd zsum]. split; [constructor; [lia | exact Ht] | lia].
    + cbn [map snd zsum]. destruct (IH Ht) as [A B]. split; [constructor; [lia | exact A] | lia].
Qed.

Lemma sh_counts_fold bounds : forall idx counts,
  Forall (fun v => 0 <= v) (vals counts) ->
  let r := fold_left (fun counts i => count_add (bisect_right bounds i) counts) idx counts in
  Forall (fun v => 0 <= v) (vals r) /\ zsum (vals r) = zsum (vals counts) + zlen idx.
Proof.
  induction idx as [|i t IH]; intros counts H; cbn [fold_left].
  - unfold zlen. cbn [length]. split; [exact H | lia].
  - destruct (count_add_vals (bisect_right bounds i) counts H) as [A B].
    destruct (IH _ A) as [C D]. split; [exact C|]. rewrite D, B. unfold zlen. cbn [length]. lia.
Qed.

Lemma max_le_sum l : Forall (fun v => 0 <= v) l -> 0 <= fold_right Z.max 0 l <= zsum l.
Proof. induction 1 as [|x t Hx Ht IH]; cbn [fold_right zsum]; lia. Qed.

Lemma max_eq_sum_short l : Forall (fun v => 0 <= v) l -> (length l <= 1)%nat -> fold_right Z.max 0 l = zsum l.
Proof.
  intros H Hl. destruct l as [|x [|y t]]; cbn [length] in Hl; try lia.
  - reflexivity.
  - inversion H; subst. cbn. lia.
Qed.

Lemma sh_group_inv axis_chunks bounds lo splits merges idx lo' splits' merges' :
  nonneg_layout axis_chunks ->
  sh_group axis_chunks bounds (lo, splits, merges) idx = (lo', splits', merges') ->
  0 <= lo' - lo /\ lo' - lo <= (splits' - splits) + (merges' - merges).
Proof.
  intros Hc H. unfold sh_group in H.
  pose proof (sh_counts_fold bounds idx [] ltac:(constructor)) as [Hv Hs].
  fold (sh_counts bounds idx) in Hv, Hs. cbn [vals map zsum] in Hs.
  set (counts := sh_counts bounds idx) in *.
  pose proof (max_le_sum _ Hv) as [Hm0 Hm1]. fold (vals counts) in H.
  assert (0 <= zsum (map (fun e => nthZ axis_chunks (fst e)) counts)) as Hsp.
  { apply zsum_nonneg. rewrite Forall_forall. intros v Hin. apply in_map_iff in Hin.
    destruct Hin as (e & <- & _). apply nthZ_nonneg. exact Hc. }
  destruct (1 <? zlen counts) eqn:E; injection H as <- <- <-.
  - lia.
  - assert (length (vals counts) <= 1)%nat as Hl by (unfold vals, zlen in *; rewrite map_length; lia).
    pose proof (max_eq_sum_short _ Hv Hl). lia.
Qed.

Lemma sh_fold_inv axis_chunks bounds : forall new_chunks lo splits merges lo' splits' merges',
  nonneg_layout axis_chunks -> 0 <= lo <= splits + merges ->
  fold_left (sh_group axis_chunks bounds) new_chunks (lo, splits, merges) = (lo', splits', merges') ->
  0 <= lo' <= splits' + merges'.
Proof.
  induction new_chunks as [|idx t IH]; intros lo splits merges lo' splits' merges' Hc Hinv H; cbn [fold_left] in H.
  - injection H as <- <- <-. exact Hinv.
  - destruct (sh_group axis_chunks bounds (lo, splits, merges) idx) as [[l1 s1] m1] eqn:E.
    pose proof (sh_group_inv _ _ _ _ _ _ _ _ _ Hc E).
    apply (IH l1 s1 m1 lo' splits' merges' Hc); [lia | exact H].
Qed.

(* for EVERY grouping new_chunks (not only the ones _new_chunks builds) and every index list *)
Theorem shuffle_wellformed chunks axis itemsize new_chunks :
  0 <= itemsize -> Forall nonneg_layout chunks ->
  wellformed (shuffle_transfer chunks axis itemsize new_chunks).
Proof.
  intros Hi Hc. unfold shuffle_transfer.
  destruct (zsum (nth axis chunks []) =? 0) eqn:En; [unfold wellformed; cbn; lia|].
  pose proof (row_bytes_nonneg chunks axis itemsize Hi Hc) as Hr.
  set (rb := nbytes_of chunks itemsize / zsum (nth axis chunks [])) in *.
  destruct (fold_left _ new_chunks (0, 0, 0)) as [[lo splits] merges] eqn:E.
  assert (0 <= 0 <= 0 + 0) as H0 by lia.
  pose proof (sh_fold_inv _ _ _ _ _ _ _ _ _ (nth_nonneg_layout chunks axis Hc) H0 E).
  unfold wellformed. cbn [fst snd]. nia.
Qed.

Theorem shuffle_empty_axis chunks axis itemsize new_chunks :
  zsum (nth axis chunks []) = 0 -> shuffle_transfer chunks axis itemsize new_chunks = (0, 0).
Proof. intros H. unfold shuffle_transfer. rewrite H. reflexivity. Qed.

(* "nothing moves": every output chunk is drawn from a single source block -> min = 0 *)
Definition one_source (bounds : list Z) (idx : list Z) : Prop :=
  exists b, Forall (fun i => bisect_right bounds i = b) idx.

Lemma sh_counts_one_source bounds b : forall idx c,
  Forall (fun i => bisect_right bounds i = b) idx ->
  fold_left (fun counts i => count_add (bisect_right bounds i) counts) idx [(b, c)] = [(b, c + zlen idx)].
Proof.
  assert (forall x y : Z, x = y -> [(b, x)] = [(b, y)]) as Hp by (intros; subst; reflexivity).
  induction idx as [|i t IH]; intros c H; cbn [fold_left].
  - apply Hp. unfold zlen. cbn [length]. lia.
  - inversion H as [|? ? Hi Ht]; subst. cbn [count_add]. rewrite Z.eqb_refl.
    rewrite IH by exact Ht. apply Hp. unfold zlen. cbn [length]. lia.
Qed.

Lemma sh_group_one_source axis_chunks bounds lo splits merges idx :
  one_source bounds idx ->
  fst (fst (sh_group axis_chunks bounds (lo, splits, merges) idx)) = lo.
Proof.
  intros [b H]. unfold sh_group. cbn [fst].
  destruct idx as [|i t].
  - cbn. lia.
  - unfold sh_counts. cbn [fold_left]. inversion H as [|? ? Hi Ht]; subst. cbn [count_add].
    rewrite sh_counts_one_source by exact Ht. cbn [map snd fold_right].
    unfold zlen. cbn [length]. lia.
Qed.

Lemma sh_fold_one_source axis_chunks bounds : forall new_chunks lo splits merges,
  Forall (one_source bounds) new_chunks ->
  fst (fst (fold_left (sh_group axis_chunks bounds) new_chunks (lo, splits, merges))) = lo.
Proof.
  induction new_chunks as [|idx t IH]; intros lo splits merges H; cbn [fold_left]; [reflexivity|].
  inversion H as [|? ? H1 Ht]; subst.
  pose proof (sh_group_one_source axis_chunks bounds lo splits merges idx H1) as E.
  destruct (sh_group axis_chunks bounds (lo, splits, merges) idx) as [[l1 s1] m1]. cbn [fst] in E. subst l1.
  apply IH. exact Ht.
Qed.

Theorem shuffle_one_source_min_zero chunks axis itemsize new_chunks :
  Forall (one_source (cumsum (nth axis chunks []))) new_chunks ->
  fst (shuffle_transfer chunks axis itemsize new_chunks) = 0.
Proof.
  intros H. unfold shuffle_transfer.
  destruct (zsum (nth axis chunks []) =? 0); [reflexivity|].
  pose proof (sh_fold_one_source (nth axis chunks []) (cumsum (nth axis chunks [])) new_chunks 0 0 0 H) as E.
  destruct (fold_left _ new_chunks (0, 0, 0)) as [[lo splits] merges]. cbn [fst] in *. subst lo. reflexivity.
Qed.
