(* Arithmetic and list facts used by the proofs about _slice_1d (Slice1dFacts.v):
   shifting / splitting of ranges, prefix sums of chunk lists, and what
   bisect on the cumulative sums computes. *)
From DA Require Import PyBase PyBaseFacts Slicing.
From Coq Require Import ZifyBool.
Open Scope Z_scope.
Ltac Zify.zify_post_hook ::= Z.to_euclidean_division_equations.

Definition nonneg (c : Z) : Prop := 0 <= c.

(* ---------------------------------------------------------------------- *)
(* ranges *)

Lemma range_len_shift c a b k : range_len (c + a) (c + b) k = range_len a b k.
Proof.
  unfold range_len.
  replace (c + b - (c + a) - 1) with (b - a - 1) by ring.
  replace (c + a - (c + b) - 1) with (a - b - 1) by ring.
  assert ((c + a <? c + b) = (a <? b)) as -> by lia.
  assert ((c + b <? c + a) = (b <? a)) as -> by lia.
  reflexivity.
Qed.

Lemma zrange_shift c a b k : map (fun p => c + p) (zrange a b k) = zrange (c + a) (c + b) k.
Proof.
  unfold zrange. rewrite range_len_shift, map_map. apply map_ext. intros i. ring.
Qed.

Lemma zrange_eq a a' b b' k :
  a = a' -> range_len a b k = range_len a' b' k -> zrange a b k = zrange a' b' k.
Proof. intros <- H. apply zrange_ext. exact H. Qed.

Lemma zrange_nil_pos a b k : 0 < k -> b <= a -> zrange a b k = [].
Proof. intros. apply zrange_empty, range_len_empty_pos; assumption. Qed.

Lemma zrange_nil_neg a b k : k < 0 -> a <= b -> zrange a b k = [].
Proof. intros. apply zrange_empty, range_len_empty_neg; assumption. Qed.

(* dropping the first m elements of a range *)
Lemma range_len_pos_drop a b k m :
  0 < k -> 0 <= m <= range_len a b k -> range_len (a + m * k) b k = range_len a b k - m.
Proof.
  intros Hk Hm.
  destruct (Z.eq_dec (range_len a b k) 0) as [H0|H0].
  - assert (m = 0) as -> by lia. replace (a + 0 * k) with a by ring. lia.
  - assert (a < b) as Hab.
    { rewrite range_len_pos_step in H0 by lia. destruct (a <? b) eqn:E; lia. }
    pose proof (range_len_pos_last a b k Hk Hab) as HL.
    pose proof (range_len_pos_next a b k Hk Hab) as HN.
    set (M := range_len a b k) in *.
    apply range_len_pos_unique; lia.
Qed.

Lemma range_len_neg_drop a b k m :
  k < 0 -> 0 <= m <= range_len a b k -> range_len (a + m * k) b k = range_len a b k - m.
Proof.
  intros Hk Hm.
  destruct (Z.eq_dec (range_len a b k) 0) as [H0|H0].
  - assert (m = 0) as -> by lia. replace (a + 0 * k) with a by ring. lia.
  - assert (b < a) as Hab.
    { rewrite range_len_neg_step in H0 by lia. destruct (b <? a) eqn:E; lia. }
    pose proof (range_len_neg_last a b k Hk Hab) as HL.
    pose proof (range_len_neg_next a b k Hk Hab) as HN.
    set (M := range_len a b k) in *.
    apply range_len_neg_unique; lia.
Qed.

(* split a range at an intermediate stop b1 *)
Lemma zrange_split_stop a b b1 k :
  k <> 0 -> range_len a b1 k <= range_len a b k ->
  zrange a b k = zrange a b1 k ++ zrange (a + range_len a b1 k * k) b k.
Proof.
  intros Hk Hle.
  pose proof (range_len_nonneg a b1 k) as Hm.
  rewrite (zrange_split_count a b k (range_len a b1 k)) by lia.
  f_equal. unfold zrange at 1.
  assert (range_len (a + range_len a b1 k * k) b k = range_len a b k - range_len a b1 k) as ->.
  { assert (0 < k \/ k < 0) as [Hp|Hn] by lia.
    - apply range_len_pos_drop; lia.
    - apply range_len_neg_drop; lia. }
  reflexivity.
Qed.

(* the positive-step loop step: cut the range at a block end c *)
Lemma zrange_split_pos a b c k :
  0 < k -> a <= c ->
  zrange a b k = zrange a (Z.min b c) k ++ zrange (c + (a - c) mod k) b k.
Proof.
  intros Hk Hac.
  destruct (Z_le_gt_dec b c) as [Hbc|Hbc].
  - rewrite Z.min_l by lia.
    rewrite (zrange_nil_pos (c + (a - c) mod k) b k) by lia.
    rewrite app_nil_r. reflexivity.
  - rewrite Z.min_r by lia.
    destruct (Z.eq_dec a c) as [->|Hne].
    + rewrite (zrange_nil_pos c c k) by lia. replace (c - c) with 0 by ring.
      rewrite Z.mod_0_l by lia. replace (c + 0) with c by ring. reflexivity.
    + assert (a < c) as Hlt by lia.
      pose proof (range_len_pos_last a c k Hk Hlt) as HL.
      pose proof (range_len_pos_next a c k Hk Hlt) as HN.
      assert (a < b) as Hab by lia.
      pose proof (range_len_pos_last a b k Hk Hab) as HL'.
      pose proof (range_len_pos_next a b k Hk Hab) as HN'.
      assert (range_len a c k <= range_len a b k) as Hle by nia.
      rewrite (zrange_split_stop a b c k) by lia.
      f_equal. f_equal.
      set (m := range_len a c k) in *.
      assert ((a - c) mod k = a + m * k - c) as ->; [|ring].
      symmetry. apply (Z.mod_unique_pos (a - c) k (- m)); [lia | ring].
Qed.

(* the negative-step loop step: cut the range just below a block start
   (c1 = chunk_start - 1 is the last position outside the block) *)
Lemma zrange_split_neg a b c1 k :
  k < 0 -> c1 <= a ->
  zrange a b k = zrange a (Z.max b c1) k ++ zrange (c1 + (a - c1) mod k) b k.
Proof.
  intros Hk Hac.
  destruct (Z_le_gt_dec c1 b) as [Hbc|Hbc].
  - rewrite Z.max_l by lia.
    rewrite (zrange_nil_neg (c1 + (a - c1) mod k) b k) by lia.
    rewrite app_nil_r. reflexivity.
  - rewrite Z.max_r by lia.
    destruct (Z.eq_dec a c1) as [->|Hne].
    + rewrite (zrange_nil_neg c1 c1 k) by lia. replace (c1 - c1) with 0 by ring.
      rewrite Z.mod_0_l by lia. replace (c1 + 0) with c1 by ring. reflexivity.
    + assert (c1 < a) as Hlt by lia.
      pose proof (range_len_neg_last a c1 k Hk Hlt) as HL.
      pose proof (range_len_neg_next a c1 k Hk Hlt) as HN.
      assert (b < a) as Hab by lia.
      pose proof (range_len_neg_last a b k Hk Hab) as HL'.
      pose proof (range_len_neg_next a b k Hk Hab) as HN'.
      assert (range_len a c1 k <= range_len a b k) as Hle by nia.
      rewrite (zrange_split_stop a b c1 k) by lia.
      f_equal. f_equal.
      set (m := range_len a c1 k) in *.
      assert ((a - c1) mod k = a + m * k - c1) as ->; [|ring].
      symmetry. apply (Z.mod_unique_neg (a - c1) k (- m)); [lia | ring].
Qed.

(* ---------------------------------------------------------------------- *)
(* prefix sums *)

Lemma lenZ_nonneg {A} (l : list A) : 0 <= lenZ l.
Proof. unfold lenZ. lia. Qed.

Lemma lenZ_app {A} (l1 l2 : list A) : lenZ (l1 ++ l2) = lenZ l1 + lenZ l2.
Proof. unfold lenZ. rewrite app_length. lia. Qed.

Lemma lenZ_cons {A} (x : A) l : lenZ (x :: l) = lenZ l + 1.
Proof. unfold lenZ. cbn [length]. lia. Qed.

Lemma firstnZ_lenZ_app {A} (l1 l2 : list A) : firstnZ (lenZ l1) (l1 ++ l2) = l1.
Proof.
  unfold firstnZ, lenZ. rewrite Nat2Z.id.
  rewrite firstn_app, Nat.sub_diag, firstn_all. cbn [firstn]. apply app_nil_r.
Qed.

Lemma nthZ_lenZ_app (l1 l2 : list Z) x : nthZ (l1 ++ x :: l2) (lenZ l1) = x.
Proof. unfold nthZ, lenZ. rewrite Nat2Z.id. apply nth_middle. Qed.

Lemma zsum_firstn_le ls :
  Forall nonneg ls -> forall a b, (a <= b)%nat -> zsum (firstn a ls) <= zsum (firstn b ls).
Proof.
  induction 1 as [|x t Hx Ht IH]; intros a b Hab.
  - rewrite !firstn_nil. lia.
  - destruct a as [|a], b as [|b]; cbn [firstn zsum]; try lia.
    + specialize (IH 0%nat b ltac:(lia)). cbn [firstn zsum] in IH. unfold nonneg in Hx. lia.
    + specialize (IH a b ltac:(lia)). lia.
Qed.

Lemma zsum_firstnZ_le ls a b :
  Forall nonneg ls -> a <= b -> zsum (firstnZ a ls) <= zsum (firstnZ b ls).
Proof. intros H Hab. unfold firstnZ. apply zsum_firstn_le; [exact H | lia]. Qed.

Lemma zsum_firstnZ_all ls n : lenZ ls <= n -> zsum (firstnZ n ls) = zsum ls.
Proof. unfold lenZ, firstnZ. intros H. rewrite firstn_all2 by lia. reflexivity. Qed.

Lemma zsum_firstnZ_le_all ls a : Forall nonneg ls -> zsum (firstnZ a ls) <= zsum ls.
Proof.
  intros H. rewrite <- (zsum_firstnZ_all ls (Z.max a (lenZ ls))) by lia.
  apply zsum_firstnZ_le; [exact H | lia].
Qed.

Lemma zsum_firstnZ_0 ls a : a <= 0 -> zsum (firstnZ a ls) = 0.
Proof. intros H. unfold firstnZ. replace (Z.to_nat a) with 0%nat by lia. reflexivity. Qed.

Lemma Forall_firstn {A} (P : A -> Prop) n l : Forall P l -> Forall P (firstn n l).
Proof.
  intros H. revert n. induction H as [|x t Hx Ht IH]; intros [|n]; cbn [firstn]; auto.
Qed.

Lemma Forall_skipn {A} (P : A -> Prop) n l : Forall P l -> Forall P (skipn n l).
Proof.
  intros H. revert n. induction H as [|x t Hx Ht IH]; intros [|n]; cbn [skipn]; auto.
Qed.

(* lengths = firstn a ++ (middle segment of m items) ++ rest *)
Lemma split3 {A} (l : list A) (a m : nat) :
  l = firstn a l ++ firstn m (skipn a l) ++ skipn m (skipn a l).
Proof. rewrite firstn_skipn, firstn_skipn. reflexivity. Qed.

Lemma firstn_add {A} (l : list A) (a m : nat) :
  firstn (a + m) l = firstn a l ++ firstn m (skipn a l).
Proof.
  revert l. induction a as [|a IH]; intros l; [reflexivity|].
  destruct l as [|x t]; [rewrite !firstn_nil; reflexivity|].
  cbn [Nat.add firstn skipn app]. rewrite IH. reflexivity.
Qed.

Lemma zsum_firstnZ_add ls a m :
  0 <= a -> 0 <= m ->
  zsum (firstnZ (a + m) ls) = zsum (firstnZ a ls) + zsum (firstnZ m (skipnZ a ls)).
Proof.
  intros Ha Hm. unfold firstnZ, skipnZ.
  rewrite Z2Nat.inj_add by lia. rewrite firstn_add, zsum_app. reflexivity.
Qed.

Lemma lenZ_firstnZ {A} (l : list A) a : 0 <= a <= lenZ l -> lenZ (firstnZ a l) = a.
Proof. unfold lenZ, firstnZ. intros H. rewrite firstn_length. lia. Qed.

(* ---------------------------------------------------------------------- *)
(* cumsum / bisect *)

Lemma cumsum_from_nth ls : forall acc (n : nat),
  (n < length ls)%nat -> nth n (cumsum_from acc ls) 0 = acc + zsum (firstn (S n) ls).
Proof.
  induction ls as [|x t IH]; intros acc n Hn; cbn [length] in Hn; [lia|].
  cbn [cumsum_from]. destruct n as [|n].
  - cbn [nth firstn zsum]. lia.
  - cbn [nth]. rewrite IH by lia. cbn [firstn zsum]. lia.
Qed.

Lemma cumsum_nthZ ls j :
  0 < j <= lenZ ls -> nthZ (cumsum ls) (j - 1) = zsum (firstnZ j ls).
Proof.
  unfold lenZ, nthZ, cumsum, firstnZ. intros H.
  rewrite cumsum_from_nth by lia.
  replace (S (Z.to_nat (j - 1))) with (Z.to_nat j) by lia. lia.
Qed.

Lemma cumsum_lenZ ls : lenZ (cumsum ls) = lenZ ls.
Proof. unfold lenZ, cumsum. rewrite cumsum_from_length. reflexivity. Qed.

Lemma firstnZ_succ_cons {A} (x : A) t j : 0 <= j -> firstnZ (1 + j) (x :: t) = x :: firstnZ j t.
Proof.
  intros H. unfold firstnZ. replace (Z.to_nat (1 + j)) with (S (Z.to_nat j)) by lia. reflexivity.
Qed.

(* bisect_right on the block boundaries: j blocks end at or before v, the
   next one ends after v *)
Lemma bisect_right_cumsum ls : forall acc v,
  let j := bisect_right (cumsum_from acc ls) v in
  0 <= j <= lenZ ls /\
  (0 < j -> acc + zsum (firstnZ j ls) <= v) /\
  (j < lenZ ls -> v < acc + zsum (firstnZ (j + 1) ls)).
Proof.
  induction ls as [|x t IH]; intros acc v; cbn [cumsum_from bisect_right].
  - cbn. unfold lenZ. cbn. lia.
  - rewrite lenZ_cons. destruct (acc + x <=? v) eqn:E.
    + specialize (IH (acc + x) v). cbv zeta in IH.
      set (j' := bisect_right (cumsum_from (acc + x) t) v) in *.
      destruct IH as (IH1 & IH2 & IH3).
      split; [lia|]. split.
      * intros _. rewrite firstnZ_succ_cons by lia. cbn [zsum].
        destruct (Z.eq_dec j' 0) as [H0|H0].
        -- rewrite H0. cbn. lia.
        -- specialize (IH2 ltac:(lia)). lia.
      * intros Hj. replace (1 + j' + 1) with (1 + (j' + 1)) by ring.
        rewrite firstnZ_succ_cons by lia. cbn [zsum].
        specialize (IH3 ltac:(lia)). lia.
    + split; [pose proof (lenZ_nonneg t); lia|]. split; [lia|].
      intros _. unfold firstnZ. change (Z.to_nat (0 + 1)) with 1%nat. cbn [firstn zsum]. lia.
Qed.

Lemma bisect_left_cumsum ls : forall acc v,
  let j := bisect_left (cumsum_from acc ls) v in
  0 <= j <= lenZ ls /\
  (0 < j -> acc + zsum (firstnZ j ls) < v) /\
  (j < lenZ ls -> v <= acc + zsum (firstnZ (j + 1) ls)).
Proof.
  induction ls as [|x t IH]; intros acc v; cbn [cumsum_from bisect_left].
  - cbn. unfold lenZ. cbn. lia.
  - rewrite lenZ_cons. destruct (acc + x <? v) eqn:E.
    + specialize (IH (acc + x) v). cbv zeta in IH.
      set (j' := bisect_left (cumsum_from (acc + x) t) v) in *.
      destruct IH as (IH1 & IH2 & IH3).
      split; [lia|]. split.
      * intros _. rewrite firstnZ_succ_cons by lia. cbn [zsum].
        destruct (Z.eq_dec j' 0) as [H0|H0].
        -- rewrite H0. cbn. lia.
        -- specialize (IH2 ltac:(lia)). lia.
      * intros Hj. replace (1 + j' + 1) with (1 + (j' + 1)) by ring.
        rewrite firstnZ_succ_cons by lia. cbn [zsum].
        specialize (IH3 ltac:(lia)). lia.
    + split; [pose proof (lenZ_nonneg t); lia|]. split; [lia|].
      intros _. unfold firstnZ. change (Z.to_nat (0 + 1)) with 1%nat. cbn [firstn zsum]. lia.
Qed.
