(* HistoryFacts.v — proofs about the materialization-history model (History.v). *)
From Coq Require Import List Bool ZArith PArith Lia.
From DA Require Import PyBase PyBaseFacts History Rechunk RechunkBase RechunkFacts.
Import ListNotations.

Lemma c_find_in : forall n c l, c_find n c = Some l -> In (n, l) c.
Proof.
  induction c as [|[k l0] t IH]; cbn; intros l H; [discriminate|].
  destruct (Pos.eqb n k) eqn:E.
  - apply Pos.eqb_eq in E. inversion H; subst. left; reflexivity.
  - right. apply IH. exact H.
Qed.

Section Soundness.
  Variable lower1 : cfg -> name -> name.
  Variable simp : name -> name.
  Variable D : Type.
  Variable den : name -> D.          (* what an expression computes *)
  Hypothesis lower_sound : forall k n, den (lower1 k n) = den n.
  Hypothesis simp_sound : forall n, den (simp n) = den n.

  Definition cache_ok (c : cache) : Prop := forall n l, In (n, l) c -> den l = den n.

  Definition state_ok (st : state) : Prop :=
    cache_ok (st_cache st) /\
    forall x l, In x (st_colls st) -> c_low x = Some l -> den l = den (c_root x).

  Lemma lower_once_ok : forall k c n l c',
    cache_ok c -> lower_once lower1 k c n = (l, c') -> cache_ok c' /\ den l = den n.
  Proof.
    intros k c n l c' Hc H. unfold lower_once in H. destruct (c_find n c) as [l0|] eqn:E.
    - inversion H; subst. split; [exact Hc|]. apply Hc. apply c_find_in. exact E.
    - inversion H; subst. split; [|apply lower_sound].
      intros n' l' Hin. apply in_app_or in Hin. destruct Hin as [Hin|[Hin|[]]]; [apply Hc; exact Hin|].
      inversion Hin; subst. apply lower_sound.
  Qed.

  Lemma c_evict_ok : forall dead c, cache_ok c -> cache_ok (c_evict dead c).
  Proof. intros dead c Hc n l Hin. unfold c_evict in Hin. apply filter_In in Hin. apply Hc. apply Hin. Qed.

  Lemma lower_stream_ok : forall k items c head done ls c2 h d r0,
    cache_ok c -> den head = den r0 ->
    lower_stream lower1 k c head done items = (ls, c2, h, d) ->
    cache_ok c2 /\ den h = den r0.
  Proof.
    intros k items; induction items as [|it t IH]; intros c head done ls c2 h d r0 Hc Hh H; cbn in H.
    - inversion H; subst. auto.
    - destruct it as [n| | |dead].
      + destruct (lower_once lower1 k c n) as [l c1] eqn:E1.
        destruct (lower_stream lower1 k c1 head done t) as [[[ls' c2'] h'] d'] eqn:E2.
        inversion H; subst. destruct (lower_once_ok _ _ _ _ _ Hc E1) as [Hc1 _].
        apply (IH _ _ _ _ _ _ _ r0 Hc1 Hh E2).
      + destruct done.
        * apply (IH _ _ _ _ _ _ _ r0 Hc Hh H).
        * destruct (lower_once lower1 k c head) as [l c1] eqn:E1.
          destruct (lower_stream lower1 k c1 l (Pos.eqb l head) t) as [[[ls' c2'] h'] d'] eqn:E2.
          inversion H; subst. destruct (lower_once_ok _ _ _ _ _ Hc E1) as [Hc1 Hl].
          apply (IH _ _ _ _ _ _ _ r0 Hc1 (eq_trans Hl Hh) E2).
      + destruct done.
        * apply (IH _ _ _ _ _ _ _ r0 Hc Hh H).
        * destruct (lower_stream lower1 k c head true t) as [[[ls' c2'] h'] d'] eqn:E2.
          inversion H; subst. apply (IH _ _ _ _ _ _ _ r0 Hc Hh E2).
      + apply (IH _ _ _ _ _ _ _ r0 (c_evict_ok dead c Hc) Hh H).
  Qed.

  Lemma In_set_nth : forall A (l : list A) i x y, In y (History.set_nth l i x) -> y = x \/ In y l.
  Proof.
    induction l as [|z t IH]; intros [|i] x y H; cbn in *; try contradiction.
    - destruct H as [H|H]; auto.
    - destruct H as [H|H]; auto. destruct (IH _ _ _ H); auto.
  Qed.

  Lemma step_ok : forall st o, state_ok st -> state_ok (step lower1 simp st o).
  Proof.
    intros st o [Hc Hl]. destruct o as [p|c k optimize items|c|dead]; cbn.
    - split; [exact Hc|]. intros x l Hin. apply in_app_or in Hin. destruct Hin as [Hin|[Hin|[]]].
      + apply Hl. exact Hin.
      + subst x. cbn. discriminate.
    - destruct (nth_error (st_colls st) c) as [x|] eqn:Ex; [|split; assumption].
      destruct (c_low x) as [l0|] eqn:El; [split; assumption|].
      set (r0 := if optimize then simp (c_root x) else c_root x).
      destruct (lower_stream lower1 k (st_cache st) r0 false items) as [[[ls c2] h] d] eqn:E.
      assert (Hr0 : den r0 = den (c_root x)).
      { unfold r0. destruct optimize; [apply simp_sound | reflexivity]. }
      destruct (lower_stream_ok _ _ _ _ _ _ _ _ _ r0 Hc eq_refl E) as [Hc2 Hh].
      split; [exact Hc2|]. cbn. intros y l Hin Hy.
      apply In_set_nth in Hin. destruct Hin as [Hin|Hin].
      + subst y. cbn in *. destruct d; [|discriminate]. inversion Hy; subst. rewrite Hh. exact Hr0.
      + apply Hl; assumption.
    - destruct (nth_error (st_colls st) c) as [x|] eqn:Ex; [|split; assumption].
      split; [exact Hc|]. cbn. intros y l Hin Hy. apply In_set_nth in Hin. destruct Hin as [Hin|Hin].
      + subst y. cbn in Hy. discriminate.
      + apply Hl; assumption.
    - split; [apply c_evict_ok; exact Hc | exact Hl].
  Qed.

  Lemma run_ok : forall ops st, state_ok st -> state_ok (run lower1 simp ops st).
  Proof. induction ops as [|o t IH]; intros st H; cbn; [exact H|]. apply IH. apply step_ok. exact H. Qed.

  Theorem cache_invariant : forall ops, state_ok (run lower1 simp ops init).
  Proof. intro ops. apply run_ok. split; [intros n l []| intros x l []]. Qed.

  Theorem values_history_free : forall ops1 ops2 x1 x2 l1 l2,
    In x1 (st_colls (run lower1 simp ops1 init)) -> In x2 (st_colls (run lower1 simp ops2 init)) ->
    c_root x1 = c_root x2 -> c_low x1 = Some l1 -> c_low x2 = Some l2 -> den l1 = den l2.
  Proof.
    intros ops1 ops2 x1 x2 l1 l2 H1 H2 Hr E1 E2.
    destruct (cache_invariant ops1) as [_ A]. destruct (cache_invariant ops2) as [_ B].
    rewrite (A x1 l1 H1 E1), (B x2 l2 H2 E2), Hr. reflexivity.
  Qed.
End Soundness.

(* the witness for C09_lower_context_free_refuted: a planner that reads the configuration *)
Definition w_lower1 (k : cfg) (n : name) : name :=
  if Pos.eqb n 5 then (if Pos.eqb k 1 then 10%positive else 20%positive) else n.
Definition w_den (n : name) : positive :=
  if Pos.eqb n 5 || Pos.eqb n 10 || Pos.eqb n 20 then 1%positive else n.

Lemma w_lower_sound : forall k n, w_den (w_lower1 k n) = w_den n.
Proof.
  intros k n. unfold w_lower1. destruct (Pos.eqb n 5) eqn:E; [|reflexivity].
  apply Pos.eqb_eq in E. subst n. destruct (Pos.eqb k 1); reflexivity.
Qed.

(* the two concrete planners: whatever the configuration, a rechunk plan ends in the requested
   layout and every stage is a layout of the same shape *)
Theorem rechunk_planner_config_free :
  forall orders1 oracle1 threshold1 bsl1 dl1 orders2 oracle2 threshold2 bsl2 dl2 old new itemsize plan1 plan2 shape,
  layout_ok shape old = true -> layout_ok shape new = true ->
  plan_rechunk orders1 oracle1 old new itemsize threshold1 bsl1 dl1 = Some plan1 ->
  plan_rechunk orders2 oracle2 old new itemsize threshold2 bsl2 dl2 = Some plan2 ->
  last_opt plan1 = Some new /\ last_opt plan2 = Some new /\
  forallb (layout_ok shape) plan1 = true /\ forallb (layout_ok shape) plan2 = true.
Proof.
  intros. 
  pose proof (plan_valid_thm _ _ _ _ _ _ _ _ _ _ H H0 H1) as V1.
  pose proof (plan_valid_thm _ _ _ _ _ _ _ _ _ _ H H0 H2) as V2.
  unfold plan_valid in V1, V2.
  destruct (last_opt plan1) as [l1|]; [|discriminate]. destruct (last_opt plan2) as [l2|]; [|discriminate].
  apply andb_true_iff in V1. apply andb_true_iff in V2. destruct V1 as [A1 B1]. destruct V2 as [A2 B2].
  apply chunksN_eqb_eq in A1. apply chunksN_eqb_eq in A2. subst. auto.
Qed.
