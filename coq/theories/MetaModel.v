(* C29 — model of metadata inference: dask_array/_utils.py (meta_from_array,
   compute_meta) and dask_array/io/_from_array.py (FromArray._meta).
   Definitions only; proofs live in MetaModelFacts.v.

   What is modelled: (i) the REQUESTS (`__getitem__` index tuples) that metadata
   inference sends to a source array-like, (ii) the SHAPE of the intermediate and
   final meta objects, (iii) the argument shapes with which compute_meta calls the
   user function.  dtypes are not modelled (astype never changes a shape and never
   talks to the source).  harness/c29.py (fam_meta_model) compares (i)-(iii) exactly
   with the real functions on every run. *)
From DA Require Export PyBase Rechunk.
Open Scope Z_scope.

(* ------------------------------------------------------------------ *)
(* a. the selection that meta_from_array requests *)

(* slice(0, 0, None) *)
Definition empty_slice : pslice := mkslice (Some 0) (Some 0) None.

(* meta_from_array:  tuple(slice(0, 0, None) for _ in range(x.ndim)) *)
Definition meta_index (xndim : nat) : list pslice := repeat empty_slice xndim.

(* NumPy basic indexing a[idx] with idx a tuple of slices: the result has
   len(range( *s.indices(n))) positions on every indexed axis; axes beyond len(idx)
   are kept whole (len(idx) > a.ndim is an IndexError: outside the domain, the
   surplus indices are ignored here).  For a 0-d array and idx = () the result is
   the single ELEMENT (shape (), one element). *)
Fixpoint selection_shape (idx : list pslice) (shape : list Z) : list Z :=
  match idx, shape with
  | s :: idx', n :: shape' => slice_len s n :: selection_shape idx' shape'
  | [], _ => shape
  | _ :: _, [] => []
  end.

(* number of elements of the source that a[idx] returns: prod(result.shape)
   (zprod [] = 1: a 0-d result is one element) *)
Definition selection_size (idx : list pslice) (shape : list Z) : Z :=
  zprod (selection_shape idx shape).

(* ------------------------------------------------------------------ *)
(* b. meta_from_array(x, ndim, dtype) for an array-like x
      (hasattr shape/dtype, isinstance(x.shape, tuple), not a dask collection,
       not a scalar / type / list / tuple: all earlier branches fall through) *)

(* numpy: a[(Ellipsis,) + (None,) * k] appends k axes of length 1 *)
Definition np_add_trailing_axes (shape : list Z) (k : nat) : list Z := shape ++ repeat 1 k.

(* numpy: a.reshape(new) — ValueError (None) unless the sizes agree *)
Definition np_reshape (shape new : list Z) : option (list Z) :=
  if zprod shape =? zprod new then Some new else None.

(* The requests meta_from_array makes TO THE SOURCE x: exactly one __getitem__,
   `x[tuple(slice(0, 0, None) for _ in range(x.ndim))]`.  Every later indexing /
   .sum() / .reshape() / .astype() acts on the RESULT of that call (for a
   non-NumPy source such as h5py/zarr/the harness recorder: a NumPy object), not on
   x.  For x.ndim = 0 the index is () and x[()] is the single element (finding F31). *)
Definition meta_from_array_requests (xndim : nat) : list (list pslice) := [meta_index xndim].

(* Shape of the object meta_from_array returns.  `getitem_raises` = the source's
   __getitem__ raised (the `except Exception` fallback). *)
Definition meta_from_array_shape_gen (getitem_raises : bool) (xshape : list Z) (ndim : option nat) : list Z :=
  let xndim := length xshape in
  (* if ndim is None: ndim = x.ndim *)
  let ndim := match ndim with None => xndim | Some n => n end in
  (* except Exception: meta = np.empty((0,) * ndim, dtype=dtype or x.dtype) *)
  let fallback := repeat 0 ndim in
  if getitem_raises then fallback else
  (* meta = x[tuple(slice(0, 0, None) for _ in range(x.ndim))] *)
  let meta := selection_shape (meta_index xndim) xshape in
  let meta' :=
    (* if meta.ndim != ndim: *)
    if Nat.eqb (length meta) ndim then Some meta
    else if Nat.ltb xndim ndim then
      (* meta = meta[(Ellipsis,) + tuple(None for _ in range(ndim - meta.ndim))] *)
      let meta1 := np_add_trailing_axes meta (ndim - length meta)%nat in
      (* meta = meta[tuple(slice(0, 0, None) for _ in range(meta.ndim))] *)
      Some (selection_shape (meta_index (length meta1)) meta1)
    else if Nat.eqb ndim 0 then
      (* meta = meta.sum()  -> a NumPy scalar; np.isscalar(meta) -> np.array(meta): shape () *)
      Some []
    else
      (* meta = meta.reshape((0,) * ndim)   (ValueError -> the except branch) *)
      np_reshape meta (repeat 0 ndim) in
  match meta' with
  | Some m => m      (* np.isscalar(meta) -> np.array(meta) and meta.astype(dtype) keep the shape *)
  | None => fallback
  end.

Definition meta_from_array_shape (xshape : list Z) (ndim : option nat) : list Z :=
  meta_from_array_shape_gen false xshape ndim.

(* the dimension meta_from_array aims at: `if ndim is None: ndim = x.ndim` *)
Definition target_ndim (xshape : list Z) (ndim : option nat) : nat :=
  match ndim with None => length xshape | Some n => n end.

(* FromArray._meta (no `meta=` operand): meta_from_array(self.array, dtype=self.array.dtype);
   a cached_property, so the source sees the request once however often metadata is read. *)
Definition from_array_meta_shape (xshape : list Z) : list Z := meta_from_array_shape xshape None.
Definition from_array_meta_requests (xndim : nat) : list (list pslice) := meta_from_array_requests xndim.

(* ------------------------------------------------------------------ *)
(* c. compute_meta(func, _dtype, *args, **kwargs) *)

Inductive marg :=
| MExprArg (meta_shape : list Z)     (* isinstance(x, ArrayExpr): x._meta is used AS IS; meta_shape = x._meta.shape *)
| MCollection (meta_shape : list Z)  (* a dask_array Array (what map_blocks passes): is_arraylike, and meta_from_array
                                        first replaces x by x._meta (a NumPy array of shape meta_shape), then proceeds *)
| MArrayLike (shape : list Z)        (* any other is_arraylike(x) (shape tuple, dtype, __array_function__ or
                                        __array_ufunc__), e.g. a source array-like: meta_from_array(x) *)
| MOther.                            (* anything else (scalars, strings, objects that are not duck arrays): passed through *)

(* The NOMINAL library invariant: the `_meta` of an array expression of dimension ndim has
   shape (0,) * ndim.  It is NOT assumed by the model (MExprArg carries the real shape) and it
   is false of the library: ExpandDims._meta = np.expand_dims(child._meta, ...) gives shape
   (1,) for x.sum()[None] (finding C29-B; harness/c29.py checks every node of every real
   expression it builds and reports the exceptions). *)
Definition meta_shape_nominal (sh : list Z) : bool := forallb (Z.eqb 0) sh.

(* what the property needs of an expression's meta: no elements unless it is 0-d *)
Definition meta_shape_empty (sh : list Z) : bool :=
  match sh with [] => true | _ => zprod sh =? 0 end.

(* x.ndim of an array argument *)
Definition arg_ndim (a : marg) : option nat :=
  match a with
  | MExprArg sh => Some (length sh)
  | MCollection sh => Some (length sh)
  | MArrayLike sh => Some (length sh)
  | MOther => None
  end.

(* args_meta / kwargs_meta element:
   x._meta if isinstance(x, ArrayExpr) else meta_from_array(x) if is_arraylike(x) else x
   (None = not an array: the object itself is handed to func) *)
Definition arg_meta (a : marg) : option (list Z) :=
  match a with
  | MExprArg sh => Some sh
  | MCollection sh => Some (meta_from_array_shape sh None)
  | MArrayLike sh => Some (meta_from_array_shape sh None)
  | MOther => None
  end.

(* requests sent to the argument object while building args_meta (for MCollection the
   x[...] of meta_from_array goes to the NumPy meta, not to any source) *)
Definition arg_requests (a : marg) : list (list pslice) :=
  match a with
  | MArrayLike sh => meta_from_array_requests (length sh)
  | _ => []
  end.

(* per positional argument, then per keyword argument (evaluation order of the two
   comprehensions), the list of requests that argument receives *)
Definition compute_meta_requests (args kwargs : list marg) : list (list (list pslice)) :=
  map arg_requests args ++ map arg_requests kwargs.

(* the calls of func: exactly one, `func( *args_meta, **kwargs_meta)` (the np.vectorize
   branch also makes one call); each call = (positional shapes, keyword shapes).
   Only the case where func does not raise is modelled: the handlers never call func again. *)
Definition compute_meta_calls (args kwargs : list marg) : list (list (option (list Z)) * list (option (list Z))) :=
  [(map arg_meta args, map arg_meta kwargs)].

(* SPECIFICATION of arg_meta (proved equal in MetaModelFacts.v): expression metas are passed
   unchanged, array-likes and collections are normalised to (0,) * ndim *)
Definition arg_call_shape (a : marg) : option (list Z) :=
  match a with
  | MExprArg sh => Some sh
  | MCollection sh => Some (repeat 0 (length sh))
  | MArrayLike sh => Some (repeat 0 (length sh))
  | MOther => None
  end.

(* spec-side checkers used by the harness *)
Definition oshape_eqb (a b : option (list Z)) : bool :=
  match a, b with
  | Some x, Some y => zlist_eqb x y
  | None, None => true
  | _, _ => false
  end.
Definition index_eqb : list pslice -> list pslice -> bool := list_eqb pslice_eqb.
Definition requests_eqb : list (list pslice) -> list (list pslice) -> bool := list_eqb index_eqb.
Definition call_eqb (a b : list (option (list Z)) * list (option (list Z))) : bool :=
  list_eqb oshape_eqb (fst a) (fst b) && list_eqb oshape_eqb (snd a) (snd b).

(* a logged request (index, number of elements returned) agrees with the model *)
Definition logged_request_ok (xshape : list Z) (r : list pslice * Z) : bool :=
  selection_size (fst r) xshape =? snd r.

(* ------------------------------------------------------------------ *)
(* d. A tiny metadata-expression language for the parametricity statement.
   This part is an ABSTRACT statement of the design principle ("metadata is a
   function of metadata only"); it is NOT a transcription of library code: in
   particular the chunks of a slice / sum below are a simple function of the old
   chunks, not the library's chunk algorithm. *)

Record meta := mkmeta { m_shape : list Z; m_chunks : list (list Z); m_dtype : Z }.
Record source := mksource { src_meta : meta; src_data : list Z -> Z }.
Record array := mkarray { a_meta : meta; a_data : list Z -> Z }.

Inductive expr :=
| ESrc (id : nat)
| ENeg (e : expr)
| EAdd (e1 e2 : expr)
| ESlice0 (s : pslice) (e : expr)          (* x[s] on axis 0 *)
| ESum (e : expr)                          (* x.sum(): full reduction *)
| ERechunk (chunks : list (list Z)) (e : expr).

(* metadata transformers: take ONLY metadata *)
Definition neg_meta (m : meta) : meta := m.
(* elementwise binary op on equal shapes; dtype promotion = max of the tags *)
Definition add_meta (m1 m2 : meta) : meta := mkmeta (m_shape m1) (m_chunks m1) (Z.max (m_dtype m1) (m_dtype m2)).
(* slicing axis 0: new length slice_len s n, one output chunk on that axis *)
Definition slice0_meta (s : pslice) (m : meta) : meta :=
  match m_shape m with
  | [] => m
  | n :: rest => mkmeta (slice_len s n :: rest) ([slice_len s n] :: tl (m_chunks m)) (m_dtype m)
  end.
Definition sum_meta (m : meta) : meta := mkmeta [] [] (m_dtype m).
Definition rechunk_meta (chunks : list (list Z)) (m : meta) : meta := mkmeta (m_shape m) chunks (m_dtype m).

(* all index tuples of an array of the given shape, in C order *)
Fixpoint all_indices (shape : list Z) : list (list Z) :=
  match shape with
  | [] => [[]]
  | n :: rest => flat_map (fun i => map (cons i) (all_indices rest)) (zrange 0 n 1)
  end.

(* data transformers: may look at metadata (shapes) and data *)
Definition slice0_data (s : pslice) (m : meta) (d : list Z -> Z) : list Z -> Z :=
  match m_shape m with
  | [] => d
  | n :: _ => fun idx => match idx with
                         | [] => 0
                         | k :: rest => d (nthZ (sel s n) k :: rest)
                         end
  end.
Definition sum_data (m : meta) (d : list Z -> Z) : list Z -> Z :=
  fun _ => zsum (map d (all_indices (m_shape m))).

(* eval computes BOTH the metadata and the data function *)
Fixpoint eval (e : expr) (env : nat -> source) : array :=
  match e with
  | ESrc id => mkarray (src_meta (env id)) (src_data (env id))
  | ENeg e1 => let a := eval e1 env in mkarray (neg_meta (a_meta a)) (fun idx => - a_data a idx)
  | EAdd e1 e2 => let a := eval e1 env in let b := eval e2 env in
                  mkarray (add_meta (a_meta a) (a_meta b)) (fun idx => a_data a idx + a_data b idx)
  | ESlice0 s e1 => let a := eval e1 env in mkarray (slice0_meta s (a_meta a)) (slice0_data s (a_meta a) (a_data a))
  | ESum e1 => let a := eval e1 env in mkarray (sum_meta (a_meta a)) (sum_data (a_meta a) (a_data a))
  | ERechunk c e1 => let a := eval e1 env in mkarray (rechunk_meta c (a_meta a)) (a_data a)
  end.

(* meta_of never mentions data: its environment holds metadata only *)
Fixpoint meta_of (e : expr) (menv : nat -> meta) : meta :=
  match e with
  | ESrc id => menv id
  | ENeg e1 => neg_meta (meta_of e1 menv)
  | EAdd e1 e2 => add_meta (meta_of e1 menv) (meta_of e2 menv)
  | ESlice0 s e1 => slice0_meta s (meta_of e1 menv)
  | ESum e1 => sum_meta (meta_of e1 menv)
  | ERechunk c e1 => rechunk_meta c (meta_of e1 menv)
  end.
