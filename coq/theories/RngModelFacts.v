(* RngModelFacts.v — proofs about the seed-derivation model (RngModel.v). *)
From Coq Require Import List Bool ZArith Lia.
From DA Require Import PyBase RngModel.
Import ListNotations.
Open Scope Z_scope.

Lemma spawn_seeds_in : forall g n s, In s (fst (spawn g n)) <->
  fst s = g_root g /\ (g_counter g <= snd s < g_counter g + n)%nat.
Proof.
  intros g n [e k]. unfold spawn. cbn. rewrite in_map_iff. split.
  - intros [i [E Hi]]. inversion E; subst. apply in_seq in Hi. lia.
  - intros [E H]. subst e. exists (k - g_counter g)%nat. split; [f_equal; lia | apply in_seq; lia].
Qed.

Lemma spawn_counter : forall g n, g_counter (snd (spawn g n)) = (g_counter g + n)%nat /\ g_root (snd (spawn g n)) = g_root g.
Proof. intros. unfold spawn. cbn. auto. Qed.

Lemma spawn_length : forall g n, length (fst (spawn g n)) = n.
Proof. intros. unfold spawn. cbn. rewrite map_length, seq_length. reflexivity. Qed.

Lemma spawn_NoDup : forall g n, NoDup (fst (spawn g n)).
Proof.
  intros g n. unfold spawn. cbn.
  assert (H : forall l : list nat, NoDup l -> NoDup (map (fun i => (g_root g, (g_counter g + i)%nat)) l)).
  { intros l Hl; induction Hl as [|x t Hx Ht IH]; cbn; constructor; [|exact IH].
    intro Hin. apply in_map_iff in Hin. destruct Hin as [y [E Hy]]. inversion E.
    assert (y = x) by lia. subst. contradiction. }
  apply H. apply seq_NoDup.
Qed.

(* two successive spawns from one generator give disjoint seeds *)
Theorem generator_advances : forall g n1 n2,
  let '(s1, g1) := spawn g n1 in let '(s2, _) := spawn g1 n2 in
  NoDup s1 /\ NoDup s2 /\ forall x, In x s1 -> ~ In x s2.
Proof.
  intros g n1 n2. destruct (spawn g n1) as [s1 g1] eqn:E1. destruct (spawn g1 n2) as [s2 g2] eqn:E2.
  assert (Hs1 : s1 = fst (spawn g n1)) by (rewrite E1; reflexivity).
  assert (Hg1 : g1 = snd (spawn g n1)) by (rewrite E1; reflexivity).
  assert (Hs2 : s2 = fst (spawn g1 n2)) by (rewrite E2; reflexivity).
  split; [subst s1; apply spawn_NoDup|]. split; [subst s2; apply spawn_NoDup|].
  intros x H1 H2. subst s1 s2. apply spawn_seeds_in in H1. apply spawn_seeds_in in H2.
  destruct (spawn_counter g n1) as [C _]. rewrite <- Hg1 in C. lia.
Qed.

Lemma mk_random_spec : forall g sizes,
  r_sizes (fst (mk_random g sizes)) = sizes /\
  r_seeds (fst (mk_random g sizes)) = fst (spawn g (length sizes)) /\
  snd (mk_random g sizes) = snd (spawn g (length sizes)).
Proof. intros. unfold mk_random. destruct (spawn g (length sizes)) as [s g'] eqn:E. cbn. auto. Qed.

(* the j-th array's seeds in closed form: the generator's root and the block indices shifted by the
   number of blocks of all earlier arrays *)
Theorem mk_arrays_closed_form : forall sizess g,
  let '(ns, g') := mk_arrays g sizess in
  g_root g' = g_root g /\
  g_counter g' = (g_counter g + fold_right (fun s a => length s + a) 0 sizess)%nat /\
  length ns = length sizess /\
  forall j, (j < length sizess)%nat ->
    let off := (g_counter g + fold_right (fun s a => length s + a) 0 (firstn j sizess))%nat in
    let sz := nth j sizess [] in
    nth j ns {| r_sizes := []; r_seeds := [] |} =
      {| r_sizes := sz; r_seeds := map (fun i => (g_root g, (off + i)%nat)) (seq 0 (length sz)) |}.
Proof.
  induction sizess as [|s t IH]; intro g; cbn [mk_arrays].
  - split; [reflexivity|]. split; [cbn; lia|]. split; [reflexivity|]. intros j Hj. cbn in Hj. lia.
  - destruct (mk_random g s) as [n g1] eqn:E1. specialize (IH g1).
    destruct (mk_arrays g1 t) as [ns g2] eqn:E2.
    destruct (mk_random_spec g s) as (A & B & C). rewrite E1 in A, B, C. cbn [fst snd] in A, B, C.
    destruct (spawn_counter g (length s)) as [Cc Cr]. rewrite <- C in Cc, Cr.
    destruct IH as (R & Cn & L & Nth). cbn [fold_right length].
    split; [congruence|]. split; [lia|]. split; [lia|].
    intros [|j] Hj; cbn [nth firstn fold_right].
    + destruct n as [sz sd]. cbn in A, B. subst sz sd. unfold spawn. cbn. f_equal.
      apply map_ext. intro i. f_equal. lia.
    + rewrite (Nth j ltac:(cbn in Hj; lia)). cbn zeta. f_equal. apply map_ext. intro i. rewrite Cr. f_equal. lia.
Qed.

(* pickling *)
Theorem reduce_roundtrip : forall g_now n, unpickle (reduce g_now n) = n.
Proof. intros g_now [sz sd]. reflexivity. Qed.

(* reconstruction (and unpickling without the cache) re-derives the seeds from the generator's
   CURRENT state: for a node built from generator g, once g has advanced past it, none of the new
   seeds is one of the node's *)
Theorem reconstruct_respawns : forall g sizes,
  let '(n, g1) := mk_random g sizes in
  forall g_now, g_root g_now = g_root g -> (g_counter g1 <= g_counter g_now)%nat ->
  forall x, In x (r_seeds n) -> ~ In x (r_seeds (fst (reconstruct g_now n))).
Proof.
  intros g sizes. destruct (mk_random g sizes) as [n g1] eqn:E.
  destruct (mk_random_spec g sizes) as (A & B & C). rewrite E in A, B, C. cbn [fst snd] in A, B, C.
  intros g_now Hr Hc x H1 H2. unfold reconstruct in H2.
  destruct (mk_random_spec g_now (r_sizes n)) as (_ & B2 & _). rewrite B2 in H2.
  rewrite B in H1. apply spawn_seeds_in in H1. apply spawn_seeds_in in H2.
  destruct (spawn_counter g (length sizes)) as [Cc _]. rewrite <- C in Cc. lia.
Qed.

Section DrawFacts.
  Variable B : Type.
  Variable draw : seed -> Z -> B.

  (* the realization is a function of the node alone: nothing the generator does later, and no
     number of recomputations, changes what a derived program reads *)
  Theorem seeds_fixed : forall (R : Type) (prog : list B -> R) g sizes later,
    let '(n, g1) := mk_random g sizes in
    let '(_, g2) := mk_arrays g1 later in
    eval draw prog n = prog (map (fun p => draw (fst p) (snd p)) (combine (fst (spawn g (length sizes))) sizes)) /\
    length (realization draw n) = length sizes.
  Proof.
    intros R prog g sizes later. destruct (mk_random g sizes) as [n g1] eqn:E.
    destruct (mk_arrays g1 later) as [ns g2].
    destruct (mk_random_spec g sizes) as (A & Bs & C). rewrite E in A, Bs, C. cbn [fst snd] in A, Bs, C.
    unfold eval, realization. rewrite A, Bs. split; [reflexivity|].
    rewrite map_length, combine_length, spawn_length. lia.
  Qed.

  Theorem rebuild_same : forall root sizess j, (j < length sizess)%nat ->
    r_seeds (nth j (fst (mk_arrays (fresh_gen root) sizess)) {| r_sizes := []; r_seeds := [] |}) =
    map (fun i => (root, (fold_right (fun s a => length s + a) 0 (firstn j sizess) + i)%nat))
        (seq 0 (length (nth j sizess []))).
  Proof.
    intros root sizess j Hj.
    pose proof (mk_arrays_closed_form sizess (fresh_gen root)) as H.
    destruct (mk_arrays (fresh_gen root) sizess) as [ns g']. destruct H as (_ & _ & _ & Nth).
    cbn [fst]. rewrite (Nth j Hj). reflexivity.
  Qed.
End DrawFacts.
