(* NamesFacts.v — proofs about the naming model of Names.v. *)
From Coq Require Import ZArith List Bool Lia.
From DA Require Import Names.
Import ListNotations.
Open Scope Z_scope.

Section Facts.
  Variable hash : Type.
  Variable H Hp : list (harg hash) -> hash.
  Variable addr : Z -> Z.
  Variable pfx_getitem : Z.
  Hypothesis H_inj : forall a b, H a = H b -> a = b.
  Hypothesis Hp_inj : forall a b, Hp a = Hp b -> a = b.
  Hypothesis addr_inj : forall a b, addr a = addr b -> a = b.

  Notation tok := (token_of hash H Hp addr pfx_getitem).
  Notation nm := (name_of hash H Hp addr pfx_getitem).
  Notation hs := (hargs hash H Hp addr pfx_getitem).

  Ltac unf := unfold stock_token, blockwise_token, reduction_token, partial_token, random_name in *.

  Ltac inj_all :=
    repeat match goal with
    | [ E : H _ = H _ |- _ ] => apply H_inj in E
    | [ E : Hp _ = Hp _ |- _ ] => apply Hp_inj in E
    | [ E : addr _ = addr _ |- _ ] => apply addr_inj in E
    | [ E : TkHash _ = _ |- _ ] => first [discriminate E | injection E; clear E; intros]
    | [ E : TkExact _ = _ |- _ ] => first [discriminate E | injection E; clear E; intros]
    | [ E : TkExtract _ _ = _ |- _ ] => first [discriminate E | injection E; clear E; intros]
    | [ E : NmPref _ _ = _ |- _ ] => first [discriminate E | injection E; clear E; intros]
    | [ E : NmRegion _ _ = _ |- _ ] => first [discriminate E | injection E; clear E; intros]
    | [ E : NmRechunkIO _ _ = _ |- _ ] => first [discriminate E | injection E; clear E; intros]
    | [ E : NmRc1 _ = _ |- _ ] => first [discriminate E | injection E; clear E; intros]
    | [ E : NmRandom _ _ = _ |- _ ] => first [discriminate E | injection E; clear E; intros]
    | [ E : _ :: _ = _ |- _ ] => first [discriminate E | injection E; clear E; intros]
    | [ E : [] = _ |- _ ] => first [discriminate E | clear E]
    | [ E : HCls _ = _ |- _ ] => first [discriminate E | injection E; clear E; intros]
    | [ E : HLit _ = _ |- _ ] => first [discriminate E | injection E; clear E; intros]
    | [ E : HObj _ = _ |- _ ] => first [discriminate E | injection E; clear E; intros]
    | [ E : HTok _ = _ |- _ ] => first [discriminate E | injection E; clear E; intros]
    | [ E : HName _ = _ |- _ ] => first [discriminate E | injection E; clear E; intros]
    | [ E : HHash _ = _ |- _ ] => first [discriminate E | injection E; clear E; intros]
    | [ E : KGen _ = _ |- _ ] => first [discriminate E | injection E; clear E; intros]
    | [ E : KGenNC _ = _ |- _ ] => first [discriminate E | injection E; clear E; intros]
    | [ E : KRed _ = _ |- _ ] => first [discriminate E | injection E; clear E; intros]
    | [ E : KRandom _ = _ |- _ ] => first [discriminate E | injection E; clear E; intros]
    | [ E : KRechunk = _ |- _ ] => first [discriminate E | clear E]
    | [ E : KTasksRechunk = _ |- _ ] => first [discriminate E | clear E]
    | [ E : KRootAlias = _ |- _ ] => first [discriminate E | clear E]
    end.

  (* unfolding equations (the mutual fixpoints are never reduced by cbn/simpl in the proofs) *)
  Lemma tok_Gen c p ops : tok (Gen c p ops) = stock_token hash H (KGen c) (hs ops).
  Proof. reflexivity. Qed.
  Lemma tok_GenNC c p e ops : tok (GenNC c p e ops) = stock_token hash H (KGenNC c) (HTok (tok e) :: hs ops).
  Proof. reflexivity. Qed.
  Lemma tok_SliceExtract b pat : tok (SliceExtract b pat) = TkExtract (nm b) pat.
  Proof. reflexivity. Qed.
  Lemma tok_SrcRegion b o i n : tok (SrcRegion b o i n) = TkExact (NmRegion (nm b) (H [HLit o; HLit i; HLit n])).
  Proof. reflexivity. Qed.
  Lemma tok_SrcRechunk b oc nc : tok (SrcRechunk b oc nc) = TkExact (NmRechunkIO (nm b) (H [HLit oc; HLit nc])).
  Proof. reflexivity. Qed.
  Lemma tok_Blockwise p f oi dt adj na al cc kw m ops :
    tok (Blockwise p f oi dt adj na al cc kw m ops) = blockwise_token hash H f oi dt adj na al cc kw (hs ops).
  Proof. reflexivity. Qed.
  Lemma tok_Reduction c p e ch ag ax kd dt se cb cc os w m :
    tok (Reduction c p e ch ag ax kd dt se cb cc os w m) = reduction_token hash H c (tok e) ch ag ax kd dt se cb cc os (hs w).
  Proof. reflexivity. Qed.
  Lemma tok_PartialReduce p e f se kd dt m : tok (PartialReduce p e f se kd dt m) = partial_token hash H (tok e) f se kd dt.
  Proof. reflexivity. Qed.
  Lemma tok_Rechunk e ch th bs ba me :
    tok (Rechunk e ch th bs ba me) = stock_token hash H KRechunk [HTok (tok e); HLit ch; HLit th; HLit bs; HLit ba; HLit me].
  Proof. reflexivity. Qed.
  Lemma tok_TasksRechunk e ch th bs :
    tok (TasksRechunk e ch th bs) = stock_token hash H KTasksRechunk [HTok (tok e); HLit ch; HLit th; HLit bs].
  Proof. reflexivity. Qed.
  Lemma tok_Random c dr now di sz nch kw ops :
    tok (Random c dr now di sz nch kw ops) =
    stock_token hash H (KRandom c) [HName (random_name hash H dr di sz nch kw (hs ops))].
  Proof. reflexivity. Qed.
  Lemma tok_RootAlias o r : tok (RootAlias o r) = stock_token hash H KRootAlias [HTok (tok o); HName (nm r)].
  Proof. reflexivity. Qed.

  Lemma nm_Gen c p ops : nm (Gen c p ops) = NmPref p (stock_token hash H (KGen c) (hs ops)).
  Proof. reflexivity. Qed.
  Lemma nm_GenNC c p e ops : nm (GenNC c p e ops) = NmPref p (TkHash (H (HTok (tok e) :: hs ops))).
  Proof. reflexivity. Qed.
  Lemma nm_SliceExtract b pat : nm (SliceExtract b pat) = NmPref pfx_getitem (TkExtract (nm b) pat).
  Proof. reflexivity. Qed.
  Lemma nm_SrcRegion b o i n : nm (SrcRegion b o i n) = NmRegion (nm b) (H [HLit o; HLit i; HLit n]).
  Proof. reflexivity. Qed.
  Lemma nm_SrcRechunk b oc nc : nm (SrcRechunk b oc nc) = NmRechunkIO (nm b) (H [HLit oc; HLit nc]).
  Proof. reflexivity. Qed.
  Lemma nm_Blockwise p f oi dt adj na al cc kw m ops :
    nm (Blockwise p f oi dt adj na al cc kw m ops) = NmPref p (blockwise_token hash H f oi dt adj na al cc kw (hs ops)).
  Proof. reflexivity. Qed.
  Lemma nm_Reduction c p e ch ag ax kd dt se cb cc os w m :
    nm (Reduction c p e ch ag ax kd dt se cb cc os w m) =
    NmPref p (reduction_token hash H c (tok e) ch ag ax kd dt se cb cc os (hs w)).
  Proof. reflexivity. Qed.
  Lemma nm_PartialReduce p e f se kd dt m :
    nm (PartialReduce p e f se kd dt m) = NmPref p (partial_token hash H (tok e) f se kd dt).
  Proof. reflexivity. Qed.
  Lemma nm_Rechunk e ch th bs ba me :
    nm (Rechunk e ch th bs ba me) = NmRc1 (Hp [HName (nm e); HLit ch; HLit th; HLit bs; HLit ba; HLit me]).
  Proof. reflexivity. Qed.
  Lemma nm_TasksRechunk e ch th bs : nm (TasksRechunk e ch th bs) = NmRc1 (Hp [HName (nm e); HLit ch; HLit th; HLit bs]).
  Proof. reflexivity. Qed.
  Lemma nm_Random c dr now di sz nch kw ops :
    nm (Random c dr now di sz nch kw ops) = random_name hash H dr di sz nch kw (hs ops).
  Proof. reflexivity. Qed.
  Lemma nm_RootAlias o r : nm (RootAlias o r) = nm r.
  Proof. reflexivity. Qed.

  Lemma hs_ANil : hs ANil = [].
  Proof. reflexivity. Qed.
  Lemma hs_ALit z r : hs (ALit z r) = HLit z :: hs r.
  Proof. reflexivity. Qed.
  Lemma hs_AObj o r : hs (AObj o r) = HObj (addr o) :: hs r.
  Proof. reflexivity. Qed.
  Lemma hs_AChild e r : hs (AChild e r) = HTok (tok e) :: hs r.
  Proof. reflexivity. Qed.

  Lemma content_RootAlias o r : content_of (RootAlias o r) = content_of r.
  Proof. reflexivity. Qed.

  Ltac rw_in E :=
    rewrite ?tok_Gen, ?tok_GenNC, ?tok_SliceExtract, ?tok_SrcRegion, ?tok_SrcRechunk, ?tok_Blockwise, ?tok_Reduction,
            ?tok_PartialReduce, ?tok_Rechunk, ?tok_TasksRechunk, ?tok_Random, ?tok_RootAlias,
            ?nm_Gen, ?nm_GenNC, ?nm_SliceExtract, ?nm_SrcRegion, ?nm_SrcRechunk, ?nm_Blockwise, ?nm_Reduction,
            ?nm_PartialReduce, ?nm_Rechunk, ?nm_TasksRechunk, ?nm_Random,
            ?hs_ANil, ?hs_ALit, ?hs_AObj, ?hs_AChild in E.

  (* the core: tokens AND names determine the meaning; children enter through their token *)
  Lemma inj_aux : forall n : nat,
    (forall e1 e2, (esize e1 + esize e2 <= n)%nat ->
        (tok e1 = tok e2 -> content_of e1 = content_of e2) /\
        (nm e1 = nm e2 -> content_of e1 = content_of e2)) /\
    (forall a1 a2, (asize a1 + asize a2 <= n)%nat ->
        hs a1 = hs a2 -> cargs_of a1 = cargs_of a2).
  Proof.
    induction n as [|n IH].
    - split.
      + intros e1 e2 Hsz; destruct e1; cbn [esize] in Hsz; lia.
      + intros a1 a2 Hsz Heq.
        destruct a1; cbn [asize] in Hsz; try lia.
        destruct a2; cbn [asize] in Hsz; try lia. reflexivity.
    - destruct IH as [IHe IHa].
      assert (IHtok : forall e1 e2, (esize e1 + esize e2 <= n)%nat ->
                        tok e1 = tok e2 -> content_of e1 = content_of e2).
      { intros e1 e2 Hs. exact (proj1 (IHe e1 e2 Hs)). }
      assert (IHnm : forall e1 e2, (esize e1 + esize e2 <= n)%nat ->
                        nm e1 = nm e2 -> content_of e1 = content_of e2).
      { intros e1 e2 Hs. exact (proj2 (IHe e1 e2 Hs)). }
      clear IHe.
      split.
      + intros e1 e2 Hsz.
        destruct e1; destruct e2; cbn [esize] in Hsz;
          (split; intro Heq;
           [ rw_in Heq; unf; inj_all; subst
           | lazymatch type of Heq with
             | nm (RootAlias _ _) = _ =>
                 rewrite ?nm_RootAlias in Heq; rewrite ?content_RootAlias;
                 apply IHnm; [ cbn [esize]; lia | exact Heq ]
             | _ = nm (RootAlias _ _) =>
                 rewrite ?nm_RootAlias in Heq; rewrite ?content_RootAlias;
                 apply IHnm; [ cbn [esize]; lia | exact Heq ]
             | _ => rw_in Heq; unf; inj_all; subst
             end ];
           try (cbn [content_of];
                first [ solve [ apply IHnm; [ lia | assumption ] ] | f_equal ];
                first [ apply IHtok; [ lia | assumption ]
                      | apply IHnm; [ lia | assumption ]
                      | apply IHa; [ lia | assumption ]
                      | reflexivity ])).
      + intros a1 a2 Hsz Heq.
        destruct a1; destruct a2; cbn [asize] in Hsz;
          rw_in Heq; inj_all; subst; cbn [cargs_of]; try reflexivity;
          f_equal;
          first [ apply IHtok; [ lia | assumption ]
                | apply IHa; [ lia | assumption ] ].
  Qed.

  Theorem token_injective : forall e1 e2,
    tok e1 = tok e2 -> content_of e1 = content_of e2.
  Proof.
    intros e1 e2. exact (proj1 (proj1 (inj_aux (esize e1 + esize e2)) e1 e2 (le_n _))).
  Qed.

  Theorem name_injective : forall e1 e2,
    nm e1 = nm e2 -> content_of e1 = content_of e2.
  Proof.
    intros e1 e2. exact (proj2 (proj1 (inj_aux (esize e1 + esize e2)) e1 e2 (le_n _))).
  Qed.

  (* the operands the tokenizers omit are not part of the meaning; the name prefix is part of the name *)
  Lemma blockwise_omitted : forall p p' m m' f oi dt adj na al cc kw ops,
    tok (Blockwise p f oi dt adj na al cc kw m ops) = tok (Blockwise p' f oi dt adj na al cc kw m' ops) /\
    content_of (Blockwise p f oi dt adj na al cc kw m ops) = content_of (Blockwise p' f oi dt adj na al cc kw m' ops) /\
    (nm (Blockwise p f oi dt adj na al cc kw m ops) = nm (Blockwise p' f oi dt adj na al cc kw m' ops) <-> p = p').
  Proof.
    intros. repeat split; intro E.
    - rewrite !nm_Blockwise in E. injection E. auto.
    - subst. reflexivity.
  Qed.

  Lemma reduction_omitted : forall c p p' m m' e ch ag ax kd dt se cb cc os w,
    tok (Reduction c p e ch ag ax kd dt se cb cc os w m) = tok (Reduction c p' e ch ag ax kd dt se cb cc os w m') /\
    content_of (Reduction c p e ch ag ax kd dt se cb cc os w m) = content_of (Reduction c p' e ch ag ax kd dt se cb cc os w m').
  Proof. intros. split; reflexivity. Qed.

  Lemma partial_omitted : forall p p' m m' e f se kd dt,
    tok (PartialReduce p e f se kd dt m) = tok (PartialReduce p' e f se kd dt m') /\
    content_of (PartialReduce p e f se kd dt m) = content_of (PartialReduce p' e f se kd dt m').
  Proof. intros. split; reflexivity. Qed.

  (* Random (finding C06-A, FIXED): the parent used to see the rng state at TOKENISATION time while the values
     come from the state at DRAW time, so two draws r1, r2 from one rng object that were both used only after
     the second draw shared a token and (r1 + 1), (r2 + 1) shared a name.  With Random.__dask_tokenize__ =
     H(type, _name) two draws have different names, different tokens, and so have their parents. *)
  Definition draw (d : Z) : expr := Random 0 d 2 0 0 0 0 ANil.     (* drawn in state d, looked at in state 2 *)
  Definition plus1 (x : expr) : expr := Gen 1 1 (AChild x (ALit 1 ANil)).

  Theorem random_shared_rng_distinct : forall d1 d2, d1 <> d2 ->
    nm (draw d1) <> nm (draw d2) /\
    tok (draw d1) <> tok (draw d2) /\
    nm (plus1 (draw d1)) <> nm (plus1 (draw d2)) /\
    tok (plus1 (draw d1)) <> tok (plus1 (draw d2)).
  Proof.
    intros d1 d2 Hd.
    assert (C : content_of (draw d1) <> content_of (draw d2)).
    { cbn. intro E. injection E. exact Hd. }
    assert (C1 : content_of (plus1 (draw d1)) <> content_of (plus1 (draw d2))).
    { cbn. intro E. injection E. exact Hd. }
    split; [|split; [|split]]; intro E.
    - apply C. apply name_injective. exact E.
    - apply C. apply token_injective. exact E.
    - apply C1. apply name_injective. exact E.
    - apply C1. apply token_injective. exact E.
  Qed.

  (* ---------------------------------------------------------------------------------------------- *)
  (* name-keyed stores *)
  Variable name_eqb : name hash -> name hash -> bool.
  Hypothesis name_eqb_spec : forall a b, name_eqb a b = true <-> a = b.

  Notation lookup := (lookup hash name_eqb).
  Notation remove := (remove hash name_eqb).
  Notation setdefault := (setdefault hash name_eqb).
  Notation store_ok := (store_ok hash H Hp addr pfx_getitem).
  Notation state_ok := (state_ok hash H Hp addr pfx_getitem).
  Notation step := (step hash H Hp addr pfx_getitem name_eqb).
  Notation run := (run hash H Hp addr pfx_getitem name_eqb).
  Notation walk := walk.

  Lemma lookup_In : forall n s c, lookup n s = Some c -> In (n, c) s.
  Proof.
    intros n s c. induction s as [|[m d] r IHs]; cbn [Names.lookup]; intro E.
    - discriminate.
    - destruct (name_eqb n m) eqn:Q.
      + apply name_eqb_spec in Q. injection E as <-. subst. left. reflexivity.
      + right. auto.
  Qed.

  Lemma remove_In : forall n s x, In x (remove n s) -> In x s.
  Proof.
    intros n s x. induction s as [|[m d] r IHs]; cbn [Names.remove]; intro E.
    - exact E.
    - destruct (name_eqb n m).
      + right. auto.
      + destruct E as [E|E]; [left; exact E | right; auto].
  Qed.

  Lemma store_ok_nil : store_ok [].
  Proof. intros n c []. Qed.

  Lemma store_ok_cons : forall e s, store_ok s -> store_ok ((nm e, content_of e) :: s).
  Proof.
    intros e s Hs n c [E|E] e' Hn.
    - injection E as <- <-. apply name_injective; assumption.
    - eapply Hs; eassumption.
  Qed.

  Lemma store_ok_setdefault : forall e s, store_ok s -> store_ok (setdefault (nm e) (content_of e) s).
  Proof.
    intros e s Hs. unfold Names.setdefault. destruct (lookup (nm e) s); [exact Hs | apply store_ok_cons; assumption].
  Qed.

  Lemma store_ok_remove : forall n s, store_ok s -> store_ok (remove n s).
  Proof. intros n s Hs m c Hin. apply Hs. eapply remove_In; eassumption. Qed.

  Lemma store_ok_merge : forall l s, store_ok s ->
    store_ok (fold_left (fun g x => (nm x, content_of x) :: g) l s).
  Proof.
    induction l as [|x l IHl]; intros s Hs; cbn [fold_left].
    - exact Hs.
    - apply IHl. apply store_ok_cons; assumption.
  Qed.

  Lemma step_ok : forall st o, state_ok st -> state_ok (step st o).
  Proof.
    intros st o [Hr [Hl Hg]]. destruct o as [e|e|e|n]; cbn [Names.step] in *.
    - destruct (opts_out e); [repeat split; assumption|].
      repeat split; cbn; try assumption. apply store_ok_setdefault; assumption.
    - destruct (opts_out e); [repeat split; assumption|].
      repeat split; cbn; try assumption. apply store_ok_setdefault; assumption.
    - repeat split; cbn; try assumption. apply store_ok_merge; assumption.
    - repeat split; cbn; try assumption; apply store_ok_remove; assumption.
  Qed.

  Lemma fold_ok : forall ops st, state_ok st -> state_ok (fold_left step ops st).
  Proof.
    induction ops as [|o ops IHo]; intros st Hs; cbn [fold_left].
    - exact Hs.
    - apply IHo. apply step_ok; assumption.
  Qed.

  Theorem cache_invariant : forall ops, state_ok (run ops).
  Proof.
    intros ops. unfold Names.run. apply fold_ok.
    repeat split; apply store_ok_nil.
  Qed.

  (* whatever a hit in any of the three stores hands back, it is the meaning of the expression asked for *)
  Theorem cache_dedup_sound : forall ops e c,
    (lookup (nm e) (registry hash (run ops)) = Some c \/
     lookup (nm e) (lowered hash (run ops)) = Some c \/
     lookup (nm e) (graph hash (run ops)) = Some c) ->
    c = content_of e.
  Proof.
    intros ops e c Hl. destruct (cache_invariant ops) as [Hr [Hw Hg]].
    symmetry. destruct Hl as [Hl|[Hl|Hl]]; apply lookup_In in Hl.
    - eapply Hr; [exact Hl | reflexivity].
    - eapply Hw; [exact Hl | reflexivity].
    - eapply Hg; [exact Hl | reflexivity].
  Qed.

  (* the pinned / exact-named nodes never enter the registry or the lowering cache *)
  Lemma opted_out_never_cached : forall st e, opts_out e = true ->
    step st (Build hash e) = st /\ step st (Lower hash e) = st.
  Proof. intros st e E. cbn [Names.step]. rewrite E. split; reflexivity. Qed.

  (* ---------------------------------------------------------------------------------------------- *)
  (* pickle round trip *)
  Variable H' : list (harg hash) -> hash.

  Theorem roundtrip_with_cache : forall e,
    rt_name hash H Hp addr pfx_getitem H' true e = nm e /\ rt_token hash H Hp addr pfx_getitem e = tok e.
  Proof.
    intro e. split; [|reflexivity].
    induction e; cbn [rt_name]; try reflexivity; rewrite IHe; reflexivity.
  Qed.

  Theorem roundtrip_without_cache : forall e, (forall l, H' l = H l) -> rng_unmoved e ->
    rt_name hash H Hp addr pfx_getitem H' false e = nm e.
  Proof.
    intros e HH. induction e; intro F; cbn [rt_name rng_unmoved] in *; rewrite ?HH; try reflexivity;
      try (rewrite IHe by tauto; reflexivity).
    destruct F as [-> _]. reflexivity.
  Qed.

End Facts.

(* ------------------------------------------------------------------------------------------------ *)
(* determinism: names do not depend on object identities unless an operand is tokenised by id() *)
Scheme expr_mut := Induction for expr Sort Prop
  with args_mut := Induction for args Sort Prop.
Combined Scheme expr_args_ind from expr_mut, args_mut.

Section Determinism.
  Variable hash : Type.
  Variable H Hp : list (harg hash) -> hash.
  Variable pfx_getitem : Z.
  Variable addr addr' : Z -> Z.

  Lemma deterministic_aux :
    (forall e, obj_free e ->
       token_of hash H Hp addr pfx_getitem e = token_of hash H Hp addr' pfx_getitem e /\
       name_of hash H Hp addr pfx_getitem e = name_of hash H Hp addr' pfx_getitem e) /\
    (forall a, args_obj_free a -> hargs hash H Hp addr pfx_getitem a = hargs hash H Hp addr' pfx_getitem a).
  Proof.
    apply expr_args_ind; intros; cbn [obj_free args_obj_free] in *;
      repeat match goal with
             | [ F : _ /\ _ |- _ ] => destruct F
             | [ IH : ?P -> _, F : ?P |- _ ] => specialize (IH F)
             end;
      rewrite ?tok_Gen, ?tok_GenNC, ?tok_SliceExtract, ?tok_SrcRegion, ?tok_SrcRechunk, ?tok_Blockwise, ?tok_Reduction,
              ?tok_PartialReduce, ?tok_Rechunk, ?tok_TasksRechunk, ?tok_Random, ?tok_RootAlias,
              ?nm_Gen, ?nm_GenNC, ?nm_SliceExtract, ?nm_SrcRegion, ?nm_SrcRechunk, ?nm_Blockwise, ?nm_Reduction,
              ?nm_PartialReduce, ?nm_Rechunk, ?nm_TasksRechunk, ?nm_Random, ?nm_RootAlias,
              ?hs_ANil, ?hs_ALit, ?hs_AObj, ?hs_AChild;
      repeat match goal with [ E : _ = _ |- _ ] => rewrite E; clear E end;
      try tauto; try (split; reflexivity); try reflexivity.
  Qed.

  Theorem name_deterministic : forall e, obj_free e ->
    name_of hash H Hp addr pfx_getitem e = name_of hash H Hp addr' pfx_getitem e /\
    token_of hash H Hp addr pfx_getitem e = token_of hash H Hp addr' pfx_getitem e.
  Proof. intros e F. destruct (proj1 deterministic_aux e F). split; assumption. Qed.

  (* ... and an identity-tokenised operand does leak the address (the documented exception) *)
  Theorem identity_operand_leaks : (forall a b, H a = H b -> a = b) -> addr 0 <> addr' 0 ->
    name_of hash H Hp addr pfx_getitem (Gen 0 0 (AObj 0 ANil)) <> name_of hash H Hp addr' pfx_getitem (Gen 0 0 (AObj 0 ANil)).
  Proof.
    intros Hinj Hne E. cbn in E. unfold stock_token in E. injection E as E. apply Hinj in E.
    injection E as E. auto.
  Qed.
End Determinism.

(* ------------------------------------------------------------------------------------------------ *)
(* the hypotheses are satisfiable: a free tree type is an injective "hash" *)
Inductive ftree : Type := FNode (z : Z) (l : list ftree).

Scheme token_mut := Induction for token Sort Prop
  with name_mut := Induction for name Sort Prop.
Combined Scheme token_name_ind from token_mut, name_mut.

Fixpoint enc_token (t : token ftree) : ftree :=
  match t with
  | TkHash h => FNode 1 [h]
  | TkExact n => FNode 2 [enc_name n]
  | TkExtract n p => FNode 3 [FNode p []; enc_name n]
  end
with enc_name (n : name ftree) : ftree :=
  match n with
  | NmPref p t => FNode 4 [FNode p []; enc_token t]
  | NmRegion b h => FNode 5 [h; enc_name b]
  | NmRechunkIO b h => FNode 6 [h; enc_name b]
  | NmRc1 h => FNode 7 [h]
  | NmRandom d h => FNode 8 [FNode d []; h]
  end.

Definition enc_cls (c : clsid) : ftree :=
  match c with
  | KGen c => FNode 20 [FNode c []] | KGenNC c => FNode 26 [FNode c []] | KRed c => FNode 21 [FNode c []] | KRechunk => FNode 22 []
  | KTasksRechunk => FNode 23 [] | KRandom c => FNode 24 [FNode c []] | KRootAlias => FNode 25 []
  end.

Definition enc_harg (a : harg ftree) : ftree :=
  match a with
  | HCls c => FNode 10 [enc_cls c]
  | HLit z => FNode 11 [FNode z []]
  | HObj z => FNode 12 [FNode z []]
  | HTok t => FNode 13 [enc_token t]
  | HName n => FNode 14 [enc_name n]
  | HHash h => FNode 15 [h]
  end.

Definition FHm (l : list (harg ftree)) : ftree := FNode 100 (map enc_harg l).
Definition FHp (l : list (harg ftree)) : ftree := FNode 101 (map enc_harg l).

Lemma enc_token_name_inj :
  (forall t t', enc_token t = enc_token t' -> t = t') /\
  (forall n n', enc_name n = enc_name n' -> n = n').
Proof.
  apply token_name_ind.
  - intros h t' E. destruct t'; cbn in E; try discriminate E. injection E as ->. reflexivity.
  - intros n IH t' E. destruct t'; cbn [enc_token] in E; try discriminate E.
    injection E as E. rewrite (IH _ E). reflexivity.
  - intros n IH p t' E. destruct t'; cbn [enc_token] in E; try discriminate E.
    injection E as -> E. rewrite (IH _ E). reflexivity.
  - intros p t IH n' E. destruct n'; cbn [enc_name] in E; try discriminate E.
    injection E as -> E. rewrite (IH _ E). reflexivity.
  - intros b IH h n' E. destruct n'; cbn [enc_name] in E; try discriminate E.
    injection E as -> E. rewrite (IH _ E). reflexivity.
  - intros b IH h n' E. destruct n'; cbn [enc_name] in E; try discriminate E.
    injection E as -> E. rewrite (IH _ E). reflexivity.
  - intros h n' E. destruct n'; cbn [enc_name] in E; try discriminate E. injection E as ->. reflexivity.
  - intros d h n' E. destruct n'; cbn [enc_name] in E; try discriminate E. injection E as -> ->. reflexivity.
Qed.

Lemma enc_cls_inj : forall c c', enc_cls c = enc_cls c' -> c = c'.
Proof.
  intros c c' E. destruct c; destruct c'; cbn in E; try discriminate E; try reflexivity;
    injection E as ->; reflexivity.
Qed.

Lemma enc_harg_inj : forall a b, enc_harg a = enc_harg b -> a = b.
Proof.
  intros a b E. destruct a; destruct b; cbn [enc_harg] in E; try discriminate E; injection E as E.
  - rewrite (enc_cls_inj _ _ E). reflexivity.
  - subst. reflexivity.
  - subst. reflexivity.
  - rewrite (proj1 enc_token_name_inj _ _ E). reflexivity.
  - rewrite (proj2 enc_token_name_inj _ _ E). reflexivity.
  - subst. reflexivity.
Qed.

Lemma map_enc_inj : forall a b, map enc_harg a = map enc_harg b -> a = b.
Proof.
  induction a as [|x a IHa]; destruct b as [|y b]; cbn [map]; intro E; try discriminate E.
  - reflexivity.
  - injection E as E1 E2. rewrite (enc_harg_inj _ _ E1), (IHa _ E2). reflexivity.
Qed.

Lemma FHm_inj : forall a b, FHm a = FHm b -> a = b.
Proof. intros a b E. injection E as E. apply map_enc_inj. exact E. Qed.
Lemma FHp_inj : forall a b, FHp a = FHp b -> a = b.
Proof. intros a b E. injection E as E. apply map_enc_inj. exact E. Qed.

(* decidable equality of the free names (for the store lookups) *)
Fixpoint ftree_eqb (a b : ftree) : bool :=
  match a, b with
  | FNode x l, FNode y m =>
      (x =? y) &&
      (fix go (l m : list ftree) : bool :=
         match l, m with
         | [], [] => true
         | p :: l', q :: m' => ftree_eqb p q && go l' m'
         | _, _ => false
         end) l m
  end.

Fixpoint ftree_rect' (P : ftree -> Prop) (f : forall z l, Forall P l -> P (FNode z l)) (t : ftree) : P t :=
  match t with
  | FNode z l =>
      f z l ((fix go (l : list ftree) : Forall P l :=
                match l return Forall P l with
                | [] => Forall_nil P
                | x :: r => Forall_cons x (ftree_rect' P f x) (go r)
                end) l)
  end.

Lemma ftree_eqb_spec : forall a b, ftree_eqb a b = true <-> a = b.
Proof.
  intro a. induction a as [x l IHl] using ftree_rect'. intros [y m]. cbn [ftree_eqb].
  rewrite andb_true_iff, Z.eqb_eq.
  assert (L : (fix go (l m : list ftree) : bool :=
                 match l, m with
                 | [], [] => true
                 | p :: l', q :: m' => ftree_eqb p q && go l' m'
                 | _, _ => false
                 end) l m = true <-> l = m).
  { revert m. induction IHl as [|p l' Hp Hl IH]; intros [|q m']; split; intro E; try discriminate E; try reflexivity.
    - apply andb_true_iff in E. destruct E as [E1 E2]. apply Hp in E1. apply IH in E2. subst. reflexivity.
    - injection E as -> ->. apply andb_true_iff. split; [apply Hp; reflexivity | apply IH; reflexivity]. }
  rewrite L. split.
  - intros [-> ->]. reflexivity.
  - intro E. injection E as -> ->. split; reflexivity.
Qed.

Definition fname_eqb (n m : name ftree) : bool := ftree_eqb (enc_name n) (enc_name m).

Lemma fname_eqb_spec : forall a b, fname_eqb a b = true <-> a = b.
Proof.
  intros a b. unfold fname_eqb. rewrite ftree_eqb_spec. split.
  - apply (proj2 enc_token_name_inj).
  - intros ->. reflexivity.
Qed.
