(* Proofs about the model of normalize_chunks / auto_chunks /
   blockdims_from_blockshape (NormChunks.v).

   T5  blockdims_axis_ok, blockdims_axis_err
   T1  normalize_valid_layout
   T2  normalize_uniform, normalize_full
   T3  normalize_zero_only_on_empty_axes, normalize_explicit_zero_refuted
   T4  normalize_auto_limit (+ _max, _all_levels, normalize_auto_unit_chunks)
   extra: auto_chunks_fuel_adequate (the model's fuel never runs out)

   All statements quantify over every value of the float oracle [sizes]; T4
   assumes the defining inequality of the k-th root for the LAST oracle value
   that the recursion consumes (see [auto_last]). *)
From DA Require Import PyBase PyBaseFacts NormChunks.
From Coq Require Import ZifyBool.
Open Scope Z_scope.
Ltac Zify.zify_post_hook ::= Z.to_euclidean_division_equations.

(* ---------------------------------------------------------------------- *)
(* generic list helpers *)

Lemma zsum_repeat c k : zsum (repeat c k) = Z.of_nat k * c.
Proof. induction k as [|k IH]; cbn [repeat zsum]; lia. Qed.

Lemma forallb_repeat {A} (f : A -> bool) c k : f c = true -> forallb f (repeat c k) = true.
Proof. intros H. induction k as [|k IH]; cbn [repeat forallb]; [reflexivity|]. rewrite H, IH. reflexivity. Qed.

Lemma nth_error_combine {A B} (l1 : list A) (l2 : list B) i :
  nth_error (combine l1 l2) i =
  match nth_error l1 i, nth_error l2 i with
  | Some a, Some b => Some (a, b)
  | _, _ => None
  end.
Proof.
  revert l2 i. induction l1 as [|a l1 IH]; intros [|b l2] [|i]; cbn [combine nth_error]; try reflexivity.
  - destruct (nth_error l1 i); reflexivity.
  - apply IH.
Qed.

Lemma nth_error_same_length {A B} (l1 : list A) (l2 : list B) i b :
  length l1 = length l2 -> nth_error l2 i = Some b -> exists a, nth_error l1 i = Some a.
Proof.
  intros Hl Hb. destruct (nth_error l1 i) as [a|] eqn:E; [eauto|].
  apply nth_error_None in E.
  assert (i < length l2)%nat by (apply nth_error_Some; congruence). lia.
Qed.

Lemma existsb_false_In {A} (f : A -> bool) l x : existsb f l = false -> In x l -> f x = false.
Proof.
  intros H Hin. destruct (f x) eqn:E; [|reflexivity].
  assert (existsb f l = true) by (apply existsb_exists; eauto). congruence.
Qed.

Lemma combine_map_r {A B} (g : A -> B) (l : list A) : combine l (map g l) = map (fun x => (x, g x)) l.
Proof. induction l as [|x l IH]; cbn [map combine]; [reflexivity|]. rewrite IH. reflexivity. Qed.

Lemma map_fst_combine {A B} (l1 : list A) (l2 : list B) :
  length l1 = length l2 -> map fst (combine l1 l2) = l1.
Proof.
  revert l2. induction l1 as [|a l1 IH]; intros [|b l2] H; cbn in *; try reflexivity; try discriminate.
  rewrite IH by lia. reflexivity.
Qed.

Lemma Forall2_maps {X A B} (f : X -> A) (g : X -> B) (R : A -> B -> Prop) l :
  Forall (fun x => R (f x) (g x)) l -> Forall2 R (map f l) (map g l).
Proof. induction 1; cbn [map]; constructor; assumption. Qed.

Lemma existsb_id_map_false {A} (g : A -> bool) l :
  Forall (fun x => g x = false) l -> existsb (fun b => b) (map g l) = false.
Proof. induction 1 as [|x l Hx _ IH]; cbn [map existsb]; [reflexivity|]. rewrite Hx, IH. reflexivity. Qed.

(* max of a list with base 0 *)
Lemma fold_max_nonneg l : 0 <= fold_right Z.max 0 l.
Proof. induction l as [|x l IH]; cbn [fold_right]; lia. Qed.

Lemma fold_max_le l b : 0 <= b -> Forall (fun x => x <= b) l -> fold_right Z.max 0 l <= b.
Proof. intros Hb H. induction H as [|x l Hx _ IH]; cbn [fold_right]; lia. Qed.

Lemma fold_max_base_mono l a b : a <= b -> fold_right Z.max a l <= fold_right Z.max b l.
Proof. intros H. induction l as [|x l IH]; cbn [fold_right]; lia. Qed.

Lemma no_neg_all_nonneg l : existsb (fun x => x <? 0) l = false -> all_nonneg l = true.
Proof.
  unfold all_nonneg. induction l as [|x l IH]; cbn [existsb forallb]; [reflexivity|].
  intros H. apply orb_false_iff in H as [Hx Hl]. rewrite IH by exact Hl.
  apply andb_true_iff. split; [lia|reflexivity].
Qed.

Lemma no_neg_Forall l : existsb (fun x => x <? 0) l = false -> Forall (fun x => 0 <= x) l.
Proof.
  induction l as [|x l IH]; cbn [existsb]; intros H; constructor;
    apply orb_false_iff in H as [Hx Hl]; [lia|auto].
Qed.

(* ---------------------------------------------------------------------- *)
(* T5: blockdims_from_blockshape on one axis *)

Theorem blockdims_axis_ok d bd cs :
  0 <= d -> blockdims_axis d bd = Ok cs -> 0 < bd -> axis_layout_ok cs d = true.
Proof.
  intros Hd H Hbd. unfold blockdims_axis in H.
  destruct (d =? 0) eqn:Ed.
  - injection H as <-. assert (d = 0) as -> by lia. reflexivity.
  - destruct (bd =? 0) eqn:Eb; [lia|]. injection H as <-.
    unfold axis_layout_ok. apply andb_true_iff. split; [apply andb_true_iff; split|].
    + destruct (Z.to_nat (d / bd)) eqn:En; cbn [repeat app]; [|reflexivity].
      destruct (d mod bd =? 0) eqn:Em; [|reflexivity].
      exfalso. assert (d / bd <= 0) by lia. lia.
    + unfold all_nonneg. rewrite forallb_app. apply andb_true_iff. split.
      * apply forallb_repeat. lia.
      * destruct (d mod bd =? 0) eqn:Em; cbn [forallb]; [reflexivity|].
        apply andb_true_iff. split; [lia|reflexivity].
    + rewrite zsum_app, zsum_repeat.
      assert (0 <= d / bd) by (apply Z.div_pos; lia).
      rewrite Z2Nat.id by assumption.
      destruct (d mod bd =? 0) eqn:Em; cbn [zsum]; lia.
Qed.

(* blockdims_axis fails exactly on a zero block size for a non-empty axis
   (Python: ZeroDivisionError from d // bd) *)
Theorem blockdims_axis_err d bd e :
  blockdims_axis d bd = Err e <-> (e = EZeroDiv /\ d <> 0 /\ bd = 0).
Proof.
  unfold blockdims_axis. split.
  - destruct (d =? 0) eqn:Ed; [discriminate|].
    destruct (bd =? 0) eqn:Eb; [|discriminate].
    intros H. injection H as <-. repeat split; lia.
  - intros (-> & Hd & ->).
    destruct (d =? 0) eqn:Ed; [lia|]. reflexivity.
Qed.

(* What an accepted (non-empty, non-negative) result of blockdims_axis looks
   like — for ANY d, bd (negative ones included). *)
Lemma blockdims_axis_checked d bd cs :
  blockdims_axis d bd = Ok cs -> is_nil cs = false -> existsb (fun x => x <? 0) cs = false ->
  (d = 0 /\ cs = [0]) \/
  (d <> 0 /\ 0 < bd /\ cs = repeat bd (Z.to_nat (d / bd)) ++ (if d mod bd =? 0 then [] else [d mod bd])).
Proof.
  intros H Hnil Hneg. unfold blockdims_axis in H.
  destruct (d =? 0) eqn:Ed.
  - injection H as <-. left. split; [lia|reflexivity].
  - destruct (bd =? 0) eqn:Eb; [discriminate|]. injection H as <-.
    right. split; [lia|]. split; [|reflexivity].
    destruct (Z_lt_le_dec 0 bd) as [Hp|Hn]; [exact Hp|exfalso].
    assert (bd < 0) as Hbd by lia. clear Hn Eb.
    destruct (Z.to_nat (d / bd)) eqn:En; cbn [repeat app existsb] in Hneg, Hnil.
    + destruct (d mod bd =? 0) eqn:Em; cbn [is_nil existsb] in Hneg, Hnil; [discriminate|].
      apply orb_false_iff in Hneg as [Hneg _]. lia.
    + apply orb_false_iff in Hneg as [Hneg _]. lia.
Qed.

Lemma blockdims_axis_sum d bd cs :
  0 <= d -> blockdims_axis d bd = Ok cs -> is_nil cs = false -> existsb (fun x => x <? 0) cs = false ->
  zsum cs = d.
Proof.
  intros Hd H Hnil Hneg.
  destruct (blockdims_axis_checked d bd cs H Hnil Hneg) as [[-> ->] | (Hd0 & Hbd & _)]; [reflexivity|].
  pose proof (blockdims_axis_ok d bd cs Hd H Hbd) as Hok.
  unfold axis_layout_ok in Hok. apply andb_true_iff in Hok as [_ Hs]. lia.
Qed.

Lemma blockdims_axis_pos d bd cs :
  0 < d -> blockdims_axis d bd = Ok cs -> is_nil cs = false -> existsb (fun x => x <? 0) cs = false ->
  Forall (fun c => 0 < c) cs.
Proof.
  intros Hd H Hnil Hneg.
  destruct (blockdims_axis_checked d bd cs H Hnil Hneg) as [[-> _] | (Hd0 & Hbd & ->)]; [lia|].
  apply Forall_app. split.
  - apply Forall_forall. intros x Hx. apply repeat_spec in Hx. lia.
  - destruct (d mod bd =? 0) eqn:Em; constructor; [lia|constructor].
Qed.

Lemma blockdims_axis_max d bd cs :
  blockdims_axis d bd = Ok cs -> is_nil cs = false -> existsb (fun x => x <? 0) cs = false ->
  fold_right Z.max 0 cs = 0 \/ fold_right Z.max 0 cs <= bd.
Proof.
  intros H Hnil Hneg.
  destruct (blockdims_axis_checked d bd cs H Hnil Hneg) as [[-> ->] | (Hd0 & Hbd & ->)]; [left; reflexivity|].
  right. apply fold_max_le; [lia|].
  apply Forall_app. split.
  - apply Forall_forall. intros x Hx. apply repeat_spec in Hx. lia.
  - destruct (d mod bd =? 0) eqn:Em; constructor; [lia|constructor].
Qed.

(* ---------------------------------------------------------------------- *)
(* structure of normalize_chunks *)

Definition subst_all (specs : list aspec) (shape : list Z) : list aspec :=
  map (fun p => subst_full (fst p) (snd p)) (combine specs shape).

Lemma subst_all_length specs shape :
  length specs = length shape -> length (subst_all specs shape) = length shape.
Proof. intros H. unfold subst_all. rewrite map_length, combine_length. lia. Qed.

Lemma subst_all_nth specs shape i sp n :
  nth_error specs i = Some sp -> nth_error shape i = Some n ->
  nth_error (subst_all specs shape) i = Some (subst_full sp n).
Proof.
  intros Hs Hn. unfold subst_all. rewrite nth_error_map, nth_error_combine, Hs, Hn. reflexivity.
Qed.

Lemma normalize_chunks_inv sizes specs shape cs :
  normalize_chunks sizes specs shape = Ok cs ->
  length specs = length shape /\
  exists specs',
    auto_chunks (S (length (subst_all specs shape))) sizes (subst_all specs shape) shape = Ok specs' /\
    convert_all specs' shape = Ok cs /\
    existsb is_nil cs = false /\
    existsb (fun c => existsb (fun x => x <? 0) c) cs = false /\
    (forallb is_int_spec specs' = true \/
     forallb (fun p => zsum (fst p) =? snd p) (combine cs shape) = true).
Proof.
  unfold normalize_chunks. fold (subst_all specs shape).
  destruct (Nat.eqb (length specs) (length shape)) eqn:El; cbn [negb]; [|discriminate].
  apply Nat.eqb_eq in El.
  destruct (auto_chunks _ sizes (subst_all specs shape) shape) as [specs'|] eqn:Ha; [|discriminate].
  destruct (convert_all specs' shape) as [chunks|] eqn:Hc; [|discriminate].
  destruct (existsb is_nil chunks) eqn:Hnil; [discriminate|].
  destruct (existsb (fun c => existsb (fun x => x <? 0) c) chunks) eqn:Hneg; [discriminate|].
  destruct (forallb is_int_spec specs') eqn:Hint; cbn [negb andb].
  - intros H. injection H as <-. split; [exact El|]. exists specs'. auto 10.
  - destruct (forallb (fun p => zsum (fst p) =? snd p) (combine chunks shape)) eqn:Hsum; cbn [negb]; [|discriminate].
    intros H. injection H as <-. split; [exact El|]. exists specs'. auto 10.
Qed.

Lemma convert_all_cons sp specs n shape cs :
  convert_all (sp :: specs) (n :: shape) = Ok cs ->
  exists c r, cs = c :: r /\ convert_axis sp n = Ok c /\ convert_all specs shape = Ok r.
Proof.
  cbn [convert_all]. destruct (convert_axis sp n) as [c|], (convert_all specs shape) as [r|];
    intros H; try discriminate. injection H as <-. eauto.
Qed.

Lemma convert_all_nth specs : forall shape cs,
  convert_all specs shape = Ok cs ->
  length cs = length shape /\ length specs = length shape /\
  forall i sp n, nth_error specs i = Some sp -> nth_error shape i = Some n ->
    exists l, nth_error cs i = Some l /\ convert_axis sp n = Ok l.
Proof.
  induction specs as [|sp specs IH]; intros [|n shape] cs H; try (cbn in H; discriminate).
  - cbn in H. injection H as <-. repeat split. intros [|i] sp n; cbn; discriminate.
  - apply convert_all_cons in H as (c & r & -> & Hc & Hr).
    destruct (IH shape r Hr) as (L1 & L2 & Hn).
    cbn [length]. repeat split; try lia.
    intros [|i] sp' n' Hs Hsh; cbn [nth_error] in *.
    + injection Hs as <-. injection Hsh as <-. eauto.
    + eauto.
Qed.

(* ---------------------------------------------------------------------- *)
(* T1: every accepted specification yields a valid layout *)

Lemma convert_all_int_sums specs : forall shape cs,
  Forall (fun n => 0 <= n) shape ->
  convert_all specs shape = Ok cs ->
  existsb is_nil cs = false ->
  existsb (fun c => existsb (fun x => x <? 0) c) cs = false ->
  forallb is_int_spec specs = true ->
  forallb (fun p => zsum (fst p) =? snd p) (combine cs shape) = true.
Proof.
  induction specs as [|sp specs IH]; intros [|n shape] cs Hsh H Hnil Hneg Hint; try (cbn in H; discriminate).
  - cbn in H. injection H as <-. reflexivity.
  - apply convert_all_cons in H as (c & r & -> & Hc & Hr).
    cbn [existsb] in Hnil, Hneg. apply orb_false_iff in Hnil as [Hnil1 Hnil2].
    apply orb_false_iff in Hneg as [Hneg1 Hneg2].
    cbn [forallb] in Hint. apply andb_true_iff in Hint as [Hi1 Hi2].
    inversion Hsh as [|? ? Hn Hsh']; subst.
    cbn [combine forallb fst snd]. apply andb_true_iff. split.
    + destruct sp as [c0| | |]; cbn in Hi1; try discriminate. cbn [convert_axis] in Hc.
      pose proof (blockdims_axis_sum n c0 c Hn Hc Hnil1 Hneg1). lia.
    + apply IH; assumption.
Qed.

Lemma checks_layout cs : forall shape,
  length cs = length shape ->
  existsb is_nil cs = false ->
  existsb (fun c => existsb (fun x => x <? 0) c) cs = false ->
  forallb (fun p => zsum (fst p) =? snd p) (combine cs shape) = true ->
  forallb (fun p => axis_layout_ok (fst p) (snd p)) (combine cs shape) = true.
Proof.
  induction cs as [|c cs IH]; intros [|n shape] Hl Hnil Hneg Hsum; cbn in Hl; try discriminate; [reflexivity|].
  cbn [existsb] in Hnil, Hneg. apply orb_false_iff in Hnil as [Hnil1 Hnil2].
  apply orb_false_iff in Hneg as [Hneg1 Hneg2].
  cbn [combine forallb fst snd] in *. apply andb_true_iff in Hsum as [Hs1 Hs2].
  apply andb_true_iff. split.
  - unfold axis_layout_ok. rewrite Hnil1, (no_neg_all_nonneg c Hneg1), Hs1. reflexivity.
  - apply IH; [lia|assumption..].
Qed.

Theorem normalize_valid_layout : forall sizes specs shape cs,
  Forall (fun n => 0 <= n) shape ->
  normalize_chunks sizes specs shape = Ok cs ->
  layout_ok cs shape = true.
Proof.
  intros sizes specs shape cs Hsh H.
  apply normalize_chunks_inv in H as (Hlen & specs' & Ha & Hc & Hnil & Hneg & Hsum).
  destruct (convert_all_nth specs' shape cs Hc) as (L1 & L2 & _).
  unfold layout_ok. apply andb_true_iff. split; [apply Nat.eqb_eq; exact L1|].
  apply checks_layout; try assumption.
  destruct Hsum as [Hint|Hsum]; [|exact Hsum].
  eapply convert_all_int_sums; eassumption.
Qed.

(* ---------------------------------------------------------------------- *)
(* structure of the auto_chunks recursion *)

(* which axes are "small" at a level with oracle num/den: shape[i] < size *)
Definition small_flags (num den : Z) (specs : list aspec) (shape : list Z) : list bool :=
  map (fun p => is_auto (fst p) && (snd p * den <? num)) (combine specs shape).

(* chunks[i] = (shape[i],) for the small axes *)
Definition fix_small (specs : list aspec) (shape : list Z) (small : list bool) : list aspec :=
  map (fun p => let '(sp, n, sm) := p in if (sm : bool) then ATuple [n] else sp)
      (combine (combine specs shape) small).

(* chunks[i] = round_to(size, shape[i]) for the remaining autos *)
Definition resolve (c : Z) (sp : aspec) : aspec := if is_auto sp then AInt c else sp.

Lemma auto_chunks_done fuel sizes specs shape :
  count_autos specs =? 0 = true -> auto_chunks fuel sizes specs shape = Ok specs.
Proof. intros H. destruct fuel; cbn [auto_chunks]; rewrite H; reflexivity. Qed.

Lemma auto_chunks_step f num den sizes specs shape :
  count_autos specs =? 0 = false ->
  auto_chunks (S f) ((num, den) :: sizes) specs shape =
  if existsb (fun b => b) (small_flags num den specs shape)
  then auto_chunks f sizes (fix_small specs shape (small_flags num den specs shape)) shape
  else Ok (map (resolve (round_to_le num den)) specs).
Proof. intros H. cbn [auto_chunks]. rewrite H. reflexivity. Qed.

Lemma auto_chunks_nofuel sizes specs shape specs' :
  count_autos specs =? 0 = false -> auto_chunks 0 sizes specs shape = Ok specs' -> False.
Proof. intros H. cbn [auto_chunks]. rewrite H. discriminate. Qed.

Lemma auto_chunks_nosizes fuel specs shape specs' :
  count_autos specs =? 0 = false -> auto_chunks fuel [] specs shape = Ok specs' -> False.
Proof. intros H. destruct fuel; cbn [auto_chunks]; rewrite H; discriminate. Qed.

Lemma count_autos_zero_In specs sp :
  count_autos specs =? 0 = true -> In sp specs -> is_auto sp = false.
Proof.
  unfold count_autos. intros H Hin.
  destruct (is_auto sp) eqn:E; [|reflexivity].
  assert (In sp (filter is_auto specs)) as Hf by (apply filter_In; auto).
  destruct (filter is_auto specs); [destruct Hf|]. cbn [length] in H. lia.
Qed.

(* fix_small as a single map over (spec, length) pairs *)
Definition small_spec (num den : Z) (p : aspec * Z) : aspec :=
  if is_auto (fst p) && (snd p * den <? num) then ATuple [snd p] else fst p.

Lemma fix_small_map num den specs shape :
  fix_small specs shape (small_flags num den specs shape) =
  map (small_spec num den) (combine specs shape).
Proof.
  unfold fix_small, small_flags. rewrite combine_map_r, map_map.
  apply map_ext. intros [sp n]. reflexivity.
Qed.

Lemma fix_small_length num den specs shape :
  length specs = length shape ->
  length (fix_small specs shape (small_flags num den specs shape)) = length shape.
Proof. intros H. rewrite fix_small_map, map_length, combine_length. lia. Qed.

Lemma fix_small_nth num den specs shape i sp n :
  nth_error specs i = Some sp -> nth_error shape i = Some n ->
  nth_error (fix_small specs shape (small_flags num den specs shape)) i =
  Some (if is_auto sp && (n * den <? num) then ATuple [n] else sp).
Proof.
  intros Hs Hn. rewrite fix_small_map, nth_error_map, nth_error_combine, Hs, Hn. reflexivity.
Qed.

(* How auto_chunks transforms the spec of an axis of length n:
   non-auto specs are untouched; an auto spec becomes either the single full
   chunk (n,) or a uniform size c >= 1. *)
Definition auto_rel (n : Z) (sp sp' : aspec) : Prop :=
  if is_auto sp then sp' = ATuple [n] \/ exists c, 1 <= c /\ sp' = AInt c else sp' = sp.

Lemma auto_chunks_nth fuel : forall sizes specs shape specs',
  length specs = length shape ->
  auto_chunks fuel sizes specs shape = Ok specs' ->
  length specs' = length shape /\
  forall i sp n, nth_error specs i = Some sp -> nth_error shape i = Some n ->
    exists sp', nth_error specs' i = Some sp' /\ auto_rel n sp sp'.
Proof.
  induction fuel as [|f IH]; intros sizes specs shape specs' Hlen H;
    destruct (count_autos specs =? 0) eqn:Ec.
  1,3: rewrite auto_chunks_done in H by exact Ec; injection H as <-;
       (split; [exact Hlen|]); intros i sp n Hs Hn; exists sp; (split; [exact Hs|]);
       unfold auto_rel; rewrite (count_autos_zero_In specs sp Ec (nth_error_In _ _ Hs)); reflexivity.
  - exfalso. eapply auto_chunks_nofuel; eassumption.
  - destruct sizes as [|[num den] sizes]; [exfalso; eapply auto_chunks_nosizes; eassumption|].
    rewrite auto_chunks_step in H by exact Ec.
    destruct (existsb (fun b => b) (small_flags num den specs shape)) eqn:Es.
    + apply IH in H; [|apply fix_small_length; exact Hlen].
      destruct H as [L Hn']. split; [exact L|].
      intros i sp n Hs Hn.
      destruct (Hn' i _ n (fix_small_nth num den specs shape i sp n Hs Hn) Hn) as (sp' & Hsp' & Hrel).
      exists sp'. split; [exact Hsp'|].
      unfold auto_rel in *. destruct (is_auto sp) eqn:Ea; cbn [andb] in Hrel.
      * destruct (n * den <? num); cbn [is_auto] in Hrel; [left; exact Hrel|].
        rewrite Ea in Hrel. exact Hrel.
      * rewrite Ea in Hrel. exact Hrel.
    + injection H as <-. split; [rewrite map_length; exact Hlen|].
      intros i sp n Hs Hn. exists (resolve (round_to_le num den) sp).
      split; [apply map_nth_error; exact Hs|].
      unfold auto_rel, resolve. destruct (is_auto sp); [|reflexivity].
      right. exists (round_to_le num den). split; [unfold round_to_le; lia|reflexivity].
Qed.

(* one axis of normalize_chunks: the final spec and its conversion *)
Lemma normalize_axis sizes specs shape cs i sp n :
  normalize_chunks sizes specs shape = Ok cs ->
  nth_error specs i = Some sp -> nth_error shape i = Some n ->
  exists sp' l, auto_rel n (subst_full sp n) sp' /\ convert_axis sp' n = Ok l /\
    nth_error cs i = Some l /\ is_nil l = false /\ existsb (fun x => x <? 0) l = false.
Proof.
  intros H Hs Hn.
  apply normalize_chunks_inv in H as (Hlen & specs' & Ha & Hc & Hnil & Hneg & _).
  apply auto_chunks_nth in Ha as [_ Ha]; [|apply subst_all_length; exact Hlen].
  destruct (Ha i _ n (subst_all_nth specs shape i sp n Hs Hn) Hn) as (sp' & Hsp' & Hrel).
  destruct (convert_all_nth specs' shape cs Hc) as (_ & _ & Hcn).
  destruct (Hcn i sp' n Hsp' Hn) as (l & Hl & Hcl).
  exists sp', l. repeat split; try assumption.
  - exact (existsb_false_In _ _ _ Hnil (nth_error_In _ _ Hl)).
  - exact (existsb_false_In _ _ _ Hneg (nth_error_In _ _ Hl)).
Qed.

(* ---------------------------------------------------------------------- *)
(* T2: uniform and full-axis specs *)

Theorem normalize_uniform : forall sizes specs shape cs i c n,
  nth_error specs i = Some (AInt c) -> 0 < c ->
  nth_error shape i = Some n -> 0 < n ->
  normalize_chunks sizes specs shape = Ok cs ->
  nth_error cs i = Some (repeat c (Z.to_nat (n / c)) ++ (if n mod c =? 0 then [] else [n mod c])).
Proof.
  intros sizes specs shape cs i c n Hs Hc Hn Hn0 H.
  destruct (normalize_axis _ _ _ _ i _ n H Hs Hn) as (sp' & l & Hrel & Hcv & Hl & _ & _).
  cbn [subst_full] in Hrel. destruct (c =? -1) eqn:Ec1; [lia|].
  unfold auto_rel in Hrel. cbn [is_auto] in Hrel. subst sp'.
  cbn [convert_axis] in Hcv. unfold blockdims_axis in Hcv.
  destruct (n =? 0) eqn:En; [lia|]. destruct (c =? 0) eqn:Ec; [lia|].
  injection Hcv as <-. exact Hl.
Qed.

(* None / -1: the whole axis in one chunk ([0] for an empty axis) *)
Theorem normalize_full : forall sizes specs shape cs i sp n,
  nth_error specs i = Some sp -> sp = AFull \/ sp = AInt (-1) ->
  nth_error shape i = Some n ->
  normalize_chunks sizes specs shape = Ok cs ->
  nth_error cs i = Some [n].
Proof.
  intros sizes specs shape cs i sp n Hs Hsp Hn H.
  destruct (normalize_axis _ _ _ _ i _ n H Hs Hn) as (sp' & l & Hrel & Hcv & Hl & _ & _).
  assert (subst_full sp n = AInt n) as E by (destruct Hsp as [-> | ->]; reflexivity).
  rewrite E in Hrel. unfold auto_rel in Hrel. cbn [is_auto] in Hrel. subst sp'.
  cbn [convert_axis] in Hcv. unfold blockdims_axis in Hcv.
  destruct (n =? 0) eqn:En.
  - injection Hcv as <-. rewrite Hl. f_equal. f_equal. lia.
  - destruct (n =? 0) eqn:En'; [discriminate|].
    assert (n / n = 1) as Hq by (apply Z.div_same; lia).
    assert (n mod n = 0) as Hr by (apply Z.mod_same; lia).
    rewrite Hq, Hr in Hcv. cbn in Hcv. injection Hcv as <-. exact Hl.
Qed.

Corollary normalize_full_cases : forall sizes specs shape cs i sp n,
  nth_error specs i = Some sp -> sp = AFull \/ sp = AInt (-1) ->
  nth_error shape i = Some n ->
  normalize_chunks sizes specs shape = Ok cs ->
  (0 < n -> nth_error cs i = Some [n]) /\ (n = 0 -> nth_error cs i = Some [0]).
Proof.
  intros sizes specs shape cs i sp n Hs Hsp Hn H.
  pose proof (normalize_full _ _ _ _ _ _ _ Hs Hsp Hn H) as Hr.
  split; [intros _; exact Hr | intros ->; exact Hr].
Qed.

(* ---------------------------------------------------------------------- *)
(* T3: zero-size chunks *)

Lemma nonneg_nozero_pos l :
  existsb (fun x => x <? 0) l = false -> ~ In 0 l -> Forall (fun c => 0 < c) l.
Proof.
  intros Hneg Hz. apply Forall_forall. intros x Hx.
  pose proof (existsb_false_In _ _ _ Hneg Hx) as Hx0. cbn beta in Hx0.
  assert (x <> 0) by (intros ->; auto). lia.
Qed.

Theorem normalize_zero_only_on_empty_axes : forall sizes specs shape cs,
  (forall l, In (ATuple l) specs -> ~ In 0 l) ->
  normalize_chunks sizes specs shape = Ok cs ->
  forall i n l, nth_error shape i = Some n -> 0 < n -> nth_error cs i = Some l ->
    Forall (fun c => 0 < c) l.
Proof.
  intros sizes specs shape cs Hz H i n l Hn Hn0 Hl.
  pose proof (normalize_chunks_inv _ _ _ _ H) as (Hlen & _).
  destruct (nth_error_same_length specs shape i n Hlen Hn) as (sp & Hs).
  destruct (normalize_axis _ _ _ _ i _ n H Hs Hn) as (sp' & l' & Hrel & Hcv & Hl' & Hnil & Hneg).
  rewrite Hl in Hl'. injection Hl' as <-.
  assert (forall c, sp' = AInt c -> Forall (fun c => 0 < c) l) as Hint.
  { intros c ->. cbn [convert_axis] in Hcv. eapply blockdims_axis_pos; eassumption. }
  unfold auto_rel in Hrel.
  destruct sp as [c|l0| |]; cbn [subst_full] in Hrel.
  - destruct (c =? -1); cbn [is_auto] in Hrel; eapply Hint; exact Hrel.
  - cbn [is_auto] in Hrel. subst sp'. cbn [convert_axis] in Hcv. injection Hcv as <-.
    apply nonneg_nozero_pos; [exact Hneg|]. apply Hz. exact (nth_error_In _ _ Hs).
  - cbn [is_auto] in Hrel. eapply Hint; exact Hrel.
  - cbn [is_auto] in Hrel. destruct Hrel as [-> | (c & _ & ->)]; [|eapply Hint; reflexivity].
    cbn [convert_axis] in Hcv. injection Hcv as <-. constructor; [lia|constructor].
Qed.

(* Known finding (F4): an explicit zero-size chunk on a non-empty axis is
   accepted. *)
Theorem normalize_explicit_zero_refuted :
  exists sizes specs shape cs,
    normalize_chunks sizes specs shape = Ok cs /\
    exists i n l, nth_error shape i = Some n /\ 0 < n /\ nth_error cs i = Some l /\ In 0 l.
Proof.
  exists [], [ATuple [5; 5; 0]], [10], [[5; 5; 0]].
  split; [vm_compute; reflexivity|].
  exists 0%nat, 10, [5; 5; 0]. repeat split; cbn; auto.
Qed.

(* ---------------------------------------------------------------------- *)
(* T4: the byte limit for auto axes *)

Lemma count_autos_nil : count_autos [] = 0.
Proof. reflexivity. Qed.

Lemma count_autos_cons sp l :
  count_autos (sp :: l) = if is_auto sp then count_autos l + 1 else count_autos l.
Proof. unfold count_autos. cbn [filter]. destruct (is_auto sp); cbn [length]; lia. Qed.

Lemma count_autos_nonneg l : 0 <= count_autos l.
Proof. unfold count_autos. lia. Qed.

Lemma largest_fixed_nil : largest_fixed [] = 1.
Proof. reflexivity. Qed.

Lemma largest_fixed_cons sp l :
  largest_fixed (sp :: l) = if is_auto sp then largest_fixed l else fixed_extent sp * largest_fixed l.
Proof. unfold largest_fixed. cbn [filter]. destruct (is_auto sp); cbn [negb map fold_right]; reflexivity. Qed.

Lemma max_block_cons c r : max_block (c :: r) = fold_right Z.max 0 c * max_block r.
Proof. reflexivity. Qed.

(* The last recursion level of auto_chunks at which an oracle value is
   consumed: returns that oracle value and the specs AT that level (the axes
   fixed to (shape[i],) at earlier levels are ATuple [n] in it, so
   [largest_fixed] of it is Python's largest_block at that level, and
   [count_autos] of it is len(autos)).  The level is last when either no axis
   is small (the remaining autos get round_to(size, ..)) or fixing the small
   axes leaves no auto axis. *)
Fixpoint auto_last (fuel : nat) (sizes : list (Z * Z)) (specs : list aspec) (shape : list Z)
  : option (Z * Z * list aspec) :=
  if count_autos specs =? 0 then None else
  match fuel, sizes with
  | S f, (num, den) :: sizes' =>
      let specs1 := fix_small specs shape (small_flags num den specs shape) in
      if existsb (fun b => b) (small_flags num den specs shape) && negb (count_autos specs1 =? 0)
      then auto_last f sizes' specs1 shape
      else Some (num, den, specs)
  | _, _ => None
  end.

(* what the last level does to the pair (spec, axis length) *)
Definition final_spec (num den : Z) (p : aspec * Z) : aspec :=
  if is_auto (fst p)
  then (if snd p * den <? num then ATuple [snd p] else AInt (round_to_le num den))
  else fst p.

Lemma auto_chunks_last fuel : forall sizes specs shape specs' num den specsL,
  length specs = length shape ->
  auto_chunks fuel sizes specs shape = Ok specs' ->
  auto_last fuel sizes specs shape = Some (num, den, specsL) ->
  length specsL = length shape /\ count_autos specsL =? 0 = false /\
  specs' = map (final_spec num den) (combine specsL shape).
Proof.
  induction fuel as [|f IH]; intros sizes specs shape specs' num den specsL Hlen H HL;
    cbn [auto_last] in HL; destruct (count_autos specs =? 0) eqn:Ec; try discriminate.
  destruct sizes as [|[num0 den0] sizes]; [discriminate|].
  rewrite auto_chunks_step in H by exact Ec. cbv zeta in HL.
  destruct (existsb (fun b => b) (small_flags num0 den0 specs shape)) eqn:Es; cbn [andb] in HL.
  - destruct (count_autos (fix_small specs shape (small_flags num0 den0 specs shape)) =? 0) eqn:Ec1;
      cbn [negb] in HL.
    + injection HL as <- <- <-. rewrite auto_chunks_done in H by exact Ec1. injection H as <-.
      split; [exact Hlen|]. split; [exact Ec|].
      rewrite fix_small_map in *. apply map_ext_in. intros [sp n] Hin.
      unfold small_spec, final_spec; cbn [fst snd].
      destruct (is_auto sp) eqn:Ea; cbn [andb]; [|reflexivity].
      destruct (n * den0 <? num0) eqn:Esm; [reflexivity|exfalso].
      assert (is_auto (small_spec num0 den0 (sp, n)) = false) as Hc.
      { eapply count_autos_zero_In; [exact Ec1|]. apply in_map. exact Hin. }
      unfold small_spec in Hc; cbn [fst snd] in Hc. rewrite Ea, Esm in Hc. cbn [andb] in Hc. congruence.
    + eapply IH; [|exact H|exact HL]. apply fix_small_length. exact Hlen.
  - injection HL as <- <- <-. injection H as <-.
    split; [exact Hlen|]. split; [exact Ec|].
    transitivity (map (resolve (round_to_le num0 den0)) (map fst (combine specs shape)));
      [rewrite map_fst_combine by exact Hlen; reflexivity|].
    rewrite map_map. apply map_ext_in. intros [sp n] Hin.
    unfold resolve, final_spec; cbn [fst snd].
    destruct (is_auto sp) eqn:Ea; [|reflexivity].
    destruct (n * den0 <? num0) eqn:Esm; [exfalso|reflexivity].
    assert (In (is_auto (fst (sp, n)) && (snd (sp, n) * den0 <? num0)) (small_flags num0 den0 specs shape)) as Hf.
    { unfold small_flags. apply (in_map (fun p => is_auto (fst p) && (snd p * den0 <? num0))). exact Hin. }
    pose proof (existsb_false_In _ _ _ Es Hf) as Hb. cbn [fst snd] in Hb.
    rewrite Ea, Esm in Hb. discriminate.
Qed.

Lemma auto_last_exists fuel : forall sizes specs shape specs',
  auto_chunks fuel sizes specs shape = Ok specs' ->
  count_autos specs =? 0 = false ->
  exists num den specsL, auto_last fuel sizes specs shape = Some (num, den, specsL).
Proof.
  induction fuel as [|f IH]; intros sizes specs shape specs' H Ec.
  - exfalso. eapply auto_chunks_nofuel; eassumption.
  - destruct sizes as [|[num den] sizes]; [exfalso; eapply auto_chunks_nosizes; eassumption|].
    rewrite auto_chunks_step in H by exact Ec.
    cbn [auto_last]. rewrite Ec. cbv zeta.
    destruct (existsb (fun b => b) (small_flags num den specs shape)) eqn:Es; cbn [andb]; [|eauto].
    destruct (count_autos (fix_small specs shape (small_flags num den specs shape)) =? 0) eqn:Ec1;
      cbn [negb]; [eauto|].
    eapply IH; eassumption.
Qed.

(* the specs at the last level versus the specs the recursion started from *)
Lemma auto_last_nth fuel : forall sizes specs shape num den specsL,
  length specs = length shape ->
  auto_last fuel sizes specs shape = Some (num, den, specsL) ->
  forall i sp n, nth_error specs i = Some sp -> nth_error shape i = Some n ->
    exists spL, nth_error specsL i = Some spL /\
      (if is_auto sp then spL = sp \/ spL = ATuple [n] else spL = sp).
Proof.
  induction fuel as [|f IH]; intros sizes specs shape num den specsL Hlen HL;
    cbn [auto_last] in HL; destruct (count_autos specs =? 0) eqn:Ec; try discriminate.
  destruct sizes as [|[num0 den0] sizes]; [discriminate|]. cbv zeta in HL.
  destruct (existsb (fun b => b) (small_flags num0 den0 specs shape) &&
            negb (count_autos (fix_small specs shape (small_flags num0 den0 specs shape)) =? 0)).
  - intros i sp n Hs Hn.
    destruct (IH _ _ _ _ _ _ (fix_small_length num0 den0 specs shape Hlen) HL i _ n
                (fix_small_nth num0 den0 specs shape i sp n Hs Hn) Hn) as (spL & HspL & Hrel).
    exists spL. split; [exact HspL|].
    destruct (is_auto sp) eqn:Ea; cbn [andb] in Hrel.
    + destruct (n * den0 <? num0); cbn [is_auto] in Hrel; [right; exact Hrel|].
      rewrite Ea in Hrel. exact Hrel.
    + rewrite Ea in Hrel. exact Hrel.
  - injection HL as <- <- <-. intros i sp n Hs Hn. exists sp. split; [exact Hs|].
    destruct (is_auto sp); auto.
Qed.

(* per-axis: the largest chunk is 0 or bounded by the factor the axis
   contributes to largest_block *)
Lemma convert_axis_max sp n l :
  convert_axis sp n = Ok l -> is_nil l = false -> existsb (fun x => x <? 0) l = false ->
  fold_right Z.max 0 l = 0 \/ (is_auto sp = false /\ fold_right Z.max 0 l <= fixed_extent sp).
Proof.
  intros H Hnil Hneg. destruct sp as [c|cs| |]; cbn [convert_axis] in H; try discriminate.
  - destruct (blockdims_axis_max n c l H Hnil Hneg) as [Hm|Hm]; [left; exact Hm|right].
    split; [reflexivity|exact Hm].
  - injection H as ->. right. split; [reflexivity|]. cbn [fixed_extent].
    destruct l as [|x l]; [discriminate|]. cbn [hd].
    apply fold_max_base_mono. cbn [existsb] in Hneg. apply orb_false_iff in Hneg as [Hx _]. lia.
Qed.

Lemma convert_all_max specs : forall shape cs,
  convert_all specs shape = Ok cs ->
  existsb is_nil cs = false ->
  existsb (fun c => existsb (fun x => x <? 0) c) cs = false ->
  max_block cs = 0 \/
  (0 < max_block cs <= largest_fixed specs /\
   Forall (fun sp => is_auto sp = false /\ 0 < fixed_extent sp) specs).
Proof.
  induction specs as [|sp specs IH]; intros [|n shape] cs H Hnil Hneg; try (cbn in H; discriminate).
  - cbn in H. injection H as <-. right. rewrite largest_fixed_nil.
    change (max_block []) with 1. split; [lia|constructor].
  - apply convert_all_cons in H as (c & r & -> & Hc & Hr).
    cbn [existsb] in Hnil, Hneg. apply orb_false_iff in Hnil as [Hnil1 Hnil2].
    apply orb_false_iff in Hneg as [Hneg1 Hneg2].
    rewrite max_block_cons.
    pose proof (fold_max_nonneg c) as Hm0.
    destruct (convert_axis_max sp n c Hc Hnil1 Hneg1) as [Hm|[Ha Hm]]; [left; rewrite Hm; lia|].
    destruct (IH shape r Hr Hnil2 Hneg2) as [HM|[HM HF]]; [left; rewrite HM; lia|].
    destruct (Z.eq_dec (fold_right Z.max 0 c) 0) as [Hz|Hz]; [left; rewrite Hz; lia|right].
    rewrite largest_fixed_cons, Ha. split; [nia|].
    constructor; [split; [exact Ha|lia]|exact HF].
Qed.

(* one level: if every auto axis gets a positive extent e with e * A <= B
   then largest_block grows by at most (B/A)^k *)
Definition level_rel (A B : Z) (sp sp' : aspec) : Prop :=
  if is_auto sp
  then is_auto sp' = false /\ 0 < fixed_extent sp' /\ fixed_extent sp' * A <= B
  else sp' = sp /\ 0 < fixed_extent sp.

Lemma level_bound A B ps finals :
  0 < A ->
  Forall2 (level_rel A B) ps finals ->
  0 < largest_fixed finals /\
  largest_fixed finals * A ^ count_autos ps <= largest_fixed ps * B ^ count_autos ps.
Proof.
  intros HA H. induction H as [|sp sp' ps finals Hh _ IH].
  - rewrite largest_fixed_nil, count_autos_nil, !Z.pow_0_r. lia.
  - destruct IH as [IH1 IH2].
    pose proof (count_autos_nonneg ps) as Hk.
    assert (0 < A ^ count_autos ps) as HX by (apply Z.pow_pos_nonneg; lia).
    rewrite count_autos_cons, !largest_fixed_cons. unfold level_rel in Hh.
    destruct (is_auto sp) eqn:Ea.
    + destruct Hh as (Hna & He & HeA). rewrite Hna.
      rewrite !Z.pow_add_r, !Z.pow_1_r by lia.
      set (X := A ^ count_autos ps) in *. set (Y := B ^ count_autos ps) in *.
      set (e := fixed_extent sp') in *. set (F' := largest_fixed finals) in *.
      set (F := largest_fixed ps) in *.
      split; [nia|].
      assert (e * A * (F' * X) <= B * (F * Y)) by (apply Z.mul_le_mono_nonneg; nia).
      nia.
    + destruct Hh as (-> & He). rewrite Ea. split; [nia|].
      set (X := A ^ count_autos ps) in *. set (Y := B ^ count_autos ps) in *.
      nia.
Qed.

(* Core of T4. *)
Lemma normalize_auto_limit_core limit itemsize sizes specs shape cs num den specsL :
  0 < itemsize ->
  normalize_chunks sizes specs shape = Ok cs ->
  auto_last (S (length (subst_all specs shape))) sizes (subst_all specs shape) shape
    = Some (num, den, specsL) ->
  0 < den ->
  num ^ count_autos specsL * itemsize * largest_fixed specsL <= limit * den ^ count_autos specsL ->
  max_block cs = 0 \/
  (1 <= num / den /\ 0 < max_block cs /\ itemsize * max_block cs <= limit) \/
  (num / den < 1 /\ existsb (fun b => b) (small_flags num den specsL shape) = false /\
   0 < max_block cs <= largest_fixed specsL).
Proof.
  intros Hs H HL Hden Hor.
  apply normalize_chunks_inv in H as (Hlen & specs' & Ha & Hc & Hnil & Hneg & _).
  destruct (auto_chunks_last _ _ _ _ _ _ _ _ (subst_all_length specs shape Hlen) Ha HL)
    as (LenL & EcL & Hspecs').
  destruct (convert_all_max specs' shape cs Hc Hnil Hneg) as [HM|[HM HF]]; [left; exact HM|right].
  rewrite Hspecs' in HF. apply Forall_map in HF.
  pose proof (count_autos_nonneg specsL) as Hk.
  destruct (Z_le_gt_dec 1 (num / den)) as [Hq|Hq].
  - left. split; [exact Hq|]. split; [lia|].
    assert (0 < largest_fixed specs' /\
            largest_fixed specs' * den ^ count_autos specsL <=
            largest_fixed specsL * num ^ count_autos specsL) as [HF1 HF2].
    { assert (Forall2 (level_rel den num) (map fst (combine specsL shape))
                      (map (final_spec num den) (combine specsL shape))) as HR;
        [|apply (level_bound den num _ _ Hden) in HR;
          rewrite (map_fst_combine specsL shape LenL), <- Hspecs' in HR; exact HR].
      apply Forall2_maps.
      eapply Forall_impl; [|exact HF]. intros [sp n] [Hna He]. cbn [fst].
      unfold level_rel, final_spec in *; cbn [fst snd] in *.
      destruct (is_auto sp) eqn:Ea; [|split; [reflexivity|assumption]].
      split; [exact Hna|]. split; [exact He|].
      destruct (n * den <? num) eqn:Esm.
      - cbn [fixed_extent hd fold_right]. rewrite Z.max_id. lia.
      - cbn [fixed_extent]. unfold round_to_le. rewrite Z.max_r by lia. lia. }
    set (X := den ^ count_autos specsL) in *. set (Y := num ^ count_autos specsL) in *.
    assert (0 < X) as HX by (apply Z.pow_pos_nonneg; lia).
    assert (itemsize * largest_fixed specs' * X <= limit * X) as HB by nia.
    apply Z.mul_le_mono_pos_r in HB; [|exact HX]. nia.
  - right. assert (num / den < 1) as Hq' by lia. split; [exact Hq'|].
    assert (num < den) as Hnd by lia.
    assert (Forall (fun p : aspec * Z => is_auto (fst p) && (snd p * den <? num) = false)
                   (combine specsL shape)) as Hns.
    { eapply Forall_impl; [|exact HF]. intros [sp n] [Hna He].
      unfold final_spec in *; cbn [fst snd] in *.
      destruct (is_auto sp) eqn:Ea; [|reflexivity]. cbn [andb].
      destruct (n * den <? num) eqn:Esm; [|reflexivity]. exfalso.
      cbn [fixed_extent hd fold_right] in He. rewrite Z.max_id in He. nia. }
    split.
    { unfold small_flags. apply existsb_id_map_false. exact Hns. }
    assert (0 < largest_fixed specs' /\
            largest_fixed specs' * 1 ^ count_autos specsL <=
            largest_fixed specsL * 1 ^ count_autos specsL) as [HF1 HF2].
    { assert (Forall2 (level_rel 1 1) (map fst (combine specsL shape))
                      (map (final_spec num den) (combine specsL shape))) as HR;
        [|apply (level_bound 1 1 _ _ Z.lt_0_1) in HR;
          rewrite (map_fst_combine specsL shape LenL), <- Hspecs' in HR; exact HR].
      apply Forall2_maps.
      rewrite Forall_forall in *. intros [sp n] Hin.
      destruct (HF _ Hin) as [Hna He]. pose proof (Hns _ Hin) as Hsm. cbn [fst snd] in *.
      unfold level_rel, final_spec in *; cbn [fst snd] in *.
      destruct (is_auto sp) eqn:Ea; [|split; [reflexivity|assumption]]. cbn [andb] in Hsm. rewrite Hsm in *.
      split; [exact Hna|]. split; [exact He|].
      cbn [fixed_extent]. unfold round_to_le. lia. }
    rewrite !Z.pow_1_l in HF2 by exact Hk. lia.
Qed.

(* T4, disjunctive form.  [num/den] is the LAST oracle value consumed (the
   float `size` of the last recursion level), [specsL] the specs at that level:
   k = count_autos specsL auto axes remain and largest_block = largest_fixed
   specsL.  Hypothesis: size^k <= limit / itemsize / largest_block.  Then every
   block has at most [limit] bytes, unless int(size) < 1: then no axis was
   small at that level and all remaining auto axes get chunk size 1
   (normalize_auto_unit_chunks), i.e. the fixed axes decide the block size. *)
Theorem normalize_auto_limit : forall limit itemsize sizes specs shape cs num den specsL,
  0 < itemsize -> 0 <= limit ->
  normalize_chunks sizes specs shape = Ok cs ->
  auto_last (S (length (subst_all specs shape))) sizes (subst_all specs shape) shape
    = Some (num, den, specsL) ->
  0 < den ->
  num ^ count_autos specsL * itemsize * largest_fixed specsL <= limit * den ^ count_autos specsL ->
  itemsize * max_block cs <= limit \/
  (num / den < 1 /\ existsb (fun b => b) (small_flags num den specsL shape) = false).
Proof.
  intros limit itemsize sizes specs shape cs num den specsL Hs Hlim H HL Hden Hor.
  destruct (normalize_auto_limit_core _ _ _ _ _ _ _ _ _ Hs H HL Hden Hor)
    as [HM | [(_ & _ & HB) | (Hq & Hns & _)]].
  - left. rewrite HM. lia.
  - left. exact HB.
  - right. auto.
Qed.

(* T4, single inequality: block bytes never exceed the larger of the limit
   and the bytes of the non-auto part at the last level. *)
Theorem normalize_auto_limit_max : forall limit itemsize sizes specs shape cs num den specsL,
  0 < itemsize -> 0 <= limit ->
  normalize_chunks sizes specs shape = Ok cs ->
  auto_last (S (length (subst_all specs shape))) sizes (subst_all specs shape) shape
    = Some (num, den, specsL) ->
  0 < den ->
  num ^ count_autos specsL * itemsize * largest_fixed specsL <= limit * den ^ count_autos specsL ->
  itemsize * max_block cs <= Z.max limit (itemsize * largest_fixed specsL).
Proof.
  intros limit itemsize sizes specs shape cs num den specsL Hs Hlim H HL Hden Hor.
  destruct (normalize_auto_limit_core _ _ _ _ _ _ _ _ _ Hs H HL Hden Hor)
    as [HM | [(_ & _ & HB) | (Hq & Hns & HB)]].
  - rewrite HM. lia.
  - lia.
  - nia.
Qed.

(* when int(size) < 1 at the last level, every remaining auto axis is cut
   into chunks of size 1 *)
Theorem normalize_auto_unit_chunks : forall sizes specs shape cs num den specsL,
  normalize_chunks sizes specs shape = Ok cs ->
  auto_last (S (length (subst_all specs shape))) sizes (subst_all specs shape) shape
    = Some (num, den, specsL) ->
  num / den < 1 ->
  existsb (fun b => b) (small_flags num den specsL shape) = false ->
  forall i n, nth_error specsL i = Some AAuto -> nth_error shape i = Some n ->
    nth_error cs i = Some (if n =? 0 then [0] else repeat 1 (Z.to_nat n)).
Proof.
  intros sizes specs shape cs num den specsL H HL Hq Hns i n Hsp Hn.
  apply normalize_chunks_inv in H as (Hlen & specs' & Ha & Hc & _).
  destruct (auto_chunks_last _ _ _ _ _ _ _ _ (subst_all_length specs shape Hlen) Ha HL)
    as (LenL & EcL & Hspecs').
  assert (n * den <? num = false) as Hsm.
  { assert (nth_error (small_flags num den specsL shape) i = Some (true && (n * den <? num))) as Hf.
    { unfold small_flags. rewrite nth_error_map, nth_error_combine, Hsp, Hn. reflexivity. }
    apply nth_error_In in Hf. exact (existsb_false_In _ _ _ Hns Hf). }
  assert (nth_error specs' i = Some (AInt 1)) as Hs'.
  { rewrite Hspecs', nth_error_map, nth_error_combine, Hsp, Hn. cbn [option_map].
    unfold final_spec; cbn [fst snd is_auto]. rewrite Hsm. unfold round_to_le.
    rewrite Z.max_l by lia. reflexivity. }
  destruct (convert_all_nth specs' shape cs Hc) as (_ & _ & Hcn).
  destruct (Hcn i _ n Hs' Hn) as (l & Hl & Hcl).
  rewrite Hl. f_equal. cbn [convert_axis] in Hcl. unfold blockdims_axis in Hcl.
  destruct (n =? 0) eqn:En; [congruence|].
  rewrite Z.div_1_r, Z.mod_1_r in Hcl. cbn in Hcl. rewrite app_nil_r in Hcl. congruence.
Qed.

(* the hypothesis "every oracle value satisfies the k-th-root inequality at
   its recursion level" *)
Fixpoint oracles_sound (limit itemsize : Z) (fuel : nat) (sizes : list (Z * Z))
         (specs : list aspec) (shape : list Z) : Prop :=
  if count_autos specs =? 0 then True else
  match fuel, sizes with
  | S f, (num, den) :: sizes' =>
      (0 < den /\
       num ^ count_autos specs * itemsize * largest_fixed specs <= limit * den ^ count_autos specs) /\
      oracles_sound limit itemsize f sizes'
        (fix_small specs shape (small_flags num den specs shape)) shape
  | _, _ => True
  end.

Lemma oracles_sound_last limit itemsize fuel : forall sizes specs shape num den specsL,
  oracles_sound limit itemsize fuel sizes specs shape ->
  auto_last fuel sizes specs shape = Some (num, den, specsL) ->
  0 < den /\
  num ^ count_autos specsL * itemsize * largest_fixed specsL <= limit * den ^ count_autos specsL.
Proof.
  induction fuel as [|f IH]; intros sizes specs shape num den specsL Ho HL;
    cbn [auto_last oracles_sound] in HL, Ho; destruct (count_autos specs =? 0) eqn:Ec; try discriminate.
  destruct sizes as [|[num0 den0] sizes]; [discriminate|]. cbv zeta in HL.
  destruct Ho as [Ho1 Ho2].
  destruct (existsb (fun b => b) (small_flags num0 den0 specs shape) &&
            negb (count_autos (fix_small specs shape (small_flags num0 den0 specs shape)) =? 0)).
  - eapply IH; eassumption.
  - injection HL as <- <- <-. exact Ho1.
Qed.

(* T4 with the hypothesis on all levels, no reference to the last level in
   the hypotheses *)
Theorem normalize_auto_limit_all_levels : forall limit itemsize sizes specs shape cs,
  0 < itemsize -> 0 <= limit ->
  normalize_chunks sizes specs shape = Ok cs ->
  count_autos (subst_all specs shape) <> 0 ->
  oracles_sound limit itemsize (S (length (subst_all specs shape))) sizes (subst_all specs shape) shape ->
  exists num den specsL,
    auto_last (S (length (subst_all specs shape))) sizes (subst_all specs shape) shape
      = Some (num, den, specsL) /\
    (itemsize * max_block cs <= limit \/
     (num / den < 1 /\ existsb (fun b => b) (small_flags num den specsL shape) = false)) /\
    itemsize * max_block cs <= Z.max limit (itemsize * largest_fixed specsL).
Proof.
  intros limit itemsize sizes specs shape cs Hs Hlim H Hk Ho.
  pose proof (normalize_chunks_inv _ _ _ _ H) as (Hlen & specs' & Ha & _).
  destruct (auto_last_exists _ _ _ _ _ Ha) as (num & den & specsL & HL); [lia|].
  destruct (oracles_sound_last _ _ _ _ _ _ _ _ _ Ho HL) as [Hden Hor].
  exists num, den, specsL. split; [exact HL|]. split.
  - eapply normalize_auto_limit; eassumption.
  - eapply normalize_auto_limit_max; eassumption.
Qed.

(* ---------------------------------------------------------------------- *)
(* The fuel of the model is adequate: with one oracle value per auto axis
   available, auto_chunks (with the fuel normalize_chunks passes) never
   returns the artefact error of the fuel/oracle stream running out. *)

Lemma count_small num den ps :
  count_autos (map (small_spec num den) ps) +
  Z.of_nat (length (filter (fun p => is_auto (fst p) && (snd p * den <? num)) ps)) =
  count_autos (map fst ps).
Proof.
  induction ps as [|[sp n] ps IH]; [reflexivity|].
  cbn [map filter fst snd]. rewrite !count_autos_cons. unfold small_spec at 1. cbn [fst snd].
  destruct (is_auto sp) eqn:Ea; cbn [andb].
  - destruct (n * den <? num); cbn [is_auto length]; rewrite ?Ea; lia.
  - rewrite Ea. lia.
Qed.

Lemma existsb_filter_nonempty {A} (g : A -> bool) l :
  existsb (fun b => b) (map g l) = true -> (0 < length (filter g l))%nat.
Proof.
  induction l as [|x l IH]; cbn [map existsb filter]; [discriminate|].
  destruct (g x); cbn [orb length]; [lia|exact IH].
Qed.

Lemma fix_small_count num den specs shape :
  length specs = length shape ->
  existsb (fun b => b) (small_flags num den specs shape) = true ->
  count_autos (fix_small specs shape (small_flags num den specs shape)) < count_autos specs.
Proof.
  intros Hlen Hex. rewrite fix_small_map.
  pose proof (count_small num den (combine specs shape)) as Hc.
  rewrite (map_fst_combine specs shape Hlen) in Hc.
  apply existsb_filter_nonempty in Hex. lia.
Qed.

Lemma auto_chunks_total fuel : forall sizes specs shape,
  length specs = length shape ->
  count_autos specs < Z.of_nat fuel ->
  count_autos specs <= Z.of_nat (length sizes) ->
  exists specs', auto_chunks fuel sizes specs shape = Ok specs'.
Proof.
  induction fuel as [|f IH]; intros sizes specs shape Hlen Hf Hs.
  - pose proof (count_autos_nonneg specs). lia.
  - destruct (count_autos specs =? 0) eqn:Ec; [rewrite auto_chunks_done by exact Ec; eauto|].
    pose proof (count_autos_nonneg specs) as Hk.
    destruct sizes as [|[num den] sizes]; [cbn [length] in Hs; lia|].
    rewrite auto_chunks_step by exact Ec.
    destruct (existsb (fun b => b) (small_flags num den specs shape)) eqn:Es; [|eauto].
    pose proof (fix_small_count num den specs shape Hlen Es) as Hlt.
    apply IH; [apply fix_small_length; exact Hlen| |]; cbn [length] in Hs; lia.
Qed.

Theorem auto_chunks_fuel_adequate : forall sizes specs shape,
  length specs = length shape ->
  count_autos specs <= Z.of_nat (length sizes) ->
  exists specs', auto_chunks (S (length specs)) sizes specs shape = Ok specs'.
Proof.
  intros sizes specs shape Hlen Hs. apply auto_chunks_total; [exact Hlen| |exact Hs].
  assert (forall l, (length (filter is_auto l) <= length l)%nat) as Hfl.
  { induction l as [|x l IHl]; cbn [filter length]; [lia|].
    destruct (is_auto x); cbn [length]; lia. }
  unfold count_autos. specialize (Hfl specs). lia.
Qed.

(* ---------------------------------------------------------------------- *)
(* Examples: the hypotheses of each theorem are satisfiable on concrete,
   non-trivial inputs (each example APPLIES the theorem). *)

Example blockdims_axis_ok_example : axis_layout_ok [4; 4; 2] 10 = true.
Proof. apply (blockdims_axis_ok 10 4); [lia|vm_compute; reflexivity|lia]. Qed.

Example blockdims_axis_err_example : blockdims_axis 10 0 = Err EZeroDiv.
Proof. apply blockdims_axis_err. repeat split; lia. Qed.

(* limit = 100 bytes, itemsize = 1: size = 100 / 1 / 4 = 25 *)
Example normalize_valid_layout_example :
  layout_ok [[4; 4; 2]; [25; 25; 25; 25]] [10; 100] = true.
Proof.
  apply (normalize_valid_layout [(25, 1)] [AInt 4; AAuto]).
  - repeat constructor; lia.
  - vm_compute. reflexivity.
Qed.

Example normalize_uniform_example :
  forall cs, normalize_chunks [(25, 1)] [AInt 4; AAuto] [10; 100] = Ok cs ->
  nth_error cs 0 = Some [4; 4; 2].
Proof.
  intros cs H.
  apply (normalize_uniform [(25, 1)] [AInt 4; AAuto] [10; 100] cs 0%nat 4 10) in H;
    [exact H|reflexivity|lia|reflexivity|lia].
Qed.

Example normalize_full_example :
  forall cs, normalize_chunks [] [AFull; AInt (-1)] [0; 7] = Ok cs ->
  nth_error cs 0 = Some [0] /\ nth_error cs 1 = Some [7].
Proof.
  intros cs H. split.
  - apply (normalize_full [] [AFull; AInt (-1)] [0; 7] cs 0%nat AFull 0); auto.
  - apply (normalize_full [] [AFull; AInt (-1)] [0; 7] cs 1%nat (AInt (-1)) 7); auto.
Qed.

Example normalize_zero_only_on_empty_axes_example :
  Forall (fun c => 0 < c) [25; 25; 25; 25].
Proof.
  apply (normalize_zero_only_on_empty_axes [(25, 1)] [ATuple [5; 5]; AAuto] [10; 100]
           [[5; 5]; [25; 25; 25; 25]]) with (i := 1%nat) (n := 100).
  - intros l [Hl|[Hl|[]]]; [|discriminate]. injection Hl as <-. cbn. intros [|[|[]]]; discriminate.
  - vm_compute. reflexivity.
  - reflexivity.
  - lia.
  - reflexivity.
Qed.

(* Two recursion levels.  limit = 1000, itemsize = 1, shape (3, 1000, 10),
   chunks ("auto", "auto", 2).  Level 1: largest_block = 2, k = 2,
   size = sqrt(500) ~ 22.36: axis 0 is small.  Level 2: largest_block = 6,
   k = 1, size = 1000/6 = 500/3: chunk size 166 on axis 1. *)
Example normalize_auto_limit_example :
  let sizes := [(2236, 100); (500, 3)] in
  let specs := [AAuto; AAuto; AInt 2] in
  let shape := [3; 1000; 10] in
  let cs := [[3]; [166; 166; 166; 166; 166; 166; 4]; [2; 2; 2; 2; 2]] in
  normalize_chunks sizes specs shape = Ok cs /\
  oracles_sound 1000 1 (S (length (subst_all specs shape))) sizes (subst_all specs shape) shape /\
  auto_last (S (length (subst_all specs shape))) sizes (subst_all specs shape) shape
    = Some (500, 3, [ATuple [3]; AAuto; AInt 2]) /\
  1 * max_block cs <= 1000.
Proof.
  intros sizes specs shape cs.
  assert (normalize_chunks sizes specs shape = Ok cs) as H by (vm_compute; reflexivity).
  assert (oracles_sound 1000 1 (S (length (subst_all specs shape))) sizes (subst_all specs shape) shape) as Ho.
  { vm_compute. repeat split; try reflexivity; intros E; discriminate E. }
  split; [exact H|]. split; [exact Ho|].
  destruct (normalize_auto_limit_all_levels 1000 1 sizes specs shape cs) as (num & den & specsL & HL & [HB|[Hq _]] & _);
    try assumption; try lia.
  - vm_compute. discriminate.
  - vm_compute in HL. injection HL as <- <- <-. split; [reflexivity|exact HB].
  - vm_compute in HL. injection HL as <- <- <-. vm_compute in Hq. discriminate.
Qed.

(* The oracle hypothesis is needed: size = 50 > 100 / 1 / 4 gives 200 > 100 bytes. *)
Example normalize_auto_limit_needs_oracle_hyp :
  normalize_chunks [(50, 1)] [AInt 4; AAuto] [10; 100] = Ok [[4; 4; 2]; [50; 50]] /\
  ~ (1 * max_block [[4; 4; 2]; [50; 50]] <= 100).
Proof. split; vm_compute; [reflexivity|]. intros H. apply H. reflexivity. Qed.

(* 0 <= limit is needed (Python enforces limit = max(1, limit)): with a negative
   fixed extent on an empty axis the oracle inequality holds for limit = -1. *)
Example normalize_auto_limit_needs_nonneg_limit :
  normalize_chunks [(100, 1)] [AInt (-3); AAuto] [0; 5] = Ok [[0]; [5]] /\
  oracles_sound (-1) 1 3 [(100, 1)] (subst_all [AInt (-3); AAuto] [0; 5]) [0; 5] /\
  ~ (1 * max_block [[0]; [5]] <= -1).
Proof.
  split; [vm_compute; reflexivity|]. split.
  - vm_compute. repeat split; try reflexivity; intros E; discriminate E.
  - vm_compute. intros H. apply H. reflexivity.
Qed.

(* int(size) < 1: the auto axis is cut into unit chunks and the fixed axis
   alone (50 bytes) exceeds limit = 25 *)
Example normalize_auto_unit_chunks_example :
  forall cs, normalize_chunks [(1, 2)] [AInt 50; AAuto] [100; 5] = Ok cs ->
  nth_error cs 1 = Some [1; 1; 1; 1; 1].
Proof.
  intros cs H.
  exact (normalize_auto_unit_chunks [(1, 2)] [AInt 50; AAuto] [100; 5] cs 1 2 [AInt 50; AAuto]
           H eq_refl eq_refl eq_refl 1%nat 5 eq_refl eq_refl).
Qed.

Print Assumptions blockdims_axis_ok.
Print Assumptions blockdims_axis_err.
Print Assumptions normalize_valid_layout.
Print Assumptions normalize_uniform.
Print Assumptions normalize_full.
Print Assumptions normalize_full_cases.
Print Assumptions normalize_zero_only_on_empty_axes.
Print Assumptions normalize_explicit_zero_refuted.
Print Assumptions normalize_auto_limit.
Print Assumptions normalize_auto_limit_max.
Print Assumptions normalize_auto_unit_chunks.
Print Assumptions normalize_auto_limit_all_levels.
Print Assumptions auto_last_nth.
Print Assumptions auto_chunks_fuel_adequate.
Print Assumptions normalize_auto_limit_example.
