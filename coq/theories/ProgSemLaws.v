(* Facts about the reference semantics (ProgSem.v), part 2: chunking independence and the algebraic
   laws the optimizer's pushdown rewrites rely on, each as a theorem about [eval] for all programs. *)
From DA Require Import PyBase PyBaseFacts Slicing NormalizeFacts FuseFacts NdArray NdArrayFacts ProgSem ProgSemFacts.
From Coq Require Import ZifyBool.
Open Scope Z_scope.
Ltac Zify.zify_post_hook ::= Z.to_euclidean_division_equations.

(* ---------------------------------------------------------------------- *)
(* (c) chunking independence: rechunk is the identity on values *)
Theorem eval_rechunk c p : eval (PRechunk c p) = eval p.
Proof. cbn [eval]. destruct (eval p); reflexivity. Qed.

Theorem pshape_rechunk c p : pshape (PRechunk c p) = pshape p.
Proof. cbn [pshape]. destruct (pshape p); reflexivity. Qed.

(* ---------------------------------------------------------------------- *)
(* lifting laws about index functions to laws about [eval] *)
Definition not_rechunk (o : unop) : bool := match o with ORechunk _ => false | _ => true end.

Lemma un_eval_inv o a b : not_rechunk o = true -> un_eval o a = Some b ->
  un_ok o (nshape a) = true /\ b = to_nd (un_arr o (of_nd a)).
Proof.
  unfold un_eval. intros Hn. destruct (un_ok o (nshape a)); [|discriminate].
  intros H. injection H as <-. split; [reflexivity|]. destruct o; try reflexivity; discriminate.
Qed.

Lemma un_eval_intro o a : not_rechunk o = true -> un_ok o (nshape a) = true ->
  un_eval o a = Some (to_nd (un_arr o (of_nd a))).
Proof. unfold un_eval. intros Hn ->. destruct o; try reflexivity; discriminate. Qed.

(* an operation is a congruence when it reads its operand in bounds only *)
Definition un_congr (o : unop) : Prop :=
  forall y y', nonneg_shape (shape y) -> un_ok o (shape y) = true -> aeq y y' -> aeq (un_arr o y) (un_arr o y').

(* un o1 (un o2 p)  ==>  un o3 p *)
Lemma lift_un_un o1 o2 o3 p r :
  not_rechunk o1 = true -> not_rechunk o2 = true -> not_rechunk o3 = true ->
  un_congr o1 ->
  (forall x, pshape p = Some (shape x) -> nonneg_shape (shape x) ->
     un_ok o2 (shape x) = true -> un_ok o1 (un_shape o2 (shape x)) = true ->
     un_ok o3 (shape x) = true /\ aeq (un_arr o1 (un_arr o2 x)) (un_arr o3 x)) ->
  eval (PUn o1 (PUn o2 p)) = Some r -> eval (PUn o3 p) = Some r.
Proof.
  intros N1 N2 N3 Hc Hlaw H. cbn [eval] in *.
  destruct (eval p) as [a|] eqn:Ea; [|discriminate].
  destruct (un_eval o2 a) as [b|] eqn:Eb; [|discriminate].
  destruct (un_eval_inv o2 a b N2 Eb) as [Hok2 ->].
  destruct (un_eval_inv o1 _ r N1 H) as [Hok1 ->].
  rewrite nshape_to_nd, un_arr_shape in Hok1. cbn [of_nd shape] in Hok1.
  pose proof (eval_wf p a Ea) as [Hs _].
  destruct (Hlaw (of_nd a) (eval_some_pshape p a Ea) Hs Hok2 Hok1) as [Hok3 Heq].
  rewrite (un_eval_intro o3 a N3 Hok3). f_equal. apply to_nd_ext.
  apply aeq_sym. eapply aeq_trans; [|exact Heq].
  apply Hc.
  - cbn [of_nd shape]. rewrite nshape_to_nd, un_arr_shape. apply un_shape_nonneg; assumption.
  - cbn [of_nd shape]. rewrite nshape_to_nd, un_arr_shape. exact Hok1.
  - apply of_to_nd.
Qed.

(* ---------------------------------------------------------------------- *)
(* transpose of transpose composes *)
Lemma congr_T axes : un_congr (OT axes).
Proof. intros y y' _ Hok H. cbn [un_arr un_ok] in *. apply atranspose_congr; assumption. Qed.

Lemma is_permb_bound axes n : is_permb axes n = true -> Forall (fun j => (j < n)%nat) axes.
Proof. intros H. apply Forall_forall. intros j Hj. apply (perm_in axes n H). exact Hj. Qed.

Theorem eval_transpose_transpose p q x r :
  eval (PT q (PT p x)) = Some r -> eval (PT (pickn O p q) x) = Some r.
Proof.
  apply lift_un_un; try reflexivity; [apply congr_T|].
  intros y _ Hs Hp Hq. cbn [un_ok un_shape un_arr] in *.
  unfold transpose_shape in Hq. rewrite pickn_length in Hq. rewrite (perm_len p _ Hp) in Hq.
  set (n := length (shape y)) in *.
  split; [apply is_permb_compose; assumption|].
  split; cbn [atranspose shape get].
  - unfold transpose_shape. apply pickn_compose. rewrite (perm_len p n Hp). apply is_permb_bound. exact Hq.
  - intros out Ho. f_equal. apply (transpose_src_compose p q n); try assumption.
    pose proof (in_bounds_length _ _ Ho) as Hl. unfold transpose_shape in Hl.
    rewrite !pickn_length in Hl. rewrite Hl. apply (perm_len q n Hq).
Qed.

(* ---------------------------------------------------------------------- *)
(* basic indexing with None and fewer entries than axes reads in bounds *)
Lemma ix_src_in_bounds ix : forall s out,
  nonneg_shape s -> ixokb ix s = true -> in_bounds out (slice_shape ix s) -> in_bounds (slice_src ix s out) s.
Proof.
  induction ix as [|i ix IH]; intros s out Hn H Ho; [exact Ho|].
  destruct i as [z|sl|]; cbn [ixokb slice_shape slice_src] in *.
  - destruct s as [|n s]; [discriminate|]. apply andb_true_iff in H. destruct H as [Hi H].
    inversion Hn; subst. cbn [hd tl in_bounds] in *.
    split; [apply posify_range; exact Hi | apply IH; assumption].
  - destruct s as [|n s]; [discriminate|]. apply andb_true_iff in H. destruct H as [Hi H].
    inversion Hn; subst. cbn [hd tl] in *.
    destruct out as [|j out]; cbn [in_bounds] in Ho; [tauto|]. destruct Ho as [Hj Ho]. cbn [hd tl in_bounds].
    split; [apply sel_nth_range; [assumption | lia | assumption] | apply IH; assumption].
  - destruct out as [|j out]; cbn [in_bounds] in Ho; [tauto|]. destruct Ho as [Hj Ho]. cbn [tl].
    apply IH; assumption.
Qed.

Lemma congr_slice ix : un_congr (OSlice ix).
Proof.
  intros y y' Hn Hok [Hs Hg]. cbn [un_arr un_ok] in *. split; cbn [aslice shape get]; [rewrite Hs; reflexivity|].
  intros out Ho. rewrite <- Hs. apply Hg. apply ix_src_in_bounds; assumption.
Qed.

(* ---------------------------------------------------------------------- *)
(* flip = slice with step -1 on that axis (full slices before it, nothing after it) *)

Lemma indices_rev n : 0 <= n -> indices rev_slice n = (n - 1, -1, -1).
Proof. intros. reflexivity. Qed.

Lemma slice_len_rev n : 0 <= n -> slice_len rev_slice n = n.
Proof.
  intros Hn. unfold slice_len. rewrite indices_rev by exact Hn.
  apply range_len_neg_unique; lia.
Qed.

Lemma nthZ_sel_rev n j : 0 <= j < n -> nthZ (sel rev_slice n) j = n - 1 - j.
Proof.
  intros Hj. unfold sel, nthZ. rewrite indices_rev by lia.
  rewrite zrange_nth.
  - rewrite Z2Nat.id by lia. lia.
  - rewrite Z2Nat.id by lia. change (range_len (n - 1) (-1) (-1)) with (slice_len rev_slice n).
    rewrite slice_len_rev; lia.
Qed.

Lemma flip_index_ok ax : forall s, ixokb (flip_index ax) s = ltn ax (length s).
Proof.
  unfold flip_index, ltn. induction ax as [|ax IH]; intros [|n s]; cbn [repeat app ixokb length]; try reflexivity.
  apply IH.
Qed.

Lemma flip_index_shape ax : forall s, nonneg_shape s -> (ax < length s)%nat -> slice_shape (flip_index ax) s = s.
Proof.
  unfold flip_index. induction ax as [|ax IH]; intros [|n s] Hn Hl; cbn [length] in Hl; try lia;
    inversion Hn; subst; cbn [repeat app slice_shape hd tl].
  - rewrite slice_len_rev by assumption. reflexivity.
  - rewrite slice_len_colon by assumption. f_equal. apply IH; [assumption | lia].
Qed.

Lemma flip_index_src ax : forall s out, in_bounds out s -> (ax < length s)%nat ->
  slice_src (flip_index ax) s out = upd ax (fun i => nth ax s 0 - 1 - i) out.
Proof.
  unfold flip_index, upd. induction ax as [|ax IH]; intros [|n s] [|j out] Ho Hl; cbn [length in_bounds] in *; try lia; try tauto;
    destruct Ho as [Hj Ho]; cbn [repeat app slice_src hd tl nth set_nth].
  - rewrite nthZ_sel_rev by assumption. reflexivity.
  - rewrite nthZ_sel_colon by assumption. f_equal. apply IH; [assumption | lia].
Qed.

Theorem eval_flip_is_slice ax p : eval (PFlip ax p) = eval (PSlice (flip_index ax) p).
Proof.
  cbn [eval]. destruct (eval p) as [a|] eqn:Ea; [|reflexivity].
  pose proof (eval_wf p a Ea) as [Hs _].
  unfold un_eval. cbn [un_ok]. rewrite flip_index_ok.
  destruct (ltn ax (length (nshape a))) eqn:El; [|reflexivity].
  f_equal. apply to_nd_ext. apply Nat.ltb_lt in El.
  cbn [un_arr]. split; cbn [aflip aslice shape get of_nd].
  - symmetry. apply flip_index_shape; assumption.
  - intros out Ho. f_equal. symmetry. apply flip_index_src; assumption.
Qed.

(* ---------------------------------------------------------------------- *)
(* slice of slice: one axis *)
Lemma indices_elem_range s n a b k t :
  0 <= n -> step_of s <> 0 -> indices s n = (a, b, k) -> 0 <= t < range_len a b k -> 0 <= a + t * k < n.
Proof.
  intros Hn Hk Hi Ht.
  pose proof (sel_nth_range s n t Hn Hk) as H. unfold slice_len, sel, nthZ in H. rewrite Hi in H.
  specialize (H Ht). rewrite zrange_nth in H by (rewrite Z2Nat.id; lia). rewrite Z2Nat.id in H by lia. exact H.
Qed.

Lemma indices_some_inrange x st k n : 0 <= x < n -> k <> 0 ->
  indices (mkslice (Some x) st (Some k)) n =
  (x, adjust_endpoint st n k (-1) n, k).
Proof.
  intros Hx Hk. unfold indices, step_of. cbn [s_start s_stop s_step]. f_equal. f_equal.
  unfold adjust_endpoint. repeat break_if; lia.
Qed.

Theorem compose_sel_exact o i n :
  0 <= n -> step_of o <> 0 -> step_of i <> 0 ->
  sel (compose_sel o i n) n = pick (sel o n) (sel i (slice_len o n)) /\ step_of (compose_sel o i n) <> 0.
Proof.
  intros Hn Ho Hi. unfold compose_sel, slice_len.
  destruct (indices o n) as [[a b] k] eqn:HO.
  pose proof (indices_bounds o n a b k Hn HO) as (Hk & _).
  pose proof (range_len_nonneg a b k) as Hm.
  set (m := range_len a b k) in *.
  destruct (indices i m) as [[c d] j] eqn:HI.
  pose proof (indices_bounds i m c d j Hm HI) as (Hj & _).
  pose proof (range_len_nonneg c d j) as Hlen.
  unfold sel at 2 3. rewrite HO. fold m. rewrite HI.
  set (len := range_len c d j) in *.
  destruct (len =? 0) eqn:El.
  - split; [|unfold step_of; cbn; lia].
    rewrite (zrange_empty c d j) by (fold len; lia). unfold pick. cbn [map].
    unfold sel, indices, adjust_endpoint, step_of. cbn [s_start s_stop s_step].
    apply zrange_empty. repeat break_if; try lia; rewrite range_len_unit; lia.
  - assert (0 < len) as Hlen0 by lia.
    assert (forall t, 0 <= t < len -> 0 <= c + t * j < m) as Hin1
      by (intros t Ht; apply (indices_elem_range i m c d j t); assumption).
    assert (forall u, 0 <= u < m -> 0 <= a + u * k < n) as Hin2
      by (intros u Hu; apply (indices_elem_range o n a b k u); assumption).
    assert (forall t, 0 <= t < len -> 0 <= a + (c + t * j) * k < n) as Hin
      by (intros t Ht; apply Hin2; apply Hin1; exact Ht).
    pose proof (Hin 0 ltac:(lia)) as H0. pose proof (Hin (len - 1) ltac:(lia)) as Hlast.
    assert (k * j <> 0) as HK by nia.
    split; [|unfold step_of; cbn [s_step]; exact HK].
    unfold sel. rewrite indices_some_inrange by (try exact HK; lia).
    symmetry. apply pick_zrange.
    + fold len. unfold adjust_endpoint.
      destruct (Z_lt_le_dec 0 (k * j)) as [Hp|Hp].
      * destruct (a + c * k + len * (k * j) <? 0) eqn:E1; [nia|].
        apply range_len_pos_unique; try lia; repeat break_if; try lia; try nia.
      * destruct (a + c * k + len * (k * j) <? 0) eqn:E1.
        -- apply range_len_neg_unique; try lia; repeat break_if; try lia; try nia.
        -- apply range_len_neg_unique; try lia; repeat break_if; try lia; try nia.
    + fold len. exact Hin1.
    + intros _. reflexivity.
    + reflexivity.
Qed.

(* a per-axis composition [comp] is exact on a class [ok] of slices when it selects what
   selecting twice selects *)
Definition comp_exact (ok : pslice -> Prop) (comp : pslice -> pslice -> Z -> pslice) : Prop :=
  forall o i n, 0 <= n -> ok o -> ok i ->
    sel (comp o i n) n = pick (sel o n) (sel i (slice_len o n)) /\ step_of (comp o i n) <> 0.

Lemma comp_exact_general : comp_exact (fun s => step_of s <> 0) compose_sel.
Proof. intros o i n Hn Ho Hi. apply compose_sel_exact; assumption. Qed.

Definition unit_stepP (s : pslice) : Prop := s_step s = None \/ s_step s = Some 1.

Lemma unit_stepb_iff s : unit_stepb s = true <-> unit_stepP s.
Proof.
  unfold unit_stepb, unit_stepP. destruct (s_step s) as [k|]; [|split; [left; reflexivity | reflexivity]].
  rewrite Z.eqb_eq. split; [intros ->; right; reflexivity | intros [H|H]; [discriminate | injection H as ->; reflexivity]].
Qed.

Lemma unit_step_nonzero s : unit_stepP s -> step_of s <> 0.
Proof. unfold unit_stepP, step_of. intros [->| ->]; lia. Qed.

(* Slicing.compose_slices (= the library's _compose_slices) on unit steps *)
Lemma comp_exact_unit : comp_exact unit_stepP compose_slices.
Proof.
  intros o i n Hn Ho Hi. split; [apply compose_slices_unit_exact; assumption|].
  destruct (indices_unit o n Hn Ho) as (A & B & HO & _).
  unfold compose_slices. rewrite HO.
  destruct (indices_unit i _ (range_len_nonneg A B 1) Hi) as (C & D & HI & _). rewrite HI.
  cbn [negb Z.eqb Pos.eqb orb]. unfold step_of. cbn [s_step]. lia.
Qed.

(* N axes: index lists made of slices only, one per axis *)
Lemma sl_okb_iff sl : sl_okb sl = true <-> Forall (fun a => step_of a <> 0) sl.
Proof.
  unfold sl_okb. rewrite forallb_forall, Forall_forall. split; intros H a Ha; specialize (H a Ha); lia.
Qed.

Lemma idx_okb_sl sl : forall s, length sl = length s -> idx_okb (map ISlice sl) s = sl_okb sl.
Proof.
  induction sl as [|a sl IH]; intros [|n s] Hl; cbn [length] in Hl; try discriminate; [reflexivity|].
  cbn [map idx_okb sl_okb forallb]. f_equal. apply IH. lia.
Qed.

Lemma ixokb_sl sl : forall s, length sl = length s -> ixokb (map ISlice sl) s = sl_okb sl.
Proof.
  induction sl as [|a sl IH]; intros [|n s] Hl; cbn [length] in Hl; try discriminate; [reflexivity|].
  cbn [map ixokb sl_okb forallb]. f_equal. apply IH. lia.
Qed.

Lemma ixokb_sl_length sl : forall s, ixokb (map ISlice sl) s = true -> (length sl <= length s)%nat.
Proof.
  induction sl as [|a sl IH]; intros s H; cbn [length]; [lia|].
  cbn [map ixokb] in H. destruct s as [|n s]; [discriminate|]. apply andb_true_iff in H.
  cbn [length]. specialize (IH s ltac:(tauto)). lia.
Qed.

Lemma sl_shape_length sl : forall s, length sl = length s -> length (slice_shape (map ISlice sl) s) = length s.
Proof.
  induction sl as [|a sl IH]; intros [|n s] Hl; cbn [length] in Hl; try discriminate; [reflexivity|].
  cbn [map slice_shape hd tl length]. f_equal. apply IH. lia.
Qed.

Lemma slice_slice_nd ok comp : comp_exact ok comp -> forall sl1 sl2 s,
  nonneg_shape s -> length sl1 = length s -> length sl2 = length s ->
  Forall ok sl1 -> Forall ok sl2 ->
  slice_shape (map ISlice (map3 comp sl1 sl2 s)) s = slice_shape (map ISlice sl2) (slice_shape (map ISlice sl1) s) /\
  (forall out, in_bounds out (slice_shape (map ISlice sl2) (slice_shape (map ISlice sl1) s)) ->
     slice_src (map ISlice (map3 comp sl1 sl2 s)) s out =
     slice_src (map ISlice sl1) s (slice_src (map ISlice sl2) (slice_shape (map ISlice sl1) s) out)) /\
  Forall (fun a => step_of a <> 0) (map3 comp sl1 sl2 s) /\ length (map3 comp sl1 sl2 s) = length s.
Proof.
  intros Hc. induction sl1 as [|o sl1 IH]; intros [|i sl2] [|n s] Hn H1 H2 Ho Hi; cbn [length] in *; try discriminate.
  - repeat split; try reflexivity. constructor.
  - inversion Hn; inversion Ho; inversion Hi; subst.
    destruct (IH sl2 s ltac:(assumption) ltac:(lia) ltac:(lia) ltac:(assumption) ltac:(assumption)) as (Hs & Hg & Hk & Hl).
    destruct (Hc o i n ltac:(assumption) ltac:(assumption) ltac:(assumption)) as [Hsel Hstep].
    assert (slice_len (comp o i n) n = slice_len i (slice_len o n)) as Hlen.
    { rewrite <- (slice_len_length (comp o i n) n), Hsel, pick_length. apply slice_len_length. }
    cbn [map3 map slice_shape slice_src hd tl length]. rewrite Hlen, Hs.
    repeat split; try reflexivity.
    + intros [|j out] Hout; cbn [in_bounds] in Hout; [tauto|]. destruct Hout as [Hj Hout]. cbn [hd tl].
      rewrite Hg by exact Hout. f_equal.
      unfold nthZ. rewrite Hsel. rewrite pick_nth; [reflexivity|].
      pose proof (slice_len_length i (slice_len o n)). lia.
    + constructor; assumption.
    + f_equal. exact Hl.
Qed.

Lemma pshape_nonneg p s : pshape p = Some s -> nonneg_shape s.
Proof.
  intros H. destruct (pshape_some_eval p s H) as (a & Ea & <-). apply (eval_wf p a Ea).
Qed.

Lemma eval_slice_slice_gen ok comp : comp_exact ok comp -> (forall a, ok a -> step_of a <> 0) ->
  forall sl1 sl2 p s r,
  pshape p = Some s -> length sl1 = length s -> length sl2 = length s ->
  Forall ok sl1 -> Forall ok sl2 ->
  eval (PSlice (map ISlice sl2) (PSlice (map ISlice sl1) p)) = Some r ->
  eval (PSlice (map ISlice (map3 comp sl1 sl2 s)) p) = Some r.
Proof.
  intros Hc Hnz sl1 sl2 p s r Hp H1 H2 Ho Hi.
  apply lift_un_un; try reflexivity; [apply congr_slice|].
  intros x Hx Hs _ _. rewrite Hp in Hx. injection Hx as Hx. rewrite <- Hx in Hs.
  destruct (slice_slice_nd ok comp Hc sl1 sl2 s Hs H1 H2 Ho Hi) as (Hshape & Hsrc & Hk & Hl).
  cbn [un_ok un_arr un_shape]. rewrite <- Hx. split.
  - rewrite ixokb_sl by exact Hl. apply sl_okb_iff. exact Hk.
  - split; cbn [aslice shape get]; rewrite <- Hx; [symmetry; exact Hshape|].
    intros out Hout. f_equal. symmetry. apply Hsrc. exact Hout.
Qed.

(* slice of slice composes — for all non-zero steps, with the specification-side composition *)
Theorem eval_slice_slice sl1 sl2 p s r :
  pshape p = Some s -> length sl1 = length s -> length sl2 = length s ->
  sl_okb sl1 = true -> sl_okb sl2 = true ->
  eval (PSlice (map ISlice sl2) (PSlice (map ISlice sl1) p)) = Some r ->
  eval (PSlice (map ISlice (map3 compose_sel sl1 sl2 s)) p) = Some r.
Proof.
  intros Hp H1 H2 Ho Hi. apply (eval_slice_slice_gen _ _ comp_exact_general); try assumption.
  - intros a Ha; exact Ha.
  - apply sl_okb_iff; exact Ho.
  - apply sl_okb_iff; exact Hi.
Qed.

(* — and with the library's own composition (Slicing.compose_slices = _compose_slices) on unit steps *)
Theorem eval_slice_slice_unit sl1 sl2 p s r :
  pshape p = Some s -> length sl1 = length s -> length sl2 = length s ->
  forallb unit_stepb sl1 = true -> forallb unit_stepb sl2 = true ->
  eval (PSlice (map ISlice sl2) (PSlice (map ISlice sl1) p)) = Some r ->
  eval (PSlice (map ISlice (map3 compose_slices sl1 sl2 s)) p) = Some r.
Proof.
  intros Hp H1 H2 Ho Hi. apply (eval_slice_slice_gen _ _ comp_exact_unit); try assumption.
  - apply unit_step_nonzero.
  - rewrite forallb_forall in Ho. apply Forall_forall. intros a Ha. apply unit_stepb_iff. apply Ho. exact Ha.
  - rewrite forallb_forall in Hi. apply Forall_forall. intros a Ha. apply unit_stepb_iff. apply Hi. exact Ha.
Qed.

(* ---------------------------------------------------------------------- *)
(* slices-only indices, position by position *)
Lemma hd_nth0 (l : list Z) : hd 0 l = nth 0 l 0.
Proof. destruct l; reflexivity. Qed.
Lemma nth_tl0 (l : list Z) k : nth k (tl l) 0 = nth (S k) l 0.
Proof. destruct l; [destruct k; reflexivity | reflexivity]. Qed.

Lemma sl_shape_nth sl : forall s k, (k < length sl)%nat ->
  nth k (slice_shape (map ISlice sl) s) 0 = slice_len (nth k sl colon) (nth k s 0).
Proof.
  induction sl as [|a sl IH]; intros s k Hk; cbn [length] in Hk; [lia|].
  cbn [map slice_shape]. destruct k as [|k]; cbn [nth]; [rewrite hd_nth0; reflexivity|].
  rewrite IH by lia. rewrite nth_tl0. reflexivity.
Qed.

Lemma sl_src_nth sl : forall s out k, (k < length sl)%nat ->
  nth k (slice_src (map ISlice sl) s out) 0 = nthZ (sel (nth k sl colon) (nth k s 0)) (nth k out 0).
Proof.
  induction sl as [|a sl IH]; intros s out k Hk; cbn [length] in Hk; [lia|].
  cbn [map slice_src]. destruct k as [|k]; cbn [nth]; [rewrite !hd_nth0; reflexivity|].
  rewrite IH by lia. rewrite !nth_tl0. reflexivity.
Qed.

Lemma sl_src_length sl : forall s out, length out = length sl -> length (slice_src (map ISlice sl) s out) = length sl.
Proof.
  induction sl as [|a sl IH]; intros s out Hl; cbn [map slice_src length] in *; [exact Hl|].
  f_equal. apply IH. destruct out; cbn [length tl] in *; lia.
Qed.

Lemma list_eq_nth0 (l l' : list Z) :
  length l = length l' -> (forall k, (k < length l)%nat -> nth k l 0 = nth k l' 0) -> l = l'.
Proof. apply list_eq_nth. Qed.

(* ---------------------------------------------------------------------- *)
(* slice commutes with transpose: the index is permuted *)
Theorem slice_transpose_arr axes sl (x : arr Z) :
  nonneg_shape (shape x) -> is_permb axes (length (shape x)) = true -> length sl = length (shape x) ->
  aeq (aslice (map ISlice sl) (atranspose axes x))
      (atranspose axes (aslice (map ISlice (pickn colon sl (inv_axes axes))) x)).
Proof.
  intros Hs Hp Hl. set (n := length (shape x)) in *.
  pose proof (perm_len axes n Hp) as Hla.
  assert (length (pickn colon sl (inv_axes axes)) = n) as Hl' by (rewrite pickn_length, inv_axes_length; exact Hla).
  assert (forall k, (k < n)%nat -> nth (nth k axes O) (pickn colon sl (inv_axes axes)) colon = nth k sl colon) as Hsl.
  { intros k Hk. pose proof (perm_nth_lt axes n Hp k Hk) as Hlt.
    rewrite pickn_nth by (rewrite inv_axes_length, Hla; exact Hlt).
    rewrite inv_axes_nth by (rewrite Hla; exact Hlt). rewrite (perm_index_nth axes n Hp k Hk). reflexivity. }
  split; cbn [aslice atranspose shape get].
  - unfold transpose_shape. apply list_eq_nth0.
    + rewrite sl_shape_length by (rewrite pickn_length; lia). rewrite !pickn_length. reflexivity.
    + intros k Hk. rewrite sl_shape_length in Hk by (rewrite pickn_length; lia). rewrite pickn_length, Hla in Hk.
      rewrite sl_shape_nth by lia. rewrite !pickn_nth by lia.
      rewrite sl_shape_nth by (rewrite Hl'; apply (perm_nth_lt axes n Hp); exact Hk).
      rewrite Hsl by exact Hk. reflexivity.
  - intros out Hout. f_equal.
    pose proof (in_bounds_length _ _ Hout) as Hlo.
    rewrite sl_shape_length in Hlo by (unfold transpose_shape; rewrite pickn_length; lia).
    unfold transpose_shape in Hlo. rewrite pickn_length, Hla in Hlo.
    unfold transpose_src. apply list_eq_nth0.
    + rewrite pickn_length, inv_axes_length, Hla.
      rewrite sl_src_length; [lia|]. rewrite pickn_length, inv_axes_length. lia.
    + intros d Hd. rewrite pickn_length, inv_axes_length, Hla in Hd.
      pose proof (perm_index_lt axes n Hp d Hd) as Hid.
      rewrite pickn_nth by (rewrite inv_axes_length, Hla; exact Hd).
      rewrite inv_axes_nth by (rewrite Hla; exact Hd).
      rewrite sl_src_nth by lia.
      rewrite sl_src_nth by lia.
      unfold transpose_shape. rewrite pickn_nth by lia.
      rewrite (perm_nth_index axes n Hp d Hd).
      rewrite pickn_nth by (rewrite inv_axes_length, Hla; exact Hd).
      rewrite inv_axes_nth by (rewrite Hla; exact Hd).
      rewrite pickn_nth by (rewrite inv_axes_length, Hla; exact Hd).
      rewrite inv_axes_nth by (rewrite Hla; exact Hd).
      reflexivity.
Qed.

(* characterisation of [eval] on a stack of two unary operations *)
Lemma eval_un_un_inv o1 o2 p r :
  not_rechunk o1 = true -> not_rechunk o2 = true -> un_congr o1 ->
  eval (PUn o1 (PUn o2 p)) = Some r ->
  exists a, eval p = Some a /\ nonneg_shape (nshape a) /\ un_ok o2 (nshape a) = true /\
            un_ok o1 (un_shape o2 (nshape a)) = true /\ r = to_nd (un_arr o1 (un_arr o2 (of_nd a))).
Proof.
  intros N1 N2 Hc H. cbn [eval] in H.
  destruct (eval p) as [a|] eqn:Ea; [|discriminate].
  destruct (un_eval o2 a) as [b|] eqn:Eb; [|discriminate].
  destruct (un_eval_inv o2 a b N2 Eb) as [Hok2 ->].
  destruct (un_eval_inv o1 _ r N1 H) as [Hok1 ->].
  rewrite nshape_to_nd, un_arr_shape in Hok1. cbn [of_nd shape] in Hok1.
  pose proof (eval_wf p a Ea) as [Hs _].
  exists a. repeat split; try assumption.
  apply to_nd_ext. apply Hc.
  - cbn [of_nd shape]. rewrite nshape_to_nd, un_arr_shape. apply un_shape_nonneg; assumption.
  - cbn [of_nd shape]. rewrite nshape_to_nd, un_arr_shape. exact Hok1.
  - apply of_to_nd.
Qed.

Lemma eval_un_un_intro o1 o2 p a :
  not_rechunk o1 = true -> not_rechunk o2 = true -> un_congr o1 ->
  eval p = Some a -> un_ok o2 (nshape a) = true -> un_ok o1 (un_shape o2 (nshape a)) = true ->
  eval (PUn o1 (PUn o2 p)) = Some (to_nd (un_arr o1 (un_arr o2 (of_nd a)))).
Proof.
  intros N1 N2 Hc Ea Hok2 Hok1. cbn [eval]. rewrite Ea.
  rewrite (un_eval_intro o2 a N2 Hok2).
  pose proof (eval_wf p a Ea) as [Hs _].
  rewrite un_eval_intro; [|exact N1 | rewrite nshape_to_nd, un_arr_shape; exact Hok1].
  f_equal. apply to_nd_ext. apply Hc.
  - cbn [of_nd shape]. rewrite nshape_to_nd, un_arr_shape. apply un_shape_nonneg; assumption.
  - cbn [of_nd shape]. rewrite nshape_to_nd, un_arr_shape. exact Hok1.
  - apply of_to_nd.
Qed.

Theorem eval_slice_transpose axes sl p s r :
  pshape p = Some s -> length sl = length s ->
  eval (PSlice (map ISlice sl) (PT axes p)) = Some r ->
  eval (PT axes (PSlice (map ISlice (pickn colon sl (inv_axes axes))) p)) = Some r.
Proof.
  intros Hp Hl H.
  destruct (eval_un_un_inv (OSlice (map ISlice sl)) (OT axes) p r eq_refl eq_refl (congr_slice _) H) as (a & Ea & Hs & Hok2 & Hok1 & ->).
  pose proof (eval_some_pshape p a Ea) as Hp'. rewrite Hp in Hp'. injection Hp' as Hp'. subst s.
  cbn [un_ok un_shape] in Hok1, Hok2.
  pose proof (perm_len axes _ Hok2) as Hla.
  assert (length (pickn colon sl (inv_axes axes)) = length (nshape a)) as Hl'
    by (rewrite pickn_length, inv_axes_length; exact Hla).
  rewrite (eval_un_un_intro (OT axes) (OSlice (map ISlice (pickn colon sl (inv_axes axes)))) p a eq_refl eq_refl (congr_T _) Ea).
  - f_equal. apply to_nd_ext. apply aeq_sym. cbn [un_arr]. apply slice_transpose_arr; assumption.
  - cbn [un_ok]. rewrite ixokb_sl by exact Hl'.
    rewrite ixokb_sl in Hok1 by (unfold transpose_shape; rewrite pickn_length; lia).
    apply sl_okb_iff. apply sl_okb_iff in Hok1. rewrite Forall_forall in *.
    intros t Ht. unfold pickn in Ht. apply in_map_iff in Ht. destruct Ht as (j & <- & Hj).
    destruct (Nat.lt_ge_cases j (length sl)) as [Hlt|Hge].
    + apply Hok1. apply nth_In. exact Hlt.
    + rewrite nth_overflow by exact Hge. unfold step_of, colon. cbn. lia.
  - cbn [un_ok un_shape]. rewrite sl_shape_length by exact Hl'. exact Hok2.
Qed.

(* ---------------------------------------------------------------------- *)
(* n-ary nodes *)
Definition n_congr (o : naryop) : Prop :=
  forall xs ys, Forall (fun x => nonneg_shape (shape x)) xs -> n_ok o (map shape xs) = true ->
    Forall2 aeq xs ys -> aeq (n_arr o xs) (n_arr o ys).

Lemma congr_elem f : n_congr (NElem f).
Proof.
  intros xs ys _ Hok H. cbn [n_arr]. apply aelemwise_congr; [exact H|].
  cbn [n_ok] in Hok. apply andb_true_iff in Hok. destruct Hok as [_ Hb].
  rewrite forallb_forall in Hb. apply Forall_forall. intros a Ha.
  apply bcast_intob_spec. apply Hb. apply in_map. exact Ha.
Qed.

Lemma sequence_some_length {A} (l : list (option A)) r : sequence l = Some r -> length r = length l.
Proof.
  revert r. induction l as [|[a|] l IH]; intros r H; cbn [sequence] in H; try discriminate.
  - injection H as <-. reflexivity.
  - destruct (sequence l) as [t|]; [|discriminate]. injection H as <-. cbn [length]. f_equal. apply IH. reflexivity.
Qed.

Lemma sequence_map_un o : not_rechunk o = true -> forall ps l, sequence (map eval ps) = Some l ->
  sequence (map eval (map (PUn o) ps)) =
  if forallb (fun a => un_ok o (nshape a)) l then Some (map (fun a => to_nd (un_arr o (of_nd a))) l) else None.
Proof.
  intros No. induction ps as [|p ps IH]; intros l H; cbn [map sequence] in H.
  - injection H as <-. reflexivity.
  - destruct (eval p) as [a|] eqn:Ea; [|discriminate].
    destruct (sequence (map eval ps)) as [t|] eqn:Et; [|discriminate]. injection H as <-.
    cbn [map sequence eval forallb]. rewrite Ea. rewrite (IH t eq_refl).
    unfold un_eval. destruct (un_ok o (nshape a)) eqn:Ok; cbn [andb]; [|reflexivity].
    destruct (forallb (fun a0 => un_ok o (nshape a0)) t); [|reflexivity].
    destruct o; try reflexivity; discriminate.
Qed.

Lemma eval_un_n_inv o no ps r :
  not_rechunk o = true -> un_congr o ->
  eval (PUn o (PN no ps)) = Some r ->
  exists l, sequence (map eval ps) = Some l /\ Forall wf l /\ n_ok no (map nshape l) = true /\
            un_ok o (n_shape no (map nshape l)) = true /\
            r = to_nd (un_arr o (n_arr no (map of_nd l))).
Proof.
  intros No Hc H. cbn [eval] in H.
  destruct (sequence (map eval ps)) as [l|] eqn:El; [|discriminate].
  assert (Forall wf l) as Hwf.
  { apply (sequence_Forall wf eval ps l); [|exact El]. apply Forall_forall. intros p _ a. apply eval_wf. }
  unfold n_eval in H. destruct (n_ok no (map nshape l)) eqn:Hok; [|discriminate].
  destruct (un_eval_inv o _ r No H) as [Hok1 ->].
  rewrite nshape_to_nd, n_arr_shape, map_map in Hok1. cbn [of_nd shape] in Hok1.
  exists l. repeat split; try assumption.
  apply to_nd_ext. apply Hc.
  - cbn [of_nd shape]. rewrite nshape_to_nd, n_arr_shape, map_map. apply n_shape_nonneg.
    apply Forall_forall. intros s Hs. apply in_map_iff in Hs. destruct Hs as (b & <- & Hb).
    rewrite Forall_forall in Hwf. apply (Hwf b Hb).
  - cbn [of_nd shape]. rewrite nshape_to_nd, n_arr_shape, map_map. exact Hok1.
  - apply of_to_nd.
Qed.

Lemma Forall2_map_same {A B} (R : B -> B -> Prop) (f g : A -> B) l :
  (forall a, In a l -> R (f a) (g a)) -> Forall2 R (map f l) (map g l).
Proof.
  induction l as [|a l IH]; intros H; cbn [map]; constructor; [apply H; left; reflexivity|].
  apply IH. intros b Hb. apply H. right. exact Hb.
Qed.

Lemma eval_n_un_intro o no ps l :
  not_rechunk o = true -> n_congr no ->
  sequence (map eval ps) = Some l -> Forall wf l ->
  forallb (fun a => un_ok o (nshape a)) l = true ->
  n_ok no (map (fun a => un_shape o (nshape a)) l) = true ->
  eval (PN no (map (PUn o) ps)) = Some (to_nd (n_arr no (map (fun a => un_arr o (of_nd a)) l))).
Proof.
  intros No Hc El Hwf Hoks Hnok. cbn [eval]. rewrite (sequence_map_un o No ps l El), Hoks.
  unfold n_eval. rewrite !map_map. cbn [nshape to_nd].
  assert (map (fun x => shape (un_arr o (of_nd x))) l = map (fun a => un_shape o (nshape a)) l) as Hsh
    by (apply map_ext; intros a; apply un_arr_shape).
  rewrite Hsh, Hnok. f_equal. apply to_nd_ext.
  rewrite <- (map_map (fun a => to_nd (un_arr o (of_nd a))) of_nd).
  rewrite (map_map (fun a => to_nd (un_arr o (of_nd a))) of_nd).
  apply Hc.
  - apply Forall_forall. intros x Hx. apply in_map_iff in Hx. destruct Hx as (a & <- & Ha).
    cbn [of_nd shape nshape to_nd]. rewrite un_arr_shape. apply un_shape_nonneg.
    + rewrite forallb_forall in Hoks. apply Hoks. exact Ha.
    + rewrite Forall_forall in Hwf. apply (Hwf a Ha).
  - rewrite map_map. cbn [of_nd shape nshape to_nd]. rewrite Hsh. exact Hnok.
  - apply Forall2_map_same. intros a _. apply of_to_nd.
Qed.

(* ---------------------------------------------------------------------- *)
(* slice distributes over element-wise operations: operands of one shape *)
Lemma rbshape_same a : rbshape a a = a.
Proof. induction a as [|n a IH]; [reflexivity|]. cbn [rbshape]. rewrite IH. unfold bdim. break_if; [f_equal; lia | reflexivity]. Qed.

Lemma bshape_same s : bshape s s = s.
Proof. unfold bshape. rewrite rbshape_same. apply rev_involutive. Qed.

Lemma bshape_nil_right s : bshape s [] = s.
Proof. unfold bshape. cbn [rev]. destruct (rev s) eqn:E; cbn [rbshape]; rewrite <- E; apply rev_involutive. Qed.

Lemma bshape_all_same s ss : ss <> [] -> Forall (fun t => t = s) ss -> bshape_all ss = s.
Proof.
  intros Hne H. induction H as [|t ss -> Hs IH]; [congruence|].
  cbn [bshape_all fold_right]. destruct ss as [|u ss]; [apply bshape_nil_right|].
  fold (bshape_all (u :: ss)). rewrite IH by discriminate. apply bshape_same.
Qed.

Lemma rbcast_intob_same a : rbcast_intob a a = true.
Proof. induction a as [|n a IH]; [reflexivity|]. cbn [rbcast_intob]. rewrite IH, Z.eqb_refl, orb_true_r. reflexivity. Qed.

Lemma mask_id s : forall out, in_bounds out s -> mask s out = out.
Proof.
  induction s as [|n s IH]; intros [|i out] H; cbn [in_bounds] in H; try (exfalso; tauto); [reflexivity|].
  cbn [mask]. rewrite IH by tauto. destruct (n =? 1) eqn:E; [f_equal; lia | reflexivity].
Qed.

Lemma bidx_id s out : in_bounds out s -> bidx s out = out.
Proof.
  intros H. unfold bidx, lastn. rewrite (in_bounds_length _ _ H), Nat.sub_diag. cbn [skipn]. apply mask_id. exact H.
Qed.

Lemma n_ok_elem_same f s ss : length ss = ef_arity f -> Forall (fun t => t = s) ss -> n_ok (NElem f) ss = true.
Proof.
  intros Hl H. cbn [n_ok]. rewrite Hl, Nat.eqb_refl. cbn [andb].
  assert (ss <> []) as Hne by (destruct ss; [destruct f; discriminate | discriminate]).
  rewrite (bshape_all_same s ss Hne H). apply forallb_forall. intros t Ht.
  rewrite Forall_forall in H. rewrite (H t Ht). unfold bcast_intob. apply rbcast_intob_same.
Qed.

Lemma slice_elemwise_arr f ix s (xs : list (arr Z)) :
  xs <> [] -> nonneg_shape s -> ixokb ix s = true -> Forall (fun x => shape x = s) xs ->
  aeq (aslice ix (aelemwise f xs)) (aelemwise f (map (aslice ix) xs)).
Proof.
  intros Hne Hs Hok Hxs.
  assert (bshape_all (map shape xs) = s) as Hb.
  { apply bshape_all_same; [destruct xs; [congruence | discriminate]|].
    apply Forall_forall. intros t Ht. apply in_map_iff in Ht. destruct Ht as (x & <- & Hx).
    rewrite Forall_forall in Hxs. apply Hxs. exact Hx. }
  assert (bshape_all (map shape (map (aslice ix) xs)) = slice_shape ix s) as Hb'.
  { apply bshape_all_same; [destruct xs; [congruence | discriminate]|].
    apply Forall_forall. intros t Ht. rewrite map_map in Ht. apply in_map_iff in Ht. destruct Ht as (x & <- & Hx).
    rewrite Forall_forall in Hxs. cbn [aslice shape]. rewrite (Hxs x Hx). reflexivity. }
  split; cbn [aslice aelemwise shape get].
  - rewrite Hb, Hb'. reflexivity.
  - rewrite Hb. intros out Hout. f_equal. rewrite map_map. apply map_ext_in. intros x Hx.
    rewrite Forall_forall in Hxs. cbn [aslice shape get]. rewrite (Hxs x Hx).
    rewrite (bidx_id s (slice_src ix s out)) by (apply ix_src_in_bounds; assumption).
    rewrite (bidx_id (slice_shape ix s) out) by exact Hout. reflexivity.
Qed.

Theorem eval_slice_elemwise f ix ps s r :
  Forall (fun p => pshape p = Some s) ps ->
  eval (PSlice ix (PElem f ps)) = Some r ->
  eval (PElem f (map (fun p => PSlice ix p) ps)) = Some r.
Proof.
  intros Hps H.
  destruct (eval_un_n_inv (OSlice ix) (NElem f) ps r eq_refl (congr_slice ix) H) as (l & El & Hwf & Hnok & Hok & ->).
  assert (Forall (fun a => nshape a = s) l) as Hl.
  { clear - Hps El. revert l El. induction Hps as [|p ps Hp _ IH]; intros l El; cbn [map sequence] in El.
    - injection El as <-. constructor.
    - destruct (eval p) as [a|] eqn:Ea; [|discriminate].
      destruct (sequence (map eval ps)) as [t|]; [|discriminate]. injection El as <-.
      constructor; [|apply IH; reflexivity].
      pose proof (eval_some_pshape p a Ea) as H. rewrite Hp in H. injection H as H. symmetry. exact H. }
  assert (length l = ef_arity f) as Hlen.
  { cbn [n_ok] in Hnok. apply andb_true_iff in Hnok. destruct Hnok as [Hn _]. apply Nat.eqb_eq in Hn.
    rewrite map_length in Hn. exact Hn. }
  assert (l <> []) as Hne by (destruct l; [destruct f; discriminate | discriminate]).
  assert (Forall (fun t => t = s) (map nshape l)) as Hl'.
  { apply Forall_forall. intros t Ht. apply in_map_iff in Ht. destruct Ht as (a & <- & Ha).
    rewrite Forall_forall in Hl. apply Hl. exact Ha. }
  assert (n_shape (NElem f) (map nshape l) = s) as Hsh.
  { cbn [n_shape]. apply bshape_all_same; [destruct l; [congruence | discriminate] | exact Hl']. }
  rewrite Hsh in Hok. cbn [un_ok] in Hok.
  assert (nonneg_shape s) as Hs.
  { destruct l as [|a l']; [congruence|]. inversion Hl as [|a0 l0 Ha0 Hx0]; inversion Hwf as [|a1 l1 Hw1 Hx1]. rewrite <- Ha0. apply Hw1. }
  change (map (fun p => PSlice ix p) ps) with (map (PUn (OSlice ix)) ps).
  rewrite (eval_n_un_intro (OSlice ix) (NElem f) ps l eq_refl (congr_elem f) El Hwf).
  - f_equal. apply to_nd_ext. apply aeq_sym. cbn [un_arr n_arr].
    rewrite <- (map_map of_nd (aslice ix)).
    apply (slice_elemwise_arr _ ix s); try assumption.
    + destruct l; [congruence | discriminate].
    + apply Forall_forall. intros x Hx. apply in_map_iff in Hx. destruct Hx as (a & <- & Ha).
      rewrite Forall_forall in Hl. apply (Hl a Ha).
  - apply forallb_forall. intros a Ha. cbn [un_ok]. rewrite Forall_forall in Hl. rewrite (Hl a Ha). exact Hok.
  - apply (n_ok_elem_same f (slice_shape ix s)); [rewrite map_length; exact Hlen|].
    apply Forall_forall. intros t Ht. apply in_map_iff in Ht. destruct Ht as (a & <- & Ha).
    cbn [un_shape]. rewrite Forall_forall in Hl. rewrite (Hl a Ha). reflexivity.
Qed.

(* ---------------------------------------------------------------------- *)
(* concatenate *)
Lemma zl_eqb_iff a : forall b, zlist_eqb a b = true <-> a = b.
Proof.
  unfold zlist_eqb. induction a as [|x a IH]; intros [|y b]; cbn [list_eqb]; try (split; [discriminate | congruence]).
  - split; reflexivity.
  - rewrite andb_true_iff, Z.eqb_eq, IH. split; [intros [-> ->]; reflexivity | intros H; injection H; tauto].
Qed.

Definition agree_off (ax : nat) (s t : list Z) : Prop :=
  length s = length t /\ forall k, k <> ax -> nth k s 0 = nth k t 0.

Lemma concat_compat_iff ax s t : concat_compat ax s t = true <-> agree_off ax s t.
Proof.
  unfold concat_compat, agree_off. rewrite andb_true_iff, Nat.eqb_eq, zl_eqb_iff. split; intros [Hl H]; split; try exact Hl.
  - intros k Hk. rewrite <- (nth_set_nth_neq ax k 0 s 0 ltac:(congruence)), H. apply nth_set_nth_neq. congruence.
  - apply list_eq_nth0; [rewrite !set_nth_length; exact Hl|].
    intros k Hk. rewrite set_nth_length in Hk. destruct (Nat.eq_dec k ax) as [->|Hne].
    + rewrite !nth_set_nth_eq by lia. reflexivity.
    + rewrite !nth_set_nth_neq by congruence. apply H. exact Hne.
Qed.

Lemma concat_shape_length ax s rest : length (concat_shape ax s rest) = length s.
Proof. unfold concat_shape. apply set_nth_length. Qed.

Lemma concat_shape_nth ax s rest k : (ax < length s)%nat ->
  nth k (concat_shape ax s rest) 0 =
  if Nat.eqb k ax then zsum (map (fun t => nth ax t 0) (s :: rest)) else nth k s 0.
Proof.
  intros Hl. unfold concat_shape. destruct (Nat.eqb k ax) eqn:E.
  - apply Nat.eqb_eq in E. subst k. apply nth_set_nth_eq. exact Hl.
  - apply Nat.eqb_neq in E. apply nth_set_nth_neq. congruence.
Qed.

Lemma in_bounds_iff_nth idx s :
  in_bounds idx s <-> length idx = length s /\ forall k, (k < length s)%nat -> 0 <= nth k idx 0 < nth k s 0.
Proof.
  split.
  - intros H. split; [apply in_bounds_length; exact H | intros k Hk; apply in_bounds_nth; assumption].
  - intros [Hl H]. apply in_bounds_of_nth; assumption.
Qed.

(* where concat_get goes: the first operand if the position is inside it, else the rest *)
Lemma concat_in_first ax s rest out :
  (ax < length s)%nat -> in_bounds out (concat_shape ax s rest) -> nth ax out 0 < nth ax s 0 -> in_bounds out s.
Proof.
  intros Hl Ho Hj. apply in_bounds_iff_nth in Ho. destruct Ho as [Hlo Ho]. rewrite concat_shape_length in *.
  apply in_bounds_iff_nth. split; [exact Hlo|]. intros k Hk. specialize (Ho k Hk).
  rewrite concat_shape_nth in Ho by exact Hl. destruct (Nat.eqb k ax) eqn:E; [|exact Ho].
  apply Nat.eqb_eq in E. subst k. lia.
Qed.

Lemma concat_in_rest ax s t rest out :
  (ax < length s)%nat -> agree_off ax s t ->
  in_bounds out (concat_shape ax s (t :: rest)) -> nth ax s 0 <= nth ax out 0 ->
  in_bounds (set_nth ax (nth ax out 0 - nth ax s 0) out) (concat_shape ax t rest).
Proof.
  intros Hl [Hlt Hag] Ho Hj. apply in_bounds_iff_nth in Ho. destruct Ho as [Hlo Ho]. rewrite concat_shape_length in *.
  apply in_bounds_iff_nth. rewrite concat_shape_length, set_nth_length. split; [lia|]. intros k Hk.
  specialize (Ho k ltac:(lia)). rewrite concat_shape_nth in Ho by exact Hl. rewrite concat_shape_nth by lia.
  destruct (Nat.eqb k ax) eqn:E.
  - apply Nat.eqb_eq in E. subst k. rewrite nth_set_nth_eq by lia. cbn [map zsum] in *. lia.
  - apply Nat.eqb_neq in E. rewrite nth_set_nth_neq by congruence. rewrite <- Hag by exact E. exact Ho.
Qed.

Lemma concat_get_congr ax : forall rest rest' (a a' : arr Z) out,
  (ax < length (shape a))%nat -> Forall (fun b => agree_off ax (shape a) (shape b)) rest ->
  aeq a a' -> Forall2 aeq rest rest' ->
  in_bounds out (concat_shape ax (shape a) (map shape rest)) ->
  concat_get ax a rest out = concat_get ax a' rest' out.
Proof.
  induction rest as [|b rest IH]; intros rest' a a' out Hl Hag [Hs Hg] H2 Ho; inversion H2; subst.
  - cbn [concat_get]. apply Hg. cbn [map] in Ho.
    apply in_bounds_iff_nth in Ho. destruct Ho as [Hlo Ho]. rewrite concat_shape_length in *.
    apply in_bounds_iff_nth. split; [exact Hlo|]. intros k Hk. specialize (Ho k Hk).
    rewrite concat_shape_nth in Ho by exact Hl. destruct (Nat.eqb k ax) eqn:E; [|exact Ho].
    apply Nat.eqb_eq in E. subst k. cbn [map zsum] in Ho. lia.
  - inversion Hag as [|b0 r0 Hb Hr]; subst. cbn [concat_get map] in *. rewrite <- Hs.
    destruct (nth ax out 0 <? nth ax (shape a) 0) eqn:E.
    + apply Hg. apply (concat_in_first ax _ _ out Hl Ho). lia.
    + destruct Hb as [Hlb Hb]. apply IH.
      * lia.
      * apply Forall_forall. intros c Hc. rewrite Forall_forall in Hr. destruct (Hr c Hc) as [Hlc Hcc].
        split; [lia|]. intros k Hk. rewrite <- Hb by exact Hk. apply Hcc. exact Hk.
      * assumption.
      * assumption.
      * apply concat_in_rest; [exact Hl | split; assumption | exact Ho | lia].
Qed.

Lemma n_ok_concat_agree ax s rest : n_ok (NConcat ax) (s :: rest) = true <->
  (ax < length s)%nat /\ Forall (agree_off ax s) rest.
Proof.
  cbn [n_ok]. unfold ltn. rewrite andb_true_iff, Nat.ltb_lt, forallb_forall, Forall_forall.
  split; intros [H1 H2]; (split; [exact H1|]); intros t Ht; apply concat_compat_iff; apply H2; exact Ht.
Qed.

Lemma congr_concat ax : n_congr (NConcat ax).
Proof.
  intros xs ys _ Hok H. destruct H as [|a a' rest rest' Ha Hr]; [apply aeq_refl|].
  cbn [map] in Hok. apply n_ok_concat_agree in Hok. destruct Hok as [Hl Hag].
  cbn [n_arr]. split; cbn [aconcat shape get].
  - destruct Ha as [Hs _]. rewrite Hs. f_equal. clear - Hr. induction Hr as [|b b' r r' [Hb _] _ IH]; [reflexivity|].
    cbn [map]. rewrite Hb, IH. reflexivity.
  - intros out Ho. apply concat_get_congr; try assumption.
    apply Forall_forall. intros b Hb. rewrite Forall_forall in Hag. apply Hag. apply in_map. exact Hb.
Qed.

(* ---------------------------------------------------------------------- *)
(* concatenate then slice the OTHER axes = concatenate the slices *)
Section ConcatSlice.
  Variable ax : nat.
  Variable sl : list pslice.
  Variable s : list Z.                       (* the off-axis dims every operand has *)
  Hypothesis Hax : (ax < length sl)%nat.
  Hypothesis Hcolon : nth ax sl colon = colon.

  Definition cs_good (t : list Z) : Prop :=
    length t = length sl /\ (forall k, k <> ax -> nth k t 0 = nth k s 0) /\ 0 <= nth ax t 0.

  Definition cs_rel (idx out : list Z) : Prop :=
    length idx = length sl /\ length out = length sl /\
    forall k, (k < length sl)%nat ->
      nth k idx 0 = if Nat.eqb k ax then nth ax out 0 else nthZ (sel (nth k sl colon) (nth k s 0)) (nth k out 0).

  Lemma cs_rel_eq t idx out : cs_good t -> cs_rel idx out -> 0 <= nth ax out 0 < nth ax t 0 ->
    idx = slice_src (map ISlice sl) t out.
  Proof.
    intros (Hlt & Hoff & Hn) (Hli & Hlo & Hrel) Hj. apply list_eq_nth0.
    - rewrite sl_src_length by exact Hlo. exact Hli.
    - intros k Hk. rewrite Hli in Hk. rewrite Hrel by exact Hk. rewrite sl_src_nth by exact Hk.
      destruct (Nat.eqb k ax) eqn:E.
      + apply Nat.eqb_eq in E. subst k. rewrite Hcolon. rewrite nthZ_sel_colon by exact Hj. reflexivity.
      + apply Nat.eqb_neq in E. rewrite Hoff by exact E. reflexivity.
  Qed.

  Lemma cs_rel_step idx out v : cs_rel idx out -> cs_rel (set_nth ax v idx) (set_nth ax v out).
  Proof.
    intros (Hli & Hlo & Hrel). unfold cs_rel. rewrite !set_nth_length. repeat split; try assumption.
    intros k Hk. destruct (Nat.eqb k ax) eqn:E.
    - apply Nat.eqb_eq in E. subst k. rewrite !nth_set_nth_eq by lia. reflexivity.
    - apply Nat.eqb_neq in E. rewrite !nth_set_nth_neq by congruence. rewrite Hrel by exact Hk.
      apply Nat.eqb_neq in E. rewrite E. reflexivity.
  Qed.

  Lemma cs_slice_ax t : cs_good t -> nth ax (slice_shape (map ISlice sl) t) 0 = nth ax t 0.
  Proof.
    intros (Hlt & Hoff & Hn). rewrite sl_shape_nth by exact Hax. rewrite Hcolon. apply slice_len_colon. exact Hn.
  Qed.

  Lemma concat_slice_get : forall rest (x : arr Z) idx out,
    cs_good (shape x) -> Forall (fun b => cs_good (shape b)) rest -> cs_rel idx out ->
    0 <= nth ax out 0 < zsum (map (fun t => nth ax t 0) (shape x :: map shape rest)) ->
    concat_get ax x rest idx = concat_get ax (aslice (map ISlice sl) x) (map (aslice (map ISlice sl)) rest) out.
  Proof.
    induction rest as [|b rest IH]; intros x idx out Hx Hr Hrel Hj; cbn [concat_get map].
    - cbn [aslice get]. f_equal. apply (cs_rel_eq (shape x)); try assumption. cbn [map zsum] in Hj. lia.
    - inversion Hr as [|b0 r0 Hb Hr']; subst.
      assert (nth ax idx 0 = nth ax out 0) as Hjj.
      { destruct Hrel as (_ & _ & Hrel). rewrite (Hrel ax Hax), Nat.eqb_refl. reflexivity. }
      cbn [aslice shape]. rewrite (cs_slice_ax (shape x) Hx), Hjj.
      destruct (nth ax out 0 <? nth ax (shape x) 0) eqn:E.
      + cbn [aslice get]. f_equal. apply (cs_rel_eq (shape x)); try assumption. lia.
      + apply IH; try assumption; [apply cs_rel_step; exact Hrel|].
        destruct Hrel as (_ & Hlo & _). rewrite nth_set_nth_eq by lia.
        cbn [map zsum] in *. lia.
  Qed.
End ConcatSlice.

Lemma zsum_map_ext {A} (f g : A -> Z) l : (forall a, In a l -> f a = g a) -> zsum (map f l) = zsum (map g l).
Proof.
  induction l as [|a l IH]; intros H; [reflexivity|]. cbn [map zsum]. rewrite (H a) by (left; reflexivity).
  rewrite IH; [reflexivity|]. intros b Hb. apply H. right. exact Hb.
Qed.

Theorem concat_slice_arr ax sl (x : arr Z) rest :
  (ax < length (shape x))%nat -> length sl = length (shape x) -> nth ax sl colon = colon ->
  Forall (fun b => agree_off ax (shape x) (shape b)) rest ->
  Forall (fun b => nonneg_shape (shape b)) (x :: rest) ->
  aeq (aslice (map ISlice sl) (aconcat ax x rest))
      (aconcat ax (aslice (map ISlice sl) x) (map (aslice (map ISlice sl)) rest)).
Proof.
  intros Hax Hl Hcolon Hag Hnn.
  assert (Hax' : (ax < length sl)%nat) by lia.
  assert (Hgood : forall b, In b (x :: rest) -> cs_good ax sl (shape x) (shape b)).
  { intros b Hb. rewrite Forall_forall in Hnn. pose proof (Hnn b Hb) as Hnb.
    destruct Hb as [<-|Hb].
    - split; [symmetry; exact Hl|]. split; [intros k Hk; reflexivity | apply nonneg_nth; exact Hnb].
    - rewrite Forall_forall in Hag. destruct (Hag b Hb) as [Hlb Hob].
      split; [lia|]. split; [intros k Hk; symmetry; apply Hob; exact Hk | apply nonneg_nth; exact Hnb]. }
  assert (Hsum : zsum (map (fun t => nth ax t 0) (slice_shape (map ISlice sl) (shape x) :: map shape (map (aslice (map ISlice sl)) rest)))
                 = zsum (map (fun t => nth ax t 0) (shape x :: map shape rest))).
  { rewrite map_map. change (slice_shape (map ISlice sl) (shape x) :: map (fun b => shape (aslice (map ISlice sl) b)) rest)
      with (map (fun b => shape (aslice (map ISlice sl) b)) (x :: rest)).
    change (shape x :: map shape rest) with (map shape (x :: rest)). rewrite !map_map.
    apply zsum_map_ext. intros b Hb. cbn [aslice shape]. apply (cs_slice_ax ax sl (shape x) Hax' Hcolon). apply Hgood. exact Hb. }
  assert (Hsumnn : 0 <= zsum (map (fun t => nth ax t 0) (shape x :: map shape rest))).
  { apply zsum_nonneg. apply Forall_forall. intros v Hv. apply in_map_iff in Hv. destruct Hv as (t & <- & Ht).
    change (shape x :: map shape rest) with (map shape (x :: rest)) in Ht. apply in_map_iff in Ht.
    destruct Ht as (b & <- & Hb). apply (Hgood b Hb). }
  split; cbn [aslice aconcat shape get].
  - apply list_eq_nth0.
    + rewrite sl_shape_length by (rewrite concat_shape_length; exact Hl).
      rewrite !concat_shape_length. rewrite sl_shape_length by exact Hl. reflexivity.
    + intros k Hk. rewrite sl_shape_length in Hk by (rewrite concat_shape_length; exact Hl). rewrite concat_shape_length in Hk.
      rewrite sl_shape_nth by lia. rewrite concat_shape_nth by exact Hax.
      rewrite concat_shape_nth by (rewrite sl_shape_length by exact Hl; exact Hax).
      destruct (Nat.eqb k ax) eqn:E.
      * apply Nat.eqb_eq in E. subst k. rewrite Hcolon, Hsum. apply slice_len_colon. exact Hsumnn.
      * rewrite sl_shape_nth by lia. reflexivity.
  - intros out Ho.
    apply in_bounds_iff_nth in Ho. destruct Ho as [Hlo Ho].
    rewrite sl_shape_length in * by (rewrite concat_shape_length; exact Hl). rewrite concat_shape_length in *.
    apply (concat_slice_get ax sl (shape x) Hax' Hcolon).
    + apply Hgood. left. reflexivity.
    + apply Forall_forall. intros b Hb. apply Hgood. right. exact Hb.
    + repeat split.
      * apply sl_src_length. lia.
      * lia.
      * intros k Hk. rewrite sl_src_nth by exact Hk. rewrite concat_shape_nth by exact Hax.
        destruct (Nat.eqb k ax) eqn:E; [|reflexivity].
        apply Nat.eqb_eq in E. subst k. rewrite Hcolon. apply nthZ_sel_colon.
        specialize (Ho ax Hax). rewrite sl_shape_nth in Ho by exact Hax'. rewrite concat_shape_nth, Nat.eqb_refl in Ho by exact Hax.
        rewrite Hcolon, slice_len_colon in Ho by exact Hsumnn. exact Ho.
    + specialize (Ho ax Hax). rewrite sl_shape_nth in Ho by exact Hax'. rewrite concat_shape_nth, Nat.eqb_refl in Ho by exact Hax.
      rewrite Hcolon, slice_len_colon in Ho by exact Hsumnn. exact Ho.
Qed.

Theorem eval_slice_concat ax sl ps s r :
  pshape (PConcat ax ps) = Some s -> length sl = length s -> nth ax sl colon = colon ->
  eval (PSlice (map ISlice sl) (PConcat ax ps)) = Some r ->
  eval (PConcat ax (map (fun p => PSlice (map ISlice sl) p) ps)) = Some r.
Proof.
  intros Hp Hl Hcolon H.
  destruct (eval_un_n_inv (OSlice (map ISlice sl)) (NConcat ax) ps r eq_refl (congr_slice _) H) as (l & El & Hwf & Hnok & Hok & ->).
  assert (s = n_shape (NConcat ax) (map nshape l)) as Hs.
  { assert (eval (PConcat ax ps) = Some (to_nd (n_arr (NConcat ax) (map of_nd l)))) as Ec
      by (cbn [eval]; rewrite El; unfold n_eval; rewrite Hnok; reflexivity).
    apply eval_some_pshape in Ec. rewrite Hp in Ec. injection Ec as ->.
    change (shape (n_arr (NConcat ax) (map of_nd l)) = n_shape (NConcat ax) (map nshape l)).
    rewrite n_arr_shape, map_map. reflexivity. }
  subst s. destruct l as [|a rest]; [discriminate|].
  cbn [map] in Hnok, Hok, Hl. cbn [n_shape] in Hok, Hl. rewrite concat_shape_length in Hl.
  pose proof Hnok as Hnok'. apply n_ok_concat_agree in Hnok'. destruct Hnok' as [Hax Hag].
  cbn [un_ok] in Hok. rewrite ixokb_sl in Hok by (rewrite concat_shape_length; exact Hl).
  change (map (fun p => PSlice (map ISlice sl) p) ps) with (map (PUn (OSlice (map ISlice sl))) ps).
  rewrite (eval_n_un_intro (OSlice (map ISlice sl)) (NConcat ax) ps (a :: rest) eq_refl (congr_concat ax) El Hwf).
  - f_equal. apply to_nd_ext. apply aeq_sym. cbn [un_arr n_arr map].
    rewrite <- (map_map of_nd (aslice (map ISlice sl))).
    apply concat_slice_arr; cbn [of_nd shape]; try assumption.
    + apply Forall_forall. intros b Hb. apply in_map_iff in Hb. destruct Hb as (c & <- & Hc).
      rewrite Forall_forall in Hag. apply (Hag (nshape c) (in_map nshape _ _ Hc)).
    + apply Forall_forall. intros b Hb. change (of_nd a :: map of_nd rest) with (map of_nd (a :: rest)) in Hb.
      apply in_map_iff in Hb. destruct Hb as (c & <- & Hc). rewrite Forall_forall in Hwf. apply (Hwf c Hc).
  - apply forallb_forall. intros b Hb. cbn [un_ok]. rewrite ixokb_sl; [exact Hok|].
    destruct Hb as [<-|Hb]; [exact Hl|]. rewrite Forall_forall in Hag.
    destruct (Hag (nshape b) (in_map nshape _ _ Hb)) as [Hlb _]. lia.
  - cbn [map]. apply n_ok_concat_agree. cbn [un_shape]. split; [rewrite sl_shape_length by exact Hl; exact Hax|].
    apply Forall_forall. intros t Ht. apply in_map_iff in Ht. destruct Ht as (b & <- & Hb).
    rewrite Forall_forall in Hag. destruct (Hag (nshape b) (in_map nshape _ _ Hb)) as [Hlb Hob].
    split; [rewrite !sl_shape_length by lia; exact Hlb|].
    intros k Hk. destruct (Nat.lt_ge_cases k (length sl)) as [Hlt|Hge].
    + rewrite !sl_shape_nth by exact Hlt. rewrite (Hob k Hk). reflexivity.
    + rewrite !nth_overflow by (rewrite sl_shape_length by lia; lia). reflexivity.
Qed.
