(* C12 (fancy path) — indexing one axis with a ONE-DIMENSIONAL integer list / ndarray:
   `x[:, [3, 0, 3, 5]]`, `da.take(x, idx, axis)`.  Definitions only.

   Anchors in /repo/dask_array:
     slicing/_utils.py   check_index (list branch), posify_index, normalize_index
     slicing/_basic.py   slice_wrap_lists (empty list -> slice(0, 0, 1)), take (identity no-op,
                         _compute_indexer, _shuffle)
     slicing/_vindex.py  _compute_indexer
     _shuffle.py         Shuffle._chunk_size_limit, Shuffle._new_chunks (= Transfer2.nc_loop),
                         Shuffle.chunks, Shuffle._layer

   Everything happens along ONE axis: `chunks` is x.chunks[axis] (of the array the take is
   applied to), `d = sum(chunks)`, `idx` the user's list.  The other axes pass through
   unchanged (the harness checks that the other key coordinates of every task are copied).
   Spec-side vocabulary (nonneg_chunks, py_nth, in_block, plan_read, pair_ok, unsplit ...) is at
   the end. *)
From Coq Require Import ZArith List Bool.
From DA Require Import PyBase Transfer2.
Import ListNotations.
Open Scope Z_scope.

(* ---------------------------------------------------------------------- *)
(* normalisation: normalize_index on a list entry *)

(* check_index:  elif (ind >= dimension).any() or (ind < -dimension).any(): raise IndexError
   posify_index: np.where(ind < 0, ind + shape, ind)
   None = IndexError.  (sanitize_index is the identity on integer lists.) *)
Definition take_normalize (d : Z) (idx : list Z) : option (list Z) :=
  if existsb (fun i => d <=? i) idx || existsb (fun i => i <? - d) idx then None
  else Some (map (fun i => if i <? 0 then i + d else i) idx).

(* ---------------------------------------------------------------------- *)
(* locating an element *)

(* np.searchsorted(np.cumsum(chunks), i, side="right")
   (= np.searchsorted(np.cumsum((0,) + chunks)[1:], i, side="right") of _compute_indexer) *)
Definition take_block (chunks : list Z) (i : Z) : Z := bisect_right (cumsum chunks) i.

(* Shuffle._layer:  chunk_boundaries[c - 1] if c > 0 else 0 *)
Definition take_start (chunks : list Z) (c : Z) : Z :=
  if 0 <? c then nthZ (cumsum chunks) (c - 1) else 0.

(* (input block number along the axis, local offset inside it) of global position i *)
Definition take_pair (chunks : list Z) (i : Z) : Z * Z :=
  let c := take_block chunks i in (c, i - take_start chunks c).

(* ---------------------------------------------------------------------- *)
(* _compute_indexer(index, chunks_along_axis): consecutive runs of indices that fall into the
   same input chunk.
     input_chunk_ids = searchsorted(boundaries[1:], index, "right")
     changes = [0] ++ (where(diff(input_chunk_ids) != 0) + 1) ++ [len(index)]
     [index[changes[i] : changes[i + 1]] for i in range(len(changes) - 1)]
   (an empty index gives the single empty run [[]]) *)
Fixpoint take_runs (chunks : list Z) (index : list Z) : list (list Z) :=
  match index with
  | [] => []
  | i :: t =>
      match take_runs chunks t with
      | (j :: g) :: gs =>
          if take_block chunks i =? take_block chunks j then (i :: j :: g) :: gs
          else [i] :: (j :: g) :: gs
      | _ => [[i]]
      end
  end.

Definition compute_indexer (chunks : list Z) (index : list Z) : list (list Z) :=
  match index with [] => [[]] | _ => take_runs chunks index end.

(* Shuffle._chunk_size_limit = max(self.array.chunks[self.axis]) (chunks is never empty) *)
Definition take_limit (chunks : list Z) : Z :=
  match chunks with [] => 0 | c :: t => fold_left Z.max t c end.

(* ---------------------------------------------------------------------- *)
(* which node x[..., idx, ...] builds along the axis *)

Inductive take_route :=
| TRError                       (* IndexError from normalize_index *)
| TREmptySlice                  (* empty list: slice_wrap_lists replaces it by slice(0, 0, 1) *)
| TRIdentity                    (* take: index == arange(x.shape[axis]) -> x itself *)
| TRShuffle (index : list Z) (indexer new_chunks : list (list Z)).
                                (* Shuffle(x, indexer, axis); ._new_chunks *)

(* list(range(n)) *)
Definition arange (n : Z) : list Z := zrange 0 n 1.

Definition take_route_of (chunks : list Z) (idx : list Z) : take_route :=
  let d := zsum chunks in
  match take_normalize d idx with
  | None => TRError
  | Some index =>
      match index with
      | [] => TREmptySlice                                        (* not index.size *)
      | _ =>
          if (zlen index =? d) && zlist_eqb index (arange d)      (* abs(index - arange).sum() == 0 *)
          then TRIdentity
          else let indexer := compute_indexer chunks index in
               TRShuffle index indexer (nc_loop (take_limit chunks) indexer [] [])
      end
  end.

(* l cut into consecutive pieces of lengths cs *)
Fixpoint split_by {A} (cs : list Z) (l : list A) : list (list A) :=
  match cs with
  | [] => []
  | c :: t => firstn (Z.to_nat c) l :: split_by t (skipn (Z.to_nat c) l)
  end.

(* the OUTPUT blocks along the axis, each as the list of (normalised) global positions of
   the input axis it holds, in order:
     Shuffle       : _new_chunks
     identity      : the input blocks themselves
     empty list    : one block of length 0 (new_blockdim of slice(0, 0, 1) is (0,)) *)
Definition take_groups (chunks : list Z) (idx : list Z) : option (list (list Z)) :=
  match take_route_of chunks idx with
  | TRError => None
  | TREmptySlice => Some [[]]
  | TRIdentity => Some (split_by chunks (arange (zsum chunks)))
  | TRShuffle _ _ nc => Some nc
  end.

(* Shuffle.chunks along the axis: tuple(map(len, self._new_chunks)) *)
Definition take_out_chunks (chunks : list Z) (idx : list Z) : option (list Z) :=
  match take_groups chunks idx with
  | None => None
  | Some gs => Some (map (fun g => zlen g) gs)
  end.

(* per output block, in output order: the (input block, local offset) read for every element.
   Shuffle._layer: each element i of the output chunk `taker` is read from input block
   c = searchsorted(chunk_boundaries, i, "right") at local offset i - (boundaries[c-1] | 0);
   the split tasks read them sorted and the merge undoes the sort with argsort(sorter), so
   that output position k holds element taker[k]. *)
Definition take_plan (chunks : list Z) (idx : list Z) : option (list (list (Z * Z))) :=
  match take_groups chunks idx with
  | None => None
  | Some gs => Some (map (map (take_pair chunks)) gs)
  end.

(* ---------------------------------------------------------------------- *)
(* the split tasks of Shuffle._layer for one output chunk `taker`:
     sorted_array = taker[argsort(taker)]
     source_chunk_nr, taker_boundary = np.unique(searchsorted(chunk_boundaries, sorted_array, "right"),
                                                 return_index=True)
     for c, b_start, b_end in zip(source_chunk_nr, ...):
         getitem(block c, sorted_array[b_start:b_end] - (chunk_boundaries[c - 1] if c > 0 else 0))
   i.e. one task per distinct source block, in ascending block order, each reading the sorted
   local offsets (with repetitions). *)
Fixpoint insert_sorted (x : Z) (l : list Z) : list Z :=
  match l with
  | [] => [x]
  | y :: t => if x <=? y then x :: y :: t else y :: insert_sorted x t
  end.
Definition sort_z (l : list Z) : list Z := fold_right insert_sorted [] l.

(* consecutive runs of a list of pairs with equal first component: (c, seconds) *)
Fixpoint group_fst (l : list (Z * Z)) : list (Z * list Z) :=
  match l with
  | [] => []
  | (c, o) :: t =>
      match group_fst t with
      | (c', os) :: gs => if c =? c' then (c, o :: os) :: gs else (c, [o]) :: (c', os) :: gs
      | [] => [(c, [o])]
      end
  end.

(* if len(source_chunk_nr) == 1: this_slice[axis] = this_slice[axis][np.argsort(sorter)]
   -- a single source block is read directly in OUTPUT order and there is no merge task *)
Definition take_splits_of (chunks : list Z) (taker : list Z) : list (Z * list Z) :=
  match group_fst (map (take_pair chunks) (sort_z taker)) with
  | [(c, _)] => [(c, map (fun i => i - take_start chunks c) taker)]
  | gs => gs
  end.

Definition take_splits (chunks : list Z) (idx : list Z) : option (list (list (Z * list Z))) :=
  match take_route_of chunks idx with
  | TRShuffle _ _ nc => Some (map (take_splits_of chunks) nc)
  | _ => None
  end.

(* ====================================================================== *)
(* specification side *)

(* chunk layouts of the axis: zero-size chunks allowed / excluded *)
Definition nonneg_chunks (chunks : list Z) : Prop := Forall (fun c => 0 <= c) chunks.
Definition pos_chunks (chunks : list Z) : Prop := Forall (fun c => 0 < c) chunks.

(* Python's l[i] for -len(l) <= i < len(l) *)
Definition py_nth {A} (dflt : A) (l : list A) (i : Z) : A :=
  nth (Z.to_nat (if i <? 0 then i + zlen l else i)) l dflt.

(* block b of a list laid out with `chunks`: l[sum(chunks[:b]) : sum(chunks[:b]) + chunks[b]] *)
Definition in_block {A} (chunks : list Z) (l : list A) (b : Z) : list A :=
  firstn (Z.to_nat (nthZ chunks b)) (skipn (Z.to_nat (zsum (firstn (Z.to_nat b) chunks))) l).

(* what a plan reads: for every output block the elements at its (block, offset) pairs *)
Definition plan_read {A} (dflt : A) (chunks : list Z) (l : list A) (plan : list (list (Z * Z)))
  : list (list A) :=
  map (map (fun p => nth (Z.to_nat (snd p)) (in_block chunks l (fst p)) dflt)) plan.

(* a pair is inside its input block *)
Definition pair_ok (chunks : list Z) (p : Z * Z) : Prop :=
  0 <= fst p < zlen chunks /\ 0 <= snd p < nthZ chunks (fst p).
Definition pair_ok_b (chunks : list Z) (p : Z * Z) : bool :=
  (0 <=? fst p) && (fst p <? zlen chunks) && (0 <=? snd p) && (snd p <? nthZ chunks (fst p)).

(* index i is acceptable to NumPy on an axis of length d *)
Definition np_in_range (d i : Z) : Prop := - d <= i < d.
(* the position NumPy reads for it *)
Definition np_pos (d i : Z) : Z := if i <? 0 then i + d else i.

(* the (input block, local offset) pairs a list of split tasks reads, task after task *)
Definition unsplit (sp : list (Z * list Z)) : list (Z * Z) :=
  flat_map (fun s => map (fun o => (fst s, o)) (snd s)) sp.

(* boolean checkers used by the correspondence harness *)
Definition pair_eqb (a b : Z * Z) : bool := (fst a =? fst b) && (snd a =? snd b).
Definition split_eqb (a b : Z * list Z) : bool := (fst a =? fst b) && zlist_eqb (snd a) (snd b).
