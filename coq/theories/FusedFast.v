(* FusedFast — executable model of the FAST PATHS of the pure-Python FusedBlockwiseLayer
   (/repo/dask_array/_frisky/fused_blockwise.py): the DECISION ("is the fused subgraph
   block-independent, up to source blocks / lifted literals?", taken on a few PROBE blocks) and
   the GENERATION (one shared subgraph + per-block source slots / seeds made by arithmetic).

   DEFINITIONS ONLY; the proofs are in FusedFastFacts.v, the statements in Properties/C21.v.

   Abstractions (all of them are what harness/c21.py reifies from the real objects):
   * a block id is a `list Z`, a grid is `numblocks : list Z`;
   * the fused task of one output block, `e._task((name, *bid), bid)`, is the record `task`:
       t_ok      func is _execute_subgraph and len(args) >= 3
       t_nodes   the canonical subgraph of `_canon_fingerprint` (internal keys renamed to their
                 expression name, external inputs to ("__in__", source)), as a list of nodes
                 SORTED by canonical key: (func identity, canonical args, canonical kwargs);
                 two blocks fingerprint equal iff these lists (and t_out) are equal
       t_out     the canonical output key
       t_inkeys  args[2]: the external source blocks (source name, block coords) in order
       t_sites   `_walk_sites(args[0], args[1], set(args[2]))`: the external-input reference
                 SITES in depth-first order (None: outkey not in the subgraph)
       t_deps    task.dependencies
   * names (sources, inner expressions) are `positive` tags numbered in the order of their
     STRINGS (so Pos.leb is the order `sorted(..., key=str(k[0]))` uses); functions and opaque
     leaves are `positive` tags (same object / equal simple value <-> same tag); tag 1 of `LVal`
     is reserved for the hole of `_hole_fingerprint`;
   * `_canonical` (Tasks, used by _seed_spec) and `_canon_fingerprint` are represented by the
     same `t_nodes`: an int-structured argument is the same in both. *)
From Coq Require Import ZArith List Bool PArith Arith.
Import ListNotations.
Open Scope Z_scope.

(* ------------------------------------------------------------------------- *)
(** * Blocks and grids *)
Definition block := list Z.

(* range(n) *)
Definition range0 (n : Z) : list Z := map Z.of_nat (seq 0 (Z.to_nat n)).

Definition zero_block (nb : list Z) : block := map (fun _ => 0) nb.

(* b = list(zero); b[i] = v *)
Fixpoint set_nth (i : nat) (v : Z) (b : block) : block :=
  match b with
  | [] => []
  | x :: t => match i with O => v :: t | S i' => x :: set_nth i' v t end
  end.

Fixpoint enum_from {A} (i : nat) (l : list A) : list (nat * A) :=
  match l with [] => [] | x :: t => (i, x) :: enum_from (S i) t end.

(* itertools.product of range(n) for n in numblocks *)
Fixpoint all_blocks (nb : list Z) : list block :=
  match nb with
  | [] => [[]]
  | n :: t => flat_map (fun i => map (cons i) (all_blocks t)) (range0 n)
  end.

(* FusedBlockwiseLayer._probe_blocks (a Python set: compare as sets) *)
Definition probe_axis (zero : block) (p : nat * Z) : list block :=
  let '(i, n) := p in
  if 1 <? n then [set_nth i (n - 1) zero; set_nth i (n / 2) zero] else [].

Definition probe_blocks (nb : list Z) : list block :=
  let zero := zero_block nb in
  [zero; map (fun n => n - 1) nb]
  ++ flat_map (probe_axis zero) (enum_from 0 nb)
  ++ [map (fun p : nat * Z => Z.min (Z.of_nat (fst p)) (snd p - 1)) (enum_from 0 nb)].

(* ------------------------------------------------------------------------- *)
(** * Canonical literals (`_canon_arg`) *)
Inductive skind := KTuple | KList | KDict (keys : positive).
Inductive label := BNode (n : positive) | BIn (s : positive) | BKey (k : positive).
Inductive lit :=
| LInt (z : Z)                 (* ("val", int, z) *)
| LVal (t : positive)          (* ("val", type, a) for bool/float/str/bytes/None; ("id", id(a)) *)
| LRef (l : label)             (* ("ref", renamed key) *)
| LSeq (k : skind) (l : list lit).

Definition skind_eqb (a b : skind) : bool :=
  match a, b with
  | KTuple, KTuple => true | KList, KList => true
  | KDict x, KDict y => Pos.eqb x y
  | _, _ => false
  end.

Definition label_eqb (a b : label) : bool :=
  match a, b with
  | BNode x, BNode y => Pos.eqb x y
  | BIn x, BIn y => Pos.eqb x y
  | BKey x, BKey y => Pos.eqb x y
  | _, _ => false
  end.

Fixpoint lit_eqb (a b : lit) : bool :=
  match a, b with
  | LInt x, LInt y => Z.eqb x y
  | LVal s, LVal t => Pos.eqb s t
  | LRef l, LRef m => label_eqb l m
  | LSeq k l, LSeq k' l' =>
      skind_eqb k k' &&
      (fix go (l l' : list lit) : bool :=
         match l, l' with
         | [], [] => true
         | x :: t, y :: t' => lit_eqb x y && go t t'
         | _, _ => false
         end) l l'
  | _, _ => false
  end.

Fixpoint list_eqb {A} (eqb : A -> A -> bool) (a b : list A) : bool :=
  match a, b with
  | [], [] => true
  | x :: t, y :: t' => eqb x y && list_eqb eqb t t'
  | _, _ => false
  end.

Fixpoint memb {A} (eqb : A -> A -> bool) (x : A) (l : list A) : bool :=
  match l with [] => false | y :: t => eqb x y || memb eqb x t end.

(* len(set(l)) *)
Fixpoint dedup {A} (eqb : A -> A -> bool) (l : list A) : list A :=
  match l with
  | [] => []
  | x :: t => if memb eqb x t then dedup eqb t else x :: dedup eqb t
  end.
Definition ndistinct {A} (eqb : A -> A -> bool) (l : list A) : nat := length (dedup eqb l).

(* set(a) == set(b) *)
Definition set_eqb {A} (eqb : A -> A -> bool) (a b : list A) : bool :=
  forallb (fun x => memb eqb x b) a && forallb (fun x => memb eqb x a) b.

(* sorted(a) == sorted(b) for a total order: equality as multisets *)
Fixpoint remove1 {A} (eqb : A -> A -> bool) (x : A) (l : list A) : option (list A) :=
  match l with
  | [] => None
  | y :: t => if eqb x y then Some t else option_map (cons y) (remove1 eqb x t)
  end.
Fixpoint perm_eqb {A} (eqb : A -> A -> bool) (a b : list A) : bool :=
  match a with
  | [] => match b with [] => true | _ => false end
  | x :: t => match remove1 eqb x b with Some b' => perm_eqb eqb t b' | None => false end
  end.

(* ------------------------------------------------------------------------- *)
(** * Tasks, layers *)
Record node := mknode { n_key : positive; n_func : positive; n_args : list lit; n_kwargs : lit }.

Definition node_eqb (a b : node) : bool :=
  Pos.eqb (n_key a) (n_key b) && Pos.eqb (n_func a) (n_func b)
  && list_eqb lit_eqb (n_args a) (n_args b) && lit_eqb (n_kwargs a) (n_kwargs b).

Definition site := (positive * list Z)%type.          (* (source name, block coords): a key *)
Definition slot := (nat * list Z)%type.               (* (index into dep_names, block coords) *)

Definition site_eqb (a b : site) : bool := Pos.eqb (fst a) (fst b) && list_eqb Z.eqb (snd a) (snd b).
Definition slot_eqb (a b : slot) : bool := Nat.eqb (fst a) (fst b) && list_eqb Z.eqb (snd a) (snd b).

Record task := mktask {
  t_ok : bool;
  t_nodes : list node;
  t_out : label;
  t_inkeys : list site;
  t_sites : option (list site);
  t_deps : list site }.

Record layer := mklayer {
  l_nb : list Z;                         (* e.numblocks *)
  l_deps : list positive;                (* [d._name for d in e.dependencies()] *)
  l_dep_nb : list (list Z);              (* [d.numblocks for d in e.dependencies()] *)
  l_chunks : list (option (list Z));     (* _axis_chunks(): None = an unknown size on that axis *)
  l_task : block -> task }.              (* bid |-> e._task((e._name, *bid), bid) *)

(* `_canon_fingerprint(t) == canon0` *)
Definition canon_eqb (t t0 : task) : bool :=
  list_eqb node_eqb (t_nodes t) (t_nodes t0) && label_eqb (t_out t) (t_out t0).

(* The block-independence test exactly as far as the code performs it: on the probe blocks. *)
Definition independence_test (L : layer) : bool :=
  let t0 := l_task L (zero_block (l_nb L)) in
  forallb (fun b => canon_eqb (l_task L b) t0) (probe_blocks (l_nb L)).

(* dep_idx = {name: i for i, name in enumerate(dep_names)} ; dep_idx.get(s)  (the last one wins) *)
Fixpoint dep_index (names : list positive) (s : positive) (i : nat) : option nat :=
  match names with
  | [] => None
  | x :: t => match dep_index t s (S i) with
              | Some j => Some j
              | None => if Pos.eqb x s then Some i else None
              end
  end.

Fixpoint all_some {A} (l : list (option A)) : option (list A) :=
  match l with
  | [] => Some []
  | None :: _ => None
  | Some x :: t => option_map (cons x) (all_some t)
  end.

(* _dep_slot(key, dep_idx) *)
Definition dep_slot (names : list positive) (k : site) : option slot :=
  match dep_index names (fst k) 0 with Some i => Some (i, snd k) | None => None end.
Definition dep_slots (names : list positive) (ks : list site) : option (list slot) :=
  all_some (map (dep_slot names) ks).

(* _dep_key(dep_names, slot): the key (dep_names[dep_idx], *coord) whose str() is the dependency *)
Definition dep_key (names : list positive) (s : slot) : site := (nth (fst s) names 1%positive, snd s).

(* ------------------------------------------------------------------------- *)
(** * Projections (`_analytical_site_spec`, `_seed_spec`) *)
Inductive pcoord := PConst (c : Z) | PBid (o : nat).
Definition proj := (nat * list pcoord)%type.

Definition pcoord_eqb (a b : pcoord) : bool :=
  match a, b with
  | PConst x, PConst y => Z.eqb x y
  | PBid x, PBid y => Nat.eqb x y
  | _, _ => false
  end.
Definition proj_eqb (a b : proj) : bool := Nat.eqb (fst a) (fst b) && list_eqb pcoord_eqb (snd a) (snd b).

(* bid[co] if kind == "bid" else co *)
Definition apply_pcoord (b : block) (p : pcoord) : Z :=
  match p with PConst c => c | PBid o => nth o b 0 end.
Definition apply_proj (b : block) (p : proj) : slot := (fst p, map (apply_pcoord b) (snd p)).

(* for d, (cv, bv) in enumerate(zip(base_coord, bumped_coord)): ... proj[j][d] = ("bid", o) *)
Fixpoint bump_row (o : nat) (base bumped : list Z) (row : list pcoord) : option (list pcoord) :=
  match base, bumped, row with
  | cv :: base', bv :: bumped', r :: row' =>
      if Z.eqb bv cv then option_map (cons r) (bump_row o base' bumped' row')
      else if Z.eqb (bv - cv) 1 then option_map (cons (PBid o)) (bump_row o base' bumped' row')
      else None                                         (* non-index-preserving map *)
  | _, _, _ => Some row
  end.

(* for j in range(n_sites): the site's source must be stable; then the row *)
Fixpoint bump_sites (o : nat) (sites0 sites : list site) (rows : list (list pcoord))
  : option (list (list pcoord)) :=
  match sites0, sites, rows with
  | k0 :: sites0', k :: sites', row :: rows' =>
      if negb (Pos.eqb (fst k) (fst k0)) then None
      else match bump_row o (snd k0) (snd k) row with
           | None => None
           | Some row2 => option_map (cons row2) (bump_sites o sites0' sites' rows')
           end
  | _, _, _ => Some rows
  end.

(* one round of `for o in range(len(nb))`; `extra` is the additional canonical-key check that
   only _seed_spec makes on the bumped task *)
Definition infer_step (L : layer) (extra : task -> bool) (sites0 : list site)
           (acc : option (list (list pcoord))) (on : nat * Z) : option (list (list pcoord)) :=
  match acc with
  | None => None
  | Some rows =>
      if snd on <=? 1 then Some rows
      else
        let t := l_task L (set_nth (fst on) 1 (zero_block (l_nb L))) in
        if negb (t_ok t) then None
        else match t_sites t with
             | None => None
             | Some sites =>
                 if negb (Nat.eqb (length sites) (length sites0)) then None
                 else match bump_sites (fst on) sites0 sites rows with
                      | None => None
                      | Some rows2 => if extra t then Some rows2 else None
                      end
             end
  end.

(* proj = [[("const", int(c)) for c in k[1:]] for k in sites0], then the bumps *)
Definition infer_proj (L : layer) (extra : task -> bool) (sites0 : list site)
  : option (list (list pcoord)) :=
  fold_left (infer_step L extra sites0) (enum_from 0 (l_nb L))
            (Some (map (fun k : site => map PConst (snd k)) sites0)).

(* sorted((dep_idx[k[0]], coords) for k in sites) == sorted(block_slots(bid)) *)
Definition sites_match (names : list positive) (want : list slot) (sites : list site) : bool :=
  match dep_slots names sites with
  | Some actual => perm_eqb slot_eqb want actual
  | None => false                                       (* KeyError in the real code: never seen *)
  end.

(* ------------------------------------------------------------------------- *)
(** * The shared callable and the two kinds of spec *)
(* _FusedSubgraph(subgraph, outkey, inkeys): the subgraph / outkey of block `sh_block`, the
   source inkeys in the order `sh_inkeys`; the args (kc, ai) in `sh_holes` are replaced by
   TaskRef(("__seed__", k)) and the seed keys are appended to the inkeys. *)
Record shared := mkshared { sh_block : block; sh_inkeys : list site; sh_holes : list (positive * nat) }.

Inductive tmpl := TConst (v : Z) | TBid (o : nat) | TChunk (a : nat) | TSeq (tuple : bool) (l : list tmpl).

Inductive spec :=
| ProjSpec (sh : shared) (projs : list proj) (tmpls : list tmpl)      (* _ProjSpec *)
| MatSpec (sh : shared) (slots : list (list slot)).                   (* _MatSpec (seed_slots = []) *)

(* lexicographic order of int tuples; (str(k[0]), coords) with names numbered in string order *)
Fixpoint zlist_leb (a b : list Z) : bool :=
  match a, b with
  | [], _ => true
  | _ :: _, [] => false
  | x :: a', y :: b' => if Z.ltb x y then true else if Z.ltb y x then false else zlist_leb a' b'
  end.
Definition site_leb (a b : site) : bool :=
  if Pos.ltb (fst a) (fst b) then true else if Pos.ltb (fst b) (fst a) then false else zlist_leb (snd a) (snd b).
Fixpoint insert_site (x : site) (l : list site) : list site :=
  match l with
  | [] => [x]
  | y :: t => if site_leb x y then x :: l else y :: insert_site x t
  end.
Definition sort_sites (l : list site) : list site := fold_right insert_site [] l.

Fixpoint index_of {A} (eqb : A -> A -> bool) (x : A) (l : list A) : nat :=
  match l with [] => O | y :: t => if eqb x y then O else S (index_of eqb x t) end.

(* the maximal block (projected sites all distinct), its inkeys in the stable order, and the
   projections re-ordered to it: the common tail of _analytical_site_spec and _seed_spec *)
Definition build_maximal (L : layer) (projections : list proj) : option (block * list site * list proj) :=
  let n_sites := length projections in
  match find (fun b => Nat.eqb (ndistinct slot_eqb (map (apply_proj b) projections)) n_sites)
             (all_blocks (l_nb L)) with
  | None => None
  | Some mb =>
      let tm := l_task L mb in
      match t_sites tm with
      | None => None
      | Some sm =>
          if negb (Nat.eqb (ndistinct site_eqb sm) n_sites && set_eqb site_eqb sm (t_inkeys tm)) then None
          else
            let inkeys := sort_sites (t_inkeys tm) in
            Some (mb, inkeys, map (fun ik => nth (index_of site_eqb ik sm) projections (O, [])) inkeys)
      end
  end.

(* ------------------------------------------------------------------------- *)
(** * _analytical_site_spec *)
Definition analytical_probe_ok (L : layer) (t0 : task) (projections : list proj) (b : block) : bool :=
  let t := l_task L b in
  t_ok t && canon_eqb t t0 &&
  match t_sites t with
  | None => false
  | Some sites => sites_match (l_deps L) (map (apply_proj b) projections) sites
  end.

Definition analytical (L : layer) : option spec :=
  if Nat.eqb (length (l_nb L)) 0 then None       (* if not numblocks *)
  else
    let t0 := l_task L (zero_block (l_nb L)) in
    if negb (t_ok t0) then None else
    match t_sites t0 with
    | None | Some [] => None
    | Some sites0 =>
      match all_some (map (fun k : site => dep_index (l_deps L) (fst k) 0) sites0) with
      | None => None
      | Some idx0 =>
        match infer_proj L (fun _ => true) sites0 with
        | None => None
        | Some rows =>
          let projections := combine idx0 rows in
          if negb (Nat.eqb (ndistinct proj_eqb projections) (length sites0)) then None else
          if negb (forallb (analytical_probe_ok L t0 projections) (probe_blocks (l_nb L))) then None else
          match build_maximal L projections with
          | None => None
          | Some (mb, inkeys, ordered) => Some (ProjSpec (mkshared mb inkeys []) ordered [])
          end
        end
      end
    end.

(* ------------------------------------------------------------------------- *)
(** * _fast_spec_uniform *)
(* _broadcast_block_id(numblocks, block_id) *)
Definition broadcast_block_id (snb : list Z) (b : block) : list Z :=
  map (fun p : nat * Z => if Z.eqb (snd p) 1 then 0 else nth (length b - length snb + fst p) b 0)
      (enum_from 0 snb).

(* _broadcast_spec: (dep_idx, source name, source numblocks) per inkey of block 0 *)
Definition broadcast_spec (L : layer) (inkeys0 : list site) : option (list (nat * positive * list Z)) :=
  all_some (map (fun k : site => match dep_index (l_deps L) (fst k) 0 with
                                 | Some i => Some (i, fst k, nth i (l_dep_nb L) [])
                                 | None => None end) inkeys0).

Definition validate_broadcast (L : layer) (t0 : task) (sources : list (nat * positive * list Z)) : bool :=
  forallb (fun b =>
             let t := l_task L b in
             t_ok t
             && set_eqb site_eqb (map (fun s : nat * positive * list Z => (snd (fst s), broadcast_block_id (snd s) b)) sources)
                        (t_deps t)
             && canon_eqb t t0)
          (probe_blocks (l_nb L)).

(* the exact per-block loop of the non-broadcast branch: slots read off each block, re-ordered
   to block 0's labels *)
Fixpoint assoc_site {B} (s : positive) (l : list (positive * B)) : option B :=
  match l with [] => None | (x, v) :: t => if Pos.eqb x s then Some v else assoc_site s t end.

Definition uniform_block_slots (L : layer) (labels0 : list positive) (b : block) : option (list slot) :=
  let t := l_task L b in
  if negb (t_ok t) then None else
  let labels := map (fun k : site => fst k) (t_inkeys t) in
  if negb (Nat.eqb (ndistinct Pos.eqb labels) (length labels)) then None else
  if negb (set_eqb Pos.eqb labels labels0) then None else
  if negb (set_eqb site_eqb (t_inkeys t) (t_deps t)) then None else
  match dep_slots (l_deps L) (t_inkeys t) with
  | None => None
  | Some slots => all_some (map (fun lb => assoc_site lb (combine labels slots)) labels0)
  end.

Definition uniform (L : layer) : option spec :=
  if Nat.eqb (length (l_nb L)) 0 then None       (* if not numblocks *)
  else
    let zero := zero_block (l_nb L) in
    let t0 := l_task L zero in
    if negb (t_ok t0) then None else
    let inkeys0 := t_inkeys t0 in
    let labels0 := map (fun k : site => fst k) inkeys0 in
    if negb (Nat.eqb (ndistinct Pos.eqb labels0) (length labels0)) then None else
    let sh := mkshared zero inkeys0 [] in
    match (match broadcast_spec L inkeys0 with
           | Some sources => if validate_broadcast L t0 sources then Some sources else None
           | None => None end) with
    | Some sources =>
        Some (MatSpec sh (map (fun b => map (fun s : nat * positive * list Z => (fst (fst s), broadcast_block_id (snd s) b)) sources)
                              (all_blocks (l_nb L))))
    | None =>
        if negb (forallb (fun b => canon_eqb (l_task L b) t0) (probe_blocks (l_nb L))) then None else
        match all_some (map (uniform_block_slots L labels0) (all_blocks (l_nb L))) with
        | None => None
        | Some slots => Some (MatSpec sh slots)
        end
    end.

(* ------------------------------------------------------------------------- *)
(** * _site_based_spec *)
Definition site_probe_ok (L : layer) (t0 : task) (n_sites : nat) (b : block) : bool :=
  let t := l_task L b in
  t_ok t && canon_eqb t t0 &&
  match t_sites t with Some sites => Nat.eqb (length sites) n_sites | None => false end.

Definition site_block_slots (L : layer) (n_sites : nat) (b : block) : option (list slot) :=
  let t := l_task L b in
  if negb (t_ok t) then None else
  match t_sites t with
  | None => None
  | Some sites =>
      if negb (Nat.eqb (length sites) n_sites && set_eqb site_eqb sites (t_inkeys t)) then None
      else dep_slots (l_deps L) sites
  end.

Definition site_based (L : layer) : option spec :=
  if Nat.eqb (length (l_nb L)) 0 then None       (* if not numblocks *)
  else
    match all_blocks (l_nb L) with
    | [] => None                                         (* IndexError in the real code: an empty grid *)
    | b0 :: _ =>
      let t0 := l_task L b0 in
      if negb (t_ok t0) then None else
      (* n_sites: the common number of sites of the probe blocks (the first probe met fixes it) *)
      match t_sites (l_task L (zero_block (l_nb L))) with
      | None => None
      | Some s0 =>
        let n_sites := length s0 in
        if negb (forallb (site_probe_ok L t0 n_sites) (probe_blocks (l_nb L))) then None else
        if Nat.eqb n_sites 0 then None else
        match all_some (map (site_block_slots L n_sites) (all_blocks (l_nb L))) with
        | None => None
        | Some slots =>
          match find (fun b => match t_sites (l_task L b) with
                               | Some sites => Nat.eqb (ndistinct site_eqb sites) n_sites
                               | None => false end) (all_blocks (l_nb L)) with
          | None => None
          | Some mb => match t_sites (l_task L mb) with
                       | Some sm => Some (MatSpec (mkshared mb sm []) slots)
                       | None => None end
          end
        end
      end
    end.

(* ------------------------------------------------------------------------- *)
(** * _seed_spec: lifting block-dependent int literals into per-block seeds *)
(* _lit_template *)
Fixpoint lit_template (v : lit) : option tmpl :=
  match v with
  | LInt z => Some (TConst z)
  | LSeq k l =>
      match k with
      | KDict _ => None
      | _ => option_map (TSeq (match k with KTuple => true | _ => false end))
               ((fix go (l : list lit) : option (list tmpl) :=
                   match l with
                   | [] => Some []
                   | x :: t => match lit_template x with
                               | None => None
                               | Some c => option_map (cons c) (go t)
                               end
                   end) l)
      end
  | _ => None
  end.

(* _apply_template(tmpl, bid, chunks) *)
Fixpoint apply_template (chunks : list (option (list Z))) (b : block) (t : tmpl) : lit :=
  match t with
  | TConst v => LInt v
  | TBid o => LInt (nth o b 0)
  | TChunk a => LInt (nth (Z.to_nat (nth a b 0)) (match nth a chunks None with Some ch => ch | None => [] end) 0)
  | TSeq tup l => LSeq (if tup then KTuple else KList) (map (apply_template chunks b) l)
  end.

(* _template_varies *)
Fixpoint template_varies (t : tmpl) : bool :=
  match t with
  | TConst _ => false
  | TBid _ | TChunk _ => true
  | TSeq _ l => existsb template_varies l
  end.

Definition seedkey := (positive * nat)%type.            (* (canonical key, arg index) *)
Definition seedkey_eqb (a b : seedkey) : bool := Pos.eqb (fst a) (fst b) && Nat.eqb (snd a) (snd b).

Definition find_node (k : positive) (ns : list node) : option node := find (fun n => Pos.eqb (n_key n) k) ns.

(* canon[0][ck].args[ai] *)
Definition seed_value (t : task) (s : seedkey) : option lit :=
  match find_node (fst s) (t_nodes t) with
  | Some n => nth_error (n_args n) (snd s)
  | None => None
  end.

(* seed_val0: every int-structured pure-data arg of a canonical inner task of block 0 *)
Definition candidates (t0 : task) : list (seedkey * lit) :=
  flat_map (fun n => flat_map (fun p : nat * lit =>
                                 match lit_template (snd p) with
                                 | Some _ => [((n_key n, fst p), snd p)]
                                 | None => [] end)
                              (enum_from 0 (n_args n)))
           (t_nodes t0).

(* set(canon[0]) == set(canon0[0]) and canon[1] == canon0[1] *)
Definition keyset_eqb (t t0 : task) : bool :=
  set_eqb Pos.eqb (map n_key (t_nodes t)) (map n_key (t_nodes t0)) && label_eqb (t_out t) (t_out t0).

(* the positions scanned along output axis o: the full range for a ragged axis, else (0, 1) *)
Definition scan_positions (L : layer) (o : nat) (n : Z) : list Z :=
  match nth o (l_chunks L) None with
  | Some ch => if Nat.ltb 1 (ndistinct Z.eqb ch) then range0 n else [0; 1]
  | None => [0; 1]
  end.

Definition scan_axes (L : layer) : list (nat * Z) :=
  filter (fun on : nat * Z => 1 <? snd on) (enum_from 0 (l_nb L)).

(* every task the scan reads is well-shaped and has every candidate position *)
Definition scan_ok (L : layer) (t0 : task) (cands : list (seedkey * lit)) : bool :=
  forallb (fun on : nat * Z =>
             forallb (fun j => Z.eqb j 0 ||
                               (let t := l_task L (set_nth (fst on) j (zero_block (l_nb L))) in
                                t_ok t && keyset_eqb t t0 &&
                                forallb (fun c : seedkey * lit =>
                                           match seed_value t (fst c) with Some _ => true | None => false end) cands))
                     (scan_positions L (fst on) (snd on)))
          (scan_axes L).

(* scanned[key][o] *)
Definition scan_series (L : layer) (s : seedkey) (v0 : lit) (on : nat * Z) : list lit :=
  map (fun j => if Z.eqb j 0 then v0
                else match seed_value (l_task L (set_nth (fst on) j (zero_block (l_nb L)))) s with
                     | Some v => v
                     | None => LVal 1
                     end)
      (scan_positions L (fst on) (snd on)).

(* sub[o] = [v[i] for v in series]  (every v a tuple or list that is long enough) *)
Definition project_series (i : nat) (per_axis : list (nat * list lit)) : option (list (nat * list lit)) :=
  all_some (map (fun os : nat * list lit =>
                   option_map (pair (fst os))
                     (all_some (map (fun v => match v with
                                              | LSeq KTuple l | LSeq KList l => nth_error l i
                                              | _ => None end) (snd os))))
                per_axis).

(* _classify_leaf *)
Fixpoint classify_leaf (chunks : list (option (list Z))) (nb : list Z) (node0 : lit)
         (per_axis : list (nat * list lit)) : option tmpl :=
  match node0 with
  | LInt z =>
      match filter (fun os : nat * list lit => existsb (fun v => negb (lit_eqb v (LInt z))) (snd os)) per_axis with
      | [] => Some (TConst z)
      | [(o, series)] =>
          if Nat.eqb (length series) (Z.to_nat (nth o nb 0)) then       (* a full ragged-axis scan *)
            if match nth o chunks None with
               | Some ch => list_eqb lit_eqb series (map LInt ch)
               | None => false end
            then Some (TChunk o)
            else if forallb (fun jv : nat * lit => lit_eqb (snd jv) (LInt (Z.of_nat (fst jv)))) (enum_from 0 series)
                 then Some (TBid o) else None
          else match series with
               | v0 :: v1 :: _ => if lit_eqb v0 (LInt 0) && lit_eqb v1 (LInt 1) then Some (TBid o) else None
               | _ => None
               end
      | _ => None                                     (* depends on more than one output axis *)
      end
  | LSeq k l =>
      match k with
      | KDict _ => None
      | _ => option_map (TSeq (match k with KTuple => true | _ => false end))
               ((fix go (l : list lit) (i : nat) : option (list tmpl) :=
                   match l with
                   | [] => Some []
                   | c :: t =>
                       match project_series i per_axis with
                       | None => None                  (* structure not stable across blocks *)
                       | Some sub =>
                           match classify_leaf chunks nb c sub with
                           | None => None
                           | Some tc => option_map (cons tc) (go t (S i))
                           end
                       end
                   end) l O)
      end
  | _ => None
  end.

(* _classify_seeds: the templates of the candidates that VARY, in sorted key order *)
Definition classify_seeds (L : layer) (t0 : task) (cands : list (seedkey * lit)) : option (list (seedkey * tmpl)) :=
  if negb (scan_ok L t0 cands) then None else
  match all_some (map (fun c : seedkey * lit =>
                         option_map (pair (fst c))
                           (classify_leaf (l_chunks L) (l_nb L) (snd c)
                              (map (fun on : nat * Z => (fst on, scan_series L (fst c) (snd c) on)) (scan_axes L))))
                      cands) with
  | None => None
  | Some ts => Some (filter (fun st : seedkey * tmpl => template_varies (snd st)) ts)
  end.

(* _hole_fingerprint: the lifted positions blanked *)
Definition hole_node (seeds : list seedkey) (n : node) : node :=
  mknode (n_key n) (n_func n)
         (map (fun p : nat * lit => if memb seedkey_eqb (n_key n, fst p) seeds then LVal 1 else snd p)
              (enum_from 0 (n_args n)))
         (n_kwargs n).
Definition hole_eqb (seeds : list seedkey) (t t0 : task) : bool :=
  list_eqb node_eqb (map (hole_node seeds) (t_nodes t)) (map (hole_node seeds) (t_nodes t0))
  && label_eqb (t_out t) (t_out t0).

Definition seed_probe_ok (L : layer) (t0 : task) (projections : list proj) (stm : list (seedkey * tmpl)) (b : block) : bool :=
  let t := l_task L b in
  t_ok t && hole_eqb (map fst stm) t t0 &&
  match t_sites t with
  | None => false
  | Some sites => sites_match (l_deps L) (map (apply_proj b) projections) sites
  end &&
  forallb (fun st : seedkey * tmpl =>
             match seed_value t (fst st) with
             | Some v => lit_eqb (apply_template (l_chunks L) b (snd st)) v
             | None => false end) stm.

Definition seed_spec (L : layer) : option spec :=
  if Nat.eqb (length (l_nb L)) 0 then None       (* if not numblocks *)
  else
    let t0 := l_task L (zero_block (l_nb L)) in
    if negb (t_ok t0) then None else
    match t_sites t0 with
    | None | Some [] => None
    | Some sites0 =>
      match all_some (map (fun k : site => dep_index (l_deps L) (fst k) 0) sites0) with
      | None => None
      | Some idx0 =>
        match infer_proj L (fun t => keyset_eqb t t0) sites0 with
        | None => None
        | Some rows =>
          match classify_seeds L t0 (candidates t0) with
          | None | Some [] => None            (* not liftable / nothing block-dependent to lift *)
          | Some stm =>
            let projections := combine idx0 rows in
            if negb (Nat.eqb (ndistinct proj_eqb projections) (length sites0)) then None else
            if negb (forallb (seed_probe_ok L t0 projections stm) (probe_blocks (l_nb L))) then None else
            match build_maximal L projections with
            | None => None
            | Some (mb, inkeys, ordered) =>
                (* _actual_key is None / ai >= len(task.args) on the maximal block *)
                if negb (forallb (fun st : seedkey * tmpl =>
                                    match seed_value (l_task L mb) (fst st) with Some _ => true | None => false end) stm)
                then None
                else Some (ProjSpec (mkshared mb inkeys (map fst stm)) ordered (map snd stm))
            end
          end
        end
      end
    end.

(* ------------------------------------------------------------------------- *)
(** * _fast_spec and the records *)
Inductive path := PAnalytical | PUniform | PSiteBased | PSeed.

Definition fast_spec_path (L : layer) : option (path * spec) :=
  match analytical L with Some s => Some (PAnalytical, s) | None =>
  match uniform L with Some s => Some (PUniform, s) | None =>
  match site_based L with Some s => Some (PSiteBased, s) | None =>
  match seed_spec L with Some s => Some (PSeed, s) | None => None end end end end.

Definition fast_spec (L : layer) : option spec := option_map snd (fast_spec_path L).

(* one record of _fast_records: (block, shared callable, dependency keys = the refs, seeds) *)
Record frec := mkfrec { fr_block : block; fr_shared : shared; fr_deps : list site; fr_seeds : list lit }.

Definition spec_shared (s : spec) : shared := match s with ProjSpec sh _ _ | MatSpec sh _ => sh end.

Definition fast_record (L : layer) (s : spec) (i : nat) (b : block) : frec :=
  match s with
  | ProjSpec sh projs tmpls =>
      mkfrec b sh (map (fun p => dep_key (l_deps L) (apply_proj b p)) projs)
             (map (apply_template (l_chunks L) b) tmpls)
  | MatSpec sh slots => mkfrec b sh (map (dep_key (l_deps L)) (nth i slots [])) []
  end.

(* _fast_records *)
Definition fast_records (L : layer) (s : spec) : list frec :=
  map (fun ib : nat * block => fast_record L s (fst ib) (snd ib)) (enum_from 0 (all_blocks (l_nb L))).

(* _slow_records: the block's own task *)
Definition slow_records (L : layer) : list (block * task) := map (fun b => (b, l_task L b)) (all_blocks (l_nb L)).

(* ------------------------------------------------------------------------- *)
(** * What a record computes: the effective fused task *)
(* canonical subgraph, output, the source block read at each reference site (depth-first
   order), dependency keys.  Two records with equal `eff` run the same functions on the same
   literals, wired the same way, on the same source blocks. *)
Record eff := mkeff { e_nodes : list node; e_out : label; e_reads : option (list site); e_deps : list site }.

Definition eff_slow (t : task) : eff := mkeff (t_nodes t) (t_out t) (t_sites t) (t_deps t).

(* fill the holes with the seeds (seed k goes to sh_holes[k]) *)
Fixpoint assoc_seed (s : seedkey) (l : list (seedkey * lit)) : option lit :=
  match l with [] => None | (x, v) :: t => if seedkey_eqb x s then Some v else assoc_seed s t end.
Definition fill_node (sv : list (seedkey * lit)) (n : node) : node :=
  mknode (n_key n) (n_func n)
         (map (fun p : nat * lit => match assoc_seed (n_key n, fst p) sv with Some v => v | None => snd p end)
              (enum_from 0 (n_args n)))
         (n_kwargs n).

Fixpoint assoc_key (k : site) (l : list (site * site)) : option site :=
  match l with [] => None | (x, v) :: t => if site_eqb x k then Some v else assoc_key k t end.

(* _FusedSubgraph.__call__(deps..., seeds...) = _execute_subgraph(subgraph, outkey, inkeys, ...):
   inkeys[i] is seeded with the i-th argument *)
Definition eff_fast (L : layer) (r : frec) : eff :=
  let sh := fr_shared r in
  let tm := l_task L (sh_block sh) in
  mkeff (map (fill_node (combine (sh_holes sh) (fr_seeds r))) (t_nodes tm))
        (t_out tm)
        (match t_sites tm with
         | None => None
         | Some sm => all_some (map (fun k => assoc_key k (combine (sh_inkeys sh) (fr_deps r))) sm)
         end)
        (fr_deps r).

Definition eff_eqb (a b : eff) : bool :=
  list_eqb node_eqb (e_nodes a) (e_nodes b) && label_eqb (e_out a) (e_out b)
  && match e_reads a, e_reads b with
     | Some x, Some y => list_eqb site_eqb x y
     | None, None => true
     | _, _ => false end
  && set_eqb site_eqb (e_deps a) (e_deps b).

(* the blocks whose fast record differs from the slow one *)
Definition bad_blocks (L : layer) (s : spec) : list block :=
  flat_map (fun ib : nat * block =>
              if eff_eqb (eff_fast L (fast_record L s (fst ib) (snd ib))) (eff_slow (l_task L (snd ib)))
              then [] else [snd ib])
           (enum_from 0 (all_blocks (l_nb L))).

(* a task family given by a finite table (what the harness supplies), with a default *)
Fixpoint table_task (tbl : list (block * task)) (dflt : task) (b : block) : task :=
  match tbl with
  | [] => dflt
  | (b', t) :: rest => if list_eqb Z.eqb b b' then t else table_task rest dflt b
  end.

(* ------------------------------------------------------------------------- *)
(** * Boolean equality of specs (the harness compares the real spec with the model's) *)
Fixpoint tmpl_eqb (a b : tmpl) : bool :=
  match a, b with
  | TConst x, TConst y => Z.eqb x y
  | TBid x, TBid y => Nat.eqb x y
  | TChunk x, TChunk y => Nat.eqb x y
  | TSeq s l, TSeq s' l' =>
      Bool.eqb s s' &&
      (fix go (l l' : list tmpl) : bool :=
         match l, l' with
         | [], [] => true
         | x :: t, y :: t' => tmpl_eqb x y && go t t'
         | _, _ => false
         end) l l'
  | _, _ => false
  end.

Definition shared_eqb (a b : shared) : bool :=
  list_eqb Z.eqb (sh_block a) (sh_block b) && list_eqb site_eqb (sh_inkeys a) (sh_inkeys b)
  && list_eqb seedkey_eqb (sh_holes a) (sh_holes b).

Definition spec_eqb (a b : spec) : bool :=
  match a, b with
  | ProjSpec sh p t, ProjSpec sh' p' t' => shared_eqb sh sh' && list_eqb proj_eqb p p' && list_eqb tmpl_eqb t t'
  | MatSpec sh s, MatSpec sh' s' => shared_eqb sh sh' && list_eqb (list_eqb slot_eqb) s s'
  | _, _ => false
  end.

Definition ospec_eqb (a b : option spec) : bool :=
  match a, b with
  | Some x, Some y => spec_eqb x y
  | None, None => true
  | _, _ => false
  end.

(* ------------------------------------------------------------------------- *)
(** * Specification side *)
(* the blocks of the grid: 0 <= b[i] < numblocks[i] *)
Definition in_grid (nb : list Z) (b : block) : Prop := Forall2 (fun n x => 0 <= x < n) nb b.

(* the last element `_probe_blocks` adds: (min(i, n - 1) for i, n in enumerate(numblocks)) *)
Definition diag_block (nb : list Z) : block :=
  map (fun p : nat * Z => Z.min (Z.of_nat (fst p)) (snd p - 1)) (enum_from 0 nb).

(* two records compute the same thing: same canonical subgraph and output, the same source block
   at every reference site, the same SET of dependency keys *)
Definition eff_equiv (a b : eff) : Prop :=
  e_nodes a = e_nodes b /\ e_out a = e_out b /\ e_reads a = e_reads b /\
  (forall k, In k (e_deps a) <-> In k (e_deps b)).

(* THE REAL HYPOTHESIS, part 1 — the family is SHARED: every block of the grid has the
   expected task shape and the canonical subgraph of block 0 *)
Definition shared_everywhere (L : layer) : Prop :=
  forall b, in_grid (l_nb L) b ->
    t_ok (l_task L b) = true /\
    t_nodes (l_task L b) = t_nodes (l_task L (zero_block (l_nb L))) /\
    t_out (l_task L b) = t_out (l_task L (zero_block (l_nb L))).

(* part 2 — AFFINE SLOTS: reference site j of EVERY block reads the source s_j at the block
   that an affine projection (each coordinate a constant or one coordinate of the block id)
   makes of the block id *)
Definition nproj := (positive * list pcoord)%type.
Definition apply_nproj (b : block) (p : nproj) : site := (fst p, map (apply_pcoord b) (snd p)).
Definition affine_sites (L : layer) (P : list nproj) : Prop :=
  forall b, in_grid (l_nb L) b -> t_sites (l_task L b) = Some (map (apply_nproj b) P).

(* well-formedness of `Task.fuse`: the dependencies of a fused task are its reference sites *)
Definition deps_are_sites (L : layer) : Prop :=
  forall b s, in_grid (l_nb L) b -> t_sites (l_task L b) = Some s ->
    forall k, In k (t_deps (l_task L b)) <-> In k s.

(* part 3 — TEMPLATED SEEDS: outside the lifted positions every block has block 0's canonical
   subgraph, and at lifted position k every block carries the literal its template generates *)
Definition seeds_everywhere (L : layer) (holes : list seedkey) (tmpls : list tmpl) : Prop :=
  forall b, in_grid (l_nb L) b ->
    t_ok (l_task L b) = true /\
    map (hole_node holes) (t_nodes (l_task L b)) = map (hole_node holes) (t_nodes (l_task L (zero_block (l_nb L)))) /\
    t_out (l_task L b) = t_out (l_task L (zero_block (l_nb L))) /\
    Forall2 (fun h t => seed_value (l_task L b) h = Some (apply_template (l_chunks L) b t)) holes tmpls.

(* the canonical subgraph is a dict: its keys are distinct *)
Definition canon_keys_unique (L : layer) : Prop :=
  forall b, in_grid (l_nb L) b -> NoDup (map n_key (t_nodes (l_task L b))).

(* well-formedness of `Task.fuse` and of `_walk_sites`: every reference site is one of the inkeys,
   the inkeys are the task's dependencies, and the source NAME read at a site is a property of the
   site (the canonical subgraph names it), the same in every block *)
Definition fuse_wf (L : layer) : Prop :=
  forall b, in_grid (l_nb L) b ->
    exists s, t_sites (l_task L b) = Some s /\
      (forall k, In k s -> In k (t_inkeys (l_task L b))) /\
      (forall k, In k (t_deps (l_task L b)) <-> In k (t_inkeys (l_task L b))) /\
      (forall s0, t_sites (l_task L (zero_block (l_nb L))) = Some s0 -> map fst s = map fst s0).

(* `_validate_broadcast`'s condition at EVERY block (the code checks it on the probes) *)
Definition broadcast_everywhere (L : layer) : Prop :=
  forall sources, broadcast_spec L (t_inkeys (l_task L (zero_block (l_nb L)))) = Some sources ->
  validate_broadcast L (l_task L (zero_block (l_nb L))) sources = true ->
  forall b, in_grid (l_nb L) b ->
    forall k, In k (map (fun s : nat * positive * list Z => (snd (fst s), broadcast_block_id (snd s) b)) sources)
              <-> In k (t_deps (l_task L b)).

(* ------------------------------------------------------------------------- *)
(** * Witness families (the shape of finding C21-A) *)
Definition nokw : lit := LSeq (KDict 1%positive) [].

(* neg(ones(shape=(c,))) : node 1 = neg(ref node 2), node 2 = ones_like(..., shape (c,)) — no source *)
Definition creation_task (c : Z) : task :=
  mktask true [mknode 1 10 [LRef (BNode 2)] nokw; mknode 2 11 [LSeq KTuple [LInt c]] nokw] (BNode 1) [] (Some []) [].

(* -da.ones((6,), chunks=((1,3,1,1),)): the literal of block b is its chunk size *)
Definition c21a_chunks : list Z := [1; 3; 1; 1].
Definition c21a_layer : layer :=
  mklayer [4] [] [] [Some c21a_chunks] (fun b => creation_task (nth (Z.to_nat (nth 0 b 0)) c21a_chunks 0)).

(* x + da.ones(...) with the same ragged chunks: node 1 = add(source block, ref node 2); one source *)
Definition creation_src_task (c i : Z) : task :=
  mktask true [mknode 1 10 [LRef (BIn 3); LRef (BNode 2)] nokw; mknode 2 11 [LSeq KTuple [LInt c]] nokw] (BNode 1)
         [(3%positive, [i])] (Some [(3%positive, [i])]) [(3%positive, [i])].
Definition c21a_src_layer : layer :=
  mklayer [4] [3%positive] [[4]] [Some c21a_chunks]
          (fun b => creation_src_task (nth (Z.to_nat (nth 0 b 0)) c21a_chunks 0) (nth 0 b 0)).

(* one dimension, n blocks: the literal is 3 at position k and 1 everywhere else *)
Definition spike_layer (n k : Z) : layer :=
  mklayer [n] [] [] [None] (fun b => creation_task (if Z.eqb (nth 0 b 0) k then 3 else 1)).

(* ------------------------------------------------------------------------- *)
(** * The well-formedness hypotheses of the theorems, as a boolean the harness evaluates on
      every real family *)
Definition task_wf_b (t0 t : task) : bool :=
  match t_sites t, t_sites t0 with
  | Some s, Some s0 =>
      forallb (fun k => memb site_eqb k (t_inkeys t)) s
      && set_eqb site_eqb (t_deps t) (t_inkeys t)
      && set_eqb site_eqb (t_deps t) s
      && list_eqb Pos.eqb (map fst s) (map fst s0)
      && Nat.eqb (ndistinct Pos.eqb (map n_key (t_nodes t))) (length (map n_key (t_nodes t)))
  | _, _ => false
  end.
Definition family_wf_b (L : layer) : bool :=
  forallb (fun b => task_wf_b (l_task L (zero_block (l_nb L))) (l_task L b)) (all_blocks (l_nb L)).

(* a family on a 3 x 3 grid that reads ONE source at two sites, x[i,j] and x[j,i] (x - x.T), except
   that at the probed block (2,0) the two sites are swapped (x.T - x there): the same canonical
   subgraph (both inputs are labelled by the source name) and the same MULTISET of reads *)
Definition swapped_layer : layer :=
  mklayer [3; 3] [3%positive] [[3; 3]] [Some [2; 2; 2]; Some [2; 2; 2]]
    (fun b => let i := nth 0 b 0 in let j := nth 1 b 0 in
              let s := if Z.eqb i 2 && Z.eqb j 0 then [(3%positive, [j; i]); (3%positive, [i; j])]
                       else [(3%positive, [i; j]); (3%positive, [j; i])] in
              mktask true [mknode 1 10 [LRef (BIn 3); LRef (BNode 2)] nokw; mknode 2 11 [LRef (BIn 3)] nokw] (BNode 1)
                     s (Some s) s).
