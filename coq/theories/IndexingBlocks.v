(* Proofs about the SliceSlicesIntegers node (model: Indexing.v ssi_chunks / ssi_layer):
   the N-D block grid is the product of the per-axis plans of C13, every output block
   holds exactly the positions NumPy selects, advertised chunks = produced extents. *)
From DA Require Import PyBase PyBaseFacts Slicing NormalizeFacts Slice1dBase Slice1dFacts Indexing IndexingFacts.
From Coq Require Import ZifyBool.
Open Scope Z_scope.
Ltac Zify.zify_post_hook ::= Z.to_euclidean_division_equations.

(* ---------------------------------------------------------------------- *)
(* generic list facts: combine / flat_map / product *)

Lemma combine_app {A B} (a1 a2 : list A) (b1 b2 : list B) :
  length a1 = length b1 -> combine (a1 ++ a2) (b1 ++ b2) = combine a1 b1 ++ combine a2 b2.
Proof.
  revert b1. induction a1 as [|x a1 IH]; intros [|y b1] H; cbn in H; try discriminate; [reflexivity|].
  cbn [app combine]. rewrite IH by lia. reflexivity.
Qed.

Lemma combine_flat_map {A B C D} (f : A -> list C) (g : B -> list D) (n : nat) :
  (forall a, length (f a) = n) -> (forall b, length (g b) = n) ->
  forall la lb,
  combine (flat_map f la) (flat_map g lb) = flat_map (fun ab => combine (f (fst ab)) (g (snd ab))) (combine la lb).
Proof.
  intros Hf Hg. induction la as [|a la IH]; intros lb; [reflexivity|].
  destruct lb as [|b lb].
  - cbn [combine flat_map]. apply combine_nil.
  - cbn [combine flat_map fst snd]. rewrite combine_app by (rewrite Hf, Hg; reflexivity). rewrite IH. reflexivity.
Qed.

Lemma combine_map_both {A B C D} (f : A -> C) (g : B -> D) la lb :
  combine (map f la) (map g lb) = map (fun ab => (f (fst ab), g (snd ab))) (combine la lb).
Proof.
  revert lb. induction la as [|a la IH]; intros [|b lb]; try reflexivity.
  cbn [map combine fst snd]. rewrite IH. reflexivity.
Qed.

Lemma combine_map_r {A B D} (g : B -> D) (la : list A) lb :
  combine la (map g lb) = map (fun ab => (fst ab, g (snd ab))) (combine la lb).
Proof.
  revert lb. induction la as [|a la IH]; intros [|b lb]; try reflexivity.
  cbn [map combine fst snd]. rewrite IH. reflexivity.
Qed.

Lemma combine_fst_snd {A B} (l : list (A * B)) : combine (map fst l) (map snd l) = l.
Proof. induction l as [|[a b] l IH]; [reflexivity|]. cbn [map combine fst snd]. rewrite IH. reflexivity. Qed.

Lemma combine_rev {A B} (la : list A) (lb : list B) :
  length la = length lb -> combine (rev la) (rev lb) = rev (combine la lb).
Proof.
  revert lb. induction la as [|a la IH]; intros [|b lb] H; cbn in H; try discriminate; [reflexivity|].
  cbn [rev combine]. rewrite combine_app by (rewrite !rev_length; lia). rewrite IH by lia. reflexivity.
Qed.

Lemma map_fst_combine {A B} (la : list A) (lb : list B) :
  (length la <= length lb)%nat -> map fst (combine la lb) = la.
Proof.
  revert lb. induction la as [|a la IH]; intros lb H; [reflexivity|].
  destruct lb as [|b lb]; cbn in H; [lia|]. cbn [combine map fst]. rewrite IH by lia. reflexivity.
Qed.

Definition plen {A} (ls : list (list A)) : nat := fold_right Nat.mul 1%nat (map (@length A) ls).

Lemma flat_map_const_length {A B} (f : A -> list B) n l :
  (forall a, length (f a) = n) -> length (flat_map f l) = (length l * n)%nat.
Proof.
  intros H. induction l as [|a l IH]; [reflexivity|].
  cbn [flat_map length]. rewrite app_length, H, IH. lia.
Qed.

Lemma product_length {A} (ls : list (list A)) : length (product ls) = plen ls.
Proof.
  induction ls as [|l rest IH]; [reflexivity|].
  cbn [product]. rewrite (flat_map_const_length _ (length (product rest))) by (intros; apply map_length).
  unfold plen in *. cbn [map fold_right]. rewrite IH. reflexivity.
Qed.

Lemma in_product {A} (ls : list (list A)) : forall row,
  In row (product ls) <-> Forall2 (fun x l => In x l) row ls.
Proof.
  induction ls as [|l rest IH]; intros row.
  - cbn [product]. split.
    + intros [<-|[]]. constructor.
    + intros H. inversion H. left. reflexivity.
  - cbn [product]. rewrite in_flat_map. split.
    + intros (x & Hx & Hin). apply in_map_iff in Hin as (r & <- & Hr). constructor; [exact Hx | apply IH; exact Hr].
    + intros H. inversion H as [|x ? r ? Hx Hr]; subst. exists x. split; [exact Hx|].
      apply in_map. apply IH. exact Hr.
Qed.

Lemma NoDup_app_disjoint {A} (l1 l2 : list A) :
  NoDup l1 -> NoDup l2 -> (forall x, In x l1 -> ~ In x l2) -> NoDup (l1 ++ l2).
Proof.
  intros H1 H2 Hd. induction H1 as [|x l1 Hx H1 IH]; [exact H2|].
  cbn [app]. constructor.
  - rewrite in_app_iff. intros [H|H]; [contradiction | exact (Hd x (or_introl eq_refl) H)].
  - apply IH. intros y Hy. apply Hd. right. exact Hy.
Qed.

Lemma NoDup_map_inj {A B} (f : A -> B) l :
  (forall a b, f a = f b -> a = b) -> NoDup l -> NoDup (map f l).
Proof.
  intros Hf H. induction H as [|x l Hx H IH]; [constructor|].
  cbn [map]. constructor; [|exact IH].
  intros Hin. apply in_map_iff in Hin as (y & Hy & Hin). apply Hf in Hy. subst y. contradiction.
Qed.

Lemma NoDup_product {A} (ls : list (list A)) : Forall (@NoDup A) ls -> NoDup (product ls).
Proof.
  induction 1 as [|l rest Hl Hrest IH]; [repeat constructor; intros []|].
  cbn [product]. induction Hl as [|x l Hx Hl IHl]; [constructor|].
  cbn [flat_map]. apply NoDup_app_disjoint.
  - apply NoDup_map_inj; [|exact IH]. intros a b H. injection H. tauto.
  - exact IHl.
  - intros row Hin Hin2. apply in_map_iff in Hin as (r & <- & _).
    apply in_flat_map in Hin2 as (y & Hy & Hin2). apply in_map_iff in Hin2 as (r' & Heq & _).
    injection Heq as -> _. contradiction.
Qed.

(* ---------------------------------------------------------------------- *)
(* iota and segments *)

Lemma iota_length n : length (iota n) = n.
Proof. unfold iota. rewrite map_length, seq_length. reflexivity. Qed.

Lemma in_iota n x : In x (iota n) <-> 0 <= x < Z.of_nat n.
Proof.
  unfold iota. rewrite in_map_iff. split.
  - intros (i & <- & Hi). apply in_seq in Hi. lia.
  - intros H. exists (Z.to_nat x). split; [lia|]. apply in_seq. lia.
Qed.

Lemma NoDup_iota n : NoDup (iota n).
Proof.
  unfold iota. apply NoDup_map_inj; [|apply seq_NoDup].
  intros a b H. lia.
Qed.

Lemma skipnZ_lenZ_app {A} (l1 l2 : list A) : skipnZ (lenZ l1) (l1 ++ l2) = l2.
Proof.
  unfold skipnZ, lenZ. rewrite Nat2Z.id, skipn_app, skipn_all, Nat.sub_diag. reflexivity.
Qed.

Lemma zsum_map_lenZ {A B} (f : A -> list B) (l : list A) :
  zsum (map (fun e => lenZ (f e)) l) = lenZ (concat (map f l)).
Proof.
  induction l as [|x t IH]; [reflexivity|].
  cbn [map zsum concat]. rewrite lenZ_app, IH. reflexivity.
Qed.

(* cutting the concatenation of the pieces back into runs of the piece lengths
   returns the pieces: piece number j is the j-th segment *)
Lemma segments_of_concat {A B} (f : A -> list B) (plan : list A) : forall pre,
  Forall (fun oe => f (snd oe) = segment (concat (map f (pre ++ plan))) (map (fun e => lenZ (f e)) (pre ++ plan)) (fst oe)
                    /\ nthZ (map (fun e => lenZ (f e)) (pre ++ plan)) (fst oe) = lenZ (f (snd oe)))
         (combine (map Z.of_nat (seq (length pre) (length plan))) plan).
Proof.
  induction plan as [|e t IH]; intros pre; [constructor|].
  cbn [length seq map combine]. constructor.
  - cbn [fst snd]. unfold segment. rewrite !map_app. cbn [map].
    set (L := map (fun e0 => lenZ (f e0)) pre).
    assert (Z.of_nat (length pre) = lenZ L) as -> by (unfold L, lenZ; rewrite map_length; reflexivity).
    rewrite nthZ_lenZ_app, firstnZ_lenZ_app.
    unfold L. rewrite zsum_map_lenZ. rewrite concat_app. cbn [concat].
    rewrite skipnZ_lenZ_app, firstnZ_lenZ_app. split; reflexivity.
  - specialize (IH (pre ++ [e])). rewrite <- app_assoc in IH. cbn [app] in IH.
    rewrite app_length in IH. cbn [length] in IH. rewrite Nat.add_1_r in IH. exact IH.
Qed.

(* ---------------------------------------------------------------------- *)
(* one sliced axis *)

Lemma neg_step_iff s : neg_step s = true <-> step_of s < 0.
Proof. unfold neg_step, step_of. destruct (s_step s) as [k|]; lia. Qed.

Lemma all_colon_lengths lengths :
  Forall nonneg lengths ->
  forall ls pre post i, lengths = pre ++ ls ++ post -> i = lenZ pre ->
  map (fun e => lenZ (abs_positions lengths e)) (all_colon_from i ls) = ls.
Proof.
  intros Hnn ls. induction ls as [|len t IH]; intros pre post i Hl Hi; [reflexivity|].
  cbn [all_colon_from map]. f_equal.
  - assert (0 <= len) as Hlen.
    { rewrite Hl in Hnn. apply Forall_app in Hnn as [_ Hnn]. inversion Hnn. assumption. }
    unfold abs_positions. rewrite Hi, Hl. cbn [app]. rewrite nthZ_lenZ_app.
    unfold lenZ. rewrite map_length. fold (lenZ (sel colon len)).
    unfold lenZ. rewrite sel_length. change (slice_len colon len) with (range_len 0 len 1).
    rewrite range_len_pos_step by lia. destruct (0 <? len) eqn:E; [rewrite Z.div_1_r|]; lia.
  - apply (IH (pre ++ [len]) post (i + 1)).
    + rewrite Hl, <- app_assoc. reflexivity.
    + rewrite lenZ_app, Hi. reflexivity.
Qed.

Lemma sort_singleton {A} (e : Z * A) : sort_by_key [e] = [e].
Proof. reflexivity. Qed.

(* how sorted(d.items()) relates to the insertion order, and which way the output
   range runs: in both cases the block that _layer numbers `ob` is plan[ob] *)
Lemma sorted_plan dim lengths idx :
  valid_chunks lengths dim -> normalized idx dim ->
  let plan := slice_1d_slice dim lengths idx in
  combine (out_range idx plan) (sort_by_key plan) = combine (iota (length plan)) plan \/
  combine (out_range idx plan) (sort_by_key plan) = rev (combine (iota (length plan)) plan).
Proof.
  intros Hv Hnorm plan. unfold out_range.
  destruct (pslice_eqb idx colon) eqn:Hc.
  - apply pslice_eqb_eq in Hc. subst idx. left.
    assert (plan = all_colon_from 0 lengths) as Hp by reflexivity.
    pose proof (all_colon_keys lengths 0) as Hk. rewrite <- Hp in Hk.
    rewrite (sort_asc plan _ _ Hk). reflexivity.
  - destruct (plan_structure dim lengths idx Hv Hnorm Hc) as (d & Hplan & Hent & Hkeys).
    fold plan in Hplan.
    destruct d as [|e0 d0].
    + cbn [finish] in Hplan. rewrite Hplan. cbn [length]. destruct (neg_step idx); left; reflexivity.
    + assert (plan = map (colonize lengths) (e0 :: d0)) as Hp by exact Hplan.
      destruct Hkeys as [(Hk & Hasc) | (Hk & Hdesc)].
      * assert (neg_step idx = false) as ->.
        { destruct (neg_step idx) eqn:E; [|reflexivity]. apply neg_step_iff in E. lia. }
        left. rewrite Hp.
        rewrite (sort_asc (map (colonize lengths) (e0 :: d0)) 0 (lenZ lengths))
          by (apply asc_in_map; [apply colonize_fst | exact Hasc]).
        reflexivity.
      * assert (neg_step idx = true) as -> by (apply neg_step_iff; exact Hk).
        right. rewrite Hp.
        rewrite (sort_desc (map (colonize lengths) (e0 :: d0)) 0 (lenZ lengths))
          by (apply desc_in_map; [apply colonize_fst | exact Hdesc]).
        apply combine_rev. apply iota_length.
Qed.

Lemma blockdim_as_lengths dim lengths idx :
  valid_chunks lengths dim -> normalized idx dim ->
  new_blockdim dim lengths idx =
  map (fun e => lenZ (abs_positions lengths e)) (slice_1d_slice dim lengths idx).
Proof.
  intros Hv Hnorm. destruct (pslice_eqb idx colon) eqn:Hc.
  - apply pslice_eqb_eq in Hc. subst idx. rewrite new_blockdim_colon.
    destruct Hv as [Hnn _]. symmetry.
    apply (all_colon_lengths lengths Hnn lengths [] [] 0); [rewrite app_nil_r; reflexivity | reflexivity].
  - apply new_blockdim_lengths; [assumption | assumption|].
    intros ->. cbn in Hc. discriminate.
Qed.

(* what _layer pairs on one sliced axis: output block number, (input block, local slice) *)
Definition axis_entry_ok (n : Z) (cs : list Z) (s : pslice) (oe : Z * (Z * ploc)) : Prop :=
  let nb := new_blockdim n cs s in
  let '(ob, (ib, loc)) := oe in
  0 <= ib < lenZ cs /\ 0 <= ob < lenZ nb /\
  abs_positions cs (ib, loc) = segment (sel s n) nb ob /\
  lenZ (abs_positions cs (ib, loc)) = nthZ nb ob.

Lemma slice_axis_table n cs s :
  valid_chunks cs n -> cs <> [] -> normalized s n ->
  let plan := slice_1d_slice n cs s in
  length (out_range s plan) = length (sort_by_key plan) /\
  length (sort_by_key plan) = length (new_blockdim n cs s) /\
  NoDup (out_range s plan) /\
  (forall ob, In ob (out_range s plan) <-> 0 <= ob < lenZ (new_blockdim n cs s)) /\
  Forall (axis_entry_ok n cs s) (combine (out_range s plan) (sort_by_key plan)).
Proof.
  intros Hv Hne Hnorm plan.
  pose proof (blockdim_as_lengths n cs s Hv Hnorm) as Hnb. fold plan in Hnb.
  pose proof (slice_1d_partition n cs s Hv Hnorm) as Hpart. fold plan in Hpart. unfold plan_positions in Hpart.
  pose proof (slice_1d_pieces_in_block n cs s Hv Hne Hnorm) as [_ Hblk]. fold plan in Hblk.
  assert (length (new_blockdim n cs s) = length plan) as Hlen by (rewrite Hnb, map_length; reflexivity).
  assert (forall l : list (Z * ploc), length (sort_by_key l) = length l) as Hsl.
  { induction l as [|h t IHl]; [reflexivity|]. cbn [sort_by_key].
    assert (forall (e : Z * ploc) l', length (insert_by_key e l') = S (length l')) as Hins.
    { intros e l'. induction l' as [|h' t' IH']; [reflexivity|]. cbn [insert_by_key].
      destruct (fst e <=? fst h'); cbn [length]; [reflexivity | rewrite IH'; reflexivity]. }
    rewrite Hins, IHl. reflexivity. }
  assert (length (out_range s plan) = length plan) as Hol.
  { unfold out_range. destruct (neg_step s); [rewrite rev_length|]; apply iota_length. }
  split; [rewrite Hol, Hsl; reflexivity|]. split; [rewrite Hsl, Hlen; reflexivity|].
  split; [unfold out_range; destruct (neg_step s); [apply NoDup_rev|]; apply NoDup_iota|].
  split.
  { intros ob. unfold out_range, lenZ. rewrite Hlen.
    destruct (neg_step s); [rewrite <- in_rev|]; apply in_iota. }
  assert (Forall (axis_entry_ok n cs s) (combine (iota (length plan)) plan)) as Hcore.
  { pose proof (segments_of_concat (abs_positions cs) plan []) as Hseg. cbn [app length] in Hseg.
    fold (iota (length plan)) in Hseg. rewrite Hpart, <- Hnb in Hseg.
    rewrite Forall_forall in Hseg, Hblk. rewrite Forall_forall. intros [ob [ib loc]] Hin.
    specialize (Hseg _ Hin). cbn [fst snd] in Hseg. destruct Hseg as [Hs1 Hs2].
    pose proof (in_combine_l _ _ _ _ Hin) as Hob. apply in_iota in Hob.
    pose proof (in_combine_r _ _ _ _ Hin) as Hpl. specialize (Hblk _ Hpl). destruct Hblk as [Hib _]. cbn [fst] in Hib.
    unfold axis_entry_ok. cbv zeta. unfold lenZ at 2. rewrite Hlen.
    split; [exact Hib|]. split; [lia|]. split; [exact Hs1 | symmetry; exact Hs2]. }
  destruct (sorted_plan n cs s Hv Hnorm) as [Heq | Heq]; fold plan in Heq; rewrite Heq.
  - exact Hcore.
  - apply Forall_rev. exact Hcore.
Qed.

(* one integer axis *)
Lemma int_axis_table n cs k :
  valid_chunks cs n -> 0 <= k < n ->
  exists ib r, slice_1d_int cs k = [(ib, LInt r)] /\
    0 <= ib < lenZ cs /\ 0 <= r < nthZ cs ib /\ abs_positions cs (ib, LInt r) = [k].
Proof.
  intros [Hnn Hsum] Hk. unfold slice_1d_int.
  pose proof (bisect_right_cumsum cs 0 k) as Hb. cbv zeta in Hb. fold (cumsum cs) in Hb.
  set (j := bisect_right (cumsum cs) k) in *. destruct Hb as (Hj & Hlo & Hhi).
  assert (j < lenZ cs) as Hjl.
  { destruct (Z_lt_le_dec j (lenZ cs)) as [H|H]; [exact H|].
    assert (j = lenZ cs) as Hje by lia.
    assert (0 < j \/ j = 0) as [Hp|Hz] by lia.
    - specialize (Hlo Hp). rewrite Hje, zsum_firstnZ_all in Hlo by lia. lia.
    - assert (cs = []) as -> by (destruct cs; [reflexivity | rewrite lenZ_cons in Hje; pose proof (lenZ_nonneg cs); lia]).
      cbn in Hsum. lia. }
  specialize (Hhi Hjl).
  assert ((if j >? 0 then k - nthZ (cumsum cs) (j - 1) else k) = k - zsum (firstnZ j cs)) as Hr.
  { destruct (j >? 0) eqn:E.
    - rewrite cumsum_nthZ by lia. reflexivity.
    - rewrite zsum_firstnZ_0 by lia. lia. }
  rewrite Hr. eexists _, _. split; [reflexivity|].
  assert (0 <= zsum (firstnZ j cs) <= k) as Hle.
  { destruct (Z.eq_dec j 0) as [->|Hne]; [rewrite zsum_firstnZ_0 by lia; lia|].
    specialize (Hlo ltac:(lia)). split; [|lia].
    apply zsum_nonneg. apply Forall_firstn. exact Hnn. }
  rewrite zsum_firstnZ_succ in Hhi by lia.
  split; [lia|]. split; [lia|].
  unfold abs_positions. f_equal. lia.
Qed.

(* ---------------------------------------------------------------------- *)
(* the N-D node *)

Fixpoint ssi_wf (shape : list Z) (chunks : list (list Z)) (index : list ielem) : Prop :=
  match shape, chunks, index with
  | [], [], [] => True
  | n :: sh, cs :: ch, e :: ix =>
      valid_chunks cs n /\ cs <> [] /\
      match e with EInt i => 0 <= i < n | ESlice s => normalized s n | _ => False end /\
      ssi_wf sh ch ix
  | _, _, _ => False
  end.

(* boolean checker for ssi_wf (used by the harness on the real nodes) *)
Fixpoint ssi_wf_b (shape : list Z) (chunks : list (list Z)) (index : list ielem) : bool :=
  match shape, chunks, index with
  | [], [], [] => true
  | n :: sh, cs :: ch, e :: ix =>
      valid_chunks_b cs n && negb (match cs with [] => true | _ => false end) &&
      match e with
      | EInt i => (0 <=? i) && (i <? n)
      | ESlice s => normalized_b s n
      | _ => false
      end && ssi_wf_b sh ch ix
  | _, _, _ => false
  end.

Lemma valid_chunks_b_true cs n : valid_chunks_b cs n = true -> valid_chunks cs n.
Proof.
  unfold valid_chunks_b, valid_chunks, all_nonneg. intros H. apply andb_true_iff in H as [H1 H2].
  split; [|lia]. rewrite forallb_forall in H1. apply Forall_forall. intros c Hc. specialize (H1 c Hc). lia.
Qed.

Lemma ssi_wf_b_true shape : forall chunks index, ssi_wf_b shape chunks index = true -> ssi_wf shape chunks index.
Proof.
  induction shape as [|n sh IH]; intros chunks index H.
  - destruct chunks, index; try discriminate. exact I.
  - destruct chunks as [|cs ch]; [discriminate|]. destruct index as [|e ix]; [discriminate|].
    cbn [ssi_wf_b] in H.
    apply andb_true_iff in H as [H Hd]. apply andb_true_iff in H as [H Hc]. apply andb_true_iff in H as [Ha Hb].
    cbn [ssi_wf]. split; [apply valid_chunks_b_true; exact Ha|].
    split; [destruct cs; discriminate|].
    split; [|apply IH; exact Hd].
    destruct e; try discriminate; [lia | apply normalized_b_iff; exact Hc].
Qed.

(* What one graph entry (output block o, input block i, local indices sl) must satisfy.
   Sliced axis (output coordinate ob, advertised chunks nb = new_blockdim): the positions
   the local slice reads from input block ib are the ob-th run of NumPy's selection
   [sel s n] cut according to nb, and there are nb[ob] of them.  Integer axis: the local
   integer addresses exactly position k, inside block ib; the axis is dropped. *)
Fixpoint block_spec (shape : list Z) (chunks : list (list Z)) (index : list ielem)
                    (o i : list Z) (sl : list ploc) : Prop :=
  match shape, chunks, index, i, sl with
  | [], [], [], [], [] => o = []
  | n :: sh, cs :: ch, e :: ix, ib :: i', loc :: sl' =>
      match e with
      | EInt k =>
          0 <= ib < lenZ cs /\
          (exists r, loc = LInt r /\ 0 <= r < nthZ cs ib) /\ abs_positions cs (ib, loc) = [k] /\
          block_spec sh ch ix o i' sl'
      | ESlice s =>
          match o with
          | ob :: o' => axis_entry_ok n cs s (ob, (ib, loc)) /\ block_spec sh ch ix o' i' sl'
          | [] => False
          end
      | _ => False
      end
  | _, _, _, _, _ => False
  end.

Definition entry_spec shape chunks index (e : list Z * (list Z * list ploc)) : Prop :=
  block_spec shape chunks index (fst e) (fst (snd e)) (snd (snd e)).

Lemma ssi_layer_cons_int n sh cs ch k ix ib r :
  slice_1d_int cs k = [(ib, LInt r)] ->
  ssi_layer (n :: sh) (cs :: ch) (EInt k :: ix) =
  map (fun e => (fst e, (ib :: fst (snd e), LInt r :: snd (snd e)))) (ssi_layer sh ch ix).
Proof.
  intros Hp. unfold ssi_layer. cbn [block_slices axis_plan map out_ranges]. rewrite Hp.
  cbn [sort_by_key insert_by_key map fst snd product flat_map]. rewrite !app_nil_r.
  rewrite combine_map_both, combine_map_r, map_map. apply map_ext. intros [o [i l]]. reflexivity.
Qed.

Lemma ssi_layer_cons_slice n sh cs ch s ix :
  let plan := slice_1d_slice n cs s in
  plen (out_ranges (block_slices sh ch ix) ix) = plen (map (map fst) (map sort_by_key (block_slices sh ch ix))) ->
  ssi_layer (n :: sh) (cs :: ch) (ESlice s :: ix) =
  flat_map (fun oe => map (fun e => (fst oe :: fst e, (fst (snd oe) :: fst (snd e), snd (snd oe) :: snd (snd e))))
                          (ssi_layer sh ch ix))
           (combine (out_range s plan) (sort_by_key plan)).
Proof.
  intros plan Hlen. unfold ssi_layer. cbn [block_slices axis_plan map out_ranges]. fold plan.
  set (S := sort_by_key plan). set (bs := block_slices sh ch ix) in *.
  set (PO := product (out_ranges bs ix)). set (PI := product (map (map fst) (map sort_by_key bs))).
  set (PL := product (map (map snd) (map sort_by_key bs))).
  assert (length PI = length PL) as HIL.
  { unfold PI, PL. rewrite !product_length. unfold plen. rewrite !map_map.
    f_equal. apply map_ext. intros l. rewrite !map_length. reflexivity. }
  assert (length PO = length PI) as HOI by (unfold PO, PI; rewrite !product_length; exact Hlen).
  cbn [product].
  rewrite (combine_flat_map (fun x => map (cons x) PI) (fun x => map (cons x) PL) (length PI))
    by (intros; rewrite map_length; auto).
  rewrite combine_fst_snd.
  rewrite (combine_flat_map (fun x => map (cons x) PO)
             (fun ab : Z * ploc => combine (map (cons (fst ab)) PI) (map (cons (snd ab)) PL)) (length PO)).
  2: { intros; apply map_length. }
  2: { intros. rewrite combine_length, !map_length. lia. }
  apply flat_map_ext. intros [ob [ib loc]]. cbn [fst snd].
  rewrite !combine_map_both. apply map_ext. intros [o [i l]]. reflexivity.
Qed.

Lemma plen_cons {A} (l : list A) rest : plen (l :: rest) = (length l * plen rest)%nat.
Proof. reflexivity. Qed.

(* out_names and in_names have the same number of entries *)
Lemma ssi_plen shape : forall chunks index, ssi_wf shape chunks index ->
  plen (out_ranges (block_slices shape chunks index) index) =
  plen (map (map fst) (map sort_by_key (block_slices shape chunks index))).
Proof.
  induction shape as [|n sh IH]; intros chunks index Hwf.
  - destruct chunks, index; try contradiction. reflexivity.
  - destruct chunks as [|cs ch]; [contradiction|]. destruct index as [|e ix]; [contradiction|].
    destruct Hwf as (Hv & Hne & He & Hwf). specialize (IH ch ix Hwf).
    destruct e; try contradiction; cbn [block_slices axis_plan out_ranges map].
    + destruct (int_axis_table n cs i Hv He) as (ib & r & Hp & _). rewrite Hp.
      cbn [sort_by_key insert_by_key map]. rewrite plen_cons. cbn [length]. lia.
    + destruct (slice_axis_table n cs s Hv Hne He) as (H1 & _). cbv zeta in H1.
      rewrite !plen_cons, map_length, H1, IH. reflexivity.
Qed.

Theorem ssi_layer_blocks shape : forall chunks index, ssi_wf shape chunks index ->
  Forall (entry_spec shape chunks index) (ssi_layer shape chunks index).
Proof.
  induction shape as [|n sh IH]; intros chunks index Hwf.
  - destruct chunks, index; try contradiction. repeat constructor.
  - destruct chunks as [|cs ch]; [contradiction|]. destruct index as [|e ix]; [contradiction|].
    destruct Hwf as (Hv & Hne & He & Hwf). specialize (IH ch ix Hwf).
    destruct e; try contradiction.
    + destruct (int_axis_table n cs i Hv He) as (ib & r & Hp & Hib & Hr & Habs).
      rewrite (ssi_layer_cons_int n sh cs ch i ix ib r Hp). apply Forall_map.
      eapply Forall_impl; [|exact IH]. intros [o [ii l]] H. unfold entry_spec in *. cbn [fst snd block_spec] in *.
      split; [exact Hib|]. split; [exists r; split; [reflexivity | exact Hr]|]. split; [exact Habs | exact H].
    + destruct (slice_axis_table n cs s Hv Hne He) as (_ & _ & _ & _ & Htab). cbv zeta in Htab.
      rewrite (ssi_layer_cons_slice n sh cs ch s ix (ssi_plen sh ch ix Hwf)).
      apply Forall_flat_map. eapply Forall_impl; [|exact Htab]. intros [ob [ib loc]] Hax.
      apply Forall_map. eapply Forall_impl; [|exact IH]. intros [o [ii l]] H.
      unfold entry_spec in *. cbn [fst snd block_spec] in *. split; assumption.
Qed.

(* the output keys are exactly the block grid of the advertised chunks, each once *)
Lemma out_ranges_grid shape : forall chunks index, ssi_wf shape chunks index ->
  Forall (@NoDup Z) (out_ranges (block_slices shape chunks index) index) /\
  Forall2 (fun r nb => forall ob, In ob r <-> 0 <= ob < lenZ nb)
          (out_ranges (block_slices shape chunks index) index) (ssi_chunks shape chunks index).
Proof.
  induction shape as [|n sh IH]; intros chunks index Hwf.
  - destruct chunks, index; try contradiction. split; constructor.
  - destruct chunks as [|cs ch]; [contradiction|]. destruct index as [|e ix]; [contradiction|].
    destruct Hwf as (Hv & Hne & He & Hwf). destruct (IH ch ix Hwf) as [IH1 IH2].
    destruct e; try contradiction; cbn [block_slices axis_plan out_ranges ssi_chunks].
    + split; assumption.
    + destruct (slice_axis_table n cs s Hv Hne He) as (_ & _ & Hnd & Hin & _). cbv zeta in Hnd, Hin.
      split; constructor; assumption.
Qed.

Theorem ssi_layer_grid shape chunks index :
  ssi_wf shape chunks index ->
  let outs := map fst (ssi_layer shape chunks index) in
  NoDup outs /\
  forall o, In o outs <-> Forall2 (fun ob nb => 0 <= ob < lenZ nb) o (ssi_chunks shape chunks index).
Proof.
  intros Hwf outs.
  assert (outs = product (out_ranges (block_slices shape chunks index) index)) as ->.
  { unfold outs, ssi_layer. apply map_fst_combine.
    rewrite combine_length, !product_length, (ssi_plen shape chunks index Hwf).
    assert (plen (map (map fst) (map sort_by_key (block_slices shape chunks index))) =
            plen (map (map snd) (map sort_by_key (block_slices shape chunks index)))) as ->.
    { unfold plen. rewrite !map_map. f_equal. apply map_ext. intros l. rewrite !map_length. reflexivity. }
    lia. }
  destruct (out_ranges_grid shape chunks index Hwf) as [Hnd Hgrid].
  split; [apply NoDup_product; exact Hnd|].
  intros o. rewrite in_product.
  revert o. induction Hgrid as [|r nb rs nbs Hr Hrest IHg]; intros o.
  - split; intros H; inversion H; constructor.
  - inversion Hnd as [|? ? Hnd1 Hnd2]; subst. specialize (IHg Hnd2).
    split; intros H; inversion H as [|ob ? o' ? Hob Ho']; subst; constructor;
      try (apply Hr; exact Hob); apply IHg; exact Ho'.
Qed.

(* ---------------------------------------------------------------------- *)
(* advertised chunks *)

(* extents of the block an entry produces: one number per kept (sliced) axis *)
Fixpoint block_extents (chunks : list (list Z)) (index : list ielem) (i : list Z) (sl : list ploc) : list Z :=
  match chunks, index, i, sl with
  | cs :: ch, e :: ix, ib :: i', loc :: sl' =>
      match e with
      | ESlice _ => lenZ (abs_positions cs (ib, loc)) :: block_extents ch ix i' sl'
      | _ => block_extents ch ix i' sl'
      end
  | _, _, _, _ => []
  end.

Definition advertised_extents (cks : list (list Z)) (o : list Z) : list Z :=
  map (fun p => nthZ (fst p) (snd p)) (combine cks o).

Lemma block_spec_extents shape : forall chunks index o i sl,
  block_spec shape chunks index o i sl ->
  block_extents chunks index i sl = advertised_extents (ssi_chunks shape chunks index) o.
Proof.
  induction shape as [|n sh IH]; intros chunks index o i sl H.
  - destruct chunks, index, i, sl; try contradiction. cbn in H. subst o. reflexivity.
  - destruct chunks as [|cs ch]; [contradiction|]. destruct index as [|e ix]; [contradiction|].
    destruct i as [|ib i']; [contradiction|]. destruct sl as [|loc sl']; [contradiction|].
    cbn [block_spec] in H. destruct e; try contradiction.
    + destruct H as (_ & _ & _ & H). cbn [block_extents ssi_chunks]. apply (IH _ _ _ _ _ H).
    + destruct o as [|ob o']; [contradiction|]. destruct H as [Hax H].
      unfold axis_entry_ok in Hax. cbv zeta in Hax. destruct Hax as (_ & _ & _ & Hlen).
      cbn [block_extents ssi_chunks]. unfold advertised_extents. cbn [combine map fst snd].
      rewrite Hlen. f_equal. apply (IH _ _ _ _ _ H).
Qed.

Theorem ssi_chunks_match_blocks shape chunks index :
  ssi_wf shape chunks index ->
  Forall (fun e => block_extents chunks index (fst (snd e)) (snd (snd e)) =
                   advertised_extents (ssi_chunks shape chunks index) (fst e))
         (ssi_layer shape chunks index).
Proof.
  intros Hwf. eapply Forall_impl; [|exact (ssi_layer_blocks shape chunks index Hwf)].
  intros [o [i sl]] H. apply (block_spec_extents _ _ _ _ _ _ H).
Qed.

(* the advertised chunks are non-negative and add up to NumPy's result shape *)
Theorem ssi_chunks_shape shape : forall chunks index,
  ssi_wf shape chunks index ->
  map zsum (ssi_chunks shape chunks index) = out_shape (np_meaning index shape) /\
  Forall (Forall (fun c => 0 <= c)) (ssi_chunks shape chunks index).
Proof.
  induction shape as [|n sh IH]; intros chunks index Hwf.
  - destruct chunks, index; try contradiction. split; [reflexivity | constructor].
  - destruct chunks as [|cs ch]; [contradiction|]. destruct index as [|e ix]; [contradiction|].
    destruct Hwf as (Hv & Hne & He & Hwf). destruct (IH ch ix Hwf) as [IH1 IH2].
    destruct e; try contradiction; cbn [ssi_chunks np_meaning out_shape map].
    + split; assumption.
    + split.
      * rewrite IH1, (new_blockdim_sum n cs s Hv He). unfold lenZ. rewrite sel_length. reflexivity.
      * constructor; [|exact IH2].
        rewrite (blockdim_as_lengths n cs s Hv He). apply Forall_forall. intros c Hc.
        apply in_map_iff in Hc as (e & <- & _). apply lenZ_nonneg.
Qed.

(* ---------------------------------------------------------------------- *)
(* the whole of x[idx] for a normalized basic index: strip the Nones, slice, expand *)

Lemma strip_wf_takes idx : forall shape chunks,
  ssi_wf shape chunks (strip_nones idx) ->
  lenZ (ssi_chunks shape chunks (strip_nones idx)) = countZ takes_value idx.
Proof.
  induction idx as [|e t IH]; intros shape chunks Hwf.
  - cbn [strip_nones filter] in *. destruct shape, chunks; try contradiction. reflexivity.
  - rewrite countZ_cons. destruct e; cbn [strip_nones filter not_none is_none negb takes_value is_int andb] in *;
      fold (strip_nones t) in *; try (rewrite (IH _ _ Hwf); lia);
      (destruct shape as [|n sh]; [destruct chunks; contradiction|]); (destruct chunks as [|cs ch]; [contradiction|]).
    + destruct Hwf as (_ & _ & _ & Hwf). cbn [ssi_chunks]. rewrite (IH _ _ Hwf). lia.
    + destruct Hwf as (_ & _ & _ & Hwf). cbn [ssi_chunks]. rewrite lenZ_cons, (IH _ _ Hwf). lia.
    + destruct Hwf as (_ & _ & [] & _).
Qed.

Theorem getitem_chunks_shape idx shape chunks :
  index_normalized idx shape -> ssi_wf shape chunks (strip_nones idx) ->
  getitem_chunks shape chunks (strip_nones idx) (where_none idx) =
    kept_view (ssi_chunks shape chunks (strip_nones idx)) [1] idx /\
  map zsum (getitem_chunks shape chunks (strip_nones idx) (where_none idx)) = out_shape (np_meaning idx shape).
Proof.
  intros Hn Hwf. unfold getitem_chunks.
  rewrite (where_none_layout [1] idx _ (strip_wf_takes idx shape chunks Hwf)).
  split; [reflexivity|].
  rewrite kept_view_map. change (zsum [1]) with 1.
  destruct (ssi_chunks_shape shape chunks (strip_nones idx) Hwf) as [-> _].
  symmetry. apply out_shape_kept_view. exact Hn.
Qed.

(* index_normalized + valid chunkings give ssi_wf of the stripped index *)
Fixpoint chunks_ok (shape : list Z) (chunks : list (list Z)) : Prop :=
  match shape, chunks with
  | [], [] => True
  | n :: sh, cs :: ch => valid_chunks cs n /\ cs <> [] /\ chunks_ok sh ch
  | _, _ => False
  end.

Lemma normalized_wf idx : forall shape chunks,
  index_normalized idx shape -> chunks_ok shape chunks -> ssi_wf shape chunks (strip_nones idx).
Proof.
  induction idx as [|e t IH]; intros shape chunks Hn Hc.
  - cbn in Hn. subst shape. destruct chunks; [exact I | contradiction].
  - destruct e; cbn [index_normalized] in Hn; cbn [strip_nones filter not_none is_none negb]; fold (strip_nones t).
    + destruct shape as [|n sh]; [contradiction|]. destruct chunks as [|cs ch]; [contradiction|].
      destruct Hn as [Hi Hn]. destruct Hc as (Hv & Hne & Hc). cbn [ssi_wf]. auto.
    + destruct shape as [|n sh]; [contradiction|]. destruct chunks as [|cs ch]; [contradiction|].
      destruct Hn as [Hi Hn]. destruct Hc as (Hv & Hne & Hc). cbn [ssi_wf]. auto.
    + apply IH; assumption.
    + contradiction.
Qed.

(* ---------------------------------------------------------------------- *)
(* Array.__getitem__ on a basic index, end to end *)

Lemma all_colon_meaning idx : forall shape,
  forallb is_colon_elem idx = true -> index_normalized idx shape ->
  np_meaning idx shape = map (fun n => AKeep (sel colon n)) shape.
Proof.
  induction idx as [|e t IH]; intros shape Hc Hn.
  - cbn in Hn. subst shape. reflexivity.
  - cbn [forallb] in Hc. apply andb_true_iff in Hc as [He Ht].
    destruct e; try discriminate. cbn [is_colon_elem] in He. apply pslice_eqb_eq in He. subst s.
    cbn [index_normalized] in Hn. destruct shape as [|n sh]; [contradiction|]. destruct Hn as [_ Hn].
    cbn [np_meaning map]. rewrite (IH sh Ht Hn). reflexivity.
Qed.

Theorem getitem_basic_self idx shape :
  Forall (fun n => 0 <= n) shape -> getitem_basic idx shape = GSelf ->
  np_meaning (np_expand (lenZ shape) idx) shape = map (fun n => AKeep (sel colon n)) shape.
Proof.
  intros Hs H. unfold getitem_basic in H.
  destruct (normalize_index idx shape) as [idx'| | |] eqn:Hn; try discriminate.
  destruct (forallb is_colon_elem idx') eqn:Hc; [|discriminate].
  rewrite <- (normalize_index_meaning idx shape idx' Hs Hn).
  apply all_colon_meaning; [exact Hc|]. apply (normalize_index_normalized idx shape idx' Hs Hn).
Qed.

Theorem getitem_basic_node idx shape chunks index allow axes :
  Forall (fun n => 0 <= n) shape -> chunks_ok shape chunks ->
  getitem_basic idx shape = GNode index allow axes ->
  exists idx', normalize_index idx shape = NOk idx' /\
    index = strip_nones idx' /\ axes = where_none idx' /\
    ssi_wf shape chunks index /\
    np_meaning index shape =
      filter (fun a => negb (is_new a)) (np_meaning (np_expand (lenZ shape) idx) shape) /\
    getitem_chunks shape chunks index axes = kept_view (ssi_chunks shape chunks index) [1] idx' /\
    map zsum (getitem_chunks shape chunks index axes) =
      out_shape (np_meaning (np_expand (lenZ shape) idx) shape).
Proof.
  intros Hs Hck H. unfold getitem_basic in H.
  destruct (normalize_index idx shape) as [idx'| | |] eqn:Hn; try discriminate.
  destruct (forallb is_colon_elem idx'); [discriminate|].
  injection H as <- _ <-. exists idx'.
  pose proof (normalize_index_normalized idx shape idx' Hs Hn) as Hnorm.
  pose proof (normalize_index_meaning idx shape idx' Hs Hn) as Hmean.
  pose proof (normalized_wf idx' shape chunks Hnorm Hck) as Hwf.
  destruct (getitem_chunks_shape idx' shape chunks Hnorm Hwf) as [Hg1 Hg2].
  repeat split; try reflexivity; try assumption.
  - rewrite strip_nones_meaning, Hmean. reflexivity.
  - rewrite Hg2, Hmean. reflexivity.
Qed.

Theorem getitem_basic_err idx shape e :
  getitem_basic idx shape = GErr e -> normalize_index idx shape = e /\ forall idx', e <> NOk idx'.
Proof.
  unfold getitem_basic. destruct (normalize_index idx shape) as [idx'| | |] eqn:Hn.
  - destruct (forallb is_colon_elem idx'); discriminate.
  - intros H. injection H as <-. split; [reflexivity | discriminate].
  - intros H. injection H as <-. split; [reflexivity | discriminate].
  - intros H. injection H as <-. split; [reflexivity | discriminate].
Qed.
