(* Facts about the reference semantics (ProgSem.v), part 3: reductions read their operand in bounds,
   and a reduction over one axis commutes with slicing the other axes. *)
From DA Require Import PyBase PyBaseFacts Slicing NormalizeFacts FuseFacts NdArray NdArrayFacts ProgSem ProgSemFacts ProgSemLaws.
From Coq Require Import ZifyBool.
Open Scope Z_scope.
Ltac Zify.zify_post_hook ::= Z.to_euclidean_division_equations.

(* ---------------------------------------------------------------------- *)
(* insert_at / remove_at, position by position *)
Lemma insert_at_length {A} k (v : A) l : (k <= length l)%nat -> length (insert_at k v l) = S (length l).
Proof. intros H. unfold insert_at. rewrite app_length, firstn_length, Nat.min_l by exact H. cbn [length]. rewrite skipn_length. lia. Qed.

Lemma remove_at_length {A} k (l : list A) : (k < length l)%nat -> length (remove_at k l) = (length l - 1)%nat.
Proof. intros H. unfold remove_at. rewrite app_length, firstn_length, skipn_length. lia. Qed.

Lemma nth_firstn_lt {A} (d : A) : forall k j l, (j < k)%nat -> nth j (firstn k l) d = nth j l d.
Proof.
  induction k as [|k IH]; intros j l H; [lia|]. destruct l as [|x l]; [reflexivity|].
  destruct j as [|j]; [reflexivity|]. cbn [firstn nth]. apply IH. lia.
Qed.

Lemma nth_skipn_add {A} (d : A) : forall k j l, nth j (skipn k l) d = nth (k + j) l d.
Proof.
  induction k as [|k IH]; intros j l; [reflexivity|]. destruct l as [|x l]; [destruct j; reflexivity|].
  cbn [skipn Nat.add nth]. apply IH.
Qed.

Lemma nth_insert_at {A} k (v : A) l j d : (k <= length l)%nat ->
  nth j (insert_at k v l) d = if Nat.ltb j k then nth j l d else if Nat.eqb j k then v else nth (j - 1) l d.
Proof.
  intros H. unfold insert_at.
  destruct (Nat.ltb j k) eqn:E1; [apply Nat.ltb_lt in E1 | apply Nat.ltb_ge in E1].
  - rewrite app_nth1 by (rewrite firstn_length; lia). apply nth_firstn_lt. exact E1.
  - rewrite app_nth2 by (rewrite firstn_length; lia). rewrite firstn_length, Nat.min_l by exact H.
    destruct (Nat.eqb j k) eqn:E2; [apply Nat.eqb_eq in E2 | apply Nat.eqb_neq in E2].
    + subst j. rewrite Nat.sub_diag. reflexivity.
    + replace (j - k)%nat with (S (j - k - 1)) by lia. cbn [nth]. rewrite nth_skipn_add. f_equal. lia.
Qed.

Lemma nth_remove_at {A} k (l : list A) j d :
  nth j (remove_at k l) d = if Nat.ltb j k then nth j l d else nth (S j) l d.
Proof.
  unfold remove_at. destruct (Nat.le_gt_cases (length l) k) as [Hk|Hk].
  - rewrite firstn_all2 by exact Hk. rewrite skipn_all2 by lia. rewrite app_nil_r.
    destruct (Nat.ltb j k) eqn:E; [reflexivity|]. apply Nat.ltb_ge in E. rewrite !nth_overflow by lia. reflexivity.
  - destruct (Nat.ltb j k) eqn:E1; [apply Nat.ltb_lt in E1 | apply Nat.ltb_ge in E1].
    + rewrite app_nth1 by (rewrite firstn_length; lia). apply nth_firstn_lt. exact E1.
    + rewrite app_nth2 by (rewrite firstn_length; lia). rewrite firstn_length, Nat.min_l by lia.
      rewrite nth_skipn_add. f_equal. lia.
Qed.

(* ---------------------------------------------------------------------- *)
(* every reduction reads its operand in bounds *)
Lemma red_src_in_bounds axes (kd : bool) : forall s pos r out,
  in_bounds r (red_rshape pos axes s) ->
  in_bounds out (if kd then red_kshape pos axes s else drop_axes_from pos axes s) ->
  in_bounds (red_src pos axes kd r out) s.
Proof.
  induction s as [|n s IH]; intros pos r out Hr Ho; cbn [red_rshape] in Hr.
  - destruct r; cbn [in_bounds] in Hr; [exact I | tauto].
  - destruct r as [|ri r]; cbn [in_bounds] in Hr; [tauto|]. destruct Hr as [Hri Hr].
    cbn [red_src red_kshape drop_axes_from] in *.
    destruct (memn pos axes) eqn:E.
    + cbn [in_bounds]. split; [exact Hri|]. apply IH; [exact Hr|].
      destruct kd; [|exact Ho]. destruct out as [|o out]; cbn [in_bounds] in Ho; [tauto|]. cbn [tl]. tauto.
    + assert (in_bounds out (n :: (if kd then red_kshape (S pos) axes s else drop_axes_from (S pos) axes s))) as Ho'
        by (destruct kd; exact Ho).
      destruct out as [|o out]; cbn [in_bounds] in Ho'; [tauto|]. cbn [hd tl in_bounds].
      split; [lia|]. apply IH; [exact Hr | tauto].
Qed.

Lemma congr_reduce f axes kd : un_congr (OReduce f axes kd).
Proof.
  intros y y' Hn Hok [Hs Hg]. cbn [un_arr]. split; cbn [areduce shape get]; rewrite <- Hs; [reflexivity|].
  intros out Ho. f_equal. apply map_ext_in. intros r Hr. apply Hg.
  apply red_src_in_bounds; [apply all_indices_in_bounds; exact Hr|].
  unfold red_oshape in Ho. exact Ho.
Qed.

(* ---------------------------------------------------------------------- *)
(* one reduced axis *)
Lemma memn_single x y : memn x [y] = Nat.eqb x y.
Proof. unfold memn. cbn [existsb]. apply orb_false_r. Qed.

Lemma red_src_nomatch axes kd : forall r pos out,
  (forall j, memn (pos + j) axes = false) -> length out = length r -> red_src pos axes kd r out = out.
Proof.
  induction r as [|ri r IH]; intros pos out H Hl; cbn [red_src].
  - destruct out; [reflexivity | discriminate].
  - destruct out as [|o out]; [discriminate|]. pose proof (H O) as H0. rewrite Nat.add_0_r in H0. rewrite H0.
    cbn [hd tl]. f_equal. apply IH; [|cbn [length] in Hl; lia].
    intros j. replace (S pos + j)%nat with (pos + S j)%nat by lia. apply H.
Qed.

Lemma red_src_single_drop : forall ax pos r out, (ax < length r)%nat -> length r = S (length out) ->
  red_src pos [(pos + ax)%nat] false r out = insert_at ax (nth ax r 0) out.
Proof.
  induction ax as [|ax IH]; intros pos [|ri r] out Hax Hl; cbn [length] in *; try lia; cbn [red_src]; rewrite memn_single.
  - rewrite Nat.add_0_r, Nat.eqb_refl. unfold insert_at. cbn [firstn skipn app nth]. f_equal.
    apply red_src_nomatch; [|lia]. intros j. rewrite memn_single. apply Nat.eqb_neq. lia.
  - replace (Nat.eqb pos (pos + S ax)) with false by (symmetry; apply Nat.eqb_neq; lia).
    destruct out as [|o out]; cbn [length] in Hl; [lia|]. cbn [hd tl nth]. unfold insert_at. cbn [firstn skipn app].
    f_equal. replace (pos + S ax)%nat with (S pos + ax)%nat by lia. apply IH; lia.
Qed.

Lemma red_src_single_keep : forall ax pos r out, length r = length out ->
  red_src pos [(pos + ax)%nat] true r out = set_nth ax (nth ax r 0) out.
Proof.
  induction ax as [|ax IH]; intros pos [|ri r] [|o out] Hl; cbn [length] in *; try lia; try reflexivity;
    cbn [red_src]; rewrite memn_single.
  - rewrite Nat.add_0_r, Nat.eqb_refl. cbn [set_nth nth tl]. f_equal.
    apply red_src_nomatch; [|lia]. intros j. rewrite memn_single. apply Nat.eqb_neq. lia.
  - replace (Nat.eqb pos (pos + S ax)) with false by (symmetry; apply Nat.eqb_neq; lia).
    cbn [hd tl nth set_nth]. f_equal. replace (pos + S ax)%nat with (S pos + ax)%nat by lia. apply IH. lia.
Qed.

Lemma red_rshape_length axes : forall s pos, length (red_rshape pos axes s) = length s.
Proof. induction s as [|n s IH]; intros pos; cbn [red_rshape length]; [reflexivity|]. rewrite IH. reflexivity. Qed.

Lemma red_rshape_nth axes : forall s pos k, (k < length s)%nat ->
  nth k (red_rshape pos axes s) 0 = if memn (pos + k) axes then nth k s 0 else 1.
Proof.
  induction s as [|n s IH]; intros pos k Hk; cbn [length] in Hk; [lia|].
  cbn [red_rshape]. destruct k as [|k]; cbn [nth]; [rewrite Nat.add_0_r; reflexivity|].
  rewrite IH by lia. replace (S pos + k)%nat with (pos + S k)%nat by lia. reflexivity.
Qed.

Lemma red_kshape_length axes : forall s pos, length (red_kshape pos axes s) = length s.
Proof. induction s as [|n s IH]; intros pos; cbn [red_kshape length]; [reflexivity|]. rewrite IH. reflexivity. Qed.

Lemma red_kshape_nth axes : forall s pos k, (k < length s)%nat ->
  nth k (red_kshape pos axes s) 0 = if memn (pos + k) axes then 1 else nth k s 0.
Proof.
  induction s as [|n s IH]; intros pos k Hk; cbn [length] in Hk; [lia|].
  cbn [red_kshape]. destruct k as [|k]; cbn [nth]; [rewrite Nat.add_0_r; reflexivity|].
  rewrite IH by lia. replace (S pos + k)%nat with (pos + S k)%nat by lia. reflexivity.
Qed.

Lemma drop_nomatch axes : forall (s : list Z) pos, (forall j, memn (pos + j) axes = false) -> drop_axes_from pos axes s = s.
Proof.
  induction s as [|n s IH]; intros pos H; cbn [drop_axes_from]; [reflexivity|].
  pose proof (H O) as H0. rewrite Nat.add_0_r in H0. rewrite H0. f_equal. apply IH.
  intros j. replace (S pos + j)%nat with (pos + S j)%nat by lia. apply H.
Qed.

Lemma drop_single : forall ax pos (s : list Z), drop_axes_from pos [(pos + ax)%nat] s = remove_at ax s.
Proof.
  induction ax as [|ax IH]; intros pos [|n s]; cbn [drop_axes_from]; try reflexivity; try (destruct ax; reflexivity); rewrite memn_single.
  - rewrite Nat.add_0_r, Nat.eqb_refl. unfold remove_at. cbn [firstn skipn app].
    apply drop_nomatch. intros j. rewrite memn_single. apply Nat.eqb_neq. lia.
  - replace (Nat.eqb pos (pos + S ax)) with false by (symmetry; apply Nat.eqb_neq; lia).
    unfold remove_at. cbn [firstn skipn app]. f_equal.
    replace (pos + S ax)%nat with (S pos + ax)%nat by lia. apply IH.
Qed.

(* ---------------------------------------------------------------------- *)
(* reduce over one axis commutes with slicing the other axes *)

Lemma red_oshape_single ax kd s :
  red_oshape [ax] kd s = if kd then red_kshape 0 [ax] s else remove_at ax s.
Proof. unfold red_oshape. destruct kd; [reflexivity|]. apply (drop_single ax 0). Qed.

Lemma map_remove_at {A B} (f : A -> B) k l : map f (remove_at k l) = remove_at k (map f l).
Proof. unfold remove_at. rewrite map_app, firstn_map, skipn_map. reflexivity. Qed.

Section ReduceSlice.
  Variable ax : nat.
  Variable sl : list pslice.
  Variable s : list Z.
  Hypothesis Hs : nonneg_shape s.
  Hypothesis Hl : length sl = length s.
  Hypothesis Hax : (ax < length s)%nat.
  Hypothesis Hcolon : nth ax sl colon = colon.

  Let s2 := slice_shape (map ISlice sl) s.

  Lemma rs_rshape : red_rshape 0 [ax] s2 = red_rshape 0 [ax] s.
  Proof.
    apply list_eq_nth0; [rewrite !red_rshape_length; apply sl_shape_length; exact Hl|].
    intros k Hk. rewrite red_rshape_length in Hk. unfold s2 in Hk. rewrite sl_shape_length in Hk by exact Hl.
    rewrite !red_rshape_nth by (unfold s2; rewrite ?sl_shape_length by exact Hl; exact Hk).
    rewrite memn_single. cbn [Nat.add]. destruct (Nat.eqb k ax) eqn:E; [|reflexivity].
    apply Nat.eqb_eq in E. subst k. unfold s2. rewrite sl_shape_nth by lia. rewrite Hcolon.
    apply slice_len_colon. apply nonneg_nth. exact Hs.
  Qed.

  (* shapes *)
  Lemma rs_shape_keep : red_kshape 0 [ax] s2 = slice_shape (map ISlice sl) (red_kshape 0 [ax] s).
  Proof.
    apply list_eq_nth0.
    - rewrite red_kshape_length. unfold s2. rewrite !sl_shape_length by (rewrite ?red_kshape_length; exact Hl).
      rewrite red_kshape_length. reflexivity.
    - intros k Hk. rewrite red_kshape_length in Hk. unfold s2 in Hk. rewrite sl_shape_length in Hk by exact Hl.
      rewrite red_kshape_nth by (unfold s2; rewrite sl_shape_length by exact Hl; exact Hk).
      rewrite sl_shape_nth by lia. rewrite red_kshape_nth by exact Hk.
      rewrite memn_single. cbn [Nat.add]. destruct (Nat.eqb k ax) eqn:E.
      + apply Nat.eqb_eq in E. subst k. rewrite Hcolon. symmetry. apply slice_len_colon. lia.
      + unfold s2. apply sl_shape_nth. lia.
  Qed.

  Lemma rs_shape_drop : remove_at ax s2 = slice_shape (map ISlice (remove_at ax sl)) (remove_at ax s).
  Proof.
    assert (length (remove_at ax sl) = length (remove_at ax s)) as Hlr by (rewrite !remove_at_length by lia; lia).
    apply list_eq_nth0.
    - rewrite sl_shape_length by exact Hlr. rewrite !remove_at_length by (unfold s2; rewrite ?sl_shape_length by exact Hl; lia).
      unfold s2. rewrite sl_shape_length by exact Hl. reflexivity.
    - intros k Hk. rewrite remove_at_length in Hk by (unfold s2; rewrite sl_shape_length by exact Hl; lia).
      unfold s2 in Hk. rewrite sl_shape_length in Hk by exact Hl.
      rewrite sl_shape_nth by (rewrite remove_at_length by lia; lia).
      rewrite !nth_remove_at. unfold s2. destruct (Nat.ltb k ax); rewrite sl_shape_nth by lia; reflexivity.
  Qed.

  (* index maps *)
  Lemma rs_src_keep v out : length out = length s -> 0 <= v < nth ax s 0 ->
    slice_src (map ISlice sl) s (set_nth ax v out) =
    set_nth ax v (slice_src (map ISlice sl) (red_kshape 0 [ax] s) out).
  Proof.
    intros Hlo Hv. apply list_eq_nth0.
    - rewrite set_nth_length, !sl_src_length by (rewrite ?set_nth_length; lia). reflexivity.
    - intros k Hk. rewrite sl_src_length in Hk by (rewrite set_nth_length; lia).
      rewrite sl_src_nth by exact Hk. destruct (Nat.eq_dec k ax) as [->|Hne].
      + rewrite !nth_set_nth_eq by (rewrite ?sl_src_length; lia). rewrite Hcolon. apply nthZ_sel_colon. exact Hv.
      + rewrite !nth_set_nth_neq by congruence. rewrite sl_src_nth by exact Hk.
        rewrite red_kshape_nth by lia. rewrite memn_single. cbn [Nat.add].
        apply Nat.eqb_neq in Hne. rewrite Hne. reflexivity.
  Qed.

  Lemma rs_src_drop v out : S (length out) = length s -> 0 <= v < nth ax s 0 ->
    slice_src (map ISlice sl) s (insert_at ax v out) =
    insert_at ax v (slice_src (map ISlice (remove_at ax sl)) (remove_at ax s) out).
  Proof.
    intros Hlo Hv.
    assert (length (remove_at ax sl) = length out) as Hlr by (rewrite remove_at_length by lia; lia).
    apply list_eq_nth0.
    - rewrite sl_src_length by (rewrite insert_at_length by lia; lia).
      rewrite insert_at_length by (rewrite sl_src_length by lia; lia). rewrite sl_src_length by lia. lia.
    - intros k Hk. rewrite sl_src_length in Hk by (rewrite insert_at_length by lia; lia).
      rewrite sl_src_nth by exact Hk.
      rewrite !nth_insert_at by (rewrite ?sl_src_length by lia; lia).
      destruct (Nat.ltb k ax) eqn:E1; [apply Nat.ltb_lt in E1 | apply Nat.ltb_ge in E1].
      + rewrite sl_src_nth by lia. rewrite !nth_remove_at. apply Nat.ltb_lt in E1. rewrite E1. reflexivity.
      + destruct (Nat.eqb k ax) eqn:E2; [apply Nat.eqb_eq in E2 | apply Nat.eqb_neq in E2].
        * subst k. rewrite Hcolon. apply nthZ_sel_colon. exact Hv.
        * rewrite sl_src_nth by lia. rewrite !nth_remove_at.
          replace (Nat.ltb (k - 1) ax) with false by (symmetry; apply Nat.ltb_ge; lia).
          replace (S (k - 1)) with k by lia. reflexivity.
  Qed.

  Lemma rs_rindex r : in_bounds r (red_rshape 0 [ax] s) -> length r = length s /\ 0 <= nth ax r 0 < nth ax s 0.
  Proof.
    intros H. apply in_bounds_iff_nth in H. destruct H as [Hlr H]. rewrite red_rshape_length in *.
    split; [exact Hlr|]. specialize (H ax Hax). rewrite red_rshape_nth in H by exact Hax.
    rewrite memn_single in H. cbn [Nat.add] in H. rewrite Nat.eqb_refl in H. exact H.
  Qed.

  Theorem reduce_slice_arr f kd (x : arr Z) : shape x = s ->
    aeq (aslice (map ISlice (red_index ax kd sl)) (areduce f [ax] kd x))
        (areduce f [ax] kd (aslice (map ISlice sl) x)).
  Proof.
    intros Hx. split; cbn [aslice areduce shape get]; rewrite Hx; fold s2.
    - rewrite !red_oshape_single. unfold red_index. destruct kd; [symmetry; apply rs_shape_keep | symmetry; apply rs_shape_drop].
    - rewrite rs_rshape. intros out Ho. f_equal. apply map_ext_in. intros r Hr.
      apply all_indices_in_bounds in Hr. destruct (rs_rindex r Hr) as [Hlr Hv].
      f_equal. rewrite red_oshape_single in *. unfold red_index in *.
      pose proof (in_bounds_length _ _ Ho) as Hlo.
      destruct kd.
      + rewrite sl_shape_length in Hlo by (rewrite red_kshape_length; exact Hl). rewrite red_kshape_length in Hlo.
        pose proof (red_src_single_keep ax 0) as Hk. cbn [Nat.add] in Hk.
        rewrite (Hk r out) by lia. rewrite Hk by (rewrite sl_src_length by lia; lia).
        symmetry. apply rs_src_keep; assumption.
      + rewrite sl_shape_length in Hlo by (rewrite !remove_at_length by lia; lia). rewrite remove_at_length in Hlo by lia.
        pose proof (red_src_single_drop ax 0) as Hk. cbn [Nat.add] in Hk.
        rewrite (Hk r out) by lia. rewrite Hk by (rewrite ?sl_src_length by (rewrite remove_at_length by lia; lia); rewrite ?remove_at_length by lia; lia).
        symmetry. apply rs_src_drop; [lia | assumption].
  Qed.
End ReduceSlice.

Lemma forallb_remove_at {A} (P : A -> bool) (d : A) : forall k l, (k < length l)%nat ->
  forallb P l = forallb P (remove_at k l) && P (nth k l d).
Proof.
  induction k as [|k IH]; intros [|x l] H; cbn [length] in H; try lia.
  - unfold remove_at. cbn [firstn skipn app nth forallb]. apply andb_comm.
  - unfold remove_at in *. cbn [firstn skipn app nth forallb]. rewrite (IH l) by lia. rewrite andb_assoc. reflexivity.
Qed.

Lemma un_ok_reduce_slice f ax kd sl s :
  nonneg_shape s -> length sl = length s -> (ax < length s)%nat -> nth ax sl colon = colon ->
  un_ok (OReduce f (Some [ax]) kd) (slice_shape (map ISlice sl) s) = un_ok (OReduce f (Some [ax]) kd) s.
Proof.
  intros Hs Hl Hax Hc. cbn [un_ok red_axes]. rewrite sl_shape_length by exact Hl.
  rewrite (rs_rshape ax sl s Hs Hl Hax Hc). reflexivity.
Qed.

Theorem eval_slice_reduce f ax kd sl p s r :
  pshape p = Some s -> length sl = length s -> nth ax sl colon = colon ->
  eval (PSlice (map ISlice (red_index ax kd sl)) (PReduce f (Some [ax]) kd p)) = Some r ->
  eval (PReduce f (Some [ax]) kd (PSlice (map ISlice sl) p)) = Some r.
Proof.
  intros Hp Hl Hcolon H.
  destruct (eval_un_un_inv (OSlice (map ISlice (red_index ax kd sl))) (OReduce f (Some [ax]) kd) p r eq_refl eq_refl (congr_slice _) H)
    as (a & Ea & Hs & Hok2 & Hok1 & ->).
  pose proof (eval_some_pshape p a Ea) as Hp'. rewrite Hp in Hp'. injection Hp' as Hp'. subst s.
  assert (ax < length (nshape a))%nat as Hax.
  { cbn [un_ok red_axes forallb] in Hok2. unfold ltn in Hok2. rewrite !andb_true_iff in Hok2.
    destruct Hok2 as [[[[Hlt _] _] _] _]. apply Nat.ltb_lt. exact Hlt. }
  assert (sl_okb sl = true) as Hsl.
  { cbn [un_ok un_shape red_axes] in Hok1. rewrite red_oshape_single in Hok1. unfold red_index in *.
    destruct kd.
    - rewrite ixokb_sl in Hok1 by (rewrite red_kshape_length; exact Hl). exact Hok1.
    - rewrite ixokb_sl in Hok1 by (rewrite !remove_at_length by lia; lia).
      unfold sl_okb in *. rewrite (forallb_remove_at _ colon ax sl) by lia. rewrite Hok1, Hcolon. reflexivity. }
  rewrite (eval_un_un_intro (OReduce f (Some [ax]) kd) (OSlice (map ISlice sl)) p a eq_refl eq_refl (congr_reduce _ _ _) Ea).
  - f_equal. apply to_nd_ext. apply aeq_sym. cbn [un_arr red_axes].
    apply (reduce_slice_arr ax sl (nshape a)); try assumption. reflexivity.
  - cbn [un_ok]. rewrite ixokb_sl by exact Hl. exact Hsl.
  - cbn [un_shape]. rewrite un_ok_reduce_slice by assumption. exact Hok2.
Qed.
