(* C12 (fancy path) — proofs about TakeModel.v: normalisation, location of an element,
   grouping into output chunks, value-level correctness of the plan, bounds. *)
From Coq Require Import ZArith List Bool Lia Permutation.
From Coq Require Import ZifyBool.
From DA Require Import PyBase PyBaseFacts Transfer2 TakeModel.
Import ListNotations.
Open Scope Z_scope.
Ltac Zify.zify_post_hook ::= Z.to_euclidean_division_equations.

Lemma pos_nonneg chunks : pos_chunks chunks -> nonneg_chunks chunks.
Proof. unfold pos_chunks, nonneg_chunks. intros H. eapply Forall_impl; [|exact H]. cbn. intros; lia. Qed.

Lemma zlen_nil {A} : zlen (@nil A) = 0.
Proof. reflexivity. Qed.
Lemma zlen_cons {A} (x : A) l : zlen (x :: l) = 1 + zlen l.
Proof. unfold zlen. cbn [length]. lia. Qed.
Lemma zlen_app {A} (a b : list A) : zlen (a ++ b) = zlen a + zlen b.
Proof. unfold zlen. rewrite app_length. lia. Qed.
Lemma zlen_nonneg {A} (l : list A) : 0 <= zlen l.
Proof. unfold zlen. lia. Qed.
Lemma zlen_0_nil {A} (l : list A) : zlen l <= 0 -> l = [].
Proof. destruct l; [reflexivity|]. rewrite zlen_cons. pose proof (zlen_nonneg l). lia. Qed.
Lemma zlen_map {A B} (f : A -> B) l : zlen (map f l) = zlen l.
Proof. unfold zlen. rewrite map_length. reflexivity. Qed.

Lemma zl_eqb_true : forall a b : list Z, zlist_eqb a b = true -> a = b.
Proof.
  unfold zlist_eqb. induction a as [|x a IH]; intros [|y b] H; cbn [list_eqb] in H; try discriminate.
  - reflexivity.
  - apply andb_prop in H as [H1 H2]. apply Z.eqb_eq in H1. subst. f_equal. apply IH. exact H2.
Qed.

(* ====================================================================== *)
(* (a) normalisation *)

Lemma take_normalize_guard d : forall idx,
  existsb (fun i => d <=? i) idx || existsb (fun i => i <? - d) idx = false <->
  Forall (np_in_range d) idx.
Proof.
  induction idx as [|i t IH]; cbn [existsb].
  - split; [constructor | reflexivity].
  - split.
    + intros H. apply orb_false_elim in H as [H1 H2].
      apply orb_false_elim in H1 as [A1 A2]. apply orb_false_elim in H2 as [B1 B2].
      constructor; [unfold np_in_range; lia|]. apply IH. rewrite A2, B2. reflexivity.
    + intros H. inversion H as [|? ? Hi Ht]; subst. apply IH in Ht.
      apply orb_false_elim in Ht as [A2 B2]. rewrite A2, B2. unfold np_in_range in Hi.
      replace (d <=? i) with false by lia. replace (i <? - d) with false by lia. reflexivity.
Qed.

Theorem take_normalize_accepts_iff d idx :
  (exists n, take_normalize d idx = Some n) <-> Forall (np_in_range d) idx.
Proof.
  unfold take_normalize. split.
  - intros [n H]. destruct (_ || _) eqn:E; [discriminate|]. apply take_normalize_guard. exact E.
  - intros H. apply take_normalize_guard in H. rewrite H. eexists. reflexivity.
Qed.

Theorem take_normalize_rejects_iff d idx :
  take_normalize d idx = None <-> Exists (fun i => i < - d \/ d <= i) idx.
Proof.
  unfold take_normalize.
  assert (existsb (fun i => d <=? i) idx || existsb (fun i => i <? - d) idx = true <->
          Exists (fun i => i < - d \/ d <= i) idx) as G.
  { induction idx as [|i t IH]; cbn [existsb].
    - split; [discriminate | intros H; inversion H].
    - split.
      + intros H. destruct (d <=? i) eqn:E1; [left; lia|]. destruct (i <? - d) eqn:E2; [left; lia|].
        right. apply IH. cbn [orb] in H. exact H.
      + intros H. inversion H as [? ? Hi|? ? Ht]; subst.
        * destruct Hi; [replace (i <? - d) with true by lia | replace (d <=? i) with true by lia];
            cbn [orb]; rewrite ?orb_true_r; reflexivity.
        * apply IH in Ht. apply orb_prop in Ht as [Ht|Ht]; rewrite Ht; rewrite ?orb_true_r; reflexivity. }
  destruct (_ || _); split; intros H; try reflexivity; try discriminate.
  - apply G. reflexivity.
  - apply G in H. discriminate.
Qed.

Theorem take_normalize_value d idx n :
  take_normalize d idx = Some n ->
  n = map (np_pos d) idx /\ Forall (fun j => 0 <= j < d) n /\
  Forall (fun i => np_pos d i = i mod d) idx.
Proof.
  intros H.
  assert (Forall (np_in_range d) idx) as F by (apply take_normalize_accepts_iff; eexists; exact H).
  unfold take_normalize in H. destruct (_ || _); [discriminate|]. injection H as <-.
  split; [reflexivity|]. split.
  - rewrite Forall_forall. intros j Hj. apply in_map_iff in Hj. destruct Hj as (i & <- & Hi).
    rewrite Forall_forall in F. specialize (F i Hi). unfold np_in_range in F.
    unfold np_pos. destruct (i <? 0) eqn:E; lia.
  - rewrite Forall_forall. intros i Hi. rewrite Forall_forall in F. specialize (F i Hi).
    unfold np_in_range in F. unfold np_pos. destruct (i <? 0) eqn:E.
    + apply Z.mod_unique with (q := -1); lia.
    + symmetry. apply Z.mod_small. lia.
Qed.

(* ====================================================================== *)
(* locating an element: bisect_right on the cumulative sums *)

Lemma locate_from : forall l acc x,
  nonneg_chunks l -> acc <= x < acc + zsum l ->
  exists k : nat,
    bisect_right (cumsum_from acc l) x = Z.of_nat k /\ (k < length l)%nat /\
    (if 0 <? Z.of_nat k then nthZ (cumsum_from acc l) (Z.of_nat k - 1) else acc)
      = acc + zsum (firstn k l) /\
    acc + zsum (firstn k l) <= x < acc + zsum (firstn k l) + nth k l 0.
Proof.
  induction l as [|c t IH]; intros acc x Hnn Hx.
  - cbn [zsum] in Hx. lia.
  - inversion Hnn as [|? ? Hc Ht]; subst. cbn [cumsum_from bisect_right zsum] in *.
    destruct (acc + c <=? x) eqn:E.
    + destruct (IH (acc + c) x Ht ltac:(lia)) as (k & Hb & Hk & Hs & Hr).
      exists (S k). rewrite Hb. split; [lia|]. split; [cbn [length]; lia|].
      cbn [firstn zsum nth]. split; [|lia].
      replace (0 <? Z.of_nat (S k)) with true by lia.
      unfold nthZ. replace (Z.to_nat (Z.of_nat (S k) - 1)) with k by lia.
      destruct k as [|k'].
      * cbn [nth firstn zsum]. lia.
      * cbn [nth]. replace (0 <? Z.of_nat (S k')) with true in Hs by lia.
        unfold nthZ in Hs. replace (Z.to_nat (Z.of_nat (S k') - 1)) with k' in Hs by lia.
        rewrite Hs. lia.
    + exists O. split; [reflexivity|]. split; [cbn [length]; lia|].
      cbn [firstn zsum nth]. split; [cbn; lia | lia].
Qed.

Theorem take_pair_spec chunks i :
  nonneg_chunks chunks -> 0 <= i < zsum chunks ->
  pair_ok chunks (take_pair chunks i) /\
  zsum (firstn (Z.to_nat (fst (take_pair chunks i))) chunks) + snd (take_pair chunks i) = i.
Proof.
  intros Hnn Hi. destruct (locate_from chunks 0 i Hnn ltac:(lia)) as (k & Hb & Hk & Hs & Hr).
  unfold take_pair, take_block, take_start, cumsum, pair_ok. cbn [fst snd]. rewrite Hb, Hs.
  unfold nthZ, zlen. rewrite Nat2Z.id. lia.
Qed.

(* ====================================================================== *)
(* reading a block *)

Lemma nth_skipn' {A} (d : A) : forall s (l : list A) i, nth i (skipn s l) d = nth (s + i) l d.
Proof.
  induction s as [|s IH]; intros l i; [reflexivity|].
  destruct l as [|x l]; cbn [skipn plus nth]; [destruct i; reflexivity | apply IH].
Qed.

Lemma nth_firstn' {A} (d : A) : forall n (l : list A) i, (i < n)%nat -> nth i (firstn n l) d = nth i l d.
Proof.
  induction n as [|n IH]; intros l i Hi; [lia|].
  destruct l as [|x l]; [reflexivity|]. destruct i as [|i]; [reflexivity|].
  cbn [firstn nth]. apply IH. lia.
Qed.

Lemma Forall_firstn' {A} (P : A -> Prop) : forall n l, Forall P l -> Forall P (firstn n l).
Proof.
  induction n as [|n IH]; intros l H; [constructor|].
  destruct l as [|x l]; [constructor|]. inversion H; subst. cbn [firstn]. constructor; [assumption|].
  apply IH. assumption.
Qed.

Lemma nth_in_block {A} (dflt : A) chunks (l : list A) b o :
  nonneg_chunks chunks -> 0 <= b -> 0 <= o < nthZ chunks b ->
  nth (Z.to_nat o) (in_block chunks l b) dflt
  = nth (Z.to_nat (zsum (firstn (Z.to_nat b) chunks) + o)) l dflt.
Proof.
  intros Hnn Hb Ho. unfold in_block.
  rewrite nth_firstn' by lia. rewrite nth_skipn'. f_equal.
  assert (0 <= zsum (firstn (Z.to_nat b) chunks)) as H0.
  { apply zsum_nonneg. apply Forall_firstn'. exact Hnn. }
  lia.
Qed.

Theorem take_pair_reads {A} (dflt : A) chunks (l : list A) i :
  nonneg_chunks chunks -> 0 <= i < zsum chunks ->
  nth (Z.to_nat (snd (take_pair chunks i))) (in_block chunks l (fst (take_pair chunks i))) dflt
  = nth (Z.to_nat i) l dflt.
Proof.
  intros Hnn Hi. destruct (take_pair_spec chunks i Hnn Hi) as [[Hb Ho] Hs].
  rewrite nth_in_block by (try assumption; lia). rewrite Hs. reflexivity.
Qed.

(* ====================================================================== *)
(* _compute_indexer *)

Lemma take_runs_spec chunks : forall index,
  concat (take_runs chunks index) = index /\ Forall (fun g => g <> []) (take_runs chunks index).
Proof.
  induction index as [|i t IH]; [split; [reflexivity | constructor]|].
  destruct IH as [IHc IHn].
  cbn [take_runs]. destruct (take_runs chunks t) as [|[|j g] gs] eqn:E.
  - cbn [concat] in IHc. subst t. split; [reflexivity | repeat constructor; discriminate].
  - apply Forall_inv in IHn. congruence.
  - pose proof (Forall_inv_tail IHn) as Hgs.
    destruct (take_block chunks i =? take_block chunks j).
    + split; [cbn [concat app] in *; rewrite IHc; reflexivity | constructor; [discriminate | exact Hgs]].
    + split; [cbn [concat app] in *; rewrite IHc; reflexivity |
              constructor; [discriminate | constructor; [discriminate | exact Hgs]]].
Qed.

Theorem compute_indexer_concat chunks index : concat (compute_indexer chunks index) = index.
Proof. destruct index; [reflexivity|]. apply take_runs_spec. Qed.

(* every run stays inside one input chunk *)
Lemma take_runs_same_block chunks : forall index,
  Forall (fun g => forall a b, In a g -> In b g -> take_block chunks a = take_block chunks b)
         (take_runs chunks index).
Proof.
  induction index as [|i t IH]; [constructor|].
  cbn [take_runs]. destruct (take_runs chunks t) as [|[|j g] gs] eqn:E.
  - constructor; [|constructor]. intros a b [<-|[]] [<-|[]]. reflexivity.
  - constructor; [|constructor]. intros a b [<-|[]] [<-|[]]. reflexivity.
  - inversion IH as [|? ? Hg Hgs]; subst.
    destruct (take_block chunks i =? take_block chunks j) eqn:Eb.
    + apply Z.eqb_eq in Eb. constructor; [|exact Hgs].
      assert (forall a, In a (i :: j :: g) -> take_block chunks a = take_block chunks j) as K.
      { intros a [<-|Ha]; [exact Eb | apply Hg; [exact Ha | left; reflexivity]]. }
      intros a b Ha Hb. rewrite (K a Ha), (K b Hb). reflexivity.
    + constructor; [|constructor; assumption]. intros a b [<-|[]] [<-|[]]. reflexivity.
Qed.

(* ====================================================================== *)
(* Shuffle._new_chunks (Transfer2.nc_loop) *)

Lemma chop_concat n : (1 <= n)%nat -> forall fuel idx, (length idx <= fuel)%nat ->
  concat (chop fuel n idx) = idx.
Proof.
  intros Hn. induction fuel as [|f IH]; intros idx Hl.
  - destruct idx; [reflexivity | cbn [length] in Hl; lia].
  - destruct idx as [|x idx]; [reflexivity|]. cbn [chop concat].
    rewrite IH.
    + apply firstn_skipn.
    + rewrite skipn_length. cbn [length] in *. lia.
Qed.

Lemma chop_sizes n : (1 <= n)%nat -> forall fuel idx,
  Forall (fun g => 1 <= zlen g <= Z.of_nat n) (chop fuel n idx).
Proof.
  intros Hn. induction fuel as [|f IH]; intros idx; [constructor|].
  destruct idx as [|x idx]; [constructor|]. cbn [chop]. constructor; [|apply IH].
  unfold zlen. rewrite firstn_length. cbn [length]. lia.
Qed.

Definition sizes_ok (limit : Z) (gs : list (list Z)) : Prop :=
  Forall (fun g => 1 <= zlen g <= limit) gs.

Lemma concat_rev_cons {A} (x : list A) l : concat (rev (x :: l)) = concat (rev l) ++ x.
Proof. cbn [rev]. rewrite concat_app. cbn [concat]. rewrite app_nil_r. reflexivity. Qed.

Lemma nc_loop_spec limit : 1 <= limit -> forall indexer current done,
  sizes_ok limit done -> zlen current <= limit ->
  concat (nc_loop limit indexer current done) = concat (rev done) ++ current ++ concat indexer /\
  sizes_ok limit (nc_loop limit indexer current done).
Proof.
  intros Hlim. unfold sizes_ok.
  induction indexer as [|idx rest IH]; intros current done Hd Hc; cbn [nc_loop].
  - destruct (0 <? zlen current) eqn:E.
    + split.
      * rewrite concat_rev_cons. cbn [concat]. rewrite app_nil_r. reflexivity.
      * apply Forall_rev. constructor; [lia | exact Hd].
    + assert (current = []) as -> by (apply zlen_0_nil; lia). split.
      * cbn [concat app]. rewrite app_nil_r. reflexivity.
      * apply Forall_rev. exact Hd.
  - destruct (limit <? zlen idx) eqn:E1.
    + set (done1 := if 0 <? zlen current then current :: done else done).
      assert (Forall (fun g => 1 <= zlen g <= limit) done1 /\
              concat (rev done1) = concat (rev done) ++ current) as [Hd1 Hc1].
      { subst done1. destruct (0 <? zlen current) eqn:E.
        - split; [constructor; [lia | exact Hd] | apply concat_rev_cons].
        - assert (current = []) as -> by (apply zlen_0_nil; lia). rewrite app_nil_r. split; [exact Hd | reflexivity]. }
      assert (1 <= Z.to_nat limit)%nat as Hn by lia.
      destruct (IH [] (rev (chop (length idx) (Z.to_nat limit) idx) ++ done1)) as [A B].
      * apply Forall_app. split; [|exact Hd1]. apply Forall_rev.
        pose proof (chop_sizes _ Hn (length idx) idx) as K. eapply Forall_impl; [|exact K].
        cbn beta. intros g Hg. lia.
      * rewrite zlen_nil. lia.
      * split; [|exact B]. rewrite A. rewrite rev_app_distr, rev_involutive, concat_app.
        rewrite chop_concat by (try assumption; lia). rewrite Hc1. cbn [concat app].
        rewrite <- !app_assoc. reflexivity.
    + destruct ((limit <? zlen current + zlen idx) && (0 <? zlen current)) eqn:E2.
      * destruct (IH idx (current :: done)) as [A B].
        -- constructor; [lia | exact Hd].
        -- lia.
        -- split; [|exact B]. rewrite A, concat_rev_cons. cbn [concat]. rewrite <- !app_assoc. reflexivity.
      * assert (zlen (current ++ idx) <= limit) as Hle.
        { rewrite zlen_app. pose proof (zlen_nonneg current). lia. }
        replace (limit <? zlen (current ++ idx)) with false by lia.
        destruct (IH (current ++ idx) done Hd Hle) as [A B].
        split; [|exact B]. rewrite A. cbn [concat]. rewrite <- !app_assoc. reflexivity.
Qed.

(* ====================================================================== *)
(* the limit *)

Lemma fold_left_max_ge : forall t a,
  a <= fold_left Z.max t a /\ Forall (fun x => x <= fold_left Z.max t a) t.
Proof.
  induction t as [|x t IH]; intros a; cbn [fold_left]; [split; [lia | constructor]|].
  destruct (IH (Z.max a x)) as [A B]. split; [lia|]. constructor; [lia | exact B].
Qed.

Lemma take_limit_ge chunks : Forall (fun c => c <= take_limit chunks) chunks.
Proof.
  destruct chunks as [|c t]; [constructor|]. unfold take_limit.
  destruct (fold_left_max_ge t c) as [A B]. constructor; assumption.
Qed.

Lemma take_limit_nonneg chunks : nonneg_chunks chunks -> 0 <= take_limit chunks.
Proof.
  intros H. destruct chunks as [|c t]; [cbn; lia|]. inversion H; subst.
  pose proof (take_limit_ge (c :: t)) as K. inversion K; subst. lia.
Qed.

Lemma take_limit_pos chunks : nonneg_chunks chunks -> 0 < zsum chunks -> 1 <= take_limit chunks.
Proof.
  intros Hnn Hs. pose proof (take_limit_ge chunks) as K. revert Hs K. generalize (take_limit chunks) as m.
  induction Hnn as [|c t Hc Ht IH]; intros m Hs K; cbn [zsum] in Hs; [lia|].
  inversion K; subst. destruct (Z_lt_dec 0 c); [lia|]. apply IH; [lia | assumption].
Qed.

(* ====================================================================== *)
(* split_by / arange *)

Lemma zlen_arange d : 0 <= d -> zlen (arange d) = d.
Proof.
  intros Hd. unfold zlen, arange. rewrite zrange_length. unfold range_len.
  replace (1 >? 0) with true by lia. destruct (0 <? d) eqn:E; [|lia].
  replace (d - 0 - 1) with (d - 1) by lia. rewrite Z.div_1_r. lia.
Qed.

Lemma split_by_spec {A} : forall cs (l : list A),
  nonneg_chunks cs -> zsum cs = zlen l ->
  concat (split_by cs l) = l /\ map (fun g => zlen g) (split_by cs l) = cs.
Proof.
  induction cs as [|c t IH]; intros l Hnn Hs; cbn [zsum split_by] in *.
  - symmetry in Hs. rewrite (zlen_0_nil l) by lia. split; reflexivity.
  - inversion Hnn as [|? ? Hc Ht]; subst.
    pose proof (zsum_nonneg t Ht) as H0.
    assert (Z.to_nat c <= length l)%nat as Hle by (unfold zlen in Hs; lia).
    destruct (IH (skipn (Z.to_nat c) l) Ht) as [Ha Hb].
    { unfold zlen in *. rewrite skipn_length. lia. }
    cbn [concat map]. rewrite Ha, Hb, firstn_skipn. split; [reflexivity|].
    f_equal. unfold zlen. rewrite firstn_length. lia.
Qed.

(* ====================================================================== *)
(* the output groups *)

Lemma concat_zlen (gs : list (list Z)) : zlen (concat gs) = zsum (map (fun g => zlen g) gs).
Proof.
  induction gs as [|g gs IH]; [reflexivity|]. cbn [concat map zsum]. rewrite zlen_app, IH. reflexivity.
Qed.

Theorem take_groups_spec chunks idx gs :
  nonneg_chunks chunks -> take_groups chunks idx = Some gs ->
  exists n, take_normalize (zsum chunks) idx = Some n /\ concat gs = n /\
            Forall (fun g => zlen g <= take_limit chunks) gs.
Proof.
  intros Hnn. unfold take_groups, take_route_of.
  destruct (take_normalize (zsum chunks) idx) as [n|] eqn:En; [|discriminate].
  destruct (take_normalize_value _ _ _ En) as (_ & Hr & _).
  destruct n as [|i n']; [intros H; injection H as <-; exists []; repeat split;
                          constructor; [rewrite zlen_nil; apply take_limit_nonneg; exact Hnn | constructor]|].
  set (n := i :: n') in *.
  destruct ((zlen n =? zsum chunks) && zlist_eqb n (arange (zsum chunks))) eqn:Eid; intros H; injection H as <-.
  - apply andb_prop in Eid as [E1 E2]. apply zl_eqb_true in E2.
    pose proof (zsum_nonneg chunks Hnn) as H0.
    destruct (@split_by_spec Z chunks (arange (zsum chunks)) Hnn) as [A B].
    { rewrite zlen_arange by lia. reflexivity. }
    exists n. split; [reflexivity|]. split; [rewrite A; symmetry; exact E2|].
    assert (Forall (fun c => c <= take_limit chunks)
                   (map (fun g => zlen g) (split_by chunks (arange (zsum chunks))))) as K
      by (rewrite B; apply take_limit_ge).
    rewrite Forall_map in K. exact K.
  - assert (0 < zsum chunks) as Hpos by (inversion Hr; subst; lia).
    pose proof (take_limit_pos chunks Hnn Hpos) as Hlim.
    destruct (nc_loop_spec _ Hlim (compute_indexer chunks n) [] []) as [A B].
    { constructor. } { rewrite zlen_nil. lia. }
    exists n. split; [reflexivity|]. split.
    + transitivity (concat (rev []) ++ [] ++ concat (compute_indexer chunks n)); [exact A|].
      cbn [rev concat app]. apply compute_indexer_concat.
    + eapply Forall_impl; [|exact B]. cbn beta. intros g Hg. lia.
Qed.

(* ====================================================================== *)
(* routes *)

Theorem take_route_error_iff chunks idx :
  take_route_of chunks idx = TRError <->
  Exists (fun i => i < - zsum chunks \/ zsum chunks <= i) idx.
Proof.
  rewrite <- take_normalize_rejects_iff. unfold take_route_of.
  destruct (take_normalize (zsum chunks) idx) as [[|i n]|]; [| |split; reflexivity].
  - split; discriminate.
  - destruct (_ && _); split; discriminate.
Qed.

Theorem take_route_empty_iff chunks idx : take_route_of chunks idx = TREmptySlice <-> idx = [].
Proof.
  split.
  - unfold take_route_of. destruct (take_normalize (zsum chunks) idx) as [n|] eqn:En; [|discriminate].
    destruct (take_normalize_value _ _ _ En) as (Hn & _). destruct n as [|i n].
    + intros _. destruct idx; [reflexivity | discriminate].
    + destruct (_ && _); discriminate.
  - intros ->. reflexivity.
Qed.

Theorem take_route_shuffle_inv chunks idx index indexer nc :
  take_route_of chunks idx = TRShuffle index indexer nc ->
  take_normalize (zsum chunks) idx = Some index /\ index <> [] /\ index <> arange (zsum chunks) /\
  indexer = compute_indexer chunks index /\ nc = nc_loop (take_limit chunks) indexer [] [].
Proof.
  unfold take_route_of. destruct (take_normalize (zsum chunks) idx) as [[|i n]|] eqn:En; try discriminate.
  destruct (_ && _) eqn:E; [discriminate|]. intros H. injection H as <- <- <-.
  split; [reflexivity|]. split; [discriminate|]. split; [|split; reflexivity].
  intros Heq. rewrite <- Heq in E.
  destruct (take_normalize_value _ _ _ En) as (_ & Hr & _).
  assert (0 <= zsum chunks) as H0 by (inversion Hr; subst; lia).
  pose proof (zlen_arange _ H0) as Hl. rewrite <- Heq in Hl.
  assert (zlist_eqb (i :: n) (i :: n) = true) as Hrefl.
  { clear. generalize (i :: n). induction l as [|x l IH]; [reflexivity|].
    unfold zlist_eqb in *. cbn [list_eqb]. rewrite Z.eqb_refl, IH. reflexivity. }
  rewrite Hrefl in E. replace (zlen (i :: n) =? zsum chunks) with true in E by lia. discriminate.
Qed.

Theorem take_route_identity_inv chunks idx :
  take_route_of chunks idx = TRIdentity ->
  take_normalize (zsum chunks) idx = Some (arange (zsum chunks)) /\ 0 < zsum chunks.
Proof.
  unfold take_route_of. destruct (take_normalize (zsum chunks) idx) as [[|i n]|] eqn:En; try discriminate.
  destruct (_ && _) eqn:E; [|discriminate]. intros _.
  apply andb_prop in E as [E1 E2]. apply zl_eqb_true in E2. split; [rewrite E2; reflexivity|].
  rewrite zlen_cons in E1. pose proof (zlen_nonneg n). lia.
Qed.

(* ====================================================================== *)
(* (b) value-level correctness, (c) bounds of the pairs *)

Lemma Forall_concat' {A} (P : A -> Prop) : forall gs, Forall P (concat gs) -> Forall (Forall P) gs.
Proof.
  induction gs as [|g gs IH]; intros H; [constructor|]. cbn [concat] in H.
  apply Forall_app in H as [H1 H2]. constructor; [exact H1 | apply IH; exact H2].
Qed.

Theorem take_plan_values {A} (dflt : A) chunks idx (l : list A) plan :
  nonneg_chunks chunks -> zlen l = zsum chunks -> take_plan chunks idx = Some plan ->
  concat (plan_read dflt chunks l plan) = map (py_nth dflt l) idx.
Proof.
  intros Hnn Hl. unfold take_plan. destruct (take_groups chunks idx) as [gs|] eqn:Eg; [|discriminate].
  intros H. injection H as <-.
  destruct (take_groups_spec _ _ _ Hnn Eg) as (n & En & Hc & _).
  destruct (take_normalize_value _ _ _ En) as (Hn & Hr & _).
  unfold plan_read. rewrite map_map.
  erewrite map_ext; [|intros g; rewrite map_map; reflexivity].
  rewrite <- concat_map, Hc, Hn, map_map. apply map_ext_in. intros i Hi. cbn beta.
  assert (0 <= np_pos (zsum chunks) i < zsum chunks) as Hp.
  { rewrite Forall_forall in Hr. apply Hr. rewrite Hn. apply in_map. exact Hi. }
  rewrite take_pair_reads by assumption. unfold py_nth, np_pos. rewrite Hl. reflexivity.
Qed.

Theorem take_plan_in_bounds chunks idx plan :
  nonneg_chunks chunks -> take_plan chunks idx = Some plan -> Forall (Forall (pair_ok chunks)) plan.
Proof.
  intros Hnn. unfold take_plan. destruct (take_groups chunks idx) as [gs|] eqn:Eg; [|discriminate].
  intros H. injection H as <-.
  destruct (take_groups_spec _ _ _ Hnn Eg) as (n & En & Hc & _).
  destruct (take_normalize_value _ _ _ En) as (_ & Hr & _).
  rewrite <- Hc in Hr. apply Forall_concat' in Hr.
  rewrite Forall_map. eapply Forall_impl; [|exact Hr]. cbn beta. intros g Hg.
  rewrite Forall_map. eapply Forall_impl; [|exact Hg]. cbn beta. intros i Hi.
  apply take_pair_spec; assumption.
Qed.

(* the global position a pair denotes is the normalised index *)
Theorem take_plan_positions chunks idx plan :
  nonneg_chunks chunks -> take_plan chunks idx = Some plan ->
  map (fun p => zsum (firstn (Z.to_nat (fst p)) chunks) + snd p) (concat plan)
  = map (np_pos (zsum chunks)) idx.
Proof.
  intros Hnn. unfold take_plan. destruct (take_groups chunks idx) as [gs|] eqn:Eg; [|discriminate].
  intros H. injection H as <-.
  destruct (take_groups_spec _ _ _ Hnn Eg) as (n & En & Hc & _).
  destruct (take_normalize_value _ _ _ En) as (Hn & Hr & _).
  rewrite <- concat_map, Hc, map_map, <- Hn. rewrite <- (map_id n) at 2. apply map_ext_in.
  intros i Hi. cbn beta. rewrite Forall_forall in Hr. apply take_pair_spec; [assumption | apply Hr; exact Hi].
Qed.

(* ====================================================================== *)
(* (d) advertised chunks, (e) the bound *)

Theorem take_out_chunks_spec chunks idx oc :
  nonneg_chunks chunks -> take_out_chunks chunks idx = Some oc ->
  zsum oc = zlen idx /\
  Forall (fun c => 0 <= c <= take_limit chunks) oc /\
  exists gs plan, take_groups chunks idx = Some gs /\ take_plan chunks idx = Some plan /\
                  oc = map (fun g => zlen g) gs /\ oc = map (fun b => zlen b) plan.
Proof.
  intros Hnn. unfold take_out_chunks, take_plan.
  destruct (take_groups chunks idx) as [gs|] eqn:Eg; [|discriminate].
  intros H. injection H as <-.
  destruct (take_groups_spec _ _ _ Hnn Eg) as (n & En & Hc & Hb).
  destruct (take_normalize_value _ _ _ En) as (Hn & _ & _).
  split; [|split].
  - rewrite <- concat_zlen, Hc, Hn. apply zlen_map.
  - rewrite Forall_map. eapply Forall_impl; [|exact Hb]. cbn beta. intros g Hg.
    pose proof (zlen_nonneg g). lia.
  - exists gs, (map (map (take_pair chunks)) gs). repeat split; try reflexivity.
    rewrite map_map. apply map_ext. intros g. symmetry. apply zlen_map.
Qed.

(* Shuffle route: no empty output chunk, none larger than the largest input chunk *)
Theorem take_shuffle_chunks chunks idx index indexer nc :
  nonneg_chunks chunks -> take_route_of chunks idx = TRShuffle index indexer nc ->
  concat indexer = index /\ concat nc = index /\
  Forall (fun g => g <> []) indexer /\
  Forall (fun g => forall a b, In a g -> In b g -> take_block chunks a = take_block chunks b) indexer /\
  Forall (fun g => 1 <= zlen g <= take_limit chunks) nc.
Proof.
  intros Hnn Hroute. destruct (take_route_shuffle_inv _ _ _ _ _ Hroute) as (En & Hne & _ & -> & ->).
  destruct (take_normalize_value _ _ _ En) as (_ & Hr & _).
  assert (0 < zsum chunks) as Hpos.
  { destruct index as [|i n]; [congruence|]. inversion Hr; subst. lia. }
  pose proof (take_limit_pos chunks Hnn Hpos) as Hlim.
  destruct (nc_loop_spec _ Hlim (compute_indexer chunks index) [] []) as [A B].
  { constructor. } { rewrite zlen_nil. lia. }
  split; [apply compute_indexer_concat|]. split.
  - rewrite A. cbn [rev concat app]. apply compute_indexer_concat.
  - destruct index as [|i n]; [congruence|]. split; [apply take_runs_spec|].
    split; [apply take_runs_same_block | exact B].
Qed.

Theorem take_identity_chunks chunks idx :
  nonneg_chunks chunks -> take_route_of chunks idx = TRIdentity ->
  take_out_chunks chunks idx = Some chunks /\ map (np_pos (zsum chunks)) idx = arange (zsum chunks).
Proof.
  intros Hnn Hroute. destruct (take_route_identity_inv _ _ Hroute) as [En Hpos].
  destruct (take_normalize_value _ _ _ En) as (Hn & _ & _). split; [|symmetry; exact Hn].
  unfold take_out_chunks, take_groups. rewrite Hroute.
  destruct (@split_by_spec Z chunks (arange (zsum chunks)) Hnn) as [_ Hb].
  { rewrite zlen_arange by lia. reflexivity. }
  rewrite Hb. reflexivity.
Qed.

(* ====================================================================== *)
(* witnesses *)

Theorem take_group_split_witness :
  exists chunks idx index indexer nc,
    pos_chunks chunks /\ take_route_of chunks idx = TRShuffle index indexer nc /\
    exists g, In g indexer /\ ~ exists c, In c nc /\ incl g c /\ (length g <= length c)%nat.
Proof.
  exists [2], [0; 0; 0], [0; 0; 0], [[0; 0; 0]], [[0; 0]; [0]].
  split; [repeat constructor|]. split; [vm_compute; reflexivity|].
  exists [0; 0; 0]. split; [left; reflexivity|].
  intros (c & Hc & _ & Hl). destruct Hc as [<-|[<-|[]]]; cbn [length] in Hl; lia.
Qed.

Theorem take_nblocks_witness :
  exists chunks idx oc, pos_chunks chunks /\ take_out_chunks chunks idx = Some oc /\
                        zlen chunks < zlen oc.
Proof.
  exists [2], [0; 0; 0], [2; 1]. split; [repeat constructor|]. split; vm_compute; reflexivity.
Qed.

(* ====================================================================== *)
(* the split tasks of one output chunk read the pairs of the plan (as a multiset) *)

Lemma insert_sorted_perm x : forall l, Permutation (insert_sorted x l) (x :: l).
Proof.
  induction l as [|y t IH]; cbn [insert_sorted]; [apply Permutation_refl|].
  destruct (x <=? y); [apply Permutation_refl|].
  eapply Permutation_trans; [apply perm_skip; exact IH | apply perm_swap].
Qed.

Lemma sort_z_perm : forall l, Permutation (sort_z l) l.
Proof.
  unfold sort_z. induction l as [|x t IH]; cbn [fold_right]; [constructor|].
  eapply Permutation_trans; [apply insert_sorted_perm | apply perm_skip; exact IH].
Qed.

Lemma group_fst_nil ps : group_fst ps = [] -> ps = [].
Proof.
  destruct ps as [|[c o] t]; [reflexivity|]. cbn [group_fst].
  destruct (group_fst t) as [|[c' os] gs]; [discriminate|]. destruct (c =? c'); discriminate.
Qed.

Lemma group_fst_unsplit : forall ps, unsplit (group_fst ps) = ps.
Proof.
  induction ps as [|[c o] t IH]; [reflexivity|]. cbn [group_fst].
  destruct (group_fst t) as [|[c' os] gs] eqn:E.
  - apply group_fst_nil in E. subst t. reflexivity.
  - destruct (c =? c') eqn:Ec.
    + apply Z.eqb_eq in Ec. subst c'. rewrite <- IH. reflexivity.
    + rewrite <- IH. reflexivity.
Qed.

Lemma group_fst_single : forall ps c os, group_fst ps = [(c, os)] -> Forall (fun p => fst p = c) ps.
Proof.
  induction ps as [|[c0 o] t IH]; intros c os H; [constructor|]. cbn [group_fst] in H.
  destruct (group_fst t) as [|[c' os'] gs] eqn:E.
  - apply group_fst_nil in E. subst t. injection H as -> _. repeat constructor.
  - destruct (c0 =? c') eqn:Ec.
    + apply Z.eqb_eq in Ec. subst c'. injection H as -> _ ->. constructor; [reflexivity|].
      eapply IH. reflexivity.
    + discriminate.
Qed.

Theorem take_splits_of_perm chunks taker :
  Permutation (unsplit (take_splits_of chunks taker)) (map (take_pair chunks) taker).
Proof.
  unfold take_splits_of.
  assert (Permutation (map (take_pair chunks) (sort_z taker)) (map (take_pair chunks) taker)) as HP
    by (apply Permutation_map, sort_z_perm).
  pose proof (group_fst_unsplit (map (take_pair chunks) (sort_z taker))) as HU.
  destruct (group_fst (map (take_pair chunks) (sort_z taker))) as [|[c os] [|s2 rest]] eqn:E.
  - rewrite HU. exact HP.
  - (* a single source block: read directly in output order *)
    pose proof (group_fst_single _ _ _ E) as Hall.
    assert (Forall (fun i => take_block chunks i = c) taker) as Hblk.
    { rewrite Forall_forall in *. intros i Hi.
      assert (In (take_pair chunks i) (map (take_pair chunks) (sort_z taker))) as Hin.
      { apply in_map. eapply Permutation_in; [apply Permutation_sym, sort_z_perm | exact Hi]. }
      apply Hall in Hin. exact Hin. }
    unfold unsplit. cbn [flat_map fst snd]. rewrite app_nil_r, map_map.
    erewrite map_ext_in; [apply Permutation_refl|].
    intros i Hi. cbn beta. rewrite Forall_forall in Hblk. specialize (Hblk i Hi).
    unfold take_pair. rewrite Hblk. reflexivity.
  - rewrite HU. exact HP.
Qed.

Theorem take_splits_spec chunks idx sps :
  take_splits chunks idx = Some sps ->
  exists plan, take_plan chunks idx = Some plan /\
               Forall2 (fun sp block => Permutation (unsplit sp) block) sps plan.
Proof.
  unfold take_splits, take_plan, take_groups.
  destruct (take_route_of chunks idx) as [| | |index indexer nc]; try discriminate.
  intros H. injection H as <-. eexists. split; [reflexivity|].
  induction nc as [|g nc IH]; cbn [map]; constructor; [apply take_splits_of_perm | exact IH].
Qed.
