(* L4 — import-time reachability over the GENERATED import graph (Generated/ImportGraph.v,
   regenerated from /repo on every run by translator/importgraph.py).
   Python executes, when module m is imported, the import-time code of exactly the modules
   reachable from m through import-time `import` edges (each once, in some order).  So a
   statement about "every import order" reduces to a statement about reachable sets. *)
From Coq Require Import List NArith Arith Bool.
Import ListNotations.

Definition succs (g : list (N * list N)) (m : N) : list N :=
  match find (fun p => N.eqb (fst p) m) g with Some p => snd p | None => [] end.

Definition mem (x : N) (l : list N) : bool := existsb (N.eqb x) l.

(* worklist closure with fuel = number of modules + 1 rounds over the frontier *)
Fixpoint reach (g : list (N * list N)) (fuel : nat) (visited frontier : list N) : list N :=
  match fuel with
  | O => visited
  | S f =>
      match frontier with
      | [] => visited
      | _ =>
          let next := flat_map (succs g) frontier in
          let fresh := nodup N.eq_dec (filter (fun x => negb (mem x visited)) next) in
          reach g f (visited ++ fresh) fresh
      end
  end.

Definition reachable_from (g : list (N * list N)) (n : nat) (m : N) : list N :=
  reach g (S n) [m] [m].

(* importing m runs no registration code: no module reachable from m registers at import *)
Definition import_is_silent (g : list (N * list N)) (n : nat) (registering : list N) (m : N) : bool :=
  forallb (fun r => negb (mem r (reachable_from g n m))) registering.

(* the closure is closed: every successor of a reached module is reached (checked, so the
   fuel is shown sufficient for the concrete graph) *)
Definition closure_closed (g : list (N * list N)) (n : nat) (m : N) : bool :=
  let r := reachable_from g n m in
  forallb (fun x => forallb (fun y => mem y r) (succs g x)) r.
