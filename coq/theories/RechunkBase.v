(* Small facts shared by the rechunk proofs. *)
From DA Require Import PyBase PyBaseFacts Rechunk.
From Coq Require Import ZifyBool.
Open Scope Z_scope.
Ltac Zify.zify_post_hook ::= Z.to_euclidean_division_equations.

(* ------------------------------------------------------------------ *)
(* boolean list equality *)
Lemma list_eqb_eq {A} (eqb : A -> A -> bool) :
  (forall x y, eqb x y = true <-> x = y) ->
  forall a b, list_eqb eqb a b = true <-> a = b.
Proof.
  intros Heq a. induction a as [|x a IH]; intros [|y b]; cbn [list_eqb]; split; intros H;
    try discriminate; try reflexivity.
  - apply andb_true_iff in H. destruct H as [H1 H2].
    apply Heq in H1. apply IH in H2. congruence.
  - injection H as -> ->. apply andb_true_iff. split; [apply Heq | apply IH]; reflexivity.
Qed.

Lemma zlist_eqb_eq a b : zlist_eqb a b = true <-> a = b.
Proof. apply list_eqb_eq. intros x y. apply Z.eqb_eq. Qed.

Lemma chunksN_eqb_eq a b : chunksN_eqb a b = true <-> a = b.
Proof. apply list_eqb_eq. apply zlist_eqb_eq. Qed.

(* ------------------------------------------------------------------ *)
(* last_opt *)
Lemma last_opt_snoc {A} (l : list A) x : last_opt (l ++ [x]) = Some x.
Proof. unfold last_opt. rewrite rev_app_distr. reflexivity. Qed.

Lemma last_opt_some {A} (l : list A) x : last_opt l = Some x -> exists l', l = l' ++ [x].
Proof.
  unfold last_opt. destruct (rev l) as [|y r] eqn:E; [discriminate|].
  intros H. injection H as ->. exists (rev r).
  rewrite <- (rev_involutive l), E. reflexivity.
Qed.

Lemma last_opt_none {A} (l : list A) : last_opt l = None -> l = [].
Proof.
  unfold last_opt. destruct (rev l) as [|y r] eqn:E; [|discriminate].
  intros _. rewrite <- (rev_involutive l), E. reflexivity.
Qed.

(* ------------------------------------------------------------------ *)
(* the shape of the result of bound_degree / bound_all: intermediates followed
   by the target *)
Lemma bd_steps_forall (P : chunksN -> Prop) n : forall old new prev counts steps r rest,
  (forall inter cs cs',
      bd_intermediate old new cs = Some (inter, cs') ->
      largest_block_size inter <= Z.max (largest_block_size old) (largest_block_size new) ->
      P inter) ->
  Forall P steps ->
  bd_steps n old new prev counts steps = Some (r, rest) -> Forall P r.
Proof.
  induction n as [|n IH]; intros old new prev counts steps r rest HP Hs H; cbn [bd_steps] in H.
  - injection H as <- _. apply Forall_rev. exact Hs.
  - destruct (bd_intermediate old new counts) as [[inter counts']|] eqn:Ei; [|discriminate].
    destruct (largest_block_size inter >? _) eqn:El.
    + eapply IH; eauto.
    + destruct (chunksN_eqb inter prev).
      * eapply IH; eauto.
      * eapply IH; [exact HP| |exact H]. constructor; [|exact Hs].
        eapply HP; [exact Ei|lia].
Qed.

Lemma bound_degree_shape (P : chunksN -> Prop) old new dl oracle l rest :
  (forall inter cs cs',
      bd_intermediate old new cs = Some (inter, cs') ->
      largest_block_size inter <= Z.max (largest_block_size old) (largest_block_size new) ->
      P inter) ->
  bound_degree old new dl oracle = Some (l, rest) ->
  exists l', l = l' ++ [new] /\ Forall P l'.
Proof.
  intros HP H. unfold bound_degree in H.
  destruct (_ <=? _).
  - injection H as <- _. exists []. split; [reflexivity|constructor].
  - destruct oracle as [|nsteps oracle']; [discriminate|].
    destruct (bd_steps _ old new old oracle' []) as [[steps rest']|] eqn:Es; [|discriminate].
    pose proof (bd_steps_forall P _ _ _ _ _ _ _ _ HP (Forall_nil _) Es) as Hall.
    destruct (last_opt steps) as [x|] eqn:El.
    + destruct (chunksN_eqb x new) eqn:Ex.
      * injection H as <- _. apply chunksN_eqb_eq in Ex. subst x.
        apply last_opt_some in El. destruct El as [l' ->].
        exists l'. split; [reflexivity|].
        apply Forall_app in Hall. tauto.
      * injection H as <- _. exists steps. split; [reflexivity|exact Hall].
    + injection H as <- _. exists []. split; [reflexivity|constructor].
Qed.

(* generic invariant for bound_all: Q holds of the end points, P of the
   intermediates *)
Lemma bound_all_forall (P : chunksN -> Prop) : forall steps prev dl oracle plan,
  (forall a b inter cs cs', P a -> P b ->
      bd_intermediate a b cs = Some (inter, cs') ->
      largest_block_size inter <= Z.max (largest_block_size a) (largest_block_size b) ->
      P inter) ->
  P prev -> Forall P steps ->
  bound_all prev steps dl oracle = Some plan -> Forall P plan.
Proof.
  induction steps as [|s t IH]; intros prev dl oracle plan HP Hprev Hs H; cbn [bound_all] in H.
  - injection H as <-. constructor.
  - inversion Hs as [|? ? Hs1 Hs2]; subst.
    destruct (bound_degree prev s dl oracle) as [[l oracle']|] eqn:Eb; [|discriminate].
    destruct (bound_all s t dl oracle') as [pl|] eqn:Ea; [|discriminate].
    cbn [option_map] in H. injection H as <-.
    apply (bound_degree_shape P) in Eb; [|intros; eapply (HP prev s); eauto].
    destruct Eb as (l' & -> & Hl').
    apply Forall_app. split.
    + apply Forall_app. split; [exact Hl'|]. constructor; [exact Hs1|constructor].
    + eapply IH; eauto.
Qed.

Lemma bound_all_last : forall steps prev dl oracle plan x,
  bound_all prev (steps ++ [x]) dl oracle = Some plan -> exists p', plan = p' ++ [x].
Proof.
  induction steps as [|s t IH]; intros prev dl oracle plan x H; cbn [bound_all app] in H.
  - destruct (bound_degree prev x dl oracle) as [[l oracle']|] eqn:Eb; [|discriminate].
    cbn [option_map] in H. injection H as <-.
    apply (bound_degree_shape (fun _ => True)) in Eb; [|auto].
    destruct Eb as (l' & -> & _). exists l'. rewrite app_nil_r. reflexivity.
  - destruct (bound_degree prev s dl oracle) as [[l oracle']|] eqn:Eb; [|discriminate].
    destruct (bound_all s (t ++ [x]) dl oracle') as [pl|] eqn:Ea; [|discriminate].
    cbn [option_map] in H. injection H as <-.
    apply IH in Ea. destruct Ea as [p' ->]. exists (l ++ p'). rewrite app_assoc. reflexivity.
Qed.
