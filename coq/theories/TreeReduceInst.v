(* C18 — the concrete chunk/combine/aggregate triples are list homomorphisms onto the NumPy
   definition over the concatenated data. *)
From DA Require Import PyBase PyBaseFacts TreeReduce TreeReduceFacts.
From Coq Require Import ZifyBool.
Open Scope Z_scope.

Ltac Zify.zify_post_hook ::= Z.to_euclidean_division_equations.

Lemma concat_map_singleton {A B} (g : A -> B) (l : list A) : concat (map (fun x => [g x]) l) = map g l.
Proof. induction l as [|x t IH]; [reflexivity|]. cbn. rewrite IH. reflexivity. Qed.

(* triples whose stages all produce exactly one value *)
Lemma hom_singleton {D R} (gc gm : list D -> D) (out spec : list D -> R) :
  (forall ds, gm (map gc ds) = gc (concat ds)) ->
  (forall ds, out (map gc ds) = spec (concat ds)) ->
  hom_reduction (concat_reduction (fun x => [gc x]) (fun x => [gm x]) out) (fun b => b) (fun x => [gc x]) spec.
Proof.
  intros H1 H2. repeat split.
  - intros ds _. cbn. rewrite concat_map_singleton, H1. reflexivity.
  - intros ds _. cbn. rewrite concat_map_singleton, H2. reflexivity.
Qed.

(* triples whose stages produce zero or one value: m (the reduction on raw data) merges over
   concatenation and is idempotent on its own output *)
Lemma optional_absorb {D} (m : list D -> option D) (op : option D -> option D -> option D) :
  (forall a b, m (a ++ b) = op (m a) (m b)) ->
  (forall a, m (opt_to_list (m a)) = m a) ->
  forall ds, m (concat (map (fun x => opt_to_list (m x)) ds)) = m (concat ds).
Proof.
  intros Happ Hid ds. induction ds as [|d t IH]; [reflexivity|].
  cbn [map concat]. rewrite !Happ, Hid, IH. reflexivity.
Qed.

Lemma hom_optional {D R} (m : list D -> option D) (op : option D -> option D -> option D) (out : option D -> R) :
  (forall a b, m (a ++ b) = op (m a) (m b)) ->
  (forall a, m (opt_to_list (m a)) = m a) ->
  hom_reduction (mkred (fun x : list D => opt_to_list (m x))
                       (fun l => opt_to_list (m (concat l)))
                       (fun l => out (m (concat l))))
                (fun b => b) (fun x => opt_to_list (m x)) (fun x => out (m x)).
Proof.
  intros Happ Hid. repeat split.
  - intros ds _. cbn. rewrite (optional_absorb m op Happ Hid). reflexivity.
  - intros ds _. cbn. rewrite (optional_absorb m op Happ Hid). reflexivity.
Qed.

(* ---- sum / prod ---- *)
Lemma zsum_concat ds : zsum (map zsum ds) = zsum (concat ds).
Proof. induction ds as [|d t IH]; [reflexivity|]. cbn [map concat zsum]. rewrite zsum_app. lia. Qed.

Lemma zprod_app a b : zprod (a ++ b) = zprod a * zprod b.
Proof. induction a as [|x t IH]; cbn [zprod app]; [lia|]. rewrite IH. lia. Qed.

Lemma zprod_concat ds : zprod (map zprod ds) = zprod (concat ds).
Proof. induction ds as [|d t IH]; [reflexivity|]. cbn [map concat zprod]. rewrite zprod_app. lia. Qed.

Theorem hom_sum : hom_reduction red_sum (fun b => b) (fun x => [zsum x]) zsum.
Proof. apply hom_singleton; apply zsum_concat. Qed.

Theorem hom_prod : hom_reduction red_prod (fun b => b) (fun x => [zprod x]) zprod.
Proof. apply hom_singleton; apply zprod_concat. Qed.

(* ---- any / all ---- *)
Lemma nonzero_b2z b : nonzero (b2z b) = b.
Proof. destruct b; reflexivity. Qed.

Lemma existsb_concat ds : existsb nonzero (map (fun x => b2z (existsb nonzero x)) ds) = existsb nonzero (concat ds).
Proof.
  induction ds as [|d t IH]; [reflexivity|]. cbn [map concat existsb].
  rewrite existsb_app, nonzero_b2z, IH. reflexivity.
Qed.

Lemma forallb_concat ds : forallb nonzero (map (fun x => b2z (forallb nonzero x)) ds) = forallb nonzero (concat ds).
Proof.
  induction ds as [|d t IH]; [reflexivity|]. cbn [map concat forallb].
  rewrite forallb_app, nonzero_b2z, IH. reflexivity.
Qed.

Theorem hom_any : hom_reduction red_any (fun b => b) (fun x => [b2z (existsb nonzero x)]) (existsb nonzero).
Proof.
  apply (hom_singleton (fun x => b2z (existsb nonzero x)) (fun x => b2z (existsb nonzero x))).
  - intros ds. rewrite existsb_concat. reflexivity.
  - apply existsb_concat.
Qed.

Theorem hom_all : hom_reduction red_all (fun b => b) (fun x => [b2z (forallb nonzero x)]) (forallb nonzero).
Proof.
  apply (hom_singleton (fun x => b2z (forallb nonzero x)) (fun x => b2z (forallb nonzero x))).
  - intros ds. rewrite forallb_concat. reflexivity.
  - apply forallb_concat.
Qed.

(* count_nonzero: the elementwise map commutes with concatenation *)
Lemma count_nonzero_concat blocks :
  concat (count_nonzero_blocks blocks) = map (fun x => b2z (nonzero x)) (concat blocks).
Proof. unfold count_nonzero_blocks. rewrite concat_map. reflexivity. Qed.

(* ---- min / max ---- *)
Definition omerge2 (f : Z -> Z -> Z) (a b : option Z) : option Z :=
  match a, b with None, x => x | x, None => x | Some u, Some v => Some (f u v) end.

Lemma fold_left_min_acc t : forall x y, fold_left Z.min t (Z.min x y) = Z.min x (fold_left Z.min t y).
Proof. induction t as [|z t IH]; intros x y; cbn [fold_left]; [reflexivity|]. rewrite <- IH. f_equal. lia. Qed.
Lemma fold_left_max_acc t : forall x y, fold_left Z.max t (Z.max x y) = Z.max x (fold_left Z.max t y).
Proof. induction t as [|z t IH]; intros x y; cbn [fold_left]; [reflexivity|]. rewrite <- IH. f_equal. lia. Qed.

Lemma np_min_app a b : np_min (a ++ b) = omerge2 Z.min (np_min a) (np_min b).
Proof.
  destruct a as [|x ta]; [cbn [app]; destruct (np_min b); reflexivity|].
  destruct b as [|y tb]; [rewrite app_nil_r; reflexivity|].
  cbn [np_min app omerge2]. rewrite fold_left_app. cbn [fold_left]. f_equal.
  apply fold_left_min_acc.
Qed.
Lemma np_max_app a b : np_max (a ++ b) = omerge2 Z.max (np_max a) (np_max b).
Proof.
  destruct a as [|x ta]; [cbn [app]; destruct (np_max b); reflexivity|].
  destruct b as [|y tb]; [rewrite app_nil_r; reflexivity|].
  cbn [np_max app omerge2]. rewrite fold_left_app. cbn [fold_left]. f_equal.
  apply fold_left_max_acc.
Qed.

Lemma np_min_idem a : np_min (opt_to_list (np_min a)) = np_min a.
Proof. destruct a; reflexivity. Qed.
Lemma np_max_idem a : np_max (opt_to_list (np_max a)) = np_max a.
Proof. destruct a; reflexivity. Qed.

Lemma chunk_min_otl x : chunk_min x = opt_to_list (np_min x).
Proof. unfold chunk_min. destruct (np_min x); reflexivity. Qed.
Lemma chunk_max_otl x : chunk_max x = opt_to_list (np_max x).
Proof. unfold chunk_max. destruct (np_max x); reflexivity. Qed.

Theorem hom_min : hom_reduction red_min (fun b => b) chunk_min np_min.
Proof.
  pose proof (hom_optional np_min (omerge2 Z.min) (fun o => o) np_min_app np_min_idem) as (H1 & H2 & H3).
  repeat split.
  - intros ds Hne. cbn. rewrite chunk_min_otl.
    rewrite (map_ext chunk_min (fun x => opt_to_list (np_min x)) chunk_min_otl). apply (H2 ds Hne).
  - intros ds Hne. cbn.
    rewrite (map_ext chunk_min (fun x => opt_to_list (np_min x)) chunk_min_otl). apply (H3 ds Hne).
Qed.

Theorem hom_max : hom_reduction red_max (fun b => b) chunk_max np_max.
Proof.
  pose proof (hom_optional np_max (omerge2 Z.max) (fun o => o) np_max_app np_max_idem) as (H1 & H2 & H3).
  repeat split.
  - intros ds Hne. cbn. rewrite chunk_max_otl.
    rewrite (map_ext chunk_max (fun x => opt_to_list (np_max x)) chunk_max_otl). apply (H2 ds Hne).
  - intros ds Hne. cbn.
    rewrite (map_ext chunk_max (fun x => opt_to_list (np_max x)) chunk_max_otl). apply (H3 ds Hne).
Qed.

(* ---- mean ---- *)
Lemma length_concat_z {A} (ds : list (list A)) :
  zsum (map (fun d => Z.of_nat (length d)) ds) = Z.of_nat (length (concat ds)).
Proof. induction ds as [|d t IH]; [reflexivity|]. cbn [map concat zsum]. rewrite app_length. lia. Qed.

Theorem hom_mean :
  hom_reduction red_mean (fun b => b) (fun x => (Z.of_nat (length x), zsum x))
                (fun x => (zsum x, Z.of_nat (length x))).
Proof.
  repeat split.
  - intros ds _. cbn. rewrite !map_map. cbn. rewrite length_concat_z, zsum_concat. reflexivity.
  - intros ds _. cbn. rewrite !map_map. cbn. rewrite length_concat_z, zsum_concat. reflexivity.
Qed.

(* ---- NaN-bearing sums and means ---- *)
Lemma fadd_laws : monoid_laws fadd (Some 0).
Proof.
  repeat split.
  - intros [a|] [b|] [c|]; cbn; try reflexivity. f_equal. lia.
  - intros [a|]; cbn; [f_equal; lia | reflexivity].
  - intros [a|]; cbn; [f_equal; lia | reflexivity].
Qed.

Lemma fsum_concat ds : fsum (map fsum ds) = fsum (concat ds).
Proof. apply (mfold_concat fadd (Some 0) fadd_laws). Qed.

Theorem hom_fsum : hom_reduction red_fsum (fun b => b) (fun x => [fsum x]) fsum.
Proof. apply hom_singleton; apply fsum_concat. Qed.

Lemma drop_nan_app a b : drop_nan (a ++ b) = drop_nan a ++ drop_nan b.
Proof. unfold drop_nan. apply flat_map_app. Qed.

Lemma fsum_nansum_concat ds : fsum (map np_nansum ds) = np_nansum (concat ds).
Proof.
  induction ds as [|d t IH]; [reflexivity|]. cbn [map concat fsum fold_right].
  change (fold_right fadd (Some 0) (map np_nansum t)) with (fsum (map np_nansum t)).
  rewrite IH. unfold np_nansum. rewrite drop_nan_app, zsum_app. reflexivity.
Qed.

Theorem hom_nansum : hom_reduction red_nansum (fun b => b) (fun x => [np_nansum x]) np_nansum.
Proof. apply hom_singleton; apply fsum_nansum_concat. Qed.

Theorem hom_fmean :
  hom_reduction red_fmean (fun b => b) (fun x => (Z.of_nat (length x), fsum x))
                (fun x => (fsum x, Z.of_nat (length x))).
Proof.
  repeat split.
  - intros ds _. cbn. rewrite !map_map. cbn. rewrite length_concat_z. f_equal. apply fsum_concat.
  - intros ds _. cbn. rewrite !map_map. cbn. rewrite length_concat_z. f_equal. apply fsum_concat.
Qed.

Lemma nan_count_concat ds :
  zsum (map (fun d => Z.of_nat (length (drop_nan d))) ds) = Z.of_nat (length (drop_nan (concat ds))).
Proof.
  induction ds as [|d t IH]; [reflexivity|]. cbn [map concat zsum]. rewrite drop_nan_app, app_length. lia.
Qed.

Theorem hom_nanmean :
  hom_reduction red_nanmean (fun b => b) (fun x => (Z.of_nat (length (drop_nan x)), np_nansum x))
                (fun x => (np_nansum x, Z.of_nat (length (drop_nan x)))).
Proof.
  repeat split.
  - intros ds _. cbn. rewrite !map_map. cbn. rewrite nan_count_concat. f_equal. apply fsum_nansum_concat.
  - intros ds _. cbn. rewrite !map_map. cbn. rewrite nan_count_concat. f_equal. apply fsum_nansum_concat.
Qed.

(* ---- NaN-bearing min / max ---- *)
Definition fmerge (f : Z -> Z -> Z) (a b : fz) : fz :=
  match a, b with Some u, Some v => Some (f u v) | _, _ => None end.
Definition ofmerge (f : Z -> Z -> Z) (a b : option fz) : option fz :=
  match a, b with None, x => x | x, None => x | Some u, Some v => Some (fmerge f u v) end.

Lemma drop_nan_nonempty (l : list fz) : l <> [] -> existsb is_nan l = false -> drop_nan l <> [].
Proof. destruct l as [|[x|] t]; cbn; intros H1 H2; congruence. Qed.

Lemma np_min_nonempty l : l <> [] -> exists m, np_min l = Some m.
Proof. destruct l; [congruence|]. intros _. eexists; reflexivity. Qed.
Lemma np_max_nonempty l : l <> [] -> exists m, np_max l = Some m.
Proof. destruct l; [congruence|]. intros _. eexists; reflexivity. Qed.

Lemma fnp_min_app a b : fnp_min (a ++ b) = ofmerge Z.min (fnp_min a) (fnp_min b).
Proof.
  destruct a as [|x ta]; [cbn [app]; destruct (fnp_min b); reflexivity|].
  destruct b as [|y tb]; [rewrite app_nil_r; destruct (fnp_min (x :: ta)); reflexivity|].
  set (a := x :: ta). set (b := y :: tb).
  assert (a <> []) as Ha by (subst a; congruence). assert (b <> []) as Hb by (subst b; congruence).
  unfold fnp_min. change (a ++ b) with (x :: (ta ++ b)). cbv iota. fold a. fold b.
  change (x :: ta ++ b) with (a ++ b).
  rewrite existsb_app, drop_nan_app, np_min_app.
  destruct (existsb is_nan a) eqn:Ea; cbn [orb ofmerge fmerge].
  - destruct (if existsb is_nan b then None else np_min (drop_nan b)); reflexivity.
  - destruct (existsb is_nan b) eqn:Eb.
    + destruct (np_min (drop_nan a)); reflexivity.
    + destruct (np_min_nonempty _ (drop_nan_nonempty a Ha Ea)) as [u ->].
      destruct (np_min_nonempty _ (drop_nan_nonempty b Hb Eb)) as [v ->]. reflexivity.
Qed.

Lemma fnp_max_app a b : fnp_max (a ++ b) = ofmerge Z.max (fnp_max a) (fnp_max b).
Proof.
  destruct a as [|x ta]; [cbn [app]; destruct (fnp_max b); reflexivity|].
  destruct b as [|y tb]; [rewrite app_nil_r; destruct (fnp_max (x :: ta)); reflexivity|].
  set (a := x :: ta). set (b := y :: tb).
  assert (a <> []) as Ha by (subst a; congruence). assert (b <> []) as Hb by (subst b; congruence).
  unfold fnp_max. change (a ++ b) with (x :: (ta ++ b)). cbv iota. fold a. fold b.
  change (x :: ta ++ b) with (a ++ b).
  rewrite existsb_app, drop_nan_app, np_max_app.
  destruct (existsb is_nan a) eqn:Ea; cbn [orb ofmerge fmerge].
  - destruct (if existsb is_nan b then None else np_max (drop_nan b)); reflexivity.
  - destruct (existsb is_nan b) eqn:Eb.
    + destruct (np_max (drop_nan a)); reflexivity.
    + destruct (np_max_nonempty _ (drop_nan_nonempty a Ha Ea)) as [u ->].
      destruct (np_max_nonempty _ (drop_nan_nonempty b Hb Eb)) as [v ->]. reflexivity.
Qed.

Lemma fnp_min_idem a : fnp_min (opt_to_list (fnp_min a)) = fnp_min a.
Proof.
  destruct a as [|x t]; [reflexivity|]. unfold fnp_min at 2 3. cbv iota.
  destruct (existsb is_nan (x :: t)) eqn:E; [reflexivity|].
  destruct (np_min_nonempty _ (drop_nan_nonempty (x :: t) ltac:(congruence) E)) as [u ->]. reflexivity.
Qed.
Lemma fnp_max_idem a : fnp_max (opt_to_list (fnp_max a)) = fnp_max a.
Proof.
  destruct a as [|x t]; [reflexivity|]. unfold fnp_max at 2 3. cbv iota.
  destruct (existsb is_nan (x :: t)) eqn:E; [reflexivity|].
  destruct (np_max_nonempty _ (drop_nan_nonempty (x :: t) ltac:(congruence) E)) as [u ->]. reflexivity.
Qed.

Theorem hom_fmin : hom_reduction red_fmin (fun b => b) (fun x => opt_to_list (fnp_min x)) fnp_min.
Proof. apply (hom_optional fnp_min (ofmerge Z.min) (fun o => o) fnp_min_app fnp_min_idem). Qed.
Theorem hom_fmax : hom_reduction red_fmax (fun b => b) (fun x => opt_to_list (fnp_max x)) fnp_max.
Proof. apply (hom_optional fnp_max (ofmerge Z.max) (fun o => o) fnp_max_app fnp_max_idem). Qed.

(* nanmin / nanmax: NaN is the neutral element *)
Definition onanmerge (f : Z -> Z -> Z) (a b : option fz) : option fz :=
  match a, b with None, x => x | x, None => x | Some u, Some v => Some (omerge2 f u v) end.

Lemma fnp_nanmin_app a b : fnp_nanmin (a ++ b) = onanmerge Z.min (fnp_nanmin a) (fnp_nanmin b).
Proof.
  destruct a as [|x ta]; [cbn [app]; destruct (fnp_nanmin b); reflexivity|].
  destruct b as [|y tb]; [rewrite app_nil_r; reflexivity|].
  cbn [fnp_nanmin app onanmerge]. rewrite <- np_min_app, <- drop_nan_app. reflexivity.
Qed.
Lemma fnp_nanmax_app a b : fnp_nanmax (a ++ b) = onanmerge Z.max (fnp_nanmax a) (fnp_nanmax b).
Proof.
  destruct a as [|x ta]; [cbn [app]; destruct (fnp_nanmax b); reflexivity|].
  destruct b as [|y tb]; [rewrite app_nil_r; reflexivity|].
  cbn [fnp_nanmax app onanmerge]. rewrite <- np_max_app, <- drop_nan_app. reflexivity.
Qed.
Lemma fnp_nanmin_idem a : fnp_nanmin (opt_to_list (fnp_nanmin a)) = fnp_nanmin a.
Proof.
  destruct a as [|x t]; [reflexivity|]. cbn [fnp_nanmin opt_to_list].
  destruct (np_min (drop_nan (x :: t))); reflexivity.
Qed.
Lemma fnp_nanmax_idem a : fnp_nanmax (opt_to_list (fnp_nanmax a)) = fnp_nanmax a.
Proof.
  destruct a as [|x t]; [reflexivity|]. cbn [fnp_nanmax opt_to_list].
  destruct (np_max (drop_nan (x :: t))); reflexivity.
Qed.

Theorem hom_nanmin : hom_reduction red_nanmin (fun b => b) (fun x => opt_to_list (fnp_nanmin x)) fnp_nanmin.
Proof. apply (hom_optional fnp_nanmin (onanmerge Z.min) (fun o => o) fnp_nanmin_app fnp_nanmin_idem). Qed.
Theorem hom_nanmax : hom_reduction red_nanmax (fun b => b) (fun x => opt_to_list (fnp_nanmax x)) fnp_nanmax.
Proof. apply (hom_optional fnp_nanmax (onanmerge Z.max) (fun o => o) fnp_nanmax_app fnp_nanmax_idem). Qed.

(* ------------------------------------------------------------------ *)
(* arg reductions along one axis                                       *)

Definition strict_weak (better : Z -> Z -> bool) : Prop :=
  (forall a b c, better a b = true -> better b c = true -> better a c = true) /\
  (forall a b c, better a b = false -> better b c = false -> better a c = false).

Lemma strict_weak_gtb : strict_weak Z.gtb.
Proof. split; intros a b c H1 H2; lia. Qed.
Lemma strict_weak_ltb : strict_weak Z.ltb.
Proof. split; intros a b c H1 H2; lia. Qed.

(* scanning records left to right, keeping the current best, replacing it only by a strictly better one *)
Fixpoint best_rec_from (better : Z -> Z -> bool) (cur : Z * Z) (t : list (Z * Z)) : Z * Z :=
  match t with
  | [] => cur
  | r :: t' => if better (fst r) (fst cur) then best_rec_from better r t' else best_rec_from better cur t'
  end.

Lemma argbest_from_records better t : forall (pre : list (Z * Z)) i bi cur,
  Z.of_nat (length pre) = i -> 0 <= bi < i -> nth (Z.to_nat bi) pre (0, 0) = cur ->
  (let '(v, pos) := argbest_from better i bi (fst cur) (map fst t) in
   (v, snd (nth (Z.to_nat pos) (pre ++ t) (0, 0)))) = best_rec_from better cur t.
Proof.
  induction t as [|r t IH]; intros pre i bi cur Hlen Hbi Hcur.
  - cbn [map argbest_from best_rec_from]. rewrite app_nil_r, Hcur. destruct cur; reflexivity.
  - cbn [map argbest_from best_rec_from].
    replace (pre ++ r :: t) with ((pre ++ [r]) ++ t) by (rewrite <- app_assoc; reflexivity).
    destruct (better (fst r) (fst cur)) eqn:E.
    + apply (IH (pre ++ [r]) (i + 1) i r).
      * rewrite app_length. cbn [length]. lia.
      * lia.
      * rewrite app_nth2 by lia. replace (Z.to_nat i - length pre)%nat with 0%nat by lia. reflexivity.
    + apply (IH (pre ++ [r]) (i + 1) bi cur).
      * rewrite app_length. cbn [length]. lia.
      * lia.
      * rewrite app_nth1 by lia. assumption.
Qed.

Lemma arg_combine_best better recs :
  arg_combine better recs = match recs with [] => None | r0 :: t => Some (best_rec_from better r0 t) end.
Proof.
  destruct recs as [|r0 t]; [reflexivity|].
  unfold arg_combine. cbn [map np_argbest].
  pose proof (argbest_from_records better t [r0] 1 0 r0 eq_refl ltac:(lia) eq_refl) as H.
  destruct (argbest_from better 1 0 (fst r0) (map fst t)) as [v pos]. cbn [app] in H. rewrite H. reflexivity.
Qed.

Definition pick (better : Z -> Z -> bool) (a b : Z * Z) : Z * Z := if better (fst b) (fst a) then b else a.

Lemma best_rec_from_pick better : strict_weak better ->
  forall t cur r, best_rec_from better cur (r :: t) = pick better cur (best_rec_from better r t).
Proof.
  intros [HT HN]. induction t as [|s t IH]; intros cur r.
  - reflexivity.
  - change (best_rec_from better cur (r :: s :: t))
      with (if better (fst r) (fst cur) then best_rec_from better r (s :: t) else best_rec_from better cur (s :: t)).
    rewrite (IH r s), (IH cur s).
    set (B' := best_rec_from better s t). unfold pick.
    destruct (better (fst r) (fst cur)) eqn:E1; destruct (better (fst B') (fst r)) eqn:E2.
    + rewrite (HT _ _ _ E2 E1). reflexivity.
    + rewrite E1. reflexivity.
    + reflexivity.
    + rewrite E1, (HN _ _ _ E2 E1). reflexivity.
Qed.

Lemma best_rec_from_app better cur l1 l2 :
  best_rec_from better cur (l1 ++ l2) = best_rec_from better (best_rec_from better cur l1) l2.
Proof.
  revert cur. induction l1 as [|r t IH]; intros cur; [reflexivity|].
  cbn [app best_rec_from]. destruct (better (fst r) (fst cur)); apply IH.
Qed.

Definition omerge_rec (better : Z -> Z -> bool) (a b : option (Z * Z)) : option (Z * Z) :=
  match a, b with None, x => x | x, None => x | Some p, Some q => Some (pick better p q) end.

Lemma arg_combine_app better : strict_weak better -> forall a b,
  arg_combine better (a ++ b) = omerge_rec better (arg_combine better a) (arg_combine better b).
Proof.
  intros Hsw a b. rewrite !arg_combine_best.
  destruct a as [|r0 ta]; [cbn [app]; destruct b; reflexivity|].
  destruct b as [|s tb]; [rewrite app_nil_r; reflexivity|].
  cbn [app omerge_rec]. rewrite best_rec_from_app, best_rec_from_pick by assumption. reflexivity.
Qed.

Lemma arg_combine_idem better a : arg_combine better (opt_to_list (arg_combine better a)) = arg_combine better a.
Proof. rewrite !arg_combine_best. destruct a; reflexivity. Qed.

(* a block of data starting at global position `off`, as (value, global position) records *)
Fixpoint locate_from (i : Z) (data : list Z) : list (Z * Z) :=
  match data with [] => [] | x :: t => (x, i) :: locate_from (i + 1) t end.

Lemma argbest_from_locate better off t : forall i bi bv,
  (let '(v, pos) := argbest_from better i bi bv t in (v, pos + off))
  = best_rec_from better (bv, bi + off) (locate_from (i + off) t).
Proof.
  induction t as [|x t IH]; intros i bi bv; [reflexivity|].
  cbn [argbest_from locate_from best_rec_from fst].
  replace (i + off + 1) with (i + 1 + off) by lia.
  destruct (better x bv); apply IH.
Qed.

Lemma arg_chunk_axis_locate better off data :
  arg_chunk_axis better (off, data) = opt_to_list (arg_combine better (locate_from off data)).
Proof.
  rewrite arg_combine_best. unfold arg_chunk_axis. cbn [fst snd].
  destruct data as [|x t]; [reflexivity|]. cbn [np_argbest locate_from opt_to_list].
  pose proof (argbest_from_locate better off t 1 0 x) as H.
  destruct (argbest_from better 1 0 x t) as [v pos]. rewrite Z.add_0_l in H.
  replace (1 + off) with (off + 1) in H by lia. rewrite <- H. reflexivity.
Qed.

Lemma np_argbest_locate better data :
  option_map snd (arg_combine better (locate_from 0 data)) = option_map snd (np_argbest better data).
Proof.
  rewrite arg_combine_best. destruct data as [|x t]; [reflexivity|]. cbn [np_argbest locate_from option_map].
  pose proof (argbest_from_locate better 0 t 1 0 x) as H.
  destruct (argbest_from better 1 0 x t) as [v pos]. rewrite !Z.add_0_r in H. change (0 + 1) with 1. rewrite <- H. reflexivity.
Qed.

Theorem hom_arg_axis better : strict_weak better ->
  hom_reduction (red_arg_axis better) (fun b => locate_from (fst b) (snd b))
                (fun recs => opt_to_list (arg_combine better recs))
                (fun recs => option_map snd (arg_combine better recs)).
Proof.
  intros Hsw.
  pose proof (optional_absorb (arg_combine better) (omerge_rec better) (arg_combine_app better Hsw)
                              (arg_combine_idem better)) as Habs.
  repeat split.
  - intros [off data]. apply arg_chunk_axis_locate.
  - intros ds _. cbn. rewrite Habs. reflexivity.
  - intros ds _. cbn. rewrite Habs. destruct (arg_combine better (concat ds)) as [[v a]|]; reflexivity.
Qed.

(* the blocks with their offsets cover the located data *)
Fixpoint offsets_from (o : Z) (chunks : list Z) : list Z :=
  match chunks with [] => [] | c :: t => o :: offsets_from (o + c) t end.

Lemma offsets_from_length cs : forall o, length (offsets_from o cs) = length cs.
Proof. induction cs as [|c t IH]; intros o; cbn; [reflexivity|]. rewrite IH. reflexivity. Qed.

Lemma block_offsets_from cs : forall o, cs <> [] -> o :: removelast (cumsum_from o cs) = offsets_from o cs.
Proof.
  induction cs as [|c t IH]; intros o H; [congruence|].
  cbn [cumsum_from offsets_from]. f_equal.
  destruct t as [|c' t']; [reflexivity|].
  rewrite <- (IH (o + c)) by congruence. cbn [cumsum_from]. reflexivity.
Qed.

Lemma combine_block_offsets {A} cs (l : list A) :
  length l = length cs -> combine (block_offsets cs) l = combine (offsets_from 0 cs) l.
Proof.
  intros H. destruct cs as [|c t]; [destruct l; [reflexivity | discriminate]|].
  unfold block_offsets, cumsum. rewrite block_offsets_from by congruence. reflexivity.
Qed.

Lemma split_chunks_length {A} cs (l : list A) : length (split_chunks cs l) = length cs.
Proof. revert l. induction cs as [|c t IH]; intros l; cbn; [reflexivity|]. rewrite IH. reflexivity. Qed.

Lemma locate_from_app o a b : locate_from o (a ++ b) = locate_from o a ++ locate_from (o + Z.of_nat (length a)) b.
Proof.
  revert o. induction a as [|x t IH]; intros o; cbn [app locate_from length].
  - rewrite Z.add_0_r. reflexivity.
  - rewrite IH. cbn [app]. do 3 f_equal. lia.
Qed.

Lemma located_blocks cs : forall o (data : list Z),
  Forall (fun c => 0 <= c) cs -> zsum cs = Z.of_nat (length data) ->
  concat (map (fun b => locate_from (fst b) (snd b)) (combine (offsets_from o cs) (split_chunks cs data)))
  = locate_from o data.
Proof.
  induction cs as [|c t IH]; intros o data Hnn Hsum.
  - cbn in *. destruct data; [reflexivity | cbn in Hsum; lia].
  - inversion Hnn as [|? ? Hc Ht]; subst. cbn [zsum] in Hsum.
    pose proof (zsum_nonneg t Ht) as Hnt.
    cbn [offsets_from split_chunks combine map concat fst snd].
    rewrite IH; [|assumption|rewrite skipn_length; lia].
    rewrite <- (firstn_skipn (Z.to_nat c) data) at 3. rewrite locate_from_app.
    rewrite firstn_length. do 2 f_equal. lia.
Qed.

(* the statement of C18_arg_axis_chunking_independent *)
Theorem arg_axis_tree better chunks data k depth :
  strict_weak better -> chunks <> [] -> Forall (fun c => 0 <= c) chunks -> zsum chunks = Z.of_nat (length data) ->
  2 <= k -> 1 <= depth -> Z.of_nat (length chunks) <= k ^ depth ->
  tree_reduce_1d (red_arg_axis better) k depth (combine (block_offsets chunks) (split_chunks chunks data))
  = [option_map snd (np_argbest better data)].
Proof.
  intros Hsw Hne Hnn Hsum Hk Hd Hlen.
  rewrite combine_block_offsets by apply split_chunks_length.
  assert (length (combine (offsets_from 0 chunks) (split_chunks chunks data)) = length chunks) as Hl.
  { rewrite combine_length, split_chunks_length, offsets_from_length. lia. }
  rewrite (tree_reduce_1d_hom _ _ _ _ (hom_arg_axis better Hsw) k depth); try assumption.
  - rewrite located_blocks by assumption. rewrite np_argbest_locate. reflexivity.
  - intros H. rewrite H in Hl. destruct chunks; [congruence | discriminate].
  - rewrite Hl. assumption.
Qed.

(* blocks that are their own data (phi = identity) *)
Theorem tree_reduce_1d_data {D S R} (r : reduction (list D) S R) (h : list D -> S) (spec : list D -> R) k depth blocks :
  hom_reduction r (fun b => b) h spec ->
  2 <= k -> 1 <= depth -> blocks <> [] -> Z.of_nat (length blocks) <= k ^ depth ->
  tree_reduce_1d r k depth blocks = [spec (concat blocks)].
Proof.
  intros Hh Hk Hd Hb Hl. rewrite (tree_reduce_1d_hom r (fun b => b) h spec Hh k depth blocks Hk Hd Hb Hl).
  rewrite map_id. reflexivity.
Qed.

Theorem count_nonzero_tree k depth blocks :
  2 <= k -> 1 <= depth -> blocks <> [] -> Z.of_nat (length blocks) <= k ^ depth ->
  tree_reduce_1d red_sum k depth (count_nonzero_blocks blocks)
  = [zsum (map (fun x => b2z (nonzero x)) (concat blocks))].
Proof.
  intros Hk Hd Hb Hl.
  rewrite (tree_reduce_1d_data red_sum _ zsum k depth _ hom_sum Hk Hd).
  - rewrite count_nonzero_concat. reflexivity.
  - unfold count_nonzero_blocks. destruct blocks; [congruence | cbn; congruence].
  - unfold count_nonzero_blocks. rewrite map_length. assumption.
Qed.

Theorem tree_reduce_1d_ok {D S R} (r : reduction (list D) S R) (h : list D -> S) (spec : list D -> R) :
  hom_reduction r (fun b => b) h spec ->
  forall k depth blocks, tree_ok k depth blocks -> tree_reduce_1d r k depth blocks = [spec (concat blocks)].
Proof. intros Hh k depth blocks (Hk & Hd & Hb & Hl). exact (tree_reduce_1d_data r h spec k depth blocks Hh Hk Hd Hb Hl). Qed.

Theorem count_nonzero_tree_ok k depth blocks : tree_ok k depth blocks ->
  tree_reduce_1d red_sum k depth (count_nonzero_blocks blocks)
  = [zsum (map (fun x => b2z (nonzero x)) (concat blocks))].
Proof. intros (Hk & Hd & Hb & Hl). exact (count_nonzero_tree k depth blocks Hk Hd Hb Hl). Qed.
