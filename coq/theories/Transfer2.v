(* L1 — models of the remaining `transfer_bytes` overrides:
   _overlap.py:OverlapInternal.transfer_bytes,
   _shuffle.py:Shuffle._new_chunks / Shuffle.transfer_bytes,
   stacking/_stack.py:Stack.transfer_bytes,
   reductions/_cumulative.py:CumReduction.transfer_bytes / CumReductionBlelloch.transfer_bytes,
   reductions/_sliding_window.py:SlidingWindowReduction._block_plan / .transfer_bytes,
   reductions/_sliding_window.py:MovingWindowReduction._block_plan / .transfer_bytes
   (and the two `supports_native_*` predicates that guard the constructors).
   Definitions only.  Every chunk size is a known integer (the NaN cases are outside the
   model).  All floats of the Python code are integer-valued doubles here (exact while
   < 2^53): `x.nbytes / n` divides a product that contains the factor n, so the model's
   Z division is exact (Transfer2Facts.row_bytes_exact); the only true quotient is
   2 * (k - 1) / k of CumReduction, kept as an exact rational (num, den). *)
From DA Require Export PyBase Transfer.
Open Scope Z_scope.

(* ====================================================================== *)
(* shared pieces *)

(* [s for i, s in enumerate(l) if i != n] *)
Fixpoint drop_nth {A} (n : nat) (l : list A) : list A :=
  match l with
  | [] => []
  | x :: t => match n with O => t | S n' => x :: drop_nth n' t end
  end.

(* x.shape, x.nbytes *)
Definition shape_of (chunks : list (list Z)) : list Z := map zsum chunks.
Definition nbytes_of (chunks : list (list Z)) (itemsize : Z) : Z := zprod (shape_of chunks) * itemsize.

(* itemsize * math.prod(s for i, s in enumerate(x.shape) if i != axis) *)
Definition cross_section (chunks : list (list Z)) (axis : nat) (itemsize : Z) : Z :=
  itemsize * zprod (drop_nth axis (shape_of chunks)).

(* sum(l[a:b]) for 0 <= a *)
Definition slice_sum (l : list Z) (a b : Z) : Z :=
  zsum (firstn (Z.to_nat (b - a)) (skipn (Z.to_nat a) l)).

(* starts = [0]; for c in chunks: starts.append(starts[-1] + c) *)
Definition starts_of (chunks : list Z) : list Z := 0 :: cumsum chunks.

(* ====================================================================== *)
(* OverlapInternal.transfer_bytes.
   depths: one (before, after) pair per axis — `self.axes.get(axis, 0)` expanded by
   `depth if isinstance(depth, tuple) else (depth, depth)`. *)

(* one iteration of `for axis, chunks in enumerate(x.chunks)` *)
Definition ov_axis (chunks_all : list (list Z)) (itemsize : Z) (axis : nat) (chunks : list Z)
           (depth : Z * Z) (ghost fetches : Z) : Z * Z :=
  let '(before, after) := depth in
  if (Z.of_nat (length chunks) <? 2) || ((before =? 0) && (after =? 0)) then (ghost, fetches)   (* continue *)
  else
    let cross := cross_section chunks_all axis itemsize in
    let ghost := ghost + (before + after) * (Z.of_nat (length chunks) - 1) * cross in
    let total := zsum chunks in
    let fetches := if before =? 0 then fetches else fetches + (total - hd 0 chunks) * cross in
    let fetches := if after =? 0 then fetches else fetches + (total - last chunks 0) * cross in
    (ghost, fetches).

Fixpoint ov_loop (chunks_all : list (list Z)) (itemsize : Z) (axis : nat) (chunks : list (list Z))
         (depths : list (Z * Z)) (ghost fetches : Z) : Z * Z :=
  match chunks, depths with
  | c :: cs, d :: ds =>
      let '(g, f) := ov_axis chunks_all itemsize axis c d ghost fetches in
      ov_loop chunks_all itemsize (S axis) cs ds g f
  | _, _ => (ghost, fetches)
  end.

Definition overlap_transfer (chunks : list (list Z)) (depths : list (Z * Z)) (itemsize : Z) : Z * Z :=
  let '(ghost, fetches) := ov_loop chunks itemsize 0 chunks depths 0 0 in
  (ghost, nbytes_of chunks itemsize + fetches + ghost).

(* ====================================================================== *)
(* Stack.transfer_bytes: nbytes = [a.nbytes for a in self.args if isinstance(a, ArrayExpr)] *)
Definition stack_transfer (nbytes : list Z) : Z * Z := (0, zsum nbytes).

(* ====================================================================== *)
(* CumReduction.transfer_bytes.  Returns (min, max) with max = fst / snd exactly:
     x.nbytes * (1 + 2 * (k - 1) / k) + 2 * carry  =  (nbytes * (3k - 2) + 2 * carry * k) / k.
   None = ZeroDivisionError (an axis without any block; no caller builds one). *)
Definition cum_carry (hyperplanes : Z) (chunks : list (list Z)) (axis : nat) (itemsize : Z) : Z :=
  let ax := nth axis chunks [] in
  let k := Z.of_nat (length ax) in
  let n := zsum ax in
  if n =? 0 then 0 else hyperplanes * (k - 1) * (nbytes_of chunks itemsize / n).

Definition cum_transfer (chunks : list (list Z)) (axis : nat) (itemsize : Z) : option (Z * (Z * Z)) :=
  let k := Z.of_nat (length (nth axis chunks [])) in
  let carry := cum_carry 1 chunks axis itemsize in
  if k =? 0 then None
  else Some (carry, (nbytes_of chunks itemsize * (3 * k - 2) + 2 * carry * k, k)).

(* CumReductionBlelloch.transfer_bytes: carry = 3 * (k - 1) * (x.nbytes / n) *)
Definition blelloch_transfer (chunks : list (list Z)) (axis : nat) (itemsize : Z) : Z * Z :=
  let carry := cum_carry 3 chunks axis itemsize in
  (carry, 2 * nbytes_of chunks itemsize + carry).

(* ====================================================================== *)
(* Shuffle._new_chunks(indexer) with limit = self._chunk_size_limit = max(x.chunks[axis]) *)

(* [idx[i : i + limit] for i in range(0, len(idx), limit)]; fuel = len(idx) *)
Fixpoint chop (fuel : nat) (limit : nat) (idx : list Z) : list (list Z) :=
  match fuel with
  | O => []
  | S f => match idx with
           | [] => []
           | _ :: _ => firstn limit idx :: chop f limit (skipn limit idx)
           end
  end.

Definition zlen {A} (l : list A) : Z := Z.of_nat (length l).

(* the loop; `done` is new_chunks in REVERSE order *)
Fixpoint nc_loop (limit : Z) (indexer : list (list Z)) (current : list Z) (done : list (list Z))
  : list (list Z) :=
  match indexer with
  | [] => rev (if 0 <? zlen current then current :: done else done)
  | idx :: rest =>
      if limit <? zlen idx then
        let done := if 0 <? zlen current then current :: done else done in
        nc_loop limit rest [] (rev (chop (length idx) (Z.to_nat limit) idx) ++ done)
      else if (limit <? zlen current + zlen idx) && (0 <? zlen current) then
        nc_loop limit rest idx (current :: done)
      else
        let current := current ++ idx in
        if limit <? zlen current then nc_loop limit rest [] (current :: done)
        else nc_loop limit rest current done
  end.

(* None: limit < 1 (range() step 0 -> ValueError when a group has to be split; an axis whose
   largest chunk is 0 has no valid index at all) *)
Definition shuffle_new_chunks (limit : Z) (indexer : list (list Z)) : option (list (list Z)) :=
  if limit <? 1 then None else Some (nc_loop limit indexer [] []).

(* Shuffle.transfer_bytes; new_chunks = self._new_chunks *)

(* counts[block] = counts.get(block, 0) + 1   (insertion-ordered dict as an association list) *)
Fixpoint count_add (b : Z) (counts : list (Z * Z)) : list (Z * Z) :=
  match counts with
  | [] => [(b, 1)]
  | (b', c) :: t => if b =? b' then (b', c + 1) :: t else (b', c) :: count_add b t
  end.

Definition sh_counts (bounds : list Z) (idx : list Z) : list (Z * Z) :=
  fold_left (fun counts i => count_add (bisect_right bounds i) counts) idx [].

(* one iteration of `for idx in self._new_chunks`; acc = (lo, splits, merges) *)
Definition sh_group (axis_chunks bounds : list Z) (acc : Z * Z * Z) (idx : list Z) : Z * Z * Z :=
  let '(lo, splits, merges) := acc in
  let counts := sh_counts bounds idx in
  (lo + (zlen idx - fold_right Z.max 0 (map snd counts)),            (* max(counts.values(), default=0) *)
   splits + zsum (map (fun e => nthZ axis_chunks (fst e)) counts),
   if 1 <? zlen counts then merges + zlen idx else merges).

Definition shuffle_transfer (chunks : list (list Z)) (axis : nat) (itemsize : Z)
           (new_chunks : list (list Z)) : Z * Z :=
  let axis_chunks := nth axis chunks [] in
  let n := zsum axis_chunks in
  if n =? 0 then (0, 0)
  else
    let row_bytes := nbytes_of chunks itemsize / n in
    let bounds := cumsum axis_chunks in
    let '(lo, splits, merges) := fold_left (sh_group axis_chunks bounds) new_chunks (0, 0, 0) in
    (lo * row_bytes, (splits + merges) * row_bytes).

(* ====================================================================== *)
(* SlidingWindowReduction._block_plan: rows (out_len, band_offset, b, e) *)
Fixpoint sw_plan (starts : list Z) (window : Z) (chunks : list Z) (i : Z) (remaining : Z)
  : list (Z * Z * Z * Z) :=
  match chunks with
  | [] => []
  | c :: cs =>
      let out_len := Z.max 0 (Z.min c remaining) in
      let remaining := remaining - out_len in
      if out_len <=? 0 then (0, 0, i, i) :: sw_plan starts window cs (i + 1) remaining
      else
        let edge := nthZ starts i + window - 1 in
        let b := bisect_right starts edge - 1 in
        let e := bisect_right starts (edge + out_len - 1) - 1 in
        (out_len, edge - nthZ starts b, b, e) :: sw_plan starts window cs (i + 1) remaining
  end.

Definition sliding_plan (chunks : list Z) (window : Z) : list (Z * Z * Z * Z) :=
  sw_plan (starts_of chunks) window chunks 0 (zsum chunks - window + 1).

(* the loop of SlidingWindowReduction.transfer_bytes, in units of `cross` (lo and hi are
   sums of integer multiples of cross): `if out_len <= 0: break` *)
Fixpoint sw_loop (chunks : list Z) (i : Z) (plan : list (Z * Z * Z * Z)) (lo hi : Z) : Z * Z :=
  match plan with
  | [] => (lo, hi)
  | (out_len, band_offset, b, e) :: plan' =>
      if out_len <=? 0 then (lo, hi)
      else
        let middles := b - i - 1 in
        sw_loop chunks (i + 1) plan'
                (lo + (middles + (band_offset + out_len)))
                (hi + (middles + (nthZ chunks i + slice_sum chunks b (e + 1))))
  end.

Definition sliding_transfer (chunks : list (list Z)) (axis : nat) (itemsize : Z) (window : Z) : Z * Z :=
  let cross := cross_section chunks axis itemsize in
  let ax := nth axis chunks [] in
  let '(lo, hi) := sw_loop ax 0 (sliding_plan ax window) 0 0 in
  (lo * cross, hi * cross).

(* supports_native_sliding_window(chunks, window) on known chunk sizes *)
Fixpoint sns_loop (depth out_len : Z) (chunks : list Z) (start : Z) : bool :=
  match chunks with
  | [] => true
  | c :: cs =>
      if out_len <=? start then true
      else if depth <? c then false
      else sns_loop depth out_len cs (start + c)
  end.

Definition zmin_ne (l : list Z) : Z := match l with [] => 0 | x :: t => fold_right Z.min x t end.

Definition supports_sliding (chunks : list Z) (window : Z) : bool :=
  let depth := window - 1 in
  if depth <=? 0 then false
  else if zmin_ne chunks <=? 0 then false
  else if zsum chunks <? window then false
  else if (depth <=? zmin_ne chunks) && (depth <? last chunks 0) then false
  else sns_loop depth (zsum chunks - depth) chunks 0.

(* ====================================================================== *)
(* MovingWindowReduction._block_plan: rows (start, c, band_start, band, n_middle) with
   band = Some (g, h) or None, n_middle = len(range(h + 1, i)) *)
Fixpoint mw_plan (starts : list Z) (window : Z) (chunks : list Z) (i : Z)
  : list (Z * Z * Z * option (Z * Z) * Z) :=
  match chunks with
  | [] => []
  | c :: cs =>
      let start := nthZ starts i in
      if start =? 0 then (start, c, 0, None, 0) :: mw_plan starts window cs (i + 1)
      else
        let band_first := Z.max 0 (start - window + 1) in
        let band_last := Z.max band_first (start + c - window) in
        let g := bisect_right starts band_first - 1 in
        let h := bisect_right starts band_last - 1 in
        (start, c, band_first - nthZ starts g, Some (g, h), Z.max 0 (i - (h + 1)))
          :: mw_plan starts window cs (i + 1)
  end.

Definition moving_plan (chunks : list Z) (window : Z) : list (Z * Z * Z * option (Z * Z) * Z) :=
  mw_plan (starts_of chunks) window chunks 0.

(* the loop of MovingWindowReduction.transfer_bytes, in units of `cross` *)
Fixpoint mw_loop (chunks : list Z) (plan : list (Z * Z * Z * option (Z * Z) * Z)) (lo hi : Z) : Z * Z :=
  match plan with
  | [] => (lo, hi)
  | (_, c, band_start, band, n_middle) :: plan' =>
      match band with
      | Some (g, h) =>
          mw_loop chunks plan' (lo + (n_middle + (slice_sum chunks g (h + 1) - band_start)))
                  (hi + (n_middle + c + slice_sum chunks g (h + 1)))
      | None => mw_loop chunks plan' (lo + (n_middle + 0)) (hi + (n_middle + c + 0))
      end
  end.

Definition moving_transfer (chunks : list (list Z)) (axis : nat) (itemsize : Z) (window : Z) : Z * Z :=
  let cross := cross_section chunks axis itemsize in
  let ax := nth axis chunks [] in
  let '(lo, hi) := mw_loop ax (moving_plan ax window) 0 0 in
  (lo * cross, hi * cross).

(* supports_native_moving_window(chunks, window) on known chunk sizes *)
Definition supports_moving (chunks : list Z) (window : Z) : bool :=
  if window <=? 1 then false
  else if zmin_ne chunks <=? 0 then false
  else if (zlen chunks <? 2) || (zsum chunks <? window) then false
  else zmax_ne chunks <=? window - 1.
