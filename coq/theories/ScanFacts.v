(* C19 — proofs about the cumulative-scan wirings of Scan.v *)
From DA Require Import PyBase PyBaseFacts Scan.
From Coq Require Import ZifyBool.
Open Scope Z_scope.

Ltac Zify.zify_post_hook ::= Z.to_euclidean_division_equations.

Section ScanFacts.
  Variable M : Type.
  Variable op : M -> M -> M.
  Variable e : M.
  Hypothesis op_assoc : forall a b c, op a (op b c) = op (op a b) c.
  Hypothesis op_e_l : forall a, op e a = a.
  Hypothesis op_e_r : forall a, op a e = a.

  Local Notation scan_from := (scan_from op).
  Local Notation scan := (scan op).
  Local Notation mtotal := (mtotal op e).
  Local Notation cum_tail := (cum_tail e).
  Local Notation bcast := (bcast op).

  Lemma scan_from_app acc l1 l2 :
    scan_from acc (l1 ++ l2) = scan_from acc l1 ++ scan_from (fold_left op l1 acc) l2.
  Proof.
    revert acc. induction l1 as [|x t IH]; intros acc; cbn [app Scan.scan_from fold_left]; [reflexivity|].
    rewrite IH. reflexivity.
  Qed.

  Lemma map_op_scan_from a x t : map (op a) (scan_from x t) = scan_from (op a x) t.
  Proof.
    revert x. induction t as [|y t IH]; intros x; cbn [Scan.scan_from map]; [reflexivity|].
    rewrite IH, op_assoc. reflexivity.
  Qed.

  Lemma bcast_scan a b : bcast a (scan b) = scan_from a b.
  Proof.
    destruct b as [|x t]; [reflexivity|].
    unfold Scan.bcast. cbn [Scan.scan map Scan.scan_from]. rewrite map_op_scan_from. reflexivity.
  Qed.

  Lemma scan_from_e l : scan_from e l = scan l.
  Proof. destruct l as [|x t]; [reflexivity|]. cbn [Scan.scan_from Scan.scan]. rewrite op_e_l. reflexivity. Qed.

  Lemma last_scan_from d x t : last (x :: scan_from x t) d = fold_left op t x.
  Proof.
    revert x. induction t as [|y t IH]; intros x; [reflexivity|].
    cbn [Scan.scan_from fold_left]. rewrite <- IH. reflexivity.
  Qed.

  Lemma cum_tail_scan b : cum_tail (scan b) = mtotal b.
  Proof.
    destruct b as [|x t]; [reflexivity|].
    unfold Scan.cum_tail, Scan.mtotal. cbn [Scan.scan]. apply last_scan_from.
  Qed.

  Lemma fold_left_op_out t a x : fold_left op t (op a x) = op a (fold_left op t x).
  Proof.
    revert x. induction t as [|y t IH]; intros x; cbn [fold_left]; [reflexivity|].
    rewrite <- op_assoc. apply IH.
  Qed.

  Lemma fold_left_mtotal b a : fold_left op b a = op a (mtotal b).
  Proof.
    destruct b as [|x t]; cbn [fold_left Scan.mtotal]; [symmetry; apply op_e_r|].
    apply fold_left_op_out.
  Qed.

  Lemma seq_rest_concat : forall blocks extra prev,
    concat (seq_rest op e extra prev blocks) = scan_from (op extra (cum_tail prev)) (concat blocks).
  Proof.
    induction blocks as [|b t IH]; intros extra prev; [reflexivity|].
    cbn [Scan.seq_rest concat]. rewrite IH, bcast_scan, cum_tail_scan, scan_from_app.
    rewrite fold_left_mtotal. reflexivity.
  Qed.

  (* C19_cumsum_sequential *)
  Theorem cum_sequential_correct blocks :
    concat (cum_sequential op e blocks) = scan (concat blocks).
  Proof.
    destruct blocks as [|b0 t]; [reflexivity|].
    cbn [Scan.cum_sequential concat]. rewrite seq_rest_concat, cum_tail_scan, op_e_l.
    destruct b0 as [|x t0].
    - cbn [Scan.scan Scan.mtotal app]. apply scan_from_e.
    - cbn [Scan.scan Scan.mtotal app]. rewrite scan_from_app. reflexivity.
  Qed.

  (* the sequential scheme keeps the chunk layout *)
  Lemma scan_from_length acc l : length (scan_from acc l) = length l.
  Proof. revert acc. induction l as [|x t IH]; intros acc; cbn; [reflexivity|]. rewrite IH. reflexivity. Qed.
  Lemma scan_length l : length (scan l) = length l.
  Proof. destruct l; cbn; [reflexivity|]. rewrite scan_from_length. reflexivity. Qed.

  Lemma seq_rest_lengths : forall blocks extra prev,
    map (@length M) (seq_rest op e extra prev blocks) = map (@length M) blocks.
  Proof.
    induction blocks as [|b t IH]; intros extra prev; [reflexivity|].
    cbn [Scan.seq_rest map]. rewrite IH. unfold Scan.bcast. rewrite map_length, scan_length. reflexivity.
  Qed.

  Theorem cum_sequential_lengths blocks :
    map (@length M) (cum_sequential op e blocks) = map (@length M) blocks.
  Proof.
    destruct blocks as [|b0 t]; [reflexivity|]. cbn [Scan.cum_sequential map].
    rewrite seq_rest_lengths, scan_length. reflexivity.
  Qed.

  Theorem cum_sequential_spec blocks :
    concat (cum_sequential op e blocks) = scan (concat blocks) /\
    map (@length M) (cum_sequential op e blocks) = map (@length M) blocks.
  Proof. split; [apply cum_sequential_correct | apply cum_sequential_lengths]. Qed.

  (* ---- Blelloch: reduction to the statement about prefix_vals --------------------- *)

  Lemma combine_rest_seq_rest : forall t acc extra prev,
    op extra (cum_tail prev) = acc ->
    combine_rest op (acc :: scan_from acc (map mtotal (removelast t))) t = seq_rest op e extra prev t.
  Proof.
    induction t as [|b t IH]; intros acc extra prev Hacc; [reflexivity|].
    cbn [Scan.seq_rest]. rewrite Hacc.
    destruct t as [|b' t'].
    - reflexivity.
    - change (removelast (b :: b' :: t')) with (b :: removelast (b' :: t')).
      cbn [map Scan.scan_from Scan.combine_rest]. f_equal.
      apply IH. rewrite cum_tail_scan. reflexivity.
  Qed.

  (* if the two sweeps leave the inclusive scan of the block totals in prefix_vals, the
     Blelloch scheme produces block for block what the sequential scheme produces *)
  Lemma cum_blelloch_of_prefix blocks :
    (forall ts, blelloch_prefix op e ts = Some (scan ts)) ->
    cum_blelloch op e blocks = Some (cum_sequential op e blocks).
  Proof.
    intros Hcore. destruct blocks as [|b0 t]; [reflexivity|].
    unfold Scan.cum_blelloch. rewrite Hcore. cbn [Scan.cum_sequential]. do 2 f_equal.
    destruct t as [|b1 t1]; [reflexivity|].
    change (removelast (b0 :: b1 :: t1)) with (b0 :: removelast (b1 :: t1)).
    cbn [map Scan.scan]. apply combine_rest_seq_rest.
    rewrite cum_tail_scan. apply op_e_l.
  Qed.
End ScanFacts.

(* ---- naturality: the sweeps commute with monoid homomorphisms -------------------------- *)
Section Hom.
  Variables A B : Type.
  Variable opA : A -> A -> A. Variable eA : A.
  Variable opB : B -> B -> B. Variable eB : B.
  Variable h : A -> B.
  Hypothesis h_op : forall a b, h (opA a b) = opB (h a) (h b).
  Hypothesis h_e : h eA = eB.

  Lemma map_upd l i v : map h (upd l i v) = upd (map h l) i (h v).
  Proof.
    revert i. induction l as [|x t IH]; intros i; [destruct i; reflexivity|].
    destruct i; cbn [upd map]; [reflexivity|]. rewrite IH. reflexivity.
  Qed.

  Lemma getZ_map l i : getZ eB (map h l) i = h (getZ eA l i).
  Proof. unfold getZ. rewrite <- h_e. apply map_nth. Qed.

  Lemma sweep_pass_hom pv start n s s2 :
    map h (sweep_pass opA eA pv start n s s2) = sweep_pass opB eB (map h pv) start n s s2.
  Proof.
    unfold sweep_pass. generalize (zrange start n s2) as idxs. intros idxs. revert pv.
    induction idxs as [|i t IH]; intros pv; [reflexivity|].
    cbn [fold_left]. rewrite IH, map_upd, h_op, !getZ_map. reflexivity.
  Qed.

  Lemma upsweep_hom : forall fuel pv n s s2,
    option_map (map h) (upsweep opA eA fuel pv n s s2) = upsweep opB eB fuel (map h pv) n s s2.
  Proof.
    induction fuel as [|f IH]; intros pv n s s2; cbn [upsweep]; destruct (s2 <=? n); try reflexivity.
    rewrite IH, sweep_pass_hom. reflexivity.
  Qed.

  Lemma downsweep_hom : forall fuel pv n s s2,
    option_map (map h) (downsweep opA eA fuel pv n s s2) = downsweep opB eB fuel (map h pv) n s s2.
  Proof.
    induction fuel as [|f IH]; intros pv n s s2; cbn [downsweep]; destruct (s >? 0); try reflexivity.
    rewrite IH, sweep_pass_hom. reflexivity.
  Qed.

  Lemma blelloch_prefix_hom ts :
    option_map (map h) (blelloch_prefix opA eA ts) = blelloch_prefix opB eB (map h ts).
  Proof.
    unfold blelloch_prefix. rewrite !map_length.
    destruct (Z.of_nat (length ts) >=? 2); [|reflexivity].
    rewrite <- upsweep_hom.
    destruct (upsweep opA eA (length ts) ts (Z.of_nat (length ts)) 1 2) as [pv|]; [|reflexivity].
    cbn [option_map]. apply downsweep_hom.
  Qed.
End Hom.

(* ---- from the free monoid to every monoid ------------------------------------------ *)
Section Free.
  Variable M : Type.
  Variable op : M -> M -> M.
  Variable e : M.
  Hypothesis op_assoc : forall a b c, op a (op b c) = op (op a b) c.
  Hypothesis op_e_l : forall a, op e a = a.
  Hypothesis op_e_r : forall a, op a e = a.

  (* interpretation of a word of block indices in (M, op, e) *)
  Definition interp (ts : list M) (w : list Z) : M :=
    fold_right (fun i acc => op (getZ e ts i) acc) e w.

  Lemma interp_app ts a b : interp ts (a ++ b) = op (interp ts a) (interp ts b).
  Proof.
    induction a as [|i a IH]; cbn [app interp fold_right]; [symmetry; apply op_e_l|].
    fold (interp ts (a ++ b)). fold (interp ts a). rewrite IH. apply op_assoc.
  Qed.

  Lemma map_nth_seq_id (l : list M) d : map (fun i => nth i l d) (seq 0 (length l)) = l.
  Proof.
    induction l as [|x t IH]; [reflexivity|].
    cbn [length seq map nth]. f_equal. rewrite <- seq_shift, map_map. exact IH.
  Qed.

  Lemma interp_gens ts :
    map (interp ts) (map (fun i => [Z.of_nat i]) (seq 0 (length ts))) = ts.
  Proof.
    rewrite map_map. rewrite <- (map_nth_seq_id ts e) at 2.
    apply map_ext. intros i. cbn [interp fold_right]. rewrite op_e_r. unfold getZ. rewrite Nat2Z.id. reflexivity.
  Qed.

  (* the real prefix_vals are the interpretation of the wiring *)
  Lemma blelloch_prefix_interp ts :
    blelloch_prefix op e ts = option_map (map (interp ts)) (blelloch_wiring (length ts)).
  Proof.
    unfold blelloch_wiring.
    rewrite (blelloch_prefix_hom (list Z) M (@app Z) [] op e (interp ts) (interp_app ts) eq_refl).
    rewrite interp_gens. reflexivity.
  Qed.

  (* the word 0,1,...,i is interpreted as the i-th entry of the inclusive scan *)
  Definition iota (i : nat) : list Z := map Z.of_nat (seq 0 (S i)).

  Lemma interp_snoc ts w i : interp ts (w ++ [i]) = op (interp ts w) (getZ e ts i).
  Proof. rewrite interp_app. cbn [interp fold_right]. rewrite op_e_r. reflexivity. Qed.

  Lemma iota_S i : iota (S i) = iota i ++ [Z.of_nat (S i)].
  Proof. unfold iota. rewrite (seq_S (S i) 0), map_app. reflexivity. Qed.

  Lemma scan_from_nth : forall l acc k d, (k < length l)%nat ->
    nth k (scan_from op acc l) d = fold_left op (firstn (S k) l) acc.
  Proof.
    induction l as [|x t IH]; intros acc k d Hk; [cbn in Hk; lia|].
    destruct k; cbn [scan_from nth firstn fold_left].
    - destruct t; reflexivity.
    - apply IH. cbn in Hk. lia.
  Qed.

  Lemma firstn_S_nth (l : list M) : forall k d, (k < length l)%nat ->
    firstn (S k) l = firstn k l ++ [nth k l d].
  Proof.
    induction l as [|x t IH]; intros k d Hk; [cbn in Hk; lia|].
    destruct k; [reflexivity|]. cbn [firstn nth app]. f_equal. apply IH. cbn in Hk. lia.
  Qed.

  Lemma interp_iota ts : forall i, (i < length ts)%nat ->
    interp ts (iota i) = nth i (scan op ts) e.
  Proof.
    destruct ts as [|x t]; [intros i Hi; cbn in Hi; lia|].
    induction i as [|i IH]; intros Hi.
    - cbn. apply op_e_r.
    - rewrite iota_S, interp_snoc, IH by lia.
      cbn [scan]. cbn [length] in Hi.
      destruct i.
      + cbn [nth]. unfold getZ. change (Z.to_nat (Z.of_nat 1)) with 1%nat. cbn [nth].
        destruct t as [|y t']; [cbn in Hi; lia|]. reflexivity.
      + cbn [nth]. rewrite !scan_from_nth by lia.
        unfold getZ. rewrite Nat2Z.id. cbn [nth].
        rewrite (firstn_S_nth t (S i) e) by lia.
        rewrite fold_left_app. reflexivity.
  Qed.

  Lemma blelloch_prefix_of_wiring ts :
    blelloch_wiring (length ts) = Some (map iota (seq 0 (length ts))) ->
    blelloch_prefix op e ts = Some (scan op ts).
  Proof.
    intros Hw. rewrite blelloch_prefix_interp, Hw. cbn [option_map]. f_equal.
    rewrite map_map.
    rewrite <- (map_nth_seq_id (scan op ts) e) at 1.
    destruct ts as [|x0 t0] eqn:Ets; [reflexivity|]. rewrite <- Ets in *.
    assert (Hlen : length (scan op ts) = length ts).
    { rewrite Ets. cbn [scan length]. f_equal. clear. generalize x0. induction t0 as [|y t IH]; intros x; cbn; [reflexivity|]. f_equal. apply IH. }
    rewrite Hlen. apply map_ext_in. intros i Hi. apply in_seq in Hi.
    rewrite interp_iota by lia. reflexivity.
  Qed.
End Free.
