(* L3 — a small expression syntax for dask_array's ArrayExpr nodes, its
   denotation as N-d arrays (NdArray.v), and transcriptions of the optimizer's
   most frequently fired value-level rewrite rules as functions
   [expr -> option expr] ([None] = the rule declines / does not apply).
   Definitions only; soundness proofs are in ExprRulesFacts.v (R1-R9, rechunk fusion / pushdown
   through Elemwise / into a read) and ExprRulesFacts2.v (R10 slice through Concatenate, R11 slice
   through Stack, R12 slice of ones/zeros/full, R13 Elemwise._lower, R14 Rechunk._lower with the
   pushdown through Concatenate, R15 slice through BroadcastTo, R16 rechunk through ExpandDims /
   Transpose).

   Children the rules do not look into are opaque leaves [ELeaf id shape chunks]
   (id identifies the node's _name).  *)
From DA Require Export PyBase Slicing NdArray.
Open Scope Z_scope.

(* the data source of a FromArray: the array given to from_array, or (when a small NumPy
   source was eagerly sliced by a pushdown) the copy source[region] of another source *)
Inductive src :=
| SBase (id : Z) (shp : list Z)
| SSliced (s : src) (r : list pslice).

Fixpoint src_shape (s : src) : list Z :=
  match s with
  | SBase _ shp => shp
  | SSliced s' r => slice_shape (map ISlice r) (src_shape s')
  end.

Fixpoint src_eqb (a b : src) : bool :=
  match a, b with
  | SBase i s, SBase i' s' => (i =? i') && list_eqb Z.eqb s s'
  | SSliced x r, SSliced x' r' => src_eqb x x' && list_eqb pslice_eqb r r'
  | _, _ => false
  end.

Fixpoint omap {A B} (f : A -> option B) (l : list A) : option (list B) :=
  match l with
  | [] => Some []
  | x :: t => match f x, omap f t with Some y, Some r => Some (y :: r) | _, _ => None end
  end.

Fixpoint set_at {A} (k : nat) (v : A) (l : list A) : list A :=
  match l, k with
  | [], _ => []
  | _ :: t, O => v :: t
  | x :: t, S k' => x :: set_at k' v t
  end.

Inductive expr :=
| ELeaf (id : Z) (shp : list Z) (chunks : list (list Z))
| EConst (id : Z)                                   (* scalar operand of an Elemwise *)
| ESlice (e : expr) (ix : list pidx) (opt : bool)   (* SliceSlicesIntegers(array, index, allow_getitem_optimization) *)
| ETranspose (e : expr) (axes : list nat)           (* Transpose(array, axes) *)
| EElemwise (op : Z) (args : list expr)             (* Elemwise(op, dtype, name, where, out, kwargs, *args): op = id of (op, dtype, name, kwargs);
                                                       op < 0: where= and out= are arrays, and are the last two of args *)
| ERechunk (e : expr) (spec : Z) (chunks : list (list Z)) (prm : Z) (balance : bool) (p2p : bool)
      (* Rechunk(array, _chunks, threshold, block_size_limit, balance, method):
         spec = id of the raw _chunks operand, chunks = the resolved .chunks,
         prm = id of (threshold, block_size_limit, method) *)
| EExpandDims (e : expr) (axes : list nat)          (* ExpandDims(array, axes) *)
| EConcat (e : expr) (axis : nat) (rest : list expr)(* Concatenate(array, axis, meta, *rest) *)
| EBroadcastTo (e : expr) (shp : list Z) (chunks : list (list Z))   (* BroadcastTo(array, _shape, _chunks, _meta_override) *)
| EArange (start step count : Z) (chunks : list Z)  (* Arange with integer start/step and num_rows = count *)
| ESource (s : src) (chunks : list (list Z)) (region : option (list pslice)) (nd : bool) (itemsize : Z) (other : Z)
      (* FromArray(array, _chunks, ..., _region): nd = the source is a plain numpy.ndarray, itemsize = its
         dtype.itemsize, other = id of (lock, getitem, inline_array, meta, asarray, fancy) *)
| EStack (e : expr) (axis : nat) (rest : list expr)   (* Stack(array, axis, meta, *rest) *)
| EFull (id : Z) (shp : list Z) (chunks : list (list Z))
      (* BroadcastTrick (Ones / Zeros / Full)(shape, dtype, chunks, meta, kwargs, name): id = id of
         (class, dtype, meta, kwargs); every element is the scalar [constv id] *)
| ETasksRechunk (e : expr) (chunks : list (list Z)) (prm : Z).
      (* TasksRechunk(array, _chunks, threshold, block_size_limit): the lowered rechunk; prm = id of
         (threshold, block_size_limit), 0 = both None *)

(* ---------------------------------------------------------------------- *)
(* advertised shape *)
Fixpoint eshape (e : expr) : list Z :=
  match e with
  | ELeaf _ shp _ => shp
  | EConst _ => []
  | ESlice e' ix _ => slice_shape ix (eshape e')
  | ETranspose e' axes => transpose_shape axes (eshape e')
  | EElemwise _ args => bshape_all (map eshape args)
  | ERechunk e' _ _ _ _ _ => eshape e'
  | EExpandDims e' axes => expand_shape axes (eshape e')
  | EConcat e' axis rest => concat_shape axis (eshape e') (map eshape rest)
  | EBroadcastTo _ shp _ => shp
  | EArange _ _ count _ => [count]
  | ESource s _ region _ _ _ =>       (* FromArray._effective_shape *)
      match region with
      | None => src_shape s
      | Some r => slice_shape (map ISlice r) (src_shape s)
      end
  | EStack e' axis rest => insert_at axis (Z.of_nat (S (length rest))) (eshape e')
  | EFull _ shp _ => shp
  | ETasksRechunk e' _ _ => eshape e'
  end.

Definition endim (e : expr) : nat := length (eshape e).

(* SliceSlicesIntegers.chunks: new_blockdim(d, db, i) for d, i, db in zip(shape, index, chunks)
   if i is not an integer *)
Fixpoint slice_chunks_nd (ix : list pidx) (chunks : list (list Z)) (shp : list Z) : list (list Z) :=
  match ix, chunks, shp with
  | IInt _ :: ix', _ :: c', _ :: s' => slice_chunks_nd ix' c' s'
  | ISlice s :: ix', c :: c', d :: s' => new_blockdim d c s :: slice_chunks_nd ix' c' s'
  | _, _, _ => []
  end.

(* chunks, where the model knows them *)
Fixpoint echunks (e : expr) : option (list (list Z)) :=
  match e with
  | ELeaf _ _ c => Some c
  | ERechunk _ _ c _ _ _ => Some c
  | EArange _ _ _ c => Some [c]
  | ESource _ c _ _ _ _ => Some c
  | ESlice e' ix _ =>
      match echunks e' with
      | Some c => Some (slice_chunks_nd ix c (eshape e'))
      | None => None
      end
  | EBroadcastTo _ _ c => Some c
  | EFull _ _ c => Some c
  | ETasksRechunk _ c _ => Some c
  | EConcat e' axis rest =>      (* bds[0][:axis] + (sum((bd[axis] for bd in bds), ()),) + bds[0][axis + 1:] *)
      match echunks e',
            (fix go (l : list expr) : option (list (list (list Z))) :=
               match l with
               | [] => Some []
               | x :: t => match echunks x, go t with Some y, Some r => Some (y :: r) | _, _ => None end
               end) rest with
      | Some c, Some cs => Some (set_at axis (concat (map (fun d => nth axis d []) (c :: cs))) c)
      | _, _ => None
      end
  | _ => None
  end.

(* ---------------------------------------------------------------------- *)
(* denotation *)
Section Den.
  Variable V : Type.
  Variable leafv : Z -> list Z -> V.      (* the values of opaque node [id] *)
  Variable constv : Z -> V.               (* the value of scalar operand [id] *)
  Variable fop : Z -> list V -> V.        (* the function of Elemwise op [id] *)
  Variable inj : Z -> V.                  (* integers as values (arange) *)

  Fixpoint srcden (s : src) : arr V :=
    match s with
    | SBase id shp => mkarr shp (leafv id)
    | SSliced s' r => aslice (map ISlice r) (srcden s')
    end.

  Fixpoint den (e : expr) : arr V :=
    match e with
    | ELeaf id shp _ => mkarr shp (leafv id)
    | EConst id => mkarr [] (fun _ => constv id)
    | ESlice e' ix _ => aslice ix (den e')
    | ETranspose e' axes => atranspose axes (den e')
    | EElemwise op args => aelemwise (fop op) (map den args)
    | ERechunk e' _ c _ _ _ => arechunk c (den e')
    | EExpandDims e' axes => aexpand_dims axes (den e')
    | EConcat e' axis rest => aconcat axis (den e') (map den rest)
    | EBroadcastTo e' shp _ => abroadcast_to shp (den e')
    | EArange start step count _ => aarange inj start step count
    | ESource s _ region _ _ _ =>
        match region with
        | None => srcden s
        | Some r => aslice (map ISlice r) (srcden s)
        end
    | EStack e' axis rest => astack axis (den e') (map den rest)
    | EFull id shp _ => afull shp (constv id)
    | ETasksRechunk e' c _ => arechunk c (den e')
    end.
End Den.

(* ---------------------------------------------------------------------- *)
(* well-formedness: what construction through the public API guarantees *)
Definition nonnegb (l : list Z) : bool := forallb (fun n => 0 <=? n) l.

Fixpoint strictly_increasing (l : list nat) : bool :=
  match l with
  | x :: ((y :: _) as t) => Nat.ltb x y && strictly_increasing t
  | _ => true
  end.

(* unit step:  step is None or 1 *)
Definition unit_step (s : pslice) : bool := match s_step s with None => true | Some k => k =? 1 end.

(* a region: one unit-step slice per source axis *)
Definition region_okb (r : list pslice) (shp : list Z) : bool :=
  idx_okb (map ISlice r) shp && forallb unit_step r.

Fixpoint src_wfb (s : src) : bool :=
  match s with
  | SBase _ shp => nonnegb shp
  | SSliced s' r => src_wfb s' && region_okb r (src_shape s')
  end.

Fixpoint wfb (e : expr) : bool :=
  match e with
  | ELeaf _ shp _ => nonnegb shp
  | EConst _ => true
  | ESlice e' ix _ => wfb e' && idx_okb ix (eshape e')
  | ETranspose e' axes => wfb e' && is_permb axes (endim e')
  | EElemwise _ args =>
      forallb wfb args &&
      forallb (fun a => bcast_intob (eshape a) (bshape_all (map eshape args))) args
  | ERechunk e' _ _ _ _ _ => wfb e'
  | EExpandDims e' axes =>
      wfb e' && strictly_increasing axes &&
      forallb (fun a => Nat.ltb a (endim e' + length axes)) axes
  | EConcat e' axis rest =>
      wfb e' && forallb wfb rest && Nat.ltb axis (endim e') &&
      forallb (fun r => list_eqb Z.eqb (set_nth axis 0 (eshape r)) (set_nth axis 0 (eshape e'))) rest
  | EBroadcastTo e' shp _ => wfb e' && nonnegb shp && bcast_intob (eshape e') shp
  | EArange _ _ count _ => 0 <=? count
  | ESource s _ region _ _ _ =>
      src_wfb s && match region with None => true | Some r => region_okb r (src_shape s) end
  | EStack e' axis rest =>
      wfb e' && forallb wfb rest && Nat.leb axis (endim e') &&
      forallb (fun r => list_eqb Z.eqb (eshape r) (eshape e')) rest
  | EFull _ shp _ => nonnegb shp
  | ETasksRechunk e' _ _ => wfb e'
  end.

(* ---------------------------------------------------------------------- *)
(* structural equality (what the correspondence check compares) *)
Definition zll_eqb := list_eqb (list_eqb Z.eqb).
Definition natlist_eqb := list_eqb Nat.eqb.
Definition pidxs_eqb := list_eqb pidx_eqb.

Fixpoint expr_eqb (a b : expr) : bool :=
  match a, b with
  | ELeaf i s c, ELeaf i' s' c' => (i =? i') && list_eqb Z.eqb s s' && zll_eqb c c'
  | EConst i, EConst i' => i =? i'
  | ESlice e ix o, ESlice e' ix' o' => expr_eqb e e' && pidxs_eqb ix ix' && Bool.eqb o o'
  | ETranspose e ax, ETranspose e' ax' => expr_eqb e e' && natlist_eqb ax ax'
  | EElemwise op args, EElemwise op' args' =>
      (op =? op') &&
      (fix go (l l' : list expr) : bool :=
         match l, l' with
         | [], [] => true
         | x :: t, y :: t' => expr_eqb x y && go t t'
         | _, _ => false
         end) args args'
  | ERechunk e s c p bl pp, ERechunk e' s' c' p' bl' pp' =>
      expr_eqb e e' && (s =? s') && zll_eqb c c' && (p =? p') && Bool.eqb bl bl' && Bool.eqb pp pp'
  | EExpandDims e ax, EExpandDims e' ax' => expr_eqb e e' && natlist_eqb ax ax'
  | EConcat e ax rest, EConcat e' ax' rest' =>
      expr_eqb e e' && Nat.eqb ax ax' &&
      (fix go (l l' : list expr) : bool :=
         match l, l' with
         | [], [] => true
         | x :: t, y :: t' => expr_eqb x y && go t t'
         | _, _ => false
         end) rest rest'
  | EBroadcastTo e s c, EBroadcastTo e' s' c' => expr_eqb e e' && list_eqb Z.eqb s s' && zll_eqb c c'
  | EStack e ax rest, EStack e' ax' rest' =>
      expr_eqb e e' && Nat.eqb ax ax' &&
      (fix go (l l' : list expr) : bool :=
         match l, l' with
         | [], [] => true
         | x :: t, y :: t' => expr_eqb x y && go t t'
         | _, _ => false
         end) rest rest'
  | EFull i s c, EFull i' s' c' => (i =? i') && list_eqb Z.eqb s s' && zll_eqb c c'
  | ETasksRechunk e c p, ETasksRechunk e' c' p' => expr_eqb e e' && zll_eqb c c' && (p =? p')
  | EArange a b c ch, EArange a' b' c' ch' => (a =? a') && (b =? b') && (c =? c') && list_eqb Z.eqb ch ch'
  | ESource s c r nd isz ot, ESource s' c' r' nd' isz' ot' =>
      src_eqb s s' && zll_eqb c c' &&
      (match r, r' with
       | None, None => true
       | Some x, Some y => list_eqb pslice_eqb x y
       | _, _ => false
       end) && Bool.eqb nd nd' && (isz =? isz') && (ot =? ot')
  | _, _ => false
  end.

Definition oexpr_eqb (a b : option expr) : bool :=
  match a, b with
  | Some x, Some y => expr_eqb x y
  | None, None => true
  | _, _ => false
  end.

(* ---------------------------------------------------------------------- *)
(* Array.__getitem__ restricted to an index of integers and slices
   [_collection.py: normalize_index, the all-colon shortcut, slice_array ->
   SliceSlicesIntegers(x, index2, True)].  None = raises. *)
Definition is_colon (i : pidx) : bool :=
  match i with ISlice s => pslice_eqb s colon | _ => false end.

(* normalize_index on one (index, dim): check_index, normalize_slice, posify_index *)
Definition norm_index1 (i : pidx) (n : Z) : option pidx :=
  match i with
  | IInt z => if check_int n z then Some (IInt (posify_int n z)) else None
  | ISlice s => if step_of s =? 0 then None else Some (ISlice (normalize_slice s n))
  | INone => None
  end.

Fixpoint norm_index (ix : list pidx) (shp : list Z) : option (list pidx) :=
  match ix, shp with
  | [], [] => Some []
  | [], _ :: shp' => option_map (cons (ISlice colon)) (norm_index [] shp')   (* idx + (slice(None),) * missing *)
  | _ :: _, [] => None                                                       (* Too many indices for array *)
  | i :: ix', n :: shp' =>
      match norm_index1 i n, norm_index ix' shp' with
      | Some j, Some r => Some (j :: r)
      | _, _ => None
      end
  end.

Definition mk_getitem (x : expr) (ix : list pidx) : option expr :=
  match norm_index ix (eshape x) with
  | None => None
  | Some ix2 => if forallb is_colon ix2 then Some x else Some (ESlice x ix2 true)
  end.

(* index + (slice(None),) * (ndim - len(index)) *)
Definition pad_index (ix : list pidx) (n : nat) : list pidx :=
  ix ++ repeat (ISlice colon) (n - length ix).

(* ---------------------------------------------------------------------- *)
(* R2 / R1   SliceSlicesIntegers._simplify_down   [slicing/_basic.py] *)

(* identity slice:  len(index) == ndim and every entry == slice(None) *)
Definition rule_slice_identity (e : expr) : option expr :=
  match e with
  | ESlice x ix _ =>
      if Nat.eqb (length ix) (endim x) && forallb is_colon ix then Some x else None
  | _ => None
  end.

(* tuple(normalize_slice(idx, dim) if isinstance(idx, slice) else idx
         for idx, dim in zip(fused, shape)) *)
Fixpoint normalize_fused (ix : list pidx) (shp : list Z) : list pidx :=
  match ix, shp with
  | i :: ix', n :: shp' =>
      (match i with ISlice s => ISlice (normalize_slice s n) | _ => i end) :: normalize_fused ix' shp'
  | _, _ => []
  end.

Definition rule_slice_slice (e : expr) : option expr :=
  match e with
  | ESlice (ESlice x a _) b ob =>
      match fuse_tuple a b with
      | Some c => Some (ESlice x (normalize_fused c (eshape x)) ob)
      | None => None                                  (* NotImplementedError: no fusion *)
      end
  | _ => None
  end.

Definition rule_slice_down (e : expr) : option expr :=
  match rule_slice_identity e with
  | Some r => Some r
  | None => rule_slice_slice e
  end.

(* ---------------------------------------------------------------------- *)
(* R3   Elemwise._accept_slice   [_blockwise.py]
   The operand's axes are right-aligned with the output's; a size-1 (broadcast)
   axis keeps slice(None) unless the output slice is empty, and gets 0 for an
   integer index; every operand is then sliced with the public __getitem__. *)
Definition elem_axis_index (i : pidx) (n m : Z) : pidx :=
  if n =? 1 then
    match i with
    | ISlice s => if slice_len s m =? 0 then ISlice s else ISlice colon
    | IInt _ => IInt 0
    | INone => INone
    end
  else i.

Fixpoint zip3 {A B C D} (f : A -> B -> C -> D) (a : list A) (b : list B) (c : list C) : list D :=
  match a, b, c with
  | x :: a', y :: b', z :: c' => f x y z :: zip3 f a' b' c'
  | _, _, _ => []
  end.

(* arg axis i corresponds to output axis i + (N - k) *)
Definition elem_arg_index (full : list pidx) (sa o : list Z) : list pidx :=
  zip3 elem_axis_index (lastn (length sa) full) sa (lastn (length sa) o).

Definition is_const (e : expr) : bool := match e with EConst _ => true | _ => false end.

Definition rule_slice_elemwise (e : expr) : option expr :=
  match e with
  | ESlice (EElemwise op args) ix _ =>
      let o := bshape_all (map eshape args) in
      let full := pad_index ix (length o) in
      (* out= is an array (op < 0): "an integer index would turn out='s blocks into NumPy scalars" *)
      if (op <? 0) && existsb is_int full then None else
      match omap (fun a => if is_const a then Some a
                           else mk_getitem a (elem_arg_index full (eshape a) o)) args with
      | Some args' => Some (EElemwise op args')
      | None => None
      end
  | _ => None
  end.

(* ---------------------------------------------------------------------- *)
(* R4   Transpose._accept_slice   [manipulation/_transpose.py] *)

(* number of elements of l smaller than d: for distinct elements this is
   sorted(l).index(d), i.e. the dim_map of the Python code *)
Definition count_lt (d : nat) (l : list nat) : nat := length (filter (fun x => Nat.ltb x d) l).

Fixpoint remaining_dims (axes : list nat) (full : list pidx) : list nat :=
  match axes, full with
  | a :: axes', i :: full' => if is_int i then remaining_dims axes' full' else a :: remaining_dims axes' full'
  | _, _ => []
  end.

Definition rule_slice_transpose (e : expr) : option expr :=
  match e with
  | ESlice (ETranspose x axes) ix _ =>
      if existsb (fun i => match i with INone => true | _ => false end) ix then None else
      let full := pad_index ix (length axes) in
      (* input_index[axes[k]] = full_index[k] *)
      let input_index := pickn (ISlice colon) full (inv_axes axes) in
      match mk_getitem x input_index with
      | None => None
      | Some sliced =>
          if negb (existsb is_int full) then Some (ETranspose sliced axes)
          else
            let remaining := remaining_dims axes full in
            if Nat.leb (length remaining) 1 then Some sliced
            else
              let new_axes := map (fun d => count_lt d remaining) remaining in
              if natlist_eqb new_axes (seq 0 (length new_axes)) then Some sliced
              else Some (ETranspose sliced new_axes)
      end
  | _ => None
  end.

(* ---------------------------------------------------------------------- *)
(* R5   Transpose._simplify_down *)
Definition rule_transpose_transpose (e : expr) : option expr :=
  match e with
  | ETranspose (ETranspose x p) q => Some (ETranspose x (pickn O p q))   (* tuple(inner.axes[i] for i in self.axes) *)
  | _ => None
  end.

Definition rule_transpose_identity (e : expr) : option expr :=
  match e with
  | ETranspose x axes => if natlist_eqb axes (seq 0 (endim x)) then Some x else None
  | _ => None
  end.

(* Transpose(Elemwise(args)) -> Elemwise(Transpose(arg) ...) when every array
   operand has the output's number of axes *)
Definition rule_transpose_elemwise (e : expr) : option expr :=
  match e with
  | ETranspose (EElemwise op args) axes =>
      if forallb (fun a => is_const a || Nat.eqb (endim a) (length axes)) args
      then Some (EElemwise op (map (fun a => if is_const a then a else ETranspose a axes) args))
      else None
  | _ => None
  end.

Definition is_transpose (e : expr) : bool := match e with ETranspose _ _ => true | _ => false end.
Definition is_elemwise (e : expr) : bool := match e with EElemwise _ _ => true | _ => false end.

Definition rule_transpose_down (e : expr) : option expr :=
  match e with
  | ETranspose x _ =>
      if is_transpose x then rule_transpose_transpose e
      else match rule_transpose_identity e with
           | Some r => Some r
           | None => if is_elemwise x then rule_transpose_elemwise e else None
           end
  | _ => None
  end.

(* ---------------------------------------------------------------------- *)
(* R6   Rechunk._simplify_down (no-op) and Rechunk._pushdown (Rechunk(Rechunk)) *)
Definition rule_rechunk_noop (e : expr) : option expr :=
  match e with
  | ERechunk x _ c _ balance _ =>
      match echunks x with
      | Some cx => if negb balance && zll_eqb c cx then Some x else None
      | None => None
      end
  | _ => None
  end.

Definition rule_rechunk_rechunk (e : expr) : option expr :=
  match e with
  | ERechunk (ERechunk x _ _ _ bal1 p2p1) spec c prm bal2 p2p2 =>
      if p2p1 then None
      else if bal1 && negb bal2 then None   (* the fused node re-balances c: its chunks are not c (finding C02-A); not modelled *)
      else Some (ERechunk x spec c prm (bal2 || bal1) p2p2)
  | _ => None
  end.

(* ---------------------------------------------------------------------- *)
(* R7   ExpandDims._accept_slice   [manipulation/_expand.py] *)
Fixpoint expand_input_index (pos : nat) (axes : list nat) (full : list pidx) : option (list pidx) :=
  match full with
  | [] => Some []
  | i :: full' =>
      if memn pos axes then
        match i with
        | IInt z => if (z =? 0) || (z =? -1) then expand_input_index (S pos) axes full' else None
        | ISlice s =>
            if pslice_eqb s colon then expand_input_index (S pos) axes full'
            else let '(start, stop, _) := indices s 1 in
                 if stop <=? start then None else expand_input_index (S pos) axes full'
        | INone => None
        end
      else option_map (cons i) (expand_input_index (S pos) axes full')
  end.

Fixpoint expand_new_axes (pos removed : nat) (axes : list nat) (full : list pidx) : list nat :=
  match full with
  | [] => []
  | i :: full' =>
      if is_int i then expand_new_axes (S pos) (S removed) axes full'
      else if memn pos axes then (pos - removed)%nat :: expand_new_axes (S pos) removed axes full'
      else expand_new_axes (S pos) removed axes full'
  end.

Definition rule_slice_expand_dims (e : expr) : option expr :=
  match e with
  | ESlice (EExpandDims x axes) ix _ =>
      let full := pad_index ix (endim x + length axes) in
      match expand_input_index 0 axes full with
      | None => None
      | Some input_index =>
          match (if forallb is_colon input_index then Some x else mk_getitem x input_index) with
          | None => None
          | Some sliced =>
              match expand_new_axes 0 0 axes full with
              | [] => Some sliced
              | new_axes => Some (EExpandDims sliced new_axes)
              end
          end
      end
  | _ => None
  end.

(* ---------------------------------------------------------------------- *)
(* R8   Arange._accept_slice   [creation/_arange.py] (integer start/step) *)
Definition rule_slice_arange (e : expr) : option expr :=
  match e with
  | ESlice (EArange start step count chunks) [ISlice s] _ =>
      let '(a, b, k) := indices s count in
      let n := range_len a b k in
      (* "chunks": slice_expr.chunks = new_blockdim(num_rows, old chunks, index) *)
      Some (EArange (start + a * step) (step * k) n (new_blockdim count chunks s))
  | _ => None
  end.

(* ---------------------------------------------------------------------- *)
(* R9   FromArray._accept_slice   [io/_from_array.py]: the slice becomes the (composed)
   region of the read; small NumPy sources are sliced eagerly; integers are read as
   size-1 regions and extracted by a trailing [0].
   [limit] = _NUMPY_SLICE_PUSHDOWN_NBYTES_LIMIT. *)
Definition int_to_slice (i : pidx) : option pslice :=
  match i with
  | IInt z => Some (mkslice (Some z) (Some (z + 1)) None)     (* slice(idx, idx + 1) *)
  | ISlice s => Some s
  | INone => None
  end.

Fixpoint zip2 {A B C} (f : A -> B -> C) (a : list A) (b : list B) : list C :=
  match a, b with
  | x :: a', y :: b' => f x y :: zip2 f a' b'
  | _, _ => []
  end.

Fixpoint zprod (l : list Z) : Z := match l with [] => 1 | x :: t => x * zprod t end.

Definition rule_slice_fromarray (limit : Z) (e : expr) : option expr :=
  match e with
  | ESlice (ESource s chunks region nd isz other) ix _ =>
      if existsb (fun i => match i with INone => true | _ => false end) ix then None else
      if existsb (fun i => match i with ISlice t => negb (unit_step t) | _ => false end) ix then None else
      let srcshape := src_shape s in
      let full := pad_index ix (length srcshape) in
      match omap int_to_slice full with
      | None => None
      | Some region_index =>
          let new_region :=
            match region with
            | Some old => zip3 compose_slices old region_index srcshape
            | None => region_index
            end in
          let eff := eshape (ESource s chunks region nd isz other) in
          let new_chunks := zip3 compute_sliced_chunks chunks region_index eff in
          let region_shape := zip2 slice_len new_region srcshape in
          let '(s', region') :=
            if nd then
              if list_eqb Z.eqb region_shape srcshape then (s, None)
              else if zprod region_shape * isz <=? limit then (SSliced s new_region, None)
              else (s, Some new_region)
            else (s, Some new_region) in
          let new_io := ESource s' new_chunks region' nd isz other in
          if existsb is_int full
          then Some (ESlice new_io (map (fun i => if is_int i then IInt 0 else ISlice colon) full) false)
          else Some new_io
      end
  | _ => None
  end.

(* Rechunk._pushdown_into_io -> FromArray._accept_rechunk for an unchunked (NumPy) source:
   the read is re-cut at the target chunks *)
Definition rule_rechunk_fromarray (e : expr) : option expr :=
  match e with
  | ERechunk (ESource s _ region nd isz other) _ c _ _ p2p =>
      if p2p || negb nd then None else Some (ESource s c region nd isz other)
  | _ => None
  end.

(* Rechunk._pushdown_through_elemwise: Rechunk(Elemwise(op, args), c) -> Elemwise(op, arg.rechunk(c_arg) ...):
   an operand is rechunked to the target chunks of the axes it is aligned with ((1,) on its size-1 axes);
   ArrayExpr.rechunk returns the operand itself when it already has those chunks.
   spec = 0 : the raw _chunks operand is the resolved tuple c;  prm = 0 : (threshold, block_size_limit, method)
   are all None (what ArrayExpr.rechunk passes). *)
Definition mk_rechunk (a : expr) (ch : list (list Z)) : option expr :=
  match echunks a with
  | Some c => if zll_eqb ch c then Some a else Some (ERechunk a 0 ch 0 false false)
  | None => None
  end.

Definition arg_chunks (sa : list Z) (target : list (list Z)) : list (list Z) :=
  zip2 (fun n c => if n =? 1 then [1] else c) sa (lastn (length sa) target).

Definition rule_rechunk_elemwise (e : expr) : option expr :=
  match e with
  | ERechunk (EElemwise op args) spec c _ _ _ =>
      if negb (spec =? 0) then None else
      match omap (fun a => if is_const a then Some a else mk_rechunk a (arg_chunks (eshape a) c)) args with
      | Some args' => Some (EElemwise op args')
      | None => None
      end
  | _ => None
  end.

(* ---------------------------------------------------------------------- *)
(* R10  Concatenate._accept_slice   [stacking/_concatenate.py]
   Slice(Concatenate(arrays, axis), ix) with slices only and a unit-step slice on the
   concatenation axis: every piece the slice overlaps is sliced (public __getitem__) with the
   slice's local range on [axis] and the unchanged slices elsewhere; pieces it misses are dropped;
   one remaining piece is returned as is, several are concatenated again. *)
Definition is_none (i : pidx) : bool := match i with INone => true | _ => false end.

Fixpoint set_idx (k : nat) (v : pidx) (l : list pidx) : list pidx :=
  match l, k with
  | [], _ => []
  | _ :: t, O => v :: t
  | x :: t, S k' => x :: set_idx k' v t
  end.

Definition range_slice (a b : Z) : pidx := ISlice (mkslice (Some a) (Some b) None).   (* slice(a, b) *)

Fixpoint concat_pieces (axis : nat) (full : list pidx) (start stop cum : Z) (arrays : list expr)
  : option (list expr) :=
  match arrays with
  | [] => Some []
  | arr :: t =>
      let arr_size := nth axis (eshape arr) 0 in
      let arr_start := cum in
      let arr_end := cum + arr_size in
      let overlap_start := Z.max start arr_start in
      let overlap_end := Z.min stop arr_end in
      if overlap_end >? overlap_start then
        match mk_getitem arr (set_idx axis (range_slice (overlap_start - arr_start) (overlap_end - arr_start)) full),
              concat_pieces axis full start stop arr_end t with
        | Some y, Some r => Some (y :: r)
        | _, _ => None
        end
      else concat_pieces axis full start stop arr_end t
  end.

Definition rule_slice_concat (e : expr) : option expr :=
  match e with
  | ESlice (EConcat a axis rest) ix _ =>
      let full := pad_index ix (endim (EConcat a axis rest)) in
      if existsb is_int full then None else
      if existsb is_none full then None else
      match nth axis full INone with
      | ISlice s =>
          let total := zsum (map (fun x => nth axis (eshape x) 0) (a :: rest)) in
          let '(start, stop, step) := indices s total in
          if negb (step =? 1) then None else
          match concat_pieces axis full start stop 0 (a :: rest) with
          | Some [] => None                       (* "Empty result - shouldn't happen with valid slice" *)
          | Some [x] => Some x
          | Some (x :: xs) => Some (EConcat x axis xs)
          | None => None
          end
      | _ => None
      end
  | _ => None
  end.

(* ---------------------------------------------------------------------- *)
(* R11  Stack._accept_slice   [stacking/_stack.py]
   Slice(Stack(arrays, axis), ix), slices only, unit step on the stacked axis: the arrays
   [start:stop] are kept, each sliced with the other axes' slices (when one is not slice(None)). *)
Definition rule_slice_stack (e : expr) : option expr :=
  match e with
  | ESlice (EStack a axis rest) ix _ =>
      let full := pad_index ix (endim (EStack a axis rest)) in
      if existsb is_int full then None else
      if existsb is_none full then None else
      match nth axis full INone with
      | ISlice s =>
          let n_arrays := Z.of_nat (S (length rest)) in
          let '(start, stop, step) := indices s n_arrays in
          if negb (step =? 1) then None else
          let selected := skipn (Z.to_nat start) (firstn (Z.to_nat stop) (a :: rest)) in   (* arrays[start:stop] *)
          let other := remove_at axis full in
          let needs := negb (forallb is_colon other) in
          match omap (fun arr => if needs then mk_getitem arr other else Some arr) selected with
          | Some (x :: xs) => Some (EStack x axis xs)
          | _ => None
          end
      | _ => None
      end
  | _ => None
  end.

(* ---------------------------------------------------------------------- *)
(* R12  BroadcastTrick._accept_slice   [creation/_ones_zeros.py]: a slice of ones / zeros / full
   is the same constant with the slice node's shape and chunks *)
Definition rule_slice_full (e : expr) : option expr :=
  match e with
  | ESlice (EFull id shp chunks) ix _ =>
      Some (EFull id (slice_shape ix shp) (slice_chunks_nd ix chunks shp))
  | _ => None
  end.

(* ---------------------------------------------------------------------- *)
(* R15  BroadcastTo._accept_slice   [_broadcast_to.py]: Slice(BroadcastTo(x, shape), ix), unit-step slices only ->
   BroadcastTo(x[the slices of x's real axes; slice(None) on its size-1 axes], sliced shape).
   New chunks: x's sliced chunks on its real axes, BroadcastTo._slice_chunks of the old ones elsewhere. *)
Definition bt_slice_chunks (chunks : list Z) (start length : Z) : list Z :=      (* BroadcastTo._slice_chunks *)
  if length =? 0 then [0] else slice_chunks_loop 0 chunks start length.

Definition bt_axis (i : pidx) (n : Z) : pidx := if n =? 1 then ISlice colon else i.

(* (start, stop) of a unit-step slice of an axis of length n *)
Definition unit_range (i : pidx) (n : Z) : option (Z * Z) :=
  match i with
  | ISlice s => let '(a, b, k) := indices s n in if k =? 1 then Some (a, b) else None
  | _ => None
  end.

Definition rule_slice_broadcast_to (e : expr) : option expr :=
  match e with
  | ESlice (EBroadcastTo x oshape ochunks) ix _ =>
      let full := pad_index ix (length oshape) in
      if existsb is_int full then None else
      if existsb is_none full then None else
      let ndim_new := (length oshape - endim x)%nat in
      match omap (fun p => unit_range (fst p) (snd p)) (combine full oshape) with
      | None => None
      | Some ranges =>
          let new_shape := map (fun r => Z.max 0 (snd r - fst r)) ranges in
          let input_slices := zip2 bt_axis (skipn ndim_new full) (eshape x) in
          match (match input_slices with [] => Some x | _ => mk_getitem x input_slices end) with
          | None => None
          | Some sliced =>
              match echunks sliced with
              | None => None
              | Some sc =>
                  let own := zip2 (fun c r => bt_slice_chunks c (fst r) (snd r - fst r)) ochunks ranges in
                  let new_chunks :=
                    firstn ndim_new own ++
                    zip3 (fun n o c => if n =? 1 then o else c) (eshape x) (skipn ndim_new own) sc in
                  Some (EBroadcastTo sliced new_shape new_chunks)
              end
          end
      end
  | _ => None
  end.

(* ---------------------------------------------------------------------- *)
(* R13  Elemwise._lower   [_blockwise.py] -> unify_chunks_expr [_expr.py]: every array operand whose
   chunks differ from the unified layout is rechunked to it (ArrayExpr.rechunk); the node is rebuilt only
   when some operand changed.  The unified layout per OUTPUT axis, chunkss (chosen by the policy
   / byte-cost heuristics of unify_chunks_expr), is the ORACLE argument [target]; an operand takes
   chunkss[j] on the axes where its size is > 1 or 0, and (size,) on its size-1 axes. *)
Definition unify_arg_chunks (sa : list Z) (target : list (list Z)) : list (list Z) :=
  zip2 (fun n c => if (n >? 1) || (n =? 0) then c else [n]) sa (lastn (length sa) target).

Definition lower_arg (target : list (list Z)) (a : expr) : option (expr * bool) :=
  if is_const a then Some (a, false) else
  match echunks a with
  | None => None
  | Some ca =>
      let ch := unify_arg_chunks (eshape a) target in
      if negb (zll_eqb ch ca) && forallb (fun d => negb (Nat.eqb (length d) 0)) ca   (* chunks != a.chunks and all(a.chunks) *)
      then Some (ERechunk a 0 ch 0 false false, true)
      else Some (a, false)
  end.

Definition rule_elemwise_lower (target : list (list Z)) (e : expr) : option expr :=
  match e with
  | EElemwise op args =>
      match omap (lower_arg target) args with
      | Some r => if existsb snd r then Some (EElemwise op (map fst r)) else None
      | None => None
      end
  | _ => None
  end.

(* ---------------------------------------------------------------------- *)
(* R16  Rechunk._pushdown_through_expand_dims: Rechunk(ExpandDims(y, axes), c) -> ExpandDims(Rechunk(y, c without the
   expanded axes, balance off), axes)   and
   Rechunk._pushdown_through_transpose: Rechunk(Transpose(x, axes), c) -> Transpose(x.rechunk(c permuted back), axes)
   (for a raw _chunks operand that is the resolved tuple: spec = 0). *)
Fixpoint drop_axes_ll (pos : nat) (axes : list nat) (c : list (list Z)) : list (list Z) :=
  match c with
  | [] => []
  | d :: t => if memn pos axes then drop_axes_ll (S pos) axes t else d :: drop_axes_ll (S pos) axes t
  end.

Definition rule_rechunk_expand_dims (e : expr) : option expr :=
  match e with
  | ERechunk (EExpandDims y axes) _ c prm _ p2p =>
      Some (EExpandDims (ERechunk y 0 (drop_axes_ll 0 axes c) prm false p2p) axes)
  | _ => None
  end.

Definition rule_rechunk_transpose (e : expr) : option expr :=
  match e with
  | ERechunk (ETranspose x axes) spec c _ _ _ =>
      if negb (spec =? 0) then None else
      match mk_rechunk x (pickn [] c (inv_axes axes)) with       (* new_chunks[axes[i]] = chunks[i] *)
      | Some x' => Some (ETranspose x' axes)
      | None => None
      end
  | _ => None
  end.

(* ---------------------------------------------------------------------- *)
(* R14  Rechunk._lower   [_rechunk.py]: no-op removal, pushdown into an (unchunked, NumPy) read,
   composition with a contiguous slice (_pushdown_through_slice), else TasksRechunk.
   Not modelled (the function returns None): a rechunk with explicit threshold / block_size_limit /
   method, a child with unknown chunks, a read from a store with native chunks, and the P2PRechunk result.  The choice of
   _choose_rechunk_method (configuration, presence of a distributed client) is the ORACLE
   argument [choose_p2p]. *)
Fixpoint pos_diffs (prev : Z) (l : list Z) : list Z :=      (* [b - a for a, b in zip(cuts, cuts[1:]) if b > a] *)
  match l with
  | [] => []
  | b :: t => if b >? prev then (b - prev) :: pos_diffs b t else pos_diffs b t
  end.

Definition expand_axis (old tgt : list Z) (size start stop : Z) : list Z :=
  let bounds := cumsum old in
  let pre := pos_diffs 0 (filter (fun b => (0 <? b) && (b <? start)) bounds ++ [start]) in
  let post := pos_diffs stop (filter (fun b => (stop <? b) && (b <? size)) bounds ++ [size]) in
  pre ++ tgt ++ post.

Definition on_grid (old : list Z) (v : Z) : bool := (v =? 0) || existsb (Z.eqb v) (cumsum old).

(* (expanded, aligned) *)
Fixpoint expand_chunks (index : list pidx) (old : list (list Z)) (shp : list Z) (target : list (list Z))
  : option (list (list Z) * bool) :=
  match index, old, shp with
  | IInt _ :: ix', o :: old', _ :: shp' =>
      match expand_chunks ix' old' shp' target with
      | Some (r, al) => Some (o :: r, al)
      | None => None
      end
  | ISlice s :: ix', o :: old', size :: shp' =>
      match target with
      | [] => None
      | tgt :: target' =>
          let '(start, stop, step) := indices s size in
          if negb (step =? 1) || (stop <=? start) then None else
          match expand_chunks ix' old' shp' target' with
          | Some (r, al) => Some (expand_axis o tgt size start stop :: r, on_grid o start && on_grid o stop && al)
          | None => None
          end
      end
  | INone :: _, _ :: _, _ :: _ => None
  | _, _, _ => Some ([], true)
  end.

Definition lens_prod (c : list (list Z)) : Z := zprod (map (fun d => Z.of_nat (length d)) c).

Definition rechunk_through_slice (choose_p2p : bool) (slc : expr) (target : list (list Z)) : option expr :=
  match slc with
  | ESlice x ix0 _ =>
      let index := pad_index ix0 (endim x) in
      if negb (Nat.eqb (length index) (endim x)) then None else
      match echunks x with
      | None => None
      | Some xc =>
          match expand_chunks index xc (eshape x) target with
          | None => None
          | Some (expanded, aligned) =>
              if aligned then None else
              if existsb (fun d => existsb (Z.eqb 0) d) target then None else
              let kept := lens_prod target in
              if lens_prod expanded - kept >? 4 * kept then None else
              if choose_p2p then None else
              Some (ESlice (ETasksRechunk x expanded 0) index true)
          end
      end
  | _ => None
  end.

(* Rechunk._pushdown_through_concatenate: off-axis changes rechunk each part directly; a change on the concatenation
   axis redistributes the target over the parts (each target chunk is split at the part boundaries it crosses), which
   is only done when some part is a read that absorbs its rechunk; a residual Rechunk stays above when target chunks
   straddle part seams. *)
Fixpoint split_part (room : Z) (tgt : list Z) : list Z * list Z :=     (* (this part's chunks, what is left of the target) *)
  match tgt with
  | [] => ([], [])
  | c :: t =>
      if room =? 0 then ([], tgt)
      else if c <=? room then let '(p, r) := split_part (room - c) t in (c :: p, r)
      else ([room], (c - room) :: t)
  end.

Fixpoint split_parts (sizes : list Z) (tgt : list Z) : option (list (list Z)) :=
  match sizes with
  | [] => match tgt with [] => Some [] | _ => None end        (* "part extents disagree with the target" *)
  | s :: t => let '(p, r) := split_part s tgt in option_map (cons p) (split_parts t r)
  end.

Definition is_nd_source (e : expr) : bool := match e with ESource _ _ _ nd _ _ => nd | _ => false end.

Definition rechunk_through_concat (e : expr) : option expr :=
  match e with
  | ERechunk (EConcat a axis rest) _ target prm _ p2p =>
      if p2p then None else
      let arrays := a :: rest in
      match omap echunks arrays with
      | None => None
      | Some cs =>
          let part_dims := map (fun c => nth axis c []) cs in
          let taxis := nth axis target [] in
          let redistributed := negb (list_eqb Z.eqb taxis (concat part_dims)) in
          match (if redistributed
                 then if existsb (Z.eqb 0) taxis || existsb (existsb (Z.eqb 0)) part_dims then None
                      else split_parts (map zsum part_dims) taxis
                 else Some part_dims) with
          | None => None
          | Some per_part =>
              let specs := map (fun p => set_at axis p target) per_part in
              if list_eqb zll_eqb specs cs then None else
              if redistributed &&
                 negb (existsb (fun p => is_nd_source (fst p) && negb (zll_eqb (snd p) (match echunks (fst p) with Some c => c | None => [] end)))
                               (combine arrays specs))
              then None else
              match omap (fun p => mk_rechunk (fst p) (snd p)) (combine arrays specs) with
              | Some (x :: xs) =>
                  if list_eqb Z.eqb (concat per_part) taxis then Some (EConcat x axis xs)
                  else Some (ERechunk (EConcat x axis xs) 0 target prm false p2p)
              | _ => None
              end
          end
      end
  | _ => None
  end.

Definition is_source (e : expr) : bool := match e with ESource _ _ _ _ _ _ => true | _ => false end.
Definition is_concat (e : expr) : bool := match e with EConcat _ _ _ => true | _ => false end.
Definition is_slice (e : expr) : bool := match e with ESlice _ _ _ => true | _ => false end.

Definition rule_rechunk_lower (choose_p2p : bool) (e : expr) : option expr :=
  match e with
  | ERechunk x spec c prm balance p2p =>
      if negb (prm =? 0) || p2p then None else
      match echunks x with
      | None => None
      | Some cx =>
          if negb balance && zll_eqb c cx then Some x else
          if is_source x then rule_rechunk_fromarray e              (* _pushdown_into_io *)
          else
            match (if is_concat x then rechunk_through_concat e                    (* _pushdown_through_concatenate *)
                   else if is_slice x then rechunk_through_slice choose_p2p x c else None) with
            | Some r => Some r
            | None => if choose_p2p then None else Some (ETasksRechunk x c 0)
            end
      end
  | _ => None
  end.

(* ---------------------------------------------------------------------- *)
(* specification-side checkers: hypotheses of the soundness theorems that the construction of
   slice nodes through the public API (normalize_index) guarantees *)

(* the integers of an index are non-negative (posify_index) *)
Fixpoint ints_nonnegb (ix : list pidx) : bool :=
  match ix with
  | [] => true
  | IInt z :: t => (0 <=? z) && ints_nonnegb t
  | _ :: t => ints_nonnegb t
  end.

(* a negative-step slice that sits on an expanded (size-1) axis does not start below the axis
   (slice.indices(1) does not clip its start to the -1 sentinel): true of every slice that
   normalize_slice produces (start None, or 0 <= start) *)
Definition start_ok1 (s : pslice) : bool :=
  (0 <? step_of s) || (let '(a, _, _) := indices s 1 in 0 <=? a).

Fixpoint xnormb (axes : list nat) (pos : nat) (ix : list pidx) : bool :=
  match ix with
  | [] => true
  | i :: ix' =>
      (if memn pos axes then match i with ISlice s => start_ok1 s | _ => true end else true)
      && xnormb axes (S pos) ix'
  end.

Definition extract_index (full : list pidx) : list pidx :=
  map (fun i => if is_int i then IInt 0 else ISlice colon) full.

(* the extra hypothesis of each rule's theorem, as a function of the rule instance *)
Definition rule_hyps_slice_expand_dims (e : expr) : bool :=
  match e with ESlice (EExpandDims _ axes) ix _ => xnormb axes 0 ix | _ => true end.
Definition rule_hyps_slice_fromarray (e : expr) : bool :=
  match e with ESlice _ ix _ => ints_nonnegb ix | _ => true end.

(* ---------------------------------------------------------------------- *)
(* A termination measure for the modelled rules (C08): a linear interpretation,
   strictly monotone in every child, that every rule strictly decreases:
   [Slice](x) = 3x, [Rechunk](x) = 2x + 1, [Transpose](x) = [TasksRechunk](x) = [ExpandDims](x) = [BroadcastTo](x) = x + 1,
   [Elemwise](x1..xn) = sum xi + n + 1, [Concatenate](xs) = [Stack](xs) = sum xs + 1, leaves 1.
   (Slices and rechunks both sink towards the leaves; a rechunk weighs less the deeper it sits.) *)
Fixpoint mu (e : expr) : nat :=
  match e with
  | ELeaf _ _ _ => 1
  | EConst _ => 1
  | EArange _ _ _ _ => 1
  | ESource _ _ _ _ _ _ => 1
  | ESlice e' _ _ => 3 * mu e'
  | ETranspose e' _ => S (mu e')
  | ERechunk e' _ _ _ _ _ => S (2 * mu e')
  | EExpandDims e' _ => S (mu e')
  | EBroadcastTo e' _ _ => S (mu e')
  | ETasksRechunk e' _ _ => S (mu e')
  | EFull _ _ _ => 1
  | EStack e' _ rest => S (mu e' + (fix go (l : list expr) : nat := match l with [] => O | x :: t => (mu x + go t)%nat end) rest)
  | EElemwise _ args => S ((fix go (l : list expr) : nat := match l with [] => O | x :: t => S (mu x + go t)%nat end) args)
  | EConcat e' _ rest => S (mu e' + (fix go (l : list expr) : nat := match l with [] => O | x :: t => (mu x + go t)%nat end) rest)
  end.

Fixpoint mu_sum (l : list expr) : nat := match l with [] => O | x :: t => (mu x + mu_sum t)%nat end.
