(* L1 — model of normalize_chunks / auto_chunks (without previous_chunks) /
   blockdims_from_blockshape / round_to in dask_array/_core_utils.py.
   Definitions only. *)
From DA Require Export PyBase.
Open Scope Z_scope.

(* per-axis chunk specification after the top-level dispatch of normalize_chunks *)
Inductive aspec :=
| AInt (c : Z)            (* a uniform size; -1 means the whole axis *)
| ATuple (cs : list Z)    (* explicit sizes *)
| AFull                   (* None *)
| AAuto.                  (* "auto" or a byte-size string (which sets the limit) *)

Inductive nerr := EZeroDiv | EValue.
Inductive res (A : Type) := Ok (a : A) | Err (e : nerr).
Arguments Ok {A}. Arguments Err {A}.

(* blockdims_from_blockshape((d,), (bd,)) for one axis *)
Definition blockdims_axis (d bd : Z) : res (list Z) :=
  if d =? 0 then Ok [0]
  else if bd =? 0 then Err EZeroDiv
  else Ok (repeat bd (Z.to_nat (d / bd)) ++ (if d mod bd =? 0 then [] else [d mod bd])).

(* round_to(c, s) for the only case auto_chunks (no previous_chunks) reaches:
   c <= s, c = num/den  -> max(1, int(c)) *)
Definition round_to_le (num den : Z) : Z := Z.max 1 (num / den).

(* `-1 in chunks or None in chunks` substitution *)
Definition subst_full (sp : aspec) (n : Z) : aspec :=
  match sp with
  | AFull => AInt n
  | AInt c => if c =? -1 then AInt n else sp
  | _ => sp
  end.

Definition fixed_extent (sp : aspec) : Z :=      (* factor in largest_block *)
  match sp with
  | AInt c => c
  | ATuple cs => fold_right Z.max (hd 0 cs) cs     (* max(cs); Python raises on () *)
  | _ => 1
  end.

Definition is_auto (sp : aspec) : bool := match sp with AAuto => true | _ => false end.

Definition count_autos (specs : list aspec) : Z := Z.of_nat (length (filter is_auto specs)).

Definition largest_fixed (specs : list aspec) : Z :=
  fold_right Z.mul 1 (map fixed_extent (filter (fun s => negb (is_auto s)) specs)).

(* auto_chunks(chunks, shape, limit, dtype) without previous_chunks.
   sizes = oracle stream: the float `size` of each recursion level as num/den. *)
Fixpoint auto_chunks (fuel : nat) (sizes : list (Z * Z)) (specs : list aspec) (shape : list Z) : res (list aspec) :=
  if count_autos specs =? 0 then Ok specs else
  match fuel, sizes with
  | S f, (num, den) :: sizes' =>
      let small := map (fun p => is_auto (fst p) && (snd p * den <? num)) (combine specs shape) in
      if existsb (fun b => b) small then
        auto_chunks f sizes'
          (map (fun p => let '(sp, n, sm) := p in if (sm : bool) then ATuple [n] else sp)
               (combine (combine specs shape) small))
          shape
      else
        Ok (map (fun sp => if is_auto sp then AInt (round_to_le num den) else sp) specs)
  | _, _ => Err EValue
  end.

(* the tail of normalize_chunks after autos are resolved *)
Definition is_int_spec (sp : aspec) : bool := match sp with AInt _ => true | _ => false end.

Definition convert_axis (sp : aspec) (n : Z) : res (list Z) :=
  match sp with
  | AInt c => blockdims_axis n c
  | ATuple cs => Ok cs
  | _ => Err EValue
  end.

Fixpoint convert_all (specs : list aspec) (shape : list Z) : res (list (list Z)) :=
  match specs, shape with
  | [], [] => Ok []
  | sp :: specs', n :: shape' =>
      match convert_axis sp n, convert_all specs' shape' with
      | Ok c, Ok r => Ok (c :: r)
      | Err e, _ => Err e
      | _, Err e => Err e
      end
  | _, _ => Err EValue                         (* lengths differ *)
  end.

Definition is_nil {A} (l : list A) : bool := match l with [] => true | _ => false end.

Definition normalize_chunks (sizes : list (Z * Z)) (specs : list aspec) (shape : list Z) : res (list (list Z)) :=
  if negb (Nat.eqb (length specs) (length shape)) then Err EValue else
  let specs := map (fun p => subst_full (fst p) (snd p)) (combine specs shape) in
  match auto_chunks (S (length specs)) sizes specs shape with
  | Err e => Err e
  | Ok specs =>
      let allints := forallb is_int_spec specs in
      match convert_all specs shape with
      | Err e => Err e
      | Ok chunks =>
          if existsb is_nil chunks then Err EValue
          else if existsb (fun c => existsb (fun x => x <? 0) c) chunks then Err EValue
          else if negb allints && negb (forallb (fun p => zsum (fst p) =? snd p) (combine chunks shape)) then Err EValue
          else Ok chunks
      end
  end.

(* ------------------------------------------------------------------ *)
(* specification side *)
Definition axis_layout_ok (cs : list Z) (n : Z) : bool :=
  negb (is_nil cs) && all_nonneg cs && (zsum cs =? n).

Definition layout_ok (chunks : list (list Z)) (shape : list Z) : bool :=
  Nat.eqb (length chunks) (length shape) &&
  forallb (fun p => axis_layout_ok (fst p) (snd p)) (combine chunks shape).

Definition max_block (chunks : list (list Z)) : Z :=
  fold_right Z.mul 1 (map (fun cs => fold_right Z.max 0 cs) chunks).
