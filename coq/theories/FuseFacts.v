(* Proofs about fuse_slice / _compose_slices (models in Slicing.v):
   composing two selections on one axis versus the fused slice. *)
From DA Require Import PyBase PyBaseFacts Slicing NormalizeFacts.
From Coq Require Import ZifyBool.
Open Scope Z_scope.
Ltac Zify.zify_post_hook ::= Z.to_euclidean_division_equations.

(* ---------------------------------------------------------------------- *)
(* Applying a second selection [js] to the list of positions [l] selected by
   a first one. *)
Definition pick (l js : list Z) : list Z := map (fun j => nth (Z.to_nat j) l 0) js.

Lemma list_eq_nth (l l' : list Z) :
  length l = length l' -> (forall i, (i < length l)%nat -> nth i l 0 = nth i l' 0) -> l = l'.
Proof. intros Hl Hn. apply (nth_ext l l' 0 0); assumption. Qed.

Lemma pick_length l js : length (pick l js) = length js.
Proof. unfold pick. apply map_length. Qed.

Lemma pick_nth l js i :
  (i < length js)%nat -> nth i (pick l js) 0 = nth (Z.to_nat (nth i js 0)) l 0.
Proof.
  intros H. unfold pick.
  set (f := fun j : Z => nth (Z.to_nat j) l 0).
  rewrite (nth_indep _ 0 (f 0)) by (rewrite map_length; exact H).
  rewrite (map_nth f). reflexivity.
Qed.

Lemma pick_zrange A B k C D j A' S K :
  range_len A' S K = range_len C D j ->
  (forall i, 0 <= i < range_len C D j -> 0 <= C + i * j < range_len A B k) ->
  (0 < range_len C D j -> A' = A + C * k) -> K = k * j ->
  pick (zrange A B k) (zrange C D j) = zrange A' S K.
Proof.
  intros Hlen Hin Hstart HK.
  apply list_eq_nth.
  - rewrite pick_length. apply Nat2Z.inj. rewrite !zrange_length. lia.
  - intros i Hi. rewrite pick_length in Hi.
    assert (Z.of_nat i < range_len C D j) as Hi' by (rewrite <- zrange_length; lia).
    rewrite pick_nth by exact Hi.
    rewrite (zrange_nth C D j i 0 Hi').
    specialize (Hin (Z.of_nat i) ltac:(lia)).
    rewrite zrange_nth by (rewrite Z2Nat.id; lia).
    rewrite zrange_nth by lia.
    rewrite Z2Nat.id by lia. rewrite Hstart by lia. subst K. ring.
Qed.

Definition clip_stop (st : option Z) (n : Z) : Z :=
  match st with None => n | Some x => Z.min x n end.

Definition start_or0 (s : pslice) : Z := match s_start s with None => 0 | Some x => x end.

Lemma indices_nonneg s n :
  0 <= n -> 0 < step_of s ->
  (forall x, s_start s = Some x -> 0 <= x) -> (forall x, s_stop s = Some x -> 0 <= x) ->
  indices s n = (Z.min (start_or0 s) n, clip_stop (s_stop s) n, step_of s).
Proof.
  intros Hn Hk Hs He. unfold indices, adjust_endpoint, start_or0, clip_stop.
  destruct s as [[x|] [y|] st]; cbn [s_start s_stop] in *;
    try (specialize (Hs x eq_refl)); try (specialize (He y eq_refl));
    repeat break_if; repeat f_equal; lia.
Qed.

(* range_len facts packaged for positive steps *)
Lemma range_len_pos_cases a b k :
  0 < k ->
  (b <= a /\ range_len a b k = 0) \/
  (a < b /\ 0 < range_len a b k /\ a + (range_len a b k - 1) * k < b <= a + range_len a b k * k).
Proof.
  intros Hk. destruct (Z_lt_le_dec a b) as [H|H].
  - right. pose proof (range_len_pos_last a b k Hk H). pose proof (range_len_pos_next a b k Hk H).
    pose proof (range_len_nonneg a b k). split; [lia|]. split; [nia|lia].
  - left. split; [lia|]. apply range_len_empty_pos; lia.
Qed.

Lemma fuse_range_len a0 k b0 j n B yo :
  0 <= a0 -> 0 < k -> 0 <= b0 -> 0 < j -> 0 <= n -> 0 <= B <= n ->
  (forall y, yo = Some y -> 0 <= y) ->
  let m := range_len (Z.min a0 n) B k in
  range_len (Z.min (a0 + k * b0) n)
            (match yo with None => B | Some y => Z.min B (a0 + k * y) end) (k * j)
  = range_len (Z.min b0 m) (clip_stop yo m) j
  /\ (0 < range_len (Z.min b0 m) (clip_stop yo m) j ->
      Z.min (a0 + k * b0) n = Z.min a0 n + Z.min b0 m * k)
  /\ (forall i, 0 <= i < range_len (Z.min b0 m) (clip_stop yo m) j ->
        0 <= Z.min b0 m + i * j < m).
Proof.
  intros Ha0 Hk Hb0 Hj Hn HB Hy m.
  set (A := Z.min a0 n) in *.
  set (C := Z.min b0 m). set (D := clip_stop yo m). set (L := range_len C D j).
  assert (0 <= m) as Hm0 by apply range_len_nonneg.
  assert (0 <= L) as HL0 by apply range_len_nonneg.
  pose proof (range_len_pos_cases A B k Hk) as Hm. fold m in Hm.
  pose proof (range_len_pos_cases C D j Hj) as HL. fold L in HL.
  assert (D <= m) as HDm by (unfold D, clip_stop; destruct yo; lia).
  split; [|split].
  - apply range_len_pos_unique; try nia.
    + intros HLz. destruct HL as [[HL1 _]|[_ [HL2 _]]]; [|lia].
      unfold D, clip_stop in HL1. destruct yo as [y|].
      * specialize (Hy y eq_refl). nia.
      * nia.
    + intros HLp. destruct HL as [[_ HL2]|[HL1 [_ HL3]]]; [lia|].
      unfold D, clip_stop in HL1, HL3. destruct yo as [y|].
      * specialize (Hy y eq_refl). nia.
      * nia.
    + destruct HL as [[HL1 HL2]|[HL1 [_ HL3]]].
      * unfold D, clip_stop in HL1. destruct yo as [y|]; [specialize (Hy y eq_refl)|]; nia.
      * unfold D, clip_stop in HL1, HL3. destruct yo as [y|]; [specialize (Hy y eq_refl)|]; nia.
  - intros HLp. destruct HL as [[_ HL2]|[HL1 [_ HL3]]]; [lia|]. nia.
  - intros i Hi. destruct HL as [[_ HL2]|[HL1 [_ HL3]]]; [lia|]. nia.
Qed.

(* ---------------------------------------------------------------------- *)
(* fuse_slice on two slices / a slice and an integer *)
Lemma nff_inv s a0 st k :
  normalize_slice_for_fusion s = Some (a0, st, k) ->
  a0 = start_or0 s /\ st = s_stop s /\ k = step_of s /\ 0 <= a0 /\ 0 <= k /\
  (forall x, s_start s = Some x -> 0 <= x) /\ (forall x, s_stop s = Some x -> 0 <= x).
Proof.
  unfold normalize_slice_for_fusion, start_or0, step_of.
  destruct s as [[x|] [y|] [z|]]; cbn [s_start s_stop s_step]; intros H;
    break_if_hyp; try discriminate; injection H as <- <- <-;
    repeat split; try lia; intros w Hw; try discriminate; injection Hw as <-; lia.
Qed.

Theorem fuse_slice_ss_exact a b c n :
  0 <= n -> step_of a <> 0 -> step_of b <> 0 ->
  fuse_slice_ss a b = Some c ->
  pick (sel a n) (sel b (slice_len a n)) = sel c n.
Proof.
  intros Hn Hka Hkb H. unfold fuse_slice_ss in H.
  destruct (normalize_slice_for_fusion a) as [[[a0 ast] k]|] eqn:Ea; [|discriminate].
  destruct (normalize_slice_for_fusion b) as [[[b0 bst] j]|] eqn:Eb; [|discriminate].
  apply nff_inv in Ea. destruct Ea as (Ha0 & Hast & Hk & Ha0n & Hk0 & Has & Hae).
  apply nff_inv in Eb. destruct Eb as (Hb0 & Hbst & Hj & Hb0n & Hj0 & Hbs & Hbe).
  assert (0 < k) as Hkp by lia. assert (0 < j) as Hjp by lia.
  injection H as <-.
  unfold sel, slice_len.
  rewrite (indices_nonneg a n Hn) by (try assumption; lia).
  rewrite <- Ha0, <- Hk, <- Hast.
  set (B := clip_stop ast n).
  assert (0 <= B <= n) as HB.
  { unfold B, clip_stop. destruct ast as [x|]; [|lia]. specialize (Hae x (eq_sym Hast)). lia. }
  pose proof (range_len_nonneg (Z.min a0 n) B k) as Hm0.
  rewrite (indices_nonneg b _ Hm0) by (try assumption; lia).
  rewrite <- Hb0, <- Hj, <- Hbst.
  assert (forall y, bst = Some y -> 0 <= y) as Hy by (intros y ->; apply Hbe; congruence).
  pose proof (fuse_range_len a0 k b0 j n B bst Ha0n Hkp Hb0n Hjp Hn HB Hy) as (Hlen & Hst & Hin).
  cbv zeta in Hlen, Hst, Hin.
  rewrite indices_nonneg; unfold step_of, start_or0; cbn [s_start s_stop s_step]; try assumption.
  - apply pick_zrange.
    + rewrite <- Hlen. f_equal.
      * unfold B, clip_stop. destruct ast as [x|], bst as [y|]; lia.
      * break_if; lia.
    + exact Hin.
    + exact Hst.
    + break_if; lia.
  - break_if; nia.
  - intros x Hx. injection Hx as <-. nia.
  - intros x Hx. destruct ast as [x'|], bst as [y|]; try discriminate; injection Hx as <-.
    + specialize (Hy y eq_refl). specialize (Hae x' (eq_sym Hast)). nia.
    + specialize (Hae x' (eq_sym Hast)). lia.
    + specialize (Hy y eq_refl). nia.
Qed.

Theorem fuse_slice_si_exact a i p n :
  0 <= n -> step_of a <> 0 -> fuse_slice_si a i = Some p ->
  0 <= i < slice_len a n -> nth (Z.to_nat i) (sel a n) 0 = p.
Proof.
  intros Hn Hka H Hi. unfold fuse_slice_si in H.
  destruct (normalize_slice_for_fusion a) as [[[a0 ast] k]|] eqn:Ea; [|discriminate].
  apply nff_inv in Ea. destruct Ea as (Ha0 & Hast & Hk & Ha0n & Hk0 & Has & Hae).
  assert (0 < k) as Hkp by lia.
  destruct (i <? 0) eqn:Ei; [discriminate|]. injection H as <-.
  unfold sel, slice_len in *.
  rewrite (indices_nonneg a n Hn) in * by (try assumption; lia).
  rewrite <- Ha0, <- Hk in *.
  rewrite zrange_nth by (rewrite Z2Nat.id; lia).
  rewrite Z2Nat.id by lia.
  set (B := clip_stop (s_stop a) n) in *.
  pose proof (range_len_pos_cases (Z.min a0 n) B k Hkp) as [[_ Hz]|[Hlt _]]; [lia|].
  assert (B <= n) as HB by (unfold B, clip_stop; destruct (s_stop a); lia).
  lia.
Qed.

(* a slice "has a negative field" *)
Definition neg_field (o : option Z) : Prop := exists x, o = Some x /\ x < 0.
Definition has_negative (s : pslice) : Prop :=
  neg_field (s_start s) \/ neg_field (s_step s) \/ neg_field (s_stop s).

Definition neg_fieldb (o : option Z) : bool := match o with Some x => x <? 0 | None => false end.

Lemma neg_fieldb_iff o : neg_fieldb o = true <-> neg_field o.
Proof.
  unfold neg_field. destruct o as [z|]; cbn [neg_fieldb]; split.
  - intros H. exists z. split; [reflexivity|lia].
  - intros (x & Hx & Hlt). injection Hx as <-. lia.
  - discriminate.
  - intros (x & Hx & _). discriminate.
Qed.

Lemma nff_none_b s :
  normalize_slice_for_fusion s = None <->
  neg_fieldb (s_start s) || neg_fieldb (s_step s) || neg_fieldb (s_stop s) = true.
Proof.
  unfold normalize_slice_for_fusion.
  destruct s as [[x|] [y|] [z|]]; cbn [s_start s_stop s_step neg_fieldb];
    break_if; split; intros H; try discriminate; try reflexivity; lia.
Qed.

Lemma nff_none_iff s : normalize_slice_for_fusion s = None <-> has_negative s.
Proof.
  rewrite nff_none_b, !orb_true_iff, !neg_fieldb_iff. unfold has_negative. tauto.
Qed.

Theorem fuse_declines_iff a b :
  fuse_slice_ss a b = None <-> has_negative a \/ has_negative b.
Proof.
  rewrite <- !nff_none_iff. unfold fuse_slice_ss.
  destruct (normalize_slice_for_fusion a) as [[[a0 ast] k]|];
    destruct (normalize_slice_for_fusion b) as [[[b0 bst] j]|]; split; intros H;
    try discriminate; try reflexivity; try (destruct H; discriminate); auto.
Qed.

Lemma indices_unit s n :
  0 <= n -> (s_step s = None \/ s_step s = Some 1) ->
  exists A B, indices s n = (A, B, 1) /\ 0 <= A <= n /\ 0 <= B <= n.
Proof.
  intros Hn Hs.
  destruct (indices s n) as [[A B] k] eqn:Hi.
  pose proof (indices_bounds s n A B k Hn Hi) as (Hk & Hpos & _).
  assert (k = 1) as -> by (unfold step_of in Hk; destruct Hs as [Hs|Hs]; rewrite Hs in Hk; lia).
  exists A, B. split; [reflexivity|]. apply Hpos. lia.
Qed.

Lemma range_len_unit a b : range_len a b 1 = Z.max (b - a) 0.
Proof. rewrite range_len_pos_step by lia. break_if; lia. Qed.

Lemma indices_inbounds a b n :
  0 <= a <= n -> 0 <= b <= n -> indices (mkslice (Some a) (Some b) None) n = (a, b, 1).
Proof.
  intros Ha Hb. unfold indices, adjust_endpoint, step_of. cbn [s_start s_stop s_step].
  repeat break_if; repeat f_equal; lia.
Qed.

Theorem compose_slices_unit_exact outer inner n :
  0 <= n -> (s_step outer = None \/ s_step outer = Some 1) ->
  (s_step inner = None \/ s_step inner = Some 1) ->
  sel (compose_slices outer inner n) n = pick (sel outer n) (sel inner (slice_len outer n)).
Proof.
  intros Hn Ho Hi.
  destruct (indices_unit outer n Hn Ho) as (A & B & HO & HA & HB).
  unfold compose_slices, sel at 2, slice_len. rewrite HO.
  pose proof (range_len_nonneg A B 1) as Hm0.
  destruct (indices_unit inner _ Hm0 Hi) as (C & D & HI & HC & HD).
  unfold sel at 2. rewrite HI.
  cbn [negb Z.eqb Pos.eqb orb].
  rewrite range_len_unit in *.
  unfold sel. rewrite (indices_inbounds (A + C) (A + D) n) by lia.
  symmetry. apply pick_zrange.
  - rewrite !range_len_unit. lia.
  - intros i Hi'. rewrite !range_len_unit in *. lia.
  - intros _. lia.
  - reflexivity.
Qed.

Theorem compose_slices_general_refuted :
  exists outer inner n, 0 <= n /\
    sel (compose_slices outer inner n) n <> pick (sel outer n) (sel inner (slice_len outer n)).
Proof.
  exists (mkslice None None (Some (-1))), colon, 10. split; [lia|].
  vm_compute. discriminate.
Qed.

(* ---------------------------------------------------------------------- *)
(* fuse_elem, one axis.  [elem_spec a b c n] is the meaning of "c is the fusion
   of a then b" on an axis of length n. *)
Lemma sel_colon n : 0 <= n -> sel colon n = zrange 0 n 1 /\ slice_len colon n = n.
Proof.
  intros Hn. unfold sel, slice_len, indices, adjust_endpoint, step_of, colon.
  cbn [s_start s_stop s_step Z.ltb Z.compare]. split; [reflexivity|].
  rewrite range_len_unit. lia.
Qed.

Theorem fuse_elem_none_colon b c :
  fuse_elem INone b = Some c <-> b = ISlice colon /\ c = INone.
Proof.
  split.
  - destruct b as [i|t|]; cbn [fuse_elem]; try discriminate.
    destruct (pslice_eqb t colon) eqn:E; [|discriminate].
    apply pslice_eqb_eq in E. subst t. intros H. injection H as <-. split; reflexivity.
  - intros [-> ->]. reflexivity.
Qed.

Definition elem_spec (a b c : pidx) (n : Z) : Prop :=
  match a, b, c with
  | ISlice s, ISlice t, ISlice u => pick (sel s n) (sel t (slice_len s n)) = sel u n
  | ISlice s, IInt i, IInt p => 0 <= i < slice_len s n -> nth (Z.to_nat i) (sel s n) 0 = p
  | INone, ISlice t, INone =>
      (* np.newaxis makes an axis of length 1; [:] keeps it whole *)
      t = colon /\ sel t 1 = [0] /\ slice_len t 1 = 1
  | _, _, _ => False
  end.

Theorem fuse_elem_exact a b c n :
  0 <= n ->
  (forall s, a = ISlice s -> step_of s <> 0) ->
  (forall t, b = ISlice t -> step_of t <> 0) ->
  fuse_elem a b = Some c -> elem_spec a b c n.
Proof.
  intros Hn Hsa Hsb H.
  destruct a as [ia|s|], b as [ib|t|]; cbn [fuse_elem] in H; try discriminate.
  - destruct (fuse_slice_si s ib) as [p|] eqn:E; [|discriminate]. injection H as <-.
    cbn [elem_spec]. intros Hi.
    apply (fuse_slice_si_exact s ib p n Hn (Hsa s eq_refl) E Hi).
  - destruct (fuse_slice_ss s t) as [u|] eqn:E; [|discriminate]. injection H as <-.
    cbn [elem_spec].
    apply (fuse_slice_ss_exact s t u n Hn (Hsa s eq_refl) (Hsb t eq_refl) E).
  - apply (proj1 (fuse_elem_none_colon (ISlice t) c)) in H. destruct H as [Ht ->]. injection Ht as ->.
    cbn [elem_spec]. split; [reflexivity|]. split; reflexivity.
Qed.

(* ---------------------------------------------------------------------- *)
(* fuse_tuple on equal-length tuples, every element of [a] a slice, no None in
   [b]: it is the element-wise fuse_elem. *)
Fixpoint fuse_zip (a b : list pidx) : option (list pidx) :=
  match a, b with
  | [], [] => Some []
  | x :: a', y :: b' =>
      match fuse_elem x y, fuse_zip a' b' with
      | Some c, Some r => Some (c :: r)
      | _, _ => None
      end
  | _, _ => None
  end.

Definition is_slice (x : pidx) : Prop := exists s, x = ISlice s.

Theorem fuse_tuple_zip a b :
  length a = length b -> Forall is_slice a -> Forall (fun y => y <> INone) b ->
  fuse_tuple a b = fuse_zip a b.
Proof.
  revert b. induction a as [|x a' IH]; intros b Hlen Ha Hb.
  - destruct b as [|y b']; [reflexivity|discriminate].
  - destruct b as [|y b']; [discriminate|].
    cbn [length] in Hlen. injection Hlen as Hlen.
    inversion Ha as [|x0 a0 [s Hx] Ha']; subst.
    inversion Hb as [|y0 b0 Hy Hb']; subst.
    cbn [fuse_tuple fuse_zip].
    destruct y as [i|t|]; [| |congruence]; cbn [length skip_nones app];
      rewrite (IH b' Hlen Ha' Hb'); reflexivity.
Qed.

(* a successful element-wise fusion has one result per axis, each satisfying
   elem_spec for its own axis length *)
Lemma fuse_zip_spec a b c ns :
  fuse_zip a b = Some c -> length ns = length a -> Forall (fun n => 0 <= n) ns ->
  Forall (fun x => forall s, x = ISlice s -> step_of s <> 0) a ->
  Forall (fun y => forall t, y = ISlice t -> step_of t <> 0) b ->
  length c = length a /\
  forall i, (i < length a)%nat ->
    elem_spec (nth i a INone) (nth i b INone) (nth i c INone) (nth i ns 0).
Proof.
  revert b c ns. induction a as [|x a' IH]; intros b c ns H Hlen Hns Hsa Hsb.
  - destruct b; [|discriminate]. injection H as <-. split; [reflexivity|].
    intros i Hi. cbn [length] in Hi. lia.
  - destruct b as [|y b']; [discriminate|]. cbn [fuse_zip] in H.
    destruct (fuse_elem x y) as [e|] eqn:Ee; [|discriminate].
    destruct (fuse_zip a' b') as [r|] eqn:Er; [|discriminate]. injection H as <-.
    destruct ns as [|n ns']; [discriminate|]. cbn [length] in Hlen. injection Hlen as Hlen.
    inversion Hns as [|n0 l0 Hn Hns']; subst.
    inversion Hsa as [|x0 l1 Hx Hsa']; subst.
    inversion Hsb as [|y0 l2 Hy Hsb']; subst.
    destruct (IH b' r ns' Er Hlen Hns' Hsa' Hsb') as [Hl Hall].
    split; [cbn [length]; congruence|].
    intros [|i] Hi; cbn [nth].
    + apply fuse_elem_exact; assumption.
    + apply Hall. cbn [length] in Hi. lia.
Qed.

Theorem fuse_tuple_exact a b c ns :
  length a = length b -> Forall is_slice a -> Forall (fun y => y <> INone) b ->
  length ns = length a -> Forall (fun n => 0 <= n) ns ->
  Forall (fun x => forall s, x = ISlice s -> step_of s <> 0) a ->
  Forall (fun y => forall t, y = ISlice t -> step_of t <> 0) b ->
  fuse_tuple a b = Some c ->
  length c = length a /\
  forall i, (i < length a)%nat ->
    elem_spec (nth i a INone) (nth i b INone) (nth i c INone) (nth i ns 0).
Proof.
  intros Hlen Ha Hb Hnl Hns Hsa Hsb H. rewrite fuse_tuple_zip in H by assumption.
  apply (fuse_zip_spec a b c ns); assumption.
Qed.

(* ---------------------------------------------------------------------- *)
(* The hypotheses are satisfiable on concrete, non-trivial inputs. *)
Example fuse_slice_ss_exact_ex :
  let a := mkslice (Some 2) None (Some 3) in          (* 2::3 *)
  let b := mkslice (Some 1) (Some 4) (Some 2) in      (* 1:4:2 *)
  let c := mkslice (Some 5) (Some 14) (Some 6) in
  0 <= 20 /\ step_of a <> 0 /\ step_of b <> 0 /\ fuse_slice_ss a b = Some c /\
  sel a 20 = [2; 5; 8; 11; 14; 17] /\ sel b (slice_len a 20) = [1; 3] /\
  pick (sel a 20) (sel b (slice_len a 20)) = [5; 11] /\ sel c 20 = [5; 11].
Proof. vm_compute. repeat split; try discriminate; reflexivity. Qed.

(* the counterexample that forces the step hypotheses: b = 1:0:0 on a = [:] , n = 1 *)
Example fuse_slice_ss_step0_counterexample :
  let a := colon in let b := mkslice (Some 1) (Some 0) (Some 0) in
  exists c, fuse_slice_ss a b = Some c /\
            pick (sel a 1) (sel b (slice_len a 1)) <> sel c 1.
Proof. eexists. split; [vm_compute; reflexivity|]. vm_compute. discriminate. Qed.

Example fuse_slice_si_exact_ex :
  let a := mkslice (Some 2) None (Some 3) in
  0 <= 20 /\ step_of a <> 0 /\ fuse_slice_si a 4 = Some 14 /\ 0 <= 4 < slice_len a 20 /\
  nth (Z.to_nat 4) (sel a 20) 0 = 14.
Proof. vm_compute. repeat split; try discriminate; reflexivity. Qed.

Example fuse_slice_si_step0_counterexample :
  let a := mkslice (Some 2) (Some 0) (Some 0) in
  exists p, fuse_slice_si a 0 = Some p /\ 0 <= 0 < slice_len a 1 /\
            nth (Z.to_nat 0) (sel a 1) 0 <> p.
Proof. eexists. split; [vm_compute; reflexivity|]. vm_compute. repeat split; discriminate. Qed.

Example fuse_declines_ex :
  fuse_slice_ss (mkslice (Some (-2)) None None) colon = None /\
  has_negative (mkslice (Some (-2)) None None) /\
  fuse_slice_ss colon (mkslice None None (Some (-1))) = None /\
  ~ has_negative colon /\ ~ has_negative (mkslice (Some 2) (Some 7) (Some 3)).
Proof.
  split; [reflexivity|]. split; [left; exists (-2); split; [reflexivity|lia]|].
  split; [reflexivity|].
  split; intros [(x & Hx & Hlt)|[(x & Hx & Hlt)|(x & Hx & Hlt)]];
    cbn [s_start s_stop s_step colon] in Hx; try discriminate; injection Hx as <-; lia.
Qed.

Example compose_slices_unit_exact_ex :
  let outer := mkslice (Some (-8)) (Some 9) None in       (* -8:9 on n = 10 is 2:9 *)
  let inner := mkslice (Some 1) (Some (-2)) (Some 1) in   (* 1:-2 on length 7 is 1:5 *)
  0 <= 10 /\ (s_step outer = None \/ s_step outer = Some 1) /\
  (s_step inner = None \/ s_step inner = Some 1) /\
  compose_slices outer inner 10 = mkslice (Some 3) (Some 7) None /\
  sel (compose_slices outer inner 10) 10 = [3; 4; 5; 6] /\
  pick (sel outer 10) (sel inner (slice_len outer 10)) = [3; 4; 5; 6].
Proof.
  cbv zeta. split; [lia|]. split; [left; reflexivity|]. split; [right; reflexivity|].
  vm_compute. repeat split; reflexivity.
Qed.

Example fuse_tuple_exact_ex :
  let a := [ISlice (mkslice (Some 2) None (Some 3)); ISlice (mkslice (Some 1) (Some 9) None)] in
  let b := [ISlice (mkslice (Some 1) (Some 4) (Some 2)); IInt 3] in
  length a = length b /\ Forall is_slice a /\ Forall (fun y => y <> INone) b /\
  fuse_tuple a b = Some [ISlice (mkslice (Some 5) (Some 14) (Some 6)); IInt 4].
Proof.
  cbv zeta. split; [reflexivity|]. split; [|split].
  - repeat constructor; eexists; reflexivity.
  - repeat constructor; discriminate.
  - vm_compute. reflexivity.
Qed.

(* ---------------------------------------------------------------------- *)
Print Assumptions fuse_slice_ss_exact.
Print Assumptions fuse_slice_si_exact.
Print Assumptions fuse_declines_iff.
Print Assumptions compose_slices_unit_exact.
Print Assumptions compose_slices_general_refuted.
Print Assumptions fuse_elem_none_colon.
Print Assumptions fuse_elem_exact.
Print Assumptions fuse_tuple_zip.
Print Assumptions fuse_tuple_exact.
