(* Proofs about the model of auto_chunks' previous_chunks branch (AutoPrev.v), part 3:
   TERMINATION of the shrinking case (multiplier < 1 initially: result IS median_chunks, the loop runs
   until the recomputed multiplier stops changing) when the recorded proposals are SANE (round_sane):

     prev_loop_sane_terminates   (n_autos + 1) * (sum of the 'auto' axis lengths + 3) passes suffice

   Argument.  A pass either removes an axis from `autos` (at most n_autos times) or not.  After a pass that
   removes nothing every entry is a fixed point of round_to and their product is within the target, so the
   recomputed multiplier is >= 1; from then on sane proposals are >= the entries, round_to is monotone, so the
   entries can only grow; the multiplier changes only if an entry changed, i.e. grew by >= 1; entries are
   bounded by the axis lengths. *)
From DA Require Import PyBase PyBaseFacts NormChunks NormChunksFacts AutoPrev AutoPrevFacts AutoPrevTerm.
From Coq Require Import ZifyBool.
Open Scope Z_scope.
Ltac Zify.zify_post_hook ::= Z.to_euclidean_division_equations.

(* ---------------------------------------------------------------------- *)
(* round_to on a proposal 1 <= p <= n *)

Lemma round_to_facts n d s nc :
  0 < d -> d <= n -> n <= nc * d -> (1 < s \/ s = nc) ->
  exists r, round_to_f (FQ n d) s = FQ r 1 /\ 1 <= r <= n / d /\ r <= nc /\ (r <= s \/ r mod s = 0).
Proof.
  intros Hd Hn Hnc Hs. unfold round_to_f.
  assert (1 <= n / d) as Hq by (apply Z.div_le_lower_bound; lia).
  assert (n / d <= nc) as Hqn by (apply Z.div_le_upper_bound; lia).
  destruct (n <=? s * d) eqn:E.
  - exists (Z.max 1 (Z.quot n d)). rewrite Z.quot_div_nonneg by lia.
    split; [reflexivity|]. split; [lia|]. split; [lia|]. left.
    assert (n / d <= s) by (apply Z.div_le_upper_bound; lia). lia.
  - assert (1 < s) as Hs1 by (destruct Hs as [H|H]; [exact H|subst s; lia]).
    destruct (s =? 0) eqn:Es; [lia|].
    exists (n / (d * s) * s). split; [reflexivity|].
    assert (1 <= n / (d * s)) by (apply Z.div_le_lower_bound; nia).
    assert (n / (d * s) * s <= n / d).
    { apply Z.div_le_lower_bound; [lia|].
      assert (d * s * (n / (d * s)) <= n) by (apply Z.mul_div_le; nia). nia. }
    split; [nia|]. split; [lia|]. right. apply Z.mod_mul. lia.
Qed.

Lemma round_to_mono n d s nc v r :
  0 < d -> d <= n -> n <= nc * d -> (1 < s \/ s = nc) -> round_to_f (FQ n d) s = FQ r 1 ->
  1 <= v -> (v <= s \/ v mod s = 0) -> v * d <= n -> v <= r.
Proof.
  intros Hd Hn Hnc Hs0 Hr Hv Hfix Hle. unfold round_to_f in Hr.
  assert (v <= n / d) as Hvq by (apply Z.div_le_lower_bound; lia).
  destruct (n <=? s * d) eqn:E.
  - injection Hr as <-. rewrite Z.quot_div_nonneg by lia. lia.
  - destruct (s =? 0) eqn:Es; [discriminate|]. injection Hr as <-.
    assert (0 < s) as Hs.
    { destruct Hs0 as [H|H]; [lia|subst s; nia]. }
    assert (1 <= n / (d * s)) by (apply Z.div_le_lower_bound; nia).
    destruct Hfix as [Hvs|Hmod]; [nia|].
    assert (v = s * (v / s)) as Hv' by (apply Z_div_exact_full_2; lia).
    assert (v / s <= n / (d * s)) by (apply Z.div_le_lower_bound; nia).
    nia.
Qed.

(* ---------------------------------------------------------------------- *)
(* products *)

Lemma fmul_inv x y n d : fmul x y = FQ n d ->
  exists n1 d1 n2 d2, x = FQ n1 d1 /\ y = FQ n2 d2 /\ n = n1 * n2 /\ d = d1 * d2.
Proof. destruct x as [|n1 d1], y as [|n2 d2]; cbn [fmul]; intros H; try discriminate. injection H as <- <-. eauto 10. Qed.

Lemma med_prod_cons o l :
  med_prod (o :: l) = match o with
                      | Some v => match dv_factor v with Some x => fmul x (med_prod l) | None => med_prod l end
                      | None => med_prod l end.
Proof. reflexivity. Qed.

Lemma prod_split xs : forall an ad on od,
  autos_prod xs = FQ an ad -> others_prod xs = FQ on od ->
  exists pn pd, med_prod (map ax_med xs) = FQ pn pd /\ pn = an * on /\ pd = ad * od.
Proof.
  unfold autos_prod, others_prod.
  induction xs as [|x xs IH]; intros an ad on od Ha Ho; cbn [map] in *.
  - cbn in Ha, Ho. injection Ha as <- <-. injection Ho as <- <-. exists 1, 1. auto.
  - rewrite med_prod_cons in *. destruct (ax_auto x).
    + destruct (ax_med x) as [v|]; [destruct (dv_factor v) as [f|]|].
      * apply fmul_inv in Ha as (n1 & d1 & n2 & d2 & -> & Ha & -> & ->).
        destruct (IH _ _ _ _ Ha Ho) as (pn & pd & -> & -> & ->).
        cbn [fmul]. eexists _, _. split; [reflexivity|]. split; ring.
      * apply IH; assumption.
      * apply IH; assumption.
    + destruct (ax_med x) as [v|]; [destruct (dv_factor v) as [f|]|].
      * apply fmul_inv in Ho as (n1 & d1 & n2 & d2 & -> & Ho & -> & ->).
        destruct (IH _ _ _ _ Ha Ho) as (pn & pd & -> & -> & ->).
        cbn [fmul]. eexists _, _. split; [reflexivity|]. split; ring.
      * apply IH; assumption.
      * apply IH; assumption.
Qed.

(* ---------------------------------------------------------------------- *)
(* the state after a pass that removes nothing *)

Definition consts_ok (c : axc) : Prop := 1 < c_ideal c \/ c_ideal c = c_n c.

(* the entry of an axis in `autos` is an integer fixed point of round_to within the axis *)
Definition ax_fix (c : axc) (x : axst) : Prop :=
  ax_auto x = true ->
  exists r, ax_med x = Some (VNum (FQ r 1)) /\ 1 <= r <= c_n c /\ (r <= c_ideal c \/ r mod c_ideal c = 0).

Fixpoint sum_med (xs : list axst) : Z :=
  match xs with
  | [] => 0
  | x :: t => (if ax_auto x then match ax_med x with Some (VNum (FQ r _)) => r | _ => 0 end else 0) + sum_med t
  end.

Lemma axis_step_ns c n d mcs x x' k :
  axis_step true c (FQ n d, mcs) x = (x', false, k) ->
  k = 1 /\ n <= c_n c * d /\ d <= n /\
  x' = mkax (ax_auto x) (Some (VNum (round_to_f (FQ n d) (c_ideal c)))) (ax_res x).
Proof.
  unfold axis_step. destruct (f_gt_z (FQ n d) (c_n c)) eqn:Eg; [intros H; inversion H|].
  cbn [orb]. cbv zeta. destruct (f_lt_z (FQ n d) 1) eqn:El; [intros H; inversion H|].
  cbn [f_gt_z f_lt_z] in Eg, El. unfold set_res. intros H.
  assert (k = 1) as -> by congruence.
  assert (x' = mkax (ax_auto x) (Some (VNum (round_to_f (FQ n d) (c_ideal c)))) (ax_res x)) as -> by congruence.
  repeat split; lia.
Qed.

Lemma round_axes_ns cs : forall a o xs xs' k b,
  round_axes true cs a o xs = (xs', false, k) -> length cs = length xs ->
  axes_sane b a o xs = true -> Forall consts_ok cs ->
  k = 1 /\ map ax_auto xs' = map ax_auto xs /\ Forall2 ax_fix cs xs' /\
  others_prod xs' = others_prod xs /\
  exists M, autos_prod xs' = FQ M 1 /\ 1 <= M <= floor_prod a o xs.
Proof.
  induction cs as [|c cs IH]; intros a o [|x xs] xs' k b H Hl Hs Hc; cbn [round_axes] in H; cbn in Hl; try lia.
  - injection H as <- <-. repeat split; try constructor. exists 1. cbn. split; [reflexivity|lia].
  - inversion Hc as [|? ? Hc1 Hc2]; subst.
    cbn [axes_sane] in Hs. apply andb_true_iff in Hs as [Hs1 Hs2].
    destruct (round_axes true cs (S a) o xs) as [[xs2 f2] k2] eqn:Hr.
    destruct (ax_auto x) eqn:Ea.
    + destruct (axis_step true c (o a) x) as [[x1 f1] k1] eqn:Hst.
      injection H as <- Hf <-. apply orb_false_iff in Hf as [-> ->].
      destruct (IH _ _ _ _ _ _ Hr ltac:(lia) Hs2 Hc2) as (-> & E & HF & HO & M0 & HM0 & HM0b).
      destruct (o a) as [p mcs] eqn:Eo. cbn [fst] in Hs1.
      destruct p as [|n d]; [discriminate|].
      destruct (ax_med x) as [[[|vn vd]|]|] eqn:Em; try discriminate.
      apply andb_true_iff in Hs1 as [Hs1 _]. apply andb_true_iff in Hs1 as [Hd _].
      apply axis_step_ns in Hst as (-> & Eg & El & ->).
      destruct (round_to_facts n d (c_ideal c) (c_n c)) as (r & Hr1 & Hr2 & Hr3 & Hr4); [lia|lia|lia|exact Hc1|].
      rewrite Hr1.
      split; [lia|]. split; [cbn [map ax_auto]; rewrite Ea, E; reflexivity|].
      split; [constructor; [|exact HF]|].
      { intros _. exists r. cbn [ax_med]. repeat split; try lia. }
      split.
      { unfold others_prod in *. cbn [map ax_auto]. rewrite Ea. rewrite !med_prod_cons. exact HO. }
      exists (r * M0). split.
      { unfold autos_prod in *. cbn [map ax_auto ax_med]. rewrite Ea, med_prod_cons. cbn [dv_factor].
        destruct (r =? 0) eqn:Er; [lia|]. rewrite HM0. reflexivity. }
      cbn [floor_prod]. rewrite Ea, Eo. cbn [fst]. nia.
    + injection H as <- Hf <-. cbn [orb] in Hf. subst f2.
      destruct (IH _ _ _ _ _ _ Hr ltac:(lia) Hs2 Hc2) as (-> & E & HF & HO & M0 & HM0 & HM0b).
      split; [lia|]. split; [cbn [map]; rewrite E; reflexivity|].
      split; [constructor; [|exact HF]|].
      { intros Hx. congruence. }
      split.
      { unfold others_prod in *. cbn [map]. rewrite Ea, !med_prod_cons, HO. reflexivity. }
      exists M0. split.
      { unfold autos_prod in *. cbn [map]. rewrite Ea, med_prod_cons. exact HM0. }
      cbn [floor_prod]. rewrite Ea. lia.
Qed.

(* with multiplier >= 1 and fixed-point entries, sane proposals only make the entries grow *)
Lemma round_axes_ns_mono cs : forall a o xs xs' k,
  round_axes true cs a o xs = (xs', false, k) -> length cs = length xs ->
  axes_sane true a o xs = true -> Forall consts_ok cs -> Forall2 ax_fix cs xs ->
  sum_med xs <= sum_med xs' /\ (sum_med xs' = sum_med xs -> map ax_med xs' = map ax_med xs).
Proof.
  induction cs as [|c cs IH]; intros a o [|x xs] xs' k H Hl Hs Hc HF; cbn [round_axes] in H; cbn in Hl; try lia.
  - injection H as <- <-. split; [lia|reflexivity].
  - inversion Hc as [|? ? Hc1 Hc2]; subst. inversion HF as [|? ? ? ? Hx HF2]; subst.
    cbn [axes_sane] in Hs. apply andb_true_iff in Hs as [Hs1 Hs2].
    destruct (round_axes true cs (S a) o xs) as [[xs2 f2] k2] eqn:Hr.
    destruct (ax_auto x) eqn:Ea.
    + destruct (axis_step true c (o a) x) as [[x1 f1] k1] eqn:Hst.
      injection H as <- Hf <-. apply orb_false_iff in Hf as [-> ->].
      destruct (IH _ _ _ _ _ Hr ltac:(lia) Hs2 Hc2 HF2) as (I1 & I2).
      destruct (o a) as [p mcs] eqn:Eo. cbn [fst] in Hs1.
      destruct p as [|n d]; [discriminate|].
      destruct (Hx Ea) as (v & Em & Hv1 & Hv2). rewrite Em in Hs1.
      apply andb_true_iff in Hs1 as [Hs1 Hmono]. apply andb_true_iff in Hs1 as [Hd _]. cbn [negb orb] in Hmono.
      apply axis_step_ns in Hst as (-> & Eg & El & ->).
      destruct (round_to_facts n d (c_ideal c) (c_n c)) as (r & Hr1 & Hr2 & Hr3 & Hr4); [lia|lia|lia|exact Hc1|].
      assert (v <= r) as Hvr.
      { eapply (round_to_mono n d (c_ideal c) (c_n c)); [lia|lia|lia|exact Hc1|exact Hr1|lia|exact Hv2|lia]. }
      rewrite Hr1. cbn [sum_med ax_auto ax_med ax_res map]. rewrite Ea, Em.
      split; [lia|]. intros Hsum. assert (r = v) as -> by lia. rewrite I2 by lia. reflexivity.
    + injection H as <- Hf <-. cbn [orb] in Hf. subst f2.
      destruct (IH _ _ _ _ _ Hr ltac:(lia) Hs2 Hc2 HF2) as (I1 & I2).
      cbn [sum_med map]. rewrite Ea. split; [lia|]. intros Hsum. rewrite I2 by lia. reflexivity.
Qed.

Lemma sum_med_le_sum_n cs : forall xs, Forall2 ax_fix cs xs -> 0 <= sum_med xs <= sum_n cs xs.
Proof.
  induction cs as [|c cs IH]; intros xs HF; inversion HF as [|? x ? xs0 Hx HF2]; subst; cbn [sum_med sum_n]; [lia|].
  specialize (IH _ HF2). destruct (ax_auto x) eqn:Ea; [|lia].
  destruct (Hx Ea) as (r & -> & Hr & _). lia.
Qed.

Lemma sum_n_nonneg cs : forall xs, 0 <= sum_n cs xs.
Proof. induction cs as [|c cs IH]; intros [|x xs]; cbn [sum_n]; try lia. specialize (IH xs). destruct (ax_auto x); lia. Qed.

Lemma sum_n_map cs : forall xs xs', map ax_auto xs' = map ax_auto xs -> sum_n cs xs' = sum_n cs xs.
Proof.
  induction cs as [|c cs IH]; intros [|x xs] [|x' xs'] H; cbn [map] in H; try discriminate; cbn [sum_n]; try reflexivity.
  injection H as H1 H2. rewrite H1, (IH _ _ H2). reflexivity.
Qed.

(* `autos` only shrinks: so does the sum of its axis lengths *)
Lemma round_axes_sum_n reduce cs : forall a o xs xs' f k,
  round_axes reduce cs a o xs = (xs', f, k) -> length cs = length xs -> sum_n cs xs' <= sum_n cs xs.
Proof.
  induction cs as [|c cs IH]; intros a o [|x xs] xs' f k H Hl; cbn [round_axes] in H; cbn in Hl; try lia.
  - injection H as <- _ _. cbn. lia.
  - destruct (round_axes reduce cs (S a) o xs) as [[xs2 f2] k2] eqn:Hr.
    specialize (IH _ _ _ _ _ _ Hr ltac:(lia)).
    destruct (ax_auto x) eqn:Ea.
    + destruct (axis_step reduce c (o a) x) as [[x1 f1] k1] eqn:Hs.
      injection H as <- _ _. cbn [sum_n]. rewrite Ea.
      destruct (ax_auto x1); lia.
    + injection H as <- _ _. cbn [sum_n]. rewrite Ea. lia.
Qed.

(* ---------------------------------------------------------------------- *)
(* the per-axis constants built by auto_chunks *)

Lemma ideal_of_ok pv s i : ideal_of pv s = Ok i -> 1 < i \/ i = s.
Proof.
  unfold ideal_of. destruct pv as [|x pv]; [discriminate|].
  destruct (mode_of (x :: pv) (x :: pv) x 0%nat) as [mode count].
  destruct ((1 <? mode) && (length (x :: pv) <=? 2 * count)%nat) eqn:E; intros H; injection H as <-.
  - apply andb_true_iff in E as [E _]. left. lia.
  - right. reflexivity.
Qed.

Lemma mk_consts_ok pvs : forall shape ids, ideals_of pvs shape = Ok ids -> Forall consts_ok (mk_consts shape pvs ids).
Proof.
  induction pvs as [|pv pvs IH]; intros [|s shape] ids H; cbn [ideals_of] in H; try discriminate.
  - injection H as <-. constructor.
  - injection H as <-. constructor.
  - destruct (ideal_of pv s) as [i|] eqn:Hi; [|discriminate].
    destruct (ideals_of pvs shape) as [r|] eqn:Hr; [|discriminate].
    injection H as <-. cbn [mk_consts]. constructor; [|apply IH; exact Hr].
    unfold consts_ok. cbn [c_ideal c_n]. eapply ideal_of_ok; exact Hi.
Qed.

(* ---------------------------------------------------------------------- *)
(* one pass of the shrinking case *)

Lemma prev_round_reduce limit itemsize cs o st st' b :
  prev_round true limit itemsize cs o st = Ok (st', b) ->
  exists xs fl k m2,
    round_axes true cs 0 o (ls_axes st) = (xs, fl, k) /\
    compute_multiplier limit itemsize (ls_lb st * k) (map ax_med xs) = Ok m2 /\
    st' = mkls xs (ls_lb st * k) m2 /\ b = fl || f_ne m2 (ls_mult st).
Proof.
  unfold prev_round. destruct (round_axes true cs 0 o (ls_axes st)) as [[xs fl] k].
  rewrite orb_true_r.
  destruct (compute_multiplier limit itemsize (ls_lb st * k) (map ax_med xs)) as [m2|] eqn:Hm; [|discriminate].
  intros H. injection H as <- <-. exists xs, fl, k, m2. auto.
Qed.

(* the invariant after a pass that removed nothing *)
Definition settled (limit itemsize : Z) (cs : list axc) (st : lstate) : Prop :=
  Forall2 ax_fix cs (ls_axes st) /\
  (exists N D, ls_mult st = FQ N D /\ 0 < D <= N) /\
  compute_multiplier limit itemsize (ls_lb st) (map ax_med (ls_axes st)) = Ok (ls_mult st).

Lemma round_sane_inv limit itemsize o st :
  round_sane limit itemsize o st = true ->
  exists mn md on od,
    ls_mult st = FQ mn md /\ others_prod (ls_axes st) = FQ on od /\
    0 < md /\ 0 < od /\ 0 < itemsize * ls_lb st * on /\
    axes_sane (md <=? mn) 0 o (ls_axes st) = true /\
    (n_autos (ls_axes st) = 0%nat \/
     floor_prod 0 o (ls_axes st) * (itemsize * ls_lb st * on) <= limit * od).
Proof.
  unfold round_sane. destruct (ls_mult st) as [|mn md]; [discriminate|].
  destruct (others_prod (ls_axes st)) as [|on od]; [discriminate|].
  intros H. apply andb_true_iff in H as [H H5]. apply andb_true_iff in H as [H H4].
  apply andb_true_iff in H as [H H3]. apply andb_true_iff in H as [H1 H2].
  exists mn, md, on, od.
  split; [reflexivity|]. split; [reflexivity|]. split; [lia|]. split; [lia|]. split; [lia|]. split; [exact H4|].
  apply orb_true_iff in H5 as [H5|H5]; [left; apply Nat.eqb_eq; exact H5|right; lia].
Qed.

Lemma settle limit itemsize cs o st xs k m2 :
  round_axes true cs 0 o (ls_axes st) = (xs, false, k) ->
  compute_multiplier limit itemsize (ls_lb st * k) (map ax_med xs) = Ok m2 ->
  length cs = length (ls_axes st) -> Forall consts_ok cs ->
  round_sane limit itemsize o st = true -> (0 < n_autos (ls_axes st))%nat ->
  settled limit itemsize cs (mkls xs (ls_lb st * k) m2).
Proof.
  intros Hr Hm Hl Hc Hs Hn.
  destruct (round_sane_inv _ _ _ _ Hs) as (mn & md & on & od & Em & Eo & Hmd & Hod & Hpos & Hax & Hprod).
  destruct Hprod as [Hz|Hprod]; [lia|].
  destruct (round_axes_ns _ _ _ _ _ _ _ Hr Hl Hax Hc) as (-> & E & HF & HO & M & HM & HMb).
  unfold settled. cbn [ls_axes ls_lb ls_mult]. split; [exact HF|]. split; [|exact Hm].
  rewrite Eo in HO.
  destruct (prod_split xs _ _ _ _ HM HO) as (pn & pd & Hp & -> & ->).
  unfold compute_multiplier in Hm. rewrite Hp in Hm.
  destruct ((itemsize =? 0) || (ls_lb st * 1 =? 0)) eqn:Ez; [discriminate|].
  destruct (M * on =? 0) eqn:Ep; [discriminate|].
  injection Hm as <-. unfold mkq.
  set (X := itemsize * ls_lb st * on) in *.
  assert (itemsize * (ls_lb st * 1) * (M * on) = M * X) as -> by (unfold X; ring).
  assert (0 < M * X) by nia.
  destruct (M * X <? 0) eqn:Eneg; [lia|].
  exists (limit * (1 * od)), (M * X). split; [reflexivity|]. nia.
Qed.

(* a pass from a settled state that removes nothing but changes the multiplier makes an entry grow *)
Lemma settled_progress limit itemsize cs o st xs k m2 :
  round_axes true cs 0 o (ls_axes st) = (xs, false, k) ->
  compute_multiplier limit itemsize (ls_lb st * k) (map ax_med xs) = Ok m2 ->
  f_ne m2 (ls_mult st) = true ->
  length cs = length (ls_axes st) -> Forall consts_ok cs ->
  round_sane limit itemsize o st = true -> settled limit itemsize cs st ->
  sum_med (ls_axes st) + 1 <= sum_med xs.
Proof.
  intros Hr Hm Hne Hl Hc Hs (HF & (N & D & EN & HND) & Hcur).
  destruct (round_sane_inv _ _ _ _ Hs) as (mn & md & on & od & Em & Eo & Hmd & Hod & Hpos & Hax & _).
  rewrite EN in Em. injection Em as <- <-.
  assert ((D <=? N) = true) as Hge by lia. rewrite Hge in Hax.
  destruct (round_axes_ns _ _ _ _ _ _ _ Hr Hl Hax Hc) as (-> & _).
  destruct (round_axes_ns_mono _ _ _ _ _ _ Hr Hl Hax Hc HF) as (Hle & Heq).
  destruct (Z.eq_dec (sum_med xs) (sum_med (ls_axes st))) as [E|E]; [exfalso|lia].
  rewrite (Heq E), Z.mul_1_r, Hcur in Hm. injection Hm as <-.
  rewrite EN in Hne. cbn [f_ne] in Hne. rewrite Z.eqb_refl in Hne. discriminate.
Qed.

Lemma round_axes_no_autos reduce cs : forall a o xs,
  length cs = length xs -> n_autos xs = 0%nat -> round_axes reduce cs a o xs = (xs, false, 1).
Proof.
  induction cs as [|c cs IH]; intros a o [|x xs] Hl Hn; cbn in Hl; try lia; [reflexivity|].
  rewrite n_autos_cons in Hn. cbn [round_axes]. destruct (ax_auto x); [lia|].
  rewrite IH by lia. reflexivity.
Qed.

(* ---------------------------------------------------------------------- *)
(* (c2) the main induction *)

Lemma sane_loop_step f reduce limit itemsize cs orc r st :
  sane_loop (S f) reduce limit itemsize cs orc r st = true ->
  round_sane limit itemsize (orc r) st = true /\
  forall st', prev_round reduce limit itemsize cs (orc r) st = Ok (st', true) ->
              sane_loop f reduce limit itemsize cs orc (S r) st' = true.
Proof.
  cbn [sane_loop]. intros H. apply andb_true_iff in H as [H1 H2]. split; [exact H1|].
  intros st' Hr. rewrite Hr in H2. exact H2.
Qed.

(* with `autos` empty the loop ends within two passes *)
Lemma no_autos_terminates f limit itemsize cs orc r st :
  length cs = length (ls_axes st) -> n_autos (ls_axes st) = 0%nat ->
  sane_loop (S (S f)) true limit itemsize cs orc r st = true ->
  prev_loop (S (S f)) true limit itemsize cs orc r st <> LFuel.
Proof.
  intros Hl Hn Hs. destruct (sane_loop_step _ _ _ _ _ _ _ _ Hs) as [_ Hnext].
  cbn [prev_loop].
  destruct (prev_round true limit itemsize cs (orc r) st) as [[st1 [|]]|] eqn:Hr; try discriminate.
  specialize (Hnext _ eq_refl).
  destruct (prev_round_reduce _ _ _ _ _ _ _ Hr) as (xs & fl & k & m2 & Hra & Hm & -> & _).
  rewrite round_axes_no_autos in Hra by assumption. injection Hra as <- <- <-.
  destruct (sane_loop_step _ _ _ _ _ _ _ _ Hnext) as [Hs1 _].
  destruct (round_sane_inv _ _ _ _ Hs1) as (mn & md & _ & _ & Em & _). cbn [ls_mult] in Em. subst m2.
  unfold prev_round. cbn [ls_axes ls_lb ls_mult].
  rewrite round_axes_no_autos by assumption. cbn [orb].
  rewrite Z.mul_1_r, Hm. cbn [f_ne]. rewrite Z.eqb_refl. cbn [negb]. discriminate.
Qed.

Lemma prev_loop_sane_aux limit itemsize cs orc S0 :
  Forall consts_ok cs ->
  forall fuel,
    (forall r st,
        length cs = length (ls_axes st) -> sum_n cs (ls_axes st) <= S0 ->
        sane_loop fuel true limit itemsize cs orc r st = true ->
        Z.of_nat (n_autos (ls_axes st)) * (S0 + 3) + S0 + 3 <= Z.of_nat fuel ->
        prev_loop fuel true limit itemsize cs orc r st <> LFuel) /\
    (forall r st,
        length cs = length (ls_axes st) -> sum_n cs (ls_axes st) <= S0 ->
        sane_loop fuel true limit itemsize cs orc r st = true ->
        settled limit itemsize cs st ->
        Z.of_nat (n_autos (ls_axes st)) * (S0 + 3) + (sum_n cs (ls_axes st) - sum_med (ls_axes st)) + 2 <= Z.of_nat fuel ->
        prev_loop fuel true limit itemsize cs orc r st <> LFuel).
Proof.
  intros Hc. induction fuel as [|f [IH1 IH2]].
  - split.
    + intros r st Hl HS Hs Hb. pose proof (sum_n_nonneg cs (ls_axes st)). nia.
    + intros r st Hl HS Hs Hset Hb. destruct Hset as (HF & _). pose proof (sum_med_le_sum_n _ _ HF).
      pose proof (sum_n_nonneg cs (ls_axes st)). nia.
  - (* common part of both cases *)
    assert (forall r st,
        length cs = length (ls_axes st) -> sum_n cs (ls_axes st) <= S0 ->
        sane_loop (S f) true limit itemsize cs orc r st = true ->
        (Z.of_nat (n_autos (ls_axes st)) * (S0 + 3) + S0 + 3 <= Z.of_nat (S f) \/
         (settled limit itemsize cs st /\
          Z.of_nat (n_autos (ls_axes st)) * (S0 + 3) + (sum_n cs (ls_axes st) - sum_med (ls_axes st)) + 2
          <= Z.of_nat (S f))) ->
        prev_loop (S f) true limit itemsize cs orc r st <> LFuel) as Hstep.
    { intros r st Hl HS Hs Hb.
      pose proof (sum_n_nonneg cs (ls_axes st)) as Hsn0.
      assert (0 <= sum_n cs (ls_axes st) - sum_med (ls_axes st) \/ ~ settled limit itemsize cs st) as Hgap.
      { destruct Hb as [_|[(HF & _) _]]; [|left; pose proof (sum_med_le_sum_n _ _ HF); lia].
        destruct (Z_le_gt_dec 0 (sum_n cs (ls_axes st) - sum_med (ls_axes st))); [left; assumption|].
        right. intros (HF & _). pose proof (sum_med_le_sum_n _ _ HF). lia. }
      destruct (Nat.eq_dec (n_autos (ls_axes st)) 0) as [Hz|Hnz].
      { (* `autos` is empty *)
        destruct f as [|f'].
        - exfalso. destruct Hb as [Hb|[Hset Hb]]; [nia|].
          destruct Hset as (HF & _). pose proof (sum_med_le_sum_n _ _ HF). nia.
        - apply no_autos_terminates; assumption. }
      destruct (sane_loop_step _ _ _ _ _ _ _ _ Hs) as [Hs1 Hnext].
      cbn [prev_loop].
      destruct (prev_round true limit itemsize cs (orc r) st) as [[st1 [|]]|] eqn:Hr; try discriminate.
      specialize (Hnext _ eq_refl).
      destruct (prev_round_reduce _ _ _ _ _ _ _ Hr) as (xs & fl & k & m2 & Hra & Hm & -> & Hb2).
      pose proof (round_axes_length _ _ _ _ _ _ _ _ Hra Hl) as Hlen.
      pose proof (round_axes_sum_n _ _ _ _ _ _ _ _ Hra Hl) as Hsum.
      destruct (round_axes_autos _ _ _ _ _ _ _ _ Hra Hl) as (A1 & A2 & A3).
      destruct fl.
      - (* an axis left `autos` *)
        specialize (A2 eq_refl).
        apply IH1; cbn [ls_axes]; [lia|lia|exact Hnext|].
        destruct Hb as [Hb|[Hset Hb]].
        + nia.
        + destruct Hgap as [Hgap|Hgap]; [nia|contradiction].
      - (* nothing left `autos`: the state settles / an entry grows *)
        destruct (A3 eq_refl) as [-> E].
        pose proof (n_autos_map _ _ E) as En. pose proof (sum_n_map cs _ _ E) as Esn.
        assert (settled limit itemsize cs (mkls xs (ls_lb st * 1) m2)) as Hset'.
        { eapply settle; try eassumption. lia. }
        apply IH2; cbn [ls_axes]; [lia|lia|exact Hnext|exact Hset'|].
        rewrite En, Esn.
        destruct Hset' as (HF' & _). cbn [ls_axes] in HF'. pose proof (sum_med_le_sum_n _ _ HF') as Hm'.
        destruct Hb as [Hb|[Hset Hb]].
        + nia.
        + cbn [orb] in Hb2. symmetry in Hb2.
          pose proof (settled_progress _ _ _ _ _ _ _ _ Hra Hm Hb2 Hl Hc Hs1 Hset) as Hprog. lia. }
    split.
    + intros r st Hl HS Hs Hb. apply Hstep; auto.
    + intros r st Hl HS Hs Hset Hb. apply Hstep; auto.
Qed.

(* (c2) TERMINATION, shrinking case: if every pass the loop executes is sane, then
   (n_autos + 1) * (sum of the lengths of the 'auto' axes + 3) passes suffice *)
Theorem prev_loop_sane_terminates : forall fuel limit itemsize cs orc r st,
  Forall consts_ok cs -> length cs = length (ls_axes st) ->
  sane_loop fuel true limit itemsize cs orc r st = true ->
  reduce_fuel_bound cs (ls_axes st) <= Z.of_nat fuel ->
  prev_loop fuel true limit itemsize cs orc r st <> LFuel.
Proof.
  intros fuel limit itemsize cs orc r st Hc Hl Hs Hb.
  destruct (prev_loop_sane_aux limit itemsize cs orc (sum_n cs (ls_axes st)) Hc fuel) as [H1 _].
  apply H1; try assumption; [lia|]. unfold reduce_fuel_bound in Hb. lia.
Qed.

(* ---------------------------------------------------------------------- *)
(* at the level of normalize_chunks *)

Lemma prev_start_props limit itemsize specs shape prev reduce cs st0 :
  prev_start limit itemsize specs shape prev = Some (reduce, cs, st0) ->
  length cs = length (ls_axes st0) /\ Forall consts_ok cs /\
  (n_autos (ls_axes st0) <= length (filter is_auto (subst_all specs shape)))%nat.
Proof.
  unfold prev_start. fold (subst_all specs shape).
  destruct (Nat.eqb (length specs) (length shape)) eqn:El; cbn [negb]; [|discriminate].
  apply Nat.eqb_eq in El.
  destruct (count_autos (subst_all specs shape) =? 0); [discriminate|].
  destruct prev as [|p0 prev]; [discriminate|].
  destruct (conv_prev shape (p0 :: prev)) as [pvs|]; [|discriminate].
  unfold loop_start.
  destruct (initial_multiplier limit itemsize (subst_all specs shape) pvs) as [m|]; [|discriminate].
  destruct (ideals_of pvs shape) as [ids|] eqn:Hi; [|discriminate].
  intros H. injection H as <- <- <-. cbn [ls_axes].
  destruct (ideals_of_length _ _ _ Hi) as [Li Lp].
  pose proof (subst_all_length specs shape El) as Ls.
  split; [rewrite mk_consts_length, init_axes_length; lia|].
  split; [eapply mk_consts_ok; exact Hi|apply init_axes_autos].
Qed.

Lemma normalize_prev_fuel_inv orc fuel limit itemsize specs shape prev :
  normalize_chunks_prev orc fuel limit itemsize specs shape prev = PFuel ->
  exists reduce cs st0,
    prev_start limit itemsize specs shape prev = Some (reduce, cs, st0) /\
    prev_loop fuel reduce (Z.max 1 limit) itemsize cs orc 0 st0 = LFuel.
Proof.
  unfold normalize_chunks_prev, prev_start. fold (subst_all specs shape).
  destruct (Nat.eqb (length specs) (length shape)); cbn [negb]; [|discriminate].
  destruct (count_autos (subst_all specs shape) =? 0).
  { destruct (normalize_tail (subst_all specs shape) shape); discriminate. }
  destruct prev as [|p0 prev]; [discriminate|].
  destruct (conv_prev shape (p0 :: prev)) as [pvs|]; [|discriminate].
  unfold auto_chunks_prev.
  destruct (loop_start limit itemsize (subst_all specs shape) shape pvs) as [[[reduce cs] st0]|]; [|discriminate].
  destruct (prev_loop fuel reduce (Z.max 1 limit) itemsize cs orc 0 st0) as [st| |] eqn:Hl.
  - destruct (final_specs reduce (subst_all specs shape) (ls_axes st)) as [s|]; [|discriminate].
    destruct (normalize_tail s shape); discriminate.
  - discriminate.
  - intros _. exists reduce, cs, st0. auto.
Qed.

(* (c) TERMINATION of normalize_chunks(..., previous_chunks=...):
   - the loop is not reached, or
   - multiplier >= 1 initially: #autos + 1 passes suffice for ALL oracle values, or
   - multiplier < 1 initially and every executed pass is sane: reduce_fuel_bound passes suffice *)
Theorem normalize_prev_terminates : forall orc fuel limit itemsize specs shape prev,
  match prev_start limit itemsize specs shape prev with
  | None => True
  | Some (false, cs, st0) => (n_autos (ls_axes st0) < fuel)%nat
  | Some (true, cs, st0) => prev_sane orc fuel limit itemsize specs shape prev = true /\
                            reduce_fuel_bound cs (ls_axes st0) <= Z.of_nat fuel
  end ->
  normalize_chunks_prev orc fuel limit itemsize specs shape prev <> PFuel.
Proof.
  intros orc fuel limit itemsize specs shape prev H HF.
  destruct (normalize_prev_fuel_inv _ _ _ _ _ _ _ HF) as (reduce & cs & st0 & Hst & Hl).
  unfold prev_sane in H. rewrite Hst in H.
  destruct (prev_start_props _ _ _ _ _ _ _ _ Hst) as (Hlen & Hc & _).
  destruct reduce.
  - destruct H as [Hs Hb]. revert Hl. apply prev_loop_sane_terminates; assumption.
  - revert Hl. apply prev_loop_grow_terminates; assumption.
Qed.

Corollary normalize_prev_grow_terminates : forall orc fuel limit itemsize specs shape prev cs st0,
  prev_start limit itemsize specs shape prev = Some (false, cs, st0) ->
  (length (filter is_auto (subst_all specs shape)) < fuel)%nat ->
  normalize_chunks_prev orc fuel limit itemsize specs shape prev <> PFuel.
Proof.
  intros orc fuel limit itemsize specs shape prev cs st0 Hst Hf.
  apply normalize_prev_terminates. rewrite Hst.
  destruct (prev_start_props _ _ _ _ _ _ _ _ Hst) as (_ & _ & Hn). lia.
Qed.

(* ---------------------------------------------------------------------- *)
(* (c, refuted) the known hang: a negative explicit entry next to two 'auto' axes *)

Lemma prev_loop_nan_fuel : forall fuel limit itemsize cs orc r st,
  (forall r' a, orc r' a = (FNan, FNan)) ->
  length cs = length (ls_axes st) -> (0 < n_autos (ls_axes st))%nat ->
  itemsize <> 0 -> ls_lb st <> 0 ->
  prev_loop fuel true limit itemsize cs orc r st = LFuel.
Proof.
  induction fuel as [|f IH]; intros limit itemsize cs orc r st Ho Hl Hn Hi Hlb; [reflexivity|].
  cbn [prev_loop]. unfold prev_round.
  destruct (round_axes true cs 0 (orc r) (ls_axes st)) as [[xs fl] k] eqn:Hr.
  destruct (round_axes_nan _ _ _ _ _ _ _ (Ho r) Hr Hl) as (-> & -> & E & Hnan).
  pose proof (round_axes_length _ _ _ _ _ _ _ _ Hr Hl) as Hlen.
  cbn [orb].
  assert (med_prod (map ax_med xs) = FNan) as Hp.
  { apply med_prod_nan. pose proof (n_autos_map _ _ E) as En.
    destruct (n_autos_pos_In xs ltac:(lia)) as (x & Hin & Hx). exists x. auto. }
  unfold compute_multiplier. rewrite Hp.
  destruct ((itemsize =? 0) || (ls_lb st * 1 =? 0)) eqn:Ez; [lia|].
  cbn [f_ne orb]. apply IH; cbn [ls_axes ls_lb]; [exact Ho|lia| |exact Hi|lia].
  rewrite (n_autos_map _ _ E). exact Hn.
Qed.

Lemma normalize_prev_fuel_intro orc fuel limit itemsize specs shape prev reduce cs st0 :
  prev_start limit itemsize specs shape prev = Some (reduce, cs, st0) ->
  prev_loop fuel reduce (Z.max 1 limit) itemsize cs orc 0 st0 = LFuel ->
  normalize_chunks_prev orc fuel limit itemsize specs shape prev = PFuel.
Proof.
  unfold normalize_chunks_prev, prev_start. fold (subst_all specs shape).
  destruct (Nat.eqb (length specs) (length shape)); cbn [negb]; [|discriminate].
  destruct (count_autos (subst_all specs shape) =? 0); [discriminate|].
  destruct prev as [|p0 prev]; [discriminate|].
  destruct (conv_prev shape (p0 :: prev)) as [pvs|]; [|discriminate].
  unfold auto_chunks_prev.
  destruct (loop_start limit itemsize (subst_all specs shape) shape pvs) as [[[reduce' cs'] st0']|]; [|discriminate].
  intros H. injection H as -> -> ->. intros ->. reflexivity.
Qed.

(* normalize_chunks((-2,'auto','auto'), (5,5,2), limit=128MiB, dtype='i4',
                    previous_chunks=((1,1,1,1,1),(5,),(2,))):
   largest_block = -2, multiplier = -1677721.6 < 1 (so result IS median_chunks), multiplier ** (1/2) is NaN,
   every proposal is NaN: no amount of fuel lets the model's loop finish *)
Theorem normalize_prev_negative_entry_never_returns : forall fuel,
  normalize_chunks_prev (fun _ _ => (FNan, FNan)) fuel 134217728 4
    [AInt (-2); AAuto; AAuto] [5; 5; 2] [[1; 1; 1; 1; 1]; [5]; [2]] = PFuel.
Proof.
  intros fuel.
  assert (exists cs st0,
    prev_start 134217728 4 [AInt (-2); AAuto; AAuto] [5; 5; 2] [[1; 1; 1; 1; 1]; [5]; [2]] = Some (true, cs, st0) /\
    length cs = length (ls_axes st0) /\ n_autos (ls_axes st0) = 2%nat /\ ls_lb st0 = -2)
    as (cs & st0 & Hst & Hl & Hn & Hlb).
  { eexists _, _. split; [vm_compute; reflexivity|]. vm_compute. auto. }
  eapply normalize_prev_fuel_intro; [exact Hst|].
  apply prev_loop_nan_fuel; try assumption; try lia. reflexivity.
Qed.
