(* L1 — models of dask_array/slicing/_utils.py and slicing/_basic.py helpers.
   Definitions only; each definition names the Python it transcribes. *)
From DA Require Export PyBase.
Open Scope Z_scope.

(* ---------------------------------------------------------------------- *)
(* normalize_slice(idx, dim)   [slicing/_utils.py]  (dim known, idx a slice) *)
Definition normalize_slice (s : pslice) (dim : Z) : pslice :=
  let '(start, stop, step) := indices s dim in
  if step >? 0 then
    let start' := if start =? 0 then None else Some start in
    let stop' := if stop >=? dim then None else Some stop in
    let step' := if step =? 1 then None else Some step in
    let stop'' := match stop', start' with
                  | Some b, Some a => if b <? a then Some a else Some b
                  | _, _ => stop'
                  end in
    mkslice start' stop'' step'
  else if step <? 0 then
    if start >=? dim - 1 then
      mkslice None (if stop <? 0 then None else Some stop) (Some step)
    else if start <? 0 then mkslice (Some 0) (Some 0) (Some step)
    else mkslice (Some start) (if stop <? 0 then None else Some stop) (Some step)
  else mkslice (Some start) (Some stop) (Some step).

(* posify_index(shape, ind) for an integer *)
Definition posify_int (n ind : Z) : Z := if ind <? 0 then ind + n else ind.

(* check_index for an integer: true = accepted *)
Definition check_int (n ind : Z) : bool := negb ((ind >=? n) || (ind <? - n)).

(* ---------------------------------------------------------------------- *)
(* _normalize_slice_for_fusion(s): None = raises NotImplementedError *)
Definition normalize_slice_for_fusion (s : pslice) : option (Z * option Z * Z) :=
  let start := match s_start s with None => 0 | Some a => a end in
  let step := match s_step s with None => 1 | Some k => k end in
  if (start <? 0) || (step <? 0) || (match s_stop s with Some b => b <? 0 | None => false end)
  then None
  else Some (start, s_stop s, step).

(* fuse_slice(a, b) for a, b both slices *)
Definition fuse_slice_ss (a b : pslice) : option pslice :=
  match normalize_slice_for_fusion a, normalize_slice_for_fusion b with
  | Some (astart, astop, astep), Some (bstart, bstop, bstep) =>
      let start := astart + astep * bstart in
      let stop := match bstop with Some bs => Some (astart + astep * bs) | None => None end in
      let stop := match astop with
                  | Some as_ => match stop with Some st => Some (Z.min as_ st) | None => Some as_ end
                  | None => stop
                  end in
      let step := astep * bstep in
      Some (mkslice (Some start) stop (if step =? 1 then None else Some step))
  | _, _ => None
  end.

(* fuse_slice(a, b) for a slice, b an integer *)
Definition fuse_slice_si (a : pslice) (b : Z) : option Z :=
  match normalize_slice_for_fusion a with
  | Some (astart, _, astep) => if b <? 0 then None else Some (astart + b * astep)
  | None => None
  end.

(* One element of a basic index tuple. *)
Inductive pidx := IInt (i : Z) | ISlice (s : pslice) | INone.

Definition pidx_eqb (a b : pidx) : bool :=
  match a, b with
  | IInt x, IInt y => x =? y
  | ISlice s, ISlice t => pslice_eqb s t
  | INone, INone => true
  | _, _ => false
  end.

(* fuse_slice on two single (non-tuple) elements; None = NotImplementedError *)
Definition fuse_elem (a b : pidx) : option pidx :=
  match a, b with
  | INone, ISlice s => if pslice_eqb s colon then Some INone else None
  | ISlice s, IInt i => option_map IInt (fuse_slice_si s i)
  | ISlice s, ISlice t => option_map ISlice (fuse_slice_ss s t)
  | _, _ => None
  end.

(* fuse_slice(a, b) for two tuples: the index-walking loop.
   [fuse_tuple a b] follows the Python loop variable by variable: i walks a,
   j walks b (as the remaining suffix). *)
Fixpoint skip_nones (b : list pidx) (fuel : nat) : list pidx * list pidx :=
  (* returns (Nones emitted, remaining b); Python: while b[j] is None — raises
     IndexError if b runs out, modelled by the caller *)
  match fuel with
  | O => ([], b)
  | S f => match b with
           | INone :: t => let '(ns, r) := skip_nones t f in (INone :: ns, r)
           | _ => ([], b)
           end
  end.

Fixpoint fuse_tuple (a b : list pidx) : option (list pidx) :=
  match a with
  | [] => Some b                           (* leftover on the right *)
  | ai :: a' =>
      match ai with
      | IInt _ => option_map (cons ai) (fuse_tuple a' b)
      | _ =>
          match b with
          | [] => option_map (cons ai) (fuse_tuple a' b)      (* j == len(b) *)
          | _ =>
              let '(ns, r) := skip_nones b (length b) in
              match r with
              | [] => None                                      (* IndexError in Python *)
              | bj :: r' =>
                  match fuse_elem ai bj, fuse_tuple a' r' with
                  | Some c, Some rest => Some (ns ++ c :: rest)
                  | _, _ => None
                  end
              end
          end
      end
  end.

(* ---------------------------------------------------------------------- *)
(* _compose_slices(outer, inner, dim_size)   [slicing/_basic.py] *)
Definition compose_slices (outer inner : pslice) (dim : Z) : pslice :=
  let '(ostart, ostop, ostep) := indices outer dim in
  let olen := range_len ostart ostop ostep in
  let '(istart, istop, istep) := indices inner olen in
  if negb (ostep =? 1) || negb (istep =? 1) then
    let nstep := ostep * istep in
    mkslice (Some (ostart + istart * ostep)) (Some (ostart + istop * ostep))
            (if nstep =? 1 then None else Some nstep)
  else
    mkslice (Some (ostart + istart)) (Some (ostart + istop)) None.

(* ---------------------------------------------------------------------- *)
(* _slice_1d(dim_shape, lengths, index)  → list of (blocknum, local index),
   in dict insertion order.  *)
Inductive ploc := LInt (i : Z) | LSlice (s : pslice).

Definition ploc_eqb (a b : ploc) : bool :=
  match a, b with
  | LInt x, LInt y => x =? y
  | LSlice s, LSlice t => pslice_eqb s t
  | _, _ => false
  end.

Fixpoint s1d_pos (i : Z) (ls : list Z) (start stop step : Z) : list (Z * pslice) :=
  match ls with
  | [] => []
  | len :: t =>
      if (start <? len) && (stop >? 0) then
        (i, mkslice (Some start) (Some (Z.min stop len)) (Some step))
          :: s1d_pos (i + 1) t ((start - len) mod step) (stop - len) step
      else s1d_pos (i + 1) t (start - len) (stop - len) step
  end.

(* negative step: walk blocks i = istart, istart-1, ..., istop+1.
   [blocks] is the list of (i, chunk_start, chunk_stop) in that visiting order. *)
Fixpoint s1d_neg (blocks : list (Z * Z * Z)) (rstart stop step : Z) : list (Z * pslice) :=
  match blocks with
  | [] => []
  | (i, cstart, cstop) :: t =>
      if (cstart <=? rstart) && (rstart <? cstop) && (rstart >? stop) then
        (i, mkslice (Some (rstart - cstop))
                    (Some (Z.max (cstart - cstop - 1) (stop - cstop)))
                    (Some step))
          :: s1d_neg t (cstart + ((rstart - (cstart - 1)) mod step) - 1) stop step
      else s1d_neg t rstart stop step
  end.

(* (i, chunk_start, chunk_stop) for every block, ascending *)
Fixpoint block_bounds_from (i off : Z) (ls : list Z) : list (Z * Z * Z) :=
  match ls with
  | [] => []
  | len :: t => (i, off, off + len) :: block_bounds_from (i + 1) (off + len) t
  end.
Definition block_bounds (ls : list Z) := block_bounds_from 0 0 ls.

(* range(istart, istop, -1) as a selection of block_bounds *)
Definition blocks_desc (ls : list Z) (istart istop : Z) : list (Z * Z * Z) :=
  rev (filter (fun b => let '(i, _, _) := b in (istop <? i) && (i <=? istart)) (block_bounds ls)).

Definition firstnZ {A} (n : Z) (l : list A) := firstn (Z.to_nat n) l.
Definition skipnZ {A} (n : Z) (l : list A) := skipn (Z.to_nat n) l.
Definition lenZ {A} (l : list A) : Z := Z.of_nat (length l).

Definition colonize (lengths : list Z) (e : Z * pslice) : Z * ploc :=
  let '(k, v) := e in
  if pslice_eqb v (mkslice (Some 0) (Some (nthZ lengths k)) (Some 1))
  then (k, LSlice colon) else (k, LSlice v).

Fixpoint all_colon_from (i : Z) (ls : list Z) : list (Z * ploc) :=
  match ls with
  | [] => []
  | _ :: t => (i, LSlice colon) :: all_colon_from (i + 1) t
  end.

Definition slice_1d_slice (dim : Z) (lengths : list Z) (index : pslice) : list (Z * ploc) :=
  if pslice_eqb index colon then all_colon_from 0 lengths
  else
    let bnd := cumsum lengths in
    (* Python: step = index.step or 1  (0 is falsy too) *)
    let step := match s_step index with None => 1 | Some k => if k =? 0 then 1 else k end in
    let '(start, stop) :=
      if step >? 0 then
        (match s_start index with None => 0 | Some a => a end,   (* `or 0` *)
         match s_stop index with None => dim | Some b => b end)
      else
        (let st := match s_start index with None => dim - 1 | Some a => a end in
         if st >=? dim then dim - 1 else st,
         match s_stop index with None => - (dim + 1) | Some b => b end) in
    let start := if start <? 0 then start + dim else start in
    let stop := if stop <? 0 then stop + dim else stop in
    let d :=
      if step >? 0 then
        let istart := bisect_right bnd start in
        let istop := Z.min (bisect_left bnd stop + 1) (lenZ lengths) in
        let shift := if istart >? 0 then nthZ bnd (istart - 1) else 0 in
        s1d_pos istart (firstnZ (istop - istart) (skipnZ istart lengths))
                (start - shift) (stop - shift) step
      else
        let istart := Z.min (bisect_right bnd start + 1) (lenZ bnd - 1) in
        let istop := Z.max (bisect_right bnd stop - 1) (-1) in
        s1d_neg (blocks_desc lengths istart istop) start stop step in
    match d with
    | [] => [(0, LSlice (mkslice (Some 0) (Some 0) (Some 1)))]
    | _ => map (colonize lengths) d
    end.

Definition slice_1d_int (lengths : list Z) (index : Z) : list (Z * ploc) :=
  let bnd := cumsum lengths in
  let i := bisect_right bnd index in
  let ind := if i >? 0 then index - nthZ bnd (i - 1) else index in
  [(i, LInt ind)].

(* sorted(d.items()) — insertion sort by block number *)
Fixpoint insert_by_key {A} (e : Z * A) (l : list (Z * A)) : list (Z * A) :=
  match l with
  | [] => [e]
  | h :: t => if fst e <=? fst h then e :: l else h :: insert_by_key e t
  end.
Fixpoint sort_by_key {A} (l : list (Z * A)) : list (Z * A) :=
  match l with [] => [] | h :: t => insert_by_key h (sort_by_key t) end.

(* ceil((stop - start) / step) as new_blockdim computes it (exact arithmetic) *)
Definition ceil_div (a b : Z) : Z := - ((- a) / b).

Definition piece_len (lengths : list Z) (e : Z * ploc) : Z :=
  match e with
  | (i, LSlice s) =>
      let s := if pslice_eqb s colon then mkslice (Some 0) (Some (nthZ lengths i)) (Some 1) else s in
      match s_start s, s_stop s, s_step s with
      | Some a, Some b, Some k => ceil_div (b - a) k
      | _, _, _ => 0
      end
  | (_, LInt _) => 0
  end.

(* new_blockdim(dim_shape, lengths, index) for a slice index *)
Definition new_blockdim (dim : Z) (lengths : list Z) (index : pslice) : list Z :=
  if pslice_eqb index colon then lengths
  else
    let pairs := sort_by_key (slice_1d_slice dim lengths index) in
    let lens := map (piece_len lengths) pairs in
    match s_step index with
    | Some k => if k <? 0 then rev lens else lens
    | None => lens
    end.

(* ---------------------------------------------------------------------- *)
(* _compute_sliced_chunks(chunks, slc, dim_size)   [slicing/_basic.py] *)
Fixpoint overlap_chunks (pos : Z) (chunks : list Z) (start stop : Z) : list Z :=
  match chunks with
  | [] => []
  | c :: t =>
      let cs := pos in let ce := pos + c in
      if ce <=? start then overlap_chunks ce t start stop
      else if cs >=? stop then []
      else (Z.min ce stop - Z.max cs start) :: overlap_chunks ce t start stop
  end.

Definition compute_sliced_chunks (chunks : list Z) (slc : pslice) (dim : Z) : list Z :=
  if pslice_eqb slc colon then chunks
  else
    let '(start, stop, step) := indices slc dim in
    if step =? -1 then
      if (start =? dim - 1) && (stop =? -1) then rev chunks
      else [range_len start stop step]
    else if negb (step =? 1) then [range_len start stop step]
    else if start >=? stop then [0]
    else match overlap_chunks 0 chunks start stop with
         | [] => [0]
         | r => r
         end.

(* SliceSlicesIntegers._slice_chunks(chunks, start, length) *)
Fixpoint slice_chunks_loop (cum : Z) (chunks : list Z) (start length : Z) : list Z :=
  match chunks with
  | [] => []
  | c :: t =>
      let cs := cum in let ce := cum + c in
      if ce <=? start then slice_chunks_loop ce t start length
      else if cs >=? start + length then []
      else
        let sz := Z.min (start + length) ce - Z.max start cs in
        if sz >? 0 then sz :: slice_chunks_loop ce t start length
        else slice_chunks_loop ce t start length
  end.
Definition slice_chunks (chunks : list Z) (start length : Z) : list Z :=
  match slice_chunks_loop 0 chunks start length with [] => [0] | r => r end.

(* ---------------------------------------------------------------------- *)
(* Specification-side helpers: the absolute positions a plan selects. *)
Definition abs_positions (lengths : list Z) (e : Z * ploc) : list Z :=
  let '(i, loc) := e in
  let off := zsum (firstnZ i lengths) in
  let len := nthZ lengths i in
  match loc with
  | LInt k => [off + k]
  | LSlice s => map (fun p => off + p) (sel s len)
  end.

(* plan in output order: insertion order of _slice_1d is already output order
   (ascending for positive steps, descending blocks for negative steps). *)
Definition plan_positions (lengths : list Z) (plan : list (Z * ploc)) : list Z :=
  concat (map (abs_positions lengths) plan).
