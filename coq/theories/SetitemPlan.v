(* SetitemPlan.v — the PER-BLOCK PLAN of an assignment `x[index] = value` (C11): definitions only.

   Anchors in /repo:
     dask_array/slicing/_utils.py    normalize_index (check_index, normalize_slice, posify_index),
                                     parse_assignment_indices, setitem (the block kernel)
     dask_array/slicing/_setitem.py  parse_and_validate_assignment, setitem_array_expr

   Index entries: integers, slices, one 1-D integer list (boolean / dask-array indices are not modelled).
   `parse` is None exactly where Array.__setitem__ raises (at assignment time); `block_plan` gives, for one
   block of the target, what setitem_array_expr puts in the graph: an Alias (BUntouched), a Task calling the
   kernel `setitem(block, value[value_indices], block_indices)` (BTouched), or BCrash where the graph
   construction itself raises (it did before the repairs ce7c1de / ed2da03 of /repo: integer index before a list or a
   reversed slice, value with extra leading 1-dimensions; on the repaired code the harness never observes it).  *)
From Coq Require Import List Bool ZArith Lia.
From DA Require Import PyBase Slicing.
Import ListNotations.
Open Scope Z_scope.

(* one entry of an index tuple, as the user (or the kernel, or the value getitem) writes it *)
Inductive sidx := SInt (i : Z) | SSlice (s : pslice) | SList (l : list Z).

Definition sidx_eqb (a b : sidx) : bool :=
  match a, b with
  | SInt x, SInt y => x =? y
  | SSlice s, SSlice t => pslice_eqb s t
  | SList l, SList m => zlist_eqb l m
  | _, _ => false
  end.

(* one entry of `parsed_indices` (parse_assignment_indices): every slice has three ints, step > 0 *)
Inductive pidx1 := PInt (i : Z) | PSl (start stop step : Z) | PLst (l : list Z).

Definition pidx1_eqb (a b : pidx1) : bool :=
  match a, b with
  | PInt x, PInt y => x =? y
  | PSl a1 a2 a3, PSl b1 b2 b3 => (a1 =? b1) && (a2 =? b2) && (a3 =? b3)
  | PLst l, PLst m => zlist_eqb l m
  | _, _ => false
  end.

(* ---- normalize_index (no None / Ellipsis entries): pad with slice(None), check_index, sanitize,
        normalize_slice, posify_index.  None = IndexError ("Too many indices", out of bounds) or the
        ValueError of slice.indices for a zero step ---- *)
Definition norm_entry (e : sidx) (d : Z) : option sidx :=
  match e with
  | SInt i => if check_int d i then Some (SInt (posify_int d i)) else None
  | SSlice s => if step_of s =? 0 then None else Some (SSlice (normalize_slice s d))
  | SList l => if forallb (check_int d) l then Some (SList (map (posify_int d) l)) else None
  end.

Fixpoint norm_entries (idx : list sidx) (shape : list Z) : option (list sidx) :=
  match idx, shape with
  | [], [] => Some []
  | [], d :: shape' =>                     (* idx + (slice(None),) * (len(shape) - n_sliced_dims) *)
      match norm_entry (SSlice colon) d, norm_entries [] shape' with
      | Some e, Some r => Some (e :: r) | _, _ => None end
  | _ :: _, [] => None                     (* IndexError("Too many indices for array") *)
  | e :: idx', d :: shape' =>
      match norm_entry e d, norm_entries idx' shape' with
      | Some e', Some r => Some (e' :: r) | _, _ => None end
  end.

(* ---- parse_assignment_indices ---- *)
Definition ceil_divmod (a b : Z) : Z := if a mod b =? 0 then a / b else a / b + 1.

(* the slice branch for one axis: (parsed index, implied size, contributes a position?, reversed?) *)
Definition pai_slice (s : pslice) (size : Z) : pidx1 * Z * bool * bool :=
  let '(start, stop, step) := indices s size in
  let index := mkslice (Some start) (if (step <? 0) && (stop =? -1) then None else Some stop) (Some step) in
  let '(istart, istop, istep, rev) :=
    if step <? 0 then
      let '(start, stop, step) := indices index size in
      let step := step * -1 in
      let div := (start - stop - 1) / step in
      let div_step := div * step in
      let start := start - div_step in
      let stop := start + div_step + 1 in
      (start, stop, step, true)
    else (start, stop, step, false) in
  let '(start, stop, step) := indices (mkslice (Some istart) (Some istop) (Some istep)) size in
  let div := (stop - start) / step in
  let md := (stop - start) mod step in
  if (div =? 0) && (md =? 0) then (PSl istart istop istep, 0, false, rev)
  else (PSl istart istop istep, (if md =? 0 then div else div + 1), true, rev).

Record pai := { pa_idx : list pidx1; pa_implied : list Z; pa_reverse : list Z; pa_pos : list Z }.

(* the loop `for i, (index, size) in enumerate(zip(parsed_indices, shape))`; n_lists is threaded through;
   None = NotImplementedError (more than one 1-D array index) *)
Fixpoint pai_loop (i n_lists : Z) (idx : list sidx) (shape : list Z) : option pai :=
  match idx, shape with
  | e :: idx', size :: shape' =>
      match e with
      | SSlice s =>
          let '(p, m, has_pos, rev) := pai_slice s size in
          match pai_loop (i + 1) n_lists idx' shape' with
          | Some r => Some {| pa_idx := p :: pa_idx r; pa_implied := m :: pa_implied r;
                              pa_reverse := if rev then i :: pa_reverse r else pa_reverse r;
                              pa_pos := if has_pos then i :: pa_pos r else pa_pos r |}
          | None => None
          end
      | SInt k =>
          match pai_loop (i + 1) n_lists idx' shape' with
          | Some r => Some {| pa_idx := PInt k :: pa_idx r; pa_implied := pa_implied r;
                              pa_reverse := pa_reverse r; pa_pos := pa_pos r |}
          | None => None
          end
      | SList l =>
          if n_lists + 1 >? 1 then None else
          match pai_loop (i + 1) (n_lists + 1) idx' shape' with
          | Some r => Some {| pa_idx := PLst l :: pa_idx r; pa_implied := lenZ l :: pa_implied r;
                              pa_reverse := pa_reverse r; pa_pos := i :: pa_pos r |}
          | None => None
          end
      end
  | _, _ => Some {| pa_idx := []; pa_implied := []; pa_reverse := []; pa_pos := [] |}
  end.

Definition parse_assignment_indices (idx : list sidx) (shape : list Z) : option pai :=
  match norm_entries idx shape with
  | Some n => pai_loop 0 0 n shape
  | None => None
  end.

(* ---- parse_and_validate_assignment ---- *)
Record parsed := {
  p_idx : list pidx1;          (* indices *)
  p_reverse : list Z;          (* reverse (relative to the common shape) *)
  p_offset : Z;
  p_value_offset : Z;
  p_vcommon : list Z;          (* value_common_shape *)
  p_base : list bool;          (* base_value_indices: true = slice(None) (broadcast), false = None (to be filled per block) *)
  p_nb : list Z }.             (* non_broadcast_dimensions *)

(* for i, (a, b, j) in enumerate(zip(array_common_shape, value_common_shape, implied_shape_positions)) *)
Fixpoint base_loop (i : Z) (acs vcs pos : list Z) : option (list bool * list Z) :=
  match acs, vcs, pos with
  | a :: acs', b :: vcs', _ :: pos' =>
      if b =? 1 then
        match base_loop (i + 1) acs' vcs' pos' with Some (bs, nb) => Some (true :: bs, nb) | None => None end
      else if a =? b then
        match base_loop (i + 1) acs' vcs' pos' with Some (bs, nb) => Some (false :: bs, i :: nb) | None => None end
      else None
  | _, _, _ => Some ([], [])
  end.

Definition zmax_list (l : list Z) : Z := fold_right Z.max 0 l.

(* implied_position[dim]: the number of non-integer indices before array dimension dim (integer indices drop their
   dimension from the implied shape) *)
Fixpoint implied_position (idx : list pidx1) (dim : Z) : Z :=
  match idx with
  | [] => 0
  | ix :: t => if dim <=? 0 then 0 else (match ix with PInt _ => 0 | _ => 1 end) + implied_position t (dim - 1)
  end.

Definition parse (idx : list sidx) (shape vshape : list Z) : option parsed :=
  match parse_assignment_indices idx shape with
  | None => None
  | Some pa =>
    let value_ndim := lenZ vshape in
    let implied := pa_implied pa in
    (* reverse = [implied_position[i] for i in reverse] *)
    let reverse := map (implied_position (pa_idx pa)) (pa_reverse pa) in
    if existsb (Z.eqb 0) implied && negb (lenZ vshape =? 0) && (zmax_list vshape >? 1) then None else
    let offset := lenZ implied - value_ndim in
    if offset >=? 0 then
      match base_loop 0 (skipnZ offset implied) vshape (pa_pos pa) with
      | None => None
      | Some (bs, nb) =>
        Some {| p_idx := pa_idx pa;
                p_reverse := map (fun i => i - offset) (filter (fun i => i >=? offset) reverse);
                p_offset := offset; p_value_offset := 0; p_vcommon := vshape; p_base := bs; p_nb := nb |}
      end
    else
      let value_offset := - offset in
      if negb (forallb (Z.eqb 1) (firstnZ value_offset vshape)) then None else
      match base_loop 0 implied (skipnZ value_offset vshape) (pa_pos pa) with
      | None => None
      | Some (bs, nb) =>
        Some {| p_idx := pa_idx pa; p_reverse := reverse; p_offset := 0; p_value_offset := value_offset;
                p_vcommon := skipnZ value_offset vshape; p_base := bs; p_nb := nb |}
      end
  end.

(* ---- setitem_array_expr: the body of `for in_key, locations in zip(in_keys, array_locations)` ---- *)

(* array_locations of one axis: [(s, s + dim) for s, dim in zip(cumsum(initial_zero), chunks)] *)
Fixpoint locs_from (off : Z) (cs : list Z) : list (Z * Z) :=
  match cs with [] => [] | c :: t => (off, off + c) :: locs_from (off + c) t end.
Definition locs (cs : list Z) : list (Z * Z) := locs_from 0 cs.

(* itertools.product (last axis fastest) *)
Fixpoint cprod {A} (ls : list (list A)) : list (list A) :=
  match ls with
  | [] => [[]]
  | l :: t => flat_map (fun x => map (cons x) (cprod t)) l
  end.

(* np.where((loc0 <= index) & (index < loc1))[0] *)
Fixpoint where_in (i : Z) (l : list Z) (loc0 loc1 : Z) : list Z :=
  match l with
  | [] => []
  | x :: t => if (loc0 <=? x) && (x <? loc1) then i :: where_in (i + 1) t loc0 loc1 else where_in (i + 1) t loc0 loc1
  end.

(* index[i] - loc0 for the i above *)
Fixpoint block_list (l : list Z) (loc0 loc1 : Z) : list Z :=
  match l with
  | [] => []
  | x :: t => if (loc0 <=? x) && (x <? loc1) then (x - loc0) :: block_list t loc0 loc1 else block_list t loc0 loc1
  end.

(* one iteration of `for dim, (index, (loc0, loc1)) in enumerate(zip(indices, locations))`:
   None = `overlaps = False; break`; otherwise (block_index, block_index_size, n_preceding) *)
(* (in block_loop below `dim` counts the NON-INTEGER indices met so far = len(block_indices_shape)) *)
Definition axis_block (index : pidx1) (loc0 loc1 : Z) : option (sidx * option Z * option Z) :=
  match index with
  | PSl istart istop istep =>
      let stop := loc1 - loc0 in
      let stop := if istop <? loc1 then stop - (loc1 - istop) else stop in
      let start := istart - loc0 in
      let start := if start <? 0 then start mod istep else start in
      if start >=? stop then None else
      let block_index_size := ceil_divmod (stop - start) istep in
      let '(pre0, pre1, _) := indices (mkslice (Some istart) (Some istop) (Some istep)) loc0 in
      let n_preceding := ceil_divmod (pre1 - pre0) istep in
      Some (SSlice (mkslice (Some start) (Some stop) (Some istep)), Some block_index_size, Some n_preceding)
  | PInt i =>
      if (loc0 <=? i) && (i <? loc1) then Some (SInt (i - loc0), None, None) else None
  | PLst l =>
      let b := block_list l loc0 loc1 in
      match b with [] => None | _ => Some (SList b, None, None) end
  end.

Record bloop := {
  bl_indices : list sidx;           (* block_indices *)
  bl_shape : list (option Z);       (* block_indices_shape (entries of non-integer axes only) *)
  bl_pre : list (option Z);         (* block_preceding_sizes (idem) *)
  bl_lst : option (Z * list Z * Z * Z) }.   (* dim_1d_int_index (= len(block_indices_shape): position in the implied
                                               shape), index_1d_int, loc0_loc1 *)

Fixpoint block_loop (dim : Z) (idx : list pidx1) (locations : list (Z * Z)) : option bloop :=
  match idx, locations with
  | index :: idx', (loc0, loc1) :: locations' =>
      match axis_block index loc0 loc1 with
      | None => None
      | Some (bi, sz, pre) =>
        match block_loop (match index with PInt _ => dim | _ => dim + 1 end) idx' locations' with
        | None => None
        | Some r =>
          Some {| bl_indices := bi :: bl_indices r;
                  bl_shape := match index with PInt _ => bl_shape r | _ => sz :: bl_shape r end;
                  bl_pre := match index with PInt _ => bl_pre r | _ => pre :: bl_pre r end;
                  (* the LAST 1-d integer index wins the variable; parse admits at most one *)
                  bl_lst := match bl_lst r with
                            | Some x => Some x
                            | None => match index with PLst l => Some (dim, l, loc0, loc1) | _ => None end
                            end |}
        end
      end
  | _, _ => Some {| bl_indices := []; bl_shape := []; bl_pre := []; bl_lst := None |}
  end.

Inductive bres :=
| BUntouched                                              (* Alias(out_key, in_key) *)
| BTouched (bi : list sidx) (vi : list sidx) (ell : bool) (* Task(setitem, block, value[(...,)? + vi], bi) *)
| BCrash.                                                 (* setitem_array_expr raises while building the graph *)

Definition onth {A} (l : list A) (i : Z) : option A := if i <? 0 then None else nth_error l (Z.to_nat i).

Fixpoint set_nthZ {A} (l : list A) (i : nat) (x : A) : list A :=
  match l, i with
  | [], _ => []
  | _ :: t, O => x :: t
  | y :: t, S j => y :: set_nthZ t j x
  end.

(* for i in non_broadcast_dimensions: ... ; None = an exception (IndexError / TypeError) *)
Fixpoint fill_values (nb : list Z) (offset value_offset : Z) (vshape : list Z) (b : bloop)
                     (vi : list (option sidx)) : option (list (option sidx)) :=
  match nb with
  | [] => Some vi
  | i :: nb' =>
      let j := i + offset in
      let is_lst := match bl_lst b with Some (d, _, _, _) => j =? d | None => false end in
      let entry :=
        if is_lst then
          match bl_lst b, onth vshape (i + value_offset) with
          | Some (_, l, loc0, loc1), Some _ => Some (SList (where_in 0 l loc0 loc1))
          | _, _ => None
          end
        else
          match onth (bl_pre b) j, onth (bl_shape b) j with
          | Some (Some start), Some (Some sz) => Some (SSlice (mkslice (Some start) (Some (start + sz)) None))
          | _, _ => None            (* IndexError, or None + None: TypeError *)
          end in
      match entry with
      | None => None
      | Some e =>
        if Nat.ltb (Z.to_nat i) (length vi) then fill_values nb' offset value_offset vshape b (set_nthZ vi (Z.to_nat i) (Some e))
        else None
      end
  end.

(* for i in reverse: ... *)
Fixpoint reverse_values (rev : list Z) (vcommon : list Z) (vi : list (option sidx)) : option (list (option sidx)) :=
  match rev with
  | [] => Some vi
  | i :: rev' =>
      match onth vcommon i, onth vi i with
      | Some size, Some (Some (SSlice s)) =>
          let '(start, stop, _) := indices s size in
          let size := size - 1 in
          let start := size - start in
          let stop := size - stop in
          reverse_values rev' vcommon
            (set_nthZ vi (Z.to_nat i) (Some (SSlice (mkslice (Some start) (if stop <? 0 then None else Some stop) (Some (-1))))))
      | _, _ => None     (* IndexError (tuple index out of range) / AttributeError (ndarray has no .indices) *)
      end
  end.

Fixpoint strip_opts {A} (l : list (option A)) : option (list A) :=
  match l with
  | [] => Some []
  | Some x :: t => match strip_opts t with Some r => Some (x :: r) | None => None end
  | None :: _ => None
  end.

(* value[tuple(value_indices)] must itself be a legal getitem: an integer array entry out of the bounds of its
   value dimension raises IndexError (can only happen on the mis-aligned inputs) *)
Fixpoint vi_in_bounds (vi : list sidx) (dims : list Z) : bool :=
  match vi, dims with
  | SList l :: vi', d :: dims' => forallb (fun x => x <? d) l && vi_in_bounds vi' dims'
  | _ :: vi', _ :: dims' => vi_in_bounds vi' dims'
  | _, _ => true
  end.

Definition block_plan (p : parsed) (vshape : list Z) (locations : list (Z * Z)) : bres :=
  match block_loop 0 (p_idx p) locations with
  | None => BUntouched
  | Some b =>
    let vi0 := map (fun bc : bool => if bc then Some (SSlice colon) else None) (p_base p) in
    match fill_values (p_nb p) (p_offset p) (p_value_offset p) vshape b vi0 with
    | None => BCrash
    | Some vi1 =>
      match reverse_values (p_reverse p) (p_vcommon p) vi1 with
      | None => BCrash
      | Some vi2 =>
        match strip_opts vi2 with
        | None => BCrash
        | Some vi =>
          let ell := lenZ vshape >? lenZ vi in      (* `if value_ndim > len(value_indices)`: insert Ellipsis *)
          (* without the Ellipsis the entries address the LEADING dimensions of value *)
          if vi_in_bounds vi (if ell then p_vcommon p else vshape) then BTouched (bl_indices b) vi ell else BCrash
        end
      end
    end
  end.

(* the whole layer: one entry per output key, in the order of the keys *)
Definition plan (chunks : list (list Z)) (idx : list sidx) (vshape : list Z) : option (list bres) :=
  match parse idx (map zsum chunks) vshape with
  | None => None
  | Some p => Some (map (block_plan p vshape) (cprod (map locs chunks)))
  end.

(* ---- comparison helpers for the correspondence check ---- *)
Definition bres_eqb (a b : bres) : bool :=
  match a, b with
  | BUntouched, BUntouched => true
  | BCrash, BCrash => true
  | BTouched bi vi e, BTouched bi' vi' e' => list_eqb sidx_eqb bi bi' && list_eqb sidx_eqb vi vi' && Bool.eqb e e'
  | _, _ => false
  end.

Definition parsed_eqb (a b : parsed) : bool :=
  list_eqb pidx1_eqb (p_idx a) (p_idx b) && zlist_eqb (p_reverse a) (p_reverse b) &&
  (p_offset a =? p_offset b) && (p_value_offset a =? p_value_offset b) && zlist_eqb (p_vcommon a) (p_vcommon b) &&
  list_eqb Bool.eqb (p_base a) (p_base b) && zlist_eqb (p_nb a) (p_nb b).

Definition oparsed_eqb (a b : option parsed) : bool :=
  match a, b with Some x, Some y => parsed_eqb x y | None, None => true | _, _ => false end.

Definition oplan_eqb (a b : option (list bres)) : bool :=
  match a, b with Some x, Some y => list_eqb bres_eqb x y | None, None => true | _, _ => false end.

(* does building the layer raise? *)
Definition plan_crashes (pl : list bres) : bool := existsb (fun r => match r with BCrash => true | _ => false end) pl.

(* what the correspondence check observes of SetItem._layer(): None = the assignment was refused (no layer);
   Some None = building the layer raises; Some (Some l) = the plan, one entry per output key *)
Definition plan_obs (chunks : list (list Z)) (idx : list sidx) (vshape : list Z) : option (option (list bres)) :=
  match plan chunks idx vshape with
  | None => None
  | Some pl => Some (if plan_crashes pl then None else Some pl)
  end.

Definition obs_eqb (a b : option (option (list bres))) : bool :=
  match a, b with
  | None, None => true
  | Some None, Some None => true
  | Some (Some x), Some (Some y) => list_eqb bres_eqb x y
  | _, _ => false
  end.

(* ================================================================================================
   SPECIFICATION SIDE: NumPy's meaning of `a[index] = value`, element-wise, independent of the plan.
   Arrays are functions from position vectors to values. *)

(* positions of an axis of length n addressed by one index entry, in the order of the value coordinate *)
Definition np_axis_pos (e : sidx) (n : Z) : list Z :=
  match e with
  | SInt i => [posify_int n i]
  | SSlice s => sel s n
  | SList l => map (posify_int n) l
  end.

Definition has_dim (e : sidx) : bool := match e with SInt _ => false | _ => true end.

(* the value coordinate that is written LAST at position p (NumPy: for a repeated entry of an integer
   list the last assignment wins); None = p is not addressed *)
Fixpoint last_idx (p : Z) (l : list Z) (i : Z) : option Z :=
  match l with
  | [] => None
  | x :: t => match last_idx p t (i + 1) with
              | Some r => Some r
              | None => if x =? p then Some i else None
              end
  end.

Definition axis_rank (e : sidx) (n p : Z) : option Z := last_idx p (np_axis_pos e n) 0.

(* outer (orthogonal) indexing — what NumPy does for basic indices plus at most one integer list; with an
   integer AND a list separated by a slice NumPy moves the list dimension first: outside this model *)
Fixpoint np_ranks (idx : list sidx) (shape p : list Z) {struct shape} : option (list Z) :=
  match shape, p with
  | [], [] => match idx with [] => Some [] | _ => None end
  | n :: shape', x :: p' =>
      let e := match idx with e :: _ => e | [] => SSlice colon end in      (* missing trailing entries are `:` *)
      match axis_rank e n x, np_ranks (tl idx) shape' p' with
      | Some r, Some rs => Some (if has_dim e then r :: rs else rs)
      | _, _ => None
      end
  | _, _ => None
  end.

(* broadcasting of a value of shape vshape against implied coordinates rs (trailing alignment; size-1
   dimensions and extra leading dimensions read coordinate 0) *)
Fixpoint bcast_zip (vshape rs : list Z) : list Z :=
  match vshape, rs with
  | d :: vshape', r :: rs' => (if d =? 1 then 0 else r) :: bcast_zip vshape' rs'
  | _, _ => []
  end.

Definition bcast (vshape rs : list Z) : list Z :=
  let k := lenZ rs in let v := lenZ vshape in
  repeat 0 (Z.to_nat (v - k)) ++ bcast_zip (skipnZ (v - k) vshape) (skipnZ (k - v) rs).

Definition np_setitem (x : list Z -> Z) (idx : list sidx) (shape vshape : list Z) (v : list Z -> Z) : list Z -> Z :=
  fun p => match np_ranks idx shape p with Some rs => v (bcast vshape rs) | None => x p end.

(* value[(...,)? + vi] for the value indices of a plan: coordinates of the sub-array -> coordinates of value;
   dimensions after the last entry are kept whole *)
Fixpoint sub_coords (vi : list sidx) (dims ks : list Z) : list Z :=
  match vi, dims, ks with
  | e :: vi', d :: dims', k :: ks' => nth (Z.to_nat k) (np_axis_pos e d) 0 :: sub_coords vi' dims' ks'
  | _, _, _ => ks
  end.

Fixpoint sub_shape (vi : list sidx) (dims : list Z) : list Z :=
  match vi, dims with
  | e :: vi', d :: dims' => lenZ (np_axis_pos e d) :: sub_shape vi' dims'
  | _, _ => dims
  end.

(* with the Ellipsis the entries address the TRAILING dimensions, without it the leading ones *)
Definition sub_value (v : list Z -> Z) (vshape : list Z) (vi : list sidx) (ell : bool) : list Z -> Z :=
  let lead := if ell then Z.to_nat (lenZ vshape - lenZ vi) else 0%nat in
  fun ks => v (firstn lead ks ++ sub_coords vi (skipn lead vshape) (skipn lead ks)).

Definition sub_vshape (vshape : list Z) (vi : list sidx) (ell : bool) : list Z :=
  let lead := if ell then Z.to_nat (lenZ vshape - lenZ vi) else 0%nat in
  firstn lead vshape ++ sub_shape vi (skipn lead vshape).

(* the block containing position x on an axis *)
Fixpoint find_loc (x : Z) (ls : list (Z * Z)) : option (Z * Z) :=
  match ls with
  | [] => None
  | (a, b) :: t => if (a <=? x) && (x <? b) then Some (a, b) else find_loc x t
  end.

Fixpoint find_locs (p : list Z) (chunks : list (list Z)) : option (list (Z * Z)) :=
  match p, chunks with
  | [], [] => Some []
  | x :: p', cs :: chunks' =>
      match find_loc x (locs cs), find_locs p' chunks' with
      | Some l, Some r => Some (l :: r) | _, _ => None end
  | _, _ => None
  end.

(* what the graph computes at position p: the block holding p is passed through, or rewritten by the kernel
   `setitem(block, value[vi], bi)` = NumPy assignment INSIDE the block; None: p out of bounds or a crash *)
Definition plan_setitem (x : list Z -> Z) (chunks : list (list Z)) (pr : parsed) (vshape : list Z)
                        (v : list Z -> Z) (p : list Z) : option Z :=
  match find_locs p chunks with
  | None => None
  | Some ls =>
    match block_plan pr vshape ls with
    | BCrash => None
    | BUntouched => Some (x p)
    | BTouched bi vi ell =>
      let off := map fst ls in
      let xb := fun q => x (map (fun ab => fst ab + snd ab) (combine off q)) in
      Some (np_setitem xb bi (map (fun ab => snd ab - fst ab) ls) (sub_vshape vshape vi ell) (sub_value v vshape vi ell)
                       (map (fun ab => snd ab - fst ab) (combine off p)))
    end
  end.

(* position p of an axis is addressed by a parsed index entry *)
Definition in_sl (a b k p : Z) : Prop := a <= p < b /\ (p - a) mod k = 0.
Definition addressed1 (ix : pidx1) (p : Z) : Prop :=
  match ix with PInt i => p = i | PSl a b k => in_sl a b k p | PLst l => In p l end.
(* what parse_assignment_indices guarantees of its output (proved for pai_slice: pai_slice_wf) *)
Definition wf_pidx1 (ix : pidx1) : Prop :=
  match ix with PSl a b k => 0 < k /\ 0 <= a | _ => True end.
(* a slice entry has a non-zero step (normalize_index refuses the others) *)
Definition step_ok (e : sidx) : Prop := match e with SSlice s => step_of s <> 0 | _ => True end.
Definition in_block (l : Z * Z) (x : Z) : Prop := fst l <= x < snd l.
Definition wf_loc (l : Z * Z) : Prop := 0 <= fst l < snd l.

Definition in_bounds (p shape : list Z) : Prop := Forall2 (fun x n => 0 <= x < n) p shape.

(* ---- executable forms used by the correspondence check on every real case ---- *)
Definition wf_pidx1_b (ix : pidx1) : bool :=
  match ix with PSl a b k => (0 <? k) && (0 <=? a) | _ => true end.

(* injective (for coordinates < 63) encodings: the array holds enc p at p, the value holds -1 - enc ks at ks *)
Definition enc (l : list Z) : Z := fold_left (fun acc d => acc * 64 + d + 1) l 0.
Definition all_positions (shape : list Z) : list (list Z) := cprod (map (fun n => zrange 0 n 1) shape).

(* the FULL denotation statement, decided on one input: at every position the graph computes what NumPy assigns *)
Definition den_ok_b (chunks : list (list Z)) (idx : list sidx) (vshape : list Z) : bool :=
  let shape := map zsum chunks in
  let x := enc in
  let v := fun ks => -1 - enc ks in
  match parse idx shape vshape with
  | None => true
  | Some pr =>
      forallb wf_pidx1_b (p_idx pr) &&
      forallb (fun p => match plan_setitem x chunks pr vshape v p with
                        | Some z => z =? np_setitem x idx shape vshape v p
                        | None => false
                        end) (all_positions shape)
  end.
