(* Proofs about normalize_slice. *)
From DA Require Import PyBase PyBaseFacts Slicing.
From Coq Require Import ZifyBool.
Open Scope Z_scope.
Ltac Zify.zify_post_hook ::= Z.to_euclidean_division_equations.

(* slice.indices returns endpoints in the clipped window *)
Lemma indices_bounds s n a b k :
  0 <= n -> indices s n = (a, b, k) ->
  k = step_of s /\
  (0 < k -> 0 <= a <= n /\ 0 <= b <= n) /\
  (k < 0 -> -1 <= a <= n - 1 /\ -1 <= b <= n - 1).
Proof.
  intros Hn H. unfold indices, adjust_endpoint in H.
  injection H as <- <- <-. split; [reflexivity|].
  split; intros Hk; split; repeat break_if; lia.
Qed.

Lemma sel_eq_by_indices s t n :
  (let '(a, b, k) := indices s n in let '(a', b', k') := indices t n in
   (a = a' /\ k = k' /\ range_len a b k = range_len a' b' k') \/
   (range_len a b k = 0 /\ range_len a' b' k' = 0)) ->
  sel s n = sel t n.
Proof.
  unfold sel. destruct (indices s n) as [[a b] k], (indices t n) as [[a' b'] k'].
  intros [(-> & -> & H) | (H1 & H2)].
  - unfold zrange. rewrite H. reflexivity.
  - rewrite !zrange_empty by assumption. reflexivity.
Qed.

Ltac fin_sel :=
  first [ left; split; [lia|]; split; [lia|]; first [reflexivity | f_equal; lia]
        | right; split; first [apply range_len_empty_pos; lia | apply range_len_empty_neg; lia] ].

Theorem normalize_slice_sel s n :
  0 <= n -> step_of s <> 0 -> sel (normalize_slice s n) n = sel s n.
Proof.
  intros Hn Hk.
  apply sel_eq_by_indices.
  destruct (indices s n) as [[a b] k] eqn:Hi.
  pose proof (indices_bounds s n a b k Hn Hi) as (Hstep & Hpos & Hneg).
  unfold normalize_slice. rewrite Hi.
  destruct (k >? 0) eqn:Ekp.
  - assert (0 < k) as Hk0 by lia. specialize (Hpos Hk0). clear Hneg.
    destruct (a =? 0) eqn:Ea, (b >=? n) eqn:Eb, (k =? 1) eqn:Ek1;
      cbn [s_start s_stop s_step]; try (destruct (b <? a) eqn:Eba);
      unfold indices, adjust_endpoint, step_of; cbn [s_start s_stop s_step];
      repeat break_if; fin_sel.
  - destruct (k <? 0) eqn:Ekn; [|exfalso; lia].
    assert (k < 0) as Hk0 by lia. specialize (Hneg Hk0). clear Hpos.
    destruct (a >=? n - 1) eqn:Ea; [|destruct (a <? 0) eqn:Ea0]; destruct (b <? 0) eqn:Eb;
      unfold indices, adjust_endpoint, step_of; cbn [s_start s_stop s_step];
      repeat break_if; fin_sel.
Qed.
