(* C19 — the native sliding-window reduction (block plan + banded reduce) computes the
   windowed reduction of the whole array. *)
From DA Require Import PyBase PyBaseFacts Slicing Slice1dBase Scan Window WindowBase.
From Coq Require Import ZifyBool.
Open Scope Z_scope.

Ltac Zify.zify_post_hook ::= Z.to_euclidean_division_equations.

(* ---- layout facts (no algebra) ------------------------------------------------------- *)
Lemma zmin_list_le cs mn : zmin_list cs = Some mn -> Forall (fun c => mn <= c) cs.
Proof.
  destruct cs as [|x t]; [discriminate|]. cbn [zmin_list]. intros H. injection H as <-.
  assert (G : forall t x, fold_left Z.min t x <= x /\ Forall (fun c => fold_left Z.min t x <= c) t).
  { clear. induction t as [|y t IH]; intros x; cbn [fold_left]; [split; [lia | constructor]|].
    destruct (IH (Z.min x y)) as [H1 H2]. split; [lia|]. constructor; [lia | exact H2]. }
  destruct (G t x) as [H1 H2]. constructor; assumption.
Qed.

Lemma swr_chunks_loop_spec : forall cs remaining,
  Forall (fun c => 0 < c) cs -> 0 <= remaining <= zsum cs ->
  Forall (fun c => 0 < c) (swr_chunks_loop cs remaining) /\ zsum (swr_chunks_loop cs remaining) = remaining.
Proof.
  induction cs as [|c t IH]; intros remaining Hpos Hr; cbn [swr_chunks_loop].
  - cbn in Hr. split; [constructor | cbn; lia].
  - inversion Hpos as [|c' t' Hc Ht]; subst. cbn [zsum] in Hr.
    destruct (remaining <=? 0) eqn:E; [split; [constructor | cbn; lia]|].
    assert (Hz : 0 <= zsum t) by (apply zsum_nonneg; eapply Forall_impl; [|exact Ht]; cbn; intros; lia).
    destruct (IH (remaining - Z.min c remaining) Ht ltac:(lia)) as [H1 H2].
    split; [constructor; [lia | exact H1] | cbn [zsum]; lia].
Qed.

(* C19_sliding_chunks *)
Theorem swr_chunks_valid cs w :
  supports_native_sliding_window cs w = true ->
  Forall (fun c => 0 < c) (swr_chunks cs w) /\ zsum (swr_chunks cs w) = zsum cs - w + 1.
Proof.
  unfold supports_native_sliding_window. intros H.
  destruct (w - 1 <=? 0) eqn:E1; [discriminate|].
  destruct (zmin_list cs) as [mn|] eqn:Emn; [|discriminate].
  destruct (mn <=? 0) eqn:E2; [discriminate|].
  destruct (zsum cs <? w) eqn:E3; [discriminate|].
  apply zmin_list_le in Emn. unfold swr_chunks. apply swr_chunks_loop_spec; [|lia].
  eapply Forall_impl; [|exact Emn]. cbn. intros a Ha. lia.
Qed.

Section Sliding.
  Variable M : Type.
  Variable op : M -> M -> M.
  Variable dflt : M.
  Hypothesis op_assoc : forall a b c, op a (op b c) = op (op a b) c.
  Hypothesis op_comm : forall a b, op a b = op b a.

  Local Notation mconcat1 := (mconcat1 op dflt).
  Local Notation scan := (scan op).

  (* ---- algebra ------------------------------------------------------------------------ *)
  Lemma fold_left_out t : forall a x, fold_left op t (op a x) = op a (fold_left op t x).
  Proof.
    induction t as [|y t IH]; intros a x; cbn [fold_left]; [reflexivity|].
    rewrite <- op_assoc. apply IH.
  Qed.

  Lemma mconcat1_cons x l : l <> [] -> mconcat1 (x :: l) = op x (mconcat1 l).
  Proof.
    destruct l as [|y t]; [congruence|]. intros _. cbn [Window.mconcat1 fold_left]. apply fold_left_out.
  Qed.

  Lemma mconcat1_app a b : a <> [] -> b <> [] -> mconcat1 (a ++ b) = op (mconcat1 a) (mconcat1 b).
  Proof.
    intros Ha Hb. induction a as [|x a IH]; [congruence|].
    destruct a as [|y a'].
    - cbn [app]. rewrite mconcat1_cons by exact Hb. reflexivity.
    - change ((x :: y :: a') ++ b) with (x :: ((y :: a') ++ b)).
      rewrite mconcat1_cons by discriminate. rewrite IH by discriminate.
      rewrite (mconcat1_cons x (y :: a')) by discriminate. apply op_assoc.
  Qed.

  Lemma mconcat1_snoc a x : a <> [] -> mconcat1 (a ++ [x]) = op (mconcat1 a) x.
  Proof. intros Ha. rewrite mconcat1_app by (assumption || discriminate). reflexivity. Qed.

  Lemma mconcat1_rev a : mconcat1 (rev a) = mconcat1 a.
  Proof.
    induction a as [|x a IH]; [reflexivity|]. cbn [rev].
    destruct a as [|y a']; [reflexivity|].
    rewrite mconcat1_snoc by (cbn [rev]; intros E; apply app_eq_nil in E as [_ E]; discriminate).
    rewrite IH. rewrite (mconcat1_cons x (y :: a')) by discriminate. apply op_comm.
  Qed.

  Lemma mconcat1_concat : forall Bs a, a <> [] -> Forall (fun b => b <> []) Bs ->
    mconcat1 (a ++ concat Bs) = fold_left op (map mconcat1 Bs) (mconcat1 a).
  Proof.
    induction Bs as [|b Bs IH]; intros a Ha HB; cbn [concat map fold_left]; [rewrite app_nil_r; reflexivity|].
    inversion HB as [|b' Bs' Hb HBs]; subst.
    rewrite app_assoc, IH; [|intros E; apply app_eq_nil in E as [E _]; congruence | exact HBs].
    rewrite mconcat1_app by assumption. reflexivity.
  Qed.

  (* ufunc.accumulate: entry j is the reduction of the first j+1 values *)
  Lemma scan_from_as_map : forall l acc,
    scan_from op acc l = map (fun j => fold_left op (firstn (S j) l) acc) (seq 0 (length l)).
  Proof.
    induction l as [|x t IH]; intros acc; [reflexivity|].
    cbn [scan_from length seq map]. f_equal. rewrite IH, <- seq_shift, map_map. reflexivity.
  Qed.

  Lemma scan_as_map l : scan l = map (fun j => mconcat1 (firstn (S j) l)) (seq 0 (length l)).
  Proof.
    destruct l as [|x t]; [reflexivity|]. cbn [Scan.scan length seq map]. f_equal.
    rewrite scan_from_as_map, <- seq_shift, map_map. reflexivity.
  Qed.

  Lemma scan_snoc l x : l <> [] -> scan (l ++ [x]) = scan l ++ [op (mconcat1 l) x].
  Proof.
    intros Hl. destruct l as [|y t]; [congruence|]. cbn [Scan.scan app]. f_equal.
    clear Hl. cbn [Window.mconcat1]. revert y. induction t as [|z t IH]; intros y; [reflexivity|].
    cbn [app scan_from fold_left]. f_equal. apply IH.
  Qed.

  (* the flipped accumulate of the flipped block: entry t reduces block[t:] *)
  Lemma suffix_scan_as_map a :
    suffix_scan op a = map (fun t => mconcat1 (skipn t a)) (seq 0 (length a)).
  Proof.
    unfold suffix_scan. induction a as [|x a IH]; [reflexivity|].
    cbn [rev length seq map skipn].
    destruct a as [|y a'].
    - reflexivity.
    - rewrite scan_snoc by (cbn [rev]; intros E; apply app_eq_nil in E as [_ E]; discriminate).
      rewrite rev_app_distr. cbn [rev app]. change (rev a' ++ [y]) with (rev (y :: a')). f_equal.
      + rewrite mconcat1_rev. rewrite (mconcat1_cons x (y :: a')) by discriminate. apply op_comm.
      + rewrite IH, <- seq_shift, map_map. reflexivity.
  Qed.

  Lemma fold_totals totals : forall out : list M,
    fold_left (fun out total => map (fun o => op o total) out) totals out = map (fun o => fold_left op totals o) out.
  Proof.
    induction totals as [|x t IH]; intros out; cbn [fold_left]; [symmetry; apply map_id|].
    rewrite IH, map_map. reflexivity.
  Qed.

  Lemma map2_map_seq {A B C} (f : A -> B -> C) (g : nat -> A) (h : nat -> B) s n :
    map2 f (map g (seq s n)) (map h (seq s n)) = map (fun t => f (g t) (h t)) (seq s n).
  Proof. revert s. induction n as [|n IH]; intros s; [reflexivity|]. cbn [seq map map2]. f_equal. apply IH. Qed.

  Lemma pyslice_map_seq {B} (g : nat -> B) n a b :
    0 <= a -> a <= b -> b <= Z.of_nat n ->
    pyslice (map g (seq 0 n)) a b = map g (seq (Z.to_nat a) (Z.to_nat (b - a))).
  Proof.
    intros Ha Hab Hb. unfold pyslice. rewrite skipn_map, firstn_map, skipn_seq, firstn_seq.
    do 2 f_equal. lia.
  Qed.

  (* ---- one output block --------------------------------------------------------------- *)
  (* the value of output position g of the whole array *)
  Definition wval (w : Z) (xs : list M) (g : nat) : M := mconcat1 (firstn (Z.to_nat w) (skipn g xs)).

  Lemma banded_block cs w xs i out_len :
    Forall (fun c => 0 < c) cs -> zsum cs = zlen xs ->
    0 <= i < zlen cs -> nthZ cs i <= w - 1 -> 0 < out_len <= nthZ cs i ->
    psum cs i + out_len <= zsum cs - w + 1 ->
    let sts := starts cs in
    let edge := nthZ sts i + w - 1 in
    let b := bisect_right sts edge - 1 in
    let e := bisect_right sts (edge + out_len - 1) - 1 in
    let blocks := split_blocks cs xs in
    banded_reduce op (getblock blocks i)
                  (map (fun q => mconcat1 (getblock blocks q)) (zrange (i + 1) b 1))
                  (map (getblock blocks) (zrange b (e + 1) 1)) out_len (edge - nthZ sts b)
    = map (wval w xs) (seq (Z.to_nat (psum cs i)) (Z.to_nat out_len)).
  Proof.
    intros Hpos Hlen Hi Hci Hout Hfit sts edge b e blocks.
    assert (Hnn : Forall (fun c => 0 <= c) cs) by (eapply Forall_impl; [|exact Hpos]; cbn; intros; lia).
    assert (HSi : nthZ sts i = psum cs i) by (apply nthZ_starts; lia).
    assert (HSi1 : psum cs (i + 1) = psum cs i + nthZ cs i) by (apply psum_succ; lia).
    assert (HSi0 : 0 <= psum cs i) by (unfold psum; apply zsum_nonneg, Forall_firstn; exact Hnn).
    assert (Hedge : edge = psum cs i + w - 1) by (unfold edge; lia).
    (* b *)
    pose proof (bisect_starts cs edge ltac:(lia)) as Hb. cbv zeta in Hb. fold sts in Hb. fold b in Hb.
    destruct Hb as (Hb1 & Hb2 & Hb3).
    assert (Hbk : b < zlen cs).
    { destruct (Z.eq_dec b (zlen cs)) as [Eb|]; [|lia]. rewrite Eb, psum_all in Hb2. lia. }
    specialize (Hb3 Hbk).
    assert (Hbi : i + 1 <= b).
    { destruct (Z_le_gt_dec (i + 1) b) as [|Hgt]; [assumption|].
      pose proof (psum_mono cs (b + 1) (i + 1) Hnn ltac:(lia) ltac:(lia)). lia. }
    (* e *)
    pose proof (bisect_starts cs (edge + out_len - 1) ltac:(lia)) as He. cbv zeta in He. fold sts in He. fold e in He.
    destruct He as (He1 & He2 & He3).
    assert (Hek : e < zlen cs).
    { destruct (Z.eq_dec e (zlen cs)) as [Ee|]; [|lia]. rewrite Ee, psum_all in He2. lia. }
    specialize (He3 Hek).
    assert (Hbe : b <= e).
    { destruct (Z_le_gt_dec b e) as [|Hgt]; [assumption|].
      pose proof (psum_mono cs (e + 1) b Hnn ltac:(lia) ltac:(lia)). lia. }
    assert (HSb : nthZ sts b = psum cs b) by (apply nthZ_starts; lia).
    assert (HSbi : psum cs (i + 1) <= psum cs b) by (apply psum_mono; [exact Hnn | lia | lia]).
    assert (HSe : psum cs (e + 1) <= zsum cs) by (apply psum_le_total; exact Hnn).
    (* the pieces as slices of xs *)
    assert (Eblock : getblock blocks i = pyslice xs (psum cs i) (psum cs (i + 1))) by (apply getblock_split; [exact Hnn | lia]).
    assert (Eband : concat (map (getblock blocks) (zrange b (e + 1) 1)) = pyslice xs (psum cs b) (psum cs (e + 1))).
    { replace (e + 1) with (b + Z.of_nat (Z.to_nat (e + 1 - b))) by lia.
      apply concat_getblocks; [exact Hnn | lia | lia]. }
    set (off := edge - nthZ sts b). assert (Hoff : off = edge - psum cs b) by (unfold off; lia).
    unfold banded_reduce. rewrite Eband, Eblock. clear Eband Eblock.
    set (block := pyslice xs (psum cs i) (psum cs (i + 1))).
    set (band := pyslice xs (psum cs b) (psum cs (e + 1))).
    assert (Lblock : zlen block = nthZ cs i) by (unfold block; rewrite pyslice_length; lia).
    assert (Lband : zlen band = psum cs (e + 1) - psum cs b) by (unfold band; rewrite pyslice_length; [lia | lia | apply psum_mono; [exact Hnn|lia|lia] | lia]).
    (* suffix part *)
    rewrite suffix_scan_as_map, fold_totals.
    rewrite pyslice_map_seq by (unfold zlen in Lblock; lia).
    rewrite Z.sub_0_r. change (Z.to_nat 0) with 0%nat. rewrite map_map.
    (* prefix part *)
    rewrite scan_as_map.
    assert (Lpre : length (pyslice band 0 (off + out_len)) = Z.to_nat (off + out_len)).
    { pose proof (pyslice_length band 0 (off + out_len) ltac:(lia) ltac:(lia) ltac:(lia)) as HL. unfold zlen in HL. lia. }
    rewrite Lpre.
    rewrite pyslice_map_seq by lia.
    replace (Z.to_nat (off + out_len - off)) with (Z.to_nat out_len) by lia.
    rewrite (map_seq_shift _ (Z.to_nat off)).
    rewrite map2_map_seq.
    rewrite (map_seq_shift (wval w xs)).
    apply map_ext_in. intros t Ht. apply in_seq in Ht.
    (* the window of output position psum i + t *)
    unfold wval. rewrite pyslice_skipn by lia.
    rewrite (pyslice_app xs _ (psum cs (i + 1))) by lia.
    rewrite (pyslice_app xs (psum cs (i + 1)) (psum cs b)) by lia.
    assert (Emid : pyslice xs (psum cs (i + 1)) (psum cs b) = concat (map (getblock blocks) (zrange (i + 1) b 1))).
    { replace b with (i + 1 + Z.of_nat (Z.to_nat (b - (i + 1)))) at 1 2 by lia.
      symmetry. replace (zrange (i + 1) b 1) with (zrange (i + 1) (i + 1 + Z.of_nat (Z.to_nat (b - (i + 1)))) 1) by (f_equal; lia).
      apply concat_getblocks; [exact Hnn | lia | lia]. }
    rewrite Emid, app_assoc.
    assert (Hne1 : pyslice xs (Z.of_nat (Z.to_nat (psum cs i) + t)) (psum cs (i + 1)) <> []) by (apply pyslice_nonempty; lia).
    assert (Hne3 : pyslice xs (psum cs b) (Z.of_nat (Z.to_nat (psum cs i) + t) + w) <> []) by (apply pyslice_nonempty; lia).
    rewrite mconcat1_app; [| intros E; apply app_eq_nil in E as [E _]; congruence | exact Hne3].
    rewrite mconcat1_concat; [| exact Hne1 |].
    2:{ apply Forall_forall. intros bl Hin. apply in_map_iff in Hin as (q & <- & Hq).
        assert (Hq' : i + 1 <= q < b).
        { unfold zrange in Hq. apply in_map_iff in Hq as (j & <- & Hj). apply in_seq in Hj. rewrite range_len_1 in Hj. lia. }
        unfold blocks. rewrite getblock_split by (exact Hnn || lia).
        assert (0 < nthZ cs q).
        { rewrite Forall_forall in Hpos. apply Hpos. unfold nthZ. apply nth_In. unfold zlen in *. lia. }
        pose proof (psum_succ cs q ltac:(lia)).
        pose proof (psum_mono cs (q + 1) b Hnn ltac:(lia) ltac:(lia)).
        pose proof (psum_mono cs (i + 1) q Hnn ltac:(lia) ltac:(lia)).
        apply pyslice_nonempty; lia. }
    rewrite map_map. f_equal.
    - f_equal. unfold block. rewrite <- (Nat2Z.id t) at 1. rewrite skipn_pyslice by lia. do 2 f_equal. lia.
    - f_equal.
      replace (S (Z.to_nat off + t)) with (Z.to_nat (off + Z.of_nat t + 1)) by lia.
      rewrite firstn_pyslice by lia.
      unfold band. rewrite pyslice_pyslice by lia. f_equal; lia.
  Qed.

  (* ---- all output blocks ---------------------------------------------------------------- *)
  Lemma nthZ_app_mid (pre rest : list Z) c : nthZ (pre ++ c :: rest) (zlen pre) = c.
  Proof. unfold nthZ, zlen. rewrite Nat2Z.id. rewrite app_nth2 by lia. rewrite Nat.sub_diag. reflexivity. Qed.

  Lemma swr_loop_spec cs w xs :
    Forall (fun c => 0 < c) cs -> zsum cs = zlen xs -> 1 < w ->
    forall rest pre remaining, cs = pre ++ rest ->
      Z.max 0 remaining = Z.max 0 (zsum cs - w + 1 - psum cs (zlen pre)) ->
      supports_loop rest (psum cs (zlen pre)) (zsum cs - (w - 1)) (w - 1) = true ->
      let out := swr_layer_loop op dflt (split_blocks cs xs) (zlen pre)
                                (block_plan_loop (starts cs) w (zlen pre) rest remaining) in
      concat out = map (wval w xs) (seq (Z.to_nat (psum cs (zlen pre))) (Z.to_nat remaining)) /\
      map zlen out = swr_chunks_loop rest remaining.
  Proof.
    intros Hpos Hlen Hw.
    assert (Hnn : Forall (fun c => 0 <= c) cs) by (eapply Forall_impl; [|exact Hpos]; cbn; intros; lia).
    induction rest as [|c rest IH]; intros pre remaining Hcs Hrem Hsup; cbv zeta.
    - cbn [block_plan_loop swr_layer_loop concat map swr_chunks_loop].
      rewrite app_nil_r in Hcs. subst pre. rewrite psum_all in Hrem.
      replace (Z.to_nat remaining) with 0%nat by lia. split; reflexivity.
    - set (i := zlen pre) in *.
      assert (Hi : 0 <= i < zlen cs) by (subst cs; unfold i; rewrite zlen_app, zlen_cons; pose proof (zlen_nonneg pre); pose proof (zlen_nonneg rest); lia).
      assert (Hci : nthZ cs i = c) by (subst cs; apply nthZ_app_mid).
      assert (Hc : 0 < c) by (rewrite Forall_forall in Hpos; apply Hpos; subst cs; apply in_or_app; right; left; reflexivity).
      assert (HS1 : psum cs (i + 1) = psum cs i + c) by (rewrite psum_succ by lia; lia).
      assert (HS0 : 0 <= psum cs i) by (unfold psum; apply zsum_nonneg, Forall_firstn; exact Hnn).
      cbn [block_plan_loop swr_chunks_loop].
      destruct (remaining <=? 0) eqn:Er.
      + replace (Z.max 0 (Z.min c remaining)) with 0 by lia.
        change (0 <=? 0) with true. cbv iota. cbn [swr_layer_loop]. change (0 <=? 0) with true. cbv iota.
        replace (Z.to_nat remaining) with 0%nat by lia. split; reflexivity.
      + cbn [supports_loop] in Hsup.
        destruct (psum cs i >=? zsum cs - (w - 1)) eqn:E1; [lia|].
        destruct (c >? w - 1) eqn:E2; [discriminate|].
        set (out_len := Z.max 0 (Z.min c remaining)) in *.
        assert (Hol : out_len = Z.min c remaining) by (unfold out_len; lia).
        destruct (out_len <=? 0) eqn:E3; [lia|].
        cbn [swr_layer_loop]. rewrite E3.
        assert (Hcs' : cs = (pre ++ [c]) ++ rest) by (rewrite <- app_assoc; exact Hcs).
        assert (Hi' : zlen (pre ++ [c]) = i + 1) by (rewrite zlen_app; reflexivity).
        specialize (IH (pre ++ [c]) (remaining - out_len) Hcs').
        rewrite Hi' in IH. rewrite HS1 in IH.
        specialize (IH ltac:(lia) Hsup). cbv zeta in IH. destruct IH as [IH1 IH2].
        pose proof (banded_block cs w xs i out_len Hpos Hlen Hi ltac:(lia) ltac:(lia) ltac:(lia)) as HB.
        cbv zeta in HB.
        cbn [concat map]. rewrite HB, IH1, IH2. split.
        * replace (Z.to_nat remaining) with (Z.to_nat out_len + Z.to_nat (remaining - out_len))%nat by lia.
          rewrite seq_app, map_app. f_equal.
          destruct (Z.eq_dec (remaining - out_len) 0) as [E0|E0].
          -- rewrite E0. reflexivity.
          -- do 2 f_equal. lia.
        * f_equal; [|rewrite Hol; reflexivity].
          unfold zlen. rewrite map_length, seq_length. lia.
  Qed.

  (* C19_sliding_native *)
  Theorem sliding_native_correct cs w xs :
    supports_native_sliding_window cs w = true -> zsum cs = zlen xs ->
    concat (sliding_native op dflt cs w xs) = sliding_spec op dflt w xs /\
    map zlen (sliding_native op dflt cs w xs) = swr_chunks cs w.
  Proof.
    unfold supports_native_sliding_window. intros H Hlen.
    destruct (w - 1 <=? 0) eqn:E1; [discriminate|].
    destruct (zmin_list cs) as [mn|] eqn:Emn; [|discriminate].
    destruct (mn <=? 0) eqn:E2; [discriminate|].
    destruct (zsum cs <? w) eqn:E3; [discriminate|].
    destruct ((mn >=? w - 1) && (last cs 0 >? w - 1)); [discriminate|].
    apply zmin_list_le in Emn.
    assert (Hpos : Forall (fun c => 0 < c) cs) by (eapply Forall_impl; [|exact Emn]; cbn; intros; lia).
    pose proof (swr_loop_spec cs w xs Hpos Hlen ltac:(lia) cs [] (zsum cs - w + 1) eq_refl) as HL.
    change (zlen (@nil Z)) with 0 in HL. rewrite psum_0 in HL.
    specialize (HL ltac:(lia) H). cbv zeta in HL.
    unfold sliding_native, block_plan, sliding_spec, swr_chunks. destruct HL as [HL1 HL2].
    split; [|exact HL2]. rewrite HL1. change (Z.to_nat 0) with 0%nat. rewrite <- Hlen. reflexivity.
  Qed.

  (* ==== trailing (moving) windows: MovingWindowReduction ============================== *)
  Lemma mconcat1_swap a b : a <> [] -> b <> [] -> mconcat1 (a ++ b) = mconcat1 (b ++ a).
  Proof. intros Ha Hb. rewrite !mconcat1_app by assumption. apply op_comm. Qed.

  Lemma mconcat1_concat_pre Bs c : c <> [] -> Forall (fun b => b <> []) Bs ->
    mconcat1 (concat Bs ++ c) = fold_left op (map mconcat1 Bs) (mconcat1 c).
  Proof.
    intros Hc HB. destruct (concat Bs) as [|y l] eqn:E.
    - destruct Bs as [|b Bs']; [reflexivity|]. inversion HB as [|? ? Hb _]; subst.
      cbn [concat] in E. apply app_eq_nil in E as [E _]. congruence.
    - rewrite mconcat1_swap by (assumption || discriminate). rewrite <- E. apply mconcat1_concat; assumption.
  Qed.

  Lemma repeat_as_map (x : M) n : repeat x n = map (fun _ => x) (seq 0 n).
  Proof. induction n as [|n IH]; [reflexivity|]. cbn [repeat seq map]. f_equal. rewrite IH, <- seq_shift, map_map. reflexivity. Qed.

  (* the value of output position j of the whole array (window clipped at the array start) *)
  Definition mval (w : Z) (xs : list M) (j : nat) : M :=
    mconcat1 (pyslice xs (Z.max 0 (Z.of_nat j - w + 1)) (Z.of_nat j + 1)).

  Lemma moving_banded_nonempty block totals lp nt off : lp <> [] ->
    moving_banded_reduce op block totals lp nt off =
    map2 op (fold_left (fun out total => map (fun o => op o total) out) totals (scan block))
         (if nt =? 0 then pyslice (suffix_scan op (concat lp)) off (off + zlen block - nt)
          else repeat_each (pyslice (suffix_scan op (concat lp)) off (off + 1)) nt
               ++ pyslice (suffix_scan op (concat lp)) off (off + zlen block - nt)).
  Proof. intros H. destruct lp; [congruence | reflexivity]. Qed.

  Lemma moving_block_first cs w xs :
    Forall (fun c => 0 < c) cs -> zsum cs = zlen xs -> 0 < zlen cs -> nthZ cs 0 <= w - 1 ->
    moving_banded_reduce op (getblock (split_blocks cs xs) 0) [] []
                         (Z.max 0 (Z.min (nthZ cs 0) (w - 1 - 0))) 0
    = map (mval w xs) (seq 0 (Z.to_nat (nthZ cs 0))).
  Proof.
    intros Hpos Hlen Hk Hc.
    assert (Hnn : Forall (fun c => 0 <= c) cs) by (eapply Forall_impl; [|exact Hpos]; cbn; intros; lia).
    unfold moving_banded_reduce. cbn [fold_left].
    rewrite getblock_split by (assumption || lia). rewrite psum_0.
    pose proof (psum_succ cs 0 ltac:(lia)) as H1. rewrite psum_0 in H1. change (0 + 1) with 1 in *.
    assert (Hc0 : 0 < nthZ cs 0).
    { rewrite Forall_forall in Hpos. apply Hpos. unfold nthZ. apply nth_In. unfold zlen in Hk. lia. }
    pose proof (psum_le_total cs 1 Hnn) as Hle.
    rewrite scan_as_map.
    pose proof (pyslice_length xs 0 (psum cs 1) ltac:(lia) ltac:(lia) ltac:(lia)) as HL. unfold zlen in HL.
    replace (length (pyslice xs 0 (psum cs 1))) with (Z.to_nat (nthZ cs 0)) by lia.
    apply map_ext_in. intros t Ht. apply in_seq in Ht. unfold mval.
    rewrite Z.max_l by lia. f_equal.
    replace (S t) with (Z.to_nat (Z.of_nat t + 1)) by lia. rewrite firstn_pyslice by lia. reflexivity.
  Qed.

  Lemma moving_block cs w xs i :
    Forall (fun c => 0 < c) cs -> zsum cs = zlen xs -> 1 < w ->
    0 < i < zlen cs -> nthZ cs i <= w - 1 ->
    let sts := starts cs in
    let start := nthZ sts i in
    let c := nthZ cs i in
    let band_first := Z.max 0 (start - w + 1) in
    let band_last := Z.max band_first (start + c - w) in
    let g := bisect_right sts band_first - 1 in
    let h := bisect_right sts band_last - 1 in
    let blocks := split_blocks cs xs in
    moving_banded_reduce op (getblock blocks i)
                         (map (fun q => mconcat1 (getblock blocks q)) (zrange (h + 1) i 1))
                         (map (getblock blocks) (zrange g (h + 1) 1))
                         (Z.max 0 (Z.min c (w - 1 - start))) (band_first - nthZ sts g)
    = map (mval w xs) (seq (Z.to_nat (psum cs i)) (Z.to_nat c)).
  Proof.
    intros Hpos Hlen Hw Hi Hci sts start c band_first band_last g h blocks.
    assert (Hnn : Forall (fun c => 0 <= c) cs) by (eapply Forall_impl; [|exact Hpos]; cbn; intros; lia).
    assert (HSi : start = psum cs i) by (apply nthZ_starts; lia).
    assert (HSi1 : psum cs (i + 1) = psum cs i + c) by (apply psum_succ; lia).
    assert (Hc0 : 0 < c).
    { rewrite Forall_forall in Hpos. apply Hpos. unfold c, nthZ. apply nth_In. unfold zlen in Hi. lia. }
    assert (HS0 : 0 < psum cs i).
    { pose proof (psum_succ cs 0 ltac:(lia)) as H1. rewrite psum_0 in H1.
      assert (0 < nthZ cs 0) by (rewrite Forall_forall in Hpos; apply Hpos; unfold nthZ; apply nth_In; unfold zlen in Hi; lia).
      pose proof (psum_mono cs (0 + 1) i Hnn ltac:(lia) ltac:(lia)). lia. }
    assert (HSn : psum cs (i + 1) <= zsum cs) by (apply psum_le_total; exact Hnn).
    set (nt := Z.max 0 (Z.min c (w - 1 - start))).
    assert (Hbf : 0 <= band_first < psum cs i) by (unfold band_first; lia).
    assert (Hbl : band_first <= band_last < psum cs i) by (unfold band_last; lia).
    (* g, h *)
    pose proof (bisect_starts cs band_first ltac:(lia)) as Hg. cbv zeta in Hg. fold sts in Hg. fold g in Hg.
    destruct Hg as (Hg1 & Hg2 & Hg3).
    assert (Hgi : g < i).
    { destruct (Z_lt_ge_dec g i) as [|Hge]; [assumption|]. pose proof (psum_mono cs i g Hnn ltac:(lia) ltac:(lia)). lia. }
    specialize (Hg3 ltac:(lia)).
    pose proof (bisect_starts cs band_last ltac:(lia)) as Hh. cbv zeta in Hh. fold sts in Hh. fold h in Hh.
    destruct Hh as (Hh1 & Hh2 & Hh3).
    assert (Hhi : h < i).
    { destruct (Z_lt_ge_dec h i) as [|Hge]; [assumption|]. pose proof (psum_mono cs i h Hnn ltac:(lia) ltac:(lia)). lia. }
    specialize (Hh3 ltac:(lia)).
    assert (Hgh : g <= h).
    { destruct (Z_le_gt_dec g h) as [|Hgt]; [assumption|]. pose proof (psum_mono cs (h + 1) g Hnn ltac:(lia) ltac:(lia)). lia. }
    assert (HSg : nthZ sts g = psum cs g) by (apply nthZ_starts; lia).
    assert (HShi : psum cs (h + 1) <= psum cs i) by (apply psum_mono; [exact Hnn | lia | lia]).
    assert (HSg0 : 0 <= psum cs g) by (unfold psum; apply zsum_nonneg, Forall_firstn; exact Hnn).
    set (off := band_first - nthZ sts g). assert (Hoff : off = band_first - psum cs g) by (unfold off; lia).
    (* the pieces as slices of xs *)
    assert (Eblock : getblock blocks i = pyslice xs (psum cs i) (psum cs (i + 1))) by (apply getblock_split; [exact Hnn | lia]).
    assert (Eband : concat (map (getblock blocks) (zrange g (h + 1) 1)) = pyslice xs (psum cs g) (psum cs (h + 1))).
    { replace (h + 1) with (g + Z.of_nat (Z.to_nat (h + 1 - g))) by lia. apply concat_getblocks; [exact Hnn | lia | lia]. }
    assert (Emid : pyslice xs (psum cs (h + 1)) (psum cs i) = concat (map (getblock blocks) (zrange (h + 1) i 1))).
    { replace i with (h + 1 + Z.of_nat (Z.to_nat (i - (h + 1)))) at 1 2 by lia.
      symmetry. replace (zrange (h + 1) i 1) with (zrange (h + 1) (h + 1 + Z.of_nat (Z.to_nat (i - (h + 1)))) 1) by (f_equal; lia).
      apply concat_getblocks; [exact Hnn | lia | lia]. }
    assert (Hmids : Forall (fun b => b <> []) (map (getblock blocks) (zrange (h + 1) i 1))).
    { apply Forall_forall. intros bl Hin. apply in_map_iff in Hin as (q & <- & Hq).
      assert (Hq' : h + 1 <= q < i).
      { unfold zrange in Hq. apply in_map_iff in Hq as (j & <- & Hj). apply in_seq in Hj. rewrite range_len_1 in Hj. lia. }
      unfold blocks. rewrite getblock_split by (exact Hnn || lia).
      assert (0 < nthZ cs q) by (rewrite Forall_forall in Hpos; apply Hpos; unfold nthZ; apply nth_In; unfold zlen in *; lia).
      pose proof (psum_succ cs q ltac:(lia)).
      pose proof (psum_mono cs (q + 1) i Hnn ltac:(lia) ltac:(lia)).
      pose proof (psum_mono cs 0 q Hnn ltac:(lia) ltac:(lia)). rewrite psum_0 in *.
      apply pyslice_nonempty; lia. }
    (* the band is non-empty: at least block g *)
    rewrite moving_banded_nonempty by (rewrite zrange_1_cons by lia; discriminate).
    rewrite Eband, Eblock.
    set (block := pyslice xs (psum cs i) (psum cs (i + 1))).
    set (band := pyslice xs (psum cs g) (psum cs (h + 1))).
    assert (Lblock : zlen block = c) by (unfold block; rewrite pyslice_length; lia).
    assert (Lband : zlen band = psum cs (h + 1) - psum cs g) by (unfold band; rewrite pyslice_length; lia).
    rewrite Lblock, fold_totals, scan_as_map, suffix_scan_as_map.
    replace (length block) with (Z.to_nat c) by (unfold zlen in Lblock; lia).
    rewrite map_map.
    assert (HSgh : psum cs (g + 1) <= psum cs (h + 1)) by (apply psum_mono; [exact Hnn | lia | lia]).
    assert (Hoffb : 0 <= off /\ off + 1 <= Z.of_nat (length band)) by (unfold zlen in Lband; lia).
    (* the left-edge segment, uniformly *)
    assert (Eseg : (if nt =? 0 then pyslice (map (fun t => mconcat1 (skipn t band)) (seq 0 (length band))) off (off + c - nt)
                    else repeat_each (pyslice (map (fun t => mconcat1 (skipn t band)) (seq 0 (length band))) off (off + 1)) nt
                         ++ pyslice (map (fun t => mconcat1 (skipn t band)) (seq 0 (length band))) off (off + c - nt))
                   = map (fun t => mconcat1 (skipn (Z.to_nat (off + Z.max 0 (Z.of_nat t - nt))) band)) (seq 0 (Z.to_nat c))).
    { assert (Hnt : 0 <= nt <= c) by (unfold nt; lia).
      assert (Hfit : off + c - nt <= Z.of_nat (length band)).
      { unfold zlen in Lband. rewrite Lband, Hoff. unfold nt, band_first, band_last in *. lia. }
      rewrite (pyslice_map_seq _ (length band) off (off + c - nt)) by lia.
      replace (Z.to_nat (off + c - nt - off)) with (Z.to_nat (c - nt)) by lia.
      rewrite (map_seq_shift _ (Z.to_nat off)).
      destruct (nt =? 0) eqn:E0.
      - assert (nt = 0) by lia. rewrite H, Z.sub_0_r. apply map_ext_in. intros t Ht. do 2 f_equal. lia.
      - rewrite (pyslice_map_seq _ (length band) off (off + 1)) by lia.
        replace (Z.to_nat (off + 1 - off)) with 1%nat by lia. cbn [seq map]. unfold repeat_each. cbn [map concat]. rewrite app_nil_r.
        rewrite repeat_as_map.
        replace (Z.to_nat c) with (Z.to_nat nt + Z.to_nat (c - nt))%nat by lia. rewrite seq_app, map_app. f_equal.
        + apply map_ext_in. intros t Ht. apply in_seq in Ht. do 2 f_equal. lia.
        + rewrite (map_seq_shift _ (0 + Z.to_nat nt)). apply map_ext_in. intros t Ht. apply in_seq in Ht. do 2 f_equal. lia. }
    rewrite Eseg. rewrite map2_map_seq. rewrite (map_seq_shift (mval w xs)).
    apply map_ext_in. intros t Ht. apply in_seq in Ht.
    (* window of output position psum i + t *)
    unfold mval.
    set (L := Z.max 0 (Z.of_nat (Z.to_nat (psum cs i) + t) - w + 1)).
    assert (HL : L = psum cs g + (off + Z.max 0 (Z.of_nat t - nt))).
    { unfold L. rewrite Hoff. unfold nt, band_first. lia. }
    assert (HLb : L <= band_last) by (unfold L, band_last, band_first; lia).
    rewrite (pyslice_app xs L (psum cs (h + 1))) by lia.
    rewrite (pyslice_app xs (psum cs (h + 1)) (psum cs i)) by lia.
    rewrite Emid.
    assert (HneA : pyslice xs L (psum cs (h + 1)) <> []) by (apply pyslice_nonempty; lia).
    assert (HneC : pyslice xs (psum cs i) (Z.of_nat (Z.to_nat (psum cs i) + t) + 1) <> []) by (apply pyslice_nonempty; lia).
    rewrite mconcat1_app; [| exact HneA | intros E; apply app_eq_nil in E as [_ E]; congruence].
    rewrite mconcat1_concat_pre by assumption. rewrite map_map.
    rewrite op_comm. f_equal.
    - f_equal. unfold band. rewrite skipn_pyslice by lia. f_equal. lia.
    - f_equal. f_equal. unfold block.
      replace (S t) with (Z.to_nat (Z.of_nat t + 1)) by lia. rewrite firstn_pyslice by lia. f_equal. lia.
  Qed.

  Lemma mwr_loop_spec cs w xs :
    Forall (fun c => 0 < c) cs -> zsum cs = zlen xs -> 1 < w -> Forall (fun c => c <= w - 1) cs ->
    forall rest pre, cs = pre ++ rest ->
      let out := mwr_layer_loop op dflt (split_blocks cs xs) w (zlen pre)
                                (moving_plan_loop (starts cs) w (zlen pre) rest) in
      concat out = map (mval w xs) (seq (Z.to_nat (psum cs (zlen pre))) (Z.to_nat (zsum rest))) /\
      map zlen out = rest.
  Proof.
    intros Hpos Hlen Hw Hmax.
    assert (Hnn : Forall (fun c => 0 <= c) cs) by (eapply Forall_impl; [|exact Hpos]; cbn; intros; lia).
    induction rest as [|c rest IH]; intros pre Hcs; cbv zeta.
    - cbn. split; reflexivity.
    - set (i := zlen pre) in *.
      assert (Hi : 0 <= i < zlen cs) by (subst cs; unfold i; rewrite zlen_app, zlen_cons; pose proof (zlen_nonneg pre); pose proof (zlen_nonneg rest); lia).
      assert (Hci : nthZ cs i = c) by (subst cs; apply nthZ_app_mid).
      assert (Hc : 0 < c) by (rewrite Forall_forall in Hpos; apply Hpos; subst cs; apply in_or_app; right; left; reflexivity).
      assert (Hcw : c <= w - 1) by (rewrite Forall_forall in Hmax; apply Hmax; subst cs; apply in_or_app; right; left; reflexivity).
      assert (HS1 : psum cs (i + 1) = psum cs i + c) by (rewrite psum_succ by lia; lia).
      assert (HS0 : 0 <= psum cs i) by (unfold psum; apply zsum_nonneg, Forall_firstn; exact Hnn).
      assert (Hzr : 0 <= zsum rest).
      { apply zsum_nonneg. apply Forall_forall. intros y Hy. rewrite Forall_forall in Hnn. apply Hnn. subst cs. apply in_or_app. right. right. exact Hy. }
      assert (Hcs' : cs = (pre ++ [c]) ++ rest) by (rewrite <- app_assoc; exact Hcs).
      assert (Hi' : zlen (pre ++ [c]) = i + 1) by (rewrite zlen_app; reflexivity).
      specialize (IH (pre ++ [c]) Hcs'). rewrite Hi' in IH. cbv zeta in IH. destruct IH as [IH1 IH2].
      assert (HSi : nthZ (starts cs) i = psum cs i) by (apply nthZ_starts; lia).
      assert (Hfin : forall (B : list M), B = map (mval w xs) (seq (Z.to_nat (psum cs i)) (Z.to_nat c)) ->
                concat (B :: mwr_layer_loop op dflt (split_blocks cs xs) w (i + 1) (moving_plan_loop (starts cs) w (i + 1) rest))
                = map (mval w xs) (seq (Z.to_nat (psum cs i)) (Z.to_nat (zsum (c :: rest)))) /\
                map zlen (B :: mwr_layer_loop op dflt (split_blocks cs xs) w (i + 1) (moving_plan_loop (starts cs) w (i + 1) rest)) = c :: rest).
      { intros B ->. cbn [concat map zsum]. rewrite IH1, IH2. split.
        - replace (Z.to_nat (c + zsum rest)) with (Z.to_nat c + Z.to_nat (zsum rest))%nat by lia.
          rewrite seq_app, map_app. do 3 f_equal. lia.
        - f_equal. unfold zlen. rewrite map_length, seq_length. lia. }
      cbn [moving_plan_loop]. destruct (nthZ (starts cs) i =? 0) eqn:E0; cbn [mwr_layer_loop]; apply Hfin.
      + assert (Ei : i = 0).
        { destruct (Z.eq_dec i 0) as [|Hne]; [assumption|].
          pose proof (psum_succ cs 0 ltac:(lia)) as H1. rewrite psum_0 in H1.
          assert (0 < nthZ cs 0) by (rewrite Forall_forall in Hpos; apply Hpos; unfold nthZ; apply nth_In; unfold zlen in Hi; lia).
          pose proof (psum_mono cs (0 + 1) i Hnn ltac:(lia) ltac:(lia)). lia. }
        rewrite HSi, Ei, psum_0. rewrite Ei in Hci. rewrite <- Hci.
        apply moving_block_first; try assumption; lia.
      + assert (Hi0 : 0 < i).
        { destruct (Z.eq_dec i 0) as [Ei|Hne]; [|lia]. rewrite HSi, Ei, psum_0 in E0. discriminate. }
        pose proof (moving_block cs w xs i Hpos Hlen Hw ltac:(lia) ltac:(lia)) as HB. cbv zeta in HB.
        rewrite Hci in HB. exact HB.
  Qed.

  Lemma fold_max_le : forall t x m, fold_left Z.max t x <= m -> x <= m /\ Forall (fun c => c <= m) t.
  Proof.
    induction t as [|y t IH]; intros x m H; cbn [fold_left] in H; [split; [exact H | constructor]|].
    destruct (IH _ _ H) as [H1 H2]. split; [lia|]. constructor; [lia | exact H2].
  Qed.

  (* C19_moving_native *)
  Theorem moving_native_correct cs w xs :
    supports_native_moving_window cs w = true -> zsum cs = zlen xs ->
    concat (moving_native op dflt cs w xs) = moving_spec op dflt w xs /\
    map zlen (moving_native op dflt cs w xs) = cs.
  Proof.
    unfold supports_native_moving_window. intros H Hlen.
    destruct (w <=? 1) eqn:E1; [discriminate|].
    destruct (zmin_list cs) as [mn|] eqn:Emn; [|discriminate].
    destruct (mn <=? 0) eqn:E2; [discriminate|].
    destruct ((zlen cs <? 2) || (zsum cs <? w)); [discriminate|].
    apply zmin_list_le in Emn.
    assert (Hpos : Forall (fun c => 0 < c) cs) by (eapply Forall_impl; [|exact Emn]; cbn; intros; lia).
    assert (Hmax : Forall (fun c => c <= w - 1) cs).
    { destruct cs as [|c0 t0]; [constructor|]. cbn [tl hd] in H. apply Z.leb_le in H.
      destruct (fold_max_le _ _ _ H) as [H1 H2]. constructor; assumption. }
    pose proof (mwr_loop_spec cs w xs Hpos Hlen ltac:(lia) Hmax cs [] eq_refl) as HL.
    change (zlen (@nil Z)) with 0 in HL. rewrite psum_0 in HL. cbv zeta in HL.
    unfold moving_native, moving_plan, moving_spec. destruct HL as [HL1 HL2].
    split; [|exact HL2]. rewrite HL1. change (Z.to_nat 0) with 0%nat.
    replace (Z.to_nat (zsum cs)) with (length xs) by (unfold zlen in Hlen; lia). reflexivity.
  Qed.
End Sliding.

