(* Proofs about the rechunk-expression model of RechunkGraph.v.

   G1  rechunk_1d_blocks        executing the modelled graph of one rechunk step yields exactly the
                                blocks of the new layout (values and sizes), for all valid layouts
   G2  intersect_1d_sorted      the pieces of a new block come from strictly increasing old blocks
                                (so rec_cat_arg always has one slot per piece: no IndexError)
   G3  whole_block_alias        a block taken whole from one old block is an alias of it
   G4  run_plan_1d_blocks       multi-step plans
   G5  assemble2_block          2-D: the product of two per-axis tilings assembles the sub-matrix
   G6  compute_rechunk_nd_rank1 the N-D structural model at rank 1 is the 1-D model
   N1  rechunk_chunks_normalized / rechunk_chunks_layout
   N2  validate_rechunk_known_iff / validate_rechunk_unknown_iff
   N3  balance_preserves_sum / balance_layout *)
From DA Require Import PyBase PyBaseFacts Rechunk RechunkFacts NormChunks NormChunksFacts RechunkGraph.
From Coq Require Import ZifyBool.
Open Scope Z_scope.
Ltac Zify.zify_post_hook ::= Z.to_euclidean_division_equations.

(* ====================================================================== *)
(* list slices *)
Section SubFacts.
Context {A : Type}.
Implicit Types l : list A.

Lemma skipn_skipn' (p q : nat) l : skipn p (skipn q l) = skipn (q + p) l.
Proof.
  revert l. induction q as [|q IH]; intros l; [reflexivity|].
  destruct l as [|x l]; cbn [skipn Nat.add]; [destruct p; reflexivity|apply IH].
Qed.

Lemma firstn_add (p q : nat) l : firstn (p + q) l = firstn p l ++ firstn q (skipn p l).
Proof.
  revert l. induction p as [|p IH]; intros l; [reflexivity|].
  destruct l as [|x l]; cbn [Nat.add firstn skipn app]; [destruct q; reflexivity|].
  rewrite IH. reflexivity.
Qed.

Lemma sub_nil a l : sub a a l = [].
Proof. unfold sub. rewrite Z.sub_diag. reflexivity. Qed.

Lemma sub_app a m b l : 0 <= a -> a <= m -> m <= b -> sub a m l ++ sub m b l = sub a b l.
Proof.
  intros Ha Hm Hb. unfold sub.
  replace (Z.to_nat m) with (Z.to_nat a + Z.to_nat (m - a))%nat by lia.
  rewrite <- skipn_skipn'.
  replace (Z.to_nat (b - a)) with (Z.to_nat (m - a) + Z.to_nat (b - m))%nat by lia.
  rewrite firstn_add. reflexivity.
Qed.

(* a slice of a slice *)
Lemma sub_sub s e a b l :
  0 <= s -> 0 <= a -> a <= b -> b <= e - s -> sub a b (sub s e l) = sub (s + a) (s + b) l.
Proof.
  intros Hs Ha Hab Hb. unfold sub.
  rewrite skipn_firstn_comm, firstn_firstn, skipn_skipn'.
  f_equal; [lia|f_equal; lia].
Qed.

Lemma sub_length a b l : 0 <= a -> a <= b -> b <= Z.of_nat (length l) -> Z.of_nat (length (sub a b l)) = b - a.
Proof.
  intros Ha Hab Hb. unfold sub. rewrite firstn_length_le; [lia|]. rewrite skipn_length. lia.
Qed.

Lemma sub_all l : sub 0 (Z.of_nat (length l)) l = l.
Proof. unfold sub. cbn [Z.to_nat skipn]. apply firstn_all2. lia. Qed.

Lemma sub_map {B} (f : A -> B) a b l : sub a b (map f l) = map f (sub a b l).
Proof. unfold sub. rewrite skipn_map, firstn_map. reflexivity. Qed.
End SubFacts.

(* ====================================================================== *)
(* G2: old indices of the pieces of a block strictly increase *)

Definition pidx (p : piece) : Z := fst (fst p).

Fixpoint decreasing (l : list Z) : bool :=
  match l with
  | x :: ((y :: _) as t) => (y <? x) && decreasing t
  | _ => true
  end.

Lemma strictly_increasing_snoc l : forall x,
  strictly_increasing l = true -> (forall y, last_opt l = Some y -> y < x) -> strictly_increasing (l ++ [x]) = true.
Proof.
  induction l as [|a l IH]; intros x Hs Hl; [reflexivity|].
  destruct l as [|b l].
  - cbn [app strictly_increasing]. rewrite andb_true_r. apply Z.ltb_lt. apply Hl. reflexivity.
  - change ((a <? b) && strictly_increasing ((b :: l) ++ [x]) = true).
    cbn [strictly_increasing] in Hs. apply andb_true_iff in Hs as [H1 H2].
    rewrite H1. cbn [andb]. apply IH; [exact H2|].
    intros y Hy. apply Hl. unfold last_opt in *. cbn [rev] in *.
    destruct (rev l ++ [b]) eqn:E; [destruct (rev l); discriminate|]. cbn [app]. exact Hy.
Qed.

Lemma decreasing_rev l : decreasing l = true -> strictly_increasing (rev l) = true.
Proof.
  induction l as [|a l IH]; intros H; [reflexivity|]. cbn [rev].
  destruct l as [|b l].
  - reflexivity.
  - cbn [decreasing] in H. apply andb_true_iff in H as [H1 H2].
    apply strictly_increasing_snoc; [apply IH; exact H2|].
    intros y Hy. unfold last_opt in Hy. rewrite rev_involutive in Hy. injection Hy as <-. lia.
Qed.

Definition sorted_block (ps : list piece) : Prop := strictly_increasing (map pidx ps) = true.

Definition sort_inv (st : ix_state) (prev : bool * Z) : Prop :=
  Forall sorted_block (ix_ret st) /\
  decreasing (map pidx (ix_next st)) = true /\
  (fst prev = true -> forall p, hd_error (ix_next st) = Some p -> pidx p < ix_old_idx st).

Lemma sorted_flush nx : decreasing (map pidx nx) = true -> sorted_block (rev nx).
Proof. intros H. unfold sorted_block. rewrite map_rev. apply decreasing_rev. exact H. Qed.

Lemma sort_inv_step loc lob st prev cur : sort_inv st prev -> sort_inv (ix_step loc lob st prev cur) cur.
Proof.
  destruct prev as [lo lbr], cur as [io br]. intros (Hret & Hdec & Hhd).
  unfold ix_step. cbn [fst] in Hhd.
  assert (Hret' : Forall sorted_block (match ix_next st with [] => ix_ret st | nx => rev nx :: ix_ret st end)).
  { destruct (ix_next st) as [|p nx] eqn:En; [exact Hret|]. constructor; [|exact Hret]. apply sorted_flush. exact Hdec. }
  destruct lo; cbn [negb].
  - (* previous label 'o': nothing flushed *)
    specialize (Hhd eq_refl).
    assert (Hcons : forall a b, decreasing (map pidx ((ix_old_idx st, a, b) :: ix_next st)) = true).
    { intros a b. destruct (ix_next st) as [|q nx] eqn:En; [reflexivity|].
      cbn [map decreasing] in *. rewrite Hdec, andb_true_r. apply Z.ltb_lt.
      change (pidx q < ix_old_idx st). apply Hhd. reflexivity. }
    destruct (br =? lbr); destruct io; cbn [negb andb]; unfold sort_inv; cbn [ix_ret ix_next ix_old_idx fst].
    + split; [exact Hret|split; [exact Hdec|]]. intros _ p Hp. specialize (Hhd p Hp). lia.
    + split; [exact Hret|split; [exact Hdec|]]. intros Hf. discriminate Hf.
    + split; [exact Hret|split; [apply Hcons|]]. intros _ p Hp. cbn [hd_error] in Hp. injection Hp as <-. cbn. lia.
    + split; [exact Hret|split; [apply Hcons|]]. intros Hf. discriminate Hf.
  - (* previous label 'n': the pending block is flushed first *)
    destruct (br =? lbr); destruct io; cbn [negb andb].
    + unfold sort_inv; cbn [ix_ret ix_next ix_old_idx fst].
      split; [exact Hret'|split; [reflexivity|]]. intros _ p Hp. discriminate Hp.
    + destruct (br =? lob); unfold sort_inv; cbn [ix_ret ix_next ix_old_idx fst];
        (split; [exact Hret'|split; [reflexivity|]]); intros Hf; discriminate Hf.
    + unfold sort_inv; cbn [ix_ret ix_next ix_old_idx fst].
      split; [exact Hret'|split; [reflexivity|]]. intros _ p Hp. cbn [hd_error] in Hp. injection Hp as <-. cbn. lia.
    + unfold sort_inv; cbn [ix_ret ix_next ix_old_idx fst].
      split; [exact Hret'|split; [reflexivity|]]. intros Hf. discriminate Hf.
Qed.

Lemma sort_inv_loop loc lob : forall rest st prev, sort_inv st prev -> exists last, sort_inv (ix_loop loc lob st prev rest) last.
Proof.
  induction rest as [|cur rest IH]; intros st prev H; cbn [ix_loop]; [eauto|].
  apply IH. apply sort_inv_step. exact H.
Qed.

Theorem intersect_1d_sorted old new : cw_sorted (intersect_1d old new) = true.
Proof.
  unfold cw_sorted. apply forallb_forall. intros ps Hin. change (sorted_block ps).
  revert ps Hin. apply Forall_forall.
  unfold intersect_1d. destruct (merge_breaks (cum0 old) (cum0 new)) as [|b0 rest]; [constructor|].
  destruct (sort_inv_loop (Z.of_nat (length old) - 1) (zsum old) rest (mk_ix 0 0 0 [] []) b0) as (last & Hret & Hdec & _).
  { repeat split; cbn; try constructor. intros _ p Hp. discriminate. }
  apply Forall_rev.
  destruct (ix_next _) as [|p nx] eqn:En; [exact Hret|]. constructor; [|exact Hret]. apply sorted_flush. exact Hdec.
Qed.

Lemma strictly_increasing_lt x t : strictly_increasing (x :: t) = true -> Forall (fun y => x < y) t.
Proof.
  revert x. induction t as [|y t IH]; intros x H; [constructor|].
  cbn [strictly_increasing] in H. apply andb_true_iff in H as [H1 H2].
  constructor; [lia|]. specialize (IH y H2). eapply Forall_impl; [|exact IH]. cbn. intros. lia.
Qed.

Lemma strictly_increasing_tl x t : strictly_increasing (x :: t) = true -> strictly_increasing t = true.
Proof. destruct t; [reflexivity|]. cbn [strictly_increasing]. intros H. apply andb_true_iff in H. tauto. Qed.

Lemma count_distinct_sorted l : strictly_increasing l = true -> count_distinct l = length l.
Proof.
  induction l as [|x t IH]; intros H; [reflexivity|]. cbn [count_distinct length].
  pose proof (strictly_increasing_lt x t H) as Hlt.
  assert (existsb (Z.eqb x) t = false) as ->.
  { destruct (existsb (Z.eqb x) t) eqn:E; [|reflexivity]. apply existsb_exists in E as (y & Hy & He).
    rewrite Forall_forall in Hlt. specialize (Hlt y Hy). lia. }
  rewrite IH; [reflexivity|]. eapply strictly_increasing_tl. exact H.
Qed.

(* ====================================================================== *)
(* split-task keys are unique and every merge input finds its split task *)

Definition skey (t : stask) : Z * Z := let '(i, k, _, _) := t in (i, k).

(* what a merge input must denote for piece p *)
Definition src_ok (old : list Z) (ss : list stask) (p : piece) (s : src) : Prop :=
  let '(i, a, b) := p in
  match s with
  | SrcOld i' => i' = i /\ a = 0 /\ b = nthZ old i
  | SrcSplit i' k => i' = i /\ In (i, k, a, b) ss
  end.

Lemma src_ok_weaken old ss ss' p s : (forall t, In t ss -> In t ss') -> src_ok old ss p s -> src_ok old ss' p s.
Proof. destruct p as [[i a] b], s as [i'|i' k]; cbn; intuition. Qed.

Lemma Forall2_impl {X Y} (P Q : X -> Y -> Prop) l l' : (forall x y, P x y -> Q x y) -> Forall2 P l l' -> Forall2 Q l l'.
Proof. intros H F. induction F; constructor; auto. Qed.

Lemma ctr_get_incr ctr i j : ctr_get (ctr_incr ctr i) j = if i =? j then ctr_get ctr i + 1 else ctr_get ctr j.
Proof. unfold ctr_incr. cbn [ctr_get]. destruct (i =? j) eqn:E; [|reflexivity]. reflexivity. Qed.

Lemma block_pieces_spec old : forall ps ctr srcs sp ctr',
  block_pieces old ps ctr = (srcs, sp, ctr') ->
  (forall i, ctr_get ctr i <= ctr_get ctr' i) /\
  (forall i k a b, In (i, k, a, b) sp -> ctr_get ctr i <= k < ctr_get ctr' i) /\
  NoDup (map skey sp) /\
  Forall2 (src_ok old sp) ps srcs.
Proof.
  induction ps as [|[[i a] b] t IH]; intros ctr srcs sp ctr' H; cbn [block_pieces] in H.
  - injection H as <- <- <-. split; [intros; lia|]. split; [intros i k a b []|]. split; constructor.
  - destruct ((a =? 0) && (b =? nthZ old i)) eqn:Ew.
    + destruct (block_pieces old t ctr) as [[srcs0 sp0] c0] eqn:Eb. injection H as <- <- <-.
      destruct (IH _ _ _ _ Eb) as (H1 & H2 & H3 & H4). split; [exact H1|]. split; [exact H2|]. split; [exact H3|].
      constructor; [|exact H4]. cbn. lia.
    + destruct (block_pieces old t (ctr_incr ctr i)) as [[srcs0 sp0] c0] eqn:Eb. injection H as <- <- <-.
      destruct (IH _ _ _ _ Eb) as (H1 & H2 & H3 & H4).
      assert (Hmono : forall j, ctr_get ctr j <= ctr_get c0 j).
      { intros j. specialize (H1 j). rewrite ctr_get_incr in H1. destruct (i =? j) eqn:E; [apply Z.eqb_eq in E; subst j|]; lia. }
      split; [exact Hmono|]. split; [|split].
      * intros i0 k0 a0 b0 [H|H].
        -- injection H as <- <- <- <-. specialize (H1 i). rewrite ctr_get_incr, Z.eqb_refl in H1. lia.
        -- apply H2 in H. specialize (Hmono i0). rewrite ctr_get_incr in H. destruct (i =? i0) eqn:E; [apply Z.eqb_eq in E; subst i0|]; lia.
      * cbn [map skey]. constructor; [|exact H3].
        intros Hin. apply in_map_iff in Hin as ([[[i' k'] a'] b'] & Hk & Hin). cbn in Hk. injection Hk as -> ->.
        apply H2 in Hin. rewrite ctr_get_incr, Z.eqb_refl in Hin. lia.
      * constructor; [cbn; auto|].
        eapply Forall2_impl; [|exact H4]. intros p s. apply src_ok_weaken. intros x Hx. right. exact Hx.
Qed.

Definition block_ok (old : list Z) (ss : list stask) (ps : list piece) (m : mtask) : Prop :=
  exists srcs, merge_of ps srcs = Some m /\ Forall2 (src_ok old ss) ps srcs.

Lemma NoDup_app_disjoint {X} (l1 l2 : list X) :
  NoDup l1 -> NoDup l2 -> (forall x, In x l1 -> In x l2 -> False) -> NoDup (l1 ++ l2).
Proof.
  induction l1 as [|x l1 IH]; intros H1 H2 Hd; [exact H2|]. cbn [app].
  inversion H1 as [|? ? Hx H1']; subst. constructor.
  - intros Hin. apply in_app_or in Hin as [Hin|Hin]; [contradiction|]. apply (Hd x); [left; reflexivity|exact Hin].
  - apply IH; [exact H1'|exact H2|]. intros y Hy1 Hy2. apply (Hd y); [right; exact Hy1|exact Hy2].
Qed.

Lemma graph_loop_spec old : forall cw ctr ms ss,
  graph_loop old cw ctr = Some (ms, ss) ->
  (forall i k a b, In (i, k, a, b) ss -> ctr_get ctr i <= k) /\
  NoDup (map skey ss) /\
  Forall2 (block_ok old ss) cw ms.
Proof.
  induction cw as [|ps rest IH]; intros ctr ms ss H; cbn [graph_loop] in H.
  - injection H as <- <-. repeat split; try constructor. intros i k a b [].
  - destruct (block_pieces old ps ctr) as [[srcs sp] ctr'] eqn:Eb.
    destruct (merge_of ps srcs) as [m|] eqn:Em; [|discriminate].
    destruct (graph_loop old rest ctr') as [[ms0 ss0]|] eqn:Eg; [|discriminate].
    injection H as <- <-.
    destruct (block_pieces_spec old _ _ _ _ _ Eb) as (B1 & B2 & B3 & B4).
    destruct (IH _ _ _ Eg) as (G1 & G2 & G3).
    repeat split.
    + intros i k a b Hin. apply in_app_or in Hin as [Hin|Hin].
      * apply B2 in Hin. lia.
      * apply G1 in Hin. specialize (B1 i). lia.
    + rewrite map_app. apply NoDup_app_disjoint; [exact B3|exact G2|].
      intros [i k] H1 H2.
      apply in_map_iff in H1 as ([[[i1 k1] a1] b1] & Hk1 & Hin1). cbn in Hk1. injection Hk1 as -> ->.
      apply in_map_iff in H2 as ([[[i2 k2] a2] b2] & Hk2 & Hin2). cbn in Hk2. injection Hk2 as -> ->.
      apply B2 in Hin1. apply G1 in Hin2. lia.
    + constructor.
      * exists srcs. split; [exact Em|]. eapply Forall2_impl; [|exact B4].
        intros p s. apply src_ok_weaken. intros x Hx. apply in_or_app. left. exact Hx.
      * eapply Forall2_impl; [|exact G3]. intros ps' m' (srcs' & Hm & Hf). exists srcs'. split; [exact Hm|].
        eapply Forall2_impl; [|exact Hf]. intros p s. apply src_ok_weaken. intros x Hx. apply in_or_app. right. exact Hx.
Qed.

Lemma find_unique_key ss : forall i k a b,
  NoDup (map skey ss) -> In (i, k, a, b) ss -> find (stask_key_eqb i k) ss = Some (i, k, a, b).
Proof.
  induction ss as [|[[[i' k'] a'] b'] ss IH]; intros i k a b Hnd Hin; [destruct Hin|].
  cbn [map skey] in Hnd. inversion Hnd as [|? ? Hx Hnd']; subst.
  cbn [find stask_key_eqb]. destruct Hin as [Hin|Hin].
  - injection Hin as -> -> -> ->. rewrite !Z.eqb_refl. reflexivity.
  - destruct ((i' =? i) && (k' =? k)) eqn:E.
    + exfalso. apply Hx. apply in_map_iff. exists (i, k, a, b). split; [|exact Hin]. cbn. f_equal; lia.
    + apply IH; assumption.
Qed.

(* ====================================================================== *)
(* G1: values *)
Section Values.
Context {A : Type}.
Variable old : list Z.
Variable xs : list A.
Hypothesis Hold : nonneg old.

Definition piece_value (p : piece) : list A := let '(i, a, b) := p in sub a b (block_at old xs i).

Lemma cum_nonneg j : 0 <= cum old j.
Proof.
  unfold cum. apply zsum_nonneg. rewrite Forall_forall in *. intros x Hx. apply Hold.
  rewrite <- (firstn_skipn j old). apply in_or_app. left. exact Hx.
Qed.

Lemma piece_value_global i a b :
  0 <= i < Z.of_nat (length old) -> 0 <= a -> a <= b -> b <= nthZ old i ->
  piece_value (i, a, b) = sub (nthZ (cum0 old) i + a) (nthZ (cum0 old) i + b) xs.
Proof.
  intros Hi Ha Hab Hb. unfold piece_value, block_at.
  apply sub_sub; try lia. rewrite cum0_nthZ by lia. apply cum_nonneg.
Qed.

Lemma tile_values : forall ps pos hi,
  pieces_tile (cum0 old) old ps pos hi = true ->
  concat (map piece_value ps) = sub pos hi xs.
Proof.
  induction ps as [|[[i a] b] t IH]; intros pos hi H; cbn [pieces_tile] in H.
  - apply Z.eqb_eq in H. subst hi. rewrite sub_nil. reflexivity.
  - repeat (apply andb_true_iff in H; let H' := fresh "Hc" in destruct H as [H H']).
    pose proof (pieces_tile_sound old t _ _ Hc) as (Hle & _ & _).
    unfold lenZ' in *.
    cbn [map concat]. rewrite (IH _ _ Hc), piece_value_global by lia.
    replace (nthZ (cum0 old) i + a) with pos by lia.
    apply sub_app; try lia.
    assert (0 <= nthZ (cum0 old) i) by (rewrite cum0_nthZ by lia; apply cum_nonneg). lia.
Qed.

Lemma src_ok_value ss p s :
  NoDup (map skey ss) -> piece_in_bounds old p ->
  src_ok old ss p s -> src_value old xs ss s = Some (piece_value p).
Proof.
  destruct p as [[i a] b], s as [i'|i' k]; cbn [src_ok src_value piece_in_bounds]; intros Hnd Hb H.
  - destruct H as (-> & -> & ->). f_equal. rewrite piece_value_global by lia. unfold block_at. f_equal; lia.
  - destruct H as (-> & Hin). rewrite (find_unique_key ss i k a b Hnd Hin). reflexivity.
Qed.

Lemma collect_opt_map_some {X Y} (f : X -> option Y) (g : X -> Y) l :
  Forall (fun x => f x = Some (g x)) l -> collect_opt (map f l) = Some (map g l).
Proof.
  induction 1 as [|x l Hx _ IH]; [reflexivity|]. cbn [map collect_opt]. rewrite Hx, IH. reflexivity.
Qed.

Lemma srcs_values ss : forall ps srcs,
  NoDup (map skey ss) -> Forall (piece_in_bounds old) ps -> Forall2 (src_ok old ss) ps srcs ->
  collect_opt (map (src_value old xs ss) srcs) = Some (map piece_value ps).
Proof.
  intros ps srcs Hnd Hb F. induction F as [|p s ps srcs Hps _ IH]; [reflexivity|].
  inversion Hb as [|? ? Hb1 Hb2]; subst. cbn [map collect_opt].
  rewrite (src_ok_value ss p s Hnd Hb1 Hps), (IH Hb2). reflexivity.
Qed.

Lemma block_ok_value ss ps m :
  NoDup (map skey ss) -> Forall (piece_in_bounds old) ps -> block_ok old ss ps m ->
  mtask_value old xs ss m = Some (concat (map piece_value ps)).
Proof.
  intros Hnd Hb (srcs & Hm & F). pose proof (srcs_values ss ps srcs Hnd Hb F) as Hv.
  unfold merge_of in Hm. destruct (negb _); [discriminate|].
  destruct srcs as [|s [|s' srcs]]; [discriminate| |].
  - injection Hm as <-. inversion F as [|p ? ? ? Hp F']; subst. inversion F'; subst.
    cbn [mtask_value]. cbn [map collect_opt] in Hv.
    destruct (src_value old xs ss s) as [v|]; [|discriminate]. injection Hv as ->.
    cbn [map concat]. rewrite app_nil_r. reflexivity.
  - injection Hm as <-. cbn [mtask_value]. rewrite Hv. reflexivity.
Qed.

(* the blocks of a layout, by running position *)
Fixpoint blocks_from (pos : Z) (cs : list Z) : list (list A) :=
  match cs with
  | [] => []
  | c :: t => sub pos (pos + c) xs :: blocks_from (pos + c) t
  end.

Lemma crosswalk_values ss : forall new cw ms pos,
  NoDup (map skey ss) ->
  crosswalk_ok_from (cum0 old) old new cw pos = true ->
  Forall2 (block_ok old ss) cw ms ->
  collect_opt (map (mtask_value old xs ss) ms) = Some (blocks_from pos new).
Proof.
  induction new as [|c new IH]; intros [|ps cw] ms pos Hnd H F; cbn [crosswalk_ok_from] in H; try discriminate.
  - inversion F; subst. reflexivity.
  - inversion F as [|? m ? ms' Hb F']; subst.
    apply andb_true_iff in H as [H H3]. apply andb_true_iff in H as [_ H2].
    pose proof (pieces_tile_sound old ps _ _ H2) as (_ & Hbounds & _).
    cbn [map collect_opt blocks_from].
    rewrite (block_ok_value ss ps m Hnd Hbounds Hb), (tile_values ps _ _ H2), (IH cw ms' (pos + c) Hnd H3 F').
    reflexivity.
Qed.
End Values.

Lemma blocks_from_blocks_of {A} (xs : list A) : forall cs pre,
  blocks_from xs (zsum pre) cs =
  map (fun j => block_at (pre ++ cs) xs (Z.of_nat j)) (seq (length pre) (length cs)).
Proof.
  induction cs as [|c cs IH]; intros pre; [reflexivity|].
  cbn [blocks_from length seq map]. f_equal.
  - unfold block_at. rewrite cum0_nthZ by (rewrite app_length; cbn [length]; lia).
    rewrite Nat2Z.id. unfold cum. rewrite firstn_app, firstn_all, Nat.sub_diag. cbn [firstn]. rewrite app_nil_r.
    unfold nthZ. rewrite Nat2Z.id, app_nth2, Nat.sub_diag by lia. reflexivity.
  - specialize (IH (pre ++ [c])). rewrite zsum_app in IH. cbn [zsum] in IH. rewrite Z.add_0_r in IH.
    rewrite IH, <- app_assoc, app_length. cbn [length app]. rewrite Nat.add_1_r. reflexivity.
Qed.

Lemma blocks_from_0 {A} (xs : list A) cs : blocks_from xs 0 cs = blocks_of cs xs.
Proof. exact (blocks_from_blocks_of xs cs []). Qed.

(* G1: for all valid layouts the modelled graph computes exactly the blocks of the new layout *)
Theorem rechunk_1d_blocks {A} old new (xs : list A) :
  nonneg old -> nonneg new -> old <> [] -> zsum old = zsum new ->
  run_rechunk_1d old new xs = Some (blocks_of new xs).
Proof.
  intros Ho Hn Hne Hs. unfold run_rechunk_1d, compute_rechunk_1d.
  pose proof (intersect_1d_ok_section old new Ho Hn Hne Hs) as Hok.
  pose proof (crosswalk_sound old new _ Hok) as [Hlen _].
  rewrite <- Hlen, firstn_all.
  destruct (graph_loop old (intersect_1d old new) []) as [[ms ss]|] eqn:Eg.
  - destruct (graph_loop_spec old _ _ _ _ Eg) as (_ & Hnd & F).
    rewrite <- blocks_from_0. eapply crosswalk_values; [exact Ho|exact Hnd|exact Hok|exact F].
  - exfalso. (* the graph construction cannot fail: indices are strictly increasing and blocks non-empty *)
    pose proof (intersect_1d_sorted old new) as Hsorted.
    pose proof (crosswalk_sound old new _ Hok) as [_ Hpieces].
    assert (Hall : Forall (fun ps => ps <> [] /\ sorted_block ps) (intersect_1d old new)).
    { apply Forall_forall. intros ps Hin. split.
      - apply In_nth_error in Hin as [j Hj]. exact (proj1 (Hpieces j ps Hj)).
      - unfold cw_sorted in Hsorted. rewrite forallb_forall in Hsorted. exact (Hsorted ps Hin). }
    clear - Eg Hall. revert Eg. generalize (@nil (Z * Z)) as ctr.
    induction Hall as [|ps rest [Hne Hs] _ IH]; intros ctr Eg; cbn [graph_loop] in Eg; [discriminate|].
    destruct (block_pieces old ps ctr) as [[srcs sp] ctr'] eqn:Eb.
    destruct (block_pieces_spec old _ _ _ _ _ Eb) as (_ & _ & _ & F).
    assert (merge_of ps srcs <> None) as Hm.
    { unfold merge_of. unfold sorted_block in Hs. change (map (fun p : Z * Z * Z => fst (fst p)) ps) with (map pidx ps). rewrite (count_distinct_sorted _ Hs), map_length, Nat.eqb_refl. cbn [negb].
      destruct srcs as [|s [|s' srcs]]; try discriminate. inversion F; subst. contradiction. }
    destruct (merge_of ps srcs) as [m|]; [|contradiction].
    destruct (graph_loop old rest ctr') as [[ms ss]|] eqn:Eg'; [discriminate|].
    exact (IH ctr' Eg').
Qed.

(* ---------------------------------------------------------------------- *)
(* consequences of G1: the new blocks concatenate to xs, have the advertised sizes, and block j is
   the segment [cum new j, cum new (j+1)) *)
Lemma blocks_from_concat {A} (xs : list A) : forall cs pos,
  nonneg cs -> 0 <= pos -> concat (blocks_from xs pos cs) = sub pos (pos + zsum cs) xs.
Proof.
  induction cs as [|c cs IH]; intros pos Hn Hp; cbn [blocks_from concat zsum].
  - rewrite Z.add_0_r, sub_nil. reflexivity.
  - inversion Hn as [|? ? Hc Hn']; subst. rewrite IH by (assumption || lia).
    pose proof (zsum_nonneg cs Hn'). rewrite sub_app by lia. f_equal. lia.
Qed.

Theorem blocks_of_concat {A} cs (xs : list A) :
  nonneg cs -> Z.of_nat (length xs) = zsum cs -> concat (blocks_of cs xs) = xs.
Proof.
  intros Hn Hl. rewrite <- blocks_from_0, blocks_from_concat by (assumption || lia).
  rewrite Z.add_0_l, <- Hl. apply sub_all.
Qed.

Lemma blocks_from_lengths {A} (xs : list A) : forall cs pos,
  nonneg cs -> 0 <= pos -> pos + zsum cs <= Z.of_nat (length xs) ->
  Forall2 (fun b c => Z.of_nat (length b) = c) (blocks_from xs pos cs) cs.
Proof.
  induction cs as [|c cs IH]; intros pos Hn Hp Hl; cbn [blocks_from zsum] in *; constructor.
  - inversion Hn as [|? ? Hc Hn']; subst. pose proof (zsum_nonneg cs Hn').
    rewrite sub_length by lia. lia.
  - inversion Hn as [|? ? Hc Hn']; subst. apply IH; [assumption|lia|lia].
Qed.

Theorem blocks_of_lengths {A} cs (xs : list A) :
  nonneg cs -> zsum cs <= Z.of_nat (length xs) ->
  Forall2 (fun b c => Z.of_nat (length b) = c) (blocks_of cs xs) cs.
Proof. intros Hn Hl. rewrite <- blocks_from_0. apply blocks_from_lengths; [assumption|lia|lia]. Qed.

Theorem blocks_of_nth {A} cs (xs : list A) j c :
  nth_error cs j = Some c ->
  nth_error (blocks_of cs xs) j = Some (sub (cum cs j) (cum cs (S j)) xs).
Proof.
  intros Hj. assert (j < length cs)%nat as Hlt by (apply nth_error_Some; congruence).
  unfold blocks_of. rewrite nth_error_map.
  assert (nth_error (seq 0 (length cs)) j = Some j) as ->.
  { rewrite (nth_error_nth' _ 0%nat) by (rewrite seq_length; exact Hlt). rewrite seq_nth by exact Hlt. reflexivity. }
  cbn [option_map]. f_equal. unfold block_at. rewrite cum0_nthZ by lia. rewrite Nat2Z.id.
  rewrite (cum_S cs j c Hj). unfold nthZ. rewrite Nat2Z.id, (nth_error_nth _ _ _ Hj). reflexivity.
Qed.

(* ---------------------------------------------------------------------- *)
(* G3: a new block that is one whole old block is an alias of it — and only then *)
Lemma graph_loop_alias old : forall cw ctr ms ss j i,
  graph_loop old cw ctr = Some (ms, ss) ->
  (nth_error cw j = Some [(i, 0, nthZ old i)] <-> nth_error ms j = Some (MAlias (SrcOld i))).
Proof.
  induction cw as [|ps rest IH]; intros ctr ms ss j i H; cbn [graph_loop] in H.
  - injection H as <- <-. destruct j; split; discriminate.
  - destruct (block_pieces old ps ctr) as [[srcs sp] ctr'] eqn:Eb.
    destruct (merge_of ps srcs) as [m|] eqn:Em; [|discriminate].
    destruct (graph_loop old rest ctr') as [[ms0 ss0]|] eqn:Eg; [|discriminate].
    injection H as <- <-. destruct j as [|j]; cbn [nth_error]; [|exact (IH _ _ _ j i Eg)].
    split; intros H.
    + injection H as ->. cbn [block_pieces] in Eb. rewrite !Z.eqb_refl in Eb. cbn [andb] in Eb.
      injection Eb as <- <- <-. cbn in Em. injection Em as <-. reflexivity.
    + injection H as ->. unfold merge_of in Em. destruct (negb _); [discriminate|].
      destruct srcs as [|s [|s' srcs]]; try discriminate. injection Em as ->.
      destruct ps as [|[[i' a] b] ps]; cbn [block_pieces] in Eb; [discriminate|].
      destruct ((a =? 0) && (b =? nthZ old i')) eqn:Ew.
      * destruct (block_pieces old ps ctr) as [[srcs0 sp0] c0] eqn:Eb'. injection Eb as E1 E2 E3 E4. subst i' srcs0 sp0 c0.
        destruct ps as [|[[i2 a2] b2] ps]; [|cbn [block_pieces] in Eb';
          destruct ((a2 =? 0) && (b2 =? nthZ old i2)); destruct (block_pieces old ps _) as [[? ?] ?]; discriminate].
        apply andb_true_iff in Ew as [E1 E2]. apply Z.eqb_eq in E1, E2. subst. reflexivity.
      * destruct (block_pieces old ps (ctr_incr ctr i')) as [[srcs0 sp0] c0]. discriminate.
Qed.

Theorem whole_block_alias {A} old new (xs : list A) ms ss j i :
  compute_rechunk_1d old new = Some (ms, ss) ->
  (nth_error (firstn (length new) (intersect_1d old new)) j = Some [(i, 0, nthZ old i)]
   <-> nth_error ms j = Some (MAlias (SrcOld i))) /\
  mtask_value old xs ss (MAlias (SrcOld i)) = Some (block_at old xs i).
Proof.
  intros H. split; [|reflexivity]. eapply graph_loop_alias. exact H.
Qed.

(* ---------------------------------------------------------------------- *)
(* G4: a multi-step plan *)
Lemma last_cons_default {X} (l : list X) : forall x d d', last (x :: l) d = last (x :: l) d'.
Proof. induction l as [|y l IH]; intros x d d'; [reflexivity|]. exact (IH y d d'). Qed.

Theorem run_plan_1d_blocks {A} : forall steps cur (xs : list A),
  nonneg cur -> cur <> [] -> Z.of_nat (length xs) = zsum cur ->
  Forall (fun s => nonneg s /\ s <> [] /\ zsum s = zsum cur) steps ->
  run_plan_1d cur steps xs = Some (blocks_of (last steps cur) xs).
Proof.
  induction steps as [|s rest IH]; intros cur xs Hc Hne Hl Hs; [reflexivity|].
  inversion Hs as [|? ? (Hs1 & Hs2 & Hs3) Hs']; subst.
  cbn [run_plan_1d]. rewrite rechunk_1d_blocks by (assumption || congruence).
  rewrite blocks_of_concat by (assumption || congruence).
  rewrite IH; try assumption; try congruence.
  - f_equal. f_equal. destruct rest as [|l rest']; [reflexivity|]. change (last (l :: rest') s = last (l :: rest') cur). apply last_cons_default.
  - eapply Forall_impl; [|exact Hs']. cbn. intros a (H1 & H2 & H3). repeat split; try assumption. congruence.
Qed.

(* ---------------------------------------------------------------------- *)
(* G5: 2-D — the block matrix assembled from the product of two per-axis tilings *)
Lemma zip_app_map {B X} (f g : X -> list B) (R : list X) :
  zip_app (map f R) (map g R) = map (fun r => f r ++ g r) R.
Proof. induction R as [|r R IH]; [reflexivity|]. cbn [map zip_app]. rewrite IH. reflexivity. Qed.

Lemma fold_zip_app_map {B X P} (f : P -> X -> list B) (R : list X) : forall (t : list P) (g : X -> list B),
  fold_left zip_app (map (fun p => map (f p) R) t) (map g R) =
  map (fun r => g r ++ concat (map (fun p => f p r) t)) R.
Proof.
  induction t as [|p t IH]; intros g; cbn [map fold_left concat].
  - apply map_ext. intros r. rewrite app_nil_r. reflexivity.
  - rewrite zip_app_map, IH. apply map_ext. intros r. rewrite app_assoc. reflexivity.
Qed.

Lemma hcat_map {B X P} (f : P -> X -> list B) (R : list X) (ps : list P) :
  ps <> [] -> hcat (map (fun p => map (f p) R) ps) = map (fun r => concat (map (fun p => f p r) ps)) R.
Proof.
  destruct ps as [|p t]; [congruence|]. intros _. cbn [map hcat]. rewrite fold_zip_app_map. reflexivity.
Qed.

Lemma piece_value2_rows {B} old0 old1 (m : list (list B)) p0 p1 :
  piece_value2 old0 old1 m p0 p1 = map (fun r => piece_value old1 r p1) (piece_value old0 m p0).
Proof.
  destruct p0 as [[i0 a0] b0], p1 as [[i1 a1] b1]. unfold piece_value2, piece_value, block_at2, block_at, sub2.
  rewrite sub_map, map_map. reflexivity.
Qed.

Theorem assemble2_block {B} old0 old1 (m : list (list B)) ps0 ps1 lo0 hi0 lo1 hi1 :
  nonneg old0 -> nonneg old1 -> ps1 <> [] ->
  pieces_tile (cum0 old0) old0 ps0 lo0 hi0 = true ->
  pieces_tile (cum0 old1) old1 ps1 lo1 hi1 = true ->
  assemble2 old0 old1 m ps0 ps1 = sub2 lo0 hi0 lo1 hi1 m.
Proof.
  intros H0 H1 Hne T0 T1. unfold assemble2, sub2.
  rewrite <- (tile_values old0 m H0 ps0 lo0 hi0 T0), concat_map, map_map. f_equal.
  apply map_ext. intros p0.
  rewrite (map_ext _ _ (fun p1 => piece_value2_rows old0 old1 m p0 p1)).
  rewrite (hcat_map (fun p1 r => piece_value old1 r p1)) by exact Hne.
  apply map_ext. intros r. exact (tile_values old1 r H1 ps1 lo1 hi1 T1).
Qed.

Lemma crosswalk_nth_tile old : forall new cw pos j ps,
  crosswalk_ok_from (cum0 old) old new cw pos = true -> nth_error cw j = Some ps ->
  ps <> [] /\ exists c, nth_error new j = Some c /\
  pieces_tile (cum0 old) old ps (pos + cum new j) (pos + cum new (S j)) = true.
Proof.
  induction new as [|c new IH]; intros [|ps0 cw] pos j ps H Hj; cbn [crosswalk_ok_from] in H; try discriminate.
  - destruct j; discriminate.
  - apply andb_true_iff in H as [H H3]. apply andb_true_iff in H as [H1 H2].
    destruct j as [|j]; cbn [nth_error] in *.
    + injection Hj as <-. split; [destruct ps0; [discriminate|congruence]|]. exists c. split; [reflexivity|].
      unfold cum. cbn [firstn zsum]. rewrite Z.add_0_r, Z.add_0_r. exact H2.
    + destruct (IH cw (pos + c) j ps H3 Hj) as (Hne & c' & Hc' & Ht). split; [exact Hne|]. exists c'. split; [exact Hc'|].
      unfold cum in *. cbn [firstn zsum]. rewrite !Z.add_assoc. exact Ht.
Qed.

(* the 2-D product statement in terms of the computed crosswalks: block (j0, j1) of the rechunked
   matrix, assembled by concatenate3 from the product of the per-axis piece lists, is block (j0, j1)
   of the new layout *)
Theorem rechunk_2d_block {B} old0 old1 new0 new1 (m : list (list B)) j0 j1 ps0 ps1 :
  nonneg old0 -> nonneg new0 -> old0 <> [] -> zsum old0 = zsum new0 ->
  nonneg old1 -> nonneg new1 -> old1 <> [] -> zsum old1 = zsum new1 ->
  nth_error (intersect_1d old0 new0) j0 = Some ps0 ->
  nth_error (intersect_1d old1 new1) j1 = Some ps1 ->
  assemble2 old0 old1 m ps0 ps1 = block_at2 new0 new1 m (Z.of_nat j0) (Z.of_nat j1).
Proof.
  intros Ho0 Hn0 Hne0 Hs0 Ho1 Hn1 Hne1 Hs1 Hj0 Hj1.
  pose proof (intersect_1d_ok_section old0 new0 Ho0 Hn0 Hne0 Hs0) as Hok0.
  pose proof (intersect_1d_ok_section old1 new1 Ho1 Hn1 Hne1 Hs1) as Hok1.
  destruct (crosswalk_nth_tile old0 new0 _ 0 j0 ps0 Hok0 Hj0) as (_ & c0 & Hc0 & T0).
  destruct (crosswalk_nth_tile old1 new1 _ 0 j1 ps1 Hok1 Hj1) as (Hne & c1 & Hc1 & T1).
  rewrite !Z.add_0_l in T0, T1.
  rewrite (assemble2_block old0 old1 m ps0 ps1 _ _ _ _ Ho0 Ho1 Hne T0 T1).
  assert (j0 < length new0)%nat by (apply nth_error_Some; congruence).
  assert (j1 < length new1)%nat by (apply nth_error_Some; congruence).
  unfold block_at2. rewrite !cum0_nthZ by lia. rewrite !Nat2Z.id.
  rewrite (cum_S new0 j0 c0 Hc0), (cum_S new1 j1 c1 Hc1).
  unfold nthZ. rewrite !Nat2Z.id, (nth_error_nth _ _ _ Hc0), (nth_error_nth _ _ _ Hc1). reflexivity.
Qed.

(* ====================================================================== *)
(* N3: _balance_chunksizes *)
Lemma In_zrange1 a b x : In x (zrange a b 1) -> a <= x < b.
Proof.
  unfold zrange. intros H. apply in_map_iff in H as (i & <- & Hi). apply in_seq in Hi.
  unfold range_len in Hi. cbn [Z.gtb Z.compare] in Hi.
  destruct (a <? b) eqn:E; [|cbn in Hi; lia].
  rewrite Z.div_1_r in Hi. lia.
Qed.

Lemma collect_res_in {X} (l : list (res X)) : forall r, collect_res l = Ok r -> forall y, In y r -> In (Ok y) l.
Proof.
  induction l as [|[a|e] l IH]; intros r H y Hy; cbn [collect_res] in H.
  - injection H as <-. destruct Hy.
  - destruct (collect_res l) as [r0|] eqn:E; [|discriminate]. injection H as <-.
    destruct Hy as [->|Hy]; [left; reflexivity|right; exact (IH r0 eq_refl y Hy)].
  - discriminate.
Qed.

Lemma best_of_in : forall rest best, In (best_of best rest) (best :: rest).
Proof.
  induction rest as [|c t IH]; intros best; cbn [best_of]; [left; reflexivity|].
  destruct (spread c <? spread best).
  - destruct (IH c) as [H|H]; [right; left; exact H|right; right; exact H].
  - destruct (IH best) as [H|H]; [left; exact H|right; right; exact H].
Qed.

Lemma get_chunks_sum n c r : 0 <= n -> 1 <= c -> get_chunks n c = Ok r -> zsum r = n.
Proof.
  intros Hn Hc H. unfold get_chunks in H. destruct (c =? 0) eqn:E; [lia|]. injection H as <-.
  assert (0 <= n / c) as Hq by (apply Z.div_pos; lia).
  pose proof (Z.div_mod n c ltac:(lia)) as Hdm.
  rewrite zsum_app, zsum_repeat, Z2Nat.id by exact Hq.
  destruct (n mod c =? 0) eqn:Em; cbn [zsum]; [apply Z.eqb_eq in Em|]; lia.
Qed.

Lemma get_chunks_pos n c r : 1 <= n -> 1 <= c -> get_chunks n c = Ok r -> r <> [] /\ Forall (fun x => 0 < x) r.
Proof.
  intros Hn Hc H. unfold get_chunks in H. destruct (c =? 0) eqn:E; [lia|]. injection H as <-. split.
  - destruct (n mod c =? 0) eqn:Em.
    + apply Z.eqb_eq in Em. pose proof (Z.div_mod n c ltac:(lia)) as Hdm.
      assert (0 <= n / c) as Hq by (apply Z.div_pos; lia).
      assert (n / c <> 0) as Hq' by (intros Hz; rewrite Hz in Hdm; lia).
      destruct (Z.to_nat (n / c)) eqn:Ek; [lia|]. cbn. discriminate.
    + intros Hnil. apply app_eq_nil in Hnil as [_ Hnil]. discriminate.
  - apply Forall_app. split.
    + apply Forall_forall. intros x Hx. apply repeat_spec in Hx. lia.
    + destruct (n mod c =? 0) eqn:Em; constructor; [lia|constructor].
Qed.

Lemma balance_inv median chunks r :
  balance_chunksizes median chunks = Ok r ->
  r = chunks \/ (chunks <> [] /\ pymin chunks <> 0 /\ exists c, 1 <= c /\ get_chunks (zsum chunks) c = Ok r).
Proof.
  unfold balance_chunksizes. destruct chunks as [|x t]; [discriminate|]. set (chunks := x :: t).
  destruct (pymin chunks =? 0) eqn:Ez; [intros H; injection H as <-; left; reflexivity|].
  destruct (collect_res _) as [new_chunks|] eqn:Ec; [|discriminate].
  destruct (filter _ new_chunks) as [|p ps] eqn:Ef; intros H; injection H as <-; [left; reflexivity|].
  right. split; [discriminate|]. split; [lia|].
  assert (In (best_of p ps) new_chunks) as Hin.
  { pose proof (best_of_in ps p) as Hb. rewrite <- Ef in Hb. apply filter_In in Hb. tauto. }
  apply (collect_res_in _ _ Ec) in Hin. apply in_map_iff in Hin as (c & Hg & Hc).
  apply In_zrange1 in Hc. exists c. split; [|exact Hg].
  unfold get_chunks in Hg. destruct (c =? 0) eqn:E0; [discriminate|]. lia.
Qed.

(* for EVERY value of the median oracle *)
Theorem balance_preserves_sum median chunks r :
  0 <= zsum chunks -> balance_chunksizes median chunks = Ok r -> zsum r = zsum chunks.
Proof.
  intros Hn H. apply balance_inv in H as [->|(_ & _ & c & Hc & Hg)]; [reflexivity|].
  exact (get_chunks_sum _ _ _ Hn Hc Hg).
Qed.

Lemma fold_min_nonneg t : forall d, nonneg t -> 0 <= d -> 0 <= fold_right Z.min d t.
Proof. induction t as [|x t IH]; intros d Hn Hd; cbn [fold_right]; [exact Hd|]. inversion Hn; subst. specialize (IH d H2 Hd). lia. Qed.

Lemma nonneg_sum0_pymin l : nonneg l -> l <> [] -> zsum l = 0 -> pymin l = 0.
Proof.
  destruct l as [|x t]; [congruence|]. intros Hn _ Hs. inversion Hn as [|? ? Hx Ht]; subst.
  cbn [zsum] in Hs. pose proof (zsum_nonneg t Ht). assert (x = 0) by lia. subst x.
  unfold pymin. cbn [hd fold_right]. pose proof (fold_min_nonneg t 0 Ht). lia.
Qed.

Lemma axis_layout_ok_iff cs n : axis_layout_ok cs n = true <-> cs <> [] /\ nonneg cs /\ zsum cs = n.
Proof.
  unfold axis_layout_ok. rewrite !andb_true_iff, all_nonneg_iff, Z.eqb_eq.
  destruct cs; cbn [is_nil negb]; split; intros H; try tauto; try (intuition congruence).
Qed.

(* balancing keeps a valid layout valid — for every median *)
Theorem balance_layout median chunks n r :
  axis_layout_ok chunks n = true -> balance_chunksizes median chunks = Ok r -> axis_layout_ok r n = true.
Proof.
  intros Hl H. apply axis_layout_ok_iff in Hl as (Hne & Hnn & Hs).
  apply balance_inv in H as [->|(_ & Hmin & c & Hc & Hg)]; [apply axis_layout_ok_iff; tauto|].
  pose proof (zsum_nonneg chunks Hnn) as H0.
  assert (1 <= zsum chunks) as H1.
  { destruct (Z.eq_dec (zsum chunks) 0) as [E|E]; [|lia]. exfalso. apply Hmin. apply nonneg_sum0_pymin; assumption. }
  destruct (get_chunks_pos _ _ _ H1 Hc Hg) as [Hr1 Hr2].
  apply axis_layout_ok_iff. split; [exact Hr1|]. split.
  - eapply Forall_impl; [|exact Hr2]. cbn. intros. lia.
  - rewrite (get_chunks_sum _ _ _ H0 Hc Hg). exact Hs.
Qed.

Lemma balance_all_layout : forall cs medians shape cs',
  NormChunks.layout_ok cs shape = true -> balance_all medians cs = Ok cs' -> NormChunks.layout_ok cs' shape = true.
Proof.
  unfold NormChunks.layout_ok.
  induction cs as [|c cs IH]; intros medians shape cs' Hl H; cbn [balance_all] in H.
  - injection H as <-. exact Hl.
  - destruct (balance_chunksizes (hd 0 medians) c) as [c'|] eqn:Eb; [|discriminate].
    destruct (balance_all (tl medians) cs) as [r|] eqn:Er; [|discriminate]. injection H as <-.
    destruct shape as [|n shape]; [cbn in Hl; discriminate|].
    cbn [length Nat.eqb combine forallb fst snd] in *.
    apply andb_true_iff in Hl as [Hl1 Hl2]. apply andb_true_iff in Hl2 as [Ha Hf].
    specialize (IH (tl medians) shape r). rewrite Hl1, Hf in IH. specialize (IH eq_refl Er).
    apply andb_true_iff in IH as [I1 I2]. rewrite I1, I2, (balance_layout _ _ _ _ Ha Eb). reflexivity.
Qed.

(* ====================================================================== *)
(* N2: _validate_rechunk *)
Lemma sum_opt_known l : sum_opt (map Some l) = Some (zsum l).
Proof. induction l as [|x l IH]; [reflexivity|]. cbn [map sum_opt fold_right] in *. fold (sum_opt (map Some l)). rewrite IH. reflexivity. Qed.

Theorem validate_rechunk_known_iff : forall old new,
  validate_rechunk (known old) (known new) = true <-> length old = length new /\ map zsum old = map zsum new.
Proof.
  unfold validate_rechunk, known. intros old new. rewrite andb_true_iff, !map_length, Nat.eqb_eq.
  split; intros [Hl H]; (split; [exact Hl|]); revert new Hl H.
  - induction old as [|o old IH]; intros [|n new] Hl H; cbn [length] in Hl; try discriminate; [reflexivity|].
    cbn [map combine forallb fst snd] in *. apply andb_true_iff in H as [H1 H2].
    unfold validate_axis_ok in H1. rewrite !sum_opt_known in H1. apply Z.eqb_eq in H1.
    f_equal; [exact H1|]. apply IH; [lia|exact H2].
  - induction old as [|o old IH]; intros [|n new] Hl H; cbn [length] in Hl; try discriminate; [reflexivity|].
    cbn [map combine forallb fst snd] in *. injection H as H1 H2. apply andb_true_iff. split.
    + unfold validate_axis_ok. rewrite !sum_opt_known. apply Z.eqb_eq. exact H1.
    + apply IH; [lia|exact H2].
Qed.

Lemma oZ_list_eqb_eq a b : list_eqb oZ_eqb a b = true <-> a = b.
Proof. apply list_eqb_eq. apply oZ_eqb_eq. Qed.

(* an axis with an unknown (nan) size is accepted only when its chunks are left untouched *)
Theorem validate_axis_unknown o n : sum_opt o = None -> (validate_axis_ok o n = true <-> n = o).
Proof.
  intros Ho. unfold validate_axis_ok. rewrite Ho. split.
  - destruct (sum_opt n); [discriminate|]. intros H. apply oZ_list_eqb_eq in H. congruence.
  - intros ->. rewrite Ho. apply oZ_list_eqb_eq. reflexivity.
Qed.

Theorem validate_axis_known o n a : sum_opt o = Some a -> (validate_axis_ok o n = true <-> sum_opt n = Some a).
Proof.
  intros Ho. unfold validate_axis_ok. rewrite Ho. destruct (sum_opt n) as [b|]; split; intros H; try discriminate.
  - apply Z.eqb_eq in H. congruence.
  - injection H as ->. apply Z.eqb_refl.
Qed.

(* ====================================================================== *)
(* N1: Rechunk.chunks *)
Lemma normalize_tail_layout specs shape cs :
  Forall (fun n => 0 <= n) shape -> normalize_tail specs shape = Ok cs -> NormChunks.layout_ok cs shape = true.
Proof.
  intros Hsh H. unfold normalize_tail in H.
  destruct (convert_all specs shape) as [chunks|] eqn:Hc; [|discriminate].
  destruct (existsb is_nil chunks) eqn:Hnil; [discriminate|].
  destruct (existsb (fun c => existsb (fun x => x <? 0) c) chunks) eqn:Hneg; [discriminate|].
  destruct (convert_all_nth specs shape chunks Hc) as (L1 & L2 & _).
  assert (forallb (fun p => zsum (fst p) =? snd p) (combine chunks shape) = true) as Hsum.
  { destruct (forallb is_int_spec specs) eqn:Hint; cbn [negb andb] in H.
    - eapply convert_all_int_sums; eassumption.
    - destruct (forallb _ (combine chunks shape)); [reflexivity|discriminate]. }
  assert (cs = chunks) as ->.
  { destruct (negb (forallb is_int_spec specs) && negb (forallb (fun p => zsum (fst p) =? snd p) (combine chunks shape)));
      [discriminate|]. injection H as <-. reflexivity. }
  unfold NormChunks.layout_ok. apply andb_true_iff. split; [apply Nat.eqb_eq; exact L1|].
  apply checks_layout; assumption.
Qed.

(* every accepted specification yields a valid layout of the shape — for ALL values of the
   auto_chunks oracle *)
Theorem normalize_chunks_prev_layout auto_out specs shape cs :
  Forall (fun n => 0 <= n) shape ->
  normalize_chunks_prev auto_out specs shape = Ok cs -> NormChunks.layout_ok cs shape = true.
Proof.
  intros Hsh H. unfold normalize_chunks_prev in H.
  destruct (negb (Nat.eqb (length specs) (length shape))); [discriminate|].
  destruct (count_autos _ =? 0).
  - eapply normalize_tail_layout; eassumption.
  - destruct auto_out as [ao|]; [|discriminate]. eapply normalize_tail_layout; eassumption.
Qed.

(* without "auto" axes the model is normalize_chunks of C16 (the oracles are not consulted) *)
Theorem normalize_chunks_prev_noauto auto_out sizes specs shape :
  count_autos (subst_all specs shape) = 0 ->
  normalize_chunks_prev auto_out specs shape = normalize_chunks sizes specs shape.
Proof.
  intros H0. unfold normalize_chunks_prev, normalize_chunks. fold (subst_all specs shape).
  destruct (negb (Nat.eqb (length specs) (length shape))); [reflexivity|].
  rewrite H0. cbn [Z.eqb]. rewrite auto_chunks_done by (rewrite H0; reflexivity).
  reflexivity.
Qed.

Theorem rechunk_chunks_inv auto_out medians old spec limit balance cs :
  rechunk_chunks auto_out medians old spec limit balance = Ok cs ->
  exists m cs0,
    merge_spec spec old = Ok m /\
    normalize_chunks_prev auto_out (map to_aspec (empty_fix m (map zsum old))) (map zsum old) = Ok cs0 /\
    (if balance then balance_all medians cs0 = Ok cs else cs = cs0) /\
    validate_rechunk (known old) (known cs) = true.
Proof.
  unfold rechunk_chunks. intros H.
  destruct (merge_spec spec old) as [m|] eqn:Em; [|discriminate].
  destruct (negb (Nat.eqb _ _)); [discriminate|].
  destruct (resolve_limit limit _); [|discriminate].
  destruct (normalize_chunks_prev _ _ _) as [cs0|] eqn:En; [|discriminate].
  exists m, cs0. split; [reflexivity|]. split; [exact En|].
  destruct balance.
  - destruct (balance_all medians cs0) as [cs'|] eqn:Eb; [|discriminate].
    destruct (validate_rechunk (known old) (known cs')) eqn:Ev; [|discriminate]. injection H as <-. tauto.
  - destruct (validate_rechunk (known old) (known cs0)) eqn:Ev; [|discriminate]. injection H as <-. tauto.
Qed.

(* the chunks of a rechunk are a valid layout of x's shape, whatever the spec, the oracles and
   `balance` — and sum per axis to the old extents *)
Theorem rechunk_chunks_layout auto_out medians old spec limit balance cs :
  Forall nonneg old ->
  rechunk_chunks auto_out medians old spec limit balance = Ok cs ->
  NormChunks.layout_ok cs (map zsum old) = true /\ length cs = length old /\ map zsum cs = map zsum old.
Proof.
  intros Hold H. apply rechunk_chunks_inv in H as (m & cs0 & _ & Hn & Hb & Hv).
  assert (Forall (fun n => 0 <= n) (map zsum old)) as Hsh.
  { apply Forall_forall. intros n Hn'. apply in_map_iff in Hn' as (c & <- & Hc).
    apply zsum_nonneg. rewrite Forall_forall in Hold. exact (Hold c Hc). }
  pose proof (normalize_chunks_prev_layout _ _ _ _ Hsh Hn) as Hl0.
  apply validate_rechunk_known_iff in Hv as [Hlen Hsum].
  split; [|split; [symmetry; exact Hlen|symmetry; exact Hsum]].
  destruct balance; [|subst; exact Hl0]. eapply balance_all_layout; eassumption.
Qed.

(* zip() in Rechunk.chunks drops the entries of a tuple spec beyond x.ndim: they are never looked at *)
Lemma combine_firstn_l {X Y} : forall (l : list X) (r : list Y), combine (firstn (length r) l) r = combine l r.
Proof.
  induction l as [|x l IH]; intros [|y r]; cbn [length firstn combine]; try reflexivity. rewrite IH. reflexivity.
Qed.

Theorem tuple_entries_beyond_ndim_ignored auto_out medians old l limit balance :
  rechunk_chunks auto_out medians old (STuple l) limit balance =
  rechunk_chunks auto_out medians old (STuple (firstn (length old) l)) limit balance.
Proof. unfold rechunk_chunks, merge_spec. rewrite combine_firstn_l. reflexivity. Qed.

(* ====================================================================== *)
(* packaged forms used by Properties/C14.v *)
Theorem rechunk_1d_values {A} old new (xs : list A) :
  nonneg old -> nonneg new -> old <> [] -> zsum old = zsum new -> Z.of_nat (length xs) = zsum old ->
  exists blocks,
    run_rechunk_1d old new xs = Some blocks /\
    concat blocks = xs /\
    Forall2 (fun b c => Z.of_nat (length b) = c) blocks new.
Proof.
  intros Ho Hn Hne Hs Hl. exists (blocks_of new xs). split; [apply rechunk_1d_blocks; assumption|]. split.
  - apply blocks_of_concat; [assumption|congruence].
  - apply blocks_of_lengths; [assumption|lia].
Qed.

Theorem rechunk_1d_block_content {A} old new (xs : list A) :
  nonneg old -> nonneg new -> old <> [] -> zsum old = zsum new ->
  exists blocks,
    run_rechunk_1d old new xs = Some blocks /\
    forall j c, nth_error new j = Some c ->
      nth_error blocks j = Some (sub (cum new j) (cum new (S j)) xs).
Proof.
  intros Ho Hn Hne Hs. exists (blocks_of new xs). split; [apply rechunk_1d_blocks; assumption|].
  intros j c Hj. exact (blocks_of_nth new xs j c Hj).
Qed.

(* the graph construction itself never fails (no IndexError / missing key) on valid layouts *)
Theorem compute_rechunk_1d_total old new :
  nonneg old -> nonneg new -> old <> [] -> zsum old = zsum new ->
  exists ms ss, compute_rechunk_1d old new = Some (ms, ss) /\ length ms = length new.
Proof.
  intros Ho Hn Hne Hs. pose proof (rechunk_1d_blocks old new (@nil unit) Ho Hn Hne Hs) as H.
  unfold run_rechunk_1d in H. destruct (compute_rechunk_1d old new) as [[ms ss]|]; [|discriminate].
  exists ms, ss. split; [reflexivity|].
  assert (forall (Y : Type) (l : list (option Y)) (r : list Y), collect_opt l = Some r -> length l = length r) as Hlen.
  { intros Y l. induction l as [|[a|] l IH]; intros r Hr; cbn [collect_opt] in Hr; try discriminate.
    - injection Hr as <-. reflexivity.
    - destruct (collect_opt l) as [r0|]; [|discriminate]. injection Hr as <-. cbn [length]. f_equal. apply IH. reflexivity. }
  apply Hlen in H. rewrite map_length in H. rewrite H. unfold blocks_of. rewrite map_length, seq_length. reflexivity.
Qed.

(* ====================================================================== *)
(* the N-D structural model at rank 1 is the 1-D model *)
Lemma cart_single {X} (l : list X) : cart [l] = map (fun x => [x]) l.
Proof. induction l as [|x l IH]; [reflexivity|]. cbn [cart flat_map map app] in *. rewrite IH. reflexivity. Qed.

Definition ctr_nd (c : counter) : ndcounter := map (fun kv : Z * Z => ([fst kv], snd kv)) c.

Lemma ndctr_get_single c i : ndctr_get (ctr_nd c) [i] = ctr_get c i.
Proof.
  induction c as [|[k v] c IH]; [reflexivity|]. cbn [ctr_nd map ndctr_get ctr_get fst snd].
  unfold zlist_eqb. cbn [list_eqb]. rewrite andb_true_r. destruct (k =? i); [reflexivity|exact IH].
Qed.

Definition stask_to_nd (t : stask) : ndstask := let '(i, k, a, b) := t in ([i], k, [(a, b)]).

Lemma nd_block_pieces_single o : forall ps ctr,
  nd_block_pieces [o] (map (fun p => [p]) ps) (ctr_nd ctr) =
  let '(srcs, sp, c') := block_pieces o ps ctr in (map src_to_nd srcs, map stask_to_nd sp, ctr_nd c').
Proof.
  induction ps as [|[[i a] b] t IH]; intros ctr; [reflexivity|].
  cbn [map nd_block_pieces block_pieces nd_whole combine forallb nd_index nd_slices fst snd].
  rewrite andb_true_r. destruct ((a =? 0) && (b =? nthZ o i)).
  - rewrite IH. destruct (block_pieces o t ctr) as [[srcs sp] c']. reflexivity.
  - rewrite ndctr_get_single.
    change (([i], ctr_get ctr i + 1) :: ctr_nd ctr) with (ctr_nd (ctr_incr ctr i)).
    rewrite IH. destruct (block_pieces o t (ctr_incr ctr i)) as [[srcs sp] c']. reflexivity.
Qed.

Definition mtask_to_nd (m : mtask) : ndmtask :=
  match m with
  | MAlias s => NAlias (src_to_nd s)
  | MConcat l => NConcat [length l] (map src_to_nd l)
  end.

Lemma block_pieces_length o : forall ps ctr, length (fst (fst (block_pieces o ps ctr))) = length ps.
Proof.
  induction ps as [|[[i a] b] t IH]; intros ctr; [reflexivity|]. cbn [block_pieces].
  destruct ((a =? 0) && (b =? nthZ o i)).
  - specialize (IH ctr). destruct (block_pieces o t ctr) as [[srcs sp] c']. cbn [fst length] in *. congruence.
  - specialize (IH (ctr_incr ctr i)). destruct (block_pieces o t (ctr_incr ctr i)) as [[srcs sp] c']. cbn [fst length] in *. congruence.
Qed.

Lemma nd_merge_of_single ps srcs :
  length srcs = length ps ->
  nd_merge_of 1 (map (fun p => [p]) ps) (map src_to_nd srcs) = option_map mtask_to_nd (merge_of ps srcs).
Proof.
  intros Hl. unfold nd_merge_of, merge_of, nd_subdims. cbn [seq map fold_right].
  rewrite !map_map. cbn [nth]. rewrite Nat.mul_1_r, map_length.
  unfold piece in *.
  destruct (Nat.eqb (count_distinct (map (fun p : Z * Z * Z => fst (fst p)) ps)) (length ps)) eqn:E; cbn [negb]; [|reflexivity].
  apply Nat.eqb_eq in E. rewrite E. cbn [forallb]. rewrite andb_true_r.
  destruct srcs as [|s [|s' srcs]]; cbn [map option_map mtask_to_nd length] in *.
  - reflexivity.
  - rewrite <- Hl. reflexivity.
  - rewrite <- Hl. cbn [Nat.eqb]. reflexivity.
Qed.

Lemma nd_graph_loop_single o : forall cw ctr,
  nd_graph_loop [o] (map (map (fun p => [p])) cw) (ctr_nd ctr) =
  option_map (fun g : list mtask * list stask => (map mtask_to_nd (fst g), map stask_to_nd (snd g))) (graph_loop o cw ctr).
Proof.
  induction cw as [|ps rest IH]; intros ctr; [reflexivity|].
  cbn [map nd_graph_loop graph_loop length]. rewrite nd_block_pieces_single.
  pose proof (block_pieces_length o ps ctr) as Hlen.
  destruct (block_pieces o ps ctr) as [[srcs sp] ctr'] eqn:Eb. cbn [fst] in Hlen.
  rewrite (nd_merge_of_single ps srcs Hlen), IH.
  destruct (merge_of ps srcs) as [m|]; cbn [option_map]; [|reflexivity].
  destruct (graph_loop o rest ctr') as [[ms ss]|]; cbn [option_map fst snd map]; [|reflexivity].
  rewrite map_app. reflexivity.
Qed.

Theorem compute_rechunk_nd_rank1 o n : compute_rechunk_nd [o] [n] = graph1_as_nd (compute_rechunk_1d o n).
Proof.
  unfold compute_rechunk_nd, compute_rechunk_1d, intersect_chunks, old_to_new, number_of_blocks.
  cbn [combine map fst snd zprod fold_right]. rewrite cart_single, map_map.
  assert (Z.to_nat (lenZ' n * 1) = length n) as -> by (unfold lenZ'; lia).
  rewrite (map_ext _ (map (fun p => [p])) (fun ps => cart_single ps)).
  rewrite firstn_map. change (@nil (list Z * Z)) with (ctr_nd []). rewrite nd_graph_loop_single.
  unfold graph1_as_nd. destruct (graph_loop o _ []) as [[ms ss]|]; cbn [option_map fst snd]; [|reflexivity].
  reflexivity.
Qed.
