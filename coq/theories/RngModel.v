(* RngModel.v — random arrays as one fixed realization (C23): definitions only.

   Anchors in /repo:
     dask_array/random/_expr.py   _spawn_bitgens (bitgen._seed_seq.spawn(n)), Random._info (the
                                  per-block seeds, derived when the node is constructed: `_name`
                                  needs them; cached_property), Random._task / _layer
                                  (block i draws from seed i with size i), _apply_random_func
     dask_array/_expr.py          ArrayExpr.__reduce__ (carries the cached properties, so `_info`)
     dask/_expr.py                Expr.lower_once: `if changed: out = type(out)(new_operands...)`
                                  (a node whose operands were lowered is RE-CONSTRUCTED)

   numpy's SeedSequence(entropy, spawn_key).spawn(n) returns the children
   SeedSequence(entropy, spawn_key + (c + i,)) for i < n and advances the counter c
   (n_children_spawned) by n.  A child seed is modelled by the pair (entropy, index): the map
   to bit streams is numpy's business (an injective oracle `draw`). *)
From Coq Require Import List Bool ZArith Lia.
From DA Require Import PyBase.
Import ListNotations.
Open Scope Z_scope.

Record gen := { g_root : Z; g_counter : nat }.       (* the generator's SeedSequence *)
Definition seed := (Z * nat)%type.                   (* (entropy, spawn_key) of a child *)

Definition fresh_gen (root : Z) : gen := {| g_root := root; g_counter := 0 |}.

(* _spawn_bitgens(bitgen, n) *)
Definition spawn (g : gen) (n : nat) : list seed * gen :=
  (map (fun i => (g_root g, (g_counter g + i)%nat)) (seq 0 n),
   {| g_root := g_root g; g_counter := (g_counter g + n)%nat |}).

(* a Random node: the per-block sizes (itertools.product of the chunks, row-major) and the seeds
   it derived at construction *)
Record rnode := { r_sizes : list Z; r_seeds : list seed }.

(* Random(rng, ...): constructing the node evaluates _info once: one seed per block *)
Definition mk_random (g : gen) (sizes : list Z) : rnode * gen :=
  let '(s, g') := spawn g (length sizes) in ({| r_sizes := sizes; r_seeds := s |}, g').

(* several arrays from one generator, in order *)
Fixpoint mk_arrays (g : gen) (sizess : list (list Z)) : list rnode * gen :=
  match sizess with
  | [] => ([], g)
  | s :: t => let '(n, g1) := mk_random g s in let '(ns, g2) := mk_arrays g1 t in (n :: ns, g2)
  end.

(* what lower_once does to a node one of whose operands was rewritten: type(out)(new_operands...)
   constructs a NEW node, whose _info is evaluated against the generator's CURRENT state *)
Definition reconstruct (g_now : gen) (n : rnode) : rnode * gen := mk_random g_now (r_sizes n).

(* pickling: __reduce__ ships the operands (a snapshot of the generator among them) and the
   cached properties; Expr._reconstruct re-creates the node and re-installs the cache *)
Definition pickled := (gen * list Z * option (list seed))%type.
Definition reduce (g_now : gen) (n : rnode) : pickled := (g_now, r_sizes n, Some (r_seeds n)).
Definition reduce_without_cache (g_now : gen) (n : rnode) : pickled := (g_now, r_sizes n, None).
Definition unpickle (p : pickled) : rnode :=
  let '(g, sizes, cache) := p in
  match cache with
  | Some s => {| r_sizes := sizes; r_seeds := s |}
  | None => fst (mk_random g sizes)
  end.

Section Draw.
  Variable B : Type.                       (* block values *)
  Variable draw : seed -> Z -> B.          (* numpy: the stream of the child seed, `size` values *)

  (* block i of the realization = draw(seed_i, size_i)  (Random._task) *)
  Definition realization (n : rnode) : list B :=
    map (fun p => draw (fst p) (snd p)) (combine (r_seeds n) (r_sizes n)).

  (* a derived program (slice / rechunk / elemwise / reduction / fusion of them) is a function of
     the realization's blocks *)
  Definition eval {R} (prog : list B -> R) (n : rnode) : R := prog (realization n).
End Draw.

Arguments realization {B} draw n.
Arguments eval {B} draw {R} prog n.

(* ---- checkers for the correspondence ---- *)
Definition sd (e k : Z) : seed := (e, Z.to_nat k).     (* literal front end *)
Definition seed_eqb (a b : seed) : bool := (fst a =? fst b) && Nat.eqb (snd a) (snd b).
Definition seeds_eqb (a b : list seed) : bool := list_eqb seed_eqb a b.

(* one generator, several arrays with the given block counts: the observed seeds of every array
   and the observed final counter *)
Definition arrays_ok (root : Z) (sizess : list (list Z)) (obs : list (list seed)) (final : nat) : bool :=
  let '(ns, g) := mk_arrays (fresh_gen root) sizess in
  list_eqb seeds_eqb (map r_seeds ns) obs && Nat.eqb (g_counter g) final.
