(* Facts about the reference semantics (ProgSem.v), part 1:
   flat arrays <-> index functions, well-formedness of every evaluated program,
   agreement of the advertised-shape rule [pshape] with [eval]. *)
From DA Require Import PyBase PyBaseFacts Slicing NormalizeFacts FuseFacts NdArray NdArrayFacts ProgSem.
From Coq Require Import ZifyBool.
Open Scope Z_scope.
Ltac Zify.zify_post_hook ::= Z.to_euclidean_division_equations.

(* ---------------------------------------------------------------------- *)
(* generic list facts *)
Lemma flat_map_length_uniform {A B} (f : A -> list B) (L : nat) : forall l,
  (forall a, In a l -> length (f a) = L) -> length (flat_map f l) = (length l * L)%nat.
Proof.
  induction l as [|a l IH]; intros H; [reflexivity|].
  cbn [flat_map length]. rewrite app_length, IH, (H a) by (intros; try apply H; cbn [In]; tauto). lia.
Qed.

Lemma flat_map_nth_uniform {A B} (f : A -> list B) (L : nat) (da : A) (d : B) : forall l i j,
  (forall a, In a l -> length (f a) = L) -> (i < length l)%nat -> (j < L)%nat ->
  nth (i * L + j) (flat_map f l) d = nth j (f (nth i l da)) d.
Proof.
  induction l as [|a l IH]; intros i j H Hi Hj; cbn [length] in Hi; [lia|].
  cbn [flat_map]. destruct i as [|i].
  - cbn [nth Nat.mul Nat.add]. rewrite app_nth1 by (rewrite (H a) by (cbn [In]; tauto); exact Hj). reflexivity.
  - rewrite app_nth2 by (rewrite (H a) by (cbn [In]; tauto); lia).
    rewrite (H a) by (cbn [In]; tauto).
    replace (S i * L + j - L)%nat with (i * L + j)%nat by lia.
    cbn [nth]. apply IH; [intros; apply H; cbn [In]; tauto | lia | exact Hj].
Qed.

Lemma Forall_firstn {A} (P : A -> Prop) k : forall l, Forall P l -> Forall P (firstn k l).
Proof. induction k as [|k IH]; intros [|x l] H; cbn [firstn]; try constructor; inversion H; subst; auto. Qed.

Lemma Forall_skipn {A} (P : A -> Prop) k : forall l, Forall P l -> Forall P (skipn k l).
Proof. induction k as [|k IH]; intros [|x l] H; cbn [skipn]; try assumption; inversion H; subst; auto. Qed.

Lemma Forall_set_nth (P : Z -> Prop) k v : forall l, P v -> Forall P l -> Forall P (set_nth k v l).
Proof.
  induction k as [|k IH]; intros [|x l] Hv H; cbn [set_nth]; try constructor; inversion H; subst; auto.
Qed.

Lemma Forall_nth_default (P : Z -> Prop) k d : forall l, P d -> Forall P l -> P (nth k l d).
Proof.
  induction k as [|k IH]; intros [|x l] Hd H; cbn [nth]; try assumption; inversion H; subst; auto.
Qed.

Lemma set_nth_length k v : forall l, length (set_nth k v l) = length l.
Proof. induction k as [|k IH]; intros [|x l]; cbn [set_nth length]; try reflexivity. rewrite IH. reflexivity. Qed.

Lemma nth_set_nth_eq k v : forall l d, (k < length l)%nat -> nth k (set_nth k v l) d = v.
Proof.
  induction k as [|k IH]; intros [|x l] d H; cbn [length] in H; try lia; cbn [set_nth nth]; [reflexivity|].
  apply IH. lia.
Qed.

Lemma nth_set_nth_neq k j v : forall l d, k <> j -> nth j (set_nth k v l) d = nth j l d.
Proof.
  revert j. induction k as [|k IH]; intros j [|x l] d H; cbn [set_nth]; try reflexivity.
  - destruct j; [congruence | reflexivity].
  - destruct j; [reflexivity|]. cbn [nth]. apply IH. congruence.
Qed.

Lemma set_nth_same k : forall l d, set_nth k (nth k l d) l = l.
Proof.
  induction k as [|k IH]; intros [|x l] d; cbn [set_nth nth]; try reflexivity. rewrite IH. reflexivity.
Qed.

Lemma all_nonneg_iff l : all_nonneg l = true <-> nonneg_shape l.
Proof. apply nonnegb_iff. Qed.

(* ---------------------------------------------------------------------- *)
(* products, C-order offsets *)
Lemma prodZ_nonneg s : nonneg_shape s -> 0 <= prodZ s.
Proof.
  unfold nonneg_shape. induction 1 as [|n s Hn _ IH]; cbn [prodZ fold_right]; [lia|].
  fold (prodZ s). nia.
Qed.

Lemma prodZ_cons n s : prodZ (n :: s) = n * prodZ s.
Proof. reflexivity. Qed.

Lemma prodZ_app a b : prodZ (a ++ b) = prodZ a * prodZ b.
Proof. induction a as [|x a IH]; cbn [app]; rewrite ?prodZ_cons; [change (prodZ []) with 1; lia|]. rewrite IH. ring. Qed.

Lemma in_bounds_nonneg_shape idx : forall s, in_bounds idx s -> nonneg_shape s.
Proof.
  intros s H. pose proof (in_bounds_nonneg idx s H) as HF. unfold nonneg_shape.
  eapply Forall_impl; [|exact HF]. cbn. intros; lia.
Qed.

Lemma ravel_range s : forall idx, in_bounds idx s -> 0 <= ravel s idx < prodZ s.
Proof.
  induction s as [|n s IH]; intros [|i idx] H; cbn [in_bounds] in H; try (exfalso; tauto).
  - cbn. lia.
  - destruct H as [Hi H]. specialize (IH idx H). cbn [ravel]. rewrite prodZ_cons. nia.
Qed.

Lemma zrange_unit_length n : length (zrange 0 n 1) = Z.to_nat n.
Proof. pose proof (zrange_length 0 n 1) as H. rewrite range_len_unit in H. lia. Qed.

Lemma zrange_unit_nth n i d : (i < Z.to_nat n)%nat -> nth i (zrange 0 n 1) d = Z.of_nat i.
Proof. intros H. rewrite zrange_nth by (rewrite range_len_unit; lia). lia. Qed.

Lemma zrange_unit_In n i : In i (zrange 0 n 1) -> 0 <= i < n.
Proof.
  unfold zrange. rewrite range_len_unit. intros H. apply in_map_iff in H. destruct H as (j & <- & Hj).
  apply in_seq in Hj. lia.
Qed.

(* ---------------------------------------------------------------------- *)
(* the index space in row-major order *)
Lemma all_indices_length s : nonneg_shape s -> length (all_indices s) = Z.to_nat (prodZ s).
Proof.
  unfold nonneg_shape. induction 1 as [|n s Hn Hs IH]; [reflexivity|].
  cbn [all_indices]. rewrite (flat_map_length_uniform _ (Z.to_nat (prodZ s))).
  - rewrite zrange_unit_length, prodZ_cons. pose proof (prodZ_nonneg s Hs). rewrite Z2Nat.inj_mul by lia. reflexivity.
  - intros a _. rewrite map_length. exact IH.
Qed.

Lemma all_indices_in_bounds s : forall idx, In idx (all_indices s) -> in_bounds idx s.
Proof.
  induction s as [|n s IH]; intros idx H; cbn [all_indices] in H.
  - destruct H as [<-|[]]. exact I.
  - apply in_flat_map in H. destruct H as (i & Hi & H). apply in_map_iff in H. destruct H as (t & <- & Ht).
    cbn [in_bounds]. split; [apply zrange_unit_In; exact Hi | apply IH; exact Ht].
Qed.

Lemma all_indices_nth s : forall idx d, in_bounds idx s ->
  nth (Z.to_nat (ravel s idx)) (all_indices s) d = idx.
Proof.
  induction s as [|n s IH]; intros [|i idx] d H; cbn [in_bounds] in H; try (exfalso; tauto); [reflexivity|].
  { destruct H as [Hi H]. pose proof (in_bounds_nonneg_shape idx s H) as Hs.
    pose proof (ravel_range s idx H) as Hr. pose proof (prodZ_nonneg s Hs) as HP.
    cbn [ravel all_indices].
    rewrite Z2Nat.inj_add, Z2Nat.inj_mul by nia.
    rewrite (flat_map_nth_uniform _ (Z.to_nat (prodZ s)) 0 d).
    + rewrite zrange_unit_nth by lia. rewrite Z2Nat.id by lia.
      rewrite (nth_indep _ d (i :: d)) by (rewrite map_length, all_indices_length by exact Hs; lia).
      rewrite (map_nth (cons i)). f_equal. apply IH. exact H.
    + intros a _. rewrite map_length. apply all_indices_length. exact Hs.
    + rewrite zrange_unit_length. lia.
    + lia. }
Qed.

(* ---------------------------------------------------------------------- *)
(* flat arrays and index functions *)
Definition wf (a : ndarr) : Prop :=
  nonneg_shape (nshape a) /\ length (ndata a) = Z.to_nat (prodZ (nshape a)).

Lemma wfb_iff a : nd_wfb a = true <-> wf a.
Proof.
  unfold nd_wfb, wf, lenZ. rewrite andb_true_iff, all_nonneg_iff, Z.eqb_eq.
  split; intros [H1 H2]; (split; [exact H1|]); pose proof (prodZ_nonneg _ H1); lia.
Qed.

Lemma to_nd_wf x : nonneg_shape (shape x) -> wf (to_nd x).
Proof.
  intros H. split; [exact H|]. cbn [to_nd ndata nshape]. unfold to_list.
  rewrite map_length. apply all_indices_length. exact H.
Qed.

Lemma to_nd_ext (x y : arr Z) : aeq x y -> to_nd x = to_nd y.
Proof.
  intros [Hs Hg]. unfold to_nd, to_list. rewrite <- Hs. f_equal.
  apply map_ext_in. intros idx Hi. apply Hg. apply all_indices_in_bounds. exact Hi.
Qed.

Lemma of_to_nd x : aeq (of_nd (to_nd x)) x.
Proof.
  split; [reflexivity|]. intros idx Hi. change (in_bounds idx (shape x)) in Hi.
  cbn [of_nd get]. unfold nget, to_nd, to_list, nthZ. cbn [ndata nshape].
  pose proof (in_bounds_nonneg_shape idx _ Hi) as Hs. pose proof (ravel_range _ _ Hi) as Hr.
  rewrite (nth_indep _ 0 (get x idx)) by (rewrite map_length, all_indices_length by exact Hs; lia).
  rewrite (map_nth (get x)). f_equal. apply all_indices_nth. exact Hi.
Qed.

Lemma shape_of_nd a : shape (of_nd a) = nshape a.
Proof. reflexivity. Qed.
Lemma nshape_to_nd x : nshape (to_nd x) = shape x.
Proof. reflexivity. Qed.

(* ---------------------------------------------------------------------- *)
(* induction over programs (the n-ary node nests [list prog]) *)
Section ProgInd.
  Variable P : prog -> Prop.
  Hypothesis Hsrc : forall s d, P (PSrc s d).
  Hypothesis Hones : forall s, P (POnes s).
  Hypothesis Harange : forall n, P (PArange n).
  Hypothesis Hconst : forall c, P (PConst c).
  Hypothesis Hun : forall o p, P p -> P (PUn o p).
  Hypothesis Hn : forall o ps, Forall P ps -> P (PN o ps).

  Fixpoint prog_ind2 (p : prog) : P p :=
    match p with
    | PSrc s d => Hsrc s d
    | POnes s => Hones s
    | PArange n => Harange n
    | PConst c => Hconst c
    | PUn o q => Hun o q (prog_ind2 q)
    | PN o ps =>
        Hn o ps ((fix go (l : list prog) : Forall P l :=
                    match l with
                    | [] => Forall_nil P
                    | x :: t => Forall_cons x (prog_ind2 x) (go t)
                    end) ps)
    end.
End ProgInd.

(* ---------------------------------------------------------------------- *)
(* the shape of every operation is its advertised shape *)
Lemma un_arr_shape o x : shape (un_arr o x) = un_shape o (shape x).
Proof. destruct o; reflexivity. Qed.

Lemma n_arr_shape o xs : shape (n_arr o xs) = n_shape o (map shape xs).
Proof.
  destruct o as [f|ax|ax]; [reflexivity | destruct xs; reflexivity |].
  destruct xs as [|x rest]; [reflexivity|].
  cbn [n_arr n_shape map aconcat shape aexpand]. rewrite !map_map. reflexivity.
Qed.

Lemma un_eval_shape o a : option_map nshape (un_eval o a) = un_rule o (nshape a).
Proof.
  unfold un_eval, un_rule. destruct (un_ok o (nshape a)); [|reflexivity].
  cbn [option_map]. f_equal. destruct o; reflexivity.
Qed.

Lemma n_eval_shape o l : option_map nshape (n_eval o l) = n_rule o (map nshape l).
Proof.
  unfold n_eval, n_rule. destruct (n_ok o (map nshape l)); [|reflexivity].
  cbn [option_map]. f_equal. rewrite nshape_to_nd, n_arr_shape, map_map. reflexivity.
Qed.

Lemma sequence_map_shape ps :
  Forall (fun p => option_map nshape (eval p) = pshape p) ps ->
  option_map (map nshape) (sequence (map eval ps)) = sequence (map pshape ps).
Proof.
  induction 1 as [|p ps Hp _ IH]; [reflexivity|].
  cbn [map sequence]. rewrite <- Hp, <- IH.
  destruct (eval p) as [a|]; [|reflexivity]. cbn [option_map].
  destruct (sequence (map eval ps)) as [l|]; reflexivity.
Qed.

(* (b) the advertised shape is the shape of the value, and pshape fails exactly where eval fails *)
Theorem eval_pshape p : option_map nshape (eval p) = pshape p.
Proof.
  induction p as [s d|s|n|c|o p IH|o ps IH] using prog_ind2; cbn [eval pshape].
  - destruct (src_ok s d); reflexivity.
  - destruct (all_nonneg s); reflexivity.
  - reflexivity.
  - reflexivity.
  - rewrite <- IH. destruct (eval p) as [a|]; [|reflexivity]. cbn [option_map]. apply un_eval_shape.
  - rewrite <- (sequence_map_shape ps IH).
    destruct (sequence (map eval ps)) as [l|]; [|reflexivity]. cbn [option_map]. apply n_eval_shape.
Qed.

Corollary eval_some_pshape p a : eval p = Some a -> pshape p = Some (nshape a).
Proof. intros H. rewrite <- eval_pshape, H. reflexivity. Qed.

Corollary pshape_none_iff p : pshape p = None <-> eval p = None.
Proof. rewrite <- eval_pshape. destruct (eval p); cbn [option_map]; split; congruence. Qed.

Corollary pshape_some_eval p s : pshape p = Some s -> exists a, eval p = Some a /\ nshape a = s.
Proof.
  rewrite <- eval_pshape. destruct (eval p) as [a|]; cbn [option_map]; [|discriminate].
  intros H. injection H as <-. exists a. split; reflexivity.
Qed.

(* ---------------------------------------------------------------------- *)
(* (a) well-formedness *)
Lemma nonneg_insert_at k v s : 0 <= v -> nonneg_shape s -> nonneg_shape (insert_at k v s).
Proof.
  intros Hv H. unfold insert_at, nonneg_shape. apply Forall_app. split; [apply Forall_firstn; exact H|].
  constructor; [exact Hv | apply Forall_skipn; exact H].
Qed.

Lemma nonneg_remove_at k s : nonneg_shape s -> nonneg_shape (remove_at k s).
Proof.
  intros H. unfold remove_at, nonneg_shape. apply Forall_app. split; [apply Forall_firstn | apply Forall_skipn]; exact H.
Qed.

Lemma nonneg_nth k s : nonneg_shape s -> 0 <= nth k s 0.
Proof. intros H. apply (Forall_nth_default (fun n => 0 <= n)); [lia | exact H]. Qed.

Lemma nonneg_pickn s js : nonneg_shape s -> nonneg_shape (pickn 0 s js).
Proof.
  intros H. unfold pickn, nonneg_shape. apply Forall_forall. intros v Hv. apply in_map_iff in Hv.
  destruct Hv as (j & <- & _). apply nonneg_nth. exact H.
Qed.

Lemma filter_neg_nil req : length (filter (fun d => d <? 0) req) = O -> nonneg_shape req.
Proof.
  unfold nonneg_shape. induction req as [|d req IH]; intros H; [constructor|].
  cbn [filter] in H. destruct (d <? 0) eqn:E; cbn [length] in H; [discriminate|].
  constructor; [lia | apply IH; exact H].
Qed.

Lemma reshape_resolve_nonneg total req s :
  0 <= total -> reshape_resolve total req = Some s -> nonneg_shape s.
Proof.
  intros Ht. unfold reshape_resolve.
  destruct (length (filter (fun d => d <? 0) req)) as [|[|k]] eqn:E; [| |discriminate].
  - break_if; [|discriminate]. intros H. injection H as <-. apply filter_neg_nil. exact E.
  - break_if; [|discriminate]. intros H. injection H as <-.
    unfold nonneg_shape. apply Forall_forall. intros v Hv. apply in_map_iff in Hv. destruct Hv as (d & <- & _).
    destruct (d <? 0) eqn:Ed; [|lia].
    apply Z.div_pos; lia.
Qed.

Lemma nonneg_red_kshape axes : forall s pos, nonneg_shape s -> nonneg_shape (red_kshape pos axes s).
Proof.
  unfold nonneg_shape. induction s as [|n s IH]; intros pos H; cbn [red_kshape]; [constructor|].
  inversion H; subst. constructor; [break_if; lia | apply IH; assumption].
Qed.

Lemma nonneg_red_rshape axes : forall s pos, nonneg_shape s -> nonneg_shape (red_rshape pos axes s).
Proof.
  unfold nonneg_shape. induction s as [|n s IH]; intros pos H; cbn [red_rshape]; [constructor|].
  inversion H; subst. constructor; [break_if; lia | apply IH; assumption].
Qed.

Lemma nonneg_drop_axes axes : forall s pos, nonneg_shape s -> nonneg_shape (drop_axes_from pos axes s).
Proof.
  unfold nonneg_shape. induction s as [|n s IH]; intros pos H; cbn [drop_axes_from]; [constructor|].
  inversion H; subst. break_if; [apply IH; assumption | constructor; [assumption | apply IH; assumption]].
Qed.

Lemma un_shape_nonneg o s : un_ok o s = true -> nonneg_shape s -> nonneg_shape (un_shape o s).
Proof.
  intros Hok Hs. destruct o; cbn [un_shape un_ok] in *; try exact Hs.
  - apply nonneg_pickn. exact Hs.
  - apply slice_shape_nonneg. exact Hs.
  - apply nonneg_insert_at; [lia | exact Hs].
  - apply nonneg_remove_at. exact Hs.
  - apply andb_true_iff in Hok. apply all_nonneg_iff. tauto.
  - apply Forall_set_nth; [unfold lenZ; lia | exact Hs].
  - apply andb_true_iff in Hok. destruct Hok as [_ Hk]. pose proof (nonneg_nth ax s Hs).
    apply Forall_set_nth; [nia | exact Hs].
  - apply Forall_set_nth; [lia | exact Hs].
  - destruct (reshape_resolve (prodZ s) req) as [s'|] eqn:E; [|discriminate].
    apply (reshape_resolve_nonneg (prodZ s) req); [apply prodZ_nonneg; exact Hs | exact E].
  - unfold red_oshape. destruct keepdims; [apply nonneg_red_kshape | apply nonneg_drop_axes]; exact Hs.
Qed.

Lemma nonneg_rbshape a : forall b, nonneg_shape a -> nonneg_shape b -> nonneg_shape (rbshape a b).
Proof.
  unfold nonneg_shape. induction a as [|x a IH]; intros [|y b] Ha Hb; cbn [rbshape]; try assumption.
  inversion Ha; inversion Hb; subst. constructor; [unfold bdim; break_if; assumption | apply IH; assumption].
Qed.

Lemma nonneg_bshape a b : nonneg_shape a -> nonneg_shape b -> nonneg_shape (bshape a b).
Proof.
  intros Ha Hb. unfold bshape, nonneg_shape. apply Forall_rev. apply nonneg_rbshape; apply Forall_rev; assumption.
Qed.

Lemma nonneg_bshape_all ss : Forall nonneg_shape ss -> nonneg_shape (bshape_all ss).
Proof.
  induction 1 as [|s ss Hs _ IH]; cbn [bshape_all fold_right]; [constructor|].
  apply nonneg_bshape; assumption.
Qed.

Lemma nonneg_concat_shape ax s rest :
  nonneg_shape s -> Forall nonneg_shape rest -> nonneg_shape (concat_shape ax s rest).
Proof.
  intros Hs Hr. unfold concat_shape. apply Forall_set_nth; [|exact Hs].
  apply zsum_nonneg. apply Forall_forall. intros v Hv. apply in_map_iff in Hv. destruct Hv as (t & <- & Ht).
  apply nonneg_nth. destruct Ht as [<-|Ht]; [exact Hs|]. rewrite Forall_forall in Hr. apply Hr. exact Ht.
Qed.

Lemma n_shape_nonneg o ss : Forall nonneg_shape ss -> nonneg_shape (n_shape o ss).
Proof.
  intros H. destruct o as [f|ax|ax]; cbn [n_shape].
  - apply nonneg_bshape_all. exact H.
  - destruct ss as [|s rest]; [constructor|]. inversion H; subst. apply nonneg_concat_shape; assumption.
  - destruct ss as [|s rest]; [constructor|]. inversion H; subst.
    apply nonneg_concat_shape; [apply nonneg_insert_at; [lia | assumption]|].
    apply Forall_forall. intros t Ht. apply in_map_iff in Ht. destruct Ht as (u & <- & Hu).
    apply nonneg_insert_at; [lia|]. rewrite Forall_forall in H3. apply H3. exact Hu.
Qed.

Lemma un_eval_wf o a b : wf a -> un_eval o a = Some b -> wf b.
Proof.
  intros Ha. unfold un_eval. destruct (un_ok o (nshape a)) eqn:Hok; [|discriminate].
  intros H. injection H as <-.
  assert (wf (to_nd (un_arr o (of_nd a)))) as Hw.
  { apply to_nd_wf. rewrite un_arr_shape. apply un_shape_nonneg; [exact Hok | apply Ha]. }
  destruct o; try exact Hw. exact Ha.
Qed.

Lemma sequence_Forall {A} (P : A -> Prop) (f : prog -> option A) ps : forall l,
  Forall (fun p => forall a, f p = Some a -> P a) ps -> sequence (map f ps) = Some l -> Forall P l.
Proof.
  induction ps as [|p ps IH]; intros l H Hl; cbn [map sequence] in Hl.
  - injection Hl as <-. constructor.
  - inversion H as [|p0 ps0 Hp Hps]; subst.
    destruct (f p) as [a|] eqn:Ea; [|discriminate].
    destruct (sequence (map f ps)) as [r|] eqn:Er; [|discriminate]. injection Hl as <-.
    constructor; [apply Hp; reflexivity | apply IH; [exact Hps | reflexivity]].
Qed.

Theorem eval_wf p : forall a, eval p = Some a -> wf a.
Proof.
  induction p as [s d|s|n|c|o p IH|o ps IH] using prog_ind2; intros a H; cbn [eval] in H.
  - destruct (src_ok s d) eqn:E; [|discriminate]. injection H as <-. apply wfb_iff. exact E.
  - destruct (all_nonneg s) eqn:E; [|discriminate]. injection H as <-. apply to_nd_wf. apply all_nonneg_iff. exact E.
  - injection H as <-. apply to_nd_wf. cbn. constructor; [lia | constructor].
  - injection H as <-. split; [constructor | reflexivity].
  - destruct (eval p) as [b|] eqn:E; [|discriminate]. apply (un_eval_wf o b a); [apply IH; reflexivity | exact H].
  - destruct (sequence (map eval ps)) as [l|] eqn:E; [|discriminate].
    pose proof (sequence_Forall wf eval ps l IH E) as Hl.
    unfold n_eval in H. destruct (n_ok o (map nshape l)); [|discriminate]. injection H as <-.
    apply to_nd_wf. rewrite n_arr_shape, map_map. apply n_shape_nonneg.
    apply Forall_forall. intros s Hs. apply in_map_iff in Hs. destruct Hs as (b & <- & Hb).
    rewrite Forall_forall in Hl. apply (Hl b Hb).
Qed.

(* the statement in the flat vocabulary: one datum per index, no negative dimension *)
Corollary eval_wf_flat p a :
  eval p = Some a -> Z.of_nat (length (ndata a)) = prodZ (nshape a) /\ Forall (fun n => 0 <= n) (nshape a).
Proof.
  intros H. destruct (eval_wf p a H) as [Hs Hl]. split; [|exact Hs].
  pose proof (prodZ_nonneg _ Hs). lia.
Qed.
