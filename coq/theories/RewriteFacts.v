(* C08 — facts about the rewrite system of Rewrite.v: every step decreases [mu], rewrite sequences are bounded by [mu],
   the relation is well-founded, [applicable] decides reducibility, the strategy [simplify_model] only takes steps of
   the relation, always reaches a normal form with fuel [mu e], and is idempotent. *)
From Coq Require Import ZArith List Bool Lia Wf_nat.
From DA Require Import PyBase Slicing NdArray ExprRules ExprRulesFacts ExprRulesFacts2 Rewrite.
Import ListNotations.
Open Scope Z_scope.

(* ---------------------------------------------------------------------- *)
(* (a) every step decreases the measure *)
Lemma simp_rules_mu r e e' : In r simp_rules -> r e = Some e' -> (mu e' < mu e)%nat.
Proof.
  intros Hin H. unfold simp_rules, down_rules, up_rules in Hin. cbn [app In] in Hin.
  repeat (destruct Hin as [<-|Hin];
          [first [ apply rule_slice_identity_mu; exact H | apply rule_slice_slice_mu; exact H
                 | apply rule_transpose_transpose_mu; exact H | apply rule_transpose_identity_mu; exact H
                 | apply rule_rechunk_noop_mu; exact H | apply rule_slice_elemwise_mu; exact H
                 | apply rule_slice_transpose_mu; exact H | apply rule_slice_arange_mu; exact H
                 | apply rule_slice_expand_dims_mu; exact H | apply rule_slice_concat_mu; exact H
                 | apply rule_slice_stack_mu; exact H | apply rule_slice_full_mu; exact H
                 | apply rule_slice_broadcast_to_mu; exact H | apply rule_rechunk_rechunk_mu; exact H
                 | apply rule_rechunk_elemwise_mu; exact H | apply rule_rechunk_fromarray_mu; exact H
                 | apply rule_rechunk_expand_dims_mu; exact H | apply rule_rechunk_transpose_mu; exact H ] |]).
  contradiction.
Qed.

Theorem rstep_mu e e' : rstep e e' -> (mu e' < mu e)%nat.
Proof.
  intros H. induction H as [r e e' Hin Hr | e e' ix o H IH | e e' axes H IH | e e' s c p b pp H IH | e e' axes H IH
                            | e e' shp c H IH | e e' c p H IH | op l1 e e' l2 H IH | e e' axis rest H IH
                            | a axis l1 e e' l2 H IH | e e' axis rest H IH | a axis l1 e e' l2 H IH].
  - exact (simp_rules_mu r e e' Hin Hr).
  - cbn [mu]. lia.
  - cbn [mu]. lia.
  - cbn [mu]. lia.
  - cbn [mu]. lia.
  - cbn [mu]. lia.
  - cbn [mu]. lia.
  - apply mu_monotone_elemwise. exact IH.
  - rewrite !mu_concat. lia.
  - rewrite !mu_concat, !mu_sum_app. cbn [mu_sum]. lia.
  - rewrite !mu_stack. lia.
  - rewrite !mu_stack, !mu_sum_app. cbn [mu_sum]. lia.
Qed.

Lemma rsteps_mu_le a b : rsteps a b -> (mu b <= mu a)%nat.
Proof.
  intros H. induction H as [e | e e1 e2 H1 _ IH]; [lia|]. pose proof (rstep_mu _ _ H1). lia.
Qed.

Lemma rsteps_mu_lt a b : rsteps a b -> a = b \/ (mu b < mu a)%nat.
Proof.
  intros H. destruct H as [e | e e1 e2 H1 H2]; [left; reflexivity|]. right.
  pose proof (rstep_mu _ _ H1). pose proof (rsteps_mu_le _ _ H2). lia.
Qed.

(* (b) a rewrite sequence from e has fewer than mu e steps *)
Theorem chain_length_lt es : forall e, chain e es -> (S (length es) <= mu e)%nat.
Proof.
  induction es as [|x t IH]; intros e H; cbn [length].
  - apply mu_pos.
  - destruct H as [H1 H2]. specialize (IH x H2). pose proof (rstep_mu _ _ H1). lia.
Qed.

Theorem chain_length es e : chain e es -> (length es <= mu e)%nat.
Proof. intros H. pose proof (chain_length_lt es e H). lia. Qed.

Theorem rstep_well_founded : well_founded (fun a b => rstep b a).
Proof.
  apply (well_founded_lt_compat expr mu). intros x y H. apply rstep_mu. exact H.
Qed.

(* no expression rewrites to itself, in any number (> 0) of steps *)
Theorem rstep_irreflexive e : ~ rstep e e.
Proof. intros H. pose proof (rstep_mu _ _ H). lia. Qed.

(* ---------------------------------------------------------------------- *)
(* the first rule that fires *)
Lemma first_rule_some rs e e' : first_rule rs e = Some e' -> exists r, In r rs /\ r e = Some e'.
Proof.
  induction rs as [|r t IH]; cbn [first_rule]; [discriminate|].
  destruct (r e) as [y|] eqn:E.
  - intros H. injection H as <-. exists r. split; [left; reflexivity | exact E].
  - intros H. destruct (IH H) as [r' [Hin Hr]]. exists r'. split; [right; exact Hin | exact Hr].
Qed.

Lemma first_rule_none rs e : first_rule rs e = None -> forall r, In r rs -> r e = None.
Proof.
  induction rs as [|r t IH]; cbn [first_rule]; intros H r' Hin; [destruct Hin|].
  destruct (r e) as [y|] eqn:E; [discriminate|].
  destruct Hin as [<-|Hin]; [exact E | exact (IH H r' Hin)].
Qed.

Lemma root_step_rstep e e' : root_step e = Some e' -> rstep e e'.
Proof.
  intros H. destruct (first_rule_some _ _ _ H) as [r [Hin Hr]]. exact (rs_root r e e' Hin Hr).
Qed.

Lemma root_rule_root_step r e e' : In r simp_rules -> r e = Some e' -> exists e'', root_step e = Some e''.
Proof.
  intros Hin Hr. destruct (root_step e) as [y|] eqn:E; [exists y; reflexivity|].
  unfold root_step in E. rewrite (first_rule_none _ _ E r Hin) in Hr. discriminate.
Qed.

(* ---------------------------------------------------------------------- *)
(* [applicable] decides reducibility *)
Lemma rstep_applicable e e' : rstep e e' -> applicable e = true.
Proof.
  intros H. induction H as [r e e' Hin Hr | e e' ix o H IH | e e' axes H IH | e e' s c p b pp H IH | e e' axes H IH
                            | e e' shp c H IH | e e' c p H IH | op l1 e e' l2 H IH | e e' axis rest H IH
                            | a axis l1 e e' l2 H IH | e e' axis rest H IH | a axis l1 e e' l2 H IH].
  - destruct (root_rule_root_step r e e' Hin Hr) as [y Hy].
    destruct e; cbn [applicable]; rewrite Hy; reflexivity.
  - cbn [applicable]. rewrite IH. apply orb_true_r.
  - cbn [applicable]. rewrite IH. apply orb_true_r.
  - cbn [applicable]. rewrite IH. apply orb_true_r.
  - cbn [applicable]. rewrite IH. apply orb_true_r.
  - cbn [applicable]. rewrite IH. apply orb_true_r.
  - cbn [applicable]. rewrite IH. apply orb_true_r.
  - cbn [applicable]. rewrite existsb_app. cbn [existsb]. rewrite IH. rewrite !orb_true_r. reflexivity.
  - cbn [applicable]. rewrite IH. rewrite orb_true_l. apply orb_true_r.
  - cbn [applicable]. rewrite existsb_app. cbn [existsb]. rewrite IH. rewrite !orb_true_r. reflexivity.
  - cbn [applicable]. rewrite IH. rewrite orb_true_l. apply orb_true_r.
  - cbn [applicable]. rewrite existsb_app. cbn [existsb]. rewrite IH. rewrite !orb_true_r. reflexivity.
Qed.

Lemma existsb_applicable_step (l : list expr) :
  Forall (fun x => applicable x = true -> exists x', rstep x x') l ->
  existsb applicable l = true -> exists l1 x x' l2, l = l1 ++ x :: l2 /\ rstep x x'.
Proof.
  intros HF H. apply existsb_exists in H. destruct H as [x [Hin Hx]].
  rewrite Forall_forall in HF. destruct (HF x Hin Hx) as [x' Hs].
  destruct (in_split _ _ Hin) as [l1 [l2 ->]]. exists l1, x, x', l2. split; [reflexivity | exact Hs].
Qed.

Lemma applicable_rstep e : applicable e = true -> exists e', rstep e e'.
Proof.
  induction e as [id shp ch | id | e ix o IH | e axes IH | op args IH | e s c p b pp IH | e axes IH
                  | e axis rest IH IHr | e shp c IH | st sp cnt ch | s c r nd isz ot | e axis rest IH IHr
                  | id shp ch | e c p IH] using expr_ind';
    cbn [applicable]; intros H; apply orb_true_iff in H; destruct H as [H|H];
    try (match type of H with
         | match root_step ?x with _ => _ end = true =>
             destruct (root_step x) as [y|] eqn:E; [exists y; apply root_step_rstep; exact E | discriminate]
         end);
    try discriminate.
  - destruct (IH H) as [x' Hx]. exists (ESlice x' ix o). constructor. exact Hx.
  - destruct (IH H) as [x' Hx]. exists (ETranspose x' axes). constructor. exact Hx.
  - destruct (existsb_applicable_step args IH H) as [l1 [x [x' [l2 [-> Hs]]]]].
    exists (EElemwise op (l1 ++ x' :: l2)). constructor. exact Hs.
  - destruct (IH H) as [x' Hx]. exists (ERechunk x' s c p b pp). constructor. exact Hx.
  - destruct (IH H) as [x' Hx]. exists (EExpandDims x' axes). constructor. exact Hx.
  - apply orb_true_iff in H. destruct H as [H|H].
    + destruct (IH H) as [x' Hx]. exists (EConcat x' axis rest). apply rs_concat_head. exact Hx.
    + destruct (existsb_applicable_step rest IHr H) as [l1 [x [x' [l2 [-> Hs]]]]].
      exists (EConcat e axis (l1 ++ x' :: l2)). apply rs_concat_rest. exact Hs.
  - destruct (IH H) as [x' Hx]. exists (EBroadcastTo x' shp c). constructor. exact Hx.
  - apply orb_true_iff in H. destruct H as [H|H].
    + destruct (IH H) as [x' Hx]. exists (EStack x' axis rest). apply rs_stack_head. exact Hx.
    + destruct (existsb_applicable_step rest IHr H) as [l1 [x [x' [l2 [-> Hs]]]]].
      exists (EStack e axis (l1 ++ x' :: l2)). apply rs_stack_rest. exact Hs.
  - destruct (IH H) as [x' Hx]. exists (ETasksRechunk x' c p). constructor. exact Hx.
Qed.

Theorem applicable_iff e : applicable e = true <-> exists e', rstep e e'.
Proof.
  split; [apply applicable_rstep|]. intros [e' H]. exact (rstep_applicable e e' H).
Qed.

Theorem applicable_false_normal e : applicable e = false <-> normal e.
Proof.
  split.
  - intros H e' Hs. rewrite (rstep_applicable e e' Hs) in H. discriminate.
  - intros H. destruct (applicable e) eqn:E; [|reflexivity].
    destruct (applicable_rstep e E) as [e' Hs]. destruct (H e' Hs).
Qed.

(* ---------------------------------------------------------------------- *)
(* the sweep only takes steps of the relation *)
Lemma rsteps_trans a b c : rsteps a b -> rsteps b c -> rsteps a c.
Proof.
  intros H. induction H as [e | e e1 e2 H1 _ IH]; intros H2; [exact H2|].
  exact (rss_step e e1 c H1 (IH H2)).
Qed.

Lemma rsteps_ctx (C : expr -> expr) :
  (forall a b, rstep a b -> rstep (C a) (C b)) -> forall a b, rsteps a b -> rsteps (C a) (C b).
Proof.
  intros HC a b H. induction H as [e | e e1 e2 H1 _ IH]; [apply rss_refl|].
  exact (rss_step _ _ _ (HC _ _ H1) IH).
Qed.

Lemma rsteps_list (C : list expr -> expr) (f : expr -> expr) :
  (forall l1 a b l2, rstep a b -> rstep (C (l1 ++ a :: l2)) (C (l1 ++ b :: l2))) ->
  forall l, Forall (fun x => rsteps x (f x)) l -> forall l1, rsteps (C (l1 ++ l)) (C (l1 ++ map f l)).
Proof.
  intros HC l HF. induction HF as [|x t Hx _ IH]; intros l1; cbn [map]; [apply rss_refl|].
  apply rsteps_trans with (b := C (l1 ++ f x :: t)).
  - apply (rsteps_ctx (fun a => C (l1 ++ a :: t))); [|exact Hx]. intros a b Hab. apply HC. exact Hab.
  - specialize (IH (l1 ++ [f x])). rewrite <- !app_assoc in IH. exact IH.
Qed.

Theorem simplify_pass_rsteps e : rsteps e (simplify_pass e).
Proof.
  induction e as [id shp ch | id | e ix o IH | e axes IH | op args IH | e s c p b pp IH | e axes IH
                  | e axis rest IH IHr | e shp c IH | st sp cnt ch | s c r nd isz ot | e axis rest IH IHr
                  | id shp ch | e c p IH] using expr_ind';
    cbn [simplify_pass];
    match goal with
    | |- rsteps ?x (match root_step ?x with _ => _ end) =>
        destruct (root_step x) as [y|] eqn:E;
        [exact (rss_step _ _ _ (root_step_rstep _ _ E) (rss_refl y)) |]
    end;
    try apply rss_refl.
  - apply (rsteps_ctx (fun a => ESlice a ix o)); [intros a b' Hab; constructor; exact Hab | exact IH].
  - apply (rsteps_ctx (fun a => ETranspose a axes)); [intros a b' Hab; constructor; exact Hab | exact IH].
  - apply (rsteps_list (EElemwise op) simplify_pass (rs_elemwise op) args IH []).
  - apply (rsteps_ctx (fun a => ERechunk a s c p b pp)); [intros a b' Hab; constructor; exact Hab | exact IH].
  - apply (rsteps_ctx (fun a => EExpandDims a axes)); [intros a b' Hab; constructor; exact Hab | exact IH].
  - apply rsteps_trans with (b := EConcat (simplify_pass e) axis rest).
    + apply (rsteps_ctx (fun a => EConcat a axis rest)); [intros a b' Hab; apply rs_concat_head; exact Hab | exact IH].
    + apply (rsteps_list (EConcat (simplify_pass e) axis) simplify_pass (rs_concat_rest (simplify_pass e) axis) rest IHr []).
  - apply (rsteps_ctx (fun a => EBroadcastTo a shp c)); [intros a b' Hab; constructor; exact Hab | exact IH].
  - apply rsteps_trans with (b := EStack (simplify_pass e) axis rest).
    + apply (rsteps_ctx (fun a => EStack a axis rest)); [intros a b' Hab; apply rs_stack_head; exact Hab | exact IH].
    + apply (rsteps_list (EStack (simplify_pass e) axis) simplify_pass (rs_stack_rest (simplify_pass e) axis) rest IHr []).
  - apply (rsteps_ctx (fun a => ETasksRechunk a c p)); [intros a b' Hab; constructor; exact Hab | exact IH].
Qed.

Lemma simplify_pass_mu_le e : (mu (simplify_pass e) <= mu e)%nat.
Proof. apply rsteps_mu_le. apply simplify_pass_rsteps. Qed.

Lemma mu_sum_map_le (l : list expr) : (mu_sum (map simplify_pass l) <= mu_sum l)%nat.
Proof.
  induction l as [|x t IH]; cbn [map mu_sum]; [lia|]. pose proof (simplify_pass_mu_le x). lia.
Qed.

Lemma mu_sum_map_lt (l : list expr) :
  Forall (fun x => applicable x = true -> (mu (simplify_pass x) < mu x)%nat) l ->
  existsb applicable l = true -> (mu_sum (map simplify_pass l) < mu_sum l)%nat.
Proof.
  intros HF. induction HF as [|x t Hx _ IH]; cbn [existsb map mu_sum]; [discriminate|].
  intros H. apply orb_true_iff in H. destruct H as [H|H].
  - specialize (Hx H). pose proof (mu_sum_map_le t). lia.
  - specialize (IH H). pose proof (simplify_pass_mu_le x). lia.
Qed.

(* a sweep over a reducible expression makes progress *)
Theorem simplify_pass_mu_lt e : applicable e = true -> (mu (simplify_pass e) < mu e)%nat.
Proof.
  induction e as [id shp ch | id | e ix o IH | e axes IH | op args IH | e s c p b pp IH | e axes IH
                  | e axis rest IH IHr | e shp c IH | st sp cnt ch | s c r nd isz ot | e axis rest IH IHr
                  | id shp ch | e c p IH] using expr_ind';
    cbn [applicable simplify_pass]; intros H;
    match goal with
    | |- (mu (match root_step ?x with _ => _ end) < _)%nat =>
        destruct (root_step x) as [y|] eqn:E; [exact (rstep_mu _ _ (root_step_rstep _ _ E)) |]
    end;
    rewrite orb_false_l in H; try discriminate.
  - specialize (IH H). cbn [mu]. lia.
  - specialize (IH H). cbn [mu]. lia.
  - pose proof (mu_sum_map_lt args IH H). rewrite !mu_elemwise, map_length. lia.
  - specialize (IH H). cbn [mu]. lia.
  - specialize (IH H). cbn [mu]. lia.
  - rewrite !mu_concat. pose proof (simplify_pass_mu_le e). pose proof (mu_sum_map_le rest).
    apply orb_true_iff in H. destruct H as [H|H]; [specialize (IH H) | pose proof (mu_sum_map_lt rest IHr H)]; lia.
  - specialize (IH H). cbn [mu]. lia.
  - rewrite !mu_stack. pose proof (simplify_pass_mu_le e). pose proof (mu_sum_map_le rest).
    apply orb_true_iff in H. destruct H as [H|H]; [specialize (IH H) | pose proof (mu_sum_map_lt rest IHr H)]; lia.
  - specialize (IH H). cbn [mu]. lia.
Qed.

Lemma map_pass_id (l : list expr) :
  Forall (fun x => applicable x = false -> simplify_pass x = x) l ->
  existsb applicable l = false -> map simplify_pass l = l.
Proof.
  intros HF. induction HF as [|x t Hx _ IH]; cbn [existsb map]; [reflexivity|].
  intros H. apply orb_false_iff in H. destruct H as [H1 H2]. rewrite (Hx H1), (IH H2). reflexivity.
Qed.

(* a sweep over a normal form changes nothing *)
Theorem simplify_pass_normal e : applicable e = false -> simplify_pass e = e.
Proof.
  induction e as [id shp ch | id | e ix o IH | e axes IH | op args IH | e s c p b pp IH | e axes IH
                  | e axis rest IH IHr | e shp c IH | st sp cnt ch | s c r nd isz ot | e axis rest IH IHr
                  | id shp ch | e c p IH] using expr_ind';
    cbn [applicable simplify_pass]; intros H; apply orb_false_iff in H; destruct H as [H0 H];
    match goal with
    | |- match root_step ?x with _ => _ end = _ => destruct (root_step x) as [y|] eqn:E; [discriminate |]
    end;
    try reflexivity.
  - rewrite (IH H). reflexivity.
  - rewrite (IH H). reflexivity.
  - rewrite (map_pass_id args IH H). reflexivity.
  - rewrite (IH H). reflexivity.
  - rewrite (IH H). reflexivity.
  - apply orb_false_iff in H. destruct H as [H1 H2]. rewrite (IH H1), (map_pass_id rest IHr H2). reflexivity.
  - rewrite (IH H). reflexivity.
  - apply orb_false_iff in H. destruct H as [H1 H2]. rewrite (IH H1), (map_pass_id rest IHr H2). reflexivity.
  - rewrite (IH H). reflexivity.
Qed.

(* ---------------------------------------------------------------------- *)
(* the strategy *)
Theorem simplify_fuel_rsteps n : forall e, rsteps e (simplify_fuel n e).
Proof.
  induction n as [|n IH]; intros e; cbn [simplify_fuel]; [apply rss_refl|].
  destruct (applicable e); [|apply rss_refl].
  exact (rsteps_trans _ _ _ (simplify_pass_rsteps e) (IH (simplify_pass e))).
Qed.

(* (c) with fuel >= mu e the result is a normal form *)
Theorem simplify_fuel_normal n : forall e, (mu e <= n)%nat -> applicable (simplify_fuel n e) = false.
Proof.
  induction n as [|n IH]; intros e Hn.
  - pose proof (mu_pos e). lia.
  - cbn [simplify_fuel]. destruct (applicable e) eqn:E; [|exact E].
    apply IH. pose proof (simplify_pass_mu_lt e E). lia.
Qed.

(* more fuel than mu e changes nothing *)
Theorem simplify_fuel_stable n : forall m e, (mu e <= n)%nat -> (mu e <= m)%nat -> simplify_fuel n e = simplify_fuel m e.
Proof.
  induction n as [|n IH]; intros m e Hn Hm.
  - pose proof (mu_pos e). lia.
  - destruct m as [|m]; [pose proof (mu_pos e); lia|].
    cbn [simplify_fuel]. destruct (applicable e) eqn:E; [|reflexivity].
    pose proof (simplify_pass_mu_lt e E). apply IH; lia.
Qed.

Theorem simplify_model_rsteps e : rsteps e (simplify_model e).
Proof. apply simplify_fuel_rsteps. Qed.

Theorem simplify_model_normal e : applicable (simplify_model e) = false.
Proof. apply simplify_fuel_normal. lia. Qed.

Theorem simplify_model_of_normal e : applicable e = false -> simplify_model e = e.
Proof.
  intros H. unfold simplify_model. pose proof (mu_pos e). destruct (mu e) as [|k]; [lia|].
  cbn [simplify_fuel]. rewrite H. reflexivity.
Qed.

(* (d) idempotence *)
Theorem simplify_model_idempotent e : simplify_model (simplify_model e) = simplify_model e.
Proof. apply simplify_model_of_normal. apply simplify_model_normal. Qed.

Theorem simplify_model_mu_le e : (mu (simplify_model e) <= mu e)%nat.
Proof. apply rsteps_mu_le. apply simplify_model_rsteps. Qed.

(* ---------------------------------------------------------------------- *)
(* [all_steps] enumerates successors of the relation (soundness: what the confluence search explores are rewrite
   sequences of the relation) *)
Lemma root_steps_in rs e e' : In e' (root_steps rs e) -> exists r, In r rs /\ r e = Some e'.
Proof.
  induction rs as [|r t IH]; cbn [root_steps]; [intros []|].
  destruct (r e) as [y|] eqn:E.
  - intros [<-|H].
    + exists r. split; [left; reflexivity | exact E].
    + destruct (IH H) as [r' [Hin Hr]]. exists r'. split; [right; exact Hin | exact Hr].
  - intros H. destruct (IH H) as [r' [Hin Hr]]. exists r'. split; [right; exact Hin | exact Hr].
Qed.

Lemma list_steps_in (f : expr -> list expr) (l l' : list expr) :
  In l' (list_steps f l) -> exists l1 x x' l2, l = l1 ++ x :: l2 /\ l' = l1 ++ x' :: l2 /\ In x' (f x).
Proof.
  revert l'. induction l as [|x t IH]; intros l'; cbn [list_steps]; [intros []|].
  intros H. apply in_app_or in H. destruct H as [H|H].
  - apply in_map_iff in H. destruct H as [x' [<- Hx']]. exists [], x, x', t. repeat split; assumption.
  - apply in_map_iff in H. destruct H as [t' [<- Ht']].
    destruct (IH t' Ht') as [l1 [y [y' [l2 [-> [-> Hy]]]]]]. exists (x :: l1), y, y', l2. repeat split; assumption.
Qed.

Lemma list_steps_sound (C : list expr -> expr) (l : list expr) :
  (forall l1 a b l2, rstep a b -> rstep (C (l1 ++ a :: l2)) (C (l1 ++ b :: l2))) ->
  Forall (fun x => forall x', In x' (all_steps x) -> rstep x x') l ->
  forall e', In e' (map C (list_steps all_steps l)) -> rstep (C l) e'.
Proof.
  intros HC HF e' H. apply in_map_iff in H. destruct H as [l' [<- Hl']].
  destruct (list_steps_in _ _ _ Hl') as [l1 [x [x' [l2 [-> [-> Hx]]]]]].
  apply HC. rewrite Forall_forall in HF. apply (HF x); [apply in_elt | exact Hx].
Qed.

Theorem all_steps_sound e : forall e', In e' (all_steps e) -> rstep e e'.
Proof.
  induction e as [id shp ch | id | e ix o IH | e axes IH | op args IH | e s c p b pp IH | e axes IH
                  | e axis rest IH IHr | e shp c IH | st sp cnt ch | s c r nd isz ot | e axis rest IH IHr
                  | id shp ch | e c p IH] using expr_ind';
    intros e' H; cbn [all_steps] in H; apply in_app_or in H; destruct H as [H|H];
    try (destruct (root_steps_in _ _ _ H) as [r' [Hin Hr]]; exact (rs_root r' _ _ Hin Hr));
    try (destruct H; fail).
  - apply in_map_iff in H. destruct H as [x' [<- Hx]]. constructor. exact (IH x' Hx).
  - apply in_map_iff in H. destruct H as [x' [<- Hx]]. constructor. exact (IH x' Hx).
  - exact (list_steps_sound (EElemwise op) args (rs_elemwise op) IH e' H).
  - apply in_map_iff in H. destruct H as [x' [<- Hx]]. constructor. exact (IH x' Hx).
  - apply in_map_iff in H. destruct H as [x' [<- Hx]]. constructor. exact (IH x' Hx).
  - apply in_app_or in H. destruct H as [H|H].
    + apply in_map_iff in H. destruct H as [x' [<- Hx]]. apply rs_concat_head. exact (IH x' Hx).
    + exact (list_steps_sound (EConcat e axis) rest (rs_concat_rest e axis) IHr e' H).
  - apply in_map_iff in H. destruct H as [x' [<- Hx]]. constructor. exact (IH x' Hx).
  - apply in_app_or in H. destruct H as [H|H].
    + apply in_map_iff in H. destruct H as [x' [<- Hx]]. apply rs_stack_head. exact (IH x' Hx).
    + exact (list_steps_sound (EStack e axis) rest (rs_stack_rest e axis) IHr e' H).
  - apply in_map_iff in H. destruct H as [x' [<- Hx]]. constructor. exact (IH x' Hx).
Qed.

(* ---------------------------------------------------------------------- *)
(* the confluence search: every element of [normal_forms e] is a normal form reachable from e *)
Lemma rsteps_snoc a b c : rsteps a b -> rstep b c -> rsteps a c.
Proof. intros H1 H2. exact (rsteps_trans a b c H1 (rss_step b c c H2 (rss_refl c))). Qed.

Lemma add_new_in x y l : In x (add_new y l) -> x = y \/ In x l.
Proof.
  unfold add_new. destruct (existsb (expr_eqb y) l); intros H; [right; exact H|].
  apply in_app_or in H. destruct H as [H|[H|[]]]; [right; exact H | left; symmetry; exact H].
Qed.

Lemma union_new_in xs : forall l x, In x (union_new xs l) -> In x xs \/ In x l.
Proof.
  induction xs as [|y t IH]; intros l x H; cbn [union_new] in H; [right; exact H|].
  destruct (IH _ _ H) as [H1|H1]; [left; right; exact H1|].
  destruct (add_new_in _ _ _ H1) as [->|H2]; [left; left; reflexivity | right; exact H2].
Qed.

Lemma normal_forms_from_sound e n : forall frontier nfs,
  (forall x, In x frontier -> rsteps e x) ->
  (forall x, In x nfs -> rsteps e x /\ applicable x = false) ->
  forall a, In a (normal_forms_from n frontier nfs) -> rsteps e a /\ applicable a = false.
Proof.
  induction n as [|n IH]; intros frontier nfs HF HN a H; cbn [normal_forms_from] in H; [exact (HN a H)|].
  destruct frontier as [|f0 ft]; [exact (HN a H)|].
  revert H. apply IH.
  - intros x Hx. destruct (union_new_in _ _ _ Hx) as [H1|[]].
    apply in_concat in H1. destruct H1 as [l [Hl Hxl]]. apply in_map_iff in Hl. destruct Hl as [y [<- Hy]].
    exact (rsteps_snoc e y x (HF y Hy) (all_steps_sound y x Hxl)).
  - intros x Hx. destruct (union_new_in _ _ _ Hx) as [H1|H1]; [|exact (HN x H1)].
    apply filter_In in H1. destruct H1 as [H1 H2]. split; [exact (HF x H1)|].
    destruct (applicable x); [discriminate | reflexivity].
Qed.

Theorem normal_forms_sound e a : In a (normal_forms e) -> rsteps e a /\ normal a.
Proof.
  intros H. destruct (normal_forms_from_sound e (mu e) [e] [] ) with (a := a) as [H1 H2].
  - intros x [<-|[]]. apply rss_refl.
  - intros x [].
  - exact H.
  - split; [exact H1 | apply applicable_false_normal; exact H2].
Qed.

(* [all_steps] is complete: every step of the relation is enumerated *)
Lemma root_steps_complete rs r e e' : In r rs -> r e = Some e' -> In e' (root_steps rs e).
Proof.
  induction rs as [|r0 t IH]; intros Hin Hr; [destruct Hin|]. cbn [root_steps].
  destruct Hin as [->|Hin].
  - rewrite Hr. left. reflexivity.
  - destruct (r0 e); [right|]; exact (IH Hin Hr).
Qed.

Lemma list_steps_complete (f : expr -> list expr) l1 x x' l2 :
  In x' (f x) -> In (l1 ++ x' :: l2) (list_steps f (l1 ++ x :: l2)).
Proof.
  intros H. induction l1 as [|y t IH]; cbn [app list_steps]; apply in_or_app.
  - left. apply in_map_iff. exists x'. split; [reflexivity | exact H].
  - right. apply in_map_iff. exists (t ++ x' :: l2). split; [reflexivity | exact IH].
Qed.

Theorem all_steps_complete e e' : rstep e e' -> In e' (all_steps e).
Proof.
  intros H. induction H as [r e e' Hin Hr | e e' ix o H IH | e e' axes H IH | e e' s c p b pp H IH | e e' axes H IH
                            | e e' shp c H IH | e e' c p H IH | op l1 e e' l2 H IH | e e' axis rest H IH
                            | a axis l1 e e' l2 H IH | e e' axis rest H IH | a axis l1 e e' l2 H IH].
  - destruct e; cbn [all_steps]; apply in_or_app; left; exact (root_steps_complete _ r _ _ Hin Hr).
  - cbn [all_steps]. apply in_or_app. right. apply in_map_iff. exists e'. split; [reflexivity | exact IH].
  - cbn [all_steps]. apply in_or_app. right. apply in_map_iff. exists e'. split; [reflexivity | exact IH].
  - cbn [all_steps]. apply in_or_app. right. apply in_map_iff. exists e'. split; [reflexivity | exact IH].
  - cbn [all_steps]. apply in_or_app. right. apply in_map_iff. exists e'. split; [reflexivity | exact IH].
  - cbn [all_steps]. apply in_or_app. right. apply in_map_iff. exists e'. split; [reflexivity | exact IH].
  - cbn [all_steps]. apply in_or_app. right. apply in_map_iff. exists e'. split; [reflexivity | exact IH].
  - cbn [all_steps]. apply in_or_app. right. apply in_map_iff. exists (l1 ++ e' :: l2).
    split; [reflexivity | apply list_steps_complete; exact IH].
  - cbn [all_steps]. apply in_or_app. right. apply in_or_app. left. apply in_map_iff. exists e'. split; [reflexivity | exact IH].
  - cbn [all_steps]. apply in_or_app. right. apply in_or_app. right. apply in_map_iff. exists (l1 ++ e' :: l2).
    split; [reflexivity | apply list_steps_complete; exact IH].
  - cbn [all_steps]. apply in_or_app. right. apply in_or_app. left. apply in_map_iff. exists e'. split; [reflexivity | exact IH].
  - cbn [all_steps]. apply in_or_app. right. apply in_or_app. right. apply in_map_iff. exists (l1 ++ e' :: l2).
    split; [reflexivity | apply list_steps_complete; exact IH].
Qed.

(* ---------------------------------------------------------------------- *)
(* (e) the system is NOT confluent: a well-formed expression with two different normal forms *)
Ltac in_rules := unfold simp_rules, down_rules, up_rules; cbn [app In]; tauto.

Theorem confluence_refuted :
  exists e a b, wfb e = true /\ rsteps e a /\ rsteps e b /\ normal a /\ normal b /\ a <> b.
Proof.
  exists cp_raw, cp_nf1, cp_nf2. split; [|split; [|split; [|split; [|split]]]].
  - vm_compute. reflexivity.
  - eapply rss_step; [|eapply rss_step; [|apply rss_refl]].
    + apply (rs_root rule_slice_slice); [in_rules | vm_compute; reflexivity].
    + apply (rs_root rule_slice_elemwise); [in_rules | vm_compute; reflexivity].
  - eapply rss_step; [|eapply rss_step; [|apply rss_refl]].
    + apply rs_slice. apply (rs_root rule_slice_elemwise); [in_rules | vm_compute; reflexivity].
    + apply (rs_root rule_slice_elemwise); [in_rules | vm_compute; reflexivity].
  - apply applicable_false_normal. vm_compute. reflexivity.
  - apply applicable_false_normal. vm_compute. reflexivity.
  - intros H. discriminate H.
Qed.

(* non-vacuity of the sequence bound: a rewrite sequence of length 3 *)
Lemma chain_example :
  let x := ELeaf 1 [4; 3] [[4]; [3]] in let y := ELeaf 2 [3] [[3]] in
  let e0 := ESlice (ETranspose (ETranspose (EElemwise 1 [x; y]) [1; 0]%nat) [1; 0]%nat)
              [ISlice (mkslice (Some 1) None None); IInt 0] true in
  exists e1 e2 e3, chain e0 [e1; e2; e3] /\ mu e0 = 21%nat /\ applicable e3 = false.
Proof.
  eexists. eexists. eexists. split; [|split]; [cbn [chain]; repeat split | vm_compute; reflexivity |].
  - apply rs_slice. apply (rs_root rule_transpose_transpose); [in_rules | vm_compute; reflexivity].
  - apply rs_slice. apply (rs_root rule_transpose_identity); [in_rules | vm_compute; reflexivity].
  - apply (rs_root rule_slice_elemwise); [in_rules | vm_compute; reflexivity].
  - vm_compute. reflexivity.
Qed.
