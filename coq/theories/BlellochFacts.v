(* C19 — the Blelloch up-sweep / down-sweep of CumReductionBlelloch._layer computes the
   inclusive scan of the block totals for EVERY number of blocks.
   Proof over the free monoid (words of block indices under concatenation); ScanFacts.v
   (naturality of the sweeps) transfers it to every monoid. *)
From DA Require Import PyBase PyBaseFacts Scan ScanFacts.
From Coq Require Import ZifyBool FinFun.
Open Scope Z_scope.

Ltac Zify.zify_post_hook ::= Z.to_euclidean_division_equations.

(* ---- powers of two and divisibility --------------------------------------------------- *)
Definition p2 (k : nat) : Z := 2 ^ Z.of_nat k.

Lemma p2_0 : p2 0 = 1. Proof. reflexivity. Qed.
Lemma p2_S k : p2 (S k) = 2 * p2 k.
Proof. unfold p2. rewrite Nat2Z.inj_succ, Z.pow_succ_r by lia. reflexivity. Qed.
Lemma p2_half k : p2 (S k) / 2 = p2 k.
Proof. rewrite p2_S, (Z.mul_comm 2), Z.div_mul by lia. reflexivity. Qed.
Lemma p2_pos k : 0 < p2 k.
Proof. unfold p2. apply Z.pow_pos_nonneg; lia. Qed.
Lemma p2_mono a b : (a <= b)%nat -> p2 a <= p2 b.
Proof. intros H. unfold p2. apply Z.pow_le_mono_r; lia. Qed.
Lemma p2_lt_inv a b : p2 a < p2 b -> (a < b)%nat.
Proof. intros H. destruct (Nat.lt_ge_cases a b) as [Hl|Hg]; [exact Hl|]. pose proof (p2_mono b a Hg). lia. Qed.
Lemma p2_gt_lin n : Z.of_nat n < p2 n.
Proof. unfold p2. apply Z.pow_gt_lin_r; lia. Qed.

Lemma mod0_divide x p : 0 < p -> (x mod p = 0 <-> (p | x)).
Proof. intros Hp. apply Z.mod_divide. lia. Qed.

Lemma mod_half x p : 0 < p -> x mod (2 * p) = 0 -> x mod p = 0.
Proof.
  intros Hp H. apply mod0_divide in H; [|lia]. apply mod0_divide; [lia|].
  eapply Z.divide_trans; [|exact H]. exists 2. lia.
Qed.

Lemma mod_p2_le x a b : (a <= b)%nat -> x mod p2 b = 0 -> x mod p2 a = 0.
Proof.
  intros Hab. induction Hab as [|b Hab IH]; [auto|]. intros H. apply IH.
  rewrite p2_S in H. apply mod_half; [apply p2_pos | exact H].
Qed.

Lemma mod_odd_multiple x p : 0 < p -> x mod p = 0 -> x mod (2 * p) <> 0 -> (x - p) mod (2 * p) = 0.
Proof.
  intros Hp H0 H1. apply mod0_divide in H0 as [q Hq]; [|lia].
  assert (Hq2 : q = 2 * (q / 2) + q mod 2) by (apply Z.div_mod; lia).
  assert (Hm : q mod 2 = 0 \/ q mod 2 = 1) by (pose proof (Z.mod_pos_bound q 2); lia).
  destruct Hm as [Hm|Hm].
  - exfalso. apply H1. apply mod0_divide; [lia|]. exists (q / 2). nia.
  - apply mod0_divide; [lia|]. exists (q / 2). nia.
Qed.

Lemma mod_shift_nonzero x p : 0 < p -> x mod (2 * p) = 0 -> (x - p) mod (2 * p) <> 0.
Proof.
  intros Hp H0 H1. apply mod0_divide in H0 as [q Hq]; [|lia]. apply mod0_divide in H1 as [q' Hq']; [|lia].
  assert (p * (2 * (q - q') - 1) = 0) by nia.
  assert (2 * (q - q') - 1 = 0) by nia. lia.
Qed.

Lemma mod_shift_inv x p : 0 < p -> (x - p) mod (2 * p) = 0 -> x mod p = 0 /\ x mod (2 * p) <> 0.
Proof.
  intros Hp H. split.
  - apply mod0_divide in H as [q Hq]; [|lia]. apply mod0_divide; [lia|]. exists (2 * q + 1). nia.
  - intros H0. apply (mod_shift_nonzero x p Hp H0). exact H.
Qed.

(* lowp k x: the largest power of two 2^j, j <= k, that divides x *)
Fixpoint lowp (k : nat) (x : Z) : Z :=
  match k with
  | O => 1
  | S k' => if x mod p2 (S k') =? 0 then p2 (S k') else lowp k' x
  end.

Lemma lowp_pos k x : 0 < lowp k x.
Proof. induction k as [|k IH]; cbn [lowp]; [lia|]. destruct (x mod p2 (S k) =? 0); [apply p2_pos | exact IH]. Qed.

Lemma lowp_divides k x : x mod lowp k x = 0.
Proof.
  induction k as [|k IH]; cbn [lowp]; [apply Z.mod_1_r|].
  destruct (x mod p2 (S k) =? 0) eqn:E; [apply Z.eqb_eq in E; exact E | exact IH].
Qed.

Lemma lowp_le k x : 0 < x -> lowp k x <= x.
Proof.
  intros Hx. pose proof (lowp_divides k x) as H. pose proof (lowp_pos k x) as Hp.
  apply mod0_divide in H; [|lia]. apply Z.divide_pos_le; assumption.
Qed.

Lemma lowp_full k x : x mod p2 k = 0 -> lowp k x = p2 k.
Proof. destruct k as [|k]; [reflexivity|]. cbn [lowp]. intros H. rewrite H. reflexivity. Qed.

Lemma lowp_step k x : x mod p2 (S k) <> 0 -> lowp (S k) x = lowp k x.
Proof. intros H. cbn [lowp]. destruct (x mod p2 (S k) =? 0) eqn:E; [apply Z.eqb_eq in E; congruence | reflexivity]. Qed.

(* the exact power of two in x, seen from any larger K *)
Lemma lowp_exact K k x : (k <= K)%nat -> x mod p2 k = 0 -> x mod p2 (S k) <> 0 -> lowp K x = p2 k.
Proof.
  intros HkK H0 H1. induction HkK as [|K HkK IH]; [apply lowp_full; exact H0|].
  rewrite lowp_step; [exact IH|]. intros E. apply H1. apply (mod_p2_le x (S k) (S K)); [lia | exact E].
Qed.

Lemma lowp_of_p2 K m : (m <= K)%nat -> p2 m < p2 (S K) -> lowp K (p2 m) = p2 m.
Proof.
  intros HmK _. induction HmK as [|K HmK IH]; [apply lowp_full, Z.mod_same; pose proof (p2_pos m); lia|].
  rewrite lowp_step; [exact IH|].
  rewrite Z.mod_small; [pose proof (p2_pos m); lia|]. split; [pose proof (p2_pos m); lia|].
  apply Z.lt_le_trans with (p2 (S m)); [rewrite p2_S; pose proof (p2_pos m); lia | apply p2_mono; lia].
Qed.

(* ---- words: segments of block indices ------------------------------------------------- *)
Definition segZ (a b : Z) : list Z := map Z.of_nat (seq (Z.to_nat a) (Z.to_nat (b - a))).

Lemma segZ_app a b c : 0 <= a -> a <= b -> b <= c -> segZ a b ++ segZ b c = segZ a c.
Proof.
  intros Ha Hab Hbc. unfold segZ. rewrite <- map_app. f_equal.
  replace (Z.to_nat (c - a)) with (Z.to_nat (b - a) + Z.to_nat (c - b))%nat by lia.
  rewrite seq_app. do 2 f_equal. lia.
Qed.

Lemma iota_segZ i : iota i = segZ 0 (Z.of_nat i + 1).
Proof. unfold iota, segZ. do 2 f_equal. lia. Qed.

(* ---- in-place list updates ------------------------------------------------------------- *)
Section Upd.
  Context {T : Type}.
  Lemma upd_length (l : list T) : forall i v, length (upd l i v) = length l.
  Proof. induction l as [|x t IH]; intros [|i] v; cbn; try reflexivity. rewrite IH. reflexivity. Qed.

  Lemma nth_upd_same (l : list T) : forall i v d, (i < length l)%nat -> nth i (upd l i v) d = v.
  Proof. induction l as [|x t IH]; intros [|i] v d Hi; cbn in *; try lia; [reflexivity|]. apply IH. lia. Qed.

  Lemma nth_upd_other (l : list T) : forall i j v d, i <> j -> nth j (upd l i v) d = nth j l d.
  Proof.
    induction l as [|x t IH]; intros [|i] [|j] v d Hij; cbn; try reflexivity; try congruence.
    apply IH. congruence.
  Qed.
End Upd.

(* membership in a Python range with a positive step *)
Lemma zrange_In_iff a b k p : 0 < k -> (In p (zrange a b k) <-> a <= p < b /\ (p - a) mod k = 0).
Proof.
  intros Hk. unfold zrange. rewrite in_map_iff. split.
  - intros (i & Hp & Hi). apply in_seq in Hi. subst p.
    assert (Hlen : Z.of_nat i < range_len a b k) by lia.
    rewrite range_len_pos_step in Hlen by lia. destruct (a <? b) eqn:E; [|lia].
    split; [split; [nia|] | ].
    + assert (Z.of_nat i <= (b - a - 1) / k) by lia.
      assert (k * ((b - a - 1) / k) <= b - a - 1) by (apply Z.mul_div_le; lia). nia.
    + replace (a + Z.of_nat i * k - a) with (Z.of_nat i * k) by lia. apply Z_mod_mult.
  - intros [[H1 H2] H3]. apply mod0_divide in H3 as [q Hq]; [|lia].
    assert (Hq0 : 0 <= q) by nia.
    exists (Z.to_nat q). split; [rewrite Z2Nat.id by lia; lia|]. apply in_seq.
    rewrite range_len_pos_step by lia. destruct (a <? b) eqn:E; [|lia].
    assert (q <= (b - a - 1) / k) by (apply Z.div_le_lower_bound; [lia | nia]). lia.
Qed.

Lemma zrange_NoDup a b k : 0 < k -> NoDup (zrange a b k).
Proof.
  intros Hk. unfold zrange. apply Injective_map_NoDup; [|apply seq_NoDup].
  intros x y H. nia.
Qed.

(* ---- one pass of either sweep is a parallel update ------------------------------------- *)
Section Pass.
  Local Notation W := (list Z).
  Local Notation gw pv i := (nth i pv (@nil Z)).

  Lemma getZ_nat (pv : list W) (i : Z) : 0 <= i -> getZ [] pv i = gw pv (Z.to_nat i).
  Proof. reflexivity. Qed.

  Lemma fold_pass_spec stride : forall (idxs : list Z) (pv : list W),
    NoDup idxs -> (forall i, In i idxs -> stride <= i /\ i < Z.of_nat (length pv)) ->
    (forall i, In i idxs -> ~ In (i - stride) idxs) -> 0 < stride ->
    let pv' := fold_left (fun pv i => upd pv (Z.to_nat i) (getZ [] pv (i - stride) ++ getZ [] pv i)) idxs pv in
    length pv' = length pv /\
    forall j : nat,
      (In (Z.of_nat j) idxs -> gw pv' j = gw pv (j - Z.to_nat stride) ++ gw pv j) /\
      (~ In (Z.of_nat j) idxs -> gw pv' j = gw pv j).
  Proof.
    induction idxs as [|i0 t IH]; intros pv Hnd Hrange Hsep Hs; cbv zeta.
    - cbn [fold_left]. split; [reflexivity|]. intros j. split; [intros []|reflexivity].
    - cbn [fold_left]. inversion Hnd as [|? ? Hnot Hnd']; subst.
      set (pv1 := upd pv (Z.to_nat i0) (getZ [] pv (i0 - stride) ++ getZ [] pv i0)).
      destruct (Hrange i0 (or_introl eq_refl)) as [Hi0a Hi0b].
      assert (Hlen1 : length pv1 = length pv) by apply upd_length.
      specialize (IH pv1 Hnd').
      assert (Hr1 : forall i, In i t -> stride <= i /\ i < Z.of_nat (length pv1)).
      { intros i Hi. rewrite Hlen1. apply Hrange. right. exact Hi. }
      assert (Hs1 : forall i, In i t -> ~ In (i - stride) t).
      { intros i Hi Hc. apply (Hsep i (or_intror Hi)). right. exact Hc. }
      specialize (IH Hr1 Hs1 Hs). cbv zeta in IH. destruct IH as [IHl IHv].
      split; [rewrite IHl; exact Hlen1|].
      intros j. destruct (IHv j) as [IH1 IH2]. split.
      + intros [Hj|Hj].
        * (* j = i0: untouched by the rest *)
          assert (Hnj : ~ In (Z.of_nat j) t) by (rewrite <- Hj; exact Hnot).
          rewrite (IH2 Hnj). unfold pv1. subst i0. rewrite Nat2Z.id.
          rewrite nth_upd_same by lia. unfold getZ. rewrite Nat2Z.id.
          replace (Z.to_nat (Z.of_nat j - stride)) with (j - Z.to_nat stride)%nat by lia. reflexivity.
        * rewrite (IH1 Hj).
          destruct (Hrange (Z.of_nat j) (or_intror Hj)) as [Hja Hjb].
          assert (Hne : Z.to_nat i0 <> j).
          { intros E. apply Hnot. replace i0 with (Z.of_nat j) by lia. exact Hj. }
          assert (Hne2 : Z.to_nat i0 <> (j - Z.to_nat stride)%nat).
          { intros E. apply (Hsep (Z.of_nat j) (or_intror Hj)). left. lia. }
          unfold pv1. rewrite !nth_upd_other by assumption. reflexivity.
      + intros Hj. assert (Hj1 : ~ In (Z.of_nat j) t) by (intros Hc; apply Hj; right; exact Hc).
        rewrite (IH2 Hj1). unfold pv1. apply nth_upd_other. intros E. apply Hj. left. lia.
  Qed.

  (* the pass of either sweep: positions x = i + 1 with (x - off) a multiple of 2s, x >= off + 2s *)
  Lemma sweep_pass_spec (pv : list W) (s off : Z) :
    0 < s -> 0 <= off -> (off = 0 \/ off = s) ->
    let n := Z.of_nat (length pv) in
    let pv' := sweep_pass (@app Z) [] pv (off + 2 * s - 1) n s (2 * s) in
    length pv' = length pv /\
    forall j : nat, (j < length pv)%nat ->
      let x := Z.of_nat j + 1 in
      ((x - off) mod (2 * s) = 0 -> off + 2 * s <= x -> gw pv' j = gw pv (j - Z.to_nat s) ++ gw pv j) /\
      (~ ((x - off) mod (2 * s) = 0 /\ off + 2 * s <= x) -> gw pv' j = gw pv j).
  Proof.
    intros Hs Hoff Hcase n pv'. unfold pv', sweep_pass.
    assert (H2s : 0 < 2 * s) by lia.
    pose proof (fold_pass_spec s (zrange (off + 2 * s - 1) n (2 * s)) pv (zrange_NoDup (off + 2 * s - 1) n (2 * s) H2s)) as HF.
    assert (Hin : forall i, In i (zrange (off + 2 * s - 1) n (2 * s)) <-> (off + 2 * s - 1 <= i < n /\ (i + 1 - off) mod (2 * s) = 0)).
    { intros i. rewrite zrange_In_iff by lia.
      replace (i - (off + 2 * s - 1)) with ((i + 1 - off) + (-1) * (2 * s)) by lia.
      rewrite Z_mod_plus_full. reflexivity. }
    specialize (HF ltac:(intros i Hi; apply Hin in Hi; unfold n in Hi; lia)).
    assert (Hsep : forall i, In i (zrange (off + 2 * s - 1) n (2 * s)) -> ~ In (i - s) (zrange (off + 2 * s - 1) n (2 * s))).
    { intros i Hi Hc. apply Hin in Hi. apply Hin in Hc. destruct Hi as [_ Hi]. destruct Hc as [_ Hc].
      replace (i - s + 1 - off) with ((i + 1 - off) - s) in Hc by lia.
      apply (mod_shift_nonzero (i + 1 - off) s Hs Hi). exact Hc. }
    specialize (HF Hsep Hs). cbv zeta in HF. destruct HF as [HFl HFv].
    split; [exact HFl|]. intros j Hj. set (x := Z.of_nat j + 1). destruct (HFv j) as [H1 H2]. split.
    - intros Hm Hx. apply H1. apply Hin. unfold n, x in *. lia.
    - intros Hn. apply H2. intros Hc. apply Hin in Hc. apply Hn. unfold x. split; [tauto | lia].
  Qed.
End Pass.

(* ---- the two sweeps over the free monoid ------------------------------------------------- *)
Section Sweeps.
  Variable nn : nat.                         (* n_vals = number of blocks - 1 *)
  Local Notation n := (Z.of_nat nn).
  Local Notation W := (list Z).
  Local Notation gw pv i := (nth i pv (@nil Z)).

  (* after the up-sweep levels below 2^k: slot i holds the last lowp k (i+1) totals up to i *)
  Definition upinv (k : nat) (pv : list W) : Prop :=
    length pv = nn /\ forall i : nat, (i < nn)%nat ->
      let x := Z.of_nat i + 1 in gw pv i = segZ (x - lowp k x) x.

  Lemma upinv_init : upinv 0 (map (fun i => [Z.of_nat i]) (seq 0 nn)).
  Proof.
    split; [rewrite map_length, seq_length; reflexivity|]. intros i Hi x.
    set (f := fun i : nat => [Z.of_nat i]).
    rewrite (nth_indep (map f (seq 0 nn)) [] (f 0%nat)) by (rewrite map_length, seq_length; exact Hi).
    rewrite map_nth, seq_nth by exact Hi. unfold f. cbn [lowp Nat.add]. unfold segZ, x.
    replace (Z.to_nat (Z.of_nat i + 1 - (Z.of_nat i + 1 - 1))) with 1%nat by lia.
    replace (Z.to_nat (Z.of_nat i + 1 - 1)) with i by lia. reflexivity.
  Qed.

  Lemma upinv_step k pv : upinv k pv ->
    upinv (S k) (sweep_pass (@app Z) [] pv (p2 (S k) - 1) n (p2 k) (p2 (S k))).
  Proof.
    intros [Hlen Hv]. pose proof (p2_pos k) as Hp.
    pose proof (sweep_pass_spec pv (p2 k) 0 Hp ltac:(lia) ltac:(left; reflexivity)) as HS.
    cbv zeta in HS. rewrite Hlen in HS. rewrite <- p2_S in HS. rewrite Z.add_0_l in HS.
    destruct HS as [HSl HSv]. split; [exact HSl|]. intros i Hi x.
    destruct (HSv i Hi) as [H1 H2]. fold x in H1, H2. rewrite Z.sub_0_r in H1, H2.
    destruct (Z.eq_dec (x mod p2 (S k)) 0) as [E|E].
    - assert (Hx : p2 (S k) <= x).
      { apply mod0_divide in E; [|apply p2_pos]. apply Z.divide_pos_le; [unfold x; lia | exact E]. }
      rewrite (H1 E ltac:(lia)).
      rewrite (lowp_full (S k) x E).
      assert (E0 : x mod p2 k = 0) by (apply (mod_p2_le x k (S k)); [lia | exact E]).
      rewrite p2_S in Hx.
      assert (Hi' : (i - Z.to_nat (p2 k) < nn)%nat) by lia.
      rewrite (Hv _ Hi'), (Hv i Hi). cbv zeta. fold x.
      replace (Z.of_nat (i - Z.to_nat (p2 k)) + 1) with (x - p2 k) by (unfold x; lia).
      assert (E1 : (x - p2 k) mod p2 k = 0).
      { replace (x - p2 k) with (x + (-1) * p2 k) by lia. rewrite Z_mod_plus_full. exact E0. }
      rewrite (lowp_full k _ E1), (lowp_full k x E0). rewrite p2_S.
      rewrite segZ_app by lia. f_equal. lia.
    - rewrite (H2 ltac:(tauto)). rewrite (lowp_step k x E). apply Hv. exact Hi.
  Qed.

  Lemma upsweep_spec : forall fuel k pv,
    upinv k pv -> p2 k <= n -> n < p2 (S (k + fuel)) ->
    exists K pv', upsweep (@app Z) [] fuel pv n (p2 k) (p2 (S k)) = Some pv' /\
                  upinv K pv' /\ p2 K <= n /\ n < p2 (S K) /\ (k <= K)%nat.
  Proof.
    induction fuel as [|f IH]; intros k pv Hinv Hk Hf.
    - exists k, pv. cbn [upsweep]. rewrite Nat.add_0_r in Hf.
      destruct (p2 (S k) <=? n) eqn:E; [lia|]. split; [reflexivity|]. split; [exact Hinv|]. lia.
    - cbn [upsweep]. destruct (p2 (S k) <=? n) eqn:E.
      + replace (p2 (S k) * 2) with (p2 (S (S k))) by (rewrite (p2_S (S k)); lia).
        destruct (IH (S k) _ (upinv_step k pv Hinv) ltac:(lia) ltac:(replace (S k + f)%nat with (k + S f)%nat by lia; exact Hf))
          as (K & pv' & H1 & H2 & H3 & H4 & H5).
        exists K, pv'. split; [exact H1|]. split; [exact H2|]. lia.
      + exists k, pv. split; [reflexivity|]. split; [exact Hinv|]. lia.
  Qed.

  (* down-sweep: slots whose position is a multiple of 2^k hold a complete prefix *)
  Definition downinv (K k : nat) (pv : list W) : Prop :=
    length pv = nn /\ forall i : nat, (i < nn)%nat ->
      let x := Z.of_nat i + 1 in
      gw pv i = if x mod p2 k =? 0 then segZ 0 x else segZ (x - lowp K x) x.

  Lemma downinv_step K k pv : (k < K)%nat -> n < p2 (S K) -> downinv K (S k) pv ->
    downinv K k (sweep_pass (@app Z) [] pv (p2 (S k) + p2 k - 1) n (p2 k) (p2 (S k))).
  Proof.
    intros HkK HnK [Hlen Hv]. pose proof (p2_pos k) as Hp. pose proof (p2_pos (S k)) as HpS.
    pose proof (sweep_pass_spec pv (p2 k) (p2 k) Hp ltac:(lia) ltac:(right; reflexivity)) as HS.
    cbv zeta in HS. rewrite Hlen in HS. rewrite <- p2_S in HS.
    replace (p2 k + p2 (S k) - 1) with (p2 (S k) + p2 k - 1) in HS by lia.
    destruct HS as [HSl HSv]. split; [exact HSl|]. intros i Hi x.
    destruct (HSv i Hi) as [H1 H2]. fold x in H1, H2.
    assert (Hx0 : 0 < x) by (unfold x; lia).
    destruct (Z.eq_dec (x mod p2 k) 0) as [E0|E0].
    - rewrite E0. cbn [Z.eqb].
      destruct (Z.eq_dec (x mod p2 (S k)) 0) as [E1|E1].
      + (* already complete; not touched *)
        rewrite H2.
        * rewrite (Hv i Hi). cbv zeta. fold x. rewrite E1. reflexivity.
        * intros [Hc _]. rewrite p2_S in Hc, E1. apply (mod_shift_nonzero x (p2 k) Hp E1 Hc).
      + (* x = 2^k * odd *)
        assert (Hm : (x - p2 k) mod p2 (S k) = 0) by (rewrite p2_S in *; apply mod_odd_multiple; assumption).
        assert (Hlow : lowp K x = p2 k) by (apply lowp_exact; [lia | exact E0 | exact E1]).
        destruct (Z_le_gt_dec (p2 k + p2 (S k)) x) as [Hge|Hlt].
        * rewrite (H1 Hm Hge).
          assert (Hi' : (i - Z.to_nat (p2 k) < nn)%nat) by lia.
          rewrite (Hv _ Hi'), (Hv i Hi). cbv zeta. fold x.
          replace (Z.of_nat (i - Z.to_nat (p2 k)) + 1) with (x - p2 k) by (unfold x; rewrite p2_S in Hge; lia).
          rewrite Hm. cbn [Z.eqb].
          destruct (x mod p2 (S k) =? 0) eqn:E1'; [apply Z.eqb_eq in E1'; congruence|].
          rewrite Hlow. apply segZ_app; lia.
        * (* x = 2^k itself: the up-sweep already completed it *)
          rewrite (H2 ltac:(lia)). rewrite (Hv i Hi). cbv zeta. fold x.
          destruct (x mod p2 (S k) =? 0) eqn:E1'; [apply Z.eqb_eq in E1'; congruence|].
          assert (Hxk : x = p2 k).
          { apply mod0_divide in Hm; [|apply p2_pos]. destruct Hm as [q Hq].
            assert (p2 k <= x) by (apply mod0_divide in E0; [apply Z.divide_pos_le; assumption | exact Hp]).
            rewrite p2_S in *. assert (q = 0) by nia. nia. }
          rewrite Hlow, Hxk. f_equal. lia.
    - (* not a multiple of 2^k: untouched, still the up-sweep segment *)
      destruct (x mod p2 k =? 0) eqn:E0'; [apply Z.eqb_eq in E0'; congruence|].
      rewrite H2.
      + rewrite (Hv i Hi). cbv zeta. fold x.
        destruct (x mod p2 (S k) =? 0) eqn:E1; [|reflexivity].
        apply Z.eqb_eq in E1. exfalso. apply E0. apply (mod_p2_le x k (S k)); [lia | exact E1].
      + intros [Hc _]. rewrite p2_S in Hc. apply mod_shift_inv in Hc as [Hc _]; [|exact Hp]. congruence.
  Qed.

  Lemma downsweep_spec K : n < p2 (S K) -> forall k fuel pv,
    (k < K)%nat -> (k < fuel)%nat -> downinv K (S k) pv ->
    exists pv', downsweep (@app Z) [] fuel pv n (p2 k) (p2 (S k)) = Some pv' /\ downinv K 0 pv'.
  Proof.
    intros HnK. induction k as [|k IH]; intros fuel pv HkK Hfuel Hinv.
    - destruct fuel as [|f]; [lia|]. cbn [downsweep]. change (p2 0) with 1.
      change (1 >? 0) with true. cbv iota. change (1 / 2) with 0.
      destruct f as [|f']; cbn [downsweep]; change (0 >? 0) with false; cbv iota;
        (eexists; split; [reflexivity|]; change 1 with (p2 0) at 2 3;
         replace (p2 1 + p2 0 - 1) with (p2 (S 0) + p2 0 - 1) by reflexivity;
         apply (downinv_step K 0 pv HkK HnK Hinv)).
    - destruct fuel as [|f]; [lia|]. cbn [downsweep].
      pose proof (p2_pos (S k)) as Hp. destruct (p2 (S k) >? 0) eqn:E; [|lia].
      rewrite p2_half.
      apply IH; [lia | lia |]. apply downinv_step; [lia | exact HnK | exact Hinv].
  Qed.

  (* the start of the down-sweep: 2 ** ceil(log2(n // 2)), at least 2 *)
  Lemma pow2_ge_spec : forall fuel j k,
    0 < k -> k <= p2 (j + fuel) ->
    exists m, pow2_ge fuel (p2 j) k = p2 m /\ (j <= m)%nat /\ k <= p2 m /\ (m = j \/ p2 m < 2 * k).
  Proof.
    induction fuel as [|f IH]; intros j k Hk Hf.
    - rewrite Nat.add_0_r in Hf. exists j. cbn [pow2_ge]. destruct (k <=? p2 j) eqn:E; [|lia].
      split; [reflexivity|]. split; [lia|]. split; [lia|]. left; reflexivity.
    - cbn [pow2_ge]. destruct (k <=? p2 j) eqn:E.
      + exists j. split; [reflexivity|]. split; [lia|]. split; [lia|]. left; reflexivity.
      + rewrite <- p2_S.
        destruct (IH (S j) k Hk ltac:(replace (S j + f)%nat with (j + S f)%nat by lia; exact Hf)) as (m & H1 & H2 & H3 & H4).
        exists m. split; [exact H1|]. split; [lia|]. split; [exact H3|]. right.
        destruct H4 as [->|H4]; [rewrite p2_S; lia | exact H4].
  Qed.

  Theorem blelloch_wiring_n : blelloch_wiring nn = Some (map iota (seq 0 nn)).
  Proof.
    unfold blelloch_wiring, blelloch_prefix. rewrite map_length, seq_length.
    set (gens := map (fun i => [Z.of_nat i]) (seq 0 nn)).
    destruct (n >=? 2) eqn:E2.
    - (* up-sweep *)
      destruct (upsweep_spec nn 0 gens upinv_init ltac:(change (p2 0) with 1; lia)
                             ltac:(cbn [Nat.add]; pose proof (p2_gt_lin (S nn)); lia))
        as (K & pv1 & HU & Hinv1 & HK1 & HK2 & _).
      change (p2 0) with 1 in HU. change (p2 1) with 2 in HU. rewrite HU.
      (* start of the down-sweep *)
      assert (Hhalf : 0 < n / 2) by (apply Z.div_str_pos; lia).
      destruct (pow2_ge_spec nn 0 (n / 2) Hhalf ltac:(cbn [Nat.add]; pose proof (p2_gt_lin nn); lia))
        as (m0 & Hm1 & _ & Hm3 & Hm4).
      change (p2 0) with 1 in Hm1. rewrite Hm1.
      assert (HK0 : (1 <= K)%nat).
      { destruct K; [change (p2 1) with 2 in HK2; lia | lia]. }
      (* S = 2^m with 1 <= m <= K and 3 S > n *)
      assert (Hm : exists m, Z.max 2 (p2 m0) = p2 (S m) /\ (S m <= K)%nat /\ n < 3 * p2 (S m)).
      { destruct m0 as [|m0'].
        - exists 0%nat. change (p2 0) with 1 in *. change (p2 1) with 2. repeat split; lia.
        - exists m0'. rewrite Z.max_r by (rewrite p2_S; pose proof (p2_pos m0'); lia).
          split; [reflexivity|]. split.
          + destruct Hm4 as [Hm4|Hm4]; [discriminate|].
            assert (p2 (S m0') < p2 (S K)).
            { pose proof (p2_S K). lia. }
            apply p2_lt_inv in H. lia.
          + pose proof (p2_S m0'). pose proof (p2_pos m0'). lia. }
      destruct Hm as (m & HS & HmK & H3S). rewrite HS.
      rewrite p2_half.
      (* the down-sweep invariant holds at its first level *)
      assert (HD : downinv K (S m) pv1).
      { destruct Hinv1 as [Hl Hv]. split; [exact Hl|]. intros i Hi x.
        rewrite (Hv i Hi). cbv zeta. fold x.
        destruct (x mod p2 (S m) =? 0) eqn:E; [|reflexivity]. apply Z.eqb_eq in E.
        assert (Hxn : x <= n) by (unfold x; lia).
        apply mod0_divide in E; [|apply p2_pos]. destruct E as [q Hq].
        pose proof (p2_pos (S m)) as HpS.
        assert (Hq12 : q = 1 \/ q = 2) by nia.
        assert (Hlow : lowp K x = x).
        { destruct Hq12 as [->| ->].
          - replace x with (p2 (S m)) by lia. apply lowp_of_p2; [exact HmK|]. lia.
          - replace x with (p2 (S (S m))) by (rewrite (p2_S (S m)); lia).
            assert (p2 (S (S m)) < p2 (S K)) by (rewrite (p2_S (S m)); lia).
            apply lowp_of_p2; [apply p2_lt_inv in H; lia | exact H]. }
        rewrite Hlow. f_equal. lia. }
      destruct (downsweep_spec K HK2 m (S nn) pv1 ltac:(lia)
                  ltac:(pose proof (p2_gt_lin m); pose proof (p2_mono (S m) K HmK); rewrite p2_S in *; lia) HD)
        as (pv2 & HDn & [Hl2 Hv2]).
      rewrite HDn. f_equal.
      apply nth_ext with (d := []) (d' := []); [rewrite map_length, seq_length; exact Hl2|].
      intros i Hi. rewrite Hl2 in Hi. rewrite (Hv2 i Hi). cbv zeta.
      change (p2 0) with 1. rewrite Z.mod_1_r. cbn [Z.eqb].
      rewrite (nth_indep (map iota (seq 0 nn)) [] (iota 0)) by (rewrite map_length, seq_length; exact Hi).
      rewrite map_nth, seq_nth by exact Hi. cbn [Nat.add]. symmetry. apply iota_segZ.
    - (* fewer than two prefix values: nothing to combine *)
      f_equal. unfold gens. assert (Hn : (nn <= 1)%nat) by lia.
      destruct nn as [|[|?]]; [reflexivity | reflexivity | lia].
  Qed.
End Sweeps.

Theorem blelloch_wiring_correct (n : nat) : blelloch_wiring n = Some (map iota (seq 0 n)).
Proof. apply blelloch_wiring_n. Qed.

(* every monoid: prefix_vals ends up as the inclusive scan of the block totals *)
Theorem blelloch_prefix_correct (M : Type) (op : M -> M -> M) (e : M) :
  (forall a b c, op a (op b c) = op (op a b) c) -> (forall a, op e a = a) -> (forall a, op a e = a) ->
  forall ts, blelloch_prefix op e ts = Some (scan op ts).
Proof.
  intros Ha Hl Hr ts. apply (blelloch_prefix_of_wiring M op e Ha Hl Hr). apply blelloch_wiring_correct.
Qed.

(* C19_cumsum_blelloch *)
Theorem cum_blelloch_correct (M : Type) (op : M -> M -> M) (e : M) :
  (forall a b c, op a (op b c) = op (op a b) c) -> (forall a, op e a = a) -> (forall a, op a e = a) ->
  forall blocks : list (list M),
    cum_blelloch op e blocks = Some (cum_sequential op e blocks) /\
    (forall out, cum_blelloch op e blocks = Some out ->
       concat out = scan op (concat blocks) /\ map (@length M) out = map (@length M) blocks).
Proof.
  intros Ha Hl Hr blocks.
  assert (H : cum_blelloch op e blocks = Some (cum_sequential op e blocks)).
  { apply cum_blelloch_of_prefix; try assumption. intros ts. apply blelloch_prefix_correct; assumption. }
  split; [exact H|]. intros out Hout. rewrite H in Hout. injection Hout as <-.
  apply cum_sequential_spec; assumption.
Qed.
