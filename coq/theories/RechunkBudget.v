(* T1 — every step of a plan returned by plan_rechunk is within the block-size
   budget max(bsl / itemsize, largest old block, largest new block). *)
From DA Require Import PyBase PyBaseFacts Rechunk RechunkBase.
From Coq Require Import ZifyBool.
Open Scope Z_scope.
Ltac Zify.zify_post_hook ::= Z.to_euclidean_division_equations.

(* cs fits the rational limit lnum / lden *)
Definition fits (lnum lden : Z) (cs : chunksN) : Prop := largest_block_size cs * lden <= lnum.

(* find_merge_rechunk only returns when its two final assertions hold *)
Lemma find_merge_fits order old new lnum lden chunks hit :
  find_merge_rechunk order old new lnum lden = Some (chunks, hit) -> fits lnum lden chunks.
Proof.
  unfold find_merge_rechunk. intros H.
  destruct (negb _); [discriminate|].
  destruct (fm_loop _ _ _ _ _ _ _ _) as [[[c l] h]|]; [|discriminate].
  destruct ((l =? largest_block_size c) && (l * lden <=? lnum)) eqn:E; [|discriminate].
  injection H as <- <-. apply andb_true_iff in E. destruct E as [E1 E2].
  apply Z.eqb_eq in E1. apply Z.leb_le in E2. unfold fits. rewrite <- E1. exact E2.
Qed.

Lemma plan_loop_fits lnum lden fuel : forall orders current new threshold gst fp steps r,
  Forall (fits lnum lden) steps ->
  plan_loop fuel orders current new lnum lden threshold gst fp steps = Some r ->
  Forall (fits lnum lden) r.
Proof.
  induction fuel as [|fuel IH]; intros orders current new threshold gst fp steps r Hs H;
    cbn [plan_loop] in H; [discriminate|].
  destruct (_ <? gst).
  { injection H as <-. apply Forall_rev. exact Hs. }
  destruct (if fp then Some current else _) as [c0|]; [|discriminate].
  destruct orders as [|order orders']; [discriminate|].
  destruct (find_merge_rechunk order c0 new lnum lden) as [[chunks hit]|] eqn:Em; [|discriminate].
  apply find_merge_fits in Em.
  destruct (_ || _).
  { injection H as <-. apply Forall_rev. exact Hs. }
  assert (Forall (fits lnum lden) (if chunksN_eqb chunks current then steps else chunks :: steps)) as Hs'.
  { destruct (chunksN_eqb chunks current); [exact Hs|constructor; assumption]. }
  destruct (negb hit).
  { injection H as <-. apply Forall_rev. exact Hs'. }
  eapply IH; eauto.
Qed.

Definition budget_num (old new : chunksN) (itemsize bsl : Z) : Z :=
  Z.max bsl (Z.max (largest_block_size old * itemsize) (largest_block_size new * itemsize)).

Lemma within_budget_iff old new itemsize bsl plan :
  plan_within_budget old new itemsize bsl plan = true <->
  Forall (fits (budget_num old new itemsize bsl) itemsize) plan.
Proof.
  unfold plan_within_budget, budget_num, fits. rewrite forallb_forall, Forall_forall.
  split; intros H x Hx; specialize (H x Hx); lia.
Qed.

(* an intermediate of bound_degree that is capped by its end points fits when
   the end points fit *)
Lemma fits_capped lnum lden a b inter :
  0 < lden -> fits lnum lden a -> fits lnum lden b ->
  largest_block_size inter <= Z.max (largest_block_size a) (largest_block_size b) ->
  fits lnum lden inter.
Proof. unfold fits. intros. nia. Qed.

(* The budget theorem for every rank. *)
Theorem plan_budget_any_rank :
  forall orders oracle old new itemsize threshold bsl degree_limit plan,
    0 < itemsize ->
    plan_rechunk orders oracle old new itemsize threshold bsl degree_limit = Some plan ->
    plan_within_budget old new itemsize bsl plan = true.
Proof.
  intros orders oracle old new itemsize threshold bsl degree_limit plan Hi H.
  apply within_budget_iff. unfold plan_rechunk in H.
  fold (budget_num old new itemsize bsl) in H.
  set (lnum := budget_num old new itemsize bsl) in *.
  assert (fits lnum itemsize old) as Hold by (unfold fits, lnum, budget_num; lia).
  assert (fits lnum itemsize new) as Hnew by (unfold fits, lnum, budget_num; lia).
  match type of H with match ?s with _ => _ end = _ => destruct s as [st|] eqn:Est end; [|discriminate].
  eapply (bound_all_forall (fits lnum itemsize)); [| exact Hold | | exact H].
  - intros a b inter cs cs' Ha Hb _ Hcap. exact (fits_capped _ _ a b inter Hi Ha Hb Hcap).
  - destruct (Nat.leb (length new) 1).
    + injection Est as <-. constructor; [exact Hnew|constructor].
    + destruct (plan_loop _ _ _ _ _ _ _ _ _ _) as [s|] eqn:Ep; [|discriminate].
      cbn [option_map] in Est. injection Est as <-.
      apply Forall_app. split; [|constructor; [exact Hnew|constructor]].
      eapply plan_loop_fits; [|exact Ep]. constructor.
Qed.

(* T1 as stated *)
Theorem plan_budget :
  forall orders oracle old new itemsize threshold bsl degree_limit plan,
    0 < itemsize ->
    plan_rechunk orders oracle old new itemsize threshold bsl degree_limit = Some plan ->
    (2 <= length new)%nat ->
    plan_within_budget old new itemsize bsl plan = true.
Proof. intros. eapply plan_budget_any_rank; eauto. Qed.

(* rank <= 1: size planning is skipped; the budget is the larger end point,
   whatever block_size_limit and itemsize are *)
Definition plan_within_endpoints (old new : chunksN) (plan : list chunksN) : bool :=
  forallb (fun cs => largest_block_size cs <=? Z.max (largest_block_size old) (largest_block_size new)) plan.

Theorem plan_budget_rank_le1 :
  forall orders oracle old new itemsize threshold bsl degree_limit plan,
    plan_rechunk orders oracle old new itemsize threshold bsl degree_limit = Some plan ->
    (length new <= 1)%nat ->
    plan_within_endpoints old new plan = true.
Proof.
  intros orders oracle old new itemsize threshold bsl degree_limit plan H Hr.
  unfold plan_rechunk in H.
  destruct (Nat.leb (length new) 1) eqn:E; [|apply Nat.leb_gt in E; lia].
  cbn [bound_all] in H.
  destruct (bound_degree old new degree_limit oracle) as [[l oracle']|] eqn:Eb; [|discriminate].
  cbn [option_map] in H. injection H as <-. rewrite app_nil_r.
  apply (bound_degree_shape
           (fun cs => largest_block_size cs <= Z.max (largest_block_size old) (largest_block_size new))) in Eb;
    [|auto].
  destruct Eb as (l' & -> & Hl').
  unfold plan_within_endpoints. apply forallb_forall. intros x Hx.
  apply in_app_or in Hx. destruct Hx as [Hx|[<-|[]]].
  - rewrite Forall_forall in Hl'. specialize (Hl' x Hx). lia.
  - lia.
Qed.

(* ------------------------------------------------------------------ *)
(* The hypotheses are satisfiable on a plan with two steps. *)
Definition ex_old : chunksN := [[1;1;1;1;1;1;1;1];[8]].
Definition ex_new : chunksN := [[8];[1;1;1;1;1;1;1;1]].
Definition ex_orders : list (list nat) := [[0%nat];[0%nat];[0%nat];[0%nat]].

(* size planning inserts one intermediate (budget 16 elements) *)
Example plan_budget_hyps_sat :
  0 < 1 /\ (2 <= length ex_new)%nat /\
  plan_rechunk ex_orders [] ex_old ex_new 1 1 16 100
  = Some [[[2;2;2;2];[8]]; ex_new].
Proof. split; [lia|]. split; [apply le_n|]. vm_compute. reflexivity. Qed.

(* size planning and degree bounding together: four steps *)
Example plan_budget_hyps_sat_degree :
  plan_rechunk ex_orders [3;4;2;2;4;3;2;2;1;1] ex_old ex_new 1 1 16 2
  = Some [[[2;2;2;2];[8]]; [[2;2;2;2];[4;4]]; [[4;4];[2;2;2;2]]; ex_new].
Proof. vm_compute. reflexivity. Qed.

(* rank 1: only degree bounding *)
Example plan_budget_rank_le1_hyps_sat :
  (length [[8]] <= 1)%nat /\
  plan_rechunk [] [3;4;2] [[1;1;1;1;1;1;1;1]] [[8]] 1 1 16 2 = Some [[[2;2;2;2]]; [[4;4]]; [[8]]].
Proof. split; [apply le_n | vm_compute; reflexivity]. Qed.
