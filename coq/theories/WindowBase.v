(* C19 — list toolkit for the window / overlap proofs: Python slices of a list, block
   layouts, prefix sums of chunk sizes. *)
From DA Require Import PyBase PyBaseFacts Slicing Slice1dBase Scan Window.
From Coq Require Import ZifyBool.
Open Scope Z_scope.

Ltac Zify.zify_post_hook ::= Z.to_euclidean_division_equations.

(* ---- firstn / skipn / seq -------------------------------------------------------------- *)
Lemma skipn_skipn {A} (l : list A) : forall a b, skipn a (skipn b l) = skipn (b + a) l.
Proof.
  intros a b. revert l. induction b as [|b IH]; intros l; [reflexivity|].
  destruct l as [|x t]; [rewrite !skipn_nil; reflexivity|]. cbn [Nat.add skipn]. apply IH.
Qed.

Lemma firstn_seq n : forall s m, firstn n (seq s m) = seq s (Nat.min n m).
Proof.
  induction n as [|n IH]; intros s m; [reflexivity|].
  destruct m as [|m]; [reflexivity|]. cbn [seq firstn Nat.min]. rewrite IH. reflexivity.
Qed.

Lemma skipn_seq n : forall s m, skipn n (seq s m) = seq (s + n) (m - n).
Proof.
  induction n as [|n IH]; intros s m.
  - rewrite Nat.add_0_r, Nat.sub_0_r. reflexivity.
  - destruct m as [|m]; [reflexivity|]. cbn [seq skipn Nat.sub]. rewrite IH. f_equal. lia.
Qed.

Lemma map_seq_shift {B} (f : nat -> B) s n : map f (seq s n) = map (fun t => f (s + t)%nat) (seq 0 n).
Proof.
  change s with (0 + s)%nat at 1. rewrite seq_shift_add, map_map. apply map_ext. intros t. f_equal. lia.
Qed.

Lemma list_eq_nth_error {A} (l : list A) (h : nat -> A) n :
  length l = n -> (forall p, (p < n)%nat -> nth_error l p = Some (h p)) -> l = map h (seq 0 n).
Proof.
  revert h n. induction l as [|x t IH]; intros h n Hlen Hp.
  - cbn in Hlen. subst n. reflexivity.
  - destruct n as [|n]; [cbn in Hlen; lia|]. cbn [seq map].
    pose proof (Hp 0%nat ltac:(lia)) as H0. cbn in H0. injection H0 as ->. f_equal.
    rewrite <- seq_shift, map_map. apply IH; [cbn in Hlen; lia|].
    intros p Hlt. apply (Hp (S p)). lia.
Qed.

(* ---- pyslice ---------------------------------------------------------------------------- *)
Lemma zlen_nonneg {A} (l : list A) : 0 <= zlen l.
Proof. unfold zlen. lia. Qed.

Lemma zlen_app {A} (a b : list A) : zlen (a ++ b) = zlen a + zlen b.
Proof. unfold zlen. rewrite app_length. lia. Qed.

Lemma zlen_cons {A} (x : A) l : zlen (x :: l) = zlen l + 1.
Proof. unfold zlen. cbn [length]. lia. Qed.

Lemma pyslice_length {A} (l : list A) a b :
  0 <= a -> a <= b -> b <= zlen l -> zlen (pyslice l a b) = b - a.
Proof.
  unfold zlen, pyslice. intros Ha Hab Hb. rewrite firstn_length, skipn_length. lia.
Qed.

Lemma pyslice_app {A} (l : list A) a b c :
  0 <= a -> a <= b -> b <= c -> pyslice l a c = pyslice l a b ++ pyslice l b c.
Proof.
  unfold pyslice. intros Ha Hab Hbc.
  replace (Z.to_nat (c - a)) with (Z.to_nat (b - a) + Z.to_nat (c - b))%nat by lia.
  rewrite firstn_add. f_equal. rewrite skipn_skipn. do 2 f_equal. lia.
Qed.

Lemma pyslice_empty {A} (l : list A) a b : b <= a -> pyslice l a b = [].
Proof. unfold pyslice. intros H. replace (Z.to_nat (b - a)) with 0%nat by lia. reflexivity. Qed.

Lemma pyslice_all {A} (l : list A) : pyslice l 0 (zlen l) = l.
Proof. unfold pyslice, zlen. cbn [Z.to_nat skipn]. rewrite Z.sub_0_r, Nat2Z.id. apply firstn_all. Qed.

Lemma skipn_pyslice {A} (l : list A) a b t :
  0 <= a -> 0 <= t -> skipn (Z.to_nat t) (pyslice l a b) = pyslice l (a + t) b.
Proof.
  unfold pyslice. intros Ha Ht. rewrite skipn_firstn_comm, skipn_skipn. f_equal; [lia|]. f_equal. lia.
Qed.

Lemma firstn_pyslice {A} (l : list A) a b m :
  0 <= m -> a + m <= b -> firstn (Z.to_nat m) (pyslice l a b) = pyslice l a (a + m).
Proof.
  unfold pyslice. intros Hm Hb. rewrite firstn_firstn. f_equal. lia.
Qed.

Lemma pyslice_pyslice {A} (l : list A) a b u v :
  0 <= a -> 0 <= u -> a + v <= b -> pyslice (pyslice l a b) u v = pyslice l (a + u) (a + v).
Proof.
  intros Ha Hu Hv. unfold pyslice at 1. rewrite skipn_pyslice by lia.
  destruct (Z_le_gt_dec u v) as [Huv|Huv].
  - rewrite firstn_pyslice by lia. f_equal. lia.
  - replace (Z.to_nat (v - u)) with 0%nat by lia. cbn [firstn]. symmetry. apply pyslice_empty. lia.
Qed.

Lemma pyslice_skipn {A} (l : list A) g w : 0 <= w ->
  firstn (Z.to_nat w) (skipn g l) = pyslice l (Z.of_nat g) (Z.of_nat g + w).
Proof. intros Hw. unfold pyslice. rewrite Nat2Z.id. do 2 f_equal. lia. Qed.

Lemma pyslice_app_l {A} (p l : list A) a b :
  0 <= a -> pyslice (p ++ l) (zlen p + a) (zlen p + b) = pyslice l a b.
Proof.
  unfold pyslice, zlen. intros Ha.
  replace (Z.to_nat (Z.of_nat (length p) + a)) with (length p + Z.to_nat a)%nat by lia.
  rewrite <- skipn_skipn. rewrite skipn_app, skipn_all, Nat.sub_diag. cbn [app skipn]. f_equal. lia.
Qed.

Lemma pyslice_app_first {A} (l q : list A) a b :
  0 <= a -> b <= zlen l -> pyslice (l ++ q) a b = pyslice l a b.
Proof.
  unfold pyslice, zlen. intros Ha Hb.
  rewrite skipn_app, firstn_app, skipn_length.
  replace (Z.to_nat (b - a) - (length l - Z.to_nat a))%nat with 0%nat by lia.
  cbn [firstn]. apply app_nil_r.
Qed.

Lemma pyslice_nonempty {A} (l : list A) a b : 0 <= a -> a < b -> b <= zlen l -> pyslice l a b <> [].
Proof.
  intros Ha Hab Hb E. pose proof (pyslice_length l a b Ha ltac:(lia) Hb) as H. rewrite E in H. cbn in H. lia.
Qed.

Lemma nth_error_firstn {A} (l : list A) : forall m t, (t < m)%nat -> nth_error (firstn m l) t = nth_error l t.
Proof.
  induction l as [|x l IH]; intros m t Ht; [rewrite firstn_nil; reflexivity|].
  destruct m; [lia|]. destruct t; [reflexivity|]. cbn [firstn nth_error]. apply IH. lia.
Qed.

Lemma nth_error_skipn {A} (l : list A) : forall k t, nth_error (skipn k l) t = nth_error l (k + t).
Proof.
  induction l as [|x l IH]; intros k t; [rewrite skipn_nil; destruct t, k; reflexivity|].
  destruct k; [reflexivity|]. cbn [skipn Nat.add nth_error]. apply IH.
Qed.

Lemma nth_error_pyslice {A} (l : list A) a b t :
  0 <= a -> (Z.of_nat t < b - a) -> nth_error (pyslice l a b) t = nth_error l (Z.to_nat a + t).
Proof.
  intros Ha Ht. unfold pyslice. rewrite nth_error_firstn by lia. apply nth_error_skipn.
Qed.

(* ---- prefix sums of a layout --------------------------------------------------------- *)
Definition psum (cs : list Z) (i : Z) : Z := zsum (firstnZ i cs).

Lemma psum_0 cs : psum cs 0 = 0.
Proof. reflexivity. Qed.

Lemma psum_all cs : psum cs (zlen cs) = zsum cs.
Proof. unfold psum, firstnZ, zlen. rewrite Nat2Z.id, firstn_all. reflexivity. Qed.

Lemma psum_cons c t i : 0 <= i -> psum (c :: t) (i + 1) = c + psum t i.
Proof.
  intros Hi. unfold psum, firstnZ. replace (Z.to_nat (i + 1)) with (S (Z.to_nat i)) by lia. reflexivity.
Qed.

Lemma zsum_firstn_S cs : forall k, (k < length cs)%nat -> zsum (firstn (S k) cs) = zsum (firstn k cs) + nth k cs 0.
Proof.
  induction cs as [|c t IH]; intros k Hk; [cbn in Hk; lia|].
  destruct k; [cbn [firstn zsum nth]; destruct t; cbn [firstn zsum]; lia|].
  cbn [length] in Hk. specialize (IH k ltac:(lia)).
  change (firstn (S (S k)) (c :: t)) with (c :: firstn (S k) t).
  change (firstn (S k) (c :: t)) with (c :: firstn k t). cbn [zsum nth]. lia.
Qed.

Lemma psum_succ cs i : 0 <= i < zlen cs -> psum cs (i + 1) = psum cs i + nthZ cs i.
Proof.
  unfold psum, firstnZ, nthZ, zlen. intros Hi.
  replace (Z.to_nat (i + 1)) with (S (Z.to_nat i)) by lia.
  apply zsum_firstn_S. lia.
Qed.

Lemma psum_mono cs i j : Forall (fun c => 0 <= c) cs -> 0 <= i -> i <= j -> psum cs i <= psum cs j.
Proof. intros Hnn Hi Hij. unfold psum. apply zsum_firstnZ_le; assumption || lia. Qed.

Lemma psum_le_total cs i : Forall (fun c => 0 <= c) cs -> psum cs i <= zsum cs.
Proof. intros Hnn. unfold psum. apply zsum_firstnZ_le_all. exact Hnn. Qed.

Lemma nthZ_starts cs i : 0 <= i <= zlen cs -> nthZ (starts cs) i = psum cs i.
Proof.
  intros Hi. unfold starts. destruct (Z.eq_dec i 0) as [->|Hne]; [reflexivity|].
  unfold nthZ. replace (Z.to_nat i) with (S (Z.to_nat (i - 1))) by lia. cbn [nth].
  change (nth (Z.to_nat (i - 1)) (cumsum cs) 0) with (nthZ (cumsum cs) (i - 1)).
  rewrite cumsum_nthZ; [reflexivity|]. unfold lenZ. unfold zlen in Hi. lia.
Qed.

(* bisect_right(starts, x) - 1 is the block holding position x *)
Lemma bisect_starts cs x :
  0 <= x ->
  let b := bisect_right (starts cs) x - 1 in
  0 <= b <= zlen cs /\ psum cs b <= x /\ (b < zlen cs -> x < psum cs (b + 1)).
Proof.
  intros Hx. unfold starts. cbn [bisect_right].
  destruct (0 <=? x) eqn:E; [|lia].
  pose proof (bisect_right_cumsum cs 0 x) as H. cbv zeta in H. fold (cumsum cs) in H.
  set (j := bisect_right (cumsum cs) x) in *. destruct H as (H1 & H2 & H3).
  replace (1 + j - 1) with j by lia. change (lenZ cs) with (zlen cs) in *.
  split; [lia|]. split.
  - destruct (Z.eq_dec j 0) as [->|Hne]; [rewrite psum_0; lia|]. unfold psum. specialize (H2 ltac:(lia)). lia.
  - intros Hlt. unfold psum. specialize (H3 Hlt). lia.
Qed.

(* ---- split_blocks -------------------------------------------------------------------- *)
Lemma split_blocks_length {A} cs (xs : list A) : length (split_blocks cs xs) = length cs.
Proof. revert xs. induction cs as [|c t IH]; intros xs; cbn; [reflexivity|]. rewrite IH. reflexivity. Qed.

Lemma getblock_split {A} cs : forall (xs : list A) i,
  Forall (fun c => 0 <= c) cs -> 0 <= i < zlen cs ->
  getblock (split_blocks cs xs) i = pyslice xs (psum cs i) (psum cs (i + 1)).
Proof.
  induction cs as [|c t IH]; intros xs i Hnn Hi; [unfold zlen in Hi; cbn in Hi; lia|].
  inversion Hnn as [|c' t' Hc Ht]; subst.
  destruct (Z.eq_dec i 0) as [->|Hne].
  - cbn [split_blocks]. unfold getblock. cbn [Z.to_nat nth].
    change (0 + 1) with 1. unfold psum, firstnZ. cbn [Z.to_nat firstn zsum Pos.to_nat].
    change (Pos.to_nat 1) with 1%nat. cbn [firstn zsum]. unfold pyslice. cbn [Z.to_nat skipn].
    f_equal. lia.
  - rewrite zlen_cons in Hi.
    assert (Ei : i = (i - 1) + 1) by lia. set (i' := i - 1) in *. assert (Hi' : 0 <= i' < zlen t) by lia.
    clearbody i'. subst i. unfold getblock.
    replace (Z.to_nat (i' + 1)) with (S (Z.to_nat i')) by lia. cbn [split_blocks nth].
    change (nth (Z.to_nat i') (split_blocks t (skipn (Z.to_nat c) xs)) []) with (getblock (split_blocks t (skipn (Z.to_nat c) xs)) i').
    rewrite IH by (assumption || lia).
    rewrite !psum_cons by lia.
    assert (Hp : 0 <= psum t i') by (unfold psum; apply zsum_nonneg, Forall_firstn; exact Ht).
    unfold pyslice. rewrite skipn_skipn. f_equal; [lia|]. f_equal. lia.
Qed.

Lemma range_len_1 a b : range_len a b 1 = Z.max 0 (b - a).
Proof.
  unfold range_len. change (1 >? 0) with true. cbv iota.
  destruct (a <? b) eqn:E; [rewrite Z.div_1_r|]; lia.
Qed.

Lemma zrange_1_cons a b : a < b -> zrange a b 1 = a :: zrange (a + 1) b 1.
Proof.
  intros H. unfold zrange. rewrite !range_len_1.
  replace (Z.to_nat (Z.max 0 (b - a))) with (S (Z.to_nat (Z.max 0 (b - (a + 1))))) by lia.
  cbn [seq map]. f_equal; [lia|]. rewrite <- seq_shift, map_map. apply map_ext. intros i. lia.
Qed.

Lemma zrange_1_nil a b : b <= a -> zrange a b 1 = [].
Proof. intros H. unfold zrange. rewrite range_len_1. replace (Z.to_nat (Z.max 0 (b - a))) with 0%nat by lia. reflexivity. Qed.

Lemma zrange_1_length a b : length (zrange a b 1) = Z.to_nat (b - a).
Proof. unfold zrange. rewrite map_length, seq_length, range_len_1. lia. Qed.

Lemma concat_getblocks {A} cs (xs : list A) : forall (m : nat) a,
  Forall (fun c => 0 <= c) cs -> 0 <= a -> a + Z.of_nat m <= zlen cs ->
  concat (map (getblock (split_blocks cs xs)) (zrange a (a + Z.of_nat m) 1)) =
  pyslice xs (psum cs a) (psum cs (a + Z.of_nat m)).
Proof.
  induction m as [|m IH]; intros a Hnn Ha Hb.
  - rewrite Z.add_0_r. rewrite zrange_1_nil by lia. cbn. symmetry. apply pyslice_empty. lia.
  - rewrite zrange_1_cons by lia. cbn [map concat].
    replace (a + Z.of_nat (S m)) with (a + 1 + Z.of_nat m) by lia.
    rewrite IH by (assumption || lia).
    rewrite getblock_split by (assumption || lia).
    symmetry. apply pyslice_app.
    + unfold psum. apply zsum_nonneg, Forall_firstn. exact Hnn.
    + apply psum_mono; [exact Hnn | lia | lia].
    + apply psum_mono; [exact Hnn | lia | lia].
Qed.

Lemma concat_split_blocks {A} cs : forall (xs : list A),
  Forall (fun c => 0 <= c) cs -> zsum cs = zlen xs -> concat (split_blocks cs xs) = xs.
Proof.
  induction cs as [|c t IH]; intros xs Hnn Hs.
  - cbn in Hs. destruct xs; [reflexivity|]. rewrite zlen_cons in Hs. pose proof (zlen_nonneg xs). lia.
  - inversion Hnn as [|c' t' Hc Ht]; subst. cbn [split_blocks concat].
    rewrite IH; [apply firstn_skipn | exact Ht |].
    pose proof (zsum_nonneg t Ht). unfold zlen in *. rewrite skipn_length. cbn [zsum] in Hs. lia.
Qed.

Lemma map_zlen_split_blocks {A} cs : forall (xs : list A),
  Forall (fun c => 0 <= c) cs -> zsum cs = zlen xs -> map zlen (split_blocks cs xs) = cs.
Proof.
  induction cs as [|c t IH]; intros xs Hnn Hs; [reflexivity|].
  inversion Hnn as [|c' t' Hc Ht]; subst. cbn [split_blocks map]. cbn [zsum] in Hs.
  pose proof (zsum_nonneg t Ht) as Hz.
  f_equal.
  - unfold zlen in *. rewrite firstn_length. lia.
  - apply IH; [exact Ht|]. unfold zlen in *. rewrite skipn_length. lia.
Qed.
